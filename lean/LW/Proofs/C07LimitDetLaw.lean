/-
  C07 limit statements, part C2 (probabilistic form): on an i.i.d. uniform tape the detected state
  has law `detectorKernel`.

  The real twin `detectorSampleR` reads the tape only through the tests `u > η` (efficiency stage)
  and `u < p_dark` (dark-count stage), i.e. through independent bits; the event "detected state = t"
  is a finite disjoint union of boxes, whose probabilities are computed by independence and summed
  by the bit-tape calculus of C07LimitDetComb.
-/
import Mathlib.Probability.Independence.Basic
import LW.Proofs.C07LimitDetComb
import LW.Proofs.C07LimitLLN

set_option linter.unusedSimpArgs false

namespace LW.Proofs.C07

open MeasureTheory ProbabilityTheory

/-! ### the detector reads a long enough tape through bits -/

section bits
variable {α : Type}

theorem keptList_eq_keptB (lost : α → Prop) [DecidablePred lost] (s : FState) (tape : List α)
    (h : s.sum ≤ tape.length) :
    keptList lost s tape = keptB s ((tape.take s.sum).map fun u => decide (¬ lost u)) := by
  induction s generalizing tape with
  | nil => rfl
  | cons n s ih =>
    rw [List.sum_cons] at h
    have hlen : (tape.take n).length = n := by rw [List.length_take]; omega
    have hc := List.length_eq_countP_add_countP (fun u => decide (lost u)) (l := tape.take n)
    rw [hlen] at hc
    simp only [keptList, keptB, List.sum_cons, ← List.map_take, ← List.map_drop, List.take_take,
      List.drop_take, List.count_eq_countP, List.countP_map]
    rw [ih (tape.drop n) (by rw [List.length_drop]; omega)]
    congr 1
    · have e : min n (n + s.sum) = n := by omega
      rw [e]
      have : List.countP ((fun x => x == true) ∘ fun u => decide ¬lost u) (tape.take n) =
          List.countP (fun a => decide ¬(decide (lost a) = true)) (tape.take n) := by
        congr 1; funext u; simp
      rw [this]; omega
    · have e : n + s.sum - n = s.sum := by omega
      rw [e]

theorem darkList_eq_darkB (dark : α → Prop) [DecidablePred dark] (o : FState) (tape : List α)
    (h : o.length ≤ tape.length) :
    darkList dark o tape = darkB o ((tape.take o.length).map fun u => decide (dark u)) := by
  induction o generalizing tape with
  | nil => rfl
  | cons n o ih =>
    cases tape with
    | nil => simp at h
    | cons u t =>
      simp only [List.length_cons, List.take_succ_cons, List.map_cons, darkB, darkList]
      rw [ih t (by simpa using h)]
      simp [darkB]

/-- the closed form, on a tape `t1 ++ t2 ++ e` whose first block is what the efficiency stage reads
and whose second block is what the dark-count stage reads, is `outB` of the bits -/
theorem detClosed_eq_outB (lost dark : α → Prop) [DecidablePred lost] [DecidablePred dark]
    (d : Det) (s : FState) (t1 t2 e : List α) (h1 : t1.length = nEff d s)
    (h2 : t2.length = nDark d s) :
    (detClosed lost dark d s (t1 ++ (t2 ++ e))).1 =
      outB d s (t1.map fun u => decide (¬ lost u)) (t2.map fun u => decide (dark u)) := by
  unfold detClosed outB
  unfold nEff at h1
  unfold nDark at h2
  by_cases he : d.eta < 1
  · simp only [he, if_true] at h1 ⊢
    have hk : keptList lost s (t1 ++ (t2 ++ e)) = keptB s (t1.map fun u => decide (¬ lost u)) := by
      rw [keptList_eq_keptB lost s _ (by rw [List.length_append]; omega), List.take_left' h1]
    rw [hk, List.drop_left' h1]
    by_cases hq : d.pDark > 0
    · simp only [hq, if_true] at h2 ⊢
      rw [darkList_eq_darkB dark _ _ (by rw [keptB_length, List.length_append]; omega),
        keptB_length, List.take_left' h2]
    · simp only [hq, if_false]
  · simp only [he, if_false] at h1 ⊢
    have : t1 = [] := List.eq_nil_of_length_eq_zero h1
    subst this
    by_cases hq : d.pDark > 0
    · simp only [hq, if_true] at h2 ⊢
      rw [List.nil_append, darkList_eq_darkB dark _ _ (by rw [List.length_append]; omega),
        List.take_left' h2]
    · simp only [hq, if_false]

end bits

/-! ### probabilities of bit patterns under independence -/

def wt (w : ℝ) (c : Bool) : ℝ := if c then w else 1 - w

/-- all bit lists of length `n` -/
def allBits : ℕ → Finset (List Bool)
  | 0 => {[]}
  | n + 1 => (allBits n).image (List.cons true) ∪ (allBits n).image (List.cons false)

theorem mem_allBits {n : ℕ} {b : List Bool} : b ∈ allBits n ↔ b.length = n := by
  induction n generalizing b with
  | zero => simp [allBits]
  | succ n ih =>
    simp only [allBits, Finset.mem_union, Finset.mem_image, ih]
    constructor
    · rintro (⟨a, ha, rfl⟩ | ⟨a, ha, rfl⟩) <;> simp [ha]
    · intro h
      cases b with
      | nil => simp at h
      | cons c b =>
        cases c
        · exact Or.inr ⟨b, by simpa using h, rfl⟩
        · exact Or.inl ⟨b, by simpa using h, rfl⟩

/-- weight of a bit pattern: bit `i` is true with probability `w i` -/
noncomputable def patW (w : ℕ → ℝ) (b : List Bool) : ℝ :=
  ∏ i ∈ Finset.range b.length, wt (w i) (b.getD i false)

theorem patW_cons (w : ℕ → ℝ) (c : Bool) (b : List Bool) :
    patW w (c :: b) = wt (w 0) c * patW (fun i => w (i + 1)) b := by
  unfold patW
  rw [List.length_cons, Finset.prod_range_succ', mul_comm]
  simp

theorem sum_allBits (n : ℕ) (w : ℕ → ℝ) (G : List Bool → ℝ) :
    ∑ b ∈ allBits n, patW w b * G b = EB ((List.range n).map w) G := by
  induction n generalizing w G with
  | zero => simp [allBits, patW, EB]
  | succ n ih =>
    have hdisj : Disjoint ((allBits n).image (List.cons true))
        ((allBits n).image (List.cons false)) := by
      rw [Finset.disjoint_left]
      intro b hb1 hb2
      simp only [Finset.mem_image] at hb1 hb2
      obtain ⟨a, _, rfl⟩ := hb1
      obtain ⟨a', _, h⟩ := hb2
      simp at h
    rw [allBits, Finset.sum_union hdisj,
      Finset.sum_image (fun a _ b _ h => List.cons_injective h),
      Finset.sum_image (fun a _ b _ h => List.cons_injective h),
      List.range_succ_eq_map, List.map_cons, List.map_map, EB]
    simp only [patW_cons, wt, if_true, Bool.false_eq_true, if_false, mul_assoc]
    rw [← Finset.mul_sum, ← Finset.mul_sum, ih, ih]
    rfl

theorem patW_nonneg (w : ℕ → ℝ) (h0 : ∀ i, 0 ≤ w i) (h1 : ∀ i, w i ≤ 1) (b : List Bool) :
    0 ≤ patW w b := by
  unfold patW
  apply Finset.prod_nonneg
  intro i _
  unfold wt
  split
  · exact h0 i
  · linarith [h1 i]

section indep
variable {Ω : Type*} [MeasurableSpace Ω] {μ : Measure Ω}

/-- the bits read off the first `n` variates: bit `i` is "`V i ∈ A i`" -/
noncomputable def bitsOf (V : ℕ → Ω → ℝ) (A : ℕ → Set ℝ) (n : ℕ) (ω : Ω) : List Bool :=
  open Classical in (List.range n).map fun i => decide (V i ω ∈ A i)

omit [MeasurableSpace Ω] in
theorem bitsOf_eq_iff (V : ℕ → Ω → ℝ) (A : ℕ → Set ℝ) (n : ℕ) (b : List Bool)
    (hb : b.length = n) :
    {ω | bitsOf V A n ω = b} =
      ⋂ i ∈ Finset.range n, (V i) ⁻¹' (if b.getD i false then A i else (A i)ᶜ) := by
  classical
  ext ω
  simp only [Set.mem_ofPred_eq, Set.mem_iInter, Finset.mem_range, Set.mem_preimage]
  constructor
  · intro h i hi
    have : b.getD i false = decide (V i ω ∈ A i) := by
      rw [← h]; simp [bitsOf, hi]
    rw [this]
    by_cases hv : V i ω ∈ A i <;> simp [hv]
  · intro h
    apply List.ext_getElem
    · simp [bitsOf, hb]
    · intro i h1 h2
      have hi : i < n := by simpa [bitsOf] using h1
      have := h i hi
      rw [List.getD_eq_getElem _ _ h2] at this
      simp only [bitsOf, List.getElem_map, List.getElem_range]
      by_cases hv : V i ω ∈ A i
      · cases hbi : b[i] with
        | true => simp [hv]
        | false => simp [hbi] at this; exact absurd hv this
      · cases hbi : b[i] with
        | true => simp [hbi] at this; exact absurd this hv
        | false => simp [hv]

theorem measure_bitsOf_eq (V : ℕ → Ω → ℝ) (hindep : iIndepFun V μ)
    (hlaw : ∀ i, Measure.map (V i) μ = uniform01) (A : ℕ → Set ℝ) (hA : ∀ i, MeasurableSet (A i))
    (n : ℕ) (b : List Bool) (hb : b.length = n) :
    μ {ω | bitsOf V A n ω = b} =
      ENNReal.ofReal (patW (fun i => (uniform01 (A i)).toReal) b) := by
  have haem : ∀ i, AEMeasurable (V i) μ := fun i => aemeasurable_of_map_eq_uniform (V i) (hlaw i)
  have hA' : ∀ i, MeasurableSet (if b.getD i false then A i else (A i)ᶜ) := by
    intro i; split
    · exact hA i
    · exact (hA i).compl
  rw [bitsOf_eq_iff V A n b hb,
    hindep.meas_biInter (fun i _ => ⟨_, hA' i, rfl⟩)]
  unfold patW
  rw [hb, ENNReal.ofReal_prod_of_nonneg]
  · refine Finset.prod_congr rfl fun i _ => ?_
    rw [← Measure.map_apply_of_aemeasurable (haem i) (hA' i), hlaw i]
    unfold wt
    cases b.getD i false with
    | true =>
      simp only [if_true]
      rw [ENNReal.ofReal_toReal (measure_ne_top _ _)]
    | false =>
      simp only [Bool.false_eq_true, if_false]
      rw [prob_compl_eq_one_sub (hA i), ENNReal.ofReal_sub _ ENNReal.toReal_nonneg,
        ENNReal.ofReal_one, ENNReal.ofReal_toReal (measure_ne_top _ _)]
  · intro i _
    unfold wt
    split
    · exact ENNReal.toReal_nonneg
    · have : (uniform01 (A i)).toReal ≤ 1 := by
        have h := prob_le_one (μ := uniform01) (s := A i)
        exact ENNReal.toReal_le_of_le_ofReal zero_le_one (by simpa using h)
      linarith

theorem nullMeasurableSet_bitsOf_eq (V : ℕ → Ω → ℝ)
    (hlaw : ∀ i, Measure.map (V i) μ = uniform01) (A : ℕ → Set ℝ) (hA : ∀ i, MeasurableSet (A i))
    (n : ℕ) (b : List Bool) (hb : b.length = n) :
    NullMeasurableSet {ω | bitsOf V A n ω = b} μ := by
  have haem : ∀ i, AEMeasurable (V i) μ := fun i => aemeasurable_of_map_eq_uniform (V i) (hlaw i)
  rw [bitsOf_eq_iff V A n b hb]
  apply Finset.nullMeasurableSet_biInter
  intro i _
  apply (haem i).nullMeasurableSet_preimage
  split
  · exact hA i
  · exact (hA i).compl

/-- LAW OF THE BITS: any event about the bits has the probability given by the bit calculus -/
theorem measure_bitsOf (V : ℕ → Ω → ℝ) (hindep : iIndepFun V μ)
    (hlaw : ∀ i, Measure.map (V i) μ = uniform01) (A : ℕ → Set ℝ) (hA : ∀ i, MeasurableSet (A i))
    (n : ℕ) (G : List Bool → Prop) [DecidablePred G] :
    μ {ω | G (bitsOf V A n ω)} =
      ENNReal.ofReal (EB ((List.range n).map fun i => (uniform01 (A i)).toReal)
        (fun b => ind (G b))) := by
  set w : ℕ → ℝ := fun i => (uniform01 (A i)).toReal with hw
  have hw0 : ∀ i, 0 ≤ w i := fun i => ENNReal.toReal_nonneg
  have hw1 : ∀ i, w i ≤ 1 := by
    intro i
    have h := prob_le_one (μ := uniform01) (s := A i)
    exact ENNReal.toReal_le_of_le_ofReal zero_le_one (by simpa using h)
  have hset : {ω | G (bitsOf V A n ω)} =
      ⋃ b ∈ (allBits n).filter G, {ω | bitsOf V A n ω = b} := by
    ext ω
    simp only [Set.mem_ofPred_eq, Set.mem_iUnion, Finset.mem_filter, mem_allBits, exists_prop]
    constructor
    · intro h; exact ⟨_, ⟨by simp [bitsOf], h⟩, rfl⟩
    · rintro ⟨b, ⟨_, hG⟩, rfl⟩; exact hG
  rw [hset, measure_biUnion_finset₀]
  · rw [← sum_allBits, ENNReal.ofReal_sum_of_nonneg]
    · rw [Finset.sum_filter]
      refine Finset.sum_congr rfl fun b hb => ?_
      have hbn := mem_allBits.mp hb
      by_cases hG : G b
      · simp only [hG, if_true, ind, mul_one]
        exact measure_bitsOf_eq V hindep hlaw A hA n b hbn
      · simp [hG, ind]
    · intro b _
      refine mul_nonneg (patW_nonneg w hw0 hw1 b) ?_
      unfold ind; split <;> norm_num
  · intro b1 _ b2 _ hne
    apply Disjoint.aedisjoint
    rw [Set.disjoint_left]
    intro ω h1 h2
    exact hne (h1.symm.trans h2)
  · intro b hb
    exact nullMeasurableSet_bitsOf_eq V hlaw A hA n b (mem_allBits.mp (Finset.mem_filter.mp hb).1)

end indep

/-! ### the detector on an i.i.d. uniform tape -/

/-- the variates for which a photon is kept (`¬ u > η`) / a dark count occurs (`u < p_dark`) -/
def keptSet (d : Det) : Set ℝ := {u | ¬ u > (d.eta : ℝ)}
def darkSet (d : Det) : Set ℝ := {u | u < (d.pDark : ℝ)}

/-- the test applied to tape position `i` -/
def detA (d : Det) (s : FState) (i : ℕ) : Set ℝ := if i < nEff d s then keptSet d else darkSet d

theorem measurableSet_detA (d : Det) (s : FState) (i : ℕ) : MeasurableSet (detA d s i) := by
  unfold detA keptSet darkSet
  split
  · exact (measurableSet_lt measurable_const measurable_id).compl
  · exact measurableSet_lt measurable_id measurable_const

theorem uniform01_keptSet (d : Det) (h0 : 0 ≤ d.eta) (h1 : d.eta ≤ 1) :
    uniform01 (keptSet d) = ENNReal.ofReal (d.eta : ℝ) := by
  have h0' : (0 : ℝ) ≤ d.eta := by exact_mod_cast h0
  have h1' : (d.eta : ℝ) ≤ 1 := by exact_mod_cast h1
  have hm : MeasurableSet (keptSet d) := (measurableSet_lt measurable_const measurable_id).compl
  rw [uniform01, Measure.restrict_apply hm]
  by_cases he : (d.eta : ℝ) < 1
  · have : keptSet d ∩ Set.Ico 0 1 = Set.Icc 0 (d.eta : ℝ) := by
      ext u
      simp only [keptSet, Set.mem_inter_iff, Set.mem_ofPred_eq, Set.mem_Ico, Set.mem_Icc, not_lt]
      constructor
      · rintro ⟨hu, hu0, _⟩; exact ⟨hu0, hu⟩
      · rintro ⟨hu0, hu⟩; exact ⟨hu, hu0, lt_of_le_of_lt hu he⟩
    rw [this, Real.volume_Icc, sub_zero]
  · have he1 : (d.eta : ℝ) = 1 := le_antisymm h1' (not_lt.mp he)
    have : keptSet d ∩ Set.Ico 0 1 = Set.Ico 0 1 := by
      ext u
      simp only [keptSet, Set.mem_inter_iff, Set.mem_ofPred_eq, Set.mem_Ico, not_lt, he1]
      constructor
      · rintro ⟨_, h⟩; exact h
      · rintro ⟨hu0, hu1⟩; exact ⟨hu1.le, hu0, hu1⟩
    rw [this, Real.volume_Ico, sub_zero, he1]

theorem uniform01_darkSet (d : Det) (h3 : d.pDark ≤ 1) :
    uniform01 (darkSet d) = ENNReal.ofReal (d.pDark : ℝ) := by
  have h3' : (d.pDark : ℝ) ≤ 1 := by exact_mod_cast h3
  have hm : MeasurableSet (darkSet d) := measurableSet_lt measurable_id measurable_const
  rw [uniform01, Measure.restrict_apply hm]
  have : darkSet d ∩ Set.Ico 0 1 = Set.Ico 0 (d.pDark : ℝ) := by
    ext u
    simp only [darkSet, Set.mem_inter_iff, Set.mem_ofPred_eq, Set.mem_Ico]
    constructor
    · rintro ⟨hu, hu0, _⟩; exact ⟨hu0, hu⟩
    · rintro ⟨hu0, hu⟩; exact ⟨hu, hu0, lt_of_lt_of_le hu h3'⟩
  rw [this, Real.volume_Ico, sub_zero]

theorem detA_weights (d : Det) (h0 : 0 ≤ d.eta) (h1 : d.eta ≤ 1) (h2 : 0 ≤ d.pDark)
    (h3 : d.pDark ≤ 1) (s : FState) :
    ((List.range (nEff d s + nDark d s)).map fun i => (uniform01 (detA d s i)).toReal) =
      (List.replicate (nEff d s) d.eta ++ List.replicate (nDark d s) d.pDark).map
        (Rat.castHom ℝ) := by
  have h0' : (0 : ℝ) ≤ d.eta := by exact_mod_cast h0
  have h2' : (0 : ℝ) ≤ d.pDark := by exact_mod_cast h2
  rw [List.range_add, List.map_append, List.map_append, List.map_map]
  congr 1
  · rw [List.map_replicate, List.eq_replicate_iff]
    refine ⟨by simp, ?_⟩
    intro x hx
    rw [List.mem_map] at hx
    obtain ⟨i, hi, rfl⟩ := hx
    have hi' : i < nEff d s := List.mem_range.mp hi
    simp only [detA, hi', if_true, uniform01_keptSet d h0 h1, ENNReal.toReal_ofReal h0']
    rfl
  · rw [List.map_replicate, List.eq_replicate_iff]
    refine ⟨by simp, ?_⟩
    intro x hx
    rw [List.mem_map] at hx
    obtain ⟨i, _, rfl⟩ := hx
    have hi' : ¬ (nEff d s + i < nEff d s) := by omega
    simp only [Function.comp_apply, detA, hi', if_false, uniform01_darkSet d h3,
      ENNReal.toReal_ofReal h2']
    rfl

section law
variable {Ω : Type*} [MeasurableSpace Ω] {μ : Measure Ω}

omit [MeasurableSpace Ω] in
/-- on a tape of length at least `nEff + nDark` the detected state is `outB` of the bits -/
theorem detectorSampleR_eq_outB (V : ℕ → Ω → ℝ) (d : Det) (s : FState) (T : ℕ)
    (hT : nEff d s + nDark d s ≤ T) (ω : Ω) :
    (detectorSampleR d s ((List.range T).map fun i => V i ω)).1 =
      outB d s ((bitsOf V (detA d s) (nEff d s + nDark d s) ω).take (nEff d s))
        ((bitsOf V (detA d s) (nEff d s + nDark d s) ω).drop (nEff d s)) := by
  classical
  obtain ⟨E, rfl⟩ : ∃ E, T = nEff d s + (nDark d s + E) := ⟨T - (nEff d s + nDark d s), by omega⟩
  rw [detectorSampleR_closed, List.range_add, List.map_append, List.range_add, List.map_append,
    List.map_append]
  rw [detClosed_eq_outB _ _ d s _ _ _ (by simp) (by simp)]
  have hb : bitsOf V (detA d s) (nEff d s + nDark d s) ω =
      ((List.range (nEff d s)).map fun i => V i ω).map (fun u => decide (¬ u > (d.eta : ℝ))) ++
      (((List.range (nDark d s)).map (nEff d s + ·)).map fun i => V i ω).map
        (fun u => decide (u < (d.pDark : ℝ))) := by
    unfold bitsOf
    rw [List.range_add, List.map_append]
    congr 1
    · rw [List.map_map]
      apply List.map_congr_left
      intro i hi
      have hi' : i < nEff d s := List.mem_range.mp hi
      simp only [Function.comp_apply, detA, hi', if_true, keptSet, Set.mem_ofPred_eq]
    · rw [List.map_map, List.map_map, List.map_map]
      apply List.map_congr_left
      intro i _
      have hi' : ¬ (nEff d s + i < nEff d s) := by omega
      simp only [Function.comp_apply, detA, hi', if_false, darkSet, Set.mem_ofPred_eq]
  rw [hb, List.take_left' (by simp), List.drop_left' (by simp)]

/-- DETECTOR LAW: let the tape entries `V 0, V 1, …` be independent and uniform on `[0,1)`, let
the efficiency and dark-count probability lie in `[0,1]`, and let the tape handed to the detector
be at least as long as what it reads.  Then the detected state equals `t` with probability the total
weight of `t` in the exact kernel `detectorKernel d s`. -/
theorem detectorSampleR_law (V : ℕ → Ω → ℝ) (hindep : iIndepFun V μ)
    (hlaw : ∀ i, Measure.map (V i) μ = volume.restrict (Set.Ico (0 : ℝ) 1))
    (d : Det) (h0 : 0 ≤ d.eta) (h1 : d.eta ≤ 1) (h2 : 0 ≤ d.pDark) (h3 : d.pDark ≤ 1)
    (s : FState) (T : ℕ) (hT : nEff d s + nDark d s ≤ T) (t : FState) :
    μ {ω | (detectorSampleR d s ((List.range T).map fun i => V i ω)).1 = t} =
      ENNReal.ofReal ((kernelWeight d s t : ℚ) : ℝ) := by
  have hset : {ω | (detectorSampleR d s ((List.range T).map fun i => V i ω)).1 = t} =
      {ω | (fun b : List Bool => outB d s (b.take (nEff d s)) (b.drop (nEff d s)) = t)
        (bitsOf V (detA d s) (nEff d s + nDark d s) ω)} := by
    ext ω
    simp only [Set.mem_ofPred_eq, detectorSampleR_eq_outB V d s T hT ω]
  rw [hset, measure_bitsOf V hindep hlaw (detA d s) (measurableSet_detA d s)
      (nEff d s + nDark d s)
      (fun b : List Bool => outB d s (b.take (nEff d s)) (b.drop (nEff d s)) = t),
    detA_weights d h0 h1 h2 h3 s, ← detLaw_eq_kernelWeight d h1 h2 s t]
  congr 1
  have := EB_map (Rat.castHom ℝ)
    (List.replicate (nEff d s) d.eta ++ List.replicate (nDark d s) d.pDark)
    (fun b => ind (outB d s (b.take (nEff d s)) (b.drop (nEff d s)) = t))
  rw [Rat.coe_castHom] at this
  rw [this]
  apply EB_congr
  intro b _
  unfold ind
  split <;> simp

end law

theorem nEff_add_nDark_le (d : Det) (s : FState) : nEff d s + nDark d s ≤ photons s + s.length := by
  have hp : photons s = s.sum := by unfold photons; rw [List.sum_eq_foldl]
  unfold nEff nDark
  rw [hp]
  split <;> split <;> omega

/-- DETECTOR LAW with the hypotheses spelled out in model terms: a tape of `photons s + s.length`
entries always suffices, and the probability is the total weight of `t` in `detectorKernel d s` -/
theorem detectorSampleR_law' {Ω : Type*} [MeasurableSpace Ω] {μ : Measure Ω}
    (V : ℕ → Ω → ℝ) (hindep : iIndepFun V μ)
    (hlaw : ∀ i, Measure.map (V i) μ = volume.restrict (Set.Ico (0 : ℝ) 1))
    (d : Det) (h0 : 0 ≤ d.eta) (h1 : d.eta ≤ 1) (h2 : 0 ≤ d.pDark) (h3 : d.pDark ≤ 1)
    (s : FState) (T : ℕ) (hT : photons s + s.length ≤ T) (t : FState) :
    μ {ω | (detectorSampleR d s ((List.range T).map fun i => V i ω)).1 = t} =
      ENNReal.ofReal (((((detectorKernel d s).filter (·.1 == t)).map (·.2)).sum : ℚ) : ℝ) :=
  detectorSampleR_law V hindep hlaw d h0 h1 h2 h3 s T
    (le_trans (nEff_add_nDark_le d s) hT) t

end LW.Proofs.C07
