/-
  LW.Proofs.FockIsoDeps — the four basic facts about the Fock model on which the isometry proof
  rests, re-exported from `LW.Proofs.C03Basis` / `LW.Proofs.C03Perm` (namespace `LW.Proofs.C03`).
-/
import LW.Proofs.C03Basis
import LW.Proofs.C03Perm

namespace LW.Proofs.FockIso

variable {K : Type}

theorem fockBasis_complete (N n : Nat) (hN : 0 < N) (s : FState) :
    s ∈ fockBasis N n ↔ s.length = N ∧ photons s = n :=
  C03.fockBasis_complete N n hN s

theorem fockBasis_nodup (N n : Nat) : (fockBasis N n).Nodup := C03.fockBasis_nodup N n

theorem permRC_eq_permanent [CommRing K] (U : M K) (k : Nat) (rows cols : Fin k → Nat) :
    permRC U (List.ofFn rows) (List.ofFn cols) =
      Matrix.permanent (Matrix.of fun a b => U.get (rows a) (cols b)) :=
  C03.permRC_eq_permanent U k rows cols

theorem partitionIdx_spec (s : FState) :
    (partitionIdx s).length = photons s ∧ ∀ m, (partitionIdx s).count m = s.getD m 0 :=
  C03.partitionIdx_spec s

end LW.Proofs.FockIso
