/- kernel decision of one amplitude table of the gate library (see LW/Proofs/C13.lean) -/
import LW.Proofs.C13Tab.Defs

namespace LW.Gates

theorem tab_CNOT1 : hasTableB cCZ.i (CNOT cCZ 1) 2 kCZ (namedCNOT 1) false = true := by decide +kernel

end LW.Gates
