/-
  Scalars of the amplitude tables in the exact towers (core Lean only).
-/
import LW.Model.GateTowers

namespace LW.Gates

/-- `-1/3` -/
def kCZ : TCZ := TCZ.ofT2 (T2.ofS ⟨-2, 1⟩)
/-- `1/4` -/
def kCZH : TCZH := TCZH.ofT2 (T2.ofS ⟨9, 2⟩)
/-- `i/(6√2) = i·√2/12` -/
def kCCZ : TCCZ := ⟨0, Quad.lift (TCZ.ofT2 ⟨0, ⟨3, 2⟩⟩)⟩
/-- its complex conjugate `-i·√2/12` -/
def kCCZc : TCCZ := ⟨0, Quad.lift (TCZ.ofT2 ⟨0, ⟨-3, 2⟩⟩)⟩

end LW.Gates
