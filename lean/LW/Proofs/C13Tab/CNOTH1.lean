/- kernel decision of one amplitude table of the gate library (see LW/Proofs/C13.lean) -/
import LW.Proofs.C13Tab.Defs

namespace LW.Gates

theorem tab_CNOTH1 : hasTableB cCZH.i (CNOTH cCZH 1) 2 kCZH (namedCNOT 1) true = true := by decide +kernel

end LW.Gates
