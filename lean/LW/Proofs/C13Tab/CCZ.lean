/- kernel decision of one amplitude table of the gate library (see LW/Proofs/C13.lean) -/
import LW.Proofs.C13Tab.Defs

namespace LW.Gates

theorem tab_CCZ : hasTableB cCCZ.i (CCZ cCCZ) 3 kCCZ namedCZ false = true := by decide +kernel

end LW.Gates
