/- kernel decision of one amplitude table of the gate library (see LW/Proofs/C13.lean) -/
import LW.Proofs.C13Tab.Defs

namespace LW.Gates

theorem tab_CCNOT2 : hasTableB cCCZ.i (CCNOT cCCZ 2) 3 kCCZ (namedCNOT 2) false = true := by decide +kernel

end LW.Gates
