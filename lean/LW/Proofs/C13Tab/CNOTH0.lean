/- kernel decision of one amplitude table of the gate library (see LW/Proofs/C13.lean) -/
import LW.Proofs.C13Tab.Defs

namespace LW.Gates

theorem tab_CNOTH0 : hasTableB cCZH.i (CNOTH cCZH 0) 2 kCZH (namedCNOT 0) true = true := by decide +kernel

end LW.Gates
