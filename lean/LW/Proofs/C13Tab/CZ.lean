/- kernel decision of one amplitude table of the gate library (see LW/Proofs/C13.lean) -/
import LW.Proofs.C13Tab.Defs

namespace LW.Gates

theorem tab_CZ : hasTableB cCZ.i (CZ cCZ) 2 kCZ namedCZ false = true := by decide +kernel

end LW.Gates
