/- kernel decision of one amplitude table of the gate library (see LW/Proofs/C13.lean) -/
import LW.Proofs.C13Tab.Defs

namespace LW.Gates

theorem tab_CZH : hasTableB cCZH.i (CZH cCZH) 2 kCZH namedCZ true = true := by decide +kernel

end LW.Gates
