/- kernel decision of one amplitude table of the gate library (see LW/Proofs/C13.lean) -/
import LW.Proofs.C13Tab.Defs

namespace LW.Gates

theorem tab_CCNOT0 : hasTableB cCCZ.i (CCNOT cCCZ 0) 3 kCCZ (namedCNOT 0) false = true := by decide +kernel

end LW.Gates
