/- kernel decision of one amplitude table of the gate library (see LW/Proofs/C13.lean) -/
import LW.Proofs.C13Tab.Defs

namespace LW.Gates

theorem tab_CCNOT1 : hasTableB cCCZ.i (CCNOT cCCZ 1) 3 kCCZ (namedCNOT 1) false = true := by decide +kernel

end LW.Gates
