/-
  LW.Proofs.SwapDict — swap dictionaries as permutations of the modes: the function of a
  dictionary, `SwapsOk → PermOk`, composition (`combineSwapDicts`), inversion.
-/
import Mathlib.Data.List.Nodup
import Mathlib.Data.List.Perm.Basic
import Mathlib.Logic.Function.Basic
import LW.Proofs.CircuitWf
import LW.Proofs.MatAlg2
import LW.Model.Rewrite

namespace LW

namespace Dict

/-- the map on modes described by a dictionary (missing modes are fixed) -/
def fn (σ : Dict) (c : Nat) : Nat := Dict.getD σ c c

@[simp] theorem fn_nil (c : Nat) : fn [] c = c := rfl

theorem fn_cons (k v : Nat) (σ : Dict) (c : Nat) :
    fn ((k, v) :: σ) c = if k = c then v else fn σ c := by
  unfold fn Dict.getD Dict.get?
  by_cases h : k = c
  · simp [h]
  · simp [h]

@[simp] theorem keys_nil : Dict.keys [] = [] := rfl
@[simp] theorem keys_cons (p : Nat × Nat) (σ : Dict) : Dict.keys (p :: σ) = p.1 :: Dict.keys σ := rfl
@[simp] theorem vals_nil : Dict.vals [] = [] := rfl
@[simp] theorem vals_cons (p : Nat × Nat) (σ : Dict) : Dict.vals (p :: σ) = p.2 :: Dict.vals σ := rfl

theorem mem_keys {σ : Dict} {k : Nat} : k ∈ Dict.keys σ ↔ ∃ v, (k, v) ∈ σ := by
  simp [Dict.keys]

theorem mem_vals {σ : Dict} {v : Nat} : v ∈ Dict.vals σ ↔ ∃ k, (k, v) ∈ σ := by
  simp [Dict.vals]

theorem contains_iff {σ : Dict} {k : Nat} : Dict.contains σ k = true ↔ k ∈ Dict.keys σ := by
  simp [Dict.contains, Dict.keys]

theorem fn_of_not_mem {σ : Dict} {c : Nat} (h : c ∉ Dict.keys σ) : fn σ c = c := by
  induction σ with
  | nil => rfl
  | cons p σ ih =>
    obtain ⟨k, v⟩ := p
    simp only [keys_cons, List.mem_cons, not_or] at h
    rw [fn_cons, if_neg (fun e => h.1 e.symm), ih h.2]

theorem fn_mem {σ : Dict} {c : Nat} (h : c ∈ Dict.keys σ) : (c, fn σ c) ∈ σ := by
  induction σ with
  | nil => simp at h
  | cons p σ ih =>
    obtain ⟨k, v⟩ := p
    rw [fn_cons]
    by_cases e : k = c
    · rw [if_pos e, e]; exact List.mem_cons_self
    · rw [if_neg e]
      simp only [keys_cons, List.mem_cons] at h
      rcases h with h | h
      · exact absurd h.symm e
      · exact List.mem_cons_of_mem _ (ih h)

theorem fn_eq_of_mem {σ : Dict} (hnd : (Dict.keys σ).Nodup) {k v : Nat} (h : (k, v) ∈ σ) :
    fn σ k = v := by
  induction σ with
  | nil => simp at h
  | cons p σ ih =>
    obtain ⟨k', v'⟩ := p
    simp only [keys_cons, List.nodup_cons] at hnd
    rw [fn_cons]
    rcases List.mem_cons.mp h with h | h
    · simp only [Prod.mk.injEq] at h
      rw [if_pos h.1.symm, h.2]
    · have : k' ≠ k := by
        intro e
        apply hnd.1
        rw [e]
        exact mem_keys.mpr ⟨v, h⟩
      rw [if_neg this, ih hnd.2 h]

theorem vals_eq_map_fn {σ : Dict} (hnd : (Dict.keys σ).Nodup) :
    Dict.vals σ = (Dict.keys σ).map (fn σ) := by
  unfold Dict.vals Dict.keys
  rw [List.map_map]
  apply List.map_congr_left
  intro p hp
  exact (fn_eq_of_mem hnd (k := p.1) (v := p.2) hp).symm

theorem fn_mem_vals {σ : Dict} {c : Nat} (h : c ∈ Dict.keys σ) : fn σ c ∈ Dict.vals σ :=
  mem_vals.mpr ⟨c, fn_mem h⟩

/-- in a dictionary with distinct values a value determines its key -/
theorem key_unique_of_vals_nodup {σ : Dict} (hnd : (Dict.vals σ).Nodup) {a b v : Nat}
    (ha : (a, v) ∈ σ) (hb : (b, v) ∈ σ) : a = b := by
  induction σ with
  | nil => simp at ha
  | cons p σ ih =>
    simp only [vals_cons, List.nodup_cons] at hnd
    rcases List.mem_cons.mp ha with ha | ha <;> rcases List.mem_cons.mp hb with hb | hb
    · rw [← ha] at hb; exact (Prod.mk.inj hb).1.symm
    · exact absurd (mem_vals.mpr ⟨b, hb⟩) (by have := hnd.1; rw [← ha] at this; exact this)
    · exact absurd (mem_vals.mpr ⟨a, ha⟩) (by have := hnd.1; rw [← hb] at this; exact this)
    · exact ih hnd.2 ha hb

theorem keys_append (a b : Dict) : Dict.keys (a ++ b) = Dict.keys a ++ Dict.keys b := by
  simp [Dict.keys]

theorem fn_append (a b : Dict) (c : Nat) :
    fn (a ++ b) c = if c ∈ Dict.keys a then fn a c else fn b c := by
  induction a with
  | nil => simp
  | cons p a ih =>
    obtain ⟨k, v⟩ := p
    rw [List.cons_append, fn_cons, fn_cons, ih]
    by_cases e : k = c
    · simp [e]
    · have : ¬ c = k := fun h => e h.symm
      simp [e, this]

/-! #### `Dict.set` -/

private theorem keys_map_set (d : Dict) (k v : Nat) :
    Dict.keys (d.map fun p => if p.1 == k then (k, v) else p) = Dict.keys d := by
  unfold Dict.keys
  rw [List.map_map]
  apply List.map_congr_left
  intro p _
  by_cases h : p.1 = k <;> simp [h]

private theorem fn_map_set (d : Dict) (k v c : Nat) :
    fn (d.map fun p => if p.1 == k then (k, v) else p) c
      = if k = c ∧ k ∈ Dict.keys d then v else fn d c := by
  induction d with
  | nil => simp
  | cons p d ih =>
    obtain ⟨k', v'⟩ := p
    rw [List.map_cons]
    by_cases h : k' = k
    · subst h
      simp only [beq_self_eq_true, if_true, fn_cons, keys_cons, List.mem_cons, true_or, and_true]
      by_cases e : k' = c
      · simp [e]
      · simp only [e, if_false, ih, false_and]
    · have hh : (if ((k', v').1 == k) = true then (k, v) else (k', v')) = (k', v') := by
        simp [h]
      rw [hh, fn_cons, fn_cons, ih]
      simp only [keys_cons, List.mem_cons]
      by_cases e : k' = c
      · have : ¬ k = c := fun x => h (e.trans x.symm)
        simp only [e, if_true, this, false_and, if_false]
      · have : ¬ k = k' := fun x => h x.symm
        simp only [e, if_false, this, false_or]

theorem mem_keys_set {d : Dict} {k v c : Nat} :
    c ∈ Dict.keys (Dict.set d k v) ↔ c = k ∨ c ∈ Dict.keys d := by
  unfold Dict.set
  by_cases h : Dict.contains d k = true
  · rw [if_pos h, keys_map_set]
    constructor
    · exact Or.inr
    · rintro (e | e)
      · rw [e]; exact contains_iff.mp h
      · exact e
  · rw [if_neg h, keys_append]
    simp [or_comm]

theorem keys_set_nodup {d : Dict} (k v : Nat) (hd : (Dict.keys d).Nodup) :
    (Dict.keys (Dict.set d k v)).Nodup := by
  unfold Dict.set
  by_cases h : Dict.contains d k = true
  · rw [if_pos h, keys_map_set]; exact hd
  · rw [if_neg h, keys_append]
    have : k ∉ Dict.keys d := fun x => h (contains_iff.mpr x)
    simpa [List.nodup_append, hd] using fun a ha (e : a = k) => this (e ▸ ha)

theorem fn_set (d : Dict) (k v c : Nat) :
    fn (Dict.set d k v) c = if k = c then v else fn d c := by
  unfold Dict.set
  by_cases h : Dict.contains d k = true
  · rw [if_pos h, fn_map_set]
    simp [contains_iff.mp h]
  · rw [if_neg h, fn_append]
    have hk : k ∉ Dict.keys d := fun x => h (contains_iff.mpr x)
    by_cases hc : c ∈ Dict.keys d
    · have : ¬ k = c := fun e => hk (e ▸ hc)
      simp [hc, this]
    · simp [hc, fn_cons, fn_of_not_mem hc]

/-! #### repeated assignment -/

theorem keys_foldl_set_nodup (ps : List (Nat × Nat)) (d : Dict) (hd : (Dict.keys d).Nodup) :
    (Dict.keys (ps.foldl (fun d p => Dict.set d p.1 p.2) d)).Nodup := by
  induction ps generalizing d with
  | nil => exact hd
  | cons p ps ih => exact ih _ (keys_set_nodup _ _ hd)

theorem mem_keys_foldl_set (ps : List (Nat × Nat)) (d : Dict) (c : Nat) :
    c ∈ Dict.keys (ps.foldl (fun d p => Dict.set d p.1 p.2) d) ↔ c ∈ Dict.keys ps ∨ c ∈ Dict.keys d := by
  induction ps generalizing d with
  | nil => simp
  | cons p ps ih =>
    rw [List.foldl_cons, ih, mem_keys_set, keys_cons, List.mem_cons]
    tauto

theorem fn_foldl_set (ps : List (Nat × Nat)) (hps : (Dict.keys ps).Nodup) (d : Dict) (c : Nat) :
    fn (ps.foldl (fun d p => Dict.set d p.1 p.2) d) c
      = if c ∈ Dict.keys ps then fn ps c else fn d c := by
  induction ps generalizing d with
  | nil => simp
  | cons p ps ih =>
    obtain ⟨k, v⟩ := p
    simp only [keys_cons, List.nodup_cons] at hps
    rw [List.foldl_cons, ih hps.2, fn_set, fn_cons]
    simp only [keys_cons, List.mem_cons]
    by_cases hc : c ∈ Dict.keys ps
    · have : ¬ k = c := fun e => hps.1 (e ▸ hc)
      simp [hc, this]
    · by_cases e : k = c
      · simp [e, hc]
      · have : ¬ c = k := fun x => e x.symm
        simp [hc, e, this]

theorem fn_ofPairs (ps : List (Nat × Nat)) (hps : (Dict.keys ps).Nodup) (c : Nat) :
    fn (Dict.ofPairs ps) c = fn ps c := by
  unfold Dict.ofPairs
  rw [fn_foldl_set ps hps]
  by_cases hc : c ∈ Dict.keys ps
  · rw [if_pos hc]
  · rw [if_neg hc, fn_of_not_mem hc, fn_nil]

/-- dropping the identity entries does not change the map -/
theorem fn_filter_ne (d : Dict) (hd : (Dict.keys d).Nodup) (c : Nat) :
    fn (d.filter fun p => p.1 != p.2) c = fn d c := by
  induction d with
  | nil => rfl
  | cons p d ih =>
    obtain ⟨k, v⟩ := p
    simp only [keys_cons, List.nodup_cons] at hd
    rw [List.filter_cons]
    by_cases e : k = v
    · subst e
      simp only [bne_self_eq_false, Bool.false_eq_true, if_false, fn_cons, ih hd.2]
      by_cases e : k = c
      · rw [if_pos e, ← e, fn_of_not_mem hd.1]
      · rw [if_neg e]
    · have : (k != v) = true := by simpa using e
      simp only [this, if_true, fn_cons, ih hd.2]

theorem keys_sublist_of_sublist {a b : Dict} (h : List.Sublist a b) :
    List.Sublist (Dict.keys a) (Dict.keys b) := h.map _

end Dict

/-- the dictionary describes a permutation of the modes `< n` -/
structure PermOk (n : Nat) (σ : Dict) : Prop where
  nodup : (Dict.keys σ).Nodup
  lt : ∀ k ∈ Dict.keys σ, k < n
  bij : Function.Bijective (Dict.fn σ)

namespace PermOk
variable {n : Nat} {σ : Dict}

theorem fix (h : PermOk n σ) (k : Nat) (hk : n ≤ k) : Dict.fn σ k = k :=
  Dict.fn_of_not_mem fun hm => absurd (h.lt k hm) (by omega)

theorem permBelow (h : PermOk n σ) : ∃ g, PermBelow n (Dict.fn σ) g := by
  obtain ⟨g, hl, hr⟩ := Function.bijective_iff_has_inverse.mp h.bij
  exact ⟨g, hl, hr, h.fix⟩

theorem mono (h : PermOk n σ) {N : Nat} (hN : n ≤ N) : PermOk N σ :=
  ⟨h.nodup, fun k hk => lt_of_lt_of_le (h.lt k hk) hN, h.bij⟩

/-- every key is also a value -/
theorem key_mem_vals (h : PermOk n σ) {c : Nat} (hc : c ∈ Dict.keys σ) : c ∈ Dict.vals σ := by
  obtain ⟨c', e⟩ := h.bij.2 c
  by_cases hc' : c' ∈ Dict.keys σ
  · rw [← e]; exact Dict.fn_mem_vals hc'
  · rw [Dict.fn_of_not_mem hc'] at e
    rw [e] at hc'
    exact absurd hc hc'

/-- every value is also a key -/
theorem val_mem_keys (h : PermOk n σ) {v : Nat} (hv : v ∈ Dict.vals σ) : v ∈ Dict.keys σ := by
  obtain ⟨k, hk⟩ := Dict.mem_vals.mp hv
  by_contra hn
  have e1 : Dict.fn σ k = v := Dict.fn_eq_of_mem h.nodup hk
  have e2 : Dict.fn σ v = v := Dict.fn_of_not_mem hn
  have : k = v := h.bij.1 (e1.trans e2.symm)
  rw [← this] at hn
  exact hn (Dict.mem_keys.mpr ⟨_, hk⟩)

theorem fn_mem_keys (h : PermOk n σ) {c : Nat} (hc : c ∈ Dict.keys σ) :
    Dict.fn σ c ∈ Dict.keys σ :=
  h.val_mem_keys (Dict.fn_mem_vals hc)

theorem vals_nodup (h : PermOk n σ) : (Dict.vals σ).Nodup := by
  rw [Dict.vals_eq_map_fn h.nodup]
  exact h.nodup.map h.bij.1

end PermOk

theorem SwapsOk.permOk {n : Nat} {σ : Dict} (h : SwapsOk n σ) : PermOk n σ := by
  obtain ⟨hnd, hperm, hlt⟩ := h
  have hvnd : (Dict.vals σ).Nodup := hperm.nodup_iff.mp hnd
  refine ⟨hnd, hlt, ?_, ?_⟩
  · intro a b e
    by_cases ha : a ∈ Dict.keys σ <;> by_cases hb : b ∈ Dict.keys σ
    · have h1 := Dict.fn_mem ha
      have h2 := Dict.fn_mem hb
      rw [e] at h1
      exact Dict.key_unique_of_vals_nodup hvnd h1 h2
    · have h1 : Dict.fn σ a ∈ Dict.keys σ := hperm.mem_iff.mpr (Dict.fn_mem_vals ha)
      rw [e, Dict.fn_of_not_mem hb] at h1
      exact absurd h1 hb
    · have h1 : Dict.fn σ b ∈ Dict.keys σ := hperm.mem_iff.mpr (Dict.fn_mem_vals hb)
      rw [← e, Dict.fn_of_not_mem ha] at h1
      exact absurd h1 ha
    · rwa [Dict.fn_of_not_mem ha, Dict.fn_of_not_mem hb] at e
  · intro r
    by_cases hr : r ∈ Dict.keys σ
    · obtain ⟨k, hk⟩ := Dict.mem_vals.mp (hperm.mem_iff.mp hr)
      exact ⟨k, Dict.fn_eq_of_mem hnd hk⟩
    · exact ⟨r, Dict.fn_of_not_mem hr⟩

/-! ### `combineSwapDicts` composes the permutations -/

namespace Dict

theorem keys_map_vals (σ : Dict) (F : Nat → Nat) :
    Dict.keys (σ.map fun p => (p.1, F p.2)) = Dict.keys σ := by
  unfold Dict.keys
  rw [List.map_map]
  rfl

theorem fn_map_vals (σ : Dict) (F : Nat → Nat) (c : Nat) :
    fn (σ.map fun p => (p.1, F p.2)) c = if c ∈ Dict.keys σ then F (fn σ c) else c := by
  induction σ with
  | nil => simp
  | cons p σ ih =>
    obtain ⟨k, v⟩ := p
    rw [List.map_cons, fn_cons, fn_cons, ih]
    simp only [keys_cons, List.mem_cons]
    by_cases e : k = c
    · simp [e]
    · have : ¬ c = k := fun x => e x.symm
      simp [e, this]

theorem ite_contains_eq_fn (τ : Dict) (v : Nat) :
    (if Dict.contains τ v then Dict.getD τ v v else v) = fn τ v := by
  by_cases h : Dict.contains τ v = true
  · rw [if_pos h]; rfl
  · rw [if_neg h, fn_of_not_mem (fun x => h (contains_iff.mpr x))]

theorem fn_filter_of_mem {τ : Dict} (hτ : (Dict.keys τ).Nodup) (q : Nat × Nat → Bool) {c : Nat}
    (hc : c ∈ Dict.keys (τ.filter q)) : fn (τ.filter q) c = fn τ c := by
  have hsub : List.Sublist (τ.filter q) τ := List.filter_sublist
  have hnd : (Dict.keys (τ.filter q)).Nodup := (keys_sublist_of_sublist hsub).nodup hτ
  have h1 := fn_mem hc
  exact (fn_eq_of_mem hτ (hsub.subset h1)).symm

end Dict

section Combine
variable {n : Nat} {σ τ : Dict}

theorem combineSwapDicts_eq (σ τ : Dict) :
    combineSwapDicts σ τ =
      (((τ.filter fun p => !((σ.filter fun p => Dict.contains τ p.2).map (·.2)).contains p.1).foldl
        (fun d p => Dict.set d p.1 p.2) (σ.map fun p => (p.1, Dict.fn τ p.2))).filter
          fun p => p.1 != p.2) := by
  unfold combineSwapDicts
  simp only [Dict.ite_contains_eq_fn]

private theorem mem_keys_tau' (σ τ : Dict) (c : Nat) :
    c ∈ Dict.keys (τ.filter fun p =>
        !((σ.filter fun p => Dict.contains τ p.2).map (·.2)).contains p.1)
      ↔ c ∈ Dict.keys τ ∧ c ∉ Dict.vals σ := by
  simp only [Dict.mem_keys, List.mem_filter, Bool.not_eq_true', List.contains_eq_mem,
    decide_eq_false_iff_not, List.mem_map, not_exists, not_and, Dict.mem_vals, Dict.contains_iff]
  constructor
  · rintro ⟨v, hv, hn⟩
    refine ⟨⟨v, hv⟩, ?_⟩
    intro k hk
    exact hn (k, c) ⟨hk, ⟨v, hv⟩⟩ rfl
  · rintro ⟨⟨v, hv⟩, hn⟩
    refine ⟨v, hv, ?_⟩
    rintro ⟨a, b⟩ ⟨hab, _⟩ e
    simp only at e
    subst e
    exact hn a hab

theorem fn_combine (hσ : PermOk n σ) (hτ : PermOk n τ) (c : Nat) :
    Dict.fn (combineSwapDicts σ τ) c = Dict.fn τ (Dict.fn σ c) := by
  rw [combineSwapDicts_eq]
  have hτ' : (Dict.keys (τ.filter fun p =>
      !((σ.filter fun p => Dict.contains τ p.2).map (·.2)).contains p.1)).Nodup :=
    (Dict.keys_sublist_of_sublist List.filter_sublist).nodup hτ.nodup
  have hp1 : (Dict.keys (σ.map fun p => (p.1, Dict.fn τ p.2))).Nodup := by
    rw [Dict.keys_map_vals]; exact hσ.nodup
  rw [Dict.fn_filter_ne _ (Dict.keys_foldl_set_nodup _ _ hp1), Dict.fn_foldl_set _ hτ',
    Dict.fn_map_vals]
  by_cases hc : c ∈ Dict.keys σ
  · have hv : c ∈ Dict.vals σ := hσ.key_mem_vals hc
    rw [if_neg (fun x => ((mem_keys_tau' σ τ c).mp x).2 hv), if_pos hc]
  · have hv : c ∉ Dict.vals σ := fun x => hc (hσ.val_mem_keys x)
    rw [Dict.fn_of_not_mem hc]
    by_cases hct : c ∈ Dict.keys τ
    · have hm := (mem_keys_tau' σ τ c).mpr ⟨hct, hv⟩
      rw [if_pos hm, Dict.fn_filter_of_mem hτ.nodup _ hm]
    · rw [if_neg (fun x => hct ((mem_keys_tau' σ τ c).mp x).1), if_neg hc,
        Dict.fn_of_not_mem hct]

theorem PermOk.combine (hσ : PermOk n σ) (hτ : PermOk n τ) : PermOk n (combineSwapDicts σ τ) := by
  refine ⟨?_, ?_, ?_⟩
  · rw [combineSwapDicts_eq]
    apply (Dict.keys_sublist_of_sublist List.filter_sublist).nodup
    apply Dict.keys_foldl_set_nodup
    rw [Dict.keys_map_vals]
    exact hσ.nodup
  · intro k hk
    rw [combineSwapDicts_eq] at hk
    have hk' := (Dict.keys_sublist_of_sublist List.filter_sublist).subset hk
    rw [Dict.mem_keys_foldl_set, Dict.keys_map_vals] at hk'
    rcases hk' with hk' | hk'
    · exact hτ.lt k ((Dict.keys_sublist_of_sublist List.filter_sublist).subset hk')
    · exact hσ.lt k hk'
  · have : Dict.fn (combineSwapDicts σ τ) = Dict.fn τ ∘ Dict.fn σ := by
      funext c
      exact fn_combine hσ hτ c
    rw [this]
    exact hτ.bij.comp hσ.bij

end Combine

/-! ### the inverse dictionary -/

section Inverse
variable {n : Nat} {σ : Dict}

theorem fn_inv_left (hσ : PermOk n σ) (c : Nat) :
    Dict.fn (Dict.ofPairs (σ.map fun p => (p.2, p.1))) (Dict.fn σ c) = c := by
  have hk : Dict.keys (σ.map fun p => (p.2, p.1)) = Dict.vals σ := by
    unfold Dict.keys Dict.vals
    rw [List.map_map]
    rfl
  have hnd : (Dict.keys (σ.map fun p => (p.2, p.1))).Nodup := by
    rw [hk]; exact hσ.vals_nodup
  rw [Dict.fn_ofPairs _ hnd]
  by_cases hc : c ∈ Dict.keys σ
  · apply Dict.fn_eq_of_mem hnd
    exact List.mem_map.mpr ⟨(c, Dict.fn σ c), Dict.fn_mem hc, rfl⟩
  · rw [Dict.fn_of_not_mem hc]
    apply Dict.fn_of_not_mem
    rw [hk]
    exact fun x => hc (hσ.val_mem_keys x)

theorem PermOk.permBelow_inv (hσ : PermOk n σ) :
    PermBelow n (Dict.fn σ) (Dict.fn (Dict.ofPairs (σ.map fun p => (p.2, p.1)))) := by
  refine ⟨fn_inv_left hσ, ?_, hσ.fix⟩
  intro k
  obtain ⟨k', e⟩ := hσ.bij.2 k
  rw [← e, fn_inv_left hσ]

end Inverse

/-! ### the dictionary of `nonAdjSwaps` -/

namespace Dict

theorem keys_map_range (a m : Nat) (F : Nat → Nat) :
    Dict.keys ((List.range m).map fun k => (a + k, F (a + k))) = (List.range m).map (a + ·) := by
  unfold Dict.keys
  rw [List.map_map]
  rfl

theorem fn_map_range (a m : Nat) (F : Nat → Nat) (c : Nat) :
    fn ((List.range m).map fun k => (a + k, F (a + k))) c
      = if a ≤ c ∧ c < a + m then F c else c := by
  by_cases h : a ≤ c ∧ c < a + m
  · rw [if_pos h]
    apply fn_eq_of_mem
    · rw [keys_map_range]
      exact (List.nodup_range).map (fun x y e => by simpa using e)
    · refine List.mem_map.mpr ⟨c - a, List.mem_range.mpr (by omega), ?_⟩
      have : a + (c - a) = c := by omega
      simp only [this]
  · rw [if_neg h]
    apply fn_of_not_mem
    rw [keys_map_range]
    simp only [List.mem_map, List.mem_range, not_exists, not_and]
    intro x hx e
    omega

end Dict

/-- the permutation performed by `nonAdjSwaps lo hi` -/
def nonAdjFn (lo hi c : Nat) : Nat :=
  if lo ≤ c ∧ c < lo + ((lo + hi - 1) / 2 + 1 - lo) then (if c = lo then (lo + hi - 1) / 2 else c - 1)
  else if (lo + hi - 1) / 2 + 1 ≤ c ∧ c < (lo + hi - 1) / 2 + 1 + (hi - (lo + hi - 1) / 2) then
    (if c = hi then (lo + hi - 1) / 2 + 1 else c + 1)
  else c

/-- its inverse -/
def nonAdjInv (lo hi r : Nat) : Nat :=
  if r = (lo + hi - 1) / 2 then lo
  else if lo ≤ r ∧ r < (lo + hi - 1) / 2 then r + 1
  else if r = (lo + hi - 1) / 2 + 1 then hi
  else if (lo + hi - 1) / 2 + 2 ≤ r ∧ r ≤ hi then r - 1
  else r

theorem fn_nonAdjSwaps (lo hi c : Nat) : Dict.fn (nonAdjSwaps lo hi) c = nonAdjFn lo hi c := by
  unfold nonAdjSwaps nonAdjFn
  simp only []
  rw [Dict.fn_append,
    Dict.keys_map_range lo _ (fun i => if i = lo then (lo + hi - 1) / 2 else i - 1),
    Dict.fn_map_range lo _ (fun i => if i = lo then (lo + hi - 1) / 2 else i - 1),
    Dict.fn_map_range ((lo + hi - 1) / 2 + 1) _
      (fun i => if i = hi then (lo + hi - 1) / 2 + 1 else i + 1)]
  by_cases h : lo ≤ c ∧ c < lo + ((lo + hi - 1) / 2 + 1 - lo)
  · have : c ∈ (List.range ((lo + hi - 1) / 2 + 1 - lo)).map (lo + ·) :=
      List.mem_map.mpr ⟨c - lo, List.mem_range.mpr (by omega), by omega⟩
    rw [if_pos this, if_pos h, if_pos h]
  · have : c ∉ (List.range ((lo + hi - 1) / 2 + 1 - lo)).map (lo + ·) := by
      simp only [List.mem_map, List.mem_range, not_exists, not_and]
      intro x hx e
      omega
    rw [if_neg this, if_neg h]

theorem nonAdjFn_inv (lo hi : Nat) (h : lo < hi) (c : Nat) :
    nonAdjInv lo hi (nonAdjFn lo hi c) = c := by
  unfold nonAdjInv nonAdjFn
  split_ifs <;> omega

theorem nonAdjInv_fn (lo hi : Nat) (h : lo < hi) (r : Nat) :
    nonAdjFn lo hi (nonAdjInv lo hi r) = r := by
  unfold nonAdjInv nonAdjFn
  split_ifs <;> omega

theorem nonAdjFn_lo (lo hi : Nat) (h : lo < hi) : nonAdjFn lo hi lo = (lo + hi - 1) / 2 := by
  unfold nonAdjFn
  split_ifs <;> omega

theorem nonAdjFn_hi (lo hi : Nat) (h : lo < hi) : nonAdjFn lo hi hi = (lo + hi - 1) / 2 + 1 := by
  unfold nonAdjFn
  split_ifs <;> omega

theorem nonAdjSwaps_permOk (n lo hi : Nat) (h : lo < hi) (hn : hi < n) :
    PermOk n (nonAdjSwaps lo hi) := by
  have hkeys : Dict.keys (nonAdjSwaps lo hi)
      = (List.range ((lo + hi - 1) / 2 + 1 - lo)).map (lo + ·)
        ++ (List.range (hi - (lo + hi - 1) / 2)).map ((lo + hi - 1) / 2 + 1 + ·) := by
    unfold nonAdjSwaps
    simp only []
    rw [Dict.keys_append,
      Dict.keys_map_range lo _ (fun i => if i = lo then (lo + hi - 1) / 2 else i - 1),
      Dict.keys_map_range ((lo + hi - 1) / 2 + 1) _
        (fun i => if i = hi then (lo + hi - 1) / 2 + 1 else i + 1)]
  have hfn : Dict.fn (nonAdjSwaps lo hi) = nonAdjFn lo hi := funext (fn_nonAdjSwaps lo hi)
  refine ⟨?_, ?_, ?_⟩
  · rw [hkeys, List.nodup_append]
    refine ⟨(List.nodup_range).map (fun x y e => by simpa using e),
      (List.nodup_range).map (fun x y e => by simpa using e), ?_⟩
    intro a ha b hb
    simp only [List.mem_map, List.mem_range] at ha hb
    obtain ⟨x, hx, rfl⟩ := ha
    obtain ⟨y, hy, rfl⟩ := hb
    omega
  · intro k hk
    rw [hkeys] at hk
    simp only [List.mem_append, List.mem_map, List.mem_range] at hk
    rcases hk with ⟨x, hx, rfl⟩ | ⟨x, hx, rfl⟩ <;> omega
  · rw [hfn]
    exact Function.bijective_iff_has_inverse.mpr
      ⟨nonAdjInv lo hi, nonAdjFn_inv lo hi h, nonAdjInv_fn lo hi h⟩

end LW
