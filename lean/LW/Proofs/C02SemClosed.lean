/-
  LW.Proofs.C02SemClosed — the canonical closed form of the abstraction of a circuit, expressed
  directly on the circuit's modes: free modes ascending, heralds in declaration order, loss.
-/
import LW.Proofs.C02SemAbs
import LW.Proofs.C02SemSynth

open scoped BigOperators

namespace LW.Proofs.C02Sem

open LW LW.Proofs.C01Aux LW.Proofs.C02

variable {K : Type}

/-! ### the closed form of an optic, with named selectors -/

def colIdx (x : Optic K) (y : Nat) : Nat :=
  if y < x.freeIn.length then x.freeIn.getD y 0
  else if y < x.freeIn.length + x.her.length then (x.her.getD (y - x.freeIn.length) ⟨0, 0, 0⟩).i
  else x.p + x.a + (y - x.freeIn.length - x.her.length)

def rowIdx (x : Optic K) (y : Nat) : Nat :=
  if y < x.freeIn.length then x.freeOut.getD y 0
  else if y < x.freeIn.length + x.her.length then (x.her.getD (y - x.freeIn.length) ⟨0, 0, 0⟩).o
  else x.p + x.a + (y - x.freeIn.length - x.her.length)

theorem closed_eq [Zero K] (x : Optic K) :
    x.closed = ⟨x.freeIn.length, x.her.map (·.n), x.l,
      M.ofFn (x.freeIn.length + x.her.length + x.l) fun r c => x.W.get (rowIdx x r) (colIdx x c)⟩ := rfl

/-! ### free modes of a circuit -/

theorem mem_freeOf {n : Nat} {l : List Nat} {x : Nat} : x ∈ freeOf n l ↔ x < n ∧ x ∉ l := by
  unfold freeOf
  simp [List.mem_filter]

theorem freeOf_sorted (n : Nat) (l : List Nat) : (freeOf n l).Pairwise (· < ·) :=
  List.Pairwise.filter _ List.pairwise_lt_range

/-- mode-level column selector of the closed form -/
def colM (c : Circ K) (y : Nat) : Nat :=
  if y < c.n - c.inHer.length then (freeOf c.n c.inHer.keys).getD y 0
  else if y < c.n - c.inHer.length + c.inHer.length then c.inHer.keys.getD (y - (c.n - c.inHer.length)) 0
  else c.n + (y - (c.n - c.inHer.length) - c.inHer.length)

/-- mode-level row selector of the closed form -/
def rowM (c : Circ K) (y : Nat) : Nat :=
  if y < c.n - c.inHer.length then (freeOf c.n c.outHer.keys).getD y 0
  else if y < c.n - c.inHer.length + c.inHer.length then c.outHer.keys.getD (y - (c.n - c.inHer.length)) 0
  else c.n + (y - (c.n - c.inHer.length) - c.inHer.length)

section
variable [CommRing K] [StarRing K]

set_option linter.unusedSectionVars false

theorem keys_length (d : Dict) : d.keys.length = d.length := by simp [Dict.keys]

theorem her_map_i (i : K) (c : Circ K) (hwf : c.WF) :
    (c.toOptic i).her.map (·.i) = c.inHer.keys.map c.optIndex := by
  rw [toOptic_her, List.map_map]
  have : ((fun h : Her => h.i) ∘ fun (p : (Nat × Nat) × (Nat × Nat)) =>
      (⟨c.optIndex p.1.1, c.optIndex p.2.1, p.1.2⟩ : Her)) = (fun x : Nat × Nat => c.optIndex x.1) ∘ Prod.fst := rfl
  rw [this, ← List.map_map, List.map_fst_zip (by rw [hwf.lenEq])]
  simp [Dict.keys, Function.comp_def]

theorem her_map_o (i : K) (c : Circ K) (hwf : c.WF) :
    (c.toOptic i).her.map (·.o) = c.outHer.keys.map c.optIndex := by
  rw [toOptic_her, List.map_map]
  have : ((fun h : Her => h.o) ∘ fun (p : (Nat × Nat) × (Nat × Nat)) =>
      (⟨c.optIndex p.1.1, c.optIndex p.2.1, p.1.2⟩ : Her)) = (fun x : Nat × Nat => c.optIndex x.1) ∘ Prod.snd := rfl
  rw [this, ← List.map_map, List.map_snd_zip (by rw [hwf.lenEq])]
  simp [Dict.keys, Function.comp_def]

theorem her_map_n (i : K) (c : Circ K) (hwf : c.WF) :
    (c.toOptic i).her.map (·.n) = c.inHer.map (·.2) := by
  rw [toOptic_her, List.map_map]
  have : ((fun h : Her => h.n) ∘ fun (p : (Nat × Nat) × (Nat × Nat)) =>
      (⟨c.optIndex p.1.1, c.optIndex p.2.1, p.1.2⟩ : Her)) = (fun x : Nat × Nat => x.2) ∘ Prod.fst := rfl
  rw [this, ← List.map_map, List.map_fst_zip (by rw [hwf.lenEq])]

theorem her_length (i : K) (c : Circ K) (hwf : c.WF) : (c.toOptic i).her.length = c.inHer.length := by
  have := congrArg List.length (her_map_n i c hwf)
  simpa using this

theorem mem_extIn (i : K) (c : Circ K) (hwf : c.WF) (r : Nat) :
    r ∈ (c.toOptic i).extIn ↔ r < c.portModes.length ∧ ∃ k ∈ c.inHer.keys, c.optIndex k = r := by
  unfold Optic.extIn
  have h1 := her_map_i i c hwf
  simp only [List.mem_map, List.mem_filter, decide_eq_true_eq]
  constructor
  · rintro ⟨hh, ⟨hm, hlt⟩, rfl⟩
    refine ⟨hlt, ?_⟩
    have : hh.i ∈ (c.toOptic i).her.map (·.i) := List.mem_map.mpr ⟨hh, hm, rfl⟩
    rw [h1] at this
    obtain ⟨k, hk, e⟩ := List.mem_map.mp this
    exact ⟨k, hk, e⟩
  · rintro ⟨hlt, k, hk, e⟩
    have : r ∈ (c.toOptic i).her.map (·.i) := by
      rw [h1]; exact List.mem_map.mpr ⟨k, hk, e⟩
    obtain ⟨hh, hm, e2⟩ := List.mem_map.mp this
    exact ⟨hh, ⟨hm, by rw [e2]; exact hlt⟩, e2⟩

theorem mem_extOut (i : K) (c : Circ K) (hwf : c.WF) (r : Nat) :
    r ∈ (c.toOptic i).extOut ↔ r < c.portModes.length ∧ ∃ k ∈ c.outHer.keys, c.optIndex k = r := by
  unfold Optic.extOut
  have h1 := her_map_o i c hwf
  simp only [List.mem_map, List.mem_filter, decide_eq_true_eq]
  constructor
  · rintro ⟨hh, ⟨hm, hlt⟩, rfl⟩
    refine ⟨hlt, ?_⟩
    have : hh.o ∈ (c.toOptic i).her.map (·.o) := List.mem_map.mpr ⟨hh, hm, rfl⟩
    rw [h1] at this
    obtain ⟨k, hk, e⟩ := List.mem_map.mp this
    exact ⟨k, hk, e⟩
  · rintro ⟨hlt, k, hk, e⟩
    have : r ∈ (c.toOptic i).her.map (·.o) := by
      rw [h1]; exact List.mem_map.mpr ⟨k, hk, e⟩
    obtain ⟨hh, hm, e2⟩ := List.mem_map.mp this
    exact ⟨hh, ⟨hm, by rw [e2]; exact hlt⟩, e2⟩

theorem internal_sub_in (c : Circ K) (hwf : c.WF) : ∀ a ∈ c.internal, a ∈ c.inHer.keys :=
  fun a ha => get?_isSome_iff.mp (hwf.intHer a ha).1

theorem internal_sub_out (c : Circ K) (hwf : c.WF) : ∀ a ∈ c.internal, a ∈ c.outHer.keys := by
  intro a ha
  obtain ⟨h1, h2⟩ := hwf.intHer a ha
  rw [h2] at h1
  exact get?_isSome_iff.mp h1

theorem optIndex_eq_optIdx' (c : Circ K) {m : Nat} (h : m < c.n) : c.optIndex m = optIdx c m := by
  unfold optIdx; rw [if_pos h]

/-- generic: the free ports of the abstraction are the free modes of the circuit -/
theorem free_map_optMode (c : Circ K) (hwf : c.WF) (ext keys : List Nat)
    (hext : ∀ r, r ∈ ext ↔ r < c.portModes.length ∧ ∃ k ∈ keys, c.optIndex k = r)
    (hk : ∀ k ∈ keys, k < c.n) (hint : ∀ a ∈ c.internal, a ∈ keys) :
    ((List.range c.portModes.length).filter fun m => !ext.contains m).map c.optMode = freeOf c.n keys := by
  apply List.Pairwise.eq_of_mem_iff (r := (· < ·)) _ (freeOf_sorted _ _)
  · intro y
    rw [mem_freeOf]
    simp only [List.mem_map, List.mem_filter, List.mem_range, Bool.not_eq_true', List.contains_eq_mem,
      decide_eq_false_iff_not]
    constructor
    · rintro ⟨r, ⟨hr, hne⟩, rfl⟩
      rw [optMode_port c hr]
      have hm := (mem_portModes c).mp (List.getElem_mem hr)
      refine ⟨hm.1, ?_⟩
      intro hin
      apply hne
      rw [hext]
      refine ⟨hr, _, hin, ?_⟩
      rw [optIndex_eq_optIdx' c hm.1, ← optMode_port c hr, optIdx_optMode c hwf]
    · rintro ⟨hy, hny⟩
      have hyi : y ∉ c.internal := fun h => hny (hint y h)
      refine ⟨optIdx c y, ⟨optIdx_port_lt c hwf hy hyi, ?_⟩, optMode_optIdx c hwf y⟩
      intro hin
      rw [hext] at hin
      obtain ⟨-, k, hk1, hk2⟩ := hin
      rw [optIndex_eq_optIdx' c (hk k hk1)] at hk2
      have := congrArg c.optMode hk2
      rw [optMode_optIdx c hwf, optMode_optIdx c hwf] at this
      exact hny (this ▸ hk1)
  · rw [List.pairwise_map]
    have hs : ((List.range c.portModes.length).filter fun m => !ext.contains m).Pairwise (· < ·) :=
      List.Pairwise.filter _ List.pairwise_lt_range
    apply List.Pairwise.imp_of_mem _ hs
    intro a b ha hb hab
    have ha' : a < c.portModes.length := List.mem_range.mp (List.mem_filter.mp ha).1
    have hb' : b < c.portModes.length := List.mem_range.mp (List.mem_filter.mp hb).1
    rw [optMode_port c ha', optMode_port c hb']
    exact List.pairwise_iff_getElem.mp (portModes_sorted c) a b ha' hb' hab

theorem freeIn_map_optMode (i : K) (c : Circ K) (hwf : c.WF) :
    (c.toOptic i).freeIn.map c.optMode = freeOf c.n c.inHer.keys :=
  free_map_optMode c hwf _ _ (mem_extIn i c hwf) hwf.inLt (internal_sub_in c hwf)

theorem freeOut_map_optMode (i : K) (c : Circ K) (hwf : c.WF) :
    (c.toOptic i).freeOut.map c.optMode = freeOf c.n c.outHer.keys :=
  free_map_optMode c hwf _ _ (mem_extOut i c hwf) hwf.outLt (internal_sub_out c hwf)

theorem freeIn_length (i : K) (c : Circ K) (hwf : c.WF) :
    (c.toOptic i).freeIn.length = c.n - c.inHer.length := by
  have := congrArg List.length (freeIn_map_optMode i c hwf)
  rw [List.length_map, length_freeOf c.n _ hwf.inNodup hwf.inLt, keys_length] at this
  exact this

theorem freeOut_length (i : K) (c : Circ K) (hwf : c.WF) :
    (c.toOptic i).freeOut.length = c.n - c.inHer.length := by
  have := congrArg List.length (freeOut_map_optMode i c hwf)
  rw [List.length_map, length_freeOf c.n _ hwf.outNodup hwf.outLt, keys_length, ← hwf.lenEq] at this
  exact this

theorem freeIn_lt (i : K) (c : Circ K) : ∀ r ∈ (c.toOptic i).freeIn, r < c.portModes.length := by
  intro r hr
  exact List.mem_range.mp (List.mem_filter.mp hr).1

theorem freeOut_lt (i : K) (c : Circ K) : ∀ r ∈ (c.toOptic i).freeOut, r < c.portModes.length := by
  intro r hr
  exact List.mem_range.mp (List.mem_filter.mp hr).1

/-- `colIdx` of the abstraction is `colM` through `optMode` and stays inside the index space -/
theorem colIdx_toOptic (i : K) (c : Circ K) (hwf : c.WF) {y : Nat}
    (hy : y < c.n - c.inHer.length + c.inHer.length + lossCount c.spec) :
    c.optMode (colIdx (c.toOptic i) y) = colM c y ∧ colIdx (c.toOptic i) y < c.n + lossCount c.spec := by
  have hq := freeIn_length i c hwf
  have hh := her_length i c hwf
  have hpl := portModes_length c hwf
  unfold colIdx colM
  rw [hq, hh]
  by_cases h1 : y < c.n - c.inHer.length
  · rw [if_pos h1, if_pos h1]
    have hy1 : y < (c.toOptic i).freeIn.length := by rw [hq]; exact h1
    have hy2 : y < (freeOf c.n c.inHer.keys).length := by
      rw [← freeIn_map_optMode i c hwf, List.length_map]; exact hy1
    rw [List.getD_eq_getElem _ _ hy1, List.getD_eq_getElem _ _ hy2]
    constructor
    · have := freeIn_map_optMode i c hwf
      have e : ((c.toOptic i).freeIn.map c.optMode)[y]'(by rw [List.length_map]; exact hy1)
          = (freeOf c.n c.inHer.keys)[y] := by
        congr 1
      rw [List.getElem_map] at e
      exact e
    · have := freeIn_lt i c _ (List.getElem_mem hy1)
      omega
  · rw [if_neg h1, if_neg h1]
    by_cases h2 : y < c.n - c.inHer.length + c.inHer.length
    · rw [if_pos h2, if_pos h2]
      have hy1 : y - (c.n - c.inHer.length) < (c.toOptic i).her.length := by rw [hh]; omega
      have hy2 : y - (c.n - c.inHer.length) < c.inHer.keys.length := by rw [keys_length]; omega
      rw [List.getD_eq_getElem _ _ hy1, List.getD_eq_getElem _ _ hy2]
      have e : ((c.toOptic i).her.map (·.i))[y - (c.n - c.inHer.length)]'(by rw [List.length_map]; exact hy1)
          = (c.inHer.keys.map c.optIndex)[y - (c.n - c.inHer.length)]'(by rw [List.length_map]; exact hy2) := by
        congr 1
        exact her_map_i i c hwf
      rw [List.getElem_map, List.getElem_map] at e
      rw [e]
      have hk := hwf.inLt _ (List.getElem_mem hy2)
      rw [optIndex_eq_optIdx' c hk]
      exact ⟨optMode_optIdx c hwf _, by have := optIdx_lt c hwf (Nat.le_refl _) hk; omega⟩
    · rw [if_neg h2, if_neg h2]
      show c.optMode (c.portModes.length + c.internal.length + _) = _ ∧
        c.portModes.length + c.internal.length + _ < _
      rw [hpl]
      exact ⟨optMode_loss c hwf (by omega), by omega⟩

theorem rowIdx_toOptic (i : K) (c : Circ K) (hwf : c.WF) {y : Nat}
    (hy : y < c.n - c.inHer.length + c.inHer.length + lossCount c.spec) :
    c.optMode (rowIdx (c.toOptic i) y) = rowM c y ∧ rowIdx (c.toOptic i) y < c.n + lossCount c.spec := by
  have hq := freeIn_length i c hwf
  have hqo := freeOut_length i c hwf
  have hh := her_length i c hwf
  have hpl := portModes_length c hwf
  unfold rowIdx rowM
  rw [hq, hh]
  by_cases h1 : y < c.n - c.inHer.length
  · rw [if_pos h1, if_pos h1]
    have hy1 : y < (c.toOptic i).freeOut.length := by rw [hqo]; exact h1
    have hy2 : y < (freeOf c.n c.outHer.keys).length := by
      rw [← freeOut_map_optMode i c hwf, List.length_map]; exact hy1
    rw [List.getD_eq_getElem _ _ hy1, List.getD_eq_getElem _ _ hy2]
    constructor
    · have e : ((c.toOptic i).freeOut.map c.optMode)[y]'(by rw [List.length_map]; exact hy1)
          = (freeOf c.n c.outHer.keys)[y] := by
        congr 1
        exact freeOut_map_optMode i c hwf
      rw [List.getElem_map] at e
      exact e
    · have := freeOut_lt i c _ (List.getElem_mem hy1)
      omega
  · rw [if_neg h1, if_neg h1]
    by_cases h2 : y < c.n - c.inHer.length + c.inHer.length
    · rw [if_pos h2, if_pos h2]
      have hy1 : y - (c.n - c.inHer.length) < (c.toOptic i).her.length := by rw [hh]; omega
      have hy2 : y - (c.n - c.inHer.length) < c.outHer.keys.length := by
        rw [keys_length, ← hwf.lenEq]; omega
      rw [List.getD_eq_getElem _ _ hy1, List.getD_eq_getElem _ _ hy2]
      have e : ((c.toOptic i).her.map (·.o))[y - (c.n - c.inHer.length)]'(by rw [List.length_map]; exact hy1)
          = (c.outHer.keys.map c.optIndex)[y - (c.n - c.inHer.length)]'(by rw [List.length_map]; exact hy2) := by
        congr 1
        exact her_map_o i c hwf
      rw [List.getElem_map, List.getElem_map] at e
      rw [e]
      have hk := hwf.outLt _ (List.getElem_mem hy2)
      rw [optIndex_eq_optIdx' c hk]
      exact ⟨optMode_optIdx c hwf _, by have := optIdx_lt c hwf (Nat.le_refl _) hk; omega⟩
    · rw [if_neg h2, if_neg h2]
      show c.optMode (c.portModes.length + c.internal.length + _) = _ ∧
        c.portModes.length + c.internal.length + _ < _
      rw [hpl]
      exact ⟨optMode_loss c hwf (by omega), by omega⟩

/-- the closed form of the abstraction, on the circuit's own modes -/
theorem closed_toOptic (i : K) (c : Circ K) (hwf : c.WF) :
    (c.toOptic i).closed = ⟨c.n - c.inHer.length, c.inHer.map (·.2), lossCount c.spec,
      M.ofFn (c.n - c.inHer.length + c.inHer.length + lossCount c.spec)
        fun r k => (c.Ufull i).get (rowM c r) (colM c k)⟩ := by
  rw [closed_eq, freeIn_length i c hwf, her_length i c hwf, her_map_n i c hwf, toOptic_l]
  congr 1
  apply M.ofFn_congr
  intro r k hr hk
  obtain ⟨r1, r2⟩ := rowIdx_toOptic i c hwf hr
  obtain ⟨k1, k2⟩ := colIdx_toOptic i c hwf hk
  rw [get_toOptic_W i c hwf r2 k2, r1, k1]

end

end LW.Proofs.C02Sem
