/-
  LW.Proofs.C15Full2 — `Circuit.add` of a herald-free two-mode circuit onto any parent whose
  ancilla list has no duplicates, and `_create_circuit` on every well-formed base circuit.
-/
import LW.Proofs.C15Full

namespace LW.Tomo

open LW.Proofs.C02

variable {K : Type} [CommRing K]

set_option linter.unusedSectionVars false

theorem mapMode_eq_skipFold (c : Circ K) (m : Int) :
    c.mapMode m = skipFold (sortNat c.internal) m := rfl

theorem swapSpec_plain (sp : List (Comp K)) : swapSpec ({ n := 2, spec := sp } : Circ K) = sp := by
  simp [swapSpec, Dict.keys, Dict.ofPairs, Circ.synthSwaps, synthGo_nil, Dict.vals]

/-- number of ancilla modes between the two rails of user modes `x`, `x + 1` -/
def railGap (c : Circ K) (x : Nat) : Nat :=
  (c.mapMode ((x : Int) + 1)).toNat - (c.mapMode (x : Int)).toNat - 1

/-- `Circuit.add` of a herald-free two-mode circuit at user mode `x`: the ancillas between the two
rails are passed through, the shifted components are appended, nothing else changes -/
theorem add_stretch (self : Circ K) (sp : List (Comp K)) (x : Nat) (hnd : self.internal.Nodup)
    (hfit : self.mapMode ((x : Int) + 1) < (self.n : Int)) :
    self.add ({ n := 2, spec := sp } : Circ K) (x : Int) false
      = .ok { self with spec := self.spec ++
          (stretchSpec (railGap self x) sp).map (Comp.shift (self.mapMode (x : Int)).toNat) } := by
  have hs := strictSorted_sortNat hnd
  obtain ⟨t', h1, h2⟩ := pt_loop sp sp (sortNat self.internal) hs x
  have ha0 : 0 ≤ self.mapMode (x : Int) := skipFold_nonneg _ _ (by omega)
  rw [← mapMode_eq_skipFold, ← mapMode_eq_skipFold] at h2
  rw [← mapMode_eq_skipFold] at h1
  have hgap : railGap self x = t' := by unfold railGap; omega
  rw [add_eq]
  have hrange : self.modeInRange (self.mapMode (x : Int)) = .ok (self.mapMode (x : Int)).toNat := by
    unfold Circ.modeInRange
    rw [if_pos ⟨ha0, by omega⟩]
  rw [hrange]
  show addTail self (pick ({ n := 2, spec := sp } : Circ K) false).1 (self.mapMode (x : Int)).toNat
      (pick ({ n := 2, spec := sp } : Circ K) false).2 = _
  have hpick : pick ({ n := 2, spec := sp } : Circ K) false = (({ n := 2, spec := sp } : Circ K), false) := by
    simp [pick, Circ.unpackGroups]
  rw [hpick]
  unfold addTail
  simp only [List.length_nil, Nat.sub_zero, swapSpec_plain]
  rw [if_neg (by omega)]
  have hst : (⟨({ n := 2, spec := sp } : Circ K), sp⟩ : Circ.AddSt K) = stT sp sp 0 := rfl
  rw [hst, h1]
  have hn2 : ¬ ((self.mapMode (x : Int)).toNat + (stT sp sp t').sub.n > self.n) := by
    show ¬ (_ + (t' + 2) > _)
    omega
  rw [if_neg hn2]
  simp only [addFinal, stT, Dict.keys, List.map_nil, sortNat, List.foldr_nil, List.foldl_nil,
    Bool.not_false, if_true, hgap]

/-! ### the whole loop of `_create_circuit` -/

theorem measCirc_eta (i h : K) (g : Pauli) :
    measCirc i h g = { n := 2, spec := (measCirc i h g).spec } := by cases g <;> rfl

/-- the components `_create_circuit` appends for the operators `s` starting at qubit `k` -/
def stretchedSpec (i h : K) (base : Circ K) : Nat → Meas → List (Comp K)
  | _, [] => []
  | k, g :: t =>
    (stretchSpec (railGap base (2 * k)) (measCirc i h g).spec).map
        (Comp.shift (base.mapMode ((2 * k : Nat) : Int)).toNat)
      ++ stretchedSpec i h base (k + 1) t

theorem mapMode_congr {c c' : Circ K} (h : c.internal = c'.internal) (m : Int) :
    c.mapMode m = c'.mapMode m := by
  unfold Circ.mapMode; rw [h]

theorem railGap_congr {c c' : Circ K} (h : c.internal = c'.internal) (x : Nat) :
    railGap c x = railGap c' x := by
  unfold railGap; rw [mapMode_congr h, mapMode_congr h]

theorem addAll_stretch (i h : K) (base c : Circ K) (k : Nat) (s : Meas)
    (hint : c.internal = base.internal) (hn : c.n = base.n) (hnd : base.internal.Nodup)
    (hfit : ∀ y : Nat, y < 2 * (k + s.length) → base.mapMode (y : Int) < (base.n : Int)) :
    addAll c k (s.map (measCirc i h))
      = .ok { c with spec := c.spec ++ stretchedSpec i h base k s } := by
  induction s generalizing c k with
  | nil => simp [addAll, stretchedSpec]
  | cons g t ih =>
    simp only [List.length_cons] at hfit
    simp only [List.map_cons, addAll]
    have e : (2 * (k : Int)) = ((2 * k : Nat) : Int) := by push_cast; rfl
    rw [e, measCirc_eta i h g, add_stretch c _ (2 * k) (hint ▸ hnd) (by
      rw [mapMode_congr hint, hn]
      have := hfit (2 * k + 1) (by omega)
      push_cast at this ⊢
      exact this)]
    simp only [bind, Except.bind]
    rw [ih]
    · simp only [stretchedSpec, List.append_assoc, railGap_congr hint, mapMode_congr hint]
    · exact hint
    · exact hn
    · intro y hy
      exact hfit y (by omega)

/-- with `2·nQ` input modes a well-formed circuit has room for all rails -/
theorem rails_fit (base : Circ K) (hwf : base.WF) (nQ : Nat) (hin : base.inputModes = 2 * nQ)
    (y : Nat) (hy : y < 2 * nQ) : base.mapMode (y : Int) < (base.n : Int) := by
  have hsub : base.internal ⊆ base.inHer.keys := by
    intro a ha
    have := (hwf.intHer a ha).1
    unfold Dict.get? at this
    rw [Option.isSome_map] at this
    obtain ⟨p, hp⟩ := Option.isSome_iff_exists.mp this
    have hmem := List.mem_of_find?_eq_some hp
    have hkey := List.find?_some hp
    simp only [beq_iff_eq] at hkey
    exact List.mem_map.mpr ⟨p, hmem, hkey⟩
  have hlen : base.internal.length ≤ base.inHer.length := by
    have := (List.subperm_of_subset hwf.intNodup hsub).length_le
    simpa [Dict.keys] using this
  have h1 := skipFold_le_add_length (sortNat base.internal) (y : Int)
  rw [length_sortNat] at h1
  rw [mapMode_eq_skipFold]
  unfold Circ.inputModes at hin
  omega

/-- `_create_circuit` on every well-formed base -/
theorem createCircuit_stretch (i h : K) (nQ : Nat) (base : Circ K) (hwf : base.WF)
    (hin : base.inputModes = 2 * nQ) (s : Meas) (hs : s.length = nQ) :
    createCircuit nQ base (s.map (measCirc i h))
      = .ok { base with spec := base.spec ++ stretchedSpec i h base 0 s } := by
  unfold createCircuit
  simp only [List.length_map, hs, ne_eq, not_true_eq_false, if_false, Circ.copy]
  exact addAll_stretch i h base base 0 s rfl rfl hwf.intNodup
    (fun y hy => rails_fit base hwf nQ hin y (by omega))

end LW.Tomo
