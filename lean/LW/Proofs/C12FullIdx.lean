/-
  LW.Proofs.C12FullIdx — the index maps of an instruction: `fwdQ Q P` / `invQ Q P` form a partial
  injection of the sub-circuit's closed indices into the global modes, `fwdQ` is injective, and
  `qswap a b` is an involution of the modes.
-/
import LW.Proofs.C12FullStates

namespace LW.C12F

open LW LW.Proofs.C02Sem

theorem fwdQ_lt_port {Q : List ℕ} {P y : ℕ} (hy : y < 2 * Q.length) :
    fwdQ Q P y = 2 * Q.getD (y / 2) 0 + y % 2 := by
  unfold fwdQ; rw [if_pos hy]

theorem fwdQ_ge_port {Q : List ℕ} {P y : ℕ} (hy : 2 * Q.length ≤ y) :
    fwdQ Q P y = P + (y - 2 * Q.length) := by
  unfold fwdQ; rw [if_neg (by omega)]

theorem fwdQ_port (Q : List ℕ) (P j e : ℕ) (hj : j < Q.length) (he : e < 2) :
    fwdQ Q P (2 * j + e) = 2 * Q.getD j 0 + e := by
  rw [fwdQ_lt_port (by omega)]
  have h1 : (2 * j + e) / 2 = j := by omega
  have h2 : (2 * j + e) % 2 = e := by omega
  rw [h1, h2]

theorem fwdQ_her (Q : List ℕ) (P k : ℕ) : fwdQ Q P (2 * Q.length + k) = P + k := by
  rw [fwdQ_ge_port (by omega)]; congr 1; omega

theorem getD_mem' {Q : List ℕ} {j : ℕ} (hj : j < Q.length) : Q.getD j 0 ∈ Q := by
  rw [List.getD_eq_getElem _ _ hj]; exact List.getElem_mem hj

theorem pinj_fwdQ (Q : List ℕ) (P h : ℕ) (hnd : Q.Nodup) (hlt : ∀ q ∈ Q, 2 * q + 1 < P) :
    PInj (2 * Q.length + h) (P + h) (fwdQ Q P) (invQ Q P) := by
  refine ⟨?_, ?_, ?_⟩
  · intro y hy
    by_cases h1 : y < 2 * Q.length
    · rw [fwdQ_lt_port h1]
      have := hlt _ (getD_mem' (Q := Q) (j := y / 2) (by omega))
      omega
    · rw [fwdQ_ge_port (by omega)]; omega
  · intro y _
    by_cases h1 : y < 2 * Q.length
    · rw [fwdQ_lt_port h1]
      have hj : y / 2 < Q.length := by omega
      have hm := getD_mem' (Q := Q) hj
      have hP := hlt _ hm
      unfold invQ
      have e1 : (2 * Q.getD (y / 2) 0 + y % 2) / 2 = Q.getD (y / 2) 0 := by omega
      have e2 : (2 * Q.getD (y / 2) 0 + y % 2) % 2 = y % 2 := by omega
      rw [if_pos (by omega), e1, if_pos hm, e2]
      have : Q.idxOf (Q.getD (y / 2) 0) = y / 2 := by
        rw [List.getD_eq_getElem _ _ hj]
        exact hnd.idxOf_getElem _ hj
      rw [this]
      congr 1; omega
    · rw [fwdQ_ge_port (by omega)]
      unfold invQ
      rw [if_neg (by omega)]
      congr 1; omega
  · intro z x hz e
    unfold invQ at e
    by_cases h1 : z < P
    · rw [if_pos h1] at e
      by_cases h2 : z / 2 ∈ Q
      · rw [if_pos h2] at e
        injection e with e
        have hi : Q.idxOf (z / 2) < Q.length := List.idxOf_lt_length_iff.mpr h2
        subst e
        refine ⟨by omega, ?_⟩
        rw [fwdQ_lt_port (by omega)]
        have e1 : (2 * Q.idxOf (z / 2) + z % 2) / 2 = Q.idxOf (z / 2) := by omega
        have e2 : (2 * Q.idxOf (z / 2) + z % 2) % 2 = z % 2 := by omega
        rw [e1, e2, List.getD_eq_getElem _ _ hi, List.getElem_idxOf hi]
        omega
      · rw [if_neg h2] at e; cases e
    · rw [if_neg h1] at e
      injection e with e
      subst e
      refine ⟨by omega, ?_⟩
      rw [fwdQ_ge_port (by omega)]; omega

theorem fwdQ_injective (Q : List ℕ) (P : ℕ) (hnd : Q.Nodup) (hlt : ∀ q ∈ Q, 2 * q + 1 < P) :
    Function.Injective (fwdQ Q P) := by
  intro x y e
  have hp := pinj_fwdQ Q P (max x y + 1) hnd hlt
  exact hp.inj (by omega) (by omega) e

/-- a mode that is not a mode of a qubit of `Q` and not one of the herald modes is outside the
placement -/
theorem fwdQ_ne {Q : List ℕ} {P h z : ℕ} (hz1 : ¬ (z / 2 ∈ Q ∧ z < P))
    (hz2 : ¬ (P ≤ z ∧ z < P + h)) (hlt : ∀ q ∈ Q, 2 * q + 1 < P) :
    ∀ x, x < 2 * Q.length + h → fwdQ Q P x ≠ z := by
  intro x hx e
  by_cases h1 : x < 2 * Q.length
  · rw [fwdQ_lt_port h1] at e
    have hm := getD_mem' (Q := Q) (j := x / 2) (by omega)
    have := hlt _ hm
    apply hz1
    have e1 : z / 2 = Q.getD (x / 2) 0 := by omega
    rw [e1]
    exact ⟨hm, by omega⟩
  · rw [fwdQ_ge_port (by omega)] at e
    apply hz2
    omega

/-! ### the qubit swap -/

theorem qswap_invol (a b z : ℕ) : qswap a b (qswap a b z) = z := by
  unfold qswap
  by_cases h1 : z / 2 = a
  · rw [if_pos h1]
    have e1 : (2 * b + z % 2) / 2 = b := by omega
    have e2 : (2 * b + z % 2) % 2 = z % 2 := by omega
    rw [e1, e2]
    by_cases hab : b = a
    · rw [if_pos hab]; omega
    · rw [if_neg hab, if_pos rfl]; omega
  · rw [if_neg h1]
    by_cases h2 : z / 2 = b
    · rw [if_pos h2]
      have e1 : (2 * a + z % 2) / 2 = a := by omega
      have e2 : (2 * a + z % 2) % 2 = z % 2 := by omega
      rw [e1, e2, if_pos rfl]; omega
    · rw [if_neg h2, if_neg h1, if_neg h2]

theorem qswap_injective (a b : ℕ) : Function.Injective (qswap a b) := by
  intro x y e
  have := congrArg (qswap a b) e
  rwa [qswap_invol, qswap_invol] at this

theorem qswap_div (a b z : ℕ) :
    qswap a b z / 2 = if z / 2 = a then b else if z / 2 = b then a else z / 2 := by
  unfold qswap
  split_ifs <;> omega

theorem qswap_mod (a b z : ℕ) : qswap a b z % 2 = z % 2 := by
  unfold qswap
  split_ifs <;> omega

theorem qswap_lt {a b n z : ℕ} (ha : a < n) (hb : b < n) : qswap a b z < 2 * n ↔ z < 2 * n := by
  unfold qswap
  split_ifs <;> omega

end LW.C12F
