/-
  LW.Proofs.C03 — proofs of the C03 property theorems.
-/
import LW.Proofs.C03Perm
import LW.Proofs.C03Basis

namespace LW.Proofs.C03

variable {K : Type}

/-! ### `mapM` in `Except` -/

theorem mapM_ok_iff {α β ε : Type} (f : α → Except ε β) (l : List α) (r : List β) :
    l.mapM f = .ok r ↔ List.Forall₂ (fun a b => f a = .ok b) l r := by
  induction l generalizing r with
  | nil =>
    simp only [List.mapM_nil, List.forall₂_nil_left_iff]
    constructor
    · intro h; cases h; rfl
    · rintro rfl; rfl
  | cons a l ih =>
    rw [List.mapM_cons]
    cases hfa : f a with
    | error e =>
      simp only [bind, Except.bind]
      constructor
      · intro h; cases h
      · intro h; cases h with
        | cons h1 _ => rw [hfa] at h1; cases h1
    | ok b =>
      cases hl : l.mapM f with
      | error e =>
        simp only [bind, Except.bind]
        constructor
        · intro h; cases h
        · intro h; cases h with
          | cons h1 h2 => rw [← ih, hl] at h2; cases h2
      | ok bs =>
        simp only [bind, Except.bind, pure, Except.pure]
        constructor
        · intro h; cases h
          exact List.Forall₂.cons hfa ((ih bs).1 hl)
        · intro h; cases h with
          | cons h1 h2 =>
            rw [hfa] at h1; cases h1
            rw [← ih, hl] at h2; cases h2
            rfl

theorem forall₂_exists_of_mem {α β : Type} {R : α → β → Prop} {l : List α} {r : List β}
    (h : List.Forall₂ R l r) {a : α} (ha : a ∈ l) : ∃ b, R a b := by
  induction h with
  | nil => cases ha
  | cons h1 _ ih =>
    rcases List.mem_cons.1 ha with rfl | ha
    · exact ⟨_, h1⟩
    · exact ih ha

theorem mapM_error_of_mem {α β ε : Type} (f : α → Except ε β) (l : List α) {a : α} (ha : a ∈ l)
    (hbad : ∀ b, f a ≠ .ok b) : ∃ e, l.mapM f = .error e := by
  cases h : l.mapM f with
  | error e => exact ⟨e, rfl⟩
  | ok r =>
    obtain ⟨b, hb⟩ := forall₂_exists_of_mem ((mapM_ok_iff f l r).1 h) ha
    exact absurd hb (hbad b)

/-! ### `validateState` -/

/-- per-entry check of `validateState` -/
def vEntry : Occ → Except Err Nat
  | .bad => .error .type
  | .int i => if i < 0 then .error .value else .ok i.toNat

theorem validateState_eq (im : Nat) (s : List Occ) :
    validateState im s = if s.length ≠ im then .error .modeMismatch else s.mapM vEntry := by
  have hf : (fun x => match x with
      | Occ.bad => Except.error Err.type
      | Occ.int i => if i < 0 then Except.error Err.value else Except.ok i.toNat) = vEntry := by
    funext x; cases x <;> rfl
  by_cases h : s.length ≠ im
  · rw [if_pos h]
    simp only [validateState]
    rw [if_pos h]
    rfl
  · rw [if_neg h]
    simp only [validateState]
    rw [if_neg h]
    exact congrArg (fun f => List.mapM f s) hf

theorem vEntry_ok_iff (o : Occ) (k : Nat) : vEntry o = .ok k ↔ o = Occ.int (k : Int) := by
  cases o with
  | bad => simp [vEntry]
  | int i =>
    simp only [vEntry]
    by_cases h : i < 0
    · simp only [h, if_true]
      constructor
      · intro h'; cases h'
      · intro h'; injection h' with h'; omega
    · simp only [h, if_false]
      constructor
      · intro h'; injection h' with h'; congr 1; omega
      · intro h'; injection h' with h'; subst h'; simp

/-- NOTE on the statements: in `t.map fun k => Occ.int (k : Int)` with `t : List Nat` the binder
`k` is elaborated at type `Int` and the *list* `t` is coerced to `List Int` (through the `List`
monad: `do let a ← t; pure ↑a`).  This is the same list as the entry-wise cast: -/
theorem coeList_eq (t : FState) : ((t : List Nat) : List Int) = t.map fun k : Nat => (k : Int) := by
  simp [List.map_eq_flatMap]

theorem mapInt_eq (t : FState) :
    (t.map fun k => Occ.int (k : Int)) = List.map (fun k : Nat => Occ.int (k : Int)) t := by
  rw [coeList_eq, List.map_map]
  rfl

theorem forall₂_vEntry_iff (s : List Occ) (t : FState) :
    List.Forall₂ (fun a b => vEntry a = .ok b) s t ↔ s = t.map fun k => Occ.int (k : Int) := by
  rw [mapInt_eq]
  constructor
  · intro h
    induction h with
    | nil => rfl
    | cons h1 _ ih => rw [List.map_cons, ← ih, (vEntry_ok_iff _ _).1 h1]
  · rintro rfl
    induction t with
    | nil => exact List.Forall₂.nil
    | cons k t ih => exact List.Forall₂.cons ((vEntry_ok_iff _ _).2 rfl) ih

theorem validateState_ok_iff (im : Nat) (s : List Occ) (t : FState) :
    validateState im s = .ok t ↔ s.length = im ∧ s = t.map fun k => Occ.int (k : Int) := by
  rw [validateState_eq]
  by_cases h : s.length = im
  · simp only [h, ne_eq, not_true_eq_false, if_false, true_and]
    rw [mapM_ok_iff, forall₂_vEntry_iff]
  · simp only [ne_eq, h, not_false_eq_true, if_true, false_and, iff_false]
    intro h'; cases h'

theorem validateState_wrong_length (im : Nat) (s : List Occ) (h : s.length ≠ im) :
    validateState im s = .error .modeMismatch := by
  rw [validateState_eq, if_pos h]

theorem validateState_map_int (im : Nat) (s : FState) (h : s.length = im) :
    validateState im (s.map fun k => Occ.int (k : Int)) = .ok s :=
  (validateState_ok_iff im _ s).2 ⟨by rw [mapInt_eq]; simpa using h, rfl⟩

example : validateState 3 [.int 1, .int 0, .int 2] = .ok [1, 0, 2] := by decide
example : validateState 3 [.int 1, .bad, .int (-2)] = .error .type := by decide
example : validateState 3 [.int 1, .int (-2), .bad] = .error .value := by decide
example : validateState 2 [.int 1, .int (-2), .bad] = .error .modeMismatch := by decide

/-! ### `simulate` -/

/-- the amplitude table of the simulator -/
def ampTable [CommRing K] (i : K) (c : Circ K) (I O : List FState) : List (List (K × Nat)) :=
  I.map fun s => O.map fun t =>
      (ampNum (c.Ufull i) (addHeralds s c.inHer ++ List.replicate ((c.Ufull i).n - c.n) 0)
          (addHeralds t c.outHer ++ List.replicate ((c.Ufull i).n - c.n) 0),
       ampNormSq (addHeralds s c.inHer ++ List.replicate ((c.Ufull i).n - c.n) 0)
          (addHeralds t c.outHer ++ List.replicate ((c.Ufull i).n - c.n) 0))

theorem simulate_ok_form [CommRing K] (i : K) (c : Circ K) (ins : List (List Occ))
    (outs : Option (List (List Occ))) (r : SimResult K) (h : simulate i c ins outs = .ok r) :
    r.amps = ampTable i c r.inputs r.outputs := by
  unfold simulate at h
  cases h1 : List.mapM (validateState c.inputModes) ins with
  | error e => simp only [h1, bind, Except.bind] at h; cases h
  | ok I =>
    simp only [h1, bind, Except.bind] at h
    cases outs with
    | none =>
      simp only at h
      split at h
      · cases h
      · split at h
        · cases h
        · cases h; rfl
    | some os =>
      simp only at h
      cases h2 : List.mapM (validateState c.inputModes) os with
      | error e => simp only [h2] at h; cases h
      | ok O =>
        simp only [h2] at h
        split at h
        · cases h
        · split at h
          · cases h
          · cases h; rfl

/-- every amplitude the simulator returns is the permanent-formula entry -/
theorem simulate_eq_formula [CommRing K] (i : K) (c : Circ K) (ins : List (List Occ))
    (outs : Option (List (List Occ))) (r : SimResult K) (h : simulate i c ins outs = .ok r) :
    let U := c.Ufull i
    let z := List.replicate (U.n - c.n) 0
    r.amps = r.inputs.map fun s => r.outputs.map fun t =>
      (ampNum U (addHeralds s c.inHer ++ z) (addHeralds t c.outHer ++ z),
       ampNormSq (addHeralds s c.inHer ++ z) (addHeralds t c.outHer ++ z)) :=
  simulate_ok_form i c ins outs r h

theorem simulate_error_of_ins [CommRing K] (i : K) (c : Circ K) (ins : List (List Occ))
    (outs : Option (List (List Occ))) (e : Err)
    (h : List.mapM (validateState c.inputModes) ins = .error e) :
    simulate i c ins outs = .error e := by
  unfold simulate
  simp only [h, bind, Except.bind]

theorem simulate_error_of_outs [CommRing K] (i : K) (c : Circ K) (ins : List (List Occ))
    (os : List (List Occ)) (I : List FState) (e : Err)
    (h1 : List.mapM (validateState c.inputModes) ins = .ok I)
    (h2 : List.mapM (validateState c.inputModes) os = .error e) :
    simulate i c ins (some os) = .error e := by
  unfold simulate
  simp only [h1, h2, bind, Except.bind]

/-- a simulation is refused (never computed) when an input or a requested output is malformed -/
theorem simulate_rejects [CommRing K] (i : K) (c : Circ K) (ins : List (List Occ))
    (outs : Option (List (List Occ)))
    (h : (∃ s ∈ ins, ∀ t, validateState c.inputModes s ≠ .ok t) ∨
         (∃ os, outs = some os ∧ ∃ s ∈ os, ∀ t, validateState c.inputModes s ≠ .ok t)) :
    ∃ e, simulate i c ins outs = .error e := by
  rcases h with ⟨s, hs, hbad⟩ | ⟨os, rfl, s, hs, hbad⟩
  · obtain ⟨e, he⟩ := mapM_error_of_mem _ ins hs hbad
    exact ⟨e, simulate_error_of_ins i c ins outs e he⟩
  · cases h1 : List.mapM (validateState c.inputModes) ins with
    | error e => exact ⟨e, simulate_error_of_ins i c ins _ e h1⟩
    | ok I =>
      obtain ⟨e, he⟩ := mapM_error_of_mem _ os hs hbad
      exact ⟨e, simulate_error_of_outs i c ins os I e h1 he⟩

theorem simulate_none_of_ins [CommRing K] (i : K) (c : Circ K) (ins : List (List Occ))
    (I : List FState) (h : List.mapM (validateState c.inputModes) ins = .ok I) :
    simulate i c ins none =
      match I.map photons with
      | [] => .error .value
      | n0 :: _ =>
        if (I.map photons).any (· ≠ n0) then .error .photonNumber
        else .ok ⟨I, fockBasis c.inputModes n0, ampTable i c I (fockBasis c.inputModes n0)⟩ := by
  unfold simulate
  simp only [h, bind, Except.bind]
  cases hns : List.map photons I with
  | nil => rfl
  | cons n0 tl =>
    simp only []
    split <;> rfl

theorem simulate_rejects_photon_mismatch [CommRing K] (i : K) (c : Circ K) (s1 s2 : FState)
    (h1 : s1.length = c.inputModes) (h2 : s2.length = c.inputModes) (hne : photons s1 ≠ photons s2) :
    simulate i c [s1.map fun k => Occ.int k, s2.map fun k => Occ.int k] none = .error .photonNumber := by
  have hm : List.mapM (validateState c.inputModes)
      [s1.map fun k => Occ.int k, s2.map fun k => Occ.int k] = .ok [s1, s2] := by
    rw [mapM_ok_iff]
    exact List.Forall₂.cons (validateState_map_int _ s1 h1)
      (List.Forall₂.cons (validateState_map_int _ s2 h2) List.Forall₂.nil)
  rw [simulate_none_of_ins i c _ _ hm]
  have : (photons s2 ≠ photons s1) := fun h => hne h.symm
  simp [this]

/-- non-vacuity: a 2-mode circuit (one `h`-convention beam splitter with integer entries
`c = 0, s = 1`, i.e. a swap) is simulated on `|1,1⟩`; the amplitude table has the 3 outputs of
`fockBasis 2 2` -/
example : ∃ r, simulate (0 : Int) { n := 2, spec := [.prim (.bs 0 1 0 1 .h)] }
      [[.int 1, .int 1]] none = .ok r ∧ r.outputs = [[2, 0], [1, 1], [0, 2]] ∧
      r.amps = [[(0, 2), (1, 1), (0, 2)]] :=
  ⟨_, rfl, by decide, by decide⟩

example : simulate (0 : Int) { n := 2 } [[.int 1, .int 1], [.int 2, .int 1]] none
    = .error .photonNumber :=
  simulate_rejects_photon_mismatch 0 { n := 2 } [1, 1] [2, 1] rfl rfl (by decide)

end LW.Proofs.C03
