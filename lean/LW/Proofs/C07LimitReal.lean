/-
  C07 limit statements, part B1: the real-valued twin of inverse-CDF selection.

  `inverseCdfR` is the model's `inverseCdf` with `ℝ` in place of `Rat` (same recursion, same
  clipping).  It agrees with the model on rational data, has the same interval characterisation,
  is Borel measurable, and pushes the uniform law on `[0,1)` forward to the normalised weights.
-/
import Mathlib.MeasureTheory.Measure.Lebesgue.Basic
import Mathlib.Data.List.GetD
import LW.Proofs.C07Cdf

namespace LW.Proofs.C07

open MeasureTheory

/-- the recursion of `inverseCdf.go` over `ℝ` -/
noncomputable def inverseCdfR.go (u tot : ℝ) : List ℝ → ℝ → ℕ → ℕ
  | [], _, i => i
  | p :: rest, acc, i => if u < (acc + p) / tot then i else inverseCdfR.go u tot rest (acc + p) (i + 1)

/-- real-valued twin of the model's `inverseCdf` (`Generator.choice(p=…)` on an ideal real
variate) -/
noncomputable def inverseCdfR (ps : List ℝ) (u : ℝ) : ℕ :=
  min (inverseCdfR.go u (ps.foldl (· + ·) 0) ps 0 0) (ps.length - 1)

/-- prefix sums of real weights -/
noncomputable def cumR (ps : List ℝ) (k : ℕ) : ℝ := (ps.take k).sum

/-! ### agreement with the model on rational data -/

theorem goR_cast (u tot : ℚ) (l : List ℚ) (acc : ℚ) (i : ℕ) :
    inverseCdfR.go (u : ℝ) (tot : ℝ) (l.map (fun q : ℚ => (q : ℝ))) (acc : ℝ) i =
      inverseCdf.go u tot l acc i := by
  induction l generalizing acc i with
  | nil => simp [inverseCdfR.go, inverseCdf.go]
  | cons p rest ih =>
    rw [List.map_cons]
    unfold inverseCdfR.go inverseCdf.go
    have hc : ((u : ℝ) < ((acc : ℝ) + (p : ℝ)) / (tot : ℝ)) ↔ u < (acc + p) / tot := by
      exact_mod_cast Iff.rfl
    have ih' := ih (acc + p) (i + 1)
    rw [Rat.cast_add] at ih'
    by_cases h : u < (acc + p) / tot
    · rw [if_pos h, if_pos (hc.mpr h)]
    · rw [if_neg h, if_neg (fun h' => h (hc.mp h')), ih']

theorem foldl_cast (l : List ℚ) (acc : ℚ) :
    (l.map (fun q : ℚ => (q : ℝ))).foldl (· + ·) (acc : ℝ) = ((l.foldl (· + ·) acc : ℚ) : ℝ) := by
  induction l generalizing acc with
  | nil => rfl
  | cons p rest ih =>
    simp only [List.map_cons, List.foldl_cons]
    rw [← Rat.cast_add, ih]

/-- AGREEMENT: on rational weights and a rational variate the real twin is the model function -/
theorem inverseCdfR_cast (ps : List ℚ) (u : ℚ) :
    inverseCdfR (ps.map (fun q : ℚ => (q : ℝ))) (u : ℝ) = inverseCdf ps u := by
  unfold inverseCdfR inverseCdf
  have h0 := foldl_cast ps 0
  rw [Rat.cast_zero] at h0
  have h1 := goR_cast u (ps.foldl (· + ·) 0) ps 0 0
  rw [Rat.cast_zero] at h1
  rw [h0, h1, List.length_map]

/-! ### interval characterisation over `ℝ` (as in C07Cdf) -/

theorem goR_ge (u tot : ℝ) (l : List ℝ) (acc : ℝ) (i : ℕ) :
    i ≤ inverseCdfR.go u tot l acc i := by
  induction l generalizing acc i with
  | nil => simp [inverseCdfR.go]
  | cons p rest ih =>
    unfold inverseCdfR.go
    split
    · exact Nat.le_refl _
    · exact Nat.le_trans (Nat.le_succ i) (ih _ _)

theorem goR_lt (u tot : ℝ) (l : List ℝ) (acc : ℝ) (i : ℕ)
    (hacc : acc / tot ≤ u) (hu : u < (acc + l.sum) / tot) :
    inverseCdfR.go u tot l acc i < i + l.length := by
  induction l generalizing acc i with
  | nil => simp at hu; exact absurd hu (not_lt.mpr hacc)
  | cons p rest ih =>
    unfold inverseCdfR.go
    split
    · simp
    · rename_i h
      have := ih (acc + p) (i + 1) (not_lt.mp h) (by rwa [List.sum_cons, ← add_assoc] at hu)
      simp only [List.length_cons]; omega

theorem takeR_sum_nonneg (l : List ℝ) (hnn : ∀ p ∈ l, 0 ≤ p) (k : ℕ) : 0 ≤ (l.take k).sum :=
  List.sum_nonneg fun p hp => hnn p (List.mem_of_mem_take hp)

theorem goR_eq_iff (u tot : ℝ) (htot : 0 < tot) (l : List ℝ) (hnn : ∀ p ∈ l, 0 ≤ p)
    (acc : ℝ) (i k : ℕ) (hk : k < l.length) (hacc : acc / tot ≤ u) :
    inverseCdfR.go u tot l acc i = i + k ↔
      (acc + (l.take k).sum) / tot ≤ u ∧ u < (acc + (l.take (k + 1)).sum) / tot := by
  induction l generalizing acc i k with
  | nil => simp at hk
  | cons p rest ih =>
    have hp : 0 ≤ p := hnn p (by simp)
    have hrest : ∀ q ∈ rest, 0 ≤ q := fun q hq => hnn q (by simp [hq])
    unfold inverseCdfR.go
    cases k with
    | zero =>
      simp only [List.take_zero, List.sum_nil, add_zero, zero_add, List.take_succ_cons,
        List.sum_cons]
      split
      · rename_i h; simp [hacc, h]
      · rename_i h
        have := goR_ge u tot rest (acc + p) (i + 1)
        constructor
        · intro e; omega
        · intro e; exact absurd e.2 h
    | succ k =>
      simp only [List.take_succ_cons, List.sum_cons]
      split
      · rename_i h
        constructor
        · intro e; omega
        · intro e
          exfalso
          have h0 := takeR_sum_nonneg rest hrest k
          have : (acc + p) / tot ≤ (acc + (p + (rest.take k).sum)) / tot :=
            div_le_div_of_nonneg_right (by linarith) htot.le
          linarith [e.1]
      · rename_i h
        have hk' : k < rest.length := by simpa using hk
        have := ih hrest (acc + p) (i + 1) k hk' (not_lt.mp h)
        rw [show i + (k + 1) = i + 1 + k by omega, this]
        simp only [add_assoc]

theorem foldlR_eq_sum (ps : List ℝ) : ps.foldl (· + ·) 0 = ps.sum := by
  rw [List.sum_eq_foldl]

/-- INTERVAL (real form): for non-negative weights of positive total and `u ∈ [0,1)`, index `k`
is selected exactly on `[cum k / Σ, cum (k+1) / Σ)`; for `p_k = 0` this interval is empty -/
theorem inverseCdfR_interval (ps : List ℝ) (hnn : ∀ p ∈ ps, 0 ≤ p) (htot : 0 < ps.sum)
    (u : ℝ) (hu0 : 0 ≤ u) (hu1 : u < 1) (k : ℕ) (hk : k < ps.length) :
    inverseCdfR ps u = k ↔ cumR ps k / ps.sum ≤ u ∧ u < cumR ps (k + 1) / ps.sum := by
  unfold inverseCdfR
  simp only [foldlR_eq_sum]
  have hlt : inverseCdfR.go u ps.sum ps 0 0 < 0 + ps.length :=
    goR_lt u ps.sum ps 0 0 (by simpa using hu0) (by rw [zero_add, div_self htot.ne']; exact hu1)
  have hmin : min (inverseCdfR.go u ps.sum ps 0 0) (ps.length - 1) =
      inverseCdfR.go u ps.sum ps 0 0 := Nat.min_eq_left (by omega)
  rw [hmin]
  have := goR_eq_iff u ps.sum htot ps hnn 0 0 k hk (by simpa using hu0)
  simpa [cumR] using this

theorem inverseCdfR_lt (ps : List ℝ) (hne : ps ≠ []) (u : ℝ) : inverseCdfR ps u < ps.length := by
  unfold inverseCdfR
  have : 0 < ps.length := List.length_pos_iff.mpr hne
  have := Nat.min_le_right (inverseCdfR.go u (ps.foldl (· + ·) 0) ps 0 0) (ps.length - 1)
  omega

theorem cumR_succ (ps : List ℝ) (k : ℕ) (hk : k < ps.length) :
    cumR ps (k + 1) = cumR ps k + ps.getD k 0 := by
  unfold cumR
  rw [List.sum_take_succ ps k hk, List.getD_eq_getElem ps 0 hk]

theorem cumR_le_sum (ps : List ℝ) (hnn : ∀ p ∈ ps, 0 ≤ p) (k : ℕ) : cumR ps k ≤ ps.sum := by
  unfold cumR
  have h := List.sum_take_add_sum_drop ps k
  have h2 : 0 ≤ (ps.drop k).sum := List.sum_nonneg fun p hp => hnn p (List.mem_of_mem_drop hp)
  linarith

/-! ### measurability and the push-forward of the uniform law -/

theorem measurable_goR (tot : ℝ) (l : List ℝ) (acc : ℝ) (i : ℕ) :
    Measurable fun u : ℝ => inverseCdfR.go u tot l acc i := by
  induction l generalizing acc i with
  | nil => simp only [inverseCdfR.go]; exact measurable_const
  | cons p rest ih =>
    simp only [inverseCdfR.go]
    exact Measurable.ite (measurableSet_lt measurable_id measurable_const) measurable_const
      (ih _ _)

/-- MEASURABILITY: selection is a Borel function of the variate (no hypothesis on the weights) -/
theorem measurable_inverseCdfR (ps : List ℝ) : Measurable fun u : ℝ => inverseCdfR ps u := by
  unfold inverseCdfR
  exact (measurable_goR _ ps 0 0).min measurable_const

theorem measurableSet_inverseCdfR_eq (ps : List ℝ) (k : ℕ) :
    MeasurableSet {u : ℝ | inverseCdfR ps u = k} :=
  measurable_inverseCdfR ps (measurableSet_singleton k)

/-- within `[0,1)` the variates selecting `k` form the interval `[cum k / Σ, cum (k+1) / Σ)` -/
theorem inverseCdfR_preimage (ps : List ℝ) (hnn : ∀ p ∈ ps, 0 ≤ p) (htot : 0 < ps.sum)
    (k : ℕ) (hk : k < ps.length) :
    {u : ℝ | inverseCdfR ps u = k} ∩ Set.Ico 0 1 =
      Set.Ico (cumR ps k / ps.sum) (cumR ps (k + 1) / ps.sum) := by
  ext u
  simp only [Set.mem_inter_iff, Set.mem_ofPred_eq, Set.mem_Ico]
  constructor
  · rintro ⟨h, hu0, hu1⟩
    exact (inverseCdfR_interval ps hnn htot u hu0 hu1 k hk).mp h
  · rintro ⟨h1, h2⟩
    have hu0 : 0 ≤ u := le_trans (div_nonneg (takeR_sum_nonneg ps hnn k) htot.le) h1
    have hu1 : u < 1 :=
      lt_of_lt_of_le h2 ((div_le_one htot).mpr (cumR_le_sum ps hnn (k + 1)))
    exact ⟨(inverseCdfR_interval ps hnn htot u hu0 hu1 k hk).mpr ⟨h1, h2⟩, hu0, hu1⟩

/-- PUSH-FORWARD: under the uniform law on `[0,1)` index `k` is selected with probability
`p_k / Σp` (also when `p_k = 0`) -/
theorem volume_inverseCdfR_eq (ps : List ℝ) (hnn : ∀ p ∈ ps, 0 ≤ p) (htot : 0 < ps.sum)
    (k : ℕ) (hk : k < ps.length) :
    (volume.restrict (Set.Ico (0 : ℝ) 1)) {u : ℝ | inverseCdfR ps u = k} =
      ENNReal.ofReal (ps.getD k 0 / ps.sum) := by
  rw [Measure.restrict_apply' measurableSet_Ico, inverseCdfR_preimage ps hnn htot k hk,
    Real.volume_Ico, cumR_succ ps k hk]
  congr 1
  ring

/-- non-vacuity: weights 1/4, 0, 3/4 satisfy the hypotheses; index 2 has probability 3/4 and the
zero-weight index 1 has probability 0 -/
example : (∀ p ∈ ([1/4, 0, 3/4] : List ℝ), 0 ≤ p) ∧ 0 < ([1/4, 0, 3/4] : List ℝ).sum ∧
    ([1/4, 0, 3/4] : List ℝ).getD 2 0 / ([1/4, 0, 3/4] : List ℝ).sum = 3/4 ∧
    ([1/4, 0, 3/4] : List ℝ).getD 1 0 / ([1/4, 0, 3/4] : List ℝ).sum = 0 := by
  refine ⟨?_, by norm_num, by norm_num, by norm_num⟩
  intro p hp
  simp only [List.mem_cons, List.not_mem_nil, or_false] at hp
  rcases hp with h | h | h <;> rw [h] <;> norm_num

end LW.Proofs.C07
