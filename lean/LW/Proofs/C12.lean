/-
  LW.Proofs.C12 — lemmas about the model of the qiskit converter (LW.Model.QConvert).
-/
import Mathlib.Data.List.Basic
import LW.Model.QConvert

namespace LW.QC

/-! ### convert_two_qubits_to_adjacent -/

theorem adjLoop_spec (fuel : Nat) : ∀ (up lo : Nat), lo < up → up - lo ≤ fuel + 1 →
    (adjLoop fuel up lo).1 = (adjLoop fuel up lo).2 + 1 ∧ lo ≤ (adjLoop fuel up lo).2 ∧
      (adjLoop fuel up lo).1 ≤ up := by
  induction fuel with
  | zero => intro up lo h1 h2; simp only [adjLoop]; omega
  | succ n ih =>
    intro up lo h1 h2
    simp only [adjLoop]
    split_ifs with h3 h4
    · simp only; omega
    · simp only; omega
    · have := ih (up - 1) (lo + 1) (by omega) (by omega)
      omega

/-- the swap list for bringing `lo < hi` to the adjacent pair `(l, l+1)` -/
def swapsFor (lo hi l : Nat) : List (Nat × Nat) :=
  (if lo ≠ l then [(lo, l)] else []) ++ (if hi ≠ l + 1 then [(hi, l + 1)] else [])

theorem swapsFor_spec (lo hi l : Nat) (h1 : lo ≤ l) (h2 : l + 1 ≤ hi) :
    applySwaps (swapsFor lo hi l) lo = l ∧ applySwaps (swapsFor lo hi l) hi = l + 1 ∧
    (∀ q, applySwaps (swapsFor lo hi l) (applySwaps (swapsFor lo hi l) q) = q) ∧
    (∀ p ∈ swapsFor lo hi l, lo ≤ min p.1 p.2 ∧ max p.1 p.2 ≤ hi) := by
  refine ⟨?_, ?_, ?_, ?_⟩ <;> unfold swapsFor <;>
    by_cases ha : lo = l <;> by_cases hb : hi = l + 1 <;>
    simp only [ha, hb, ne_eq, not_true_eq_false, not_false_eq_true, if_true, if_false,
      List.nil_append, List.append_nil, List.cons_append, applySwaps, applySwap,
      List.foldl_cons, List.foldl_nil, List.mem_cons, List.not_mem_nil, or_false,
      forall_eq_or_imp, forall_eq, false_imp_iff, implies_true, Nat.min_def, Nat.max_def] <;>
    first
      | omega
      | (split_ifs <;> omega)
      | (intro q; split_ifs <;> omega)

theorem toAdjacent_lt (a b : Nat) (h : a < b) :
    ∃ l, a ≤ l ∧ l + 1 ≤ b ∧ toAdjacent a b = (l, l + 1, swapsFor a b l) ∧
      toAdjacent b a = (l + 1, l, swapsFor a b l) := by
  have hmin : min a b = a := by omega
  have hmax : max a b = b := by omega
  have hmin' : min b a = a := by omega
  have hmax' : max b a = b := by omega
  unfold toAdjacent
  simp only [hmin, hmax, hmin', hmax', h, if_true, Nat.lt_asymm h, if_false]
  by_cases hadj : b - a = 1
  · refine ⟨a, by omega, by omega, ?_⟩
    have hb : b = a + 1 := by omega
    subst hb
    simp [swapsFor]
  · simp only [hadj, if_false]
    obtain ⟨e1, e2, e3⟩ := adjLoop_spec (b - a) b a h (by omega)
    generalize adjLoop (b - a) b a = r at e1 e2 e3
    obtain ⟨u, l⟩ := r
    simp only at e1 e2 e3
    subst e1
    exact ⟨l, e2, e3, rfl, rfl⟩
/-- the result of `convert_two_qubits_to_adjacent`, for any two distinct qubits: the returned
qubits are adjacent, in the same order as the arguments and inside their span; the swaps move the
two argument qubits exactly onto them, stay inside the span, and applying them a second time (as
the converter does after the gate) restores every qubit. -/
theorem toAdjacent_spec (q0 q1 : Nat) (h : q0 ≠ q1) :
    ((toAdjacent q0 q1).1 + 1 = (toAdjacent q0 q1).2.1 ∨ (toAdjacent q0 q1).2.1 + 1 = (toAdjacent q0 q1).1) ∧
    (q0 < q1 ↔ (toAdjacent q0 q1).1 < (toAdjacent q0 q1).2.1) ∧
    min q0 q1 ≤ min (toAdjacent q0 q1).1 (toAdjacent q0 q1).2.1 ∧
    max (toAdjacent q0 q1).1 (toAdjacent q0 q1).2.1 ≤ max q0 q1 ∧
    applySwaps (toAdjacent q0 q1).2.2 q0 = (toAdjacent q0 q1).1 ∧
    applySwaps (toAdjacent q0 q1).2.2 q1 = (toAdjacent q0 q1).2.1 ∧
    (∀ q, applySwaps (toAdjacent q0 q1).2.2 (applySwaps (toAdjacent q0 q1).2.2 q) = q) ∧
    (∀ p ∈ (toAdjacent q0 q1).2.2, min q0 q1 ≤ min p.1 p.2 ∧ max p.1 p.2 ≤ max q0 q1) := by
  rcases Nat.lt_or_gt_of_ne h with hlt | hgt
  · obtain ⟨l, h1, h2, e, _⟩ := toAdjacent_lt q0 q1 hlt
    obtain ⟨s1, s2, s3, s4⟩ := swapsFor_spec q0 q1 l h1 h2
    rw [e]
    refine ⟨Or.inl rfl, ⟨fun _ => Nat.lt_succ_self l, fun _ => hlt⟩, ?_, ?_, s1, s2, s3, ?_⟩
    · simp only [Nat.min_def]; split_ifs <;> omega
    · simp only [Nat.max_def]; split_ifs <;> omega
    · intro p hp
      have := s4 p hp
      simp only [Nat.min_def, Nat.max_def] at this ⊢
      split_ifs at this ⊢ <;> omega
  · obtain ⟨l, h1, h2, _, e⟩ := toAdjacent_lt q1 q0 hgt
    obtain ⟨s1, s2, s3, s4⟩ := swapsFor_spec q1 q0 l h1 h2
    rw [e]
    refine ⟨Or.inr rfl, ⟨fun hh => absurd hh (Nat.lt_asymm hgt), fun hh => absurd hh (by simp)⟩,
      ?_, ?_, s2, s1, s3, ?_⟩
    · simp only [Nat.min_def]; split_ifs <;> omega
    · simp only [Nat.max_def]; split_ifs <;> omega
    · intro p hp
      have := s4 p hp
      simp only [Nat.min_def, Nat.max_def] at this ⊢
      split_ifs at this ⊢ <;> omega

/-! ### post_selection_analyzer -/

theorem psAnalyze_has_cons (fixed : Bool) (g : Instr) (rest : List Instr) :
    (psAnalyze fixed (g :: rest)).2 =
      if g.qubits.length ≥ 2 then (psAnalyze fixed rest).2 ++ g.qubits else (psAnalyze fixed rest).2 := by
  simp only [psAnalyze]; split_ifs <;> rfl

theorem psAnalyze_flags_cons (fixed : Bool) (g : Instr) (rest : List Instr) :
    (psAnalyze fixed (g :: rest)).1 =
      (if g.qubits.length ≥ 2 then
        (if fixed then decide ((g.qubits.filter fun q => (psAnalyze fixed rest).2.contains q).length ≤ 1)
          else !(g.qubits.all fun q => (psAnalyze fixed rest).2.contains q))
       else false) :: (psAnalyze fixed rest).1 := by
  simp only [psAnalyze]; split_ifs <;> rfl

theorem psAnalyze_flags_cons_true (g : Instr) (rest : List Instr) :
    (psAnalyze true (g :: rest)).1 =
      (if g.qubits.length ≥ 2 then
        decide ((g.qubits.filter fun q => (psAnalyze true rest).2.contains q).length ≤ 1)
       else false) :: (psAnalyze true rest).1 := by
  rw [psAnalyze_flags_cons]; simp

theorem finalOf_cons (c0 c1 : Config) (tr : List Config) : finalOf c0 (c1 :: tr) = finalOf c1 tr := by
  unfold finalOf
  induction tr generalizing c1 with
  | nil => simp [List.getLastD]
  | cons x xs _ =>
    simp only [List.getLastD_eq_getLast?, List.getLast?_cons_cons]
    cases h : (x :: xs).getLast? with
    | none => simp at h
    | some v => rfl

theorem psAnalyze_flags_length (fixed : Bool) (gs : List Instr) :
    (psAnalyze fixed gs).1.length = gs.length := by
  induction gs with
  | nil => rfl
  | cons g rest ih => rw [psAnalyze_flags_cons]; simp [ih]

/-- a qubit that no later multi-qubit instruction touches keeps its photon count to the end -/
theorem run_untouched (fixed : Bool) : ∀ (gs : List Instr) (fs : List Bool) (c : Config) (tr : List Config),
    Run gs fs c tr → ∀ q, q ∉ (psAnalyze fixed gs).2 → ∀ c' ∈ tr, c' q = c q := by
  intro gs
  induction gs with
  | nil => intro fs c tr hr q _ c' hc'; cases hr; simp at hc'
  | cons g rest ih =>
    intro fs c tr hr q hq c' hc'
    cases hr with
    | cons _ f _ fs' _ c1 tr' hstep hrest =>
      rw [psAnalyze_has_cons] at hq
      have hq_rest : q ∉ (psAnalyze fixed rest).2 := by
        split_ifs at hq with h2
        · simp only [List.mem_append, not_or] at hq; exact hq.1
        · exact hq
      have hc1 : c1 q = c q := by
        unfold stepRel at hstep
        split_ifs at hstep with h1 hsw
        · rw [hstep]
        · obtain ⟨a, b, hab, _, _, hrest'⟩ := hstep
          have hlen : g.qubits.length ≥ 2 := by rw [hab]; simp
          rw [if_pos hlen] at hq
          simp only [List.mem_append, not_or, hab, List.mem_cons, List.not_mem_nil, or_false] at hq
          exact hrest' q hq.2.1 hq.2.2
        · by_cases hlen : g.qubits.length ≥ 2
          · rw [if_pos hlen] at hq
            simp only [List.mem_append, not_or] at hq
            exact hstep.1.1 q hq.2
          · have h0 : g.qubits = [] := by
              cases hg : g.qubits with
              | nil => rfl
              | cons x xs => rw [hg] at h1 hlen; cases xs <;> simp at h1 hlen
            exact hstep.1.1 q (by rw [h0]; simp)
      rcases List.mem_cons.mp hc' with rfl | hmem
      · exact hc1
      · rw [ih fs' c1 tr' hrest q hq_rest c' hmem, hc1]

/-- counting lemma behind the repaired rule: values that sum to the length, all equal to 1
except on at most one position, are all equal to 1 -/
theorem all_one_of_sum (p : Nat → Bool) (f : Nat → Nat) : ∀ (l : List Nat),
    (∀ q ∈ l, p q = false → f q = 1) → (l.filter p).length ≤ 1 → (l.map f).sum = l.length →
    ∀ q ∈ l, f q = 1 := by
  intro l
  induction l with
  | nil => intro _ _ _ q hq; simp at hq
  | cons x xs ih =>
    intro h1 h2 h3 q hq
    simp only [List.map_cons, List.sum_cons, List.length_cons] at h3
    by_cases hp : p x = true
    · have hf : (xs.filter p).length = 0 := by
        simp only [List.filter_cons, hp, if_true, List.length_cons] at h2; omega
      have hnone : ∀ y ∈ xs, p y = false := by
        intro y hy
        by_contra hc
        have : y ∈ xs.filter p := List.mem_filter.mpr ⟨hy, by simpa using hc⟩
        rw [List.length_eq_zero_iff.mp hf] at this; simp at this
      have hxs : ∀ y ∈ xs, f y = 1 := fun y hy => h1 y (List.mem_cons_of_mem _ hy) (hnone y hy)
      have hsum : (xs.map f).sum = xs.length := by
        clear h3 ih h1 h2 hq hf hnone
        induction xs with
        | nil => rfl
        | cons y ys ihy =>
          simp only [List.map_cons, List.sum_cons, List.length_cons]
          rw [hxs y (by simp), ihy (fun z hz => hxs z (List.mem_cons_of_mem _ hz))]; omega
      rcases List.mem_cons.mp hq with rfl | hmem
      · omega
      · exact hxs q hmem
    · have hp' : p x = false := by simpa using hp
      have hx : f x = 1 := h1 x (by simp) hp'
      have h2' : (xs.filter p).length ≤ 1 := by
        simpa only [List.filter_cons, hp', Bool.false_eq_true, if_false] using h2
      rcases List.mem_cons.mp hq with rfl | hmem
      · exact hx
      · exact ih (fun y hy => h1 y (List.mem_cons_of_mem _ hy)) h2' (by omega) q hmem

theorem sum_map_allOne (nq : Nat) (c : Config) (hc : AllOne nq c) : ∀ (l : List Nat),
    (∀ q ∈ l, q < nq) → (l.map c).sum = l.length := by
  intro l
  induction l with
  | nil => intro _; rfl
  | cons x xs ih =>
    intro h
    simp only [List.map_cons, List.sum_cons, List.length_cons]
    rw [hc x (h x (by simp)), ih (fun q hq => h q (List.mem_cons_of_mem _ hq))]; omega

/-- **Safety of the (repaired) post-selection analysis.**  Run the instruction list with the
analyser's flags from one photon per qubit.  If at the end every qubit that carries a
post-selection rule holds one photon, then after *every* instruction every qubit held exactly
one photon — so each gate, post-selected or heralded, acted on a dual-rail encoded input and was
followed by a dual-rail encoded output, which is the hypothesis under which C13's tables apply. -/
theorem ps_analysis_safe (nq : Nat) : ∀ (gs : List Instr) (c0 : Config) (tr : List Config),
    (∀ g ∈ gs, ∀ q ∈ g.qubits, q < nq) → AllOne nq c0 →
    Run gs (psAnalyze true gs).1 c0 tr →
    (∀ q ∈ (psAnalyze true gs).2, finalOf c0 tr q = 1) →
    ∀ c ∈ tr, AllOne nq c := by
  intro gs
  induction gs with
  | nil => intro c0 tr _ _ hr _ c hc; cases hr; simp at hc
  | cons g rest ih =>
    intro c0 tr hwf h0 hr hfin c hc
    have hwf_rest : ∀ g' ∈ rest, ∀ q ∈ g'.qubits, q < nq := fun g' hg' => hwf g' (List.mem_cons_of_mem _ hg')
    have hwf_g : ∀ q ∈ g.qubits, q < nq := hwf g (by simp)
    rw [psAnalyze_flags_cons_true] at hr
    rw [psAnalyze_has_cons] at hfin
    cases hr with
    | cons _ f _ fs' _ c1 tr' hstep hrest =>
      have hfin' : ∀ q ∈ (if g.qubits.length ≥ 2 then (psAnalyze true rest).2 ++ g.qubits
          else (psAnalyze true rest).2), finalOf c1 tr' q = 1 := by
        intro q hq
        have := hfin q hq
        rwa [finalOf_cons] at this
      have hfin_rest : ∀ q ∈ (psAnalyze true rest).2, finalOf c1 tr' q = 1 := by
        intro q hq
        apply hfin' q
        split_ifs
        · simp [hq]
        · exact hq
      -- the configuration after g is again all ones
      have h1 : AllOne nq c1 := by
        unfold stepRel at hstep
        by_cases hone : g.qubits.length = 1
        · rw [if_pos hone] at hstep; rw [hstep]; exact h0
        rw [if_neg hone] at hstep
        by_cases hsw : g.name = "swap"
        · rw [if_pos hsw] at hstep
          obtain ⟨a, b, hab, ha, hb, hothers⟩ := hstep
          intro q hq
          by_cases hqa : q = a
          · subst hqa; rw [ha]; exact h0 b (hwf_g b (by rw [hab]; simp))
          · by_cases hqb : q = b
            · subst hqb; rw [hb]; exact h0 a (hwf_g a (by rw [hab]; simp))
            · rw [hothers q hqa hqb]; exact h0 q hq
        · rw [if_neg hsw] at hstep
          obtain ⟨⟨hout, hsum⟩, hher⟩ := hstep
          have hones : ∀ q ∈ g.qubits, c1 q = 1 := by
            by_cases hlen : g.qubits.length ≥ 2
            · rw [if_pos hlen] at hfin'
              simp only [hlen, if_true] at hher
              by_cases hcnt : (g.qubits.filter fun q => (psAnalyze true rest).2.contains q).length ≤ 1
              · -- post-selected (or heralded, the argument covers both)
                apply all_one_of_sum (fun q => (psAnalyze true rest).2.contains q) c1 g.qubits _ hcnt
                · rw [← hsum]; exact sum_map_allOne nq c0 h0 g.qubits hwf_g
                · intro q hq hnot
                  have hq_not : q ∉ (psAnalyze true rest).2 := by simpa using hnot
                  have hfinq : finalOf c1 tr' q = 1 := hfin' q (by simp [hq])
                  cases tr' with
                  | nil => simpa [finalOf] using hfinq
                  | cons x xs =>
                    have hmem : finalOf c1 (x :: xs) ∈ (x :: xs) := by
                      simp only [finalOf, List.getLastD_cons]
                      exact List.getLastD_mem_cons
                    rw [← run_untouched true rest _ c1 (x :: xs) hrest q hq_not _ hmem]; exact hfinq
              · -- flag is false: heralded
                have hf : decide ((g.qubits.filter fun q => (psAnalyze true rest).2.contains q).length ≤ 1) = false := by
                  simpa using hcnt
                exact hher hf (fun q hq => h0 q (hwf_g q hq))
            · simp only [hlen, if_false] at hher
              exact hher trivial (fun q hq => h0 q (hwf_g q hq))
          intro q hq
          by_cases hmem : q ∈ g.qubits
          · exact hones q hmem
          · rw [hout q hmem]; exact h0 q hq
      rcases List.mem_cons.mp hc with rfl | hmem
      · exact h1
      · exact ih c1 tr' hwf_rest h1 hrest hfin_rest c hmem

/-! ### F2: the rule of the pinned code is not safe -/

/-- F2 on the pinned rule: `ccx(0,1,2); cx(0,1)` is converted (both gates post-selected) -/
theorem F2_pinned_converts :
    (psAnalyze false [⟨"ccx", [0, 1, 2]⟩, ⟨"cx", [0, 1]⟩]).1 = [true, true] := by decide

/-- … and with those flags there is a run from one photon per qubit to one photon per qubit that
passes through the configuration (2, 0, 1): the final rules do not enforce a dual-rail encoded
state between the two gates. -/
theorem F2_pinned_unsafe :
    ∃ (c0 c1 c2 : Config), AllOne 3 c0 ∧ AllOne 3 c2 ∧ ¬ AllOne 3 c1 ∧
      Run [⟨"ccx", [0, 1, 2]⟩, ⟨"cx", [0, 1]⟩]
        (psAnalyze false [⟨"ccx", [0, 1, 2]⟩, ⟨"cx", [0, 1]⟩]).1 c0 [c1, c2] := by
  refine ⟨fun _ => 1, fun q => if q = 0 then 2 else if q = 1 then 0 else 1, fun _ => 1,
    fun _ _ => rfl, fun _ _ => rfl, ?_, ?_⟩
  · intro h; have := h 0 (by omega); simp at this
  · rw [F2_pinned_converts]
    refine Run.cons _ _ _ _ _ _ _ ?_ (Run.cons _ _ _ _ _ _ _ ?_ (Run.nil _))
    · unfold stepRel redistributes
      simp only [List.length_cons, List.length_nil]
      refine ⟨⟨?_, by decide⟩, by simp⟩
      intro q hq
      simp only [List.mem_cons, List.not_mem_nil, or_false, not_or] at hq
      simp [hq.1, hq.2.1]
    · unfold stepRel redistributes
      simp only [List.length_cons, List.length_nil]
      refine ⟨⟨?_, by decide⟩, by simp⟩
      intro q hq
      simp only [List.mem_cons, List.not_mem_nil, or_false, not_or] at hq
      simp [hq.1, hq.2]

/-- the repaired rule refuses it (the three-qubit gate cannot be post-selected) -/
theorem F2_fixed_refuses :
    (convert true true 3 [⟨"ccx", [0, 1, 2]⟩, ⟨"cx", [0, 1]⟩]).toOption.isNone = true := by decide

/-! ### refusal paths -/

theorem placeInstr_ok (idx : Nat) (g : Instr) (ps : Bool) (pl : List Placed)
    (h : placeInstr idx g ps = .ok pl) :
    allowed.contains g.name = true ∧ 1 ≤ g.qubits.length ∧ g.qubits.length ≤ 3 ∧
      (g.qubits.length = 3 → ps = true ∧ (g.name = "ccx" ∨ g.name = "ccz") ∧
        ∃ q0 q1 q2, g.qubits = [q0, q1, q2] ∧ max q0 (max q1 q2) - min q0 (min q1 q2) = 2) := by
  unfold placeInstr at h
  by_cases ha : allowed.contains g.name = true
  · simp only [ha, not_true_eq_false, if_false] at h
    refine ⟨ha, ?_⟩
    match hq : g.qubits with
    | [] => rw [hq] at h; simp at h
    | [q] => simp
    | [q0, q1] => simp
    | [q0, q1, q2] =>
      rw [hq] at h
      simp only [placeThree] at h
      refine ⟨by simp, by simp, fun _ => ?_⟩
      by_cases hn : g.name = "ccx" ∨ g.name = "ccz"
      · simp only [hn, if_true] at h
        cases ps with
        | false => simp at h
        | true =>
          simp only [Bool.not_true, Bool.false_eq_true, if_false] at h
          by_cases hs : max q0 (max q1 q2) - min q0 (min q1 q2) = 2
          · exact ⟨rfl, hn, q0, q1, q2, rfl, hs⟩
          · simp [hs] at h
      · simp [hn] at h
    | _ :: _ :: _ :: _ :: _ => rw [hq] at h; simp at h
  · have ha' : g.name ∉ allowed := by simpa using ha
    simp [ha'] at h

theorem placeAll_ok_each : ∀ (gs : List Instr) (idx : Nat) (flags : List Bool) (plan : List Placed),
    placeAll idx gs flags = .ok plan →
    ∀ k g, gs[k]? = some g → ∃ pl, placeInstr (idx + k) g (flags.getD k false) = .ok pl := by
  intro gs
  induction gs with
  | nil => intro idx flags plan _ k g hk; simp at hk
  | cons g0 rest ih =>
    intro idx flags plan h k g hk
    simp only [placeAll, bind, Except.bind] at h
    cases h1 : placeInstr idx g0 (flags.headD false) with
    | error e => rw [h1] at h; simp at h
    | ok here =>
      rw [h1] at h
      cases h2 : placeAll (idx + 1) rest flags.tail with
      | error e => rw [h2] at h; simp at h
      | ok later =>
        cases k with
        | zero =>
          simp only [List.getElem?_cons_zero, Option.some.injEq] at hk
          subst hk
          refine ⟨here, ?_⟩
          have : flags.getD 0 false = flags.headD false := by cases flags <;> rfl
          rw [Nat.add_zero, this]; exact h1
        | succ k =>
          simp only [List.getElem?_cons_succ] at hk
          obtain ⟨pl, hpl⟩ := ih (idx + 1) flags.tail later h2 k g hk
          refine ⟨pl, ?_⟩
          have e1 : flags.getD (k + 1) false = flags.tail.getD k false := by cases flags <;> simp
          have e2 : idx + (k + 1) = idx + 1 + k := by omega
          rw [e1, e2]; exact hpl

theorem convert_ok_flags_plan (aps fixed : Bool) (nq : Nat) (gs : List Instr) (o : ConvOut)
    (h : convert aps fixed nq gs = .ok o) :
    o.flags = (if aps then (psAnalyze fixed gs).1 else gs.map fun _ => false) ∧
      placeAll 0 gs o.flags = .ok o.plan := by
  unfold convert at h
  simp only [bind, Except.bind] at h
  cases h1 : placeAll 0 gs (if aps = true then (psAnalyze fixed gs).1 else gs.map fun _ => false) with
  | error e => rw [h1] at h; simp at h
  | ok plan =>
    rw [h1] at h
    simp only at h
    split at h
    · simp at h
    · simp only [pure, Except.pure, Except.ok.injEq] at h
      subst h
      exact ⟨rfl, h1⟩

/-- **The converter returns a circuit only if every instruction is placeable**: each gate is a
supported one on 1–3 qubits, and every three-qubit gate is `ccx`/`ccz` on three adjacent qubits,
post-selection is allowed, and the analyser has flagged that gate as post-selectable.  In every
other case the model of `convert` returns an error (`ValueError` in the code). -/
theorem convert_ok_only_if (aps fixed : Bool) (nq : Nat) (gs : List Instr) (o : ConvOut)
    (h : convert aps fixed nq gs = .ok o) :
    ∀ k g, gs[k]? = some g →
      allowed.contains g.name = true ∧ 1 ≤ g.qubits.length ∧ g.qubits.length ≤ 3 ∧
      (g.qubits.length = 3 →
        aps = true ∧ (psAnalyze fixed gs).1.getD k false = true ∧ (g.name = "ccx" ∨ g.name = "ccz") ∧
        ∃ q0 q1 q2, g.qubits = [q0, q1, q2] ∧ max q0 (max q1 q2) - min q0 (min q1 q2) = 2) := by
  intro k g hk
  obtain ⟨hfl, hpl⟩ := convert_ok_flags_plan aps fixed nq gs o h
  obtain ⟨pl, hp⟩ := placeAll_ok_each gs 0 o.flags o.plan hpl k g hk
  obtain ⟨a, b, c, d⟩ := placeInstr_ok _ g _ pl hp
  refine ⟨a, b, c, fun h3 => ?_⟩
  obtain ⟨d1, d2, d3⟩ := d h3
  rw [hfl] at d1
  cases aps with
  | false =>
    exfalso
    simp only [Bool.false_eq_true, if_false] at d1
    have hlt : k < gs.length := by
      by_contra hc
      rw [List.getElem?_eq_none (by omega)] at hk; simp at hk
    simp [List.getD_eq_getElem?_getD, hlt] at d1
  | true => exact ⟨rfl, by simpa using d1, d2, d3⟩

/-- heralded-only mode refuses every circuit that contains a three-qubit gate -/
theorem heralded_only_refuses_three (fixed : Bool) (nq : Nat) (gs : List Instr) (g : Instr)
    (hg : g ∈ gs) (h3 : g.qubits.length = 3) : ∃ e, convert false fixed nq gs = .error e := by
  cases h : convert false fixed nq gs with
  | error e => exact ⟨e, rfl⟩
  | ok o =>
    exfalso
    obtain ⟨k, hk⟩ := List.getElem?_of_mem hg
    have := (convert_ok_only_if false fixed nq gs o h k g hk).2.2.2 h3
    simp at this

/-- `ps_analysis_safe` for the flags stored in a converted circuit (post-selection mode) -/
theorem convert_correct_partial (aps : Bool) (nq : Nat) (gs : List Instr) (o : ConvOut)
    (hc : convert aps true nq gs = .ok o) (haps : aps = true)
    (hwf : ∀ g ∈ gs, ∀ q ∈ g.qubits, q < nq) (c0 : Config) (tr : List Config) (h0 : AllOne nq c0)
    (hrun : Run gs o.flags c0 tr) (hfin : ∀ q ∈ (psAnalyze true gs).2, finalOf c0 tr q = 1) :
    ∀ c ∈ tr, AllOne nq c := by
  have hf := (convert_ok_flags_plan aps true nq gs o hc).1
  rw [haps] at hf
  simp only [if_true] at hf
  rw [hf] at hrun
  exact ps_analysis_safe nq gs c0 tr hwf h0 hrun hfin

end LW.QC
