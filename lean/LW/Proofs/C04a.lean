/-
  C04 (part A) — proofs of the structural properties of the sampler distribution
  (LW.Model.Dist): non-negativity, key shape, distinct keys, marginalisation over the loss modes
  (permanent backend), total probability of a lossy circuit, and the mixture `pdistCalc`.
-/
import Mathlib.Algebra.Order.Field.Basic
import Mathlib.Algebra.BigOperators.Group.List.Basic
import Mathlib.Algebra.Order.Ring.Rat
import Mathlib.Algebra.Field.Rat
import LW.Model.Dist
import LW.Proofs.C04aPDist
import LW.Proofs.C04aFock

namespace LW.Proofs.C04a
open LW

-- the property lemmas keep the binder list of LW/Properties/C04.lean even where an instance is unused
set_option linter.unusedSectionVars false

variable {K Q : Type} [CommRing K] [Field Q] [LinearOrder Q] [IsStrictOrderedRing Q]

/-! ### the permanent backend's accumulation loop -/

/-- the dictionary built by the loop of `fullDistPermanent` (before the vacuum bookkeeping) -/
def permPd (nsq : K → Q) (eps : Q) (U : M K) (nReal : Nat) (input : FState) : PDist Q :=
  let inS := input ++ List.replicate (U.n - nReal) 0
  (fockBasis inS.length (photons inS)).foldl (fun pd o =>
    if photons (o.take nReal) = 0 then pd
    else
      let p := transProb nsq U inS o
      if eps < p then pd.addTo (o.take nReal) p else pd) []

omit [IsStrictOrderedRing Q] in
theorem fullDistPermanent_eq (nsq : K → Q) (eps : Q) (U : M K) (nReal : Nat) (input : FState) :
    fullDistPermanent nsq eps U nReal input =
      if photons input = 0 then [(List.replicate nReal 0, 1)]
      else if (permPd nsq eps U nReal input).total < 1 ∧ U.n - nReal > 0 then
        (permPd nsq eps U nReal input).filter (fun x => x.1 != List.replicate nReal 0) ++
          [(List.replicate nReal 0, 1 - (permPd nsq eps U nReal input).total)]
      else permPd nsq eps U nReal input := rfl

omit [IsStrictOrderedRing Q] in
theorem permStep_eq (nsq : K → Q) (eps : Q) (U : M K) (nReal : Nat) (inS : FState)
    (pd : PDist Q) (o : FState) :
    (if photons (o.take nReal) = 0 then pd
      else
        let p := transProb nsq U inS o
        if eps < p then pd.addTo (o.take nReal) p else pd) =
    if photons (o.take nReal) ≠ 0 ∧ eps < transProb nsq U inS o then
      pd.addTo (o.take nReal) (transProb nsq U inS o) else pd := by
  by_cases h1 : photons (o.take nReal) = 0
  · simp [h1]
  · by_cases h2 : eps < transProb nsq U inS o
    · simp [h1, h2]
    · simp [h1, h2]

omit [IsStrictOrderedRing Q] in
theorem permPd_nodup (nsq : K → Q) (eps : Q) (U : M K) (nReal : Nat) (input : FState) :
    ((permPd nsq eps U nReal input).map (·.1)).Nodup := by
  unfold permPd
  exact fold_keys_nodup _ _ _ _ (permStep_eq nsq eps U nReal _) _ [] (by simp)

theorem permPd_nonneg (nsq : K → Q) (eps : Q) (heps : 0 ≤ eps) (U : M K) (nReal : Nat)
    (input : FState) : ∀ x ∈ permPd nsq eps U nReal input, 0 ≤ x.2 := by
  unfold permPd
  apply fold_nonneg _ _ _ _ (permStep_eq nsq eps U nReal _) _ [] (by simp)
  intro o _ hc
  exact le_trans heps (le_of_lt hc.2)

omit [IsStrictOrderedRing Q] in
theorem permPd_keys (nsq : K → Q) (eps : Q) (U : M K) (nReal : Nat) (input : FState)
    (k : FState) (hk : k ∈ (permPd nsq eps U nReal input).map (·.1)) :
    ∃ o ∈ fockBasis (input ++ List.replicate (U.n - nReal) 0).length
        (photons (input ++ List.replicate (U.n - nReal) 0)),
      photons (o.take nReal) ≠ 0 ∧ o.take nReal = k := by
  unfold permPd at hk
  rcases fold_keys_mem _ _ _ _ (permStep_eq nsq eps U nReal _) _ [] k hk with h | ⟨o, ho, hc, hko⟩
  · simp at h
  · exact ⟨o, ho, hc.1, hko⟩

theorem permPd_vac_not_mem (nsq : K → Q) (eps : Q) (U : M K) (nReal : Nat) (input : FState) :
    List.replicate nReal 0 ∉ (permPd nsq eps U nReal input).map (·.1) := by
  intro h
  obtain ⟨o, _, h1, h2⟩ := permPd_keys nsq eps U nReal input _ h
  rw [h2, photons_replicate_zero] at h1
  exact h1 rfl

theorem permPd_filter (nsq : K → Q) (eps : Q) (U : M K) (nReal : Nat) (input : FState) :
    (permPd nsq eps U nReal input).filter (fun x => x.1 != List.replicate nReal 0) =
      permPd nsq eps U nReal input := by
  rw [List.filter_eq_self]
  intro x hx
  have := permPd_vac_not_mem nsq eps U nReal input
  simp only [bne_iff_ne, ne_eq]
  intro h
  exact this (List.mem_map.2 ⟨x, hx, h⟩)

omit [IsStrictOrderedRing Q] in
theorem permPd_getD (nsq : K → Q) (eps : Q) (U : M K) (nReal : Nat) (input : FState)
    (r : FState) (hr : photons r ≠ 0) :
    let inS := input ++ List.replicate (U.n - nReal) 0
    ((permPd nsq eps U nReal input).get? r).getD 0 =
      (((fockBasis inS.length (photons inS)).filter fun o =>
          o.take nReal = r ∧ eps < transProb nsq U inS o).map (transProb nsq U inS)).sum := by
  intro inS
  unfold permPd
  rw [fold_getD _ _ _ _ (permStep_eq nsq eps U nReal _) _ [] r, get?_nil, Option.getD_none,
    zero_add]
  congr 2
  apply List.filter_congr
  intro o _
  apply decide_eq_decide.2
  constructor
  · rintro ⟨⟨_, h2⟩, h3⟩; exact ⟨h3, h2⟩
  · rintro ⟨h3, h2⟩; exact ⟨⟨by rw [h3]; exact hr, h2⟩, h3⟩

omit [IsStrictOrderedRing Q] in
theorem permPd_total (nsq : K → Q) (eps : Q) (U : M K) (nReal : Nat) (input : FState) :
    let inS := input ++ List.replicate (U.n - nReal) 0
    (permPd nsq eps U nReal input).total =
      (((fockBasis inS.length (photons inS)).filter fun o =>
          photons (o.take nReal) ≠ 0 ∧ eps < transProb nsq U inS o).map
        (transProb nsq U inS)).sum := by
  intro inS
  unfold permPd
  have h0 : PDist.total ([] : PDist Q) = 0 := rfl
  rw [fold_total _ _ _ _ (permStep_eq nsq eps U nReal _) _ [] (by simp), h0, zero_add]

/-! ### the SLOS backend's accumulation loop -/

omit [IsStrictOrderedRing Q] in
theorem fullDistSlos_eq (nsq : K → Q) (eps : Q) (U : M K) (nReal : Nat) (input : FState) :
    fullDistSlos nsq eps U nReal input =
      if photons input = 0 then [(List.replicate nReal 0, 1)]
      else
        (slosPhi U (input ++ List.replicate (U.n - nReal) 0)).foldl (fun (pd : PDist Q) (x : FState × K) =>
          if eps < nsq x.2 * ((factProd x.1 : Nat) : Q) /
              ((factProd (input ++ List.replicate (U.n - nReal) 0) : Nat) : Q) then
            pd.addTo (x.1.take nReal) (nsq x.2 * ((factProd x.1 : Nat) : Q) /
              ((factProd (input ++ List.replicate (U.n - nReal) 0) : Nat) : Q))
          else pd) [] := rfl

/-! ### the property lemmas -/

theorem fullDist_nonneg (b : BackendKind) (nsq : K → Q) (hn : ∀ z, 0 ≤ nsq z) (eps : Q) (heps : 0 ≤ eps)
    (U : M K) (nReal : Nat) (input : FState) :
    ∀ x ∈ fullDist b nsq eps U nReal input, 0 ≤ x.2 := by
  have _ := hn
  cases b with
  | permanent =>
    show ∀ x ∈ fullDistPermanent nsq eps U nReal input, 0 ≤ x.2
    rw [fullDistPermanent_eq]
    by_cases h0 : photons input = 0
    · rw [if_pos h0]
      intro x hx
      simp only [List.mem_singleton] at hx
      rw [hx]; exact zero_le_one
    · rw [if_neg h0]
      by_cases ht : (permPd nsq eps U nReal input).total < 1 ∧ U.n - nReal > 0
      · rw [if_pos ht]
        intro x hx
        rw [List.mem_append, List.mem_singleton] at hx
        rcases hx with hx | hx
        · exact permPd_nonneg nsq eps heps U nReal input x (List.mem_filter.1 hx).1
        · rw [hx]; exact sub_nonneg.2 (le_of_lt ht.1)
      · rw [if_neg ht]
        exact permPd_nonneg nsq eps heps U nReal input
  | slos =>
    show ∀ x ∈ fullDistSlos nsq eps U nReal input, 0 ≤ x.2
    rw [fullDistSlos_eq]
    by_cases h0 : photons input = 0
    · rw [if_pos h0]
      intro x hx
      simp only [List.mem_singleton] at hx
      rw [hx]; exact zero_le_one
    · rw [if_neg h0]
      apply fold_nonneg (Q := Q) (α := FState × K) _ (fun x : FState × K => eps < nsq x.2 * ((factProd x.1 : Nat) : Q) /
              ((factProd (input ++ List.replicate (U.n - nReal) 0) : Nat) : Q))
        (fun x => x.1.take nReal) _ (fun _ _ => rfl) _ [] (by simp)
      intro o _ hc
      exact le_trans heps (le_of_lt hc)

theorem fullDist_keys (b : BackendKind) (nsq : K → Q) (eps : Q) (U : M K) (nReal : Nat)
    (input : FState) (hlen : input.length = nReal) (hU : nReal ≤ U.n) (hpos : 0 < nReal) :
    ∀ x ∈ fullDist b nsq eps U nReal input, x.1.length = nReal ∧ photons x.1 ≤ photons input := by
  have _ := hpos
  have hvac : ∀ x ∈ [((List.replicate nReal 0 : FState), (1 : Q))],
      x.1.length = nReal ∧ photons x.1 ≤ photons input := by
    intro x hx
    simp only [List.mem_singleton] at hx
    rw [hx]
    exact ⟨by simp, by simp [photons_replicate_zero]⟩
  have hinLen : (input ++ List.replicate (U.n - nReal) 0).length = U.n := by
    rw [List.length_append, List.length_replicate, hlen]; omega
  have hinPh : photons (input ++ List.replicate (U.n - nReal) 0) = photons input := by
    rw [photons_append, photons_replicate_zero, Nat.add_zero]
  cases b with
  | permanent =>
    show ∀ x ∈ fullDistPermanent nsq eps U nReal input, _
    rw [fullDistPermanent_eq]
    have hpd : ∀ x ∈ permPd nsq eps U nReal input,
        x.1.length = nReal ∧ photons x.1 ≤ photons input := by
      intro x hx
      obtain ⟨o, ho, _, hk⟩ := permPd_keys nsq eps U nReal input x.1 (List.mem_map.2 ⟨x, hx, rfl⟩)
      obtain ⟨h1, h2⟩ := fockBasis_sound _ _ o ho
      rw [hinLen] at h1
      rw [hinPh] at h2
      rw [← hk]
      refine ⟨by rw [List.length_take, h1]; omega, ?_⟩
      rw [← h2]; exact photons_take_le o nReal
    by_cases h0 : photons input = 0
    · rw [if_pos h0]; exact hvac
    · rw [if_neg h0]
      by_cases ht : (permPd nsq eps U nReal input).total < 1 ∧ U.n - nReal > 0
      · rw [if_pos ht]
        intro x hx
        rw [List.mem_append, List.mem_singleton] at hx
        rcases hx with hx | hx
        · exact hpd x (List.mem_filter.1 hx).1
        · rw [hx]
          exact ⟨by simp, by simp [photons_replicate_zero]⟩
      · rw [if_neg ht]; exact hpd
  | slos =>
    show ∀ x ∈ fullDistSlos nsq eps U nReal input, _
    rw [fullDistSlos_eq]
    by_cases h0 : photons input = 0
    · rw [if_pos h0]; exact hvac
    · rw [if_neg h0]
      intro x hx
      rcases fold_keys_mem (Q := Q) (α := FState × K) _ (fun x : FState × K => eps < nsq x.2 * ((factProd x.1 : Nat) : Q) /
              ((factProd (input ++ List.replicate (U.n - nReal) 0) : Nat) : Q))
        (fun x => x.1.take nReal) _ (fun _ _ => rfl) _ [] x.1 (List.mem_map.2 ⟨x, hx, rfl⟩)
        with h | ⟨o, ho, _, hk⟩
      · simp at h
      · obtain ⟨h1, h2⟩ := slosPhi_keys U _ o.1 (List.mem_map.2 ⟨o, ho, rfl⟩)
        rw [hinPh] at h2
        rw [← hk]
        refine ⟨by rw [List.length_take, h1]; omega, ?_⟩
        rw [← h2]; exact photons_take_le o.1 nReal

theorem fullDist_keys_nodup (b : BackendKind) (nsq : K → Q) (eps : Q) (U : M K) (nReal : Nat)
    (input : FState) : ((fullDist b nsq eps U nReal input).map (·.1)).Nodup := by
  cases b with
  | permanent =>
    show ((fullDistPermanent nsq eps U nReal input).map (·.1)).Nodup
    rw [fullDistPermanent_eq]
    by_cases h0 : photons input = 0
    · rw [if_pos h0]; simp
    · rw [if_neg h0]
      by_cases ht : (permPd nsq eps U nReal input).total < 1 ∧ U.n - nReal > 0
      · rw [if_pos ht, permPd_filter, List.map_append, List.nodup_append]
        refine ⟨permPd_nodup nsq eps U nReal input, by simp, ?_⟩
        intro a ha b hb
        simp only [List.map_cons, List.map_nil, List.mem_singleton] at hb
        subst hb
        intro hab
        exact permPd_vac_not_mem nsq eps U nReal input (hab ▸ ha)
      · rw [if_neg ht]; exact permPd_nodup nsq eps U nReal input
  | slos =>
    show ((fullDistSlos nsq eps U nReal input).map (·.1)).Nodup
    rw [fullDistSlos_eq]
    by_cases h0 : photons input = 0
    · rw [if_pos h0]; simp
    · rw [if_neg h0]
      exact fold_keys_nodup (Q := Q) (α := FState × K) _ (fun x : FState × K => eps < nsq x.2 * ((factProd x.1 : Nat) : Q) /
              ((factProd (input ++ List.replicate (U.n - nReal) 0) : Nat) : Q))
        (fun x => x.1.take nReal) _ (fun _ _ => rfl) _ [] (by simp)

omit [LinearOrder Q] [IsStrictOrderedRing Q] in
theorem getD_append_vac (d : PDist Q) (vac : FState) (p : Q) (r : FState) (hr : vac ≠ r)
    (hv : vac ∉ d.map (·.1)) :
    ((PDist.get? (d ++ [(vac, p)]) r).getD 0) = (PDist.get? d r).getD 0 := by
  rw [getD_append_single d vac p r hv, if_neg hr, add_zero]

theorem fullDistPermanent_marginal (nsq : K → Q) (eps : Q) (U : M K) (nReal : Nat) (input : FState)
    (hin : photons input ≠ 0) (r : FState) (hr : photons r ≠ 0) :
    let inS := input ++ List.replicate (U.n - nReal) 0
    ((fullDistPermanent nsq eps U nReal input).get? r).getD 0 =
      (((fockBasis inS.length (photons inS)).filter fun o =>
          o.take nReal = r ∧ eps < transProb nsq U inS o).map (transProb nsq U inS)).sum := by
  intro inS
  rw [fullDistPermanent_eq, if_neg hin]
  have hvr : List.replicate nReal 0 ≠ r := by
    intro h
    rw [← h, photons_replicate_zero] at hr
    exact hr rfl
  by_cases ht : (permPd nsq eps U nReal input).total < 1 ∧ U.n - nReal > 0
  · rw [if_pos ht, permPd_filter,
      getD_append_vac _ _ _ r hvr (permPd_vac_not_mem nsq eps U nReal input)]
    exact permPd_getD nsq eps U nReal input r hr
  · rw [if_neg ht]
    exact permPd_getD nsq eps U nReal input r hr

theorem fullDistPermanent_total_lossy (nsq : K → Q) (hn : ∀ z, 0 ≤ nsq z) (eps : Q) (U : M K)
    (nReal : Nat) (input : FState) (hloss : nReal < U.n)
    (hlt : (((fockBasis (input.length + (U.n - nReal)) (photons input)).filter fun o =>
            photons (o.take nReal) ≠ 0 ∧
            eps < transProb nsq U (input ++ List.replicate (U.n - nReal) 0) o).map
          (transProb nsq U (input ++ List.replicate (U.n - nReal) 0))).sum < 1) :
    (fullDistPermanent nsq eps U nReal input).total = 1 := by
  have _ := hn
  rw [fullDistPermanent_eq]
  by_cases h0 : photons input = 0
  · rw [if_pos h0, total_eq_sum]; simp
  · rw [if_neg h0]
    have htot := permPd_total nsq eps U nReal input
    simp only [List.length_append, List.length_replicate, photons_append, photons_replicate_zero,
      Nat.add_zero] at htot
    have ht : (permPd nsq eps U nReal input).total < 1 ∧ U.n - nReal > 0 := by
      refine ⟨?_, by omega⟩
      rw [htot]; exact hlt
    rw [if_pos ht, permPd_filter, total_eq_sum, List.map_append, List.sum_append,
      ← total_eq_sum]
    simp

/-- the mixture dictionary of `pdistCalc` before the vacuum bookkeeping -/
def calcPd (b : BackendKind) (nsq : K → Q) (eps : Q) (U : M K) (nReal : Nat)
    (inputs : List (FState × Q)) : PDist Q :=
  inputs.foldl (fun (pd : PDist Q) (sw : FState × Q) =>
    (fullDist b nsq eps U nReal sw.1).foldl (fun (pd : PDist Q) (tp : FState × Q) =>
      pd.addTo tp.1 (tp.2 * sw.2)) pd) []

omit [IsStrictOrderedRing Q] in
theorem pdistCalc_eq (b : BackendKind) (nsq : K → Q) (eps : Q) (U : M K) (nReal : Nat)
    (inputs : List (FState × Q)) :
    pdistCalc b nsq eps U nReal inputs =
      if (calcPd b nsq eps U nReal inputs).total < 1 ∧ U.n - nReal > 0 then
        (calcPd b nsq eps U nReal inputs).addTo (List.replicate nReal 0)
          (1 - (calcPd b nsq eps U nReal inputs).total)
      else calcPd b nsq eps U nReal inputs := rfl

theorem pdistCalc_nonneg (b : BackendKind) (nsq : K → Q) (hn : ∀ z, 0 ≤ nsq z) (eps : Q) (heps : 0 ≤ eps)
    (U : M K) (nReal : Nat) (inputs : List (FState × Q)) (hw : ∀ x ∈ inputs, 0 ≤ x.2) :
    ∀ x ∈ pdistCalc b nsq eps U nReal inputs, 0 ≤ x.2 := by
  have hpd : ∀ x ∈ calcPd b nsq eps U nReal inputs, 0 ≤ x.2 := by
    unfold calcPd
    apply foldl_inv (fun pd : PDist Q => ∀ x ∈ pd, 0 ≤ x.2)
    · simp
    · intro acc sw hsw hacc
      apply fold_nonneg (Q := Q) (α := FState × Q) _ (fun _ => True) (fun tp : FState × Q => tp.1)
        (fun tp : FState × Q => tp.2 * sw.2) (fun _ _ => (if_pos trivial).symm) _ acc hacc
      intro tp htp _
      exact mul_nonneg (fullDist_nonneg b nsq hn eps heps U nReal sw.1 tp htp) (hw sw hsw)
  rw [pdistCalc_eq]
  by_cases ht : (calcPd b nsq eps U nReal inputs).total < 1 ∧ U.n - nReal > 0
  · rw [if_pos ht]
    exact addTo_nonneg _ _ _ hpd (sub_nonneg.2 (le_of_lt ht.1))
  · rw [if_neg ht]; exact hpd

/-! ### non-vacuity: the hypotheses hold on a concrete lossy instance
`K = ℤ`, `Q = ℚ`, the (unnormalised) 2×2 Hadamard with `|z|² := z²/2`; one circuit mode, one loss
mode, one photon: the distribution is `{[1] ↦ 1/2, [0] ↦ 1/2}` for both backends. -/

section NonVacuity

private def Uex : M Int := ⟨2, #[#[1, 1], #[1, -1]]⟩
private def nsqex : Int → Rat := fun z => ((z * z : Int) : Rat) / 2

private theorem nsqex_nonneg : ∀ z, 0 ≤ nsqex z := by
  intro z
  exact div_nonneg (by exact_mod_cast mul_self_nonneg z) (by norm_num)

example : ∀ x ∈ fullDist .slos nsqex 0 Uex 1 [1], 0 ≤ x.2 :=
  fullDist_nonneg .slos nsqex nsqex_nonneg 0 le_rfl Uex 1 [1]

example : ∀ x ∈ fullDist .permanent nsqex 0 Uex 1 [1],
    x.1.length = 1 ∧ photons x.1 ≤ photons [1] :=
  fullDist_keys .permanent nsqex 0 Uex 1 [1] rfl (by decide) (by decide)

example : ((fullDistPermanent nsqex 0 Uex 1 [1]).get? [1]).getD 0 = 1 / 2 := by
  rw [fullDistPermanent_marginal nsqex 0 Uex 1 [1] (by decide) [1] (by decide)]
  decide +kernel

example : (fullDistPermanent nsqex 0 Uex 1 [1]).total = 1 :=
  fullDistPermanent_total_lossy nsqex nsqex_nonneg 0 Uex 1 [1] (by decide) (by decide +kernel)

example : ∀ x ∈ pdistCalc .slos nsqex 0 Uex 1 [([1], 1 / 2), ([0], 1 / 2)], 0 ≤ x.2 :=
  pdistCalc_nonneg .slos nsqex nsqex_nonneg 0 le_rfl Uex 1 _ (by
    intro x hx
    simp only [List.mem_cons, List.not_mem_nil, or_false] at hx
    rcases hx with rfl | rfl <;> norm_num)

end NonVacuity

end LW.Proofs.C04a
