/-
  LW.Proofs.C06Full — `Source._full_distribution` is the mixture over independent per-photon
  emission outcomes: for every observable `F` of annotated states,
      mix (fullDistribution P s) F = mix (specFull P s).1 F
  where `specFull` walks over ALL modes (no grouping of empty modes) and pairs every state reached
  so far with every outcome tuple of the next mode (fresh labels from the running counter).
-/
import LW.Proofs.C06Stats
import LW.Proofs.C06Group

set_option linter.unusedSectionVars false

namespace LW.Proofs.C06

open LW.Src LW.SV

section
variable {Q : Type} [Field Q] [LinearOrder Q] [IsStrictOrderedRing Q]

/-- a one-mode annotated state from an (unsorted) label list -/
def emb (l : List Int) : AState := AState.new [sortInt l]

/-- one more mode holding `n` photons -/
def specStep (P : Params Q) (acc : List (AState × Q)) (ctr : Int) (n : Nat) : List (AState × Q) :=
  acc.flatMap fun x => (specMode P ctr n).map fun y => (x.1.add (emb y.1), x.2 * y.2)

def specFold (P : Params Q) (modes : List Nat) (init : List (AState × Q) × Int) :
    List (AState × Q) × Int :=
  modes.foldl (fun acc n => (specStep P acc.1 acc.2 n, acc.2 + 2 * (n : Int))) init

/-- SPECIFICATION of the input statistics: all emission outcomes of all photons, mode by mode -/
def specFull (P : Params Q) (modes : List Nat) : List (AState × Q) × Int :=
  specFold P modes ([(AState.new [], 1)], 1)

theorem mix_specStep (P : Params Q) (acc : List (AState × Q)) (ctr : Int) (n : Nat) (F : AState → Q) :
    mix (specStep P acc ctr n) F =
      mix acc (fun a => mix (specMode P ctr n) fun l => F (a.add (emb l))) :=
  mix_product acc (specMode P ctr n) (fun a l => a.add (emb l)) F

theorem specFold_append (P : Params Q) (l₁ l₂ : List Nat) (init : List (AState × Q) × Int) :
    specFold P (l₁ ++ l₂) init = specFold P l₂ (specFold P l₁ init) := by
  simp [specFold, List.foldl_append]

theorem specFold_mix_congr (P : Params Q) (modes : List Nat) (A B : List (AState × Q) × Int)
    (hc : A.2 = B.2) (hm : ∀ F, mix A.1 F = mix B.1 F) :
    (specFold P modes A).2 = (specFold P modes B).2 ∧
      ∀ F, mix (specFold P modes A).1 F = mix (specFold P modes B).1 F := by
  induction modes generalizing A B with
  | nil => exact ⟨hc, hm⟩
  | cons n modes ih =>
    simp only [specFold, List.foldl_cons]
    apply ih
    · simp [hc]
    · intro F
      simp only [mix_specStep, hc]
      exact hm _

theorem specFold_one (P : Params Q) (modes : List Nat) (A : List (AState × Q) × Int) :
    mix (specFold P modes A).1 (fun _ => 1) = mix A.1 (fun _ => 1) := by
  induction modes generalizing A with
  | nil => rfl
  | cons n modes ih =>
    simp only [specFold, List.foldl_cons]
    have := ih (specStep P A.1 A.2 n, A.2 + 2 * (n : Int))
    simp only [specFold] at this
    rw [this, mix_specStep]
    simp only [mix_specMode_one]

theorem specFull_one (P : Params Q) (modes : List Nat) :
    mix (specFull P modes).1 (fun _ => 1) = 1 := by
  unfold specFull
  rw [specFold_one]
  simp

theorem specFull_ctr (P : Params Q) (modes : List Nat) (A : List (AState × Q) × Int) :
    (specFold P modes A).2 = A.2 + 2 * ((modes.sum : Nat) : Int) := by
  induction modes generalizing A with
  | nil => simp [specFold]
  | cons n modes ih =>
    simp only [specFold, List.foldl_cons, List.sum_cons]
    have := ih (specStep P A.1 A.2 n, A.2 + 2 * (n : Int))
    simp only [specFold] at this
    rw [this]
    push_cast
    ring

/-! ### appending empty modes -/

/-- `a` followed by `n` empty modes, one at a time -/
def addEmpties (n : Nat) (a : AState) : AState := (fun b : AState => b.add (emb []))^[n] a

theorem emb_nil : emb [] = AState.new [[]] := rfl

theorem addEmpties_eq (n : Nat) (a : AState) (ha : a.WF) :
    addEmpties n a = a.add (AState.new (List.replicate n [])) := by
  induction n with
  | zero =>
    simp only [addEmpties, Function.iterate_zero, id, List.replicate_zero]
    have h := AState.add_of_wf a (AState.new []) ha (AState.new_wf _)
    have h2 : (AState.new []).s = [] := rfl
    rw [h2, List.append_nil] at h
    cases a; cases hb : (AState.add _ (AState.new [])); simp_all
  | succ n ih =>
    have : addEmpties (n + 1) a = (addEmpties n a).add (emb []) := by
      simp only [addEmpties, Function.iterate_succ_apply']
    rw [this, ih, emb_nil, AState.add_assoc _ _ _ ha (AState.new_wf _) (AState.new_wf _),
      AState.add_new, List.replicate_succ']

theorem specFold_zeros (P : Params Q) (n : Nat) (A : List (AState × Q) × Int) :
    (specFold P (List.replicate n 0) A).2 = A.2 ∧
      ∀ F, mix (specFold P (List.replicate n 0) A).1 F = mix A.1 (fun a => F (addEmpties n a)) := by
  induction n generalizing A with
  | zero => exact ⟨rfl, fun F => rfl⟩
  | succ n ih =>
    rw [List.replicate_succ]
    simp only [specFold, List.foldl_cons]
    have := ih (specStep P A.1 A.2 0, A.2 + 2 * ((0 : Nat) : Int))
    simp only [specFold] at this
    refine ⟨by rw [this.1]; simp, ?_⟩
    intro F
    rw [this.2, mix_specStep]
    apply mix_congr
    intro x _
    simp only [specMode, mix_cons, mix_nil, one_mul, add_zero]
    simp only [addEmpties, Function.iterate_succ_apply]

/-! ### the loop of `_full_distribution` -/

/-- the loop body of `_full_distribution` -/
def fdStep (P : Params Q) (s : FState) (ge : List (Nat × List Nat) × List Nat)
    (acc : KD AState Q × Int) (i : Nat) : KD AState Q × Int :=
  if ge.2.contains i then acc
  else match ge.1.find? (·.1 == i) with
    | some g =>
      let e := AState.new (List.replicate g.2.length [])
      (if acc.1.isEmpty then [(e, 1)] else acc.1.map fun x => (x.1.add e, x.2), acc.2)
    | none =>
      let sm := singleMode P (s.getD i 0) acc.2
      (if acc.1.isEmpty then sm.1
       else acc.1.foldl (fun nd x =>
          sm.1.foldl (fun nd y => KD.setTo nd (x.1.add y.1) (x.2 * y.2)) nd) [],
       sm.2)

theorem fullDistribution_eq (P : Params Q) (s : FState) :
    fullDistribution P s =
      ((List.range s.length).foldl (fdStep P s (groupEmptyModes s)) ([], 1)).1 := rfl

/-- state of the loop once the first `c` modes are accounted for -/
structure FdInv (P : Params Q) (s : FState) (c : Nat) (acc : KD AState Q × Int) : Prop where
  ctr : acc.2 = (specFull P (s.take c)).2
  start : c = 0 → acc.1 = []
  mixEq : 0 < c → ∀ F, mix acc.1 F = mix (specFull P (s.take c)).1 F
  nodup : (acc.1.map (·.1)).Nodup
  keys : ∀ a ∈ acc.1.map (·.1), a.WF ∧ a.nModes = c

theorem FdInv.nonempty {P : Params Q} {s : FState} {c : Nat} {acc : KD AState Q × Int}
    (h : FdInv P s c acc) (hc : 0 < c) : acc.1 ≠ [] := by
  intro he
  have := h.mixEq hc (fun _ => 1)
  rw [he, mix_nil, specFull_one] at this
  exact zero_ne_one this

theorem FdInv.isEmpty_iff {P : Params Q} {s : FState} {c : Nat} {acc : KD AState Q × Int}
    (h : FdInv P s c acc) : acc.1.isEmpty = true ↔ c = 0 := by
  constructor
  · intro he
    by_contra hc
    exact h.nonempty (Nat.pos_of_ne_zero hc) (List.isEmpty_iff.1 he)
  · intro hc
    rw [h.start hc]; rfl

theorem astate_ext {a b : AState} (h : a.s = b.s) : a = b := by
  cases a; cases b; simp_all

/-- assigning pairwise distinct fresh keys appends them -/
theorem foldl_setTo_fresh (l : List (AState × Q)) (init : KD AState Q)
    (h : ((init ++ l).map (·.1)).Nodup) :
    l.foldl (fun nd y => KD.setTo nd y.1 y.2) init = init ++ l := by
  induction l generalizing init with
  | nil => simp
  | cons y l ih =>
    rw [List.foldl_cons]
    have hy : y.1 ∉ init.map (·.1) := by
      rw [List.map_append, List.map_cons] at h
      have := (List.nodup_append.1 h).2.2
      intro hmem
      exact this _ hmem _ (List.mem_cons_self) rfl
    rw [setTo_of_not_mem init y.1 y.2 hy]
    have : (init ++ [(y.1, y.2)]) ++ l = init ++ y :: l := by simp
    rw [ih _ (by rw [this]; exact h), this]

/-- concatenation is injective on well-formed states of equal size -/
theorem add_inj {a a' b b' : AState} (ha : a.WF) (ha' : a'.WF) (hb : b.WF) (hb' : b'.WF)
    (hn : a.nModes = a'.nModes) (h : a.add b = a'.add b') : a = a' ∧ b = b' := by
  have h1 := congrArg AState.s h
  rw [AState.add_of_wf a b ha hb, AState.add_of_wf a' b' ha' hb'] at h1
  have := List.append_inj h1 hn
  exact ⟨astate_ext this.1, astate_ext this.2⟩

/-- the double loop `new_dist[s1 + s2] = p1 * p2` builds the full product list -/
theorem product_fold_eq (A B : KD AState Q) (c : Nat)
    (hA : (A.map (·.1)).Nodup) (hAk : ∀ a ∈ A.map (·.1), a.WF ∧ a.nModes = c)
    (hB : (B.map (·.1)).Nodup) (hBk : ∀ a ∈ B.map (·.1), a.WF ∧ a.nModes = 1) :
    let prod := A.flatMap fun x => B.map fun y => (x.1.add y.1, x.2 * y.2)
    A.foldl (fun nd x => B.foldl (fun nd y => KD.setTo nd (x.1.add y.1) (x.2 * y.2)) nd) [] = prod ∧
      (prod.map (·.1)).Nodup ∧ ∀ a ∈ prod.map (·.1), a.WF ∧ a.nModes = c + 1 := by
  intro prod
  have hkeys : prod.map (·.1) = (A.map (·.1)).flatMap fun a => (B.map (·.1)).map fun b => a.add b := by
    simp only [prod, List.map_flatMap, List.flatMap_map, List.map_map, Function.comp_def]
  have hnd : (prod.map (·.1)).Nodup := by
    rw [hkeys]
    rw [List.nodup_flatMap]
    refine ⟨?_, ?_⟩
    · intro a ha
      refine (List.nodup_map_iff_inj_on hB).2 ?_
      intro b hb b' hb' hbb
      exact (add_inj (hAk a ha).1 (hAk a ha).1 (hBk b hb).1 (hBk b' hb').1 rfl hbb).2
    · refine List.Pairwise.imp_of_mem ?_ hA
      intro a a' ha ha' hne
      simp only [Function.onFun, List.disjoint_left, List.mem_map]
      rintro k ⟨b, hb, rfl⟩ ⟨b', hb', hbb⟩
      have := add_inj (hAk a' ha').1 (hAk a ha).1 (hBk b' (List.mem_map.2 hb')).1
        (hBk b (List.mem_map.2 hb)).1 ((hAk a' ha').2.trans (hAk a ha).2.symm) hbb
      exact hne this.1.symm
  refine ⟨?_, hnd, ?_⟩
  · have h1 : A.foldl (fun nd x => B.foldl (fun nd y => KD.setTo nd (x.1.add y.1) (x.2 * y.2)) nd) [] =
        prod.foldl (fun nd y => KD.setTo nd y.1 y.2) [] := by
      simp only [prod, List.foldl_flatMap, List.foldl_map]
    rw [h1, foldl_setTo_fresh prod [] (by simpa using hnd)]
    simp
  · intro k hk
    rw [hkeys] at hk
    simp only [List.mem_flatMap, List.mem_map] at hk
    obtain ⟨a, ha, b, hb, rfl⟩ := hk
    refine ⟨AState.add_wf _ _, ?_⟩
    rw [AState.nModes_add]
    have h1 := hAk a (List.mem_map.2 ha)
    have h2 := hBk b (List.mem_map.2 hb)
    omega

theorem take_succ_getD (s : FState) (c : Nat) (hc : c < s.length) :
    s.take (c + 1) = s.take c ++ [s.getD c 0] := by
  rw [List.take_succ_eq_append_getElem hc]
  simp [List.getD_eq_getElem?_getD, hc]

theorem specFull_snoc (P : Params Q) (l : List Nat) (n : Nat) :
    specFull P (l ++ [n]) =
      (specStep P (specFull P l).1 (specFull P l).2 n, (specFull P l).2 + 2 * (n : Int)) := by
  simp [specFull, specFold, List.foldl_append]

theorem new_nil_add_emb (l : List Int) : (AState.new []).add (emb l) = emb l := by
  unfold emb
  rw [AState.add_new]
  rfl

/-- a mode that is neither skipped nor the start of a group -/
theorem fdStep_mode (P : Params Q) (h : InRange P) (s : FState)
    (ge : List (Nat × List Nat) × List Nat) (c : Nat) (hc : c < s.length) (acc : KD AState Q × Int)
    (hinv : FdInv P s c acc) (hskip : ¬ ge.2.contains c = true)
    (hfind : ge.1.find? (·.1 == c) = none) : FdInv P s (c + 1) (fdStep P s ge acc c) := by
  unfold fdStep
  rw [if_neg hskip, hfind]
  simp only
  set n := s.getD c 0 with hn
  have hspec : specFull P (s.take (c + 1)) =
      (specStep P (specFull P (s.take c)).1 (specFull P (s.take c)).2 n,
        (specFull P (s.take c)).2 + 2 * (n : Int)) := by
    rw [take_succ_getD s c hc, specFull_snoc]
  by_cases he : acc.1.isEmpty = true
  · have hc0 : c = 0 := hinv.isEmpty_iff.1 he
    have hacc2 : acc.2 = 1 := by rw [hinv.ctr, hc0]; rfl
    rw [if_pos he]
    refine ⟨?_, by omega, ?_, singleMode_keys_nodup P n acc.2, ?_⟩
    · rw [hspec, singleMode_ctr, hinv.ctr]
    · intro _ F
      rw [hspec, mix_singleMode P h, mix_specStep]
      subst hc0
      simp only [List.take_zero, hacc2]
      show _ = mix [(AState.new [], (1 : Q))] _
      simp only [mix_cons, mix_nil, one_mul, add_zero]
      have : (specFull P ([] : List Nat)).2 = 1 := rfl
      rw [this]
      apply mix_congr
      intro x _
      rw [new_nil_add_emb]
      rfl
    · intro a ha
      have := singleMode_keys P n acc.2 a ha
      exact ⟨this.1, by omega⟩
  · rw [if_neg he]
    have hcpos : 0 < c := Nat.pos_of_ne_zero (fun h0 => he (hinv.isEmpty_iff.2 h0))
    obtain ⟨hprod, hnd, hkeys⟩ := product_fold_eq acc.1 (singleMode P n acc.2).1 c hinv.nodup
      hinv.keys (singleMode_keys_nodup P n acc.2) (singleMode_keys P n acc.2)
    rw [hprod]
    refine ⟨?_, by omega, ?_, hnd, hkeys⟩
    · rw [hspec, singleMode_ctr, hinv.ctr]
    · intro _ F
      rw [hspec, mix_product acc.1 (singleMode P n acc.2).1 (fun a b => a.add b) F, mix_specStep]
      have h1 : (fun a : AState => mix (singleMode P n acc.2).1 fun b => F (a.add b)) =
          fun a : AState => mix (specMode P acc.2 n) fun l => F (a.add (emb l)) := by
        funext a
        exact mix_singleMode P h n acc.2 _
      rw [h1, hinv.mixEq hcpos, hinv.ctr]

/-- the first mode of a group of `n` empty modes -/
theorem fdStep_group (P : Params Q) (s : FState) (ge : List (Nat × List Nat) × List Nat) (c : Nat)
    (acc : KD AState Q × Int) (hinv : FdInv P s c acc) (hskip : ¬ ge.2.contains c = true)
    (g : Nat × List Nat) (hfind : ge.1.find? (·.1 == c) = some g)
    (hz : s.take (c + g.2.length) = s.take c ++ List.replicate g.2.length 0)
    (hpos : 0 < g.2.length) :
    FdInv P s (c + g.2.length) (fdStep P s ge acc c) := by
  unfold fdStep
  rw [if_neg hskip, hfind]
  simp only
  set n := g.2.length with hn
  set e := AState.new (List.replicate n []) with he
  obtain ⟨hzc, hzm⟩ := specFold_zeros P n (specFull P (s.take c))
  have hspec : specFull P (s.take (c + n)) = specFold P (List.replicate n 0) (specFull P (s.take c)) := by
    rw [hz]; exact specFold_append P _ _ _
  by_cases hem : acc.1.isEmpty = true
  · have hc0 : c = 0 := hinv.isEmpty_iff.1 hem
    rw [if_pos hem]
    refine ⟨?_, ?_, ?_, by simp, ?_⟩
    · rw [hspec, hzc]; exact hinv.ctr
    · intro h0; omega
    · intro _ F
      rw [hspec, hzm]
      subst hc0
      simp only [List.take_zero]
      show _ = mix [(AState.new [], (1 : Q))] _
      simp only [mix_cons, mix_nil, one_mul, add_zero]
      rw [addEmpties_eq n _ (AState.new_wf _), AState.add_new]
      rfl
    · intro a ha
      simp only [List.map_cons, List.map_nil, List.mem_singleton] at ha
      subst ha
      refine ⟨AState.new_wf _, ?_⟩
      rw [AState.new_nModes, List.length_replicate]
      omega
  · rw [if_neg hem]
    have hcpos : 0 < c := Nat.pos_of_ne_zero (fun h0 => hem (hinv.isEmpty_iff.2 h0))
    refine ⟨?_, by omega, ?_, ?_, ?_⟩
    · rw [hspec, hzc]; exact hinv.ctr
    · intro _ F
      rw [hspec, hzm, mix_map_key acc.1 (fun a => a.add e) F, ← hinv.mixEq hcpos]
      apply mix_congr
      intro x hx
      have hwf := (hinv.keys x.1 (List.mem_map.2 ⟨x, hx, rfl⟩)).1
      rw [addEmpties_eq n x.1 hwf]
    · rw [List.map_map]
      have : ((fun x : AState × Q => x.1) ∘ fun x : AState × Q => (x.1.add e, x.2)) =
          (fun a : AState => a.add e) ∘ fun x : AState × Q => x.1 := rfl
      rw [this, ← List.map_map]
      refine List.Nodup.map_on ?_ hinv.nodup
      intro a ha b hb hab
      exact (add_inj (hinv.keys a ha).1 (hinv.keys b hb).1 (AState.new_wf _) (AState.new_wf _)
        ((hinv.keys a ha).2.trans (hinv.keys b hb).2.symm) hab).1
    · intro a ha
      simp only [List.map_map, List.mem_map, Function.comp] at ha
      obtain ⟨x, hx, rfl⟩ := ha
      refine ⟨AState.add_wf _ _, ?_⟩
      rw [AState.nModes_add, AState.new_nModes, List.length_replicate,
        (hinv.keys x.1 (List.mem_map.2 ⟨x, hx, rfl⟩)).2]

theorem fdStep_skip (P : Params Q) (s : FState) (ge : List (Nat × List Nat) × List Nat)
    (acc : KD AState Q × Int) (i : Nat) (hi : i ∈ ge.2) : fdStep P s ge acc i = acc := by
  unfold fdStep
  rw [if_pos (List.contains_iff_mem.2 hi)]

theorem foldl_skip (P : Params Q) (s : FState) (ge : List (Nat × List Nat) × List Nat)
    (acc : KD AState Q × Int) (l : List Nat) (hl : ∀ i ∈ l, i ∈ ge.2) :
    l.foldl (fdStep P s ge) acc = acc := by
  induction l with
  | nil => rfl
  | cons i l ih =>
    rw [List.foldl_cons, fdStep_skip P s ge acc i (hl i (by simp))]
    exact ih (fun j hj => hl j (by simp [hj]))

theorem getD_default (s : FState) (k d d' : Nat) (hk : k < s.length) : s.getD k d = s.getD k d' := by
  simp [List.getD_eq_getElem?_getD, hk]

theorem take_zeros (s : FState) (c n : Nat) (hle : c + n ≤ s.length)
    (hz : ∀ k, c ≤ k → k < c + n → s.getD k 1 = 0) :
    s.take (c + n) = s.take c ++ List.replicate n 0 := by
  rw [List.take_add]
  congr 1
  apply List.ext_getElem
  · simp; omega
  · intro i h1 h2
    simp only [List.length_replicate] at h2
    have := hz (c + i) (by omega) (by omega)
    rw [List.getD_eq_getElem?_getD, List.getElem?_eq_getElem (by omega)] at this
    simpa using this

/-- the loop from mode `c` on, `c` not being a skipped mode -/
theorem fd_fold (P : Params Q) (h : InRange P) (s : FState) (ge : List (Nat × List Nat) × List Nat)
    (hv : ValidGrouping s ge.1 ge.2) :
    ∀ (m c : Nat) (acc : KD AState Q × Int), c + m = s.length → c ∉ ge.2 → FdInv P s c acc →
      FdInv P s s.length ((List.range' c m).foldl (fdStep P s ge) acc) := by
  intro m
  induction m using Nat.strong_induction_on with
  | _ m ih =>
    intro c acc hcm hc hinv
    cases m with
    | zero =>
      have : c = s.length := by omega
      subst this
      exact hinv
    | succ m =>
      rw [List.range'_succ, List.foldl_cons]
      have hskip : ¬ ge.2.contains c = true := fun hh => hc (List.contains_iff_mem.1 hh)
      cases hfind : ge.1.find? (·.1 == c) with
      | none =>
        have hstep := fdStep_mode P h s ge c (by omega) acc hinv hskip hfind
        refine ih m (Nat.lt_succ_self m) (c + 1) _ (by omega) ?_ hstep
        -- c+1 is not skipped
        intro hmem
        obtain ⟨g, hg, hg1, hg2⟩ := (hv.skip_iff (c + 1)).1 hmem
        rcases Nat.lt_or_ge g.1 c with hlt | hge
        · exact hc ((hv.skip_iff c).2 ⟨g, hg, hlt, by omega⟩)
        · have hgc : g.1 = c := by omega
          have := List.find?_eq_none.1 hfind g hg
          simp [hgc] at this
      | some g =>
        have hg : g ∈ ge.1 := List.mem_of_find?_eq_some hfind
        have hgc : g.1 = c := by simpa using List.find?_some hfind
        have h2 := hv.two_le g hg
        have hle := hv.le_len g hg
        rw [hgc] at hle
        set n := g.2.length with hn
        have hz := take_zeros s c n hle (fun k hk1 hk2 => hv.zeros g hg k (by omega) (by omega))
        have hstep := fdStep_group P s ge c acc hinv hskip g hfind hz (by omega)
        -- the modes c+1 .. c+n-1 are skipped
        have hsplit : List.range' (c + 1) m = List.range' (c + 1) (n - 1) ++ List.range' (c + n) (m - (n - 1)) := by
          have := @List.range'_append (c + 1) (n - 1) (m - (n - 1)) 1
          simp only [Nat.one_mul] at this
          have e1 : c + 1 + (n - 1) = c + n := by omega
          have e2 : n - 1 + (m - (n - 1)) = m := by omega
          rw [e1, e2] at this
          exact this.symm
        rw [hsplit, List.foldl_append, foldl_skip P s ge _ (List.range' (c + 1) (n - 1))]
        · refine ih (m - (n - 1)) (by omega) (c + n) _ (by omega) ?_ hstep
          -- c+n is not skipped: the group is maximal
          intro hmem
          obtain ⟨g', hg', hg1, hg2⟩ := (hv.skip_iff (c + n)).1 hmem
          have hlen' := hv.le_len g' hg'
          have hzero := hv.zeros g' hg' (c + n) (by omega) hg2
          have hmax := hv.maximal g hg (by rw [hgc]; omega)
          rw [hgc] at hmax
          rw [getD_default s (c + n) 1 0 (by omega)] at hzero
          exact hmax hzero
        · intro i hi
          simp only [List.mem_range'_1] at hi
          exact (hv.skip_iff i).2 ⟨g, hg, by omega, by omega⟩

theorem fullDistribution_inv (P : Params Q) (h : InRange P) (s : FState) :
    FdInv P s s.length ((List.range s.length).foldl (fdStep P s (groupEmptyModes s)) ([], 1)) := by
  have hv := groupEmptyModes_valid s
  have h0 : FdInv P s 0 (([] : KD AState Q), (1 : Int)) :=
    ⟨rfl, fun _ => rfl, fun h => absurd h (lt_irrefl 0), by simp, by simp⟩
  have hnot : 0 ∉ (groupEmptyModes s).2 := by
    intro hmem
    obtain ⟨g, _, hg1, _⟩ := (hv.skip_iff 0).1 hmem
    omega
  have := fd_fold P h s (groupEmptyModes s) hv s.length 0 _ (by omega) hnot h0
  rwa [← List.range_eq_range'] at this

/-- INPUT STATISTICS = MIXTURE OVER INDEPENDENT PER-PHOTON EMISSION OUTCOMES: for every observable
`F`, `_full_distribution` and the mode-by-mode specification give the same mixture -/
theorem mix_fullDistribution (P : Params Q) (h : InRange P) (s : FState) (hs : s ≠ [])
    (F : AState → Q) : mix (fullDistribution P s) F = mix (specFull P s).1 F := by
  have hlen : 0 < s.length := List.length_pos_iff.2 hs
  have := (fullDistribution_inv P h s).mixEq hlen F
  rw [List.take_length] at this
  exact this

/-- the keys of `_full_distribution` are distinct, well-formed states on the state's modes (so the
assignment `new_dist[s1 + s2] = p1 * p2` never overwrites an entry) -/
theorem fullDistribution_keys (P : Params Q) (h : InRange P) (s : FState) :
    ((fullDistribution P s).map (·.1)).Nodup ∧
      ∀ a ∈ (fullDistribution P s).map (·.1), a.WF ∧ a.nModes = s.length :=
  ⟨(fullDistribution_inv P h s).nodup, (fullDistribution_inv P h s).keys⟩

end

end LW.Proofs.C06
