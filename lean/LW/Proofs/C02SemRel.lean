/-
  LW.Proofs.C02SemRel — the two relabellings used by `Circuit.add` seen as embeddings:
  `addEmptyMode k` (insert an identity mode at `k`) and `shift s` (place into a window).
  INSERT-MODE lemma and SHIFT lemma for `compile`.
-/
import LW.Proofs.C02SemRun
import LW.Proofs.C02Modes
import LW.Proofs.ReachModes

open scoped BigOperators

namespace LW.Proofs.C02Sem

open LW LW.Proofs.C01Aux LW.Proofs.C02

variable {K : Type} [CommRing K] [StarRing K]

set_option linter.unusedSectionVars false

/-! ### inserting a mode -/

/-- inverse of `bump k` -/
def unbump (k r : Nat) : Option Nat := if r = k then none else some (if r > k then r - 1 else r)

theorem pinj_bump (k N : Nat) (hk : k ≤ N) : PInj N (N + 1) (bump k) (unbump k) := by
  refine ⟨?_, ?_, ?_⟩
  · intro x hx; unfold bump; split <;> omega
  · intro x _
    unfold unbump bump
    split_ifs <;> first | omega | (congr 1 <;> omega)
  · intro r x hr e
    unfold unbump at e
    split_ifs at e <;> (injection e with e; unfold bump; split_ifs <;> omega)

theorem get_addModeToUnitary (u : M K) (k : Nat) {r c : Nat} (hr : r < u.n + 1) (hc : c < u.n + 1) :
    (addModeToUnitary u k).get r c =
      if r = k ∨ c = k then (if r = c then 1 else 0)
      else u.get (if r > k then r - 1 else r) (if c > k then c - 1 else c) := by
  unfold addModeToUnitary
  rw [M.get_ofFn _ hr hc]

theorem addModeToUnitary_n (u : M K) (k : Nat) : (addModeToUnitary u k).n = u.n + 1 := rfl

theorem unbump_self (k : Nat) : unbump k k = none := by unfold unbump; rw [if_pos rfl]

theorem unbump_ne {k r : Nat} (h : r ≠ k) : unbump k r = some (if r > k then r - 1 else r) := by
  unfold unbump; rw [if_neg h]

theorem get_embedVia_unbump_ne (D : Nat) (A : M K) {k r c : Nat} (hr : r < D) (hc : c < D)
    (h1 : r ≠ k) (h2 : c ≠ k) :
    (Optic.embedVia D A (unbump k)).get r c
      = A.get (if r > k then r - 1 else r) (if c > k then c - 1 else c) := by
  rw [get_embedVia _ _ _ hr hc, unbump_ne h1, unbump_ne h2]

theorem embedBlock_bump_inside (D : Nat) (m k : Nat) (u : M K) (h1 : m < k) (h2 : k < m + u.n)
    (hD : m + u.n ≤ D) :
    embedBlock (D + 1) m (addModeToUnitary u (k - m))
      = Optic.embedVia (D + 1) (embedBlock D m u) (unbump k) := by
  refine M.ext_get (M.isOfFn_ofFn _ _) (isOfFn_embedVia _ _ _) rfl ?_
  intro r c hr hc
  rw [embedBlock_n] at hr hc
  rw [get_embedBlock _ _ hr hc, addModeToUnitary_n]
  by_cases hrk : r = k
  · rw [get_embedVia_none_left _ hr hc (by rw [hrk]; exact unbump_self k)]
    by_cases hb : m ≤ r ∧ r < m + (u.n + 1) ∧ m ≤ c ∧ c < m + (u.n + 1)
    · rw [if_pos hb, get_addModeToUnitary _ _ (by omega) (by omega)]
      split_ifs <;> first | rfl | omega
    · rw [if_neg hb]
  · by_cases hck : c = k
    · rw [get_embedVia_none_right _ hr hc (by rw [hck]; exact unbump_self k)]
      by_cases hb : m ≤ r ∧ r < m + (u.n + 1) ∧ m ≤ c ∧ c < m + (u.n + 1)
      · rw [if_pos hb, get_addModeToUnitary _ _ (by omega) (by omega)]
        split_ifs <;> first | rfl | omega
      · rw [if_neg hb]
    · rw [get_embedVia_unbump_ne _ _ hr hc hrk hck,
        get_embedBlock _ _ (by split_ifs <;> omega) (by split_ifs <;> omega)]
      by_cases hb : m ≤ r ∧ r < m + (u.n + 1) ∧ m ≤ c ∧ c < m + (u.n + 1)
      · rw [if_pos hb, get_addModeToUnitary _ _ (by omega) (by omega)]
        split_ifs <;> first | rfl | omega | (congr 1 <;> omega)
      · rw [if_neg hb]
        split_ifs <;> first | rfl | omega

theorem embedBlock_bump_outside (D : Nat) (m k : Nat) (u : M K) (h : k ≤ m ∨ m + u.n ≤ k)
    (hD : m + u.n ≤ D) (hk : k ≤ D) :
    embedBlock (D + 1) (bump k m) u = Optic.embedVia (D + 1) (embedBlock D m u) (unbump k) := by
  refine M.ext_get (M.isOfFn_ofFn _ _) (isOfFn_embedVia _ _ _) rfl ?_
  intro r c hr hc
  rw [embedBlock_n] at hr hc
  rw [get_embedBlock _ _ hr hc]
  unfold bump
  by_cases hrk : r = k
  · rw [get_embedVia_none_left _ hr hc (by rw [hrk]; exact unbump_self k)]
    split_ifs <;> first | rfl | omega
  · by_cases hck : c = k
    · rw [get_embedVia_none_right _ hr hc (by rw [hck]; exact unbump_self k)]
      split_ifs <;> first | rfl | omega
    · rw [get_embedVia_unbump_ne _ _ hr hc hrk hck,
        get_embedBlock _ _ (by split_ifs <;> omega) (by split_ifs <;> omega)]
      split_ifs <;> first | rfl | omega | (congr 1 <;> omega)

theorem matRel_addEmptyMode (i : K) (n k : Nat) (hk : k ≤ n) (q : Prim K) (hq : q.Wf n) :
    MatRel i (unbump k) n (n + 1) q (q.addEmptyMode k) := by
  have hP : ∀ L, PInj (n + L) (n + 1 + L) (bump k) (unbump k) := fun L => by
    have := pinj_bump k (n + L) (by omega)
    rwa [show n + L + 1 = n + 1 + L by omega] at this
  rcases q with ⟨m1, m2, c, s, cv⟩ | ⟨m, ph⟩ | ⟨m, a, b⟩ | ms | σ | ⟨m, u⟩
  · refine ⟨rfl, rfl, fun L _ => ?_⟩
    obtain ⟨h1, h2, -⟩ := hq
    cases cv <;> exact embed2_embedVia (hP L) (by omega) (by omega) _ _ _ _
  · refine ⟨rfl, rfl, fun L _ => ?_⟩
    exact embed1_embedVia (hP L) (by have := hq.1; omega) _
  · refine ⟨rfl, rfl, fun L hL => ?_⟩
    have hL' := hL rfl
    show embed2 (n + 1 + L) (bump k m) (n + 1 + L - 1) a b (-b) a = _
    have e : n + 1 + L - 1 = bump k (n + L - 1) := by unfold bump; split <;> omega
    rw [e]
    exact embed2_embedVia (hP L) (by have := hq.1; omega) (by omega) _ _ _ _
  · refine ⟨rfl, rfl, fun L _ => ?_⟩
    exact (embedVia_one (hP L)).symm
  · refine ⟨rfl, rfl, fun L _ => ?_⟩
    show permMat _ _ = Optic.embedVia _ (permMat σ _) _
    rw [permMat_eq_permF, permMat_eq_permF]
    have hq' : SwapsOk n σ := hq
    apply permF_embedVia (hP L)
    · intro x hx; exact swapsOk_fn_lt hq' (by omega) hx
    · intro x _
      show Dict.fn (Dict.ofPairs _) _ = bump k (Dict.fn σ x)
      rw [fn_ofPairs_map σ hq'.1 (bump k) (fun a b => bump_inj), fn_map_pair σ (bump k) (fun a b => bump_inj)]
    · intro r _ hr
      show Dict.fn (Dict.ofPairs _) _ = r
      rw [fn_ofPairs_map σ hq'.1 (bump k) (fun a b => bump_inj)]
      apply fn_map_pair_fix
      intro x
      unfold unbump at hr
      split at hr
      · rename_i e; subst e; exact bump_ne _ _
      · cases hr
  · obtain ⟨h1, -⟩ := hq
    simp only [Prim.addEmptyMode]
    split
    · rename_i hc
      have hb : bump k m = m := by
        unfold bump at hc ⊢
        split <;> rename_i h' <;> simp only [h', if_true, if_false] at hc <;> omega
      rw [hb] at hc ⊢
      refine ⟨rfl, rfl, fun L _ => ?_⟩
      have := embedBlock_bump_inside (n + L) m k u hc.1 hc.2 (by omega)
      rwa [show n + L + 1 = n + 1 + L by omega] at this
    · rename_i hc
      refine ⟨rfl, rfl, fun L _ => ?_⟩
      have := embedBlock_bump_outside (n + L) m k u (by
        unfold bump at hc; split_ifs at hc <;> omega) (by omega) (by omega)
      rwa [show n + L + 1 = n + 1 + L by omega] at this

/-! ### shifting into a window -/

def winFwd (nS s T x : Nat) : Nat := if x < nS then x + s else x - nS + T

def winInv (nS s T r : Nat) : Option Nat :=
  if s ≤ r ∧ r < s + nS then some (r - s) else if T ≤ r then some (r - T + nS) else none

theorem pinj_win (nS s T L : Nat) (hT : s + nS ≤ T) :
    PInj (nS + L) (T + L) (winFwd nS s T) (winInv nS s T) := by
  refine ⟨?_, ?_, ?_⟩
  · intro x hx; unfold winFwd; split <;> omega
  · intro x _
    unfold winInv winFwd
    split_ifs <;> first | omega | (congr 1 <;> omega)
  · intro r x hr e
    unfold winInv at e
    split_ifs at e <;> (injection e with e; unfold winFwd; split_ifs <;> omega)

theorem embedBlock_win (nS s T L m : Nat) (u : M K) (hT : s + nS ≤ T) (hm : m + u.n ≤ nS) :
    embedBlock (T + L) (m + s) u
      = Optic.embedVia (T + L) (embedBlock (nS + L) m u) (winInv nS s T) := by
  have hP := pinj_win nS s T L hT
  refine M.ext_get (M.isOfFn_ofFn _ _) (isOfFn_embedVia _ _ _) rfl ?_
  intro r c hr hc
  rw [embedBlock_n] at hr hc
  rw [get_embedBlock _ _ hr hc]
  cases hir : winInv nS s T r with
  | none =>
    rw [get_embedVia_none_left _ hr hc hir]
    unfold winInv at hir
    split_ifs at hir ⊢ <;> first | rfl | omega
  | some x =>
    obtain ⟨hx, ex⟩ := hP.inv_some r x hr hir
    cases hic : winInv nS s T c with
    | none =>
      rw [get_embedVia_none_right _ hr hc hic]
      unfold winInv at hic
      split_ifs at hic ⊢ <;> first | rfl | omega
    | some y =>
      obtain ⟨hy, ey⟩ := hP.inv_some c y hc hic
      subst ex ey
      rw [get_embedVia_fwd hP _ hx hy, get_embedBlock _ _ hx hy]
      unfold winFwd
      split_ifs <;> first | rfl | omega | (congr 1 <;> omega)

theorem matRel_shift (i : K) (nS s T : Nat) (hT : s + nS ≤ T) (q : Prim K) (hq : q.Wf nS) :
    MatRel i (winInv nS s T) nS T q (q.shift s) := by
  have hP := fun L => pinj_win nS s T L hT
  have hf : ∀ x, x < nS → winFwd nS s T x = x + s := fun x hx => by
    unfold winFwd; rw [if_pos hx]
  rcases q with ⟨m1, m2, c, s', cv⟩ | ⟨m, ph⟩ | ⟨m, a, b⟩ | ms | σ | ⟨m, u⟩
  · refine ⟨rfl, rfl, fun L _ => ?_⟩
    obtain ⟨h1, h2, -⟩ := hq
    have := fun a b c e => embed2_embedVia (K := K) (hP L) (m1 := m1) (m2 := m2) (by omega) (by omega) a b c e
    rw [hf m1 h1, hf m2 h2] at this
    cases cv <;> exact this _ _ _ _
  · refine ⟨rfl, rfl, fun L _ => ?_⟩
    have := embed1_embedVia (K := K) (hP L) (m := m) (by have := hq.1; omega) ph
    rwa [hf m hq.1] at this
  · refine ⟨rfl, rfl, fun L hL => ?_⟩
    have hL' := hL rfl
    show embed2 (T + L) (m + s) (T + L - 1) a b (-b) a = _
    have e : T + L - 1 = winFwd nS s T (nS + L - 1) := by unfold winFwd; split <;> omega
    rw [e, ← hf m hq.1]
    exact embed2_embedVia (hP L) (by have := hq.1; omega) (by omega) _ _ _ _
  · refine ⟨rfl, rfl, fun L _ => ?_⟩
    exact (embedVia_one (hP L)).symm
  · refine ⟨rfl, rfl, fun L _ => ?_⟩
    show permMat _ _ = Optic.embedVia _ (permMat σ _) _
    rw [permMat_eq_permF, permMat_eq_permF]
    have hq' : SwapsOk nS σ := hq
    have hinj : ∀ a b : Nat, a + s = b + s → a = b := fun a b e => by omega
    have hkeys : ∀ r, (r < s ∨ s + nS ≤ r) →
        Dict.fn (Dict.ofPairs (σ.map fun p => (p.1 + s, p.2 + s))) r = r := by
      intro r hr
      rw [fn_ofPairs_map σ hq'.1 (· + s) hinj]
      apply Dict.fn_of_not_mem
      intro hm
      simp only [Dict.keys, List.map_map, List.mem_map, Function.comp] at hm
      obtain ⟨p, hp, e⟩ := hm
      have := hq'.2.2 p.1 (by simp only [Dict.keys, List.mem_map]; exact ⟨p, hp, rfl⟩)
      omega
    apply permF_embedVia (hP L)
    · intro x hx; exact swapsOk_fn_lt hq' (by omega) hx
    · intro x _
      show Dict.fn (Dict.ofPairs _) _ = winFwd nS s T (Dict.fn σ x)
      by_cases hx : x < nS
      · rw [hf x hx, hf _ (swapsOk_fn_lt hq' (Nat.le_refl _) hx),
          fn_ofPairs_map σ hq'.1 (· + s) hinj]
        exact fn_map_pair σ (· + s) hinj x
      · have e : Dict.fn σ x = x := Dict.fn_of_not_mem (fun hm => by
          have := hq'.2.2 x hm; omega)
        rw [e]
        apply hkeys
        unfold winFwd
        rw [if_neg hx]
        omega
    · intro r _ hr
      apply hkeys
      unfold winInv at hr
      split_ifs at hr <;> omega
  · refine ⟨rfl, rfl, fun L _ => ?_⟩
    exact embedBlock_win nS s T L m u hT hq.1

/-! ### lists -/

theorem forall₂_map {α : Type} (R : α → α → Prop) (f : α → α) (l : List α)
    (h : ∀ a ∈ l, R a (f a)) : List.Forall₂ R l (l.map f) := by
  induction l with
  | nil => exact List.Forall₂.nil
  | cons a l ih =>
    exact List.Forall₂.cons (h a List.mem_cons_self)
      (ih (fun b hb => h b (List.mem_cons_of_mem _ hb)))

theorem toPrims_addEmptyMode (k : Nat) (c : Comp K) :
    (c.addEmptyMode k).toPrims = c.toPrims.map (Prim.addEmptyMode k) := by
  cases c <;> rfl

theorem toPrims_shift (k : Nat) (c : Comp K) :
    (c.shift k).toPrims = c.toPrims.map (Prim.shift k) := by
  cases c <;> rfl

theorem flatten_addEmptyMode (spec : List (Comp K)) (k : Nat) :
    flattenSpec (Circ.addEmptyModeSpec spec k) = (flattenSpec spec).map (Prim.addEmptyMode k) := by
  unfold flattenSpec Circ.addEmptyModeSpec
  induction spec with
  | nil => rfl
  | cons c spec ih =>
    simp only [List.map_cons, List.flatMap_cons, List.map_append, ih, toPrims_addEmptyMode]

theorem flatten_shift (spec : List (Comp K)) (k : Nat) :
    flattenSpec (spec.map (Comp.shift k)) = (flattenSpec spec).map (Prim.shift k) := by
  unfold flattenSpec
  induction spec with
  | nil => rfl
  | cons c spec ih =>
    simp only [List.map_cons, List.flatMap_cons, List.map_append, ih, toPrims_shift]

theorem lossN_flatten (spec : List (Comp K)) : lossN (flattenSpec spec) = lossCount spec := by
  unfold lossN flattenSpec lossCount
  induction spec with
  | nil => rfl
  | cons c spec ih =>
    simp only [List.flatMap_cons, List.filter_append, List.length_append, List.map_cons,
      List.sum_cons, ih]
    congr 1
    cases c with
    | prim p =>
      simp only [Comp.toPrims, Comp.lossCount, List.filter_cons, List.filter_nil]
      split <;> rfl
    | group cs m1 m2 hin hout => rfl

theorem compile_eq_foldl (i : K) (n : Nat) (spec : List (Comp K)) :
    compile i n spec = (flattenSpec spec).foldl (compilePrim i) (M.one n) :=
  foldl_compileComp_eq i spec (M.one n)

theorem compile_n (i : K) (n : Nat) (spec : List (Comp K)) :
    (compile i n spec).n = n + lossCount spec := by
  unfold compile
  rw [foldl_compileComp_n]; rfl

theorem isOfFn_compile (i : K) (n : Nat) (spec : List (Comp K)) : (compile i n spec).IsOfFn := by
  rw [compile_eq_foldl]
  exact isOfFn_foldl_compilePrim i _ _ (M.isOfFn_one n)

/-- INSERT-MODE LEMMA -/
theorem compile_addEmptyMode (i : K) (n k : Nat) (hk : k ≤ n) (spec : List (Comp K))
    (hw : SpecWf n spec) :
    compile i (n + 1) (Circ.addEmptyModeSpec spec k)
      = Optic.embedVia (n + 1 + lossCount spec) (compile i n spec) (unbump k) := by
  have hP : ∀ L, PInj (n + L) (n + 1 + L) (bump k) (unbump k) := fun L => by
    have := pinj_bump k (n + L) (by omega)
    rwa [show n + L + 1 = n + 1 + L by omega] at this
  rw [compile_eq_foldl, compile_eq_foldl, flatten_addEmptyMode]
  have hrel := forall₂_map (MatRel i (unbump k) n (n + 1)) (Prim.addEmptyMode k) (flattenSpec spec)
    (fun q hq => matRel_addEmptyMode i n k hk q (mem_flattenSpec_wf hw q hq))
  have := run_rel i hP _ _ hrel (M.one n) (M.one (n + 1)) 0 rfl rfl (M.isOfFn_one _)
  have h0 := hP 0
  simp only [Nat.add_zero] at h0 this
  rw [embedVia_one h0] at this
  have e1 : (M.one (n + 1) : M K).mul (M.one (n + 1)) = M.one (n + 1) :=
    one_mul' (M.one (n + 1)) (M.isOfFn_one _)
  rw [e1] at this
  rw [this, one_pad, lossN_flatten]
  exact mul_one' _ (isOfFn_embedVia _ _ _)

/-- SHIFT LEMMA: continuing a compilation `V` with a spec shifted into the window `[s, s + nS)` -/
theorem foldl_shift (i : K) (nS s T : Nat) (hT : s + nS ≤ T) (spec : List (Comp K))
    (hw : SpecWf nS spec) (V : M K) (hV : V.n = T) (hVf : V.IsOfFn) :
    (flattenSpec (spec.map (Comp.shift s))).foldl (compilePrim i) V
      = (Optic.embedVia (T + lossCount spec) (compile i nS spec) (winInv nS s T)).mul
          (V.pad (lossCount spec)) := by
  have hP := fun L => pinj_win nS s T L hT
  rw [compile_eq_foldl, flatten_shift]
  have hrel := forall₂_map (MatRel i (winInv nS s T) nS T) (Prim.shift s) (flattenSpec spec)
    (fun q hq => matRel_shift i nS s T hT q (mem_flattenSpec_wf hw q hq))
  have := run_rel i hP _ _ hrel (M.one nS) V 0 rfl (by omega) hVf
  have h0 := hP 0
  simp only [Nat.add_zero] at h0 this
  rw [embedVia_one h0] at this
  have e1 : (M.one T : M K).mul V = V := by
    have := one_mul' V hVf
    rwa [hV] at this
  rw [e1] at this
  rw [this, lossN_flatten]

end LW.Proofs.C02Sem
