/-
  LW.Proofs.C19 — index safety of the drawing back-ends and the option-validation decision
  (helper lemmas and the proofs of the theorems stated in LW/Properties/C19.lean).
-/
import LW.Model.Display

namespace LW.Disp

variable {K : Type}

/-! ### the `Except` monad, one step at a time -/

@[simp] theorem ok_bind {α β : Type} (a : α) (f : α → Except Err β) :
    (Except.ok a >>= f) = f a := rfl

@[simp] theorem error_bind {α β : Type} (e : Err) (f : α → Except Err β) :
    (Except.error e >>= f) = Except.error e := rfl

@[simp] theorem pure_eq_ok {α : Type} (a : α) : (pure a : Except Err α) = Except.ok a := rfl

/-- the result is a list of the given length -/
def OkLen (n : Nat) (r : Except Err (List Rat)) : Prop := ∃ l, r = .ok l ∧ l.length = n

theorem OkLen.ok {n : Nat} {l : List Rat} (h : l.length = n) : OkLen n (.ok l) := ⟨l, rfl, h⟩

/-! ### checked access -/

theorem getE_ok {l : List Rat} {i : Nat} (h : i < l.length) : ∃ v, getE l i = .ok v := by
  unfold getE
  rw [List.getElem?_eq_getElem h]
  exact ⟨_, rfl⟩

theorem setE_ok {l : List Rat} {i : Nat} (v : Rat) (h : i < l.length) :
    setE l i v = .ok (l.set i v) := by
  simp [setE, h]

theorem maxE_ok {l : List Rat} (h : l ≠ []) : maxE l = .ok (maxL l) := by
  cases l with
  | nil => exact absurd rfl h
  | cons x xs => rfl

theorem nmaxE_ok {l : List Nat} (h : l ≠ []) : nmaxE l = .ok (nmaxL l) := by
  cases l with
  | nil => exact absurd rfl h
  | cons x xs => rfl

theorem slice_length (l : List Rat) (lo hiEx : Nat) :
    (slice l lo hiEx).length = min (hiEx - lo) (l.length - lo) := by
  simp [slice]

theorem slice_ne_nil {l : List Rat} {lo hiEx : Nat} (h1 : lo < hiEx) (h2 : hiEx ≤ l.length) :
    slice l lo hiEx ≠ [] := by
  intro h
  have := slice_length l lo hiEx
  rw [h] at this
  simp at this
  omega

theorem mem_span {lo hi i : Nat} : i ∈ span lo hi ↔ lo ≤ i ∧ i ≤ hi := by
  unfold span
  rw [List.mem_range'_1]
  omega

theorem readAll_ok {l : List Rat} {is : List Nat} (h : ∀ i ∈ is, i < l.length) :
    readAll l is = .ok () := by
  induction is with
  | nil => rfl
  | cons i is ih =>
    obtain ⟨v, hv⟩ := getE_ok (h i (List.mem_cons_self ..))
    simp only [readAll, hv, ok_bind]
    exact ih fun j hj => h j (List.mem_cons_of_mem _ hj)

theorem writeAll_ok {l : List Rat} (v : Rat) {is : List Nat} (h : ∀ i ∈ is, i < l.length) :
    OkLen l.length (writeAll l v is) := by
  induction is generalizing l with
  | nil => exact ⟨l, rfl, rfl⟩
  | cons i is ih =>
    simp only [writeAll, setE_ok v (h i (List.mem_cons_self ..)), ok_bind]
    have := @ih (l.set i v) (by
      intro j hj
      rw [List.length_set]
      exact h j (List.mem_cons_of_mem _ hj))
    rwa [List.length_set] at this

theorem mapM_getE_ok {l : List Rat} {is : List Nat} (h : ∀ i ∈ is, i < l.length) :
    ∃ vs, is.mapM (getE l) = .ok vs ∧ vs.length = is.length := by
  induction is with
  | nil => exact ⟨[], rfl, rfl⟩
  | cons i is ih =>
    obtain ⟨v, hv⟩ := getE_ok (h i (List.mem_cons_self ..))
    obtain ⟨vs, hvs, hl⟩ := ih fun j hj => h j (List.mem_cons_of_mem _ hj)
    refine ⟨v :: vs, ?_, by simp [hl]⟩
    simp [List.mapM_cons, hv, hvs]

/-! ### components -/

theorem addSpan_ok {n : Nat} {ys xs : List Rat} (herald : List Nat) {lo hi : Nat} (w : Rat)
    (hy : ys.length = n) (hx : xs.length = n) (h1 : lo ≤ hi) (h2 : hi < n) :
    OkLen n (addSpan ys herald xs lo hi w) := by
  unfold addSpan
  rw [maxE_ok (slice_ne_nil (by omega) (by omega))]
  simp only [ok_bind]
  rw [readAll_ok (by
    intro i hi'
    have := (mem_span.mp (List.mem_filter.mp hi').1)
    omega)]
  simp only [ok_bind]
  have := writeAll_ok (l := xs) (maxL (slice xs lo (hi + 1)) + w) (is := span lo hi) (by
    intro i hi'
    have := mem_span.mp hi'
    omega)
  rwa [hx] at this

theorem addPs_ok {n : Nat} (b : Backend) {ys xs : List Rat} {m : Nat}
    (hy : ys.length = n) (hx : xs.length = n) (hm : m < n) : OkLen n (addPs b ys xs m) := by
  unfold addPs
  obtain ⟨x, hx'⟩ := getE_ok (l := xs) (i := m) (by omega)
  obtain ⟨y, hy'⟩ := getE_ok (l := ys) (i := m) (by omega)
  simp only [hx', hy', ok_bind, setE_ok _ (show m < xs.length by omega)]
  exact OkLen.ok (by simp [hx])

theorem addBs_ok {n : Nat} (b : Backend) {ys xs : List Rat} (herald : List Nat) {m1 m2 : Nat}
    (hy : ys.length = n) (hx : xs.length = n) (h1 : m1 < n) (h2 : m2 < n) :
    OkLen n (addBs b ys herald xs m1 m2) := by
  unfold addBs
  obtain ⟨a, ha⟩ := getE_ok (l := ys) (i := max m1 m2) (by omega)
  obtain ⟨c, hc⟩ := getE_ok (l := ys) (i := min m1 m2) (by omega)
  simp only [ha, hc, ok_bind]
  exact addSpan_ok herald _ hy hx (by omega) (by omega)

theorem addUnitary_ok {n : Nat} (b : Backend) {ys xs : List Rat} (herald : List Nat) {m k : Nat}
    (hy : ys.length = n) (hx : xs.length = n) (hk : 0 < k) (hm : m + k ≤ n) :
    OkLen n (addUnitary b ys herald xs m k) := by
  unfold addUnitary
  rw [if_neg (by omega)]
  obtain ⟨a, ha⟩ := getE_ok (l := ys) (i := m + k - 1) (by omega)
  obtain ⟨c, hc⟩ := getE_ok (l := ys) (i := m) (by omega)
  simp only [ha, hc, ok_bind]
  exact addSpan_ok herald _ hy hx (by omega) (by omega)

theorem addBarrierSvgPinned_ok {n : Nat} {ys xs : List Rat} {ms : List Nat}
    (hy : ys.length = n) (hx : xs.length = n) (hm : ∀ m ∈ ms, m < n) (hne : ms ≠ []) :
    OkLen n (addBarrierSvgPinned ys xs ms) := by
  unfold addBarrierSvgPinned
  obtain ⟨vs, hvs, hl⟩ := mapM_getE_ok (l := xs) (is := ms) (by intro i hi; have := hm i hi; omega)
  have hvne : vs ≠ [] := by
    intro h; rw [h] at hl; exact hne (List.length_eq_zero_iff.mp hl.symm)
  simp only [hvs, ok_bind, maxE_ok hvne]
  rw [readAll_ok (by intro i hi; have := hm i hi; omega)]
  simp only [ok_bind]
  have := writeAll_ok (l := xs) (maxL vs) (is := ms) (by intro i hi; have := hm i hi; omega)
  rwa [hx] at this

theorem addBarrierSvg_ok {n : Nat} {ys xs : List Rat} {ms : List Nat}
    (hy : ys.length = n) (hx : xs.length = n) (hm : ∀ m ∈ ms, m < n) :
    OkLen n (addBarrierSvg ys xs ms) := by
  unfold addBarrierSvg
  split
  · exact OkLen.ok hx
  · rename_i h
    exact addBarrierSvgPinned_ok hy hx hm (by intro h'; rw [h'] at h; exact h rfl)

theorem addBarrierMpl_ok {n : Nat} {ys xs : List Rat} {ms : List Nat}
    (hy : ys.length = n) (hx : xs.length = n) (hm : ∀ m ∈ ms, m < n) :
    OkLen n (addBarrierMpl ys xs ms) := by
  unfold addBarrierMpl
  obtain ⟨vs, hvs, -⟩ := mapM_getE_ok (l := xs) (is := ms) (by intro i hi; have := hm i hi; omega)
  simp only [hvs, ok_bind]
  rw [readAll_ok (by intro i hi; have := hm i hi; omega)]
  simp only [ok_bind]
  have := writeAll_ok (l := xs) (vs.foldl rmax 0) (is := ms) (by intro i hi; have := hm i hi; omega)
  rwa [hx] at this


/-! ### min / max of a list of naturals -/

theorem foldl_max_spec (xs : List Nat) (x : Nat) :
    x ≤ xs.foldl Nat.max x ∧ (∀ y ∈ xs, y ≤ xs.foldl Nat.max x) ∧
      (xs.foldl Nat.max x = x ∨ xs.foldl Nat.max x ∈ xs) := by
  induction xs generalizing x with
  | nil => simp
  | cons a as ih =>
    obtain ⟨h1, h2, h3⟩ := ih (Nat.max x a)
    simp only [List.foldl_cons]
    refine ⟨by have : x ≤ Nat.max x a := Nat.le_max_left x a; omega, ?_, ?_⟩
    · intro y hy
      rcases List.mem_cons.mp hy with rfl | hy
      · have : y ≤ Nat.max x y := Nat.le_max_right x y; omega
      · exact h2 y hy
    · rcases h3 with h3 | h3
      · rw [h3]
        rcases Nat.le_total x a with h | h
        · right
          have : Nat.max x a = a := Nat.max_eq_right h
          rw [this]; exact List.mem_cons_self ..
        · left; exact (Nat.max_eq_left h : Nat.max x a = x)
      · right; exact List.mem_cons_of_mem _ h3

theorem foldl_min_spec (xs : List Nat) (x : Nat) :
    xs.foldl Nat.min x ≤ x ∧ (∀ y ∈ xs, xs.foldl Nat.min x ≤ y) := by
  induction xs generalizing x with
  | nil => simp
  | cons a as ih =>
    obtain ⟨h1, h2⟩ := ih (Nat.min x a)
    simp only [List.foldl_cons]
    refine ⟨by have : Nat.min x a ≤ x := Nat.min_le_left x a; omega, ?_⟩
    intro y hy
    rcases List.mem_cons.mp hy with rfl | hy
    · have : Nat.min x y ≤ y := Nat.min_le_right x y; omega
    · exact h2 y hy

theorem nmaxL_mem {l : List Nat} (h : l ≠ []) : nmaxL l ∈ l := by
  cases l with
  | nil => exact absurd rfl h
  | cons x xs =>
    rcases (foldl_max_spec xs x).2.2 with h | h
    · simp only [nmaxL]; rw [h]; exact List.mem_cons_self ..
    · exact List.mem_cons_of_mem _ h

theorem le_nmaxL {l : List Nat} {y : Nat} (h : y ∈ l) : y ≤ nmaxL l := by
  cases l with
  | nil => cases h
  | cons x xs =>
    rcases List.mem_cons.mp h with rfl | h
    · exact (foldl_max_spec xs y).1
    · exact (foldl_max_spec xs x).2.1 y h

theorem nminL_le {l : List Nat} {y : Nat} (h : y ∈ l) : nminL l ≤ y := by
  cases l with
  | nil => cases h
  | cons x xs =>
    rcases List.mem_cons.mp h with rfl | h
    · exact (foldl_min_spec xs y).1
    · exact (foldl_min_spec xs x).2 y h

theorem nminL_le_nmaxL {l : List Nat} (h : l ≠ []) : nminL l ≤ nmaxL l :=
  Nat.le_trans (nminL_le (nmaxL_mem h)) (Nat.le_refl _)

/-! ### mode swaps and groups -/

theorem addSwaps_ok {n : Nat} (b : Backend) {ys xs : List Rat} (herald : List Nat) {σ : Dict}
    (hy : ys.length = n) (hx : xs.length = n) (hσ : ∀ m ∈ σ.keys ++ σ.vals, m < n) :
    OkLen n (addSwaps b ys herald xs σ) := by
  unfold addSwaps
  split
  · exact OkLen.ok hx
  · rename_i hne
    have hk : σ.keys ≠ [] := by
      intro h
      apply hne
      cases σ with
      | nil => rfl
      | cons p ps => simp [Dict.keys] at h
    have hlohi := nminL_le_nmaxL hk
    have hhi : nmaxL σ.keys < n := hσ _ (List.mem_append_left _ (nmaxL_mem hk))
    dsimp only
    rw [maxE_ok (slice_ne_nil (by omega) (by omega))]
    simp only [ok_bind]
    rw [readAll_ok (by
      intro i hi
      obtain ⟨p, hp, hip⟩ := List.mem_flatMap.mp hi
      have hp' := (List.mem_filter.mp hp).1
      have hpb : p.1 < ys.length ∧ p.2 < ys.length := by
        rcases List.mem_append.mp hp' with h | h
        · constructor
          · have := hσ p.1 (List.mem_append_left _ (List.mem_map.mpr ⟨p, h, rfl⟩)); omega
          · have := hσ p.2 (List.mem_append_right _ (List.mem_map.mpr ⟨p, h, rfl⟩)); omega
        · obtain ⟨m, hm, rfl⟩ := List.mem_map.mp h
          have := mem_span.mp (List.mem_filter.mp hm).1
          constructor <;> simp only <;> omega
      simp only [List.mem_cons, List.not_mem_nil, or_false] at hip
      rcases hip with rfl | rfl
      · exact hpb.1
      · exact hpb.2)]
    simp only [ok_bind]
    rw [readAll_ok (by
      intro i hi
      have := mem_span.mp (List.mem_filter.mp hi).1
      omega)]
    simp only [ok_bind]
    have := writeAll_ok (l := xs) (maxL (slice xs (nminL σ.keys) (nmaxL σ.keys + 1)) +
      b.swapW (nminL σ.keys) (nmaxL σ.keys)) (is := span (nminL σ.keys) (nmaxL σ.keys)) (by
      intro i hi
      have := mem_span.mp hi
      omega)
    rwa [hx] at this

theorem addGroup_ok {n : Nat} (b : Backend) {ys xs : List Rat} (herald : List Nat) {m1 m2 : Nat}
    {hin hout : Dict} (hy : ys.length = n) (hx : xs.length = n) (h1 : m1 < n) (h2 : m2 < n)
    (hh : ∀ k ∈ hin.keys ++ hout.keys, k + min m1 m2 < n) :
    OkLen n (addGroup b ys herald xs m1 m2 hin hout) := by
  unfold addGroup
  obtain ⟨a, ha⟩ := getE_ok (l := ys) (i := max m1 m2) (by omega)
  obtain ⟨c, hc⟩ := getE_ok (l := ys) (i := min m1 m2) (by omega)
  simp only [ha, hc, ok_bind]
  obtain ⟨xs', hxs', hl⟩ := addSpan_ok (ys := ys) (xs := xs) herald (lo := min m1 m2) (hi := max m1 m2)
    (b.boxW + 2 * (if (!hin.isEmpty || !hout.isEmpty) = true then b.extra else 0)) hy hx
    (by omega) (by omega)
  simp only [hxs', ok_bind]
  unfold addHeralds
  rw [readAll_ok (by
    intro i hi
    rcases List.mem_append.mp hi with h | h
    · obtain ⟨k, hk, rfl⟩ := List.mem_map.mp h
      have := hh k (List.mem_append_left _ hk); omega
    · obtain ⟨k, hk, rfl⟩ := List.mem_map.mp h
      have := hh k (List.mem_append_right _ hk); omega)]
  simp only [ok_bind, pure_eq_ok]
  exact OkLen.ok hl

/-- INDEX SAFETY, one component: on location arrays of length `n` every `_add_*` of both
back-ends stays in range, takes `max()` over a non-empty slice, and hands back an array of length
`n`, provided the component satisfies `CompOk n`. -/
theorem addComp_ok {n : Nat} (b : Backend) (dl : Bool) {ys xs : List Rat} (herald : List Nat)
    (comp : Comp K) (hy : ys.length = n) (hx : xs.length = n) (hc : CompOk n comp) :
    OkLen n (addComp b dl ys herald xs comp) := by
  cases comp with
  | prim p =>
    cases p with
    | bs m1 m2 c s cv => exact addBs_ok b herald hy hx hc.1 hc.2.1
    | ps m p => exact addPs_ok b hy hx hc
    | loss m a c =>
      simp only [addComp]
      split
      · exact addPs_ok b hy hx hc
      · exact OkLen.ok hx
    | barrier ms =>
      cases b with
      | svg => exact addBarrierSvg_ok hy hx hc
      | mpl => exact addBarrierMpl_ok hy hx hc
    | swaps σ => exact addSwaps_ok b herald hy hx hc
    | unitary m u => exact addUnitary_ok b herald hy hx hc.1 hc.2
  | group cs m1 m2 hin hout => exact addGroup_ok b herald hy hx hc.1 hc.2.1 hc.2.2

theorem foldlM_addComp_ok {n : Nat} (b : Backend) (dl : Bool) {ys : List Rat} (herald : List Nat)
    (spec : List (Comp K)) {xs : List Rat} (hy : ys.length = n) (hx : xs.length = n)
    (hc : ∀ comp ∈ spec, CompOk n comp) :
    OkLen n (spec.foldlM (addComp b dl ys herald) xs) := by
  induction spec generalizing xs with
  | nil => exact OkLen.ok hx
  | cons comp rest ih =>
    obtain ⟨xs', h', hl⟩ := addComp_ok b dl herald comp hy hx (hc comp (List.mem_cons_self ..))
    rw [List.foldlM_cons, h']
    simp only [ok_bind]
    exact ih hl fun c hc' => hc c (List.mem_cons_of_mem _ hc')


/-! ### y locations and mode labels -/

theorem ysGo_length (dy dys : Rat) (herald : List Nat) (k i : Nat) (y : Rat) :
    (ysGo dy dys herald k i y).length = k := by
  induction k generalizing i y with
  | zero => rfl
  | succ k ih => simp [ysGo, ih]

theorem ysOf_length (y0 dy dys : Rat) (herald : List Nat) (n : Nat) :
    (ysOf y0 dy dys herald n).length = n := ysGo_length ..

/-- number of non-herald modes among `i, …, i + k - 1` -/
def nfree (herald : List Nat) (i k : Nat) : Nat :=
  ((List.range' i k).filter fun j => !herald.contains j).length

theorem nfree_succ_of_mem {herald : List Nat} {i : Nat} (k : Nat) (h : herald.contains i = true) :
    nfree herald i (k + 1) = nfree herald (i + 1) k := by
  have hm : i ∈ herald := by simpa using h
  simp [nfree, List.range'_succ, hm]

theorem nfree_succ_of_not_mem {herald : List Nat} {i : Nat} (k : Nat)
    (h : herald.contains i = false) :
    nfree herald i (k + 1) = nfree herald (i + 1) k + 1 := by
  have hm : i ∉ herald := by simpa using h
  simp [nfree, List.range'_succ, hm]

theorem fullLabels_ok (herald : List Nat) (labels : List String) (k i cnt : Nat)
    (h : cnt + nfree herald i k ≤ labels.length) :
    ∃ full, fullLabels herald labels k i cnt = .ok full ∧ full.length = k := by
  induction k generalizing i cnt with
  | zero => exact ⟨[], rfl, rfl⟩
  | succ k ih =>
    unfold fullLabels
    cases hc : herald.contains i with
    | true =>
      rw [nfree_succ_of_mem k hc] at h
      obtain ⟨rest, hr, hl⟩ := ih (i + 1) cnt h
      refine ⟨"-" :: rest, ?_, by simp [hl]⟩
      simp [hr]
    | false =>
      rw [nfree_succ_of_not_mem k hc] at h
      have hlt : cnt < labels.length := by omega
      obtain ⟨rest, hr, hl⟩ := ih (i + 1) (cnt + 1) (by omega)
      refine ⟨labels[cnt] :: rest, ?_, by simp [hl]⟩
      simp [List.getElem?_eq_getElem hlt, hr]

theorem filter_ne_length {M : List Nat} {a : Nat} (h : a ∈ M) :
    (M.filter fun j => j != a).length + 1 ≤ M.length := by
  induction M with
  | nil => cases h
  | cons x xs ih =>
    by_cases hx : x = a
    · subst hx
      have := List.length_filter_le (fun j => j != x) xs
      simp
      omega
    · have hmem : a ∈ xs := by
        rcases List.mem_cons.mp h with h | h
        · exact absurd h.symm hx
        · exact h
      have := ih hmem
      simp [hx]
      omega

theorem free_count (L herald : List Nat) (hn : herald.Nodup) (hs : ∀ a ∈ herald, a ∈ L) :
    (L.filter fun j => !herald.contains j).length + herald.length ≤ L.length := by
  induction herald with
  | nil => simpa using List.length_filter_le _ L
  | cons a h' ih =>
    have hn' := List.nodup_cons.mp hn
    have ih' := ih hn'.2 fun x hx => hs x (List.mem_cons_of_mem _ hx)
    have hmem : a ∈ L.filter fun j => !h'.contains j := by
      refine List.mem_filter.mpr ⟨hs a (List.mem_cons_self ..), ?_⟩
      simpa using hn'.1
    have hlen := filter_ne_length hmem
    have heq : (L.filter fun j => !(a :: h').contains j) =
        (L.filter fun j => !h'.contains j).filter fun j => j != a := by
      rw [List.filter_filter]
      apply List.filter_congr
      intro x _
      simp only [List.contains_cons, Bool.not_or, bne]
    rw [heq, List.length_cons]
    omega

theorem nfree_bound {herald : List Nat} {n : Nat} (hn : herald.Nodup) (hl : ∀ a ∈ herald, a < n) :
    nfree herald 0 n + herald.length ≤ n := by
  have := free_count (List.range' 0 n) herald hn (by
    intro a ha
    rw [List.mem_range'_1]
    have := hl a ha
    omega)
  simpa [nfree] using this

/-- the label block succeeds exactly when no label list, or one of the right length, is given -/
theorem modeLabels_good {n : Nat} {herald : List Nat} (labels : Option (List String))
    (hn : herald.Nodup) (hl : ∀ a ∈ herald, a < n)
    (hgood : ∀ l, labels = some l → l.length = n - herald.length) :
    ∃ full, modeLabels n herald labels = .ok full ∧ full.length = n := by
  have hb := nfree_bound hn hl
  unfold modeLabels
  cases labels with
  | none =>
    simp only [pure_eq_ok, ok_bind]
    exact fullLabels_ok herald _ n 0 0 (by simp; omega)
  | some l =>
    have := hgood l rfl
    simp only [this, ne_eq, not_true_eq_false, if_false, pure_eq_ok, ok_bind]
    exact fullLabels_ok herald _ n 0 0 (by omega)

theorem modeLabels_bad {n : Nat} {herald : List Nat} {l : List String}
    (h : l.length ≠ n - herald.length) : modeLabels n herald (some l) = .error .display := by
  unfold modeLabels
  simp only [h, ne_eq, not_false_eq_true, if_true]
  rfl


/-! ### the whole drawing -/

theorem ne_nil_of_length_pos {α : Type} {l : List α} (h : 0 < l.length) : l ≠ [] := by
  intro h'; rw [h'] at h; exact Nat.lt_irrefl 0 h

theorem drawBody_ok (b : Backend) (c : Circ K) (dl : Bool) {ys : List Rat} (x0 : Rat)
    (hw : WF c) (hy : ys.length = c.n) : OkLen c.n (drawBody b c dl ys x0 addComp) := by
  unfold drawBody
  dsimp only
  -- external input heralds
  have h1 : OkLen c.n (inputStubs b c.internal ys (List.replicate c.n x0) c.extIn) := by
    unfold inputStubs
    split
    · exact OkLen.ok (by simp)
    · rw [readAll_ok (by
        intro i hi
        have := List.mem_range.mp (List.mem_filter.mp hi).1
        simp at this
        omega)]
      exact OkLen.ok (by simp [bumpUser])
  obtain ⟨xs1, e1, l1⟩ := h1
  rw [e1]
  simp only [ok_bind]
  -- components
  obtain ⟨xs2, e2, l2⟩ := foldlM_addComp_ok b dl c.internal c.spec hy l1 hw.compOk
  rw [e2]
  simp only [ok_bind]
  rw [maxE_ok (ne_nil_of_length_pos (by rw [l2]; exact hw.pos))]
  simp only [ok_bind]
  rw [readAll_ok (by
    intro i hi
    have := List.mem_range.mp (List.mem_filter.mp hi).1
    omega)]
  simp only [ok_bind]
  unfold addHeralds
  rw [readAll_ok (by
    intro i hi
    rcases List.mem_append.mp hi with h | h
    · have := hw.extInLt i h; omega
    · have := hw.extOutLt i h; omega)]
  simp only [ok_bind, pure_eq_ok]
  exact OkLen.ok (by simp [extendUser, l2])

/-- the options that the label block accepts -/
def GoodLabels (c : Circ K) (o : Opts) : Prop :=
  ∀ l, o.labels = some l → l.length = c.n - c.internal.length

theorem drawSvg_good (c : Circ K) (o : Opts) (hw : WF c) (hg : GoodLabels c o) :
    ∃ out, drawSvg c o = .ok out := by
  unfold drawSvg drawSvgWith
  dsimp only
  obtain ⟨full, ef, lf⟩ := modeLabels_good (n := c.n) o.labels hw.intNodup hw.intLt hg
  rw [ef]
  simp only [ok_bind]
  rw [nmaxE_ok (ne_nil_of_length_pos (by rw [List.length_map, lf]; exact hw.pos))]
  simp only [ok_bind]
  have hy := ysOf_length 125 125 75 c.internal c.n
  rw [readAll_ok (by intro i hi; have := List.mem_range.mp hi; omega)]
  simp only [ok_bind]
  obtain ⟨xs, ex, lx⟩ := drawBody_ok .svg c o.displayLoss
    (100 + (if nmaxL (full.map String.length) > 4
      then ((nmaxL (full.map String.length) - 4 : Nat) : Rat) * (35 / 2) else 0) + 50) hw hy
  rw [ex]
  simp only [ok_bind]
  rw [maxE_ok (ne_nil_of_length_pos (by rw [List.length_map, lx]; exact hw.pos)),
    ok_bind, maxE_ok (ne_nil_of_length_pos (by rw [hy]; exact hw.pos)), ok_bind,
    readAll_ok (by intro i hi; have := List.mem_range.mp hi; omega)]
  exact ⟨_, rfl⟩

theorem drawSvg_bad (c : Circ K) (o : Opts) {l : List String} (hl : o.labels = some l)
    (hb : l.length ≠ c.n - c.internal.length) : drawSvg c o = .error .display := by
  unfold drawSvg drawSvgWith
  dsimp only
  rw [hl, modeLabels_bad hb]
  rfl

theorem drawMpl_body (c : Circ K) (o : Opts) (hw : WF c) :
    ∃ w h, drawMpl c o = (do
      let labels ← modeLabels c.n c.internal o.labels
      return { width := w + 1 / 2, height := h + 1, ys := ysOf 0 1 (3 / 5) c.internal c.n,
               labels := labels }) := by
  unfold drawMpl drawMplWith
  dsimp only
  have hy := ysOf_length 0 1 (3 / 5) c.internal c.n
  obtain ⟨xs, ex, lx⟩ := drawBody_ok .mpl c o.displayLoss (1 / 2) hw hy
  rw [ex]
  simp only [ok_bind]
  rw [maxE_ok (ne_nil_of_length_pos (by rw [lx]; exact hw.pos)), ok_bind,
    maxE_ok (ne_nil_of_length_pos (by rw [hy]; exact hw.pos)), ok_bind]
  exact ⟨_, _, rfl⟩

theorem drawMpl_good (c : Circ K) (o : Opts) (hw : WF c) (hg : GoodLabels c o) :
    ∃ out, drawMpl c o = .ok out := by
  obtain ⟨w, h, e⟩ := drawMpl_body c o hw
  obtain ⟨full, ef, -⟩ := modeLabels_good (n := c.n) o.labels hw.intNodup hw.intLt hg
  rw [e, ef]
  exact ⟨_, rfl⟩

theorem drawMpl_bad (c : Circ K) (o : Opts) (hw : WF c) {l : List String} (hl : o.labels = some l)
    (hb : l.length ≠ c.n - c.internal.length) : drawMpl c o = .error .display := by
  obtain ⟨w, h, e⟩ := drawMpl_body c o hw
  rw [e, hl, modeLabels_bad hb]
  rfl

theorem not_bad_iff (c : Circ K) (o : Opts) :
    ¬ BadOpts c o ↔ (o.dtype = "svg" ∨ o.dtype = "mpl") ∧ GoodLabels c o := by
  unfold BadOpts GoodLabels
  constructor
  · intro h
    refine ⟨?_, ?_⟩
    · by_cases h1 : o.dtype = "svg"
      · exact Or.inl h1
      · by_cases h2 : o.dtype = "mpl"
        · exact Or.inr h2
        · exact absurd (Or.inl ⟨h1, h2⟩) h
    · intro l hl
      by_cases h3 : l.length = c.n - c.internal.length
      · exact h3
      · exact absurd (Or.inr ⟨l, hl, h3⟩) h
  · rintro ⟨h1, h2⟩ (⟨h3, h4⟩ | ⟨l, hl, h5⟩)
    · rcases h1 with h1 | h1
      · exact h3 h1
      · exact h4 h1
    · exact h5 (h2 l hl)

/-- TOTALITY: valid options on a circuit satisfying the invariant give a drawing -/
theorem display_good (c : Circ K) (o : Opts) (hw : WF c) (hg : ¬ BadOpts c o) :
    ∃ out, display c o = .ok out := by
  obtain ⟨ht, hl⟩ := (not_bad_iff c o).mp hg
  unfold display
  by_cases hm : o.dtype = "mpl"
  · rw [if_pos hm]; exact drawMpl_good c o hw hl
  · rw [if_neg hm]
    rcases ht with hs | hm'
    · rw [if_pos hs]; exact drawSvg_good c o hw hl
    · exact absurd hm' hm

/-- REJECTION: an unknown display type or a label list of the wrong length gives `DisplayError` -/
theorem display_bad (c : Circ K) (o : Opts) (hw : WF c) (hb : BadOpts c o) :
    display c o = .error .display := by
  unfold display
  by_cases hm : o.dtype = "mpl"
  · rw [if_pos hm]
    rcases hb with ⟨-, h2⟩ | ⟨l, hl, h3⟩
    · exact absurd hm h2
    · exact drawMpl_bad c o hw hl h3
  · rw [if_neg hm]
    by_cases hs : o.dtype = "svg"
    · rw [if_pos hs]
      rcases hb with ⟨h1, -⟩ | ⟨l, hl, h3⟩
      · exact absurd hs h1
      · exact drawSvg_bad c o hl h3
    · rw [if_neg hs]

theorem display_options_decision (c : Circ K) (o : Opts) (hw : WF c) :
    display c o = .error .display ↔ BadOpts c o := by
  constructor
  · intro h
    by_cases hb : BadOpts c o
    · exact hb
    · obtain ⟨out, e⟩ := display_good c o hw hb
      rw [e] at h
      cases h
  · exact display_bad c o hw

theorem display_only_display_error (c : Circ K) (o : Opts) (hw : WF c) (e : Err)
    (h : display c o = .error e) : e = .display := by
  by_cases hb : BadOpts c o
  · rw [display_bad c o hw hb] at h
    cases h; rfl
  · obtain ⟨out, e'⟩ := display_good c o hw hb
    rw [e'] at h
    cases h


theorem display_ne_index_error (c : Circ K) (o : Opts) (hw : WF c) :
    display c o ≠ .error .other := by
  intro h
  exact absurd (display_only_display_error c o hw _ h) (by decide)

theorem display_ne_value_error (c : Circ K) (o : Opts) (hw : WF c) :
    display c o ≠ .error .value := by
  intro h
  exact absurd (display_only_display_error c o hw _ h) (by decide)

theorem F12_pinned :
    WF ({ n := 2, spec := [.prim (.barrier [])] } : Circ Nat) ∧
    displayPinned ({ n := 2, spec := [.prim (.barrier [])] } : Circ Nat) {} = .error .value ∧
    ∃ out, display ({ n := 2, spec := [.prim (.barrier [])] } : Circ Nat) {} = .ok out :=
  ⟨by decide, rfl, display_good _ _ (by decide) (by
    rw [not_bad_iff]; exact ⟨Or.inl rfl, fun l hl => by cases hl⟩)⟩

theorem zero_mode :
    display (Circ.new 0 : Circ Nat) {} = .error .value ∧
    display (Circ.new 0 : Circ Nat) { dtype := "mpl" } = .error .value :=
  ⟨rfl, rfl⟩

/-! ### from the bookkeeping invariant of C02 to `Disp.WF` -/

/-- modes a leaf component reads or writes (copy of `Prim.modes`, LW/Proofs/CircInv.lean) -/
def primModes : Prim K → List Nat
  | .bs m1 m2 .. => [m1, m2]
  | .ps m _ => [m]
  | .loss m .. => [m]
  | .barrier ms => ms
  | .swaps σ => σ.keys ++ σ.vals
  | .unitary m u => (List.range u.n).map (· + m)

/-- copy of `Comp.modes` -/
def compModes : Comp K → List Nat
  | .prim p => primModes p
  | .group cs .. => cs.flatMap primModes

/-- what the drawing needs of a spec entry beyond "its modes are modes of the circuit": a unitary
block is not 0×0; a beam splitter acts on two different modes; the box of a group and the heralds it shows lie inside the circuit -/
def ShapeOk (n : Nat) : Comp K → Prop
  | .prim (.bs m1 m2 ..) => m1 ≠ m2
  | .prim (.unitary _ u) => 0 < u.n
  | .group _ m1 m2 hin hout => m1 < n ∧ m2 < n ∧ ∀ k ∈ hin.keys ++ hout.keys, k + min m1 m2 < n
  | _ => True

theorem compOk_of_modes {n : Nat} (comp : Comp K) (hm : ∀ m ∈ compModes comp, m < n)
    (hs : ShapeOk n comp) : CompOk n comp := by
  cases comp with
  | prim p =>
    cases p with
    | bs m1 m2 c s cv => exact ⟨hm m1 (by simp [compModes, primModes]), hm m2 (by simp [compModes, primModes]), hs⟩
    | ps m p => exact hm m (by simp [compModes, primModes])
    | loss m a c => exact hm m (by simp [compModes, primModes])
    | barrier ms => exact fun m h => hm m h
    | swaps σ => exact fun m h => hm m h
    | unitary m u =>
      have hpos : 0 < u.n := hs
      refine ⟨hpos, ?_⟩
      have := hm (u.n - 1 + m) (by
        simp only [compModes, primModes, List.mem_map, List.mem_range]
        exact ⟨u.n - 1, by omega, rfl⟩)
      omega
  | group cs m1 m2 hin hout => exact hs

theorem mem_keys_of_get?_isSome {d : Dict} {k : Nat} (h : (d.get? k).isSome) : k ∈ d.keys := by
  unfold Dict.get? at h
  rw [Option.isSome_map, List.find?_isSome] at h
  obtain ⟨p, hp, hk⟩ := h
  exact List.mem_map.mpr ⟨p, hp, by simpa using hk⟩

/-- `Disp.WF` from the hypotheses of C02's `Circ.WF` (first four, copied verbatim up to the
`isSome` half of `intHer`) plus the facts `Circ.WF` does not record. -/
theorem wf_of_bookkeeping (c : Circ K)
    (inLt : ∀ k ∈ c.inHer.keys, k < c.n)
    (intNodup : c.internal.Nodup)
    (intHer : ∀ a ∈ c.internal, (c.inHer.get? a).isSome)
    (modesLt : ∀ comp ∈ c.spec, ∀ m ∈ compModes comp, m < c.n)
    (pos : 0 < c.n)
    (extInLt : ∀ k ∈ c.extIn.keys, k < c.n)
    (extOutLt : ∀ k ∈ c.extOut.keys, k < c.n)
    (shape : ∀ comp ∈ c.spec, ShapeOk c.n comp) : WF c :=
  { pos := pos
    intNodup := intNodup
    intLt := fun a ha => inLt a (mem_keys_of_get?_isSome (intHer a ha))
    extInLt := extInLt
    extOutLt := extOutLt
    compOk := fun comp hc => compOk_of_modes comp (modesLt comp hc) (shape comp hc) }

/-! ### no side effects -/

theorem displayStep_pool {h h' : Heap K} {id : String} {o : Opts} {r : Except Err Out}
    (hs : displayStep h id o = some (h', r)) : h' = h := by
  unfold displayStep at hs
  cases hg : h.get? id with
  | none => simp [hg] at hs
  | some c =>
    simp only [hg, Option.map_some, Option.some.injEq, Prod.mk.injEq] at hs
    exact hs.1.symm

end LW.Disp
