/-
  LW.Proofs.C19AddFull — `Circuit.add` (and `unpack_groups`) carry the invariant `Built`, hence
  `Disp.WF`: whatever is built by additions — grouped or not, with heralds anywhere, onto parents
  that already hold ancilla modes, at any nesting — can be displayed.
-/
import LW.Proofs.C19Built

namespace LW.Disp

open LW

variable {K : Type}

theorem built_append_spec {c : Circ K} (hb : Built c) (l : List (Comp K))
    (hl : ∀ comp ∈ l, CompOk c.n comp ∧ InnerOk c.n comp) :
    Built { c with spec := c.spec ++ l } :=
  { wf := wf_append_spec hb.wf l (fun comp hc => (hl comp hc).1)
    inNodup := hb.inNodup, inLt := hb.inLt, outLt := hb.outLt
    inner := fun comp hc => by
      rcases List.mem_append.mp hc with h | h
      · exact hb.inner comp h
      · exact (hl comp h).2 }

section
variable [Zero K] [One K]

/-- a new ancilla mode of the parent at position `pos` -/
def insertAncilla (s : Circ K) (pos : Nat) : Circ K :=
  { (s.addEmptyModeBook pos) with
    spec := Circ.addEmptyModeSpec (s.addEmptyModeBook pos).spec pos,
    internal := (s.addEmptyModeBook pos).internal ++ [pos] }

theorem built_insertAncilla {s : Circ K} (hb : Built s) {pos : Nat} (hp : pos ≤ s.n) :
    Built (insertAncilla s pos) :=
  { wf :=
      { pos := Nat.succ_pos _
        intNodup := by
          show (s.internal.map (bump pos) ++ [pos]).Nodup
          rw [List.nodup_append]
          refine ⟨hb.wf.intNodup.map (bump_injective pos), List.nodup_singleton pos, ?_⟩
          intro a ha b hb'
          rw [List.mem_singleton] at hb'
          subst hb'
          obtain ⟨x, _, rfl⟩ := List.mem_map.mp ha
          exact bump_ne b x
        intLt := by
          intro a ha
          show a < s.n + 1
          rcases List.mem_append.mp ha with h | h
          · obtain ⟨x, hx, rfl⟩ := List.mem_map.mp h
            exact bump_lt (hb.wf.intLt x hx)
          · rw [List.mem_singleton] at h; omega
        extInLt := bumpDict_keys_lt pos hb.wf.extInLt
        extOutLt := bumpDict_keys_lt pos hb.wf.extOutLt
        compOk := by
          intro comp hc
          obtain ⟨x, hx, rfl⟩ := List.mem_map.mp hc
          exact compOk_addEmptyMode pos x (hb.wf.compOk x hx) }
    inNodup := (Dict.ofPairs_inv (Q := fun _ => True) _ (fun _ _ => trivial)).1
    inLt := bumpDict_keys_lt pos hb.inLt
    outLt := bumpDict_keys_lt pos hb.outLt
    inner := by
      intro comp hc
      obtain ⟨x, hx, rfl⟩ := List.mem_map.mp hc
      exact innerOk_addEmptyMode pos x (hb.inner x hx) }

theorem built_fold_ancillas (mode N : Nat) (ms : List Nat) (s : Circ K) (hb : Built s)
    (hs : ms.Pairwise (· < ·)) (hl : ∀ x ∈ ms, x < N) (hn : mode + N ≤ s.n + ms.length) :
    Built (ms.foldl (fun s m => insertAncilla s (mode + m)) s) ∧
      (ms.foldl (fun s m => insertAncilla s (mode + m)) s).n = s.n + ms.length := by
  induction ms generalizing s with
  | nil => exact ⟨hb, rfl⟩
  | cons m rest ih =>
    rw [List.foldl_cons]
    have hbound := strict_head_bound hs hl
    have hpos : mode + m ≤ s.n := by simp only [List.length_cons] at hn; omega
    have := ih (insertAncilla s (mode + m)) (built_insertAncilla hb hpos)
      (List.pairwise_cons.mp hs).2 (fun x hx => hl x (List.mem_cons_of_mem _ hx))
      (by show mode + N ≤ s.n + 1 + rest.length; simp only [List.length_cons] at hn; omega)
    refine ⟨this.1, ?_⟩
    rw [this.2]
    show s.n + 1 + rest.length = s.n + (rest.length + 1)
    omega

end

theorem built_set_heralds {s : Circ K} (hb : Built s) {k v : Nat} (hk : k < s.n) :
    Built { s with inHer := s.inHer.set k v, outHer := s.outHer.set k v } :=
  { wf := { pos := hb.wf.pos, intNodup := hb.wf.intNodup, intLt := hb.wf.intLt,
            extInLt := hb.wf.extInLt, extOutLt := hb.wf.extOutLt, compOk := hb.wf.compOk },
    inNodup := (Dict.set_inv (Q := fun _ => True) hb.inNodup (fun _ _ => trivial) trivial).1,
    inLt := keys_set_lt hb.inLt hk,
    outLt := keys_set_lt hb.outLt hk,
    inner := hb.inner }

/-- one step of the herald loop at the end of `add` -/
def setHerald (mode : Nat) (s : Circ K) (p : Nat × Nat) : Circ K :=
  { s with inHer := s.inHer.set (p.1 + mode) p.2, outHer := s.outHer.set (p.1 + mode) p.2 }

theorem built_fold_heralds (mode : Nat) (hs : Dict) (s : Circ K) (hb : Built s)
    (hl : ∀ p ∈ hs, p.1 + mode < s.n) :
    Built (hs.foldl (setHerald mode) s) ∧ (hs.foldl (setHerald mode) s).n = s.n ∧
      (hs.foldl (setHerald mode) s).spec = s.spec := by
  induction hs generalizing s with
  | nil => exact ⟨hb, rfl, rfl⟩
  | cons p rest ih =>
    rw [List.foldl_cons]
    have := ih (setHerald mode s p) (built_set_heralds (v := p.2) hb (hl p (List.mem_cons_self ..)))
      (fun q hq => hl q (List.mem_cons_of_mem _ hq))
    exact ⟨this.1, this.2.1, this.2.2⟩

/-! ### pass-through modes of the added circuit -/

/-- what is kept true of the added circuit and its spec while pass-through modes are inserted -/
structure SubOk (nHer : Nat) (st : Circ.AddSt K) : Prop where
  pos : 0 < st.sub.n
  inNodup : st.sub.inHer.keys.Nodup
  inLt : ∀ k ∈ st.sub.inHer.keys, k < st.sub.n
  len : st.sub.inHer.length = nHer
  spec : ∀ comp ∈ st.spec, CompOk st.sub.n comp ∧ InnerOk st.sub.n comp

section
variable [Zero K] [One K]

theorem subOk_step {nHer : Nat} {st : Circ.AddSt K} (h : SubOk nHer st) (t : Nat) :
    SubOk nHer ⟨st.sub.addEmptyModeBook t, Circ.addEmptyModeSpec st.spec t⟩ :=
  { pos := Nat.succ_pos _
    inNodup := (Dict.ofPairs_inv (Q := fun _ => True) _ (fun _ _ => trivial)).1
    inLt := bumpDict_keys_lt t h.inLt
    len := by
      show (bumpDict t st.sub.inHer).length = nHer
      rw [bumpDict_eq t h.inNodup, List.length_map]; exact h.len
    spec := by
      intro comp hc
      obtain ⟨x, hx, rfl⟩ := List.mem_map.mp hc
      exact ⟨compOk_addEmptyMode t x (h.spec x hx).1, innerOk_addEmptyMode t x (h.spec x hx).2⟩ }

theorem subOk_fold {nHer : Nat} (step : Circ.AddSt K → Nat → Circ.AddSt K)
    (hstep : ∀ st i, step st i = st ∨
      ∃ t, step st i = ⟨st.sub.addEmptyModeBook t, Circ.addEmptyModeSpec st.spec t⟩)
    (is : List Nat) (st : Circ.AddSt K) (h : SubOk nHer st) : SubOk nHer (is.foldl step st) := by
  induction is generalizing st with
  | nil => exact h
  | cons i rest ih =>
    rw [List.foldl_cons]
    apply ih
    rcases hstep st i with e | ⟨t, e⟩
    · rw [e]; exact h
    · rw [e]; exact subOk_step h t

/-- `Circuit.add` carries the invariant: if the parent and the added circuit satisfy `Built`, so
does the parent after an accepted addition (grouped or not, heralded or not, onto existing
ancilla modes or not). -/
theorem built_add {self sub self' : Circ K} {mode : Int} {g : Bool} (hs : Built self)
    (hc : Built sub) (h : self.add sub mode g = .ok self') : Built self' := by
  unfold Circ.add at h
  cases hm : self.modeInRange (self.mapMode mode) with
  | error e => simp [hm, bind, Except.bind] at h
  | ok m =>
    have hm1 : m < self.n := modeInRange_lt hm
    simp -zeta only [bind, Except.bind] at h
    extract_lets modeI cc gr c1 spec0 nHer prov swaps spec1 at h
    rw [show self.modeInRange modeI = .ok m from hm] at h
    dsimp -zeta only at h
    extract_lets st c2 spec2 s1 s2 addCs jp2 jp1 at h
    by_cases hc1 : m + c1.n - nHer > self.n
    · rw [if_pos hc1] at h
      simp [throw, throwThe, MonadExceptOf.throw] at h
    · rw [if_neg hc1] at h
      dsimp -zeta only [jp1] at h
      by_cases hc2 : m + c2.n - nHer > self.n
      · rw [if_pos hc2] at h
        simp [throw, throwThe, MonadExceptOf.throw] at h
      · rw [if_neg hc2] at h
        dsimp -zeta only [jp2] at h
        -- the added circuit (unpacked when it is grouped)
        have hb1 : Built c1 := by
          show Built (if gr = true then cc else sub)
          split
          · exact built_unpack hc
          · exact hc
        -- the synthesised swaps
        have hzip : ∀ p ∈ c1.outHer.keys.zip c1.inHer.keys, p.1 < c1.n ∧ p.2 < c1.n := by
          intro p hp
          have := List.of_mem_zip (a := p.1) (b := p.2) hp
          exact ⟨hb1.outLt _ this.1, hb1.inLt _ this.2⟩
        have hprov := Dict.ofPairs_inv (Q := fun k => k < c1.n) (c1.outHer.keys.zip c1.inHer.keys)
          (fun p hp => (hzip p hp).1)
        have hprovv := ofPairs_vals_inv (Q := fun k => k < c1.n) (c1.outHer.keys.zip c1.inHer.keys)
          (fun p hp => (hzip p hp).2)
        have hsw : CompOk c1.n (Comp.prim (Prim.swaps swaps) : Comp K) :=
          synthSwaps_lt prov hprov.1 hprov.2 hprovv
        have hspec0 : ∀ comp ∈ spec0, CompOk c1.n comp ∧ InnerOk c1.n comp :=
          fun comp hcm => ⟨hb1.wf.compOk comp hcm, hb1.inner comp hcm⟩
        have hspec1 : ∀ comp ∈ spec1, CompOk c1.n comp ∧ InnerOk c1.n comp := by
          show ∀ comp ∈ (if (swaps.keys != swaps.vals) = true
            then spec0 ++ [Comp.prim (Prim.swaps swaps)] else spec0), _
          split
          · intro comp hcm
            rcases List.mem_append.mp hcm with h1 | h1
            · exact hspec0 comp h1
            · rw [List.mem_singleton] at h1
              subst h1
              refine ⟨hsw, ?_⟩
              intro p hp
              simp only [Comp.toPrims, List.mem_singleton] at hp
              subst hp; exact hsw
          · exact hspec0
        -- pass-through modes
        have hst0 : SubOk nHer (⟨c1, spec1⟩ : Circ.AddSt K) :=
          { pos := hb1.wf.pos, inNodup := hb1.inNodup, inLt := hb1.inLt, len := rfl, spec := hspec1 }
        have hst : SubOk nHer st := by
          refine subOk_fold _ ?_ (sortNat self.internal) _ hst0
          intro st i
          dsimp only
          split
          · exact Or.inr ⟨_, rfl⟩
          · exact Or.inl rfl
        have hc2n : 0 < c2.n := hst.pos
        have hinLt : ∀ k ∈ c2.inHer.keys, k < c2.n := hst.inLt
        have hspec2 : ∀ comp ∈ spec2, CompOk c2.n comp ∧ InnerOk c2.n comp := hst.spec
        have hlen : (sortNat c2.inHer.keys).length = nHer := by
          rw [(sortNat_perm _).length_eq]
          have : c2.inHer.keys.length = c2.inHer.length := by simp [Dict.keys]
          rw [this]; exact hst.len
        have hbound : m + c2.n ≤ self.n + nHer := by omega
        -- new ancilla modes of the parent
        have hs1 := built_fold_ancillas m c2.n (sortNat c2.inHer.keys) self hs
          (sortNat_strict hst.inNodup)
          (fun x hx => hst.inLt x ((sortNat_perm _).mem_iff.mp hx)) (by rw [hlen]; exact hbound)
        have hs1b : Built s1 := hs1.1
        have hs1n : s1.n = self.n + nHer := by rw [← hlen]; exact hs1.2
        -- heralds
        have hs2 := built_fold_heralds m c2.inHer s1 hs1b (by
          intro p hp
          have := hinLt p.1 (mem_keys hp)
          omega)
        have hs2b : Built s2 := hs2.1
        have hs2n : s2.n = self.n + nHer := by rw [← hs1n]; exact hs2.2.1
        have hadd : ∀ comp ∈ addCs, CompOk s2.n comp ∧ InnerOk s2.n comp := by
          intro comp hcm
          obtain ⟨x, hx, rfl⟩ := List.mem_map.mp hcm
          have hx' := hspec2 x hx
          have hle : c2.n + m ≤ s2.n := by omega
          exact ⟨compOk_mono hle _ (compOk_shift m x hx'.1),
            innerOk_mono hle _ (innerOk_shift m x hx'.2)⟩
        split at h
        · simp only [pure, Except.pure, Except.ok.injEq] at h
          subst h
          exact built_append_spec hs2b addCs hadd
        · simp only [pure, Except.pure, Except.ok.injEq] at h
          subst h
          refine built_append_spec hs2b _ ?_
          intro comp hcm
          rw [List.mem_singleton] at hcm
          subst hcm
          refine ⟨⟨by omega, by omega, ?_⟩, ?_⟩
          · intro k hk
            have hk' : k ∈ c2.inHer.keys := by
              rcases List.mem_append.mp hk with h1 | h1 <;> exact h1
            have := hinLt k hk'
            omega
          · intro p hp
            simp only [Comp.toPrims] at hp
            obtain ⟨x, hx, hpx⟩ := List.mem_flatMap.mp hp
            exact (hadd x hx).2 p hpx

end

end LW.Disp
