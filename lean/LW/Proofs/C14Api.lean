/-
  LW.Proofs.C14Api — `Reck.map` through the Circuit construction API: every call is accepted and
  the circuit that results is `mapSpec` with the heralds of the original.
-/
import LW.Proofs.C14Map
import LW.Proofs.C01Api

namespace LW.Proofs.C14

open LW.Reck

variable {K : Type} [CommRing K] [StarRing K]

set_option linter.unusedSectionVars false

/-! ### single construction calls on a circuit without ancillas -/

theorem mapMode_nil {c : Circ K} (h : c.internal = []) (m : Int) : c.mapMode m = m := by
  simp [Circ.mapMode, h, sortNat]

theorem modeInRange_nat {c : Circ K} {m : Nat} (hm : m < c.n) :
    c.modeInRange (m : Int) = .ok m := by
  unfold Circ.modeInRange
  rw [if_pos ⟨by omega, by omega⟩]
  simp

theorem ps_ok {c : Circ K} (h : c.internal = []) {m : Nat} (hm : m < c.n) (p : K) :
    c.ps (m : Int) p none = .ok { c with spec := c.spec ++ [.prim (.ps m p)] } := by
  unfold Circ.ps
  rw [mapMode_nil h, modeInRange_nat hm]
  rfl

theorem bs_ok {c : Circ K} (h : c.internal = []) {m1 m2 : Nat} (h1 : m1 < c.n) (h2 : m2 < c.n)
    (hne : m1 ≠ m2) (cs : K × K) (l : Option (K × K)) :
    c.bs (m1 : Int) (m2 : Int) cs .rx l true true =
      .ok { c with spec := c.spec ++ [.prim (.bs m1 m2 cs.1 cs.2 .rx)] ++
        (match l with
         | none => []
         | some (la, lb) => [.prim (.loss m1 la lb), .prim (.loss m2 la lb)]) } := by
  have : ¬ ((m1 : Int) = (m2 : Int)) := by omega
  cases l with
  | none =>
    simp [Circ.bs, mapMode_nil h, modeInRange_nat h1, modeInRange_nat h2, bind, Except.bind, this,
      pure, Except.pure]
  | some ab =>
    obtain ⟨la, lb⟩ := ab
    simp [Circ.bs, mapMode_nil h, modeInRange_nat h1, modeInRange_nat h2, bind, Except.bind, this,
      pure, Except.pure, List.append_assoc]

theorem mapM_ok_of_forall {α β ε : Type} {f : α → Except ε β} {g : α → β} (l : List α)
    (h : ∀ a ∈ l, f a = .ok (g a)) : l.mapM f = .ok (l.map g) := by
  induction l with
  | nil => rfl
  | cons a rest ih =>
    rw [List.mapM_cons, h a List.mem_cons_self, ih (fun b hb => h b (List.mem_cons_of_mem _ hb))]
    rfl

theorem barrier_ok {c : Circ K} (h : c.internal = []) (ms : List Nat) (hms : ∀ m ∈ ms, m < c.n) :
    c.barrier (some (ms.map Int.ofNat)) = .ok { c with spec := c.spec ++ [.prim (.barrier ms)] } := by
  unfold Circ.barrier
  simp only
  rw [mapM_ok_of_forall (g := fun m : Int => m.toNat)]
  · simp [bind, Except.bind, pure, Except.pure, List.map_map]
    apply List.map_id''
    intro m; simp
  · intro a ha
    obtain ⟨m, hm, rfl⟩ := List.mem_map.mp ha
    rw [mapMode_nil h]
    exact modeInRange_nat (hms m hm)

theorem barrier_none_ok {c : Circ K} (h : c.internal = []) :
    c.barrier none = .ok { c with spec := c.spec ++ [.prim (.barrier (List.range c.n))] } := by
  have := barrier_ok h (List.range c.n) (fun m hm => List.mem_range.mp hm)
  unfold Circ.barrier at this ⊢
  simp only [h, List.length_nil, Nat.sub_zero] at this ⊢
  exact this

/-! ### `phase_map` look-ups -/

theorem lookup_zip (cs : List ((Nat × Nat) × Cell K))
    (hnd : (cs.map fun e => (keyed e).1).Nodup) (e : (Nat × Nat) × Cell K) (he : e ∈ cs) :
    lookup (cs.map keyed) (keyed e).1 = .ok e.2 := by
  induction cs with
  | nil => cases he
  | cons d rest ih =>
    rw [List.map_cons, List.nodup_cons] at hnd
    unfold lookup
    rw [List.map_cons, List.find?_cons]
    rcases List.mem_cons.mp he with rfl | he'
    · simp [keyed]
    · have hne : (keyed d).1 ≠ (keyed e).1 := fun eq =>
        hnd.1 (eq ▸ List.mem_map.mpr ⟨e, he', rfl⟩)
      have : ((keyed d).1 == (keyed e).1) = false := by simpa using hne
      rw [this]
      exact ih hnd.2 he'

theorem steps_nodup (n : Nat) : (steps n).Nodup := by
  unfold steps stepsRow
  rw [List.nodup_flatMap]
  refine ⟨fun a _ => (List.nodup_range).map (fun j j' h => (Prod.mk.inj h).2), ?_⟩
  refine (List.nodup_range).pairwise_of_forall_ne ?_
  intro a _ b _ hab x hx1 hx2
  obtain ⟨j, _, rfl⟩ := List.mem_map.mp hx1
  obtain ⟨j', _, h⟩ := List.mem_map.mp hx2
  exact hab (Prod.mk.inj h).1.symm

theorem keys_nodup (n : Nat) (xs : List (Cell K)) (hlen : (steps n).length ≤ xs.length) :
    (((steps n).zip xs).map fun e => (keyed e).1).Nodup := by
  have h1 : ((steps n).zip xs).map (fun e => (keyed e).1) =
      (((steps n).zip xs).map Prod.fst).map fun aj => (aj.2 + 2 * aj.1, aj.2) := by
    simp [keyed, List.map_map, Function.comp_def]
  rw [h1]
  refine List.Nodup.map ?_ ?_
  · intro a b h
    have := Prod.mk.inj h
    ext <;> omega
  · rw [List.map_fst_zip hlen]; exact steps_nodup n

/-! ### the construction loops -/

/-- a beam-splitter / phase-shifter error model that never produces an out-of-range value -/
def EMFlagsOk (em : EM K) : Prop :=
  ∀ a j, em.refl1Ok a j = true ∧ em.refl2Ok a j = true ∧ em.lossOk a j = true

theorem mapCell_ok (em : EM K) (hem : EMFlagsOk em) {n : Nat} (pm : List (Key × Cell K))
    {c : Circ K} (hn : c.n = n) (hint : c.internal = []) {a j : Nat} (hj : j + 1 < n) {x : Cell K}
    (hl : lookup pm (j + 2 * a, j) = .ok x) :
    mapCell em n pm c (a, j) = .ok { c with spec := c.spec ++ cellSpec em n x a j } := by
  unfold mapCell
  simp only [hl, bind, Except.bind]
  have e1 : (n : Int) - (j : Int) - 2 = ((n - j - 2 : Nat) : Int) := by omega
  have e2 : (n : Int) - (j : Int) - 2 + 1 = ((n - j - 2 + 1 : Nat) : Int) := by omega
  obtain ⟨f1, f2, f3⟩ := hem a j
  rw [e2, e1, f1, f2, f3]
  have hb := barrier_ok (c := c) hint [n - j - 2, n - j - 2 + 1] (by
    intro m hm
    simp at hm
    omega)
  simp only [List.map_cons, List.map_nil, Int.ofNat_eq_natCast] at hb
  rw [hb]
  simp only
  rw [ps_ok (by exact hint) (by simp; omega)]
  simp only
  rw [bs_ok (by exact hint) (by simp; omega) (by simp; omega) (by omega)]
  simp only
  rw [ps_ok (by exact hint) (by simp; omega)]
  simp only
  rw [bs_ok (by exact hint) (by simp; omega) (by simp; omega) (by omega)]
  unfold cellSpec
  cases em.loss a j with
  | none => simp [List.append_assoc]
  | some ab => obtain ⟨la, lb⟩ := ab; simp [List.append_assoc]

theorem foldlM_mapCell (em : EM K) (hem : EMFlagsOk em) {n : Nat} (pm : List (Key × Cell K))
    (cs : List ((Nat × Nat) × Cell K))
    (hcs : ∀ e ∈ cs, e.1.2 + 1 < n ∧ lookup pm (keyed e).1 = .ok e.2)
    (c : Circ K) (hn : c.n = n) (hint : c.internal = []) :
    (cs.map Prod.fst).foldlM (mapCell em n pm) c =
      .ok { c with spec := c.spec ++ cs.flatMap fun e => cellSpec em n e.2 e.1.1 e.1.2 } := by
  induction cs generalizing c with
  | nil => simp [pure, Except.pure]
  | cons e rest ih =>
    obtain ⟨h1, h2⟩ := hcs e List.mem_cons_self
    rw [List.map_cons, List.foldlM_cons, show e.1 = (e.1.1, e.1.2) from rfl,
      mapCell_ok em hem pm hn hint h1 h2]
    simp only [bind, Except.bind]
    rw [ih (fun e' he' => hcs e' (List.mem_cons_of_mem _ he'))
      { c with spec := c.spec ++ cellSpec em n e.2 e.1.1 e.1.2 } hn hint]
    simp [List.append_assoc]

theorem foldlM_mapEnd (em : EM K) {n : Nat} (ends : List K) (hlen : ends.length = n)
    (m : Nat) (hm : m ≤ n) (c : Circ K) (hn : c.n = n) (hint : c.internal = []) :
    (List.range m).foldlM (mapEnd em n ends) c =
      .ok { c with spec := c.spec ++ (List.range m).map (fun k =>
        Comp.prim (Prim.ps (n - k - 1) (ends.getD k 1 * em.offEnd k))) } := by
  induction m with
  | zero => simp [pure, Except.pure]
  | succ m ih =>
    rw [List.range_succ, List.foldlM_append, ih (by omega)]
    simp only [bind, Except.bind, List.foldlM_cons, List.foldlM_nil]
    unfold mapEnd
    have hk : m < ends.length := by omega
    rw [List.getElem?_eq_getElem hk]
    simp only
    have e1 : (n : Int) - (m : Int) - 1 = ((n - m - 1 : Nat) : Int) := by omega
    rw [e1, ps_ok (by exact hint) (by simp; omega)]
    simp [pure, Except.pure, List.append_assoc, List.getD_eq_getElem?_getD, List.getElem?_eq_getElem hk]

/-! ### heralds -/

/-- the herald dictionaries `Reck.map` reads are those of a circuit: paired in declaration order
with equal photon numbers, distinct modes inside the circuit -/
structure HeraldsOk (n : Nat) (inHer outHer : Dict) : Prop where
  len : inHer.length = outHer.length
  counts : ∀ io ∈ inHer.zip outHer, io.1.2 = io.2.2
  in_nodup : inHer.keys.Nodup
  out_nodup : outHer.keys.Nodup
  in_lt : ∀ k ∈ inHer.keys, k < n
  out_lt : ∀ k ∈ outHer.keys, k < n

theorem set_fresh (d : Dict) (k v : Nat) (h : k ∉ d.keys) : d.set k v = d ++ [(k, v)] := by
  unfold Dict.set
  have : d.contains k = false := by
    rw [Bool.eq_false_iff]
    intro hc
    exact h (Dict.contains_iff.mp hc)
  rw [this]
  simp

theorem foldlM_mapHerald {n : Nat} (li lo : Dict) (c : Circ K) (hn : c.n = n)
    (hint : c.internal = []) (hlen : li.length = lo.length)
    (hcount : ∀ io ∈ li.zip lo, io.1.2 = io.2.2)
    (hin : (c.inHer.keys ++ li.keys).Nodup) (hout : (c.outHer.keys ++ lo.keys).Nodup)
    (hil : ∀ k ∈ li.keys, k < n) (hol : ∀ k ∈ lo.keys, k < n) :
    ∃ c', (li.zip lo).foldlM mapHerald c = .ok c' ∧ c'.n = n ∧ c'.spec = c.spec ∧
      c'.internal = [] ∧ c'.inHer = c.inHer ++ li ∧ c'.outHer = c.outHer ++ lo := by
  induction li generalizing lo c with
  | nil =>
    cases lo with
    | nil => exact ⟨c, by simp [pure, Except.pure], hn, rfl, hint, by simp, by simp⟩
    | cons _ _ => simp at hlen
  | cons a li ih =>
    cases lo with
    | nil => simp at hlen
    | cons b lo =>
      have hc := hcount (a, b) (by simp)
      simp only at hc
      rw [List.zip_cons_cons, List.foldlM_cons]
      have hmh : mapHerald c (a, b) = c.herald a.2 (a.1 : Int) (b.1 : Int) := by
        simp [mapHerald, hc]
      rw [hmh]
      have ha : a.1 < c.n := by rw [hn]; exact hil a.1 (by simp [Dict.keys])
      have hb : b.1 < c.n := by rw [hn]; exact hol b.1 (by simp [Dict.keys])
      have hain : a.1 ∉ c.inHer.keys := by
        intro hmem
        have := List.nodup_append.mp hin
        exact this.2.2 _ hmem _ (by simp [Dict.keys]) rfl
      have hbout : b.1 ∉ c.outHer.keys := by
        intro hmem
        have := List.nodup_append.mp hout
        exact this.2.2 _ hmem _ (by simp [Dict.keys]) rfl
      have hci : c.inHer.contains a.1 = false := by
        rw [Bool.eq_false_iff]; intro h; exact hain (Dict.contains_iff.mp h)
      have hco : c.outHer.contains b.1 = false := by
        rw [Bool.eq_false_iff]; intro h; exact hbout (Dict.contains_iff.mp h)
      have hstep : c.herald a.2 (a.1 : Int) (b.1 : Int) =
          .ok { c with inHer := c.inHer ++ [(a.1, a.2)], outHer := c.outHer ++ [(b.1, a.2)],
                       extIn := c.extIn.set a.1 a.2, extOut := c.extOut.set b.1 a.2 } := by
        unfold Circ.herald
        rw [mapMode_nil hint, mapMode_nil hint, modeInRange_nat ha, modeInRange_nat hb]
        simp [bind, Except.bind, hci, hco, pure, Except.pure, set_fresh _ _ _ hain,
          set_fresh _ _ _ hbout]
      rw [hstep]
      simp only [bind, Except.bind]
      have hlen' : li.length = lo.length := by simpa using hlen
      obtain ⟨c', h1, h2, h3, h4, h5, h6⟩ := ih lo
        { c with inHer := c.inHer ++ [(a.1, a.2)], outHer := c.outHer ++ [(b.1, a.2)],
                 extIn := c.extIn.set a.1 a.2, extOut := c.extOut.set b.1 a.2 }
        hn hint hlen'
        (fun io hio => hcount io (by simp [hio]))
        (by
          simp only [Dict.keys, List.map_append, List.map_cons, List.map_nil, List.append_assoc,
            List.cons_append, List.nil_append] at hin ⊢
          exact hin)
        (by
          simp only [Dict.keys, List.map_append, List.map_cons, List.map_nil, List.append_assoc,
            List.cons_append, List.nil_append] at hout ⊢
          exact hout)
        (fun k hk => hil k (by simp [Dict.keys] at hk ⊢; exact Or.inr hk))
        (fun k hk => hol k (by simp [Dict.keys] at hk ⊢; exact Or.inr hk))
      refine ⟨c', h1, h2, h3, h4, ?_, ?_⟩
      · rw [h5]; simp [List.append_assoc]
      · rw [h6, hc]; simp [List.append_assoc]

end LW.Proofs.C14
