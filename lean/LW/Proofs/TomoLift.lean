/-
  LW.Proofs.TomoLift — generic Kronecker lifting of a single-qubit completeness relation, general
  Kronecker entries and index sums used by the process-tomography proofs.
-/
import LW.Proofs.C15Main

open scoped BigOperators

namespace LW.Tomo

variable {K : Type} [Field K] [StarRing K]

set_option linter.unusedSectionVars false

/-- if `Σ_t F_t[x',x]·G_t[c,d] = w·δ_{x'd}·δ_{xc}` on one qubit, then on `k+1` qubits the same
holds for the Kronecker products enumerated by `_combine_all`, with weight `w^(k+1)` -/
theorem complete_lift {τ : Type} (vals : List τ) (F G : τ → Nat → Nat → K) (w : K)
    (h1 : ∀ x' x c d, x' < 2 → x < 2 → c < 2 → d < 2 →
      ((vals.map fun t => F t x' x * G t c d).sum : K) = if x' = d ∧ x = c then w else 0)
    (k : Nat) {a' a c d : Nat}
    (ha' : a' < 2 ^ (k + 1)) (ha : a < 2 ^ (k + 1)) (hc : c < 2 ^ (k + 1)) (hd : d < 2 ^ (k + 1)) :
    (((combos vals k).map fun ts =>
        entryRev (ts.reverse.map F) a' a * entryRev (ts.reverse.map G) c d).sum : K) =
      if a' = d ∧ a = c then w ^ (k + 1) else 0 := by
  induction k generalizing a' a c d with
  | zero =>
    simp only [zero_add, pow_one] at ha' ha hc hd
    simp only [combos, List.map_map, Function.comp_def, List.reverse_cons, List.reverse_nil,
      List.nil_append, List.map_cons, List.map_nil, entryRev, one_mul, zero_add, pow_one]
    rw [Nat.mod_eq_of_lt ha', Nat.mod_eq_of_lt ha, Nat.mod_eq_of_lt hc, Nat.mod_eq_of_lt hd]
    exact h1 _ _ _ _ ha' ha hc hd
  | succ k ih =>
    rw [pow_succ] at ha' ha hc hd
    simp only [combos]
    rw [sum_map_flatMap]
    have step : ∀ v1 : List τ,
        ((vals.map fun v2 => v1 ++ [v2]).map fun ts =>
          entryRev (ts.reverse.map F) a' a * entryRev (ts.reverse.map G) c d).sum
        = (entryRev (v1.reverse.map F) (a' / 2) (a / 2) * entryRev (v1.reverse.map G) (c / 2) (d / 2))
          * (if a' % 2 = d % 2 ∧ a % 2 = c % 2 then w else 0) := by
      intro v1
      rw [← h1 _ _ _ _ (Nat.mod_lt _ (by omega)) (Nat.mod_lt _ (by omega))
        (Nat.mod_lt _ (by omega)) (Nat.mod_lt _ (by omega)), List.map_map, ← List.sum_map_mul_left]
      congr 1
      apply List.map_congr_left
      intro p _
      simp only [Function.comp_def, List.reverse_append, List.reverse_cons, List.reverse_nil,
        List.nil_append, List.singleton_append, List.map_cons, entryRev]
      ring
    rw [List.map_congr_left (fun v1 _ => step v1), List.sum_map_mul_right,
      ih (by omega) (by omega) (by omega) (by omega)]
    by_cases h1' : a' = d ∧ a = c
    · obtain ⟨rfl, rfl⟩ := h1'
      simp [pow_succ]
    · have : ¬ ((a' / 2 = d / 2 ∧ a / 2 = c / 2) ∧ (a' % 2 = d % 2 ∧ a % 2 = c % 2)) := by omega
      rw [if_neg h1']
      by_cases h2 : a' / 2 = d / 2 ∧ a / 2 = c / 2
      · have h3 : ¬ (a' % 2 = d % 2 ∧ a % 2 = c % 2) := fun h3 => this ⟨h2, h3⟩
        rw [if_neg h3, mul_zero]
      · rw [if_neg h2, zero_mul]

theorem entryRev_swap {τ : Type} (F : τ → Nat → Nat → K) (l : List τ) (a b : Nat) :
    entryRev (l.map fun t x y => F t y x) a b = entryRev (l.map F) b a := by
  induction l generalizing a b with
  | nil => rfl
  | cons t r ih => simp only [List.map_cons, entryRev, ih]

theorem star_entryRev {τ : Type} (F : τ → Nat → Nat → K) (l : List τ) (a b : Nat) :
    star (entryRev (l.map F) a b) = entryRev (l.map fun t x y => star (F t x y)) a b := by
  induction l generalizing a b with
  | nil => simp [entryRev]
  | cons t r ih => simp only [List.map_cons, entryRev, star_mul', ih]

/-! ### general Kronecker entries and index arithmetic -/

theorem get_kron_gen (A B : M K) {r k : Nat} (hr : r < A.n * B.n) (hk : k < A.n * B.n) :
    (kron A B).get r k = A.get (r / B.n) (k / B.n) * B.get (r % B.n) (k % B.n) := by
  unfold kron
  rw [M.get_ofFn _ hr hk]

theorem idx_div {a c d : Nat} (hc : c < d) : (a * d + c) / d = a := by
  have hd : 0 < d := by omega
  rw [Nat.add_comm, Nat.add_mul_div_right _ _ hd, Nat.div_eq_of_lt hc, Nat.zero_add]

theorem idx_mod {a c d : Nat} (hc : c < d) : (a * d + c) % d = c := by
  rw [Nat.add_comm, Nat.add_mul_mod_self_right, Nat.mod_eq_of_lt hc]

theorem idx_lt {a c m d : Nat} (ha : a < m) (hc : c < d) : a * d + c < m * d := by
  have : (a + 1) * d ≤ m * d := Nat.mul_le_mul_right d ha
  rw [Nat.add_mul, Nat.one_mul] at this
  omega

theorem sum_range_mul (m d : Nat) (f : Nat → K) :
    ∑ j ∈ Finset.range (m * d), f j
      = ∑ a ∈ Finset.range m, ∑ c ∈ Finset.range d, f (a * d + c) := by
  induction m with
  | zero => simp
  | succ m ih => rw [Nat.succ_mul, Finset.sum_range_add, ih, Finset.sum_range_succ]

/-- Pauli strings are Hermitian -/
theorem pauliM_herm {i : K} (hi : star i = -i) (p : Pauli) {x y : Nat} (hx : x < 2) (hy : y < 2) :
    star ((pauliM i p).get x y) = (pauliM i p).get y x := by
  cases p <;> interval_cases x <;> interval_cases y <;> simp [pauliM, hi]

theorem pauliKron_herm {i : K} (hi : star i = -i) (m : Meas) {c e : Nat} (hc : c < 2 ^ m.length)
    (he : e < 2 ^ m.length) :
    star ((pauliKron i m).get c e) = (pauliKron i m).get e c := by
  rw [pauliKron_get i m hc he, pauliKron_get i m he hc, star_entryRev,
    ← entryRev_swap (fun t => (pauliM i t).get) m.reverse c e]
  exact entryRev_congr _ _ _ (fun t _ x y hx hy => pauliM_herm hi t hx hy) c e

end LW.Tomo
