/-
  C07 helper: inverse-CDF selection (`Generator.choice(p=…)`).
-/
import Mathlib.Algebra.Order.Field.Basic
import Mathlib.Algebra.Order.Field.Rat
import Mathlib.Algebra.BigOperators.Group.List.Basic
import Mathlib.Algebra.Order.BigOperators.Group.List
import Mathlib.Tactic.Ring
import Mathlib.Tactic.Linarith
import LW.Model.Sampling

namespace LW.Proofs.C07

/-- prefix sums of the weights -/
def cum (ps : List Rat) (k : Nat) : Rat := (ps.take k).sum

theorem go_ge (u tot : Rat) (l : List Rat) (acc : Rat) (i : Nat) :
    i ≤ inverseCdf.go u tot l acc i := by
  induction l generalizing acc i with
  | nil => simp [inverseCdf.go]
  | cons p rest ih =>
    unfold inverseCdf.go
    split
    · exact Nat.le_refl _
    · exact Nat.le_trans (Nat.le_succ i) (ih _ _)

theorem go_le (u tot : Rat) (l : List Rat) (acc : Rat) (i : Nat) :
    inverseCdf.go u tot l acc i ≤ i + l.length := by
  induction l generalizing acc i with
  | nil => simp [inverseCdf.go]
  | cons p rest ih =>
    unfold inverseCdf.go
    split
    · omega
    · have := ih (acc + p) (i + 1); simp only [List.length_cons]; omega

theorem go_lt (u tot : Rat) (l : List Rat) (acc : Rat) (i : Nat)
    (hacc : acc / tot ≤ u) (hu : u < (acc + l.sum) / tot) :
    inverseCdf.go u tot l acc i < i + l.length := by
  induction l generalizing acc i with
  | nil => simp at hu; exact absurd hu (not_lt.mpr hacc)
  | cons p rest ih =>
    unfold inverseCdf.go
    split
    · simp
    · rename_i h
      have := ih (acc + p) (i + 1) (not_lt.mp h) (by rwa [List.sum_cons, ← add_assoc] at hu)
      simp only [List.length_cons]; omega

theorem take_sum_nonneg (l : List Rat) (hnn : ∀ p ∈ l, 0 ≤ p) (k : Nat) : 0 ≤ (l.take k).sum :=
  List.sum_nonneg fun p hp => hnn p (List.mem_of_mem_take hp)

theorem go_eq_iff (u tot : Rat) (htot : 0 < tot) (l : List Rat) (hnn : ∀ p ∈ l, 0 ≤ p)
    (acc : Rat) (i k : Nat) (hk : k < l.length) (hacc : acc / tot ≤ u) :
    inverseCdf.go u tot l acc i = i + k ↔
      (acc + (l.take k).sum) / tot ≤ u ∧ u < (acc + (l.take (k + 1)).sum) / tot := by
  induction l generalizing acc i k with
  | nil => simp at hk
  | cons p rest ih =>
    have hp : 0 ≤ p := hnn p (by simp)
    have hrest : ∀ q ∈ rest, 0 ≤ q := fun q hq => hnn q (by simp [hq])
    unfold inverseCdf.go
    cases k with
    | zero =>
      simp only [List.take_zero, List.sum_nil, add_zero, zero_add, List.take_succ_cons,
        List.sum_cons]
      split
      · rename_i h; simp [hacc, h]
      · rename_i h
        have := go_ge u tot rest (acc + p) (i + 1)
        constructor
        · intro e; omega
        · intro e; exact absurd e.2 h
    | succ k =>
      simp only [List.take_succ_cons, List.sum_cons]
      split
      · rename_i h
        constructor
        · intro e; omega
        · intro e
          exfalso
          have h0 := take_sum_nonneg rest hrest k
          have : (acc + p) / tot ≤ (acc + (p + (rest.take k).sum)) / tot :=
            div_le_div_of_nonneg_right (by linarith) htot.le
          linarith [e.1]
      · rename_i h
        have hk' : k < rest.length := by simpa using hk
        have := ih hrest (acc + p) (i + 1) k hk' (not_lt.mp h)
        rw [show i + (k + 1) = i + 1 + k by omega, this]
        simp only [add_assoc]

theorem foldl_eq_sum (ps : List Rat) : ps.foldl (· + ·) 0 = ps.sum := by
  rw [List.sum_eq_foldl]

theorem inverseCdf_interval (ps : List Rat) (hnn : ∀ p ∈ ps, 0 ≤ p) (htot : 0 < ps.sum)
    (u : Rat) (hu0 : 0 ≤ u) (hu1 : u < 1) (k : Nat) (hk : k < ps.length) (_hpk : 0 < ps.getD k 0) :
    inverseCdf ps u = k ↔ cum ps k / ps.sum ≤ u ∧ u < cum ps (k + 1) / ps.sum := by
  unfold inverseCdf
  simp only [foldl_eq_sum]
  have hlt : inverseCdf.go u ps.sum ps 0 0 < 0 + ps.length :=
    go_lt u ps.sum ps 0 0 (by simpa using hu0) (by rw [zero_add, div_self htot.ne']; exact hu1)
  have hmin : min (inverseCdf.go u ps.sum ps 0 0) (ps.length - 1) = inverseCdf.go u ps.sum ps 0 0 :=
    Nat.min_eq_left (by omega)
  rw [hmin]
  have := go_eq_iff u ps.sum htot ps hnn 0 0 k hk (by simpa using hu0)
  simpa [cum] using this

theorem inverseCdf_lt (ps : List Rat) (hne : ps ≠ []) (u : Rat) : inverseCdf ps u < ps.length := by
  unfold inverseCdf
  have : 0 < ps.length := List.length_pos_iff.mpr hne
  have := Nat.min_le_right (inverseCdf.go u (ps.foldl (· + ·) 0) ps 0 0) (ps.length - 1)
  simp only at this ⊢
  omega

/-- non-vacuity: weights 1/4, 1/2, 1/4; the variate 1/2 selects index 1 and lies in
`[1/4, 3/4)` -/
example : inverseCdf [1/4, 1/2, 1/4] (1/2) = 1 ∧
    cum [1/4, 1/2, 1/4] 1 / ([1/4, 1/2, 1/4] : List Rat).sum ≤ 1/2 ∧
    (1/2 : Rat) < cum [1/4, 1/2, 1/4] 2 / ([1/4, 1/2, 1/4] : List Rat).sum := by
  refine ⟨by decide +kernel, ?_, ?_⟩ <;> norm_num [cum]

end LW.Proofs.C07
