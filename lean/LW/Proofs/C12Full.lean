/-
  LW.Proofs.C12Full — `convert_correct`: amplitude-level correctness of the model of the qiskit
  converter, for every instruction list, either mode, every field with valid gate constants.

  Assembly of the pieces in LW/Proofs/C12Full*.lean:
  * the circuit built from the plan satisfies the invariant "heralds = ancillas appended in order"
    and its substitution homomorphism (polynomial Fock functor, `circHom`) is the composition
    `listHom` of the homomorphisms of the instructions (`plan_fold`, `placeAll_hom`);
  * `gateAmp` is `∏ t_k!` times the coefficient amplitude of `circHom` (`gateAmp_eq_amp`), and the
    factorials are 1 on the qubit subspace;
  * the forward induction `main_ind` over the instruction list, with the per-instruction interface
    `iface_of_shape` (C13 tables) and the safety of the post-selection rules (`ps_analysis_safe`,
    or `safe_heralded` in heralded-only mode).
-/
import Mathlib.Algebra.Star.Basic
import LW.Proofs.C12FullFinalA

open MvPolynomial

namespace LW.C12F

open LW LW.QC LW.Gates LW.QF LW.Proofs.C02Sem

theorem mem_dedupSorted {q : ℕ} {l : List ℕ} : q ∈ dedupSorted l ↔ q ∈ l := by
  unfold dedupSorted
  rw [List.mem_eraseDups]
  exact LW.Proofs.C02.mem_sortNat

theorem psAnalyze_has_lt (fixed : Bool) (nq : ℕ) : ∀ (gs : List Instr),
    (∀ g ∈ gs, ∀ q ∈ g.qubits, q < nq) → ∀ q ∈ (psAnalyze fixed gs).2, q < nq
  | [], _, q, hq => by simp [psAnalyze] at hq
  | g :: rest, hwf, q, hq => by
    rw [psAnalyze_has_cons] at hq
    have ih := psAnalyze_has_lt fixed nq rest (fun g' hg' => hwf g' (List.mem_cons_of_mem _ hg'))
    split_ifs at hq
    · rcases List.mem_append.mp hq with h | h
      · exact ih q h
      · exact hwf g List.mem_cons_self q h
    · exact ih q hq

theorem convert_ok_psq (aps fixed : Bool) (nq : ℕ) (gs : List Instr) (o : ConvOut)
    (h : convert aps fixed nq gs = .ok o) :
    o.psQubits = if aps = true ∧ ¬ (dedupSorted (psAnalyze fixed gs).2).isEmpty = true then
      some (dedupSorted (psAnalyze fixed gs).2) else none := by
  unfold convert at h
  simp only [bind, Except.bind] at h
  cases h1 : placeAll 0 gs (if aps = true then (psAnalyze fixed gs).1 else gs.map fun _ => false) with
  | error e => rw [h1] at h; simp at h
  | ok plan =>
    rw [h1] at h
    simp only at h
    split at h
    · simp at h
    · simp only [pure, Except.pure, Except.ok.injEq] at h
      subst h
      rfl

/-- **`convert_correct`** (the body of `LW.C12.convert_correct_statement`) -/
theorem convert_correct_full :
    ∀ (R : Type) [Field R] (c : GC R), c.Valid →
    ∀ (par : Nat → R × R) (aps : Bool) (nq : Nat) (gs : List Instr) (o : ConvOut),
      (∀ g ∈ gs, g.qubits.Nodup ∧ ∀ q ∈ g.qubits, q < nq) →
      convert aps true nq gs = .ok o →
      ∃ circ, buildCirc c par nq o.plan = .ok circ ∧ circ.n - circ.inHer.length = 2 * nq ∧
        ∃ k : R, k ≠ 0 ∧
          ∀ ib ∈ bitStrings nq, ∀ out ∈ fockStates (2 * nq) nq, accepted o.psQubits out = true →
            gateAmp c.i circ (dualRail ib) out =
              if isDualRail out then k * idealRun c par 0 gs (delta ib) (unDualRail out) else 0 := by
  intro R _ c hv par aps nq gs o hwf hconv
  letI : StarRing R := starRingOfComm
  obtain ⟨hflags, hplan⟩ := convert_ok_flags_plan aps true nq gs o hconv
  have hpsq := convert_ok_psq aps true nq gs o hconv
  have hlen : o.flags.length = gs.length := by
    rw [hflags]
    split_ifs
    · exact psAnalyze_flags_length true gs
    · simp
  obtain ⟨hpok, hher, hhom, hshape⟩ :=
    placeAll_hom c par nq gs 0 o.flags o.plan (2 * nq) hwf hlen hplan (Nat.le_refl _)
  obtain ⟨circ, hfold, hinv, hq, hcher, hchom⟩ := plan_fold c par nq o.plan hpok
    (Circ.new (2 * nq)) (herInv_new _) (specOk_new _) rfl
  have hHs : circ.inHer.map (·.2) = listHer gs o.flags := by
    rw [hcher, hher]; rfl
  have hcircHom : circHom c.i circ = listHom c par 0 gs o.flags (2 * nq) := by
    rw [hchom, circHom_new, AlgHom.comp_id]
    exact hhom
  have hif : List.Forall₂ (Iface c par nq) gs o.flags :=
    hshape.imp (fun g f h => iface_of_shape c hv par nq g f h)
  refine ⟨circ, hfold, hq, listK c gs o.flags, listK_ne_zero c hv gs o.flags, ?_⟩
  intro ib hib out hout hacc
  have hibl : ib.length = nq := mem_bitStrings.mp hib
  obtain ⟨houtl, _⟩ := mem_fockStates_fwd hout
  have hdl : (dualRail ib).length = 2 * nq := by rw [dualRail_length, hibl]
  have hamp := gateAmp_eq_amp c.i circ hinv.wf hinv.io (dualRail ib) out (by rw [hdl, hq])
    (by rw [houtl, hq])
  rw [hHs, hcircHom] at hamp
  have e1 := toFinsupp_eq_mk out (listHer gs o.flags)
  have e2 := toFinsupp_eq_mk (dualRail ib) (listHer gs o.flags)
  rw [houtl] at e1
  rw [hdl] at e2
  rw [e1, e2] at hamp
  -- the post-selection rules and their safety
  obtain ⟨rules, hsafe, hrules⟩ : ∃ rules, Safe nq gs o.flags rules ∧
      ∀ q ∈ rules, cfgN nq (mk out (herPart (2 * nq) (listHer gs o.flags))) q = 1 := by
    cases aps with
    | false =>
      refine ⟨[], ?_, fun q hq => by simp at hq⟩
      apply safe_heralded nq hshape
      intro f hf
      rw [hflags] at hf
      simp only [Bool.false_eq_true, if_false, List.mem_map] at hf
      obtain ⟨_, _, rfl⟩ := hf
      rfl
    | true =>
      have hfl : o.flags = (psAnalyze true gs).1 := by rw [hflags]; rfl
      refine ⟨(psAnalyze true gs).2, ?_, ?_⟩
      · rw [hfl]
        intro c0 tr h0 hrun hfin
        exact ps_analysis_safe nq gs c0 tr (fun g hg => (hwf g hg).2) h0 hrun hfin
      · intro q hq
        have hqn := psAnalyze_has_lt true nq gs (fun g hg => (hwf g hg).2) q hq
        have hqm : q ∈ dedupSorted (psAnalyze true gs).2 := mem_dedupSorted.mpr hq
        have hne : ¬ (dedupSorted (psAnalyze true gs).2).isEmpty = true := by
          intro hc
          rw [List.isEmpty_iff] at hc
          rw [hc] at hqm
          simp at hqm
        rw [hpsq, if_pos ⟨rfl, hne⟩] at hacc
        unfold accepted at hacc
        simp only [List.all_eq_true, beq_iff_eq] at hacc
        have := hacc q hqm
        rw [cfgN_lt _ hqn, mk_apply_lt (by rw [houtl]; exact herPart_support _ _) (by omega),
          mk_apply_lt (by rw [houtl]; exact herPart_support _ _) (by omega)]
        exact this
  rw [main_ind hif rules out houtl 0 (2 * nq) ib _ (Nat.le_refl _) hsafe hibl
    (herPart_support _ _) (herAt_herPart _ _) hrules] at hamp
  rw [hamp]
  by_cases hdr : isDualRail out = true
  · rw [if_pos hdr]
    have hfp : factProd (out ++ listHer gs o.flags) = 1 := by
      apply factProd_eq_one
      intro x hx
      rcases List.mem_append.mp hx with hx | hx
      · rw [← dualRail_unDualRail out hdr] at hx
        exact dualRail_entries_le _ x hx
      · exact listHer_le gs o.flags x hx
    rw [hfp, Nat.cast_one, one_mul]
  · rw [if_neg hdr, mul_zero]

end LW.C12F
