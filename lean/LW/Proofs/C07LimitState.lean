/-
  C07 limit statements, part C1: the composite `sampleOne` (a state, not an index).

  * the model's `sampleOne dist u` is the state at index `inverseCdf (weights) u`, for every `u`
    (so `Sampler.sample` and one draw of `sample_N_outputs` coincide);
  * its real twin `sampleOneR`, and the strong law: the frequency of a state `s` tends almost surely
    to the total normalised weight of the entries of the distribution equal to `s`.
-/
import LW.Proofs.C07LimitLLN

namespace LW.Proofs.C07

open MeasureTheory ProbabilityTheory Filter Topology

/-- the recursion of `sampleOne.go` over `ℝ` -/
noncomputable def sampleOneR.go (u tot : ℝ) : List (FState × ℝ) → ℝ → FState → FState
  | [], _, last => last
  | (s, p) :: rest, acc, _ =>
    if u < (acc + p) / tot then s else sampleOneR.go u tot rest (acc + p) s

/-- real-valued twin of the model's `sampleOne` -/
noncomputable def sampleOneR (dist : List (FState × ℝ)) (u : ℝ) : FState :=
  sampleOneR.go u ((dist.map (·.2)).foldl (· + ·) 0) dist 0 []

/-- cast a rational distribution to a real one -/
def distR (dist : List (FState × ℚ)) : List (FState × ℝ) := dist.map fun x => (x.1, (x.2 : ℝ))

theorem distR_weights (dist : List (FState × ℚ)) :
    (distR dist).map (·.2) = (dist.map (·.2)).map (fun q : ℚ => (q : ℝ)) := by
  simp [distR, List.map_map, Function.comp_def]

theorem sampleOneR_go_cast (u tot : ℚ) (l : List (FState × ℚ)) (acc : ℚ) (last : FState) :
    sampleOneR.go (u : ℝ) (tot : ℝ) (distR l) (acc : ℝ) last = sampleOne.go u tot l acc last := by
  induction l generalizing acc last with
  | nil => simp [distR, sampleOneR.go, sampleOne.go]
  | cons x rest ih =>
    obtain ⟨s, p⟩ := x
    have e : distR ((s, p) :: rest) = (s, (p : ℝ)) :: distR rest := rfl
    rw [e]
    unfold sampleOneR.go sampleOne.go
    have hc : ((u : ℝ) < ((acc : ℝ) + (p : ℝ)) / (tot : ℝ)) ↔ u < (acc + p) / tot := by
      exact_mod_cast Iff.rfl
    have ih' := ih (acc + p) s
    rw [Rat.cast_add] at ih'
    by_cases h : u < (acc + p) / tot
    · rw [if_pos h, if_pos (hc.mpr h)]
    · rw [if_neg h, if_neg (fun h' => h (hc.mp h')), ih']

/-- AGREEMENT of the real twin with the model on rational data -/
theorem sampleOneR_cast (dist : List (FState × ℚ)) (u : ℚ) :
    sampleOneR (distR dist) (u : ℝ) = sampleOne dist u := by
  unfold sampleOneR sampleOne
  have h0 := foldl_cast (dist.map (·.2)) 0
  rw [Rat.cast_zero] at h0
  have h1 := sampleOneR_go_cast u ((dist.map (·.2)).foldl (· + ·) 0) dist 0 []
  rw [Rat.cast_zero] at h1
  rw [distR_weights, h0, h1]

theorem goR_shift (u tot : ℝ) (l : List ℝ) (acc : ℝ) (i : ℕ) :
    inverseCdfR.go u tot l acc i = i + inverseCdfR.go u tot l acc 0 := by
  induction l generalizing acc i with
  | nil => simp [inverseCdfR.go]
  | cons p rest ih =>
    unfold inverseCdfR.go
    split
    · simp
    · rw [ih (acc + p) (i + 1), ih (acc + p) (0 + 1)]; omega

theorem sampleOneR_go_eq (u tot : ℝ) (l : List (FState × ℝ)) (acc : ℝ) (last : FState) :
    sampleOneR.go u tot l acc last =
      (l.getD (min (inverseCdfR.go u tot (l.map (·.2)) acc 0) (l.length - 1)) (last, 0)).1 := by
  induction l generalizing acc last with
  | nil => simp [sampleOneR.go]
  | cons x rest ih =>
    obtain ⟨s, p⟩ := x
    simp only [List.map_cons]
    unfold sampleOneR.go inverseCdfR.go
    by_cases h : u < (acc + p) / tot
    · simp [h]
    · rw [if_neg h, if_neg h, ih (acc + p) s, goR_shift u tot _ (acc + p) (0 + 1)]
      cases rest with
      | nil => simp [inverseCdfR.go]
      | cons y rest' =>
        have e : min (0 + 1 + inverseCdfR.go u tot (List.map (·.2) (y :: rest')) (acc + p) 0)
              (((s, p) :: y :: rest').length - 1) =
            (min (inverseCdfR.go u tot (List.map (·.2) (y :: rest')) (acc + p) 0)
              ((y :: rest').length - 1)) + 1 := by
          simp only [List.length_cons]; omega
        rw [e, List.getD_cons_succ]
        have hlt : min (inverseCdfR.go u tot (List.map (·.2) (y :: rest')) (acc + p) 0)
            ((y :: rest').length - 1) < (y :: rest').length := by
          simp only [List.length_cons]; omega
        rw [List.getD_eq_getElem _ _ hlt, List.getD_eq_getElem _ _ hlt]

/-- `sampleOneR` is the state at the index chosen by `inverseCdfR` (every `u`, every weights) -/
theorem sampleOneR_eq (dist : List (FState × ℝ)) (u : ℝ) :
    sampleOneR dist u = (dist.getD (inverseCdfR (dist.map (·.2)) u) ([], 0)).1 := by
  unfold sampleOneR inverseCdfR
  rw [sampleOneR_go_eq, List.length_map]

/-- MODEL LEVEL: `sampleOne` (`Sampler.sample`) returns the state at the index chosen by
`inverseCdf` (`Generator.choice`), for every distribution and every variate -/
theorem sampleOne_eq (dist : List (FState × ℚ)) (u : ℚ) :
    sampleOne dist u = (dist.getD (inverseCdf (dist.map (·.2)) u) ([], 0)).1 := by
  rw [← sampleOneR_cast, sampleOneR_eq, distR_weights, inverseCdfR_cast]
  have := List.getD_map dist (([], 0) : FState × ℚ) (n := inverseCdf (dist.map (·.2)) u)
    (fun x => (x.1, (x.2 : ℝ)))
  simp only [Rat.cast_zero] at this
  unfold distR
  rw [this]

/-! ### the strong law for states -/

theorem sum_range_getD {α : Type*} (l : List α) (d : α) (g : α → ℝ) :
    ∑ k ∈ Finset.range l.length, g (l.getD k d) = (l.map g).sum := by
  induction l with
  | nil => simp
  | cons x rest ih =>
    rw [List.length_cons, Finset.sum_range_succ']
    simp only [List.getD_cons_succ, List.getD_cons_zero, List.map_cons, List.sum_cons]
    rw [ih, add_comm]

theorem sum_filter_eq {α : Type*} (l : List α) (P : α → Prop) [DecidablePred P] (f : α → ℝ) :
    (l.map fun x => if P x then f x else 0).sum = ((l.filter fun x => decide (P x)).map f).sum := by
  induction l with
  | nil => simp
  | cons x rest ih =>
    by_cases h : P x
    · simp [h, ih]
    · simp [h, ih]

/-- STRONG LAW for `sampleOne`: for pairwise independent variates uniform on `[0,1)`, almost surely
the fraction of the first `n` draws that return the state `s` tends to the total normalised weight
of the entries of `dist` whose state is `s`. -/
theorem sampleOne_frequencies_converge {Ω : Type*} [MeasurableSpace Ω] {μ : Measure Ω}
    (U : ℕ → Ω → ℝ)
    (hindep : Pairwise fun i j => IndepFun (U i) (U j) μ)
    (hlaw : ∀ i, Measure.map (U i) μ = volume.restrict (Set.Ico (0 : ℝ) 1))
    (dist : List (FState × ℝ)) (hnn : ∀ x ∈ dist, 0 ≤ x.2) (htot : 0 < (dist.map (·.2)).sum)
    (s : FState) :
    ∀ᵐ ω ∂μ, Tendsto
      (fun n : ℕ => (((Finset.range n).filter fun i => sampleOneR dist (U i ω) = s).card : ℝ) / n)
      atTop (𝓝 (((dist.filter fun x => decide (x.1 = s)).map (·.2)).sum / (dist.map (·.2)).sum)) := by
  set ps := dist.map (·.2) with hps
  have hnn' : ∀ p ∈ ps, 0 ≤ p := by
    intro p hp
    obtain ⟨x, hx, rfl⟩ := List.mem_map.mp hp
    exact hnn x hx
  have hne : ps ≠ [] := by
    intro h; rw [h] at htot; simp at htot
  have hlen : ps.length = dist.length := List.length_map _
  -- almost surely all index frequencies converge
  have hall : ∀ᵐ ω ∂μ, ∀ k, k < ps.length → Tendsto
      (fun n : ℕ => (((Finset.range n).filter fun i => inverseCdfR ps (U i ω) = k).card : ℝ) / n)
      atTop (𝓝 (ps.getD k 0 / ps.sum)) := by
    rw [ae_all_iff]
    intro k
    by_cases hk : k < ps.length
    · filter_upwards [sampling_frequencies_converge U hindep hlaw ps hnn' htot k hk] with ω h _
      exact h
    · exact Eventually.of_forall fun ω h => absurd h hk
  filter_upwards [hall] with ω hω
  set T : Finset ℕ := (Finset.range dist.length).filter fun k => (dist.getD k ([], 0)).1 = s with hT
  -- the limit as a finite sum over the indices carrying `s`
  have hlim : ((dist.filter fun x => decide (x.1 = s)).map (·.2)).sum / ps.sum =
      ∑ k ∈ T, ps.getD k 0 / ps.sum := by
    rw [← sum_filter_eq dist (fun x => x.1 = s) (·.2),
      ← sum_range_getD dist ([], 0) (fun x => if x.1 = s then x.2 else 0), hT, Finset.sum_filter,
      Finset.sum_div]
    refine Finset.sum_congr rfl fun k hk => ?_
    have hk' : k < dist.length := Finset.mem_range.mp hk
    have e : ps.getD k 0 = (dist.getD k ([], 0)).2 := by
      rw [hps]
      exact List.getD_map dist (([], 0) : FState × ℝ) (·.2)
    rw [e]
    split <;> simp
  -- the count as a finite sum of index counts
  have hcount : ∀ n : ℕ,
      (((Finset.range n).filter fun i => sampleOneR dist (U i ω) = s).card : ℝ) / n =
        ∑ k ∈ T, (((Finset.range n).filter fun i => inverseCdfR ps (U i ω) = k).card : ℝ) / n := by
    intro n
    rw [← Finset.sum_div, ← Nat.cast_sum]
    congr 2
    rw [Finset.card_eq_sum_card_fiberwise (f := fun i => inverseCdfR ps (U i ω)) (t := T)]
    · refine Finset.sum_congr rfl fun k hk => ?_
      congr 1
      ext i
      simp only [Finset.mem_filter]
      constructor
      · rintro ⟨⟨hi, _⟩, hk'⟩; exact ⟨hi, hk'⟩
      · rintro ⟨hi, hk'⟩
        refine ⟨⟨hi, ?_⟩, hk'⟩
        rw [sampleOneR_eq, ← hps, hk']
        exact (Finset.mem_filter.mp hk).2
    · intro i hi
      have hi' := (Finset.mem_filter.mp (Finset.mem_coe.mp hi)).2
      rw [sampleOneR_eq, ← hps] at hi'
      refine Finset.mem_coe.mpr (Finset.mem_filter.mpr ⟨Finset.mem_range.mpr ?_, hi'⟩)
      rw [← hlen]
      exact inverseCdfR_lt ps hne _
  rw [hlim]
  refine Tendsto.congr (fun n => (hcount n).symm) ?_
  refine tendsto_finsetSum T fun k hk => hω k ?_
  rw [hlen]
  exact Finset.mem_range.mp (Finset.mem_filter.mp hk).1

end LW.Proofs.C07
