/-
  LW.Proofs.DistDefs — small definitions used in the statements of C04/C05 (lookup in the SLOS
  amplitude table).
-/
import LW.Model.Dist

namespace LW

variable {K : Type}

/-- value of `φ` at `t` in the table produced by `slosPhi` (0 when `t` is not a key) -/
def slosGet [Zero K] (d : List (FState × K)) (t : FState) : K :=
  ((d.find? (·.1 == t)).map (·.2)).getD 0

end LW
