/-
  LW.Proofs.C10Circ — parametrised circuits: listing of parameters, frozen copies, validity of the
  current values, and dependence of `U` on the listed parameters only (C10).
-/
import LW.Proofs.C10Heap

namespace LW

variable {α K K' K'' : Type}

/-! ### composition and congruence of scalar maps -/

theorem M.map_map (g : K → K') (f : K' → K'') (A : M K) : (A.map g).map f = A.map (f ∘ g) := by
  unfold M.map
  simp [Array.map_map, Function.comp_def]

theorem Prim.map_map (g : K → K') (f : K' → K'') (p : Prim K) : (p.map g).map f = p.map (f ∘ g) := by
  cases p <;> simp [Prim.map, M.map_map]

theorem Comp.map_map (g : K → K') (f : K' → K'') (c : Comp K) : (c.map g).map f = c.map (f ∘ g) := by
  cases c with
  | prim p => simp [Comp.map, Prim.map_map]
  | group cs m1 m2 hin hout =>
    simp only [Comp.map, List.map_map]
    congr 1
    apply List.map_congr_left
    intro p _
    exact Prim.map_map g f p

theorem Circ.map_map (g : K → K') (f : K' → K'') (c : Circ K) : (c.map g).map f = c.map (f ∘ g) := by
  simp only [Circ.map, List.map_map]
  congr 1
  apply List.map_congr_left
  intro p _
  exact Comp.map_map g f p

/-- entries of a block -/
def M.entries (A : M K) : List K := A.a.toList.flatMap Array.toList

theorem M.map_congr {f g : K → K'} (A : M K) (h : ∀ x ∈ A.entries, f x = g x) : A.map f = A.map g := by
  unfold M.map
  congr 1
  apply Array.map_congr_left
  intro row hrow
  apply Array.map_congr_left
  intro x hx
  apply h
  unfold M.entries
  rw [List.mem_flatMap]
  exact ⟨row, Array.mem_toList_iff.mpr hrow, Array.mem_toList_iff.mpr hx⟩

/-- fields of a component including the entries of a unitary block -/
def Prim.deepSyms : Prim K → List K
  | .unitary _ u => u.entries
  | p => p.syms

theorem Prim.map_congr {f g : K → K'} (p : Prim K) (h : ∀ x ∈ p.deepSyms, f x = g x) :
    p.map f = p.map g := by
  cases p with
  | bs m1 m2 c s cv =>
    simp only [Prim.map]
    rw [h c (by simp [Prim.deepSyms, Prim.syms]), h s (by simp [Prim.deepSyms, Prim.syms])]
  | ps m p => simp only [Prim.map]; rw [h p (by simp [Prim.deepSyms, Prim.syms])]
  | loss m a b =>
    simp only [Prim.map]
    rw [h a (by simp [Prim.deepSyms, Prim.syms]), h b (by simp [Prim.deepSyms, Prim.syms])]
  | barrier ms => rfl
  | swaps σ => rfl
  | unitary m u => simp only [Prim.map]; rw [M.map_congr u h]

def Circ.deepSyms (c : Circ K) : List K := (primsOf c.spec).flatMap Prim.deepSyms

theorem Comp.map_congr {f g : K → K'} (c : Comp K) (h : ∀ p ∈ c.toPrims, ∀ x ∈ p.deepSyms, f x = g x) :
    c.map f = c.map g := by
  cases c with
  | prim p => simp only [Comp.map]; rw [Prim.map_congr p (h p (by simp [Comp.toPrims]))]
  | group cs m1 m2 hin hout =>
    simp only [Comp.map]
    congr 1
    apply List.map_congr_left
    intro p hp
    exact Prim.map_congr p (h p (by simpa [Comp.toPrims] using hp))

theorem Circ.map_congr {f g : K → K'} (c : Circ K) (h : ∀ x ∈ c.deepSyms, f x = g x) :
    c.map f = c.map g := by
  simp only [Circ.map]
  congr 1
  apply List.map_congr_left
  intro comp hcomp
  apply Comp.map_congr
  intro p hp x hx
  apply h
  unfold Circ.deepSyms primsOf
  rw [List.mem_flatMap]
  exact ⟨p, List.mem_flatMap.mpr ⟨comp, hcomp, hp⟩, hx⟩

theorem all_congr_mem {β : Type} (l : List β) (f g : β → Bool) (h : ∀ x ∈ l, f x = g x) :
    l.all f = l.all g := by
  induction l with
  | nil => rfl
  | cons x xs ih =>
    simp only [List.all_cons]
    rw [h x List.mem_cons_self, ih (fun y hy => h y (List.mem_cons_of_mem _ hy))]

/-! ### symbolic scalars -/

namespace Sym

theorem fix01_eval [Zero K] [One K] (ν : Views α K) (σ : Store α) :
    Fix01 (Sym.eval ν σ : Sym α K → K) := ⟨rfl, rfl⟩

theorem fix01_freeze [Zero K] [One K] (σ : Store α) :
    Fix01 (Sym.freeze σ : Sym α K → Sym α K) := ⟨rfl, rfl⟩

theorem ids_freeze (σ : Store α) (s : Sym α K) : (s.freeze σ).ids = [] := by
  cases s with
  | lit k => rfl
  | view r src => cases src <;> rfl

theorem eval_freeze [Zero K] (ν : Views α K) (σ σ' : Store α) (s : Sym α K) :
    (s.freeze σ).eval ν σ' = s.eval ν σ := by
  cases s with
  | lit k => rfl
  | view r src => cases src <;> rfl

theorem valid_freeze (ν : Views α K) (σ σ' : Store α) (s : Sym α K) :
    (s.freeze σ).valid ν σ' = s.valid ν σ := by
  cases s with
  | lit k => rfl
  | view r src => cases src <;> rfl

/-- a field reads the store only at the parameter it references -/
theorem eval_congr [Zero K] (ν : Views α K) (σ σ' : Store α) (s : Sym α K)
    (h : ∀ id ∈ s.ids, σ.val id = σ'.val id) : s.eval ν σ = s.eval ν σ' := by
  cases s with
  | lit k => rfl
  | view r src =>
    cases src with
    | const v => rfl
    | param id =>
      have := h id (by simp [Sym.ids])
      simp only [Sym.eval, PF.val, this]

theorem valid_congr (ν : Views α K) (σ σ' : Store α) (s : Sym α K)
    (h : ∀ id ∈ s.ids, σ.val id = σ'.val id) : s.valid ν σ = s.valid ν σ' := by
  cases s with
  | lit k => rfl
  | view r src =>
    cases src with
    | const v => rfl
    | param id =>
      have := h id (by simp [Sym.ids])
      simp only [Sym.valid, PF.val, this]

end Sym

/-! ### `get_all_params` -/

namespace PCirc

theorem mem_foldl_addNew (l acc : List Nat) (x : Nat) :
    x ∈ l.foldl addNew acc ↔ x ∈ acc ∨ x ∈ l := by
  induction l generalizing acc with
  | nil => simp
  | cons y ys ih =>
    rw [List.foldl_cons, ih]
    unfold addNew
    by_cases hy : acc.contains y = true
    · simp only [hy, if_true, List.mem_cons]
      have : y ∈ acc := by simpa using hy
      constructor
      · rintro (h | h)
        · exact Or.inl h
        · exact Or.inr (Or.inr h)
      · rintro (h | h | h)
        · exact Or.inl h
        · exact Or.inl (h ▸ this)
        · exact Or.inr h
    · have hy' : acc.contains y = false := by simpa using hy
      simp only [hy', Bool.false_eq_true, if_false, List.mem_append, List.mem_cons, List.mem_nil_iff,
        or_false]
      constructor
      · rintro ((h | h) | h)
        · exact Or.inl h
        · exact Or.inr (Or.inl h)
        · exact Or.inr (Or.inr h)
      · rintro (h | h | h)
        · exact Or.inl (Or.inl h)
        · exact Or.inl (Or.inr h)
        · exact Or.inr h

theorem nodup_foldl_addNew (l acc : List Nat) (h : acc.Nodup) : (l.foldl addNew acc).Nodup := by
  induction l generalizing acc with
  | nil => exact h
  | cons y ys ih =>
    rw [List.foldl_cons]
    apply ih
    unfold addNew
    by_cases hy : acc.contains y = true
    · simp only [hy, if_true]; exact h
    · have hy' : acc.contains y = false := by simpa using hy
      simp only [hy', Bool.false_eq_true, if_false]
      have hn : y ∉ acc := by simpa using hy
      rw [List.nodup_append]
      refine ⟨h, by simp, ?_⟩
      intro a ha b hb
      rw [List.mem_singleton] at hb
      subst hb
      exact fun hab => hn (hab ▸ ha)

/-- every parameter is listed exactly once … -/
theorem getAllParams_nodup (c : PCirc α K) : c.getAllParams.Nodup :=
  nodup_foldl_addNew _ [] List.nodup_nil

/-- … and the list is complete: a parameter is listed iff some component, at any depth (inside
groups, inside added sub-circuits), holds it in one of its fields -/
theorem mem_getAllParams (c : PCirc α K) (id : Nat) :
    id ∈ c.getAllParams ↔ ∃ s ∈ c.syms, id ∈ s.ids := by
  unfold getAllParams
  rw [mem_foldl_addNew]
  simp [List.mem_flatMap]

/-- a unitary block never holds a `Parameter` (`UnitaryMatrix` validates a numeric array) -/
def _root_.LW.Prim.LitU : Prim (Sym α K) → Prop
  | .unitary _ u => ∀ x ∈ u.entries, ∃ k, x = Sym.lit k
  | _ => True

def LitU (c : PCirc α K) : Prop := ∀ p ∈ primsOf c.spec, p.LitU

theorem deepSyms_cases (c : PCirc α K) (hL : c.LitU) (x : Sym α K) (hx : x ∈ Circ.deepSyms c) :
    (∃ k, x = Sym.lit k) ∨ x ∈ Circ.syms c := by
  unfold Circ.deepSyms at hx
  rw [List.mem_flatMap] at hx
  obtain ⟨p, hp, hxp⟩ := hx
  cases p with
  | unitary m u => exact Or.inl (hL _ hp x hxp)
  | bs m1 m2 cc ss cv => exact Or.inr (List.mem_flatMap.mpr ⟨_, hp, hxp⟩)
  | ps m q => exact Or.inr (List.mem_flatMap.mpr ⟨_, hp, hxp⟩)
  | loss m a b => exact Or.inr (List.mem_flatMap.mpr ⟨_, hp, hxp⟩)
  | barrier ms => exact Or.inr (List.mem_flatMap.mpr ⟨_, hp, hxp⟩)
  | swaps d => exact Or.inr (List.mem_flatMap.mpr ⟨_, hp, hxp⟩)

section
variable [Add K] [Mul K] [Neg K] [Zero K] [One K]

/-- `U` depends on the store only through the current values of the listed parameters: changing
any parameter that `get_all_params` does not list cannot change `U` (nor make it fail) -/
theorem readU_congr (ν : Views α K) (i : K) (σ σ' : Store α) (c : PCirc α K) (hL : c.LitU)
    (h : ∀ id ∈ c.getAllParams, σ.val id = σ'.val id) : c.readU ν i σ = c.readU ν i σ' := by
  have hs : ∀ s ∈ Circ.syms c, ∀ id ∈ s.ids, σ.val id = σ'.val id := by
    intro s hs id hid
    exact h id ((mem_getAllParams c id).mpr ⟨s, hs, hid⟩)
  have hv : c.fieldsValid ν σ = c.fieldsValid ν σ' := by
    unfold fieldsValid
    apply all_congr_mem
    intro s hs'
    exact Sym.valid_congr ν σ σ' s (hs s hs')
  have hr : c.resolve ν σ = c.resolve ν σ' := by
    unfold resolve
    apply Circ.map_congr
    intro x hx
    rcases deepSyms_cases c hL x hx with ⟨k, rfl⟩ | hx
    · rfl
    · exact Sym.eval_congr ν σ σ' x (hs x hx)
  unfold readU
  rw [hv, hr]

/-- FROZEN COPY, values: whatever happens to the parameters afterwards (store `σ'`), the frozen
copy keeps reporting the unitary — or the compilation error — of the moment it was taken -/
theorem freeze_readU (ν : Views α K) (i : K) (σ σ' : Store α) (c : PCirc α K) :
    (freeze σ c).readU ν i σ' = c.readU ν i σ := by
  have hv : (freeze σ c).fieldsValid ν σ' = c.fieldsValid ν σ := by
    unfold fieldsValid freeze
    rw [Circ.syms_map, List.all_map]
    apply all_congr_mem
    intro s _
    exact Sym.valid_freeze ν σ σ' s
  have hr : (freeze σ c).resolve ν σ' = c.resolve ν σ := by
    unfold resolve freeze
    rw [Circ.map_map]
    congr 1
    funext s
    exact Sym.eval_freeze ν σ σ' s
  unfold readU
  rw [hv, hr]

/-- INVALID VALUES: reading `U` fails exactly when some component field holds a value its
component cannot use, and then the failure is a `CircuitCompilationError`, never another class -/
theorem readU_error_iff (ν : Views α K) (i : K) (σ : Store α) (c : PCirc α K) (e : Err) :
    c.readU ν i σ = .error e ↔ e = .compilation ∧ ∃ s ∈ Circ.syms c, s.valid ν σ = false := by
  unfold readU fieldsValid
  by_cases h : (Circ.syms c).all (Sym.valid ν σ) = true
  · simp only [h, if_true]
    constructor
    · intro h'; cases h'
    · rintro ⟨_, s, hs, hv⟩
      rw [List.all_eq_true] at h
      rw [h s hs] at hv
      cases hv
  · have hf : (Circ.syms c).all (Sym.valid ν σ) = false := by simpa using h
    simp only [hf, Bool.false_eq_true, if_false]
    constructor
    · intro h'
      injection h' with h'
      refine ⟨h'.symm, ?_⟩
      rw [List.all_eq_false] at hf
      obtain ⟨s, hs, hv⟩ := hf
      exact ⟨s, hs, by simpa using hv⟩
    · rintro ⟨he, _⟩
      rw [he]

/-- … and otherwise it is the `U` of the plain circuit obtained from the current values -/
theorem readU_ok_iff (ν : Views α K) (i : K) (σ : Store α) (c : PCirc α K) :
    (∀ s ∈ Circ.syms c, s.valid ν σ = true) ↔ c.readU ν i σ = .ok ((c.resolve ν σ).U i) := by
  unfold readU fieldsValid
  by_cases h : (Circ.syms c).all (Sym.valid ν σ) = true
  · simp only [h, if_true, iff_true]
    exact List.all_eq_true.mp h
  · have hf : (Circ.syms c).all (Sym.valid ν σ) = false := by simpa using h
    simp only [hf, Bool.false_eq_true, if_false]
    constructor
    · intro h'; exact absurd (List.all_eq_true.mpr h') h
    · intro h'; cases h'

/-- the statement of the property: a parameter whose current value is invalid for a component
that holds it (non-numeric anywhere; outside [0,1] as a reflectivity or a loss) makes `U` raise
`CircuitCompilationError` -/
theorem readU_invalid_param (ν : Views α K) (i : K) (σ : Store α) (c : PCirc α K) (r : Role) (id : Nat)
    (hmem : Sym.view r (.param id) ∈ Circ.syms c)
    (hbad : (∃ t, σ.val id = .other t) ∨ (∃ x, σ.val id = .num x ∧ r ≠ .expi ∧ ν.unit x = false)) :
    c.readU ν i σ = .error .compilation := by
  rw [readU_error_iff]
  refine ⟨rfl, _, hmem, ?_⟩
  rcases hbad with ⟨t, ht⟩ | ⟨x, hx, hr, hu⟩
  · simp [Sym.valid, PF.val, ht]
  · cases r with
    | expi => exact absurd rfl hr
    | rt => simp [Sym.valid, PF.val, hx, hu]
    | rt1 => simp [Sym.valid, PF.val, hx, hu]

end

/-- FROZEN COPY, listing: it lists no parameter -/
theorem freeze_params (σ : Store α) (c : PCirc α K) : (freeze σ c).getAllParams = [] := by
  unfold getAllParams freeze
  rw [Circ.syms_map, List.flatMap_map]
  have : (Circ.syms c).flatMap (fun s => (Sym.freeze σ s).ids) = [] := by
    rw [List.flatMap_eq_nil_iff]
    intro s _
    exact Sym.ids_freeze σ s
  rw [this]
  rfl

end PCirc

end LW
