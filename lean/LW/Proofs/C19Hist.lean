/-
  LW.Proofs.C19Hist — every call of the construction API carries the invariant `Built`; hence
  every object of a pool built from nothing by any history of calls satisfies `Disp.WF`.
-/
import LW.Proofs.C19AddFull
import LW.Proofs.C19Rewrite

namespace LW.Disp

open LW

variable {K : Type}

/-- the call only appended leaf components to the spec -/
def AppendsPrims (c c' : Circ K) : Prop :=
  ∃ l : List (Prim K), c' = { c with spec := c.spec ++ l.map Comp.prim }

theorem innerOk_prim {n : Nat} {p : Prim K} (h : CompOk n (Comp.prim p)) :
    InnerOk n (Comp.prim p) := by
  intro q hq
  simp only [Comp.toPrims, List.mem_singleton] at hq
  subst hq; exact h

theorem built_of_appendsPrims {c c' : Circ K} (hb : Built c) (hw : WF c') (h : AppendsPrims c c') :
    Built c' := by
  obtain ⟨l, rfl⟩ := h
  refine built_append_spec hb _ ?_
  intro comp hc
  have hok : CompOk c.n comp := hw.compOk comp (List.mem_append_right _ hc)
  obtain ⟨p, _, rfl⟩ := List.mem_map.mp hc
  exact ⟨hok, innerOk_prim hok⟩

theorem appends_bs {c c' : Circ K} {m1 m2 : Int} {cs : K × K} {cv : Conv}
    {l : Option (K × K)} {rv lv : Bool} (h : c.bs m1 m2 cs cv l rv lv = .ok c') :
    AppendsPrims c c' := by
  unfold Circ.bs at h
  cases ha : c.modeInRange (c.mapMode m1) with
  | error e => simp [ha, bind, Except.bind] at h
  | ok a =>
    by_cases he : (a : Int) = c.mapMode m2
    · simp [ha, he, bind, Except.bind, throw, throwThe, MonadExceptOf.throw] at h
    cases hb : c.modeInRange (c.mapMode m2) with
    | error e => simp [ha, hb, he, bind, Except.bind] at h
    | ok b =>
      cases lv <;> cases rv <;>
        simp only [ha, hb, he, bind, Except.bind, if_false, Bool.not_true, Bool.not_false,
          throw, throwThe, MonadExceptOf.throw, Bool.false_eq_true, if_true] at h
      all_goals try (cases h; done)
      cases l with
      | none =>
        simp [pure, Except.pure] at h
        exact ⟨[.bs a b cs.1 cs.2 cv], by rw [← h]; rfl⟩
      | some ab =>
        obtain ⟨la, lb⟩ := ab
        simp [pure, Except.pure] at h
        exact ⟨[.bs a b cs.1 cs.2 cv, .loss a la lb, .loss b la lb], by rw [← h]; simp⟩

theorem appends_ps {c c' : Circ K} {m : Int} {p : K} {l : Option (K × K)} {lv : Bool}
    (h : c.ps m p l lv = .ok c') : AppendsPrims c c' := by
  unfold Circ.ps at h
  cases ha : c.modeInRange (c.mapMode m) with
  | error e => simp [ha, bind, Except.bind] at h
  | ok a =>
    cases lv <;>
      simp only [ha, bind, Except.bind, Bool.not_true, Bool.not_false, throw, throwThe,
        MonadExceptOf.throw, Bool.false_eq_true, if_true, if_false] at h
    · cases h
    cases l with
    | none =>
      simp [pure, Except.pure] at h
      exact ⟨[.ps a p], by rw [← h]; rfl⟩
    | some ab =>
      obtain ⟨la, lb⟩ := ab
      simp [pure, Except.pure] at h
      exact ⟨[.ps a p, .loss a la lb], by rw [← h]; simp⟩

theorem appends_loss {c c' : Circ K} {m : Int} {ab : K × K} {lv : Bool}
    (h : c.loss m ab lv = .ok c') : AppendsPrims c c' := by
  unfold Circ.loss at h
  cases ha : c.modeInRange (c.mapMode m) with
  | error e => simp [ha, bind, Except.bind] at h
  | ok a =>
    cases lv <;>
      simp only [ha, bind, Except.bind, Bool.not_true, Bool.not_false, throw, throwThe,
        MonadExceptOf.throw, Bool.false_eq_true, if_true, if_false] at h
    · cases h
    simp [pure, Except.pure] at h
    exact ⟨[.loss a ab.1 ab.2], by rw [← h]; rfl⟩

theorem appends_barrier_aux {c c' : Circ K} (ml : List Int)
    (h : (do
      let ms' ← ml.mapM fun m => c.modeInRange (c.mapMode m)
      (pure ({ c with spec := c.spec ++ [Comp.prim (Prim.barrier ms')] } : Circ K) :
        Except Err (Circ K))) = .ok c') : AppendsPrims c c' := by
  cases hm : ml.mapM (fun m => c.modeInRange (c.mapMode m)) with
  | error e => simp [hm, bind, Except.bind] at h
  | ok ms' =>
    simp [hm, bind, Except.bind, pure, Except.pure] at h
    exact ⟨[.barrier ms'], by rw [← h]; rfl⟩

theorem appends_barrier {c c' : Circ K} {ms : Option (List Int)} (h : c.barrier ms = .ok c') :
    AppendsPrims c c' := by
  unfold Circ.barrier at h
  cases ms with
  | none => exact appends_barrier_aux _ h
  | some l => exact appends_barrier_aux _ h

theorem appends_modeSwaps {c c' : Circ K} {sw : List (Int × Int)} (h : c.modeSwaps sw = .ok c') :
    AppendsPrims c c' := by
  unfold Circ.modeSwaps at h
  generalize sw.map (fun p => (c.mapMode p.1, c.mapMode p.2)) = rm at h
  cases hk : rm.mapM (fun p => c.modeInRange p.1) with
  | error e => simp [hk, bind, Except.bind] at h
  | ok ks =>
    cases hv : rm.mapM (fun p => c.modeInRange p.2) with
    | error e => simp [hk, hv, bind, Except.bind] at h
    | ok vs =>
      by_cases hs : sortNat (Dict.ofPairs (ks.zip vs)).keys = sortNat (Dict.ofPairs (ks.zip vs)).vals
      · simp [hk, hv, hs, bind, Except.bind, pure, Except.pure] at h
        exact ⟨[.swaps (Dict.ofPairs (ks.zip vs))], by rw [← h]; rfl⟩
      · simp [hk, hv, hs, bind, Except.bind, throw, throwThe, MonadExceptOf.throw] at h

theorem built_herald {c c' : Circ K} (hb : Built c) {nPhot : Nat} {i o : Int}
    (h : c.herald nPhot i o = .ok c') : Built c' := by
  have hw := wf_herald hb.wf h
  unfold Circ.herald at h
  cases hi : c.modeInRange (c.mapMode i) with
  | error e => simp [hi, bind, Except.bind] at h
  | ok a =>
    cases ho : c.modeInRange (c.mapMode o) with
    | error e => simp [hi, ho, bind, Except.bind] at h
    | ok b =>
      have ha1 := modeInRange_lt hi
      have hb1 := modeInRange_lt ho
      simp only [hi, ho, bind, Except.bind] at h
      split at h
      · simp [throw, throwThe, MonadExceptOf.throw] at h
      · split at h
        · simp [throw, throwThe, MonadExceptOf.throw] at h
        · simp [pure, Except.pure] at h
          subst h
          exact { wf := hw,
                  inNodup := (Dict.set_inv (Q := fun _ => True) hb.inNodup (fun _ _ => trivial) trivial).1,
                  inLt := keys_set_lt hb.inLt ha1,
                  outLt := keys_set_lt hb.outLt hb1,
                  inner := hb.inner }

theorem built_plus {a b c : Circ K} (ha : Built a) (hb : Built b) (h : a.plus b = .ok c) :
    Built c := by
  have hw := wf_plus ha.wf hb.wf h
  unfold Circ.plus at h
  split at h
  · cases h
  · rename_i hn
    split at h
    · cases h
    · injection h with h
      subst h
      have hn' : a.n = b.n := by simpa using hn
      exact { wf := hw, inNodup := List.nodup_nil, inLt := (fun _ h => nomatch h),
              outLt := (fun _ h => nomatch h),
              inner := fun comp hc => by
                rcases List.mem_append.mp hc with h | h
                · exact ha.inner comp h
                · have := hb.inner comp h
                  rw [← hn'] at this
                  exact this }

theorem built_new (n : Nat) (h : 0 < n) : Built (Circ.new n : Circ K) :=
  { wf := wf_new n h, inNodup := List.nodup_nil, inLt := (fun _ h => nomatch h),
    outLt := (fun _ h => nomatch h), inner := (fun _ h => nomatch h) }

theorem built_unitary (u : M K) (h : 0 < u.n) :
    Built ({ n := u.n, spec := [.prim (.unitary 0 u)] } : Circ K) :=
  { wf := wf_unitary u h, inNodup := List.nodup_nil, inLt := (fun _ h => nomatch h),
    outLt := (fun _ h => nomatch h),
    inner := fun comp hc => by
      rw [List.mem_singleton] at hc
      subst hc
      exact innerOk_prim (p := Prim.unitary 0 u) ⟨h, by simp⟩ }

/-! ### histories of calls on the pool -/

def HeapBuilt (h : Heap K) : Prop := ∀ id c, h.get? id = some c → Built c

variable [Zero K] [One K]

theorem eval_built {h : Heap K} (hh : HeapBuilt h) (op : CircOp K) (hc : OpSane op) {c : Circ K}
    (he : op.eval h = some (.ok c)) : Built c := by
  cases op with
  | new id n =>
    simp only [CircOp.eval, Option.some.injEq, Except.ok.injEq] at he
    subst he; exact built_new n hc
  | unitary id u =>
    simp only [CircOp.eval, Option.some.injEq, Except.ok.injEq] at he
    subst he; exact built_unitary u hc
  | bs id m1 m2 cs cv l rv lv =>
    simp only [CircOp.eval] at he
    cases hg : h.get? id with
    | none => simp [hg] at he
    | some x =>
      simp only [hg, Option.map_some, Option.some.injEq] at he
      exact built_of_appendsPrims (hh id x hg) (wf_bs (hh id x hg).wf he) (appends_bs he)
  | ps id m p l lv =>
    simp only [CircOp.eval] at he
    cases hg : h.get? id with
    | none => simp [hg] at he
    | some x =>
      simp only [hg, Option.map_some, Option.some.injEq] at he
      exact built_of_appendsPrims (hh id x hg) (wf_ps (hh id x hg).wf he) (appends_ps he)
  | loss id m ab lv =>
    simp only [CircOp.eval] at he
    cases hg : h.get? id with
    | none => simp [hg] at he
    | some x =>
      simp only [hg, Option.map_some, Option.some.injEq] at he
      exact built_of_appendsPrims (hh id x hg) (wf_loss (hh id x hg).wf he) (appends_loss he)
  | barrier id ms =>
    simp only [CircOp.eval] at he
    cases hg : h.get? id with
    | none => simp [hg] at he
    | some x =>
      simp only [hg, Option.map_some, Option.some.injEq] at he
      exact built_of_appendsPrims (hh id x hg) (wf_barrier (hh id x hg).wf he) (appends_barrier he)
  | swaps id sw =>
    simp only [CircOp.eval] at he
    cases hg : h.get? id with
    | none => simp [hg] at he
    | some x =>
      simp only [hg, Option.map_some, Option.some.injEq] at he
      exact built_of_appendsPrims (hh id x hg) (wf_modeSwaps (hh id x hg).wf he) (appends_modeSwaps he)
  | herald id n i o =>
    simp only [CircOp.eval] at he
    cases hg : h.get? id with
    | none => simp [hg] at he
    | some x =>
      simp only [hg, Option.map_some, Option.some.injEq] at he
      exact built_herald (hh id x hg) he
  | add id sub m g =>
    simp only [CircOp.eval] at he
    cases ha : h.get? id with
    | none => simp [ha] at he
    | some x =>
      cases hb : h.get? sub with
      | none => simp [ha, hb] at he
      | some y =>
        simp [ha, hb] at he
        exact built_add (hh id x ha) (hh sub y hb) he
  | plus dst a b =>
    simp only [CircOp.eval] at he
    cases ha : h.get? a with
    | none => simp [ha] at he
    | some x =>
      cases hb : h.get? b with
      | none => simp [ha, hb] at he
      | some y =>
        simp [ha, hb] at he
        exact built_plus (hh a x ha) (hh b y hb) he
  | copy dst src =>
    simp only [CircOp.eval] at he
    cases hg : h.get? src with
    | none => simp [hg] at he
    | some x =>
      simp only [hg, Option.map_some, Option.some.injEq, Except.ok.injEq] at he
      subst he; exact hh src x hg
  | unpack id =>
    simp only [CircOp.eval] at he
    cases hg : h.get? id with
    | none => simp [hg] at he
    | some x =>
      simp only [hg, Option.map_some, Option.some.injEq, Except.ok.injEq] at he
      subst he; exact built_unpack (hh id x hg)
  | compress id =>
    simp only [CircOp.eval] at he
    cases hg : h.get? id with
    | none => simp [hg] at he
    | some x =>
      simp only [hg, Option.map_some, Option.some.injEq, Except.ok.injEq] at he
      subst he; exact built_compress (hh id x hg)
  | nonadj id =>
    simp only [CircOp.eval] at he
    cases hg : h.get? id with
    | none => simp [hg] at he
    | some x =>
      simp only [hg, Option.map_some, Option.some.injEq, Except.ok.injEq] at he
      subst he; exact built_removeNonAdj (hh id x hg)

theorem heapStep_built {h h' : Heap K} (hh : HeapBuilt h) (op : CircOp K) (hc : OpSane op)
    {r : Outcome} (hs : heapStep h op = some (h', r)) : HeapBuilt h' := by
  unfold heapStep at hs
  split at hs
  · cases hs
  · rename_i c he
    simp only [Option.some.injEq, Prod.mk.injEq] at hs
    rw [← hs.1]
    intro id x hx
    rcases heap_get?_set hx with rfl | h1
    · exact eval_built hh op hc he
    · exact hh id x h1
  · simp only [Option.some.injEq, Prod.mk.injEq] at hs
    rw [← hs.1]; exact hh

theorem heapRun_built (ops : List (CircOp K)) {h h' : Heap K} (hh : HeapBuilt h)
    (hc : ∀ op ∈ ops, OpSane op) {rs : List Outcome} (hr : heapRun h ops = some (h', rs)) :
    HeapBuilt h' := by
  induction ops generalizing h rs with
  | nil =>
    simp only [heapRun, Option.some.injEq, Prod.mk.injEq] at hr
    rw [← hr.1]; exact hh
  | cons op ops ih =>
    simp only [heapRun] at hr
    cases hs : heapStep h op with
    | none => simp [hs] at hr
    | some p =>
      obtain ⟨h1, r⟩ := p
      cases hr' : heapRun h1 ops with
      | none => simp [hs, hr'] at hr
      | some q =>
        obtain ⟨h2, rs'⟩ := q
        simp [hs, hr'] at hr
        have e2 : h2 = h' := hr.1
        subst e2
        exact ih (heapStep_built hh op (hc op (List.mem_cons_self ..)) hs)
          (fun o ho => hc o (List.mem_cons_of_mem _ ho)) hr'

/-- CONSTRUCTIBLE ⇒ DISPLAYABLE INVARIANT: every object of a pool built from nothing by any
history of API calls whose constructors make at least one mode satisfies `Disp.WF`. -/
theorem constructible_wf (ops : List (CircOp K)) (h : Heap K) (rs : List Outcome)
    (hc : ∀ op ∈ ops, OpSane op) (hr : heapRun [] ops = some (h, rs)) :
    ∀ id c, h.get? id = some c → WF c :=
  fun id c hx => (heapRun_built ops (fun _ _ hx => by simp [Heap.get?] at hx) hc hr id c hx).wf


/-- C19 on the model, end to end: whatever the history of API calls, every object of the pool is
displayed by both back-ends for every valid option record, and `DisplayError` is raised exactly
for the invalid ones. -/
theorem constructible_display (ops : List (CircOp K)) (h : Heap K) (rs : List Outcome)
    (hc : ∀ op ∈ ops, OpSane op) (hr : heapRun [] ops = some (h, rs)) (id : String) (c : Circ K)
    (hx : h.get? id = some c) (o : Opts) :
    (BadOpts c o → display c o = .error .display) ∧
      (¬ BadOpts c o → ∃ out, display c o = .ok out) :=
  have hw := constructible_wf ops h rs hc hr id c hx
  ⟨display_bad c o hw, display_good c o hw⟩

end LW.Disp
