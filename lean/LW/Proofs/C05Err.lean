/-
  C05 helper: the SEMANTIC content of the Analyzer's error-rate fold.

  `analyze` computes, per input, the error rate
    `exps.eraseDups.foldl (fun e o => match outs.idxOf? o with
        | some k => e - row.getD k 0 / sumQ row | none => e) 1`.
  Here it is shown that this is `1 - (Σ of the row entries whose output occurs in exps) / sumQ row`
  (each accepted-and-expected output counted once, `exps` enters only as a set), that it lies in
  `[0, 1]` for a non-negative row of positive sum, and that without the `eraseDups` of repair F31
  the fold can be negative.
-/
import Mathlib.Algebra.Order.Field.Basic
import Mathlib.Algebra.BigOperators.Group.List.Basic
import Mathlib.Algebra.Order.BigOperators.Group.List
import Mathlib.Data.List.Nodup
import Mathlib.Algebra.Order.Field.Rat
import Mathlib.Algebra.Order.Ring.Rat
import LW.Model.Analysis
import LW.Proofs.C05Aux

namespace LW.Proofs.C05
open LW

/-! ### generic list facts -/

theorem eraseDups_nodup {α : Type} [BEq α] [LawfulBEq α] (l : List α) : l.eraseDups.Nodup := by
  suffices h : ∀ (m : Nat) (l : List α), l.length ≤ m → l.eraseDups.Nodup from h _ l le_rfl
  intro m
  induction m with
  | zero =>
    intro l hl
    have : l = [] := List.length_eq_zero_iff.mp (by omega)
    subst this
    simp
  | succ m ih =>
    intro l hl
    cases l with
    | nil => simp
    | cons a t =>
      rw [List.eraseDups_cons, List.nodup_cons]
      refine ⟨?_, ih _ ?_⟩
      · rw [List.mem_eraseDups, List.mem_filter]
        simp
      · have := List.length_filter_le (fun b => !b == a) t
        simp only [List.length_cons] at hl
        omega

/-- over a duplicate-free list an indicator sums to the indicated value if present -/
theorem sum_map_ite_eq_of_nodup {Q α : Type} [AddCommMonoid Q] [DecidableEq α] (l : List α)
    (hl : l.Nodup) (a : α) (c : Q) :
    (l.map fun o => if o = a then c else 0).sum = if a ∈ l then c else 0 := by
  induction l with
  | nil => simp
  | cons x l ih =>
    rw [List.nodup_cons] at hl
    rw [List.map_cons, List.sum_cons, ih hl.2]
    by_cases hx : x = a
    · subst hx
      simp [hl.1]
    · have : ¬ a = x := fun h => hx h.symm
      simp [hx, this]

theorem sum_map_eq_zero {Q α : Type} [AddCommMonoid Q] (f : α → Q) (l : List α)
    (h : ∀ o, f o = 0) : (l.map f).sum = 0 := by
  induction l with
  | nil => rfl
  | cons x l ih => rw [List.map_cons, List.sum_cons, ih, h x, add_zero]

/-- the second components of a zip form a sublist of the second list -/
theorem map_snd_zip_sublist {α β : Type} (l₁ : List α) (l₂ : List β) :
    ((l₁.zip l₂).map (·.2)).Sublist l₂ := by
  induction l₁ generalizing l₂ with
  | nil => simp
  | cons a l₁ ih =>
    cases l₂ with
    | nil => simp
    | cons b l₂ =>
      simp only [List.zip_cons_cons, List.map_cons]
      exact (ih l₂).cons_cons b

/-! ### the weight one expected output removes from the error rate -/

section Field
variable {Q : Type} [Field Q]

/-- what one expected output `o` subtracts: the normalised row entry at the position of `o` among
the reported outputs, nothing if `o` is not a reported output -/
def errW (outs : List FState) (row : List Q) (s : Q) (o : FState) : Q :=
  match outs.idxOf? o with
  | some k => row.getD k 0 / s
  | none => 0

/-- the fold subtracts the weights one by one (no deduplication here) -/
theorem errFold_eq_sub_sum (outs : List FState) (row : List Q) (s : Q) (l : List FState) (a : Q) :
    l.foldl (fun e o => match outs.idxOf? o with
        | some k => e - row.getD k 0 / s
        | none => e) a = a - (l.map (errW outs row s)).sum := by
  induction l generalizing a with
  | nil => simp
  | cons x l ih =>
    rw [List.foldl_cons, ih, List.map_cons, List.sum_cons]
    unfold errW
    cases outs.idxOf? x with
    | none => simp
    | some k => exact sub_sub _ _ _

theorem errW_nil (row : List Q) (s : Q) (o : FState) : errW [] row s o = 0 := by
  simp [errW]

theorem errW_row_nil (outs : List FState) (s : Q) (o : FState) : errW outs ([] : List Q) s o = 0 := by
  unfold errW
  cases outs.idxOf? o with
  | none => rfl
  | some k => simp

theorem errW_of_not_mem (outs : List FState) (row : List Q) (s : Q) (o : FState) (h : o ∉ outs) :
    errW outs row s o = 0 := by
  unfold errW
  rw [List.idxOf?_eq_none_iff.2 h]

theorem errW_cons (a : FState) (outs : List FState) (p : Q) (row : List Q) (s : Q) (o : FState)
    (ha : a ∉ outs) :
    errW (a :: outs) (p :: row) s o = (if o = a then p / s else 0) + errW outs row s o := by
  by_cases hoa : o = a
  · subst hoa
    rw [errW_of_not_mem outs row s o ha, if_pos rfl, add_zero]
    unfold errW
    rw [List.idxOf?_cons]
    simp
  · rw [if_neg hoa, zero_add]
    unfold errW
    rw [List.idxOf?_cons]
    have : (a == o) = false := by
      rw [beq_eq_false_iff_ne]
      exact fun h => hoa h.symm
    rw [this]
    simp only [Bool.false_eq_true, if_false]
    cases outs.idxOf? o with
    | none => rfl
    | some k => simp

/-- KEY: over a duplicate-free list of expected outputs the weights add up to the total of the row
entries whose (distinct) output is expected, normalised -/
theorem sum_errW_eq (outs : List FState) (hnd : outs.Nodup) (row : List Q) (s : Q)
    (l : List FState) (hl : l.Nodup) :
    (l.map (errW outs row s)).sum =
      (((outs.zip row).filter fun x => l.contains x.1).map (·.2)).sum / s := by
  induction outs generalizing row with
  | nil => rw [sum_map_eq_zero _ _ (errW_nil row s)]; simp
  | cons a outs ih =>
    rw [List.nodup_cons] at hnd
    cases row with
    | nil => rw [sum_map_eq_zero _ _ (errW_row_nil (a :: outs) s)]; simp
    | cons p row =>
      have h1 : (l.map (errW (a :: outs) (p :: row) s)) =
          l.map fun o => (if o = a then p / s else 0) + errW outs row s o :=
        List.map_congr_left fun o _ => errW_cons a outs p row s o hnd.1
      rw [h1, List.sum_map_add, sum_map_ite_eq_of_nodup l hl, ih hnd.2, List.zip_cons_cons]
      by_cases hal : a ∈ l
      · rw [List.filter_cons_of_pos (by simpa using hal), if_pos hal, List.map_cons, List.sum_cons,
          add_div]
      · rw [List.filter_cons_of_neg (by simpa using hal), if_neg hal, zero_add]

/-- (1), with an arbitrary normalisation `s` -/
theorem errFold_eraseDups_eq (outs : List FState) (hnd : outs.Nodup) (row : List Q) (s : Q)
    (exps : List FState) :
    exps.eraseDups.foldl (fun e o => match outs.idxOf? o with
        | some k => e - row.getD k 0 / s
        | none => e) 1 =
      1 - (((outs.zip row).filter fun x => exps.contains x.1).map (·.2)).sum / s := by
  rw [errFold_eq_sub_sum, sum_errW_eq outs hnd row s _ (eraseDups_nodup exps)]
  congr 4
  apply List.filter_congr
  intro x _
  simp only [List.contains_eq_mem, List.mem_eraseDups]

/-- (1) THE ERROR RATE IS ONE MINUS THE ACCEPTED-AND-EXPECTED FRACTION: for distinct reported outputs
the Analyzer's fold equals `1 - (Σ row[k] over the positions k whose output occurs in exps) / Σ row`;
the expected list enters only through membership, every accepted-and-expected output is counted
exactly once however often it is listed. -/
theorem error_fold_eq_set_sum (row : List Q) (outs exps : List FState) (hnd : outs.Nodup) :
    exps.eraseDups.foldl (fun e o => match outs.idxOf? o with
        | some k => e - row.getD k 0 / sumQ row
        | none => e) 1 =
      1 - (((outs.zip row).filter fun x => exps.contains x.1).map (·.2)).sum / sumQ row :=
  errFold_eraseDups_eq outs hnd row (sumQ row) exps

/-- two expected lists with the same members (any order, any multiplicities) give the same value -/
theorem error_fold_perm_dup_invariant (row : List Q) (outs e₁ e₂ : List FState) (hnd : outs.Nodup)
    (h : ∀ o, o ∈ e₁ ↔ o ∈ e₂) :
    e₁.eraseDups.foldl (fun e o => match outs.idxOf? o with
        | some k => e - row.getD k 0 / sumQ row
        | none => e) 1 =
    e₂.eraseDups.foldl (fun e o => match outs.idxOf? o with
        | some k => e - row.getD k 0 / sumQ row
        | none => e) 1 := by
  rw [error_fold_eq_set_sum row outs e₁ hnd, error_fold_eq_set_sum row outs e₂ hnd]
  congr 4
  apply List.filter_congr
  intro x _
  simp only [List.contains_eq_mem, h]

end Field

/-! ### the error rate of one input lies in `[0, 1]` -/

section Ordered
variable {Q : Type} [Field Q] [LinearOrder Q] [IsStrictOrderedRing Q]

/-- (2) for a non-negative row of positive total and distinct reported outputs the fold lies in
`[0, 1]` (the row may even be longer or shorter than the list of outputs) -/
theorem error_fold_in_unit_interval (row : List Q) (outs exps : List FState)
    (hrow : ∀ p ∈ row, 0 ≤ p) (hs : 0 < sumQ row) (hnd : outs.Nodup) :
    0 ≤ exps.eraseDups.foldl (fun e o => match outs.idxOf? o with
        | some k => e - row.getD k 0 / sumQ row
        | none => e) 1 ∧
    exps.eraseDups.foldl (fun e o => match outs.idxOf? o with
        | some k => e - row.getD k 0 / sumQ row
        | none => e) 1 ≤ 1 := by
  rw [error_fold_eq_set_sum row outs exps hnd]
  have hsub : ((((outs.zip row).filter fun x => exps.contains x.1).map (·.2))).Sublist row :=
    (List.filter_sublist.map _).trans (map_snd_zip_sublist outs row)
  have h0 : 0 ≤ (((outs.zip row).filter fun x => exps.contains x.1).map (·.2)).sum :=
    List.sum_nonneg fun p hp => hrow p (hsub.subset hp)
  have h1 : (((outs.zip row).filter fun x => exps.contains x.1).map (·.2)).sum ≤ sumQ row := by
    rw [sumQ_eq_sum]
    exact hsub.sum_le_sum hrow
  constructor
  · rw [sub_nonneg, div_le_one hs]
    exact h1
  · rw [sub_le_self_iff]
    exact div_nonneg h0 hs.le

end Ordered

/-! ### F31: why the deduplication was needed -/

/-- (4) WITHOUT `eraseDups` (the code before repair F31) the fold can be negative: one output of
probability one, listed twice as expected, gives `1 - 1 - 1 = -1` -/
theorem error_fold_without_dedup_can_be_negative :
    ∃ (row : List Rat) (outs exps : List FState), outs.Nodup ∧
      exps.foldl (fun e o => match outs.idxOf? o with
        | some k => e - row.getD k 0 / sumQ row
        | none => e) 1 < 0 ∧
      exps.eraseDups.foldl (fun e o => match outs.idxOf? o with
        | some k => e - row.getD k 0 / sumQ row
        | none => e) 1 = 0 :=
  ⟨[1], [[1]], [[1], [1]], by decide, by decide +kernel, by decide +kernel⟩

/-! ### non-vacuity of (2): a non-negative row of total one, an expected output listed twice and one
that is not a reported output -/

example :
    (0 : Rat) ≤ [[1, 0], [1, 0], [5, 5]].eraseDups.foldl (fun e o =>
        match [[1, 0], [0, 1]].idxOf? o with
        | some k => e - ([1 / 4, 3 / 4] : List Rat).getD k 0 / sumQ ([1 / 4, 3 / 4] : List Rat)
        | none => e) 1 ∧
    [[1, 0], [1, 0], [5, 5]].eraseDups.foldl (fun e o =>
        match [[1, 0], [0, 1]].idxOf? o with
        | some k => e - ([1 / 4, 3 / 4] : List Rat).getD k 0 / sumQ ([1 / 4, 3 / 4] : List Rat)
        | none => e) 1 ≤ 1 :=
  error_fold_in_unit_interval ([1 / 4, 3 / 4] : List Rat) [[1, 0], [0, 1]] [[1, 0], [1, 0], [5, 5]]
    (by decide +kernel) (by decide +kernel) (by decide)

example :
    [[1, 0], [1, 0], [5, 5]].eraseDups.foldl (fun e o =>
        match [[1, 0], [0, 1]].idxOf? o with
        | some k => e - ([1 / 4, 3 / 4] : List Rat).getD k 0 / sumQ ([1 / 4, 3 / 4] : List Rat)
        | none => e) 1 = 3 / 4 := by
  decide +kernel

end LW.Proofs.C05
