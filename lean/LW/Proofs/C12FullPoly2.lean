/-
  LW.Proofs.C12FullPoly2 — two-weight conservation laws, placement of a homomorphism through a
  partial injection (the polynomial form of `Optic.embedVia`), relabelling of modes, and the
  amplitude of a circuit in its closed layout.
-/
import LW.Proofs.C12FullPoly
import LW.Proofs.C12FullBridge
import LW.Proofs.C12FullLayout
import LW.Proofs.C02SemEmbed
import LW.Model.Gates

open MvPolynomial

namespace LW.C12F

open LW LW.Proofs.C02Sem

variable {R : Type} [CommRing R]

/-! ### conservation laws with a change of weight -/

/-- `φ` maps a creation operator of weight `wt j` to a form of weight `wt j` for `wt'` -/
def Pres2 (wt wt' : ℕ → ℕ) (φ : Hom R) : Prop := ∀ j, IsWeightedHomogeneous wt' (φ (X j)) (wt j)

theorem pres2_iff_pres (wt : ℕ → ℕ) (φ : Hom R) : Pres2 wt wt φ ↔ Pres wt φ := Iff.rfl

theorem Pres2.monomial {wt wt' : ℕ → ℕ} {φ : Hom R} (h : Pres2 wt wt' φ) (s : ℕ →₀ ℕ) :
    IsWeightedHomogeneous wt' (φ (monomial s 1)) (Finsupp.weight wt s) := by
  rw [← prod_X_pow_eq_monomial, map_prod, Finsupp.weight_apply]
  unfold Finsupp.sum
  apply IsWeightedHomogeneous.prod
  intro j _
  rw [map_pow]
  exact (h j).pow (s j)

theorem Pres2.apply {wt wt' : ℕ → ℕ} {φ : Hom R} (h : Pres2 wt wt' φ) {p : MvPolynomial ℕ R} {n : ℕ}
    (hp : IsWeightedHomogeneous wt p n) : IsWeightedHomogeneous wt' (φ p) n := by
  classical
  rw [as_sum p, map_sum]
  apply IsWeightedHomogeneous.sum
  intro v hv
  have hc : coeff v p ≠ 0 := mem_support_iff.mp hv
  have hw : Finsupp.weight wt v = n := by
    by_contra hne
    exact hc (hp.coeff_eq_zero v hne)
  rw [← mul_one (coeff v p), ← C_mul_monomial, map_mul, algHom_C]
  have := (h.monomial v).C_mul (coeff v p)
  rw [hw] at this
  exact this

theorem Pres2.comp {wt wt' wt'' : ℕ → ℕ} {φ ψ : Hom R} (hφ : Pres2 wt' wt'' φ) (hψ : Pres2 wt wt' ψ) :
    Pres2 wt wt'' (φ.comp ψ) := by
  intro j
  rw [AlgHom.comp_apply]
  exact hφ.apply (hψ j)

theorem Pres2.amp_eq_zero {wt wt' : ℕ → ℕ} {φ : Hom R} (h : Pres2 wt wt' φ) {t s : ℕ →₀ ℕ}
    (hne : Finsupp.weight wt' t ≠ Finsupp.weight wt s) : amp φ t s = 0 :=
  (h.monomial s).coeff_eq_zero t hne

theorem pres2_homOf (wt wt' : ℕ → ℕ) (U : Nat → Nat → R) (D : Nat)
    (h : ∀ i j, i < D → j < D → U i j ≠ 0 → wt' i = wt j) (h' : ∀ j, D ≤ j → wt' j = wt j) :
    Pres2 wt wt' (homOf U D) := by
  intro j
  by_cases hj : j < D
  · rw [homOf_X_lt _ hj]
    unfold colForm
    apply IsWeightedHomogeneous.sum
    intro i hi
    by_cases hz : U i j = 0
    · rw [hz, C_0, zero_mul]
      exact isWeightedHomogeneous_zero R _ _
    · have := (isWeightedHomogeneous_X R wt' i).C_mul (U i j)
      rw [h i j (Finset.mem_range.mp hi) hj hz] at this
      exact this
  · rw [homOf_X_ge _ (by omega)]
    have := isWeightedHomogeneous_X R wt' j
    rw [h' j (by omega)] at this
    exact this

theorem Pres2.id (wt : ℕ → ℕ) : Pres2 wt wt (AlgHom.id R (MvPolynomial ℕ R)) := Pres.id wt

/-! ### homomorphisms agreeing on the variables of a monomial -/

theorem algHom_monomial_congr {A : Type} [CommSemiring A] [Algebra R A]
    (φ ψ : MvPolynomial ℕ R →ₐ[R] A) (s : ℕ →₀ ℕ)
    (h : ∀ j ∈ s.support, φ (X j) = ψ (X j)) : φ (monomial s 1) = ψ (monomial s 1) := by
  rw [← prod_X_pow_eq_monomial, map_prod, map_prod]
  apply Finset.prod_congr rfl
  intro j hj
  rw [map_pow, map_pow, h j hj]

/-! ### placement through a partial injection -/

/-- `φ` acting on the variables in the image of `fwd`, all other variables fixed -/
noncomputable def placeHomG (φ : Hom R) (fwd : ℕ → ℕ) (inv : ℕ → Option ℕ) (D : ℕ) : Hom R :=
  aeval fun j => if j < D then (match inv j with
    | some y => rename fwd (φ (X y))
    | none => X j) else X j

theorem placeHomG_X_some (φ : Hom R) (fwd : ℕ → ℕ) (inv : ℕ → Option ℕ) {D j y : ℕ} (hj : j < D)
    (hi : inv j = some y) : placeHomG φ fwd inv D (X j) = rename fwd (φ (X y)) := by
  unfold placeHomG
  rw [aeval_X, if_pos hj, hi]

theorem placeHomG_X_none (φ : Hom R) (fwd : ℕ → ℕ) (inv : ℕ → Option ℕ) {D j : ℕ}
    (hi : j < D → inv j = none) : placeHomG φ fwd inv D (X j) = X j := by
  unfold placeHomG
  rw [aeval_X]
  by_cases hj : j < D
  · rw [if_pos hj, hi hj]
  · rw [if_neg hj]

/-- the polynomial form of `Optic.embedVia` -/
theorem homOf_embedVia {d D : ℕ} {fwd : ℕ → ℕ} {inv : ℕ → Option ℕ} (h : PInj d D fwd inv)
    (S : M R) :
    homOf (Optic.embedVia D S inv).get D = placeHomG (homOf S.get d) fwd inv D := by
  apply algHom_ext
  intro j
  by_cases hj : j < D
  · rw [homOf_X_lt _ hj]
    cases hi : inv j with
    | none =>
      rw [placeHomG_X_none _ _ _ (fun _ => hi)]
      unfold colForm
      rw [Finset.sum_eq_single j]
      · rw [get_embedVia_none_right S hj hj hi, if_pos rfl, C_1, one_mul]
      · intro r hr hne
        rw [get_embedVia_none_right S (Finset.mem_range.mp hr) hj hi, if_neg hne, C_0, zero_mul]
      · intro hn
        exact absurd (Finset.mem_range.mpr hj) hn
    | some y =>
      obtain ⟨hy, ey⟩ := h.inv_some j y hj hi
      rw [placeHomG_X_some _ _ _ hj hi, homOf_X_lt _ hy]
      unfold colForm
      rw [map_sum]
      rw [sum_image h (fun r => C ((Optic.embedVia D S inv).get r j) * X r)]
      · apply Finset.sum_congr rfl
        intro x hx
        have hx' := Finset.mem_range.mp hx
        rw [map_mul, rename_C, rename_X]
        congr 2
        rw [← ey]
        exact get_embedVia_fwd h S hx' hy
      · intro k hk hik
        have hne : k ≠ j := by
          intro e
          rw [e, hi] at hik
          cases hik
        show C ((Optic.embedVia D S inv).get k j) * X k = 0
        rw [get_embedVia_none_left S hk hj hik, if_neg hne, C_0, zero_mul]
  · rw [homOf_X_ge _ (by omega), placeHomG_X_none _ _ _ (fun hh => absurd hh hj)]

/-- amplitude of a placed homomorphism between states that agree outside the placement -/
theorem amp_placeHomG {d D : ℕ} {fwd : ℕ → ℕ} {inv : ℕ → Option ℕ} (h : PInj d D fwd inv)
    (hinj : Function.Injective fwd) (φ : Hom R) (s t o : ℕ →₀ ℕ)
    (hs : ∀ y ∈ s.support, y < d) (ho : ∀ j ∈ o.support, j < D → inv j = none) :
    amp (placeHomG φ fwd inv D) (Finsupp.mapDomain fwd t + o) (Finsupp.mapDomain fwd s + o) =
      amp φ t s := by
  unfold amp
  have h1 : (monomial (Finsupp.mapDomain fwd s + o) (1 : R))
      = monomial (Finsupp.mapDomain fwd s) 1 * monomial o 1 := by
    rw [monomial_mul, mul_one]
  have h2 : placeHomG φ fwd inv D (monomial o 1) = monomial o 1 := by
    have := algHom_monomial_congr (placeHomG φ fwd inv D) (AlgHom.id R _) o (by
      intro j hj
      rw [AlgHom.id_apply]
      exact placeHomG_X_none _ _ _ (ho j hj))
    rw [this, AlgHom.id_apply]
  have h3 : placeHomG φ fwd inv D (monomial (Finsupp.mapDomain fwd s) 1)
      = rename fwd (φ (monomial s 1)) := by
    rw [← rename_monomial]
    have := algHom_monomial_congr ((placeHomG φ fwd inv D).comp (rename fwd))
      ((rename fwd).comp φ) s (by
        intro y hy
        have hy' := hs y hy
        rw [AlgHom.comp_apply, AlgHom.comp_apply, rename_X]
        exact placeHomG_X_some _ _ _ (h.fwd_lt y hy') (h.inv_fwd y hy'))
    rw [AlgHom.comp_apply, AlgHom.comp_apply] at this
    exact this
  rw [h1, map_mul, h2, h3, coeff_mul_monomial, mul_one]
  exact coeff_rename_mapDomain fwd hinj _ t

/-! ### relabelling the modes -/

theorem amp_homOf_conj (U : ℕ → ℕ → R) (D : ℕ) (ρ : ℕ → ℕ) (hinj : Function.Injective ρ)
    (hlt : ∀ y, y < D → ρ y < D) (hsurj : ∀ z, z < D → ∃ y, y < D ∧ ρ y = z)
    (t s : ℕ →₀ ℕ) (hs : ∀ y ∈ s.support, y < D) :
    amp (homOf U D) (Finsupp.mapDomain ρ t) (Finsupp.mapDomain ρ s) =
      amp (homOf (fun r k => U (ρ r) (ρ k)) D) t s := by
  unfold amp
  rw [← rename_monomial]
  have key := algHom_monomial_congr ((homOf U D).comp (rename ρ))
    ((rename ρ).comp (homOf (fun r k => U (ρ r) (ρ k)) D)) s (by
      intro y hy
      have hy' := hs y hy
      rw [AlgHom.comp_apply, AlgHom.comp_apply, rename_X, homOf_X_lt _ (hlt y hy'),
        homOf_X_lt _ hy']
      unfold colForm
      rw [map_sum]
      symm
      apply Finset.sum_nbij ρ
      · intro a ha
        exact Finset.mem_range.mpr (hlt a (Finset.mem_range.mp ha))
      · intro a _ b _ e
        exact hinj e
      · intro z hz
        obtain ⟨y', hy', e⟩ := hsurj z (Finset.mem_range.mp hz)
        exact ⟨y', Finset.mem_range.mpr hy', e⟩
      · intro a _
        rw [map_mul, rename_C, rename_X])
  rw [AlgHom.comp_apply, AlgHom.comp_apply] at key
  rw [key]
  exact coeff_rename_mapDomain ρ hinj _ t

/-! ### the amplitude of a circuit in its closed layout -/

theorem layout_ge (her : Dict) (n : Nat) {y : Nat} (hy : n ≤ y) : layout her n y = y := by
  unfold layout
  rw [if_neg (by omega), if_neg (by omega)]

theorem layout_injective {her : Dict} {n : Nat} (hnd : her.keys.Nodup) (hlt : ∀ k ∈ her.keys, k < n) :
    Function.Injective (layout her n) := by
  intro a b e
  by_cases ha : a < n
  · by_cases hb : b < n
    · exact layout_inj hnd hlt ha hb e
    · have h1 := layout_lt hnd hlt ha
      rw [e, layout_ge her n (by omega)] at h1
      omega
  · by_cases hb : b < n
    · have h1 := layout_lt hnd hlt hb
      rw [← e, layout_ge her n (by omega)] at h1
      omega
    · rw [layout_ge her n (by omega), layout_ge her n (by omega)] at e
      exact e

theorem toFinsupp_fullState {her : Dict} {n : Nat} (hnd : her.keys.Nodup)
    (hlt : ∀ k ∈ her.keys, k < n) (s : List Nat) (hs : s.length = n - her.length) :
    (LW.QF.fullState her n s).toFinsupp =
      Finsupp.mapDomain (layout her n) (s ++ her.map (·.2)).toFinsupp := by
  have hle := her_length_le hnd hlt
  have hinj := layout_injective hnd hlt
  ext z
  have hz : ∃ y, layout her n y = z ∧ (y < n ↔ z < n) := by
    by_cases hzn : z < n
    · obtain ⟨y, hy, e⟩ := layout_surj hnd hlt hzn
      exact ⟨y, e, by simp [hy, hzn]⟩
    · exact ⟨z, layout_ge her n (by omega), Iff.rfl⟩
  obtain ⟨y, rfl, hyz⟩ := hz
  rw [Finsupp.mapDomain_apply hinj, List.toFinsupp_apply, List.toFinsupp_apply]
  by_cases hy : y < n
  · exact fullState_layout hnd hlt s hs y hy
  · rw [layout_ge her n (by omega)]
    have l1 : (LW.QF.fullState her n s).length ≤ y := by rw [fullState_length]; omega
    have l2 : (s ++ her.map (·.2)).length ≤ y := by
      rw [List.length_append, List.length_map, hs]; omega
    rw [List.getD_eq_default _ _ l1, List.getD_eq_default _ _ l2]

/-- closed entry function of a circuit: `U_full` read in the layout
`[free modes ascending | herald modes in declaration order]` -/
def closedE (i : R) (c : Circ R) : ℕ → ℕ → R :=
  fun r k => (c.Ufull i).get (layout c.inHer c.n r) (layout c.inHer c.n k)

/-- the substitution homomorphism of a circuit in its closed layout -/
noncomputable def circHom (i : R) (c : Circ R) : Hom R := homOf (closedE i c) c.n

end LW.C12F
