/-
  LW.Proofs.C15Full3 — the matrices of the stretched basis changes and the circuits clause of C15
  for every well-formed base circuit.
-/
import LW.Proofs.C15Full2

namespace LW.Tomo

open LW.Proofs.C02

variable {K : Type} [CommRing K]

set_option linter.unusedSectionVars false

/-! ### the stretched 2×2 unitaries -/

/-- `add_mode_to_unitary` at positions `1, …, t` -/
def stretchU : Nat → M K → M K
  | 0, u => u
  | t + 1, u => addModeToUnitary (stretchU t u) (t + 1)

theorem stretchU_n (t : Nat) (u : M K) : (stretchU t u).n = u.n + t := by
  induction t with
  | zero => rfl
  | succ t ih =>
    show (addModeToUnitary (stretchU t u) (t + 1)).n = _
    unfold addModeToUnitary
    rw [M.ofFn_n, ih]; omega

/-- the unitaries of `MEASUREMENT_MAPPING[g]`, in circuit order -/
def measUs (i h : K) : Pauli → List (M K)
  | .X => [hM h]
  | .Y => [sM i, zM, hM h]
  | .Z => [M.one 2]
  | .I => [M.one 2]

theorem measUs_n (i h : K) (g : Pauli) : ∀ u ∈ measUs i h g, u.n = 2 := by
  cases g <;> simp [measUs, hM, sM, zM]

theorem measCirc_spec (i h : K) (g : Pauli) :
    (measCirc i h g).spec = (measUs i h g).map fun u => Comp.prim (.unitary 0 u) := by
  cases g <;> rfl

theorem stretchSpec_unitaries (us : List (M K)) (hus : ∀ u ∈ us, u.n = 2) (t : Nat) :
    stretchSpec t (us.map fun u => Comp.prim (.unitary 0 u))
      = us.map fun u => Comp.prim (.unitary 0 (stretchU t u)) := by
  induction t with
  | zero => rfl
  | succ t ih =>
    show Circ.addEmptyModeSpec (stretchSpec t _) (t + 1) = _
    rw [ih]
    unfold Circ.addEmptyModeSpec
    rw [List.map_map]
    apply List.map_congr_left
    intro u hu
    have hn : (stretchU t u).n = t + 2 := by rw [stretchU_n, hus u hu]; omega
    have hb : bump (t + 1) 0 = 0 := by simp [bump]
    simp only [Function.comp, Comp.addEmptyMode, Prim.addEmptyMode, hb]
    rw [if_pos ⟨by omega, by omega⟩]
    rfl

/-- entries of the stretched unitary: the 2×2 block sits on positions `0` and `t + 1` -/
theorem stretchU_get (u : M K) (hu : u.n = 2) (t : Nat) {p q : Nat} (hp : p < t + 2) (hq : q < t + 2) :
    (stretchU t u).get p q =
      if p = 0 ∧ q = 0 then u.get 0 0 else if p = 0 ∧ q = t + 1 then u.get 0 1
      else if p = t + 1 ∧ q = 0 then u.get 1 0 else if p = t + 1 ∧ q = t + 1 then u.get 1 1
      else if p = q then 1 else 0 := by
  induction t generalizing p q with
  | zero =>
    have : p = 0 ∨ p = 1 := by omega
    have : q = 0 ∨ q = 1 := by omega
    rcases ‹p = 0 ∨ p = 1› with rfl | rfl <;> rcases ‹q = 0 ∨ q = 1› with rfl | rfl <;> simp [stretchU]
  | succ t ih =>
    have hn : (stretchU t u).n = t + 2 := by rw [stretchU_n, hu]; omega
    show (addModeToUnitary (stretchU t u) (t + 1)).get p q = _
    unfold addModeToUnitary
    rw [M.get_ofFn _ (by omega) (by omega)]
    by_cases h1 : p = t + 1 ∨ q = t + 1
    · rw [if_pos h1]
      obtain ⟨n1, n2, n3, n4⟩ : ¬ (p = 0 ∧ q = 0) ∧ ¬ (p = 0 ∧ q = t + 1 + 1) ∧
          ¬ (p = t + 1 + 1 ∧ q = 0) ∧ ¬ (p = t + 1 + 1 ∧ q = t + 1 + 1) := by
        refine ⟨?_, ?_, ?_, ?_⟩ <;> omega
      rw [if_neg n1, if_neg n2, if_neg n3, if_neg n4]
    · rw [if_neg h1]
      obtain ⟨p', hp'⟩ : ∃ p', p' = (if p > t + 1 then p - 1 else p) := ⟨_, rfl⟩
      obtain ⟨q', hq'⟩ : ∃ q', q' = (if q > t + 1 then q - 1 else q) := ⟨_, rfl⟩
      rw [← hp', ← hq']
      have hp'' : (p = t + 2 ∧ p' = t + 1) ∨ (p ≤ t ∧ p' = p) := by
        rw [hp']; split <;> omega
      have hq'' : (q = t + 2 ∧ q' = t + 1) ∨ (q ≤ t ∧ q' = q) := by
        rw [hq']; split <;> omega
      rw [ih (p := p') (q := q') (by omega) (by omega)]
      clear hp' hq' ih
      obtain ⟨e1, e2, e3, e4, e5⟩ : ((p' = 0 ∧ q' = 0) ↔ (p = 0 ∧ q = 0)) ∧
          ((p' = 0 ∧ q' = t + 1) ↔ (p = 0 ∧ q = t + 1 + 1)) ∧
          ((p' = t + 1 ∧ q' = 0) ↔ (p = t + 1 + 1 ∧ q = 0)) ∧
          ((p' = t + 1 ∧ q' = t + 1) ↔ (p = t + 1 + 1 ∧ q = t + 1 + 1)) ∧
          (p' = q' ↔ p = q) := by
        refine ⟨?_, ?_, ?_, ?_, ?_⟩ <;> omega
      simp only [e1, e2, e3, e4, e5]

/-- the stretched unitary placed at mode `a` is the 2×2 unitary on the rails `a` and `a + t + 1` -/
theorem embedBlock_stretchU (N a t : Nat) (u : M K) (hu : u.n = 2) :
    embedBlock N a (stretchU t u)
      = embed2 N a (a + t + 1) (u.get 0 0) (u.get 0 1) (u.get 1 0) (u.get 1 1) := by
  have hn : (stretchU t u).n = t + 2 := by rw [stretchU_n, hu]; omega
  unfold embedBlock embed2
  apply M.ofFn_congr
  intro r k _ _
  rw [hn]
  by_cases hb : a ≤ r ∧ r < a + (t + 2) ∧ a ≤ k ∧ k < a + (t + 2)
  · rw [if_pos hb, stretchU_get u hu t (by omega) (by omega)]
    obtain ⟨e1, e2, e3, e4, e5⟩ : ((r - a = 0 ∧ k - a = 0) ↔ (r = a ∧ k = a)) ∧
        ((r - a = 0 ∧ k - a = t + 1) ↔ (r = a ∧ k = a + t + 1)) ∧
        ((r - a = t + 1 ∧ k - a = 0) ↔ (r = a + t + 1 ∧ k = a)) ∧
        ((r - a = t + 1 ∧ k - a = t + 1) ↔ (r = a + t + 1 ∧ k = a + t + 1)) ∧
        (r - a = k - a ↔ r = k) := by
      refine ⟨?_, ?_, ?_, ?_, ?_⟩ <;> omega
    simp only [e1, e2, e3, e4, e5]
  · rw [if_neg hb]
    obtain ⟨n1, n2, n3, n4⟩ : ¬ (r = a ∧ k = a) ∧ ¬ (r = a ∧ k = a + t + 1) ∧
        ¬ (r = a + t + 1 ∧ k = a) ∧ ¬ (r = a + t + 1 ∧ k = a + t + 1) := by
      refine ⟨?_, ?_, ?_, ?_⟩ <;> omega
    rw [if_neg n1, if_neg n2, if_neg n3, if_neg n4]

theorem compileComp_unitary (i : K) (U : M K) (a : Nat) (v : M K) :
    compileComp i U (.prim (.unitary a v)) = (embedBlock U.n a v).mul U := rfl

/-! ### `U_full` of the requested circuit -/

theorem stretchedSpec_eq (i h : K) (base : Circ K) (k : Nat) (s : Meas) :
    stretchedSpec i h base k s = ((List.range' k s.length).zip s).flatMap fun ks =>
      (stretchSpec (railGap base (2 * ks.1)) (measCirc i h ks.2).spec).map
        (Comp.shift (base.mapMode ((2 * ks.1 : Nat) : Int)).toNat) := by
  induction s generalizing k with
  | nil => simp [stretchedSpec]
  | cons g t ih =>
    simp only [stretchedSpec, List.length_cons, List.range'_succ, List.zip_cons_cons,
      List.flatMap_cons]
    rw [ih]

/-- `U_full` of the requested circuit: the base's, followed by the stretched components -/
theorem requested_Ufull_stretch (i h : K) (nQ : Nat) (base : Circ K) (s : Meas) (hs : s.length = nQ) :
    Circ.Ufull i { base with spec := base.spec ++ stretchedSpec i h base 0 s }
      = ((List.range nQ).zip s).foldl
          (fun U ks => ((stretchSpec (railGap base (2 * ks.1)) (measCirc i h ks.2).spec).map
            (Comp.shift (base.mapMode (2 * (ks.1 : Int))).toNat)).foldl (compileComp i) U)
          (base.Ufull i) := by
  simp only [Circ.Ufull, compile, List.foldl_append]
  rw [stretchedSpec_eq, List.foldl_flatMap, hs, List.range_eq_range']
  rfl

/-- the circuits clause for every well-formed base circuit (specification form) -/
theorem requested_circuits_wf (i h : K) (nQ : Nat) (base : Circ K) (s : Meas) (hwf : base.WF)
    (hin : base.inputModes = 2 * nQ) (hs : s.length = nQ) :
    ∃ c, createCircuit nQ base (s.map (measCirc i h)) = .ok c ∧ c.n = base.n ∧
      c.inHer = base.inHer ∧ c.outHer = base.outHer ∧ c.internal = base.internal ∧
      Circ.Ufull i c = ((List.range nQ).zip s).foldl
        (fun U ks => ((stretchSpec (railGap base (2 * ks.1)) (measCirc i h ks.2).spec).map
            (Comp.shift (base.mapMode (2 * (ks.1 : Int))).toNat)).foldl (compileComp i) U)
        (base.Ufull i) :=
  ⟨_, createCircuit_stretch i h nQ base hwf hin s hs, rfl, rfl, rfl, rfl,
    requested_Ufull_stretch i h nQ base s hs⟩

end LW.Tomo
