/-
  LW.Proofs.ReachRewrite — swap compression and non-adjacent beam-splitter conversion preserve
  `SpecWf` / `SpecGroupOk` (hence `Circ.WF`).
-/
import LW.Proofs.ReachSwaps
import LW.Proofs.C09

set_option linter.unusedSectionVars false

namespace LW.Proofs.Reach

open LW LW.Proofs.C02

variable {K : Type} [CommRing K] [StarRing K]

/-- replacing the spec by a well-formed one keeps the bookkeeping invariant -/
theorem WF_of_spec (c : Circ K) (h : c.WF) (spec' : List (Comp K)) (hw : SpecWf c.n spec') :
    ({ c with spec := spec' } : Circ K).WF :=
  ⟨h.inNodup, h.outNodup, h.inLt, h.outLt, h.lenEq, h.intNodup, h.intHer, SpecWf.modes_lt hw⟩

/-! ### swap compression -/

theorem compressScan_ok (n : Nat) (rest : List (Nat × Comp K)) (σ : Dict) (b s : List Nat) :
    SwapsOk n σ → (∀ p ∈ rest, p.2.Wf n) → SwapsOk n (compressScan rest σ b s).1 := by
  fun_induction compressScan rest σ b s with
  | case1 => intro hσ _; exact hσ
  | case2 k c rest σ b s hk ih =>
    intro hσ hw
    exact ih hσ (fun p hp => hw p (List.mem_cons_of_mem _ hp))
  | case3 k rest σ b s hk τ hb ih =>
    intro hσ hw
    exact ih hσ (fun p hp => hw p (List.mem_cons_of_mem _ hp))
  | case4 k rest σ b s hk τ hb ih =>
    intro hσ hw
    exact ih (SwapsOk.combine hσ (hw (k, .prim (.swaps τ)) List.mem_cons_self))
      (fun p hp => hw p (List.mem_cons_of_mem _ hp))
  | case5 k rest σ b s hk c hns ih =>
    intro hσ hw
    exact ih hσ (fun p hp => hw p (List.mem_cons_of_mem _ hp))

theorem compressGo_ok (n : Nat) (l : List (Nat × Comp K)) (skip : List Nat) :
    (∀ p ∈ l, p.2.Wf n ∧ p.2.GroupOk) → ∀ c ∈ compressGo l skip, c.Wf n ∧ c.GroupOk := by
  fun_induction compressGo l skip with
  | case1 => intro _ c hc; cases hc
  | case2 k c rest skip hk ih =>
    intro hw
    exact ih (fun p hp => hw p (List.mem_cons_of_mem _ hp))
  | case3 k rest skip hk τ σ' skip' hscan ih =>
    intro hw c hc
    have hw' : ∀ p ∈ rest, p.2.Wf n ∧ p.2.GroupOk := fun p hp => hw p (List.mem_cons_of_mem _ hp)
    rcases List.mem_cons.mp hc with rfl | hc
    · have := compressScan_ok n rest τ [] skip (hw (k, .prim (.swaps τ)) List.mem_cons_self).1
        (fun p hp => (hw' p hp).1)
      rw [hscan] at this
      exact ⟨this, trivial⟩
    · exact ih hw' c hc
  | case4 k rest skip hk c hns ih =>
    intro hw c' hc
    rcases List.mem_cons.mp hc with rfl | hc
    · exact hw (k, c') List.mem_cons_self
    · exact ih (fun p hp => hw p (List.mem_cons_of_mem _ hp)) c' hc

theorem compressSwaps_ok (n : Nat) (spec : List (Comp K)) (h : SpecWf n spec)
    (hg : SpecGroupOk spec) :
    SpecWf n (compressSwaps spec) ∧ SpecGroupOk (compressSwaps spec) := by
  have key := compressGo_ok n ((List.range spec.length).zip spec) [] (fun p hp => by
    have : p.2 ∈ spec := (List.of_mem_zip (a := p.1) (b := p.2) hp).2
    exact ⟨h _ this, hg _ this⟩)
  exact ⟨fun c hc => (key c hc).1, fun c hc => (key c hc).2⟩

/-! ### non-adjacent beam splitters -/

theorem nonAdjSwaps_keys_range (lo hi : Nat) (h : lo < hi) :
    ∀ k ∈ Dict.keys (nonAdjSwaps lo hi), lo ≤ k ∧ k ≤ hi := by
  intro k hk
  unfold nonAdjSwaps at hk
  simp only [Dict.keys, List.map_append, List.map_map, List.mem_append, List.mem_map,
    List.mem_range, Function.comp] at hk
  rcases hk with ⟨x, hx, rfl⟩ | ⟨x, hx, rfl⟩ <;> omega

theorem nonAdjSwaps_vals_range (n lo hi : Nat) (h : lo < hi) (hn : hi < n) :
    ∀ k ∈ Dict.vals (nonAdjSwaps lo hi), lo ≤ k ∧ k ≤ hi := by
  intro k hk
  have hok := nonAdjSwaps_swapsOk n lo hi h hn
  exact nonAdjSwaps_keys_range lo hi h k (hok.2.1.mem_iff.mpr hk)

theorem Prim.convertNonAdj_wf {n : Nat} (p : Prim K) (hp : p.Wf n) :
    ∀ q ∈ p.convertNonAdj, q.Wf n := by
  cases p with
  | bs m1 m2 c s cv =>
    by_cases hadj : m1 + 1 = m2 ∨ m2 + 1 = m1
    · rw [LW.Proofs.C09.Prim.convertNonAdj_bs_adj m1 m2 c s cv hadj]
      intro q hq
      rw [List.mem_singleton] at hq; subst hq; exact hp
    · rw [LW.Proofs.C09.Prim.convertNonAdj_bs_nonadj m1 m2 c s cv hadj]
      obtain ⟨h1, h2, hne, h4⟩ := hp
      have hlo : min m1 m2 < max m1 m2 := by omega
      have hhi : max m1 m2 < n := by omega
      have hok := nonAdjSwaps_swapsOk n _ _ hlo hhi
      intro q hq
      simp only [List.mem_cons, List.not_mem_nil, or_false] at hq
      rcases hq with rfl | rfl | rfl
      · exact hok
      · refine ⟨?_, ?_, ?_, h4⟩
        · split <;> omega
        · split <;> omega
        · split <;> omega
      · exact SwapsOk.inverse hok
  | ps _ _ => intro q hq; simp only [Prim.convertNonAdj, List.mem_singleton] at hq; subst hq; exact hp
  | loss _ _ _ => intro q hq; simp only [Prim.convertNonAdj, List.mem_singleton] at hq; subst hq; exact hp
  | barrier _ => intro q hq; simp only [Prim.convertNonAdj, List.mem_singleton] at hq; subst hq; exact hp
  | swaps _ => intro q hq; simp only [Prim.convertNonAdj, List.mem_singleton] at hq; subst hq; exact hp
  | unitary _ _ => intro q hq; simp only [Prim.convertNonAdj, List.mem_singleton] at hq; subst hq; exact hp

theorem Prim.convertNonAdj_range {n : Nat} (p : Prim K) (hp : p.Wf n) (a b : Nat)
    (hr : ∀ m ∈ p.modes, a ≤ m ∧ m ≤ b) :
    ∀ q ∈ p.convertNonAdj, ∀ m ∈ q.modes, a ≤ m ∧ m ≤ b := by
  cases p with
  | bs m1 m2 c s cv =>
    by_cases hadj : m1 + 1 = m2 ∨ m2 + 1 = m1
    · rw [LW.Proofs.C09.Prim.convertNonAdj_bs_adj m1 m2 c s cv hadj]
      intro q hq
      rw [List.mem_singleton] at hq; subst hq; exact hr
    · rw [LW.Proofs.C09.Prim.convertNonAdj_bs_nonadj m1 m2 c s cv hadj]
      obtain ⟨h1, h2, hne, h4⟩ := hp
      have hlo : min m1 m2 < max m1 m2 := by omega
      have hhi : max m1 m2 < n := by omega
      have hkr := nonAdjSwaps_keys_range _ _ hlo
      have hvr := nonAdjSwaps_vals_range n _ _ hlo hhi
      have r1 := hr m1 (by simp [Prim.modes])
      have r2 := hr m2 (by simp [Prim.modes])
      intro q hq
      simp only [List.mem_cons, List.not_mem_nil, or_false] at hq
      rcases hq with rfl | rfl | rfl
      · intro m hm
        simp only [Prim.modes, List.mem_append] at hm
        rcases hm with hm | hm
        · have := hkr m hm; omega
        · have := hvr m hm; omega
      · intro m hm
        simp only [Prim.modes, List.mem_cons, List.not_mem_nil, or_false] at hm
        rcases hm with rfl | rfl
        · split <;> omega
        · split <;> omega
      · intro m hm
        simp only [Prim.modes, List.mem_append] at hm
        rcases hm with hm | hm
        · have := mem_keys_ofPairs.mp hm
          simp only [List.map_map, List.mem_map, Function.comp] at this
          obtain ⟨q, hq, rfl⟩ := this
          have := hvr q.2 (Dict.mem_vals.mpr ⟨q.1, hq⟩); omega
        · have := mem_vals_ofPairs hm
          simp only [List.map_map, List.mem_map, Function.comp] at this
          obtain ⟨q, hq, rfl⟩ := this
          have := hkr q.1 (Dict.mem_keys.mpr ⟨q.2, hq⟩); omega
  | ps _ _ => intro q hq; simp only [Prim.convertNonAdj, List.mem_singleton] at hq; subst hq; exact hr
  | loss _ _ _ => intro q hq; simp only [Prim.convertNonAdj, List.mem_singleton] at hq; subst hq; exact hr
  | barrier _ => intro q hq; simp only [Prim.convertNonAdj, List.mem_singleton] at hq; subst hq; exact hr
  | swaps _ => intro q hq; simp only [Prim.convertNonAdj, List.mem_singleton] at hq; subst hq; exact hr
  | unitary _ _ => intro q hq; simp only [Prim.convertNonAdj, List.mem_singleton] at hq; subst hq; exact hr

theorem convertNonAdj_ok (n : Nat) (spec : List (Comp K)) (h : SpecWf n spec)
    (hg : SpecGroupOk spec) :
    SpecWf n (convertNonAdj spec) ∧ SpecGroupOk (convertNonAdj spec) := by
  have key : ∀ c ∈ convertNonAdj spec, c.Wf n ∧ c.GroupOk := by
    intro c hc
    unfold convertNonAdj at hc
    rw [List.mem_flatMap] at hc
    obtain ⟨c0, hc0, hc⟩ := hc
    cases c0 with
    | prim p =>
      simp only [List.mem_map] at hc
      obtain ⟨q, hq, rfl⟩ := hc
      exact ⟨Prim.convertNonAdj_wf p (h _ hc0) q hq, trivial⟩
    | group cs m1 m2 hin hout =>
      simp only [List.mem_singleton] at hc
      subst hc
      constructor
      · intro q hq
        simp only [List.mem_flatMap] at hq
        obtain ⟨p, hp, hq⟩ := hq
        exact Prim.convertNonAdj_wf p (h _ hc0 p hp) q hq
      · intro q hq
        simp only [List.mem_flatMap] at hq
        obtain ⟨p, hp, hq⟩ := hq
        exact Prim.convertNonAdj_range p (h _ hc0 p hp) m1 m2 (hg _ hc0 p hp) q hq
  exact ⟨fun c hc => (key c hc).1, fun c hc => (key c hc).2⟩

end LW.Proofs.Reach
