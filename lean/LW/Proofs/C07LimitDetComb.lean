/-
  C07 limit statements, part C2 (combinatorial core): expectation over independent bits and the
  exact detector kernel.

  `EB ws G` is the expectation of `G` over a list of independent bits, the `i`-th true with
  probability `ws[i]`.  Feeding the detector (in closed form) a bit tape — `true` = "photon kept"
  with probability `η` in the efficiency stage, `true` = "dark count" with probability `p_dark` in
  the dark-count stage — the probability of detecting `t` is the total weight of `t` in
  `detectorKernel d s` (`detLaw_eq_kernelWeight`).
-/
import Mathlib.Algebra.BigOperators.Group.Finset.Basic
import Mathlib.Algebra.Order.BigOperators.Group.Finset
import Mathlib.Tactic.FieldSimp
import LW.Proofs.C07Kernel
import LW.Proofs.C07LimitDetG

set_option linter.unusedSimpArgs false
set_option linter.unnecessarySeqFocus false

namespace LW.Proofs.C07

section EBdef
variable {K : Type} [Field K]

/-- expectation of `G` over independent bits, the `i`-th being true with probability `ws[i]` -/
def EB : List K → (List Bool → K) → K
  | [], G => G []
  | w :: ws, G => w * EB ws (fun b => G (true :: b)) + (1 - w) * EB ws (fun b => G (false :: b))

theorem EB_const (ws : List K) (c : K) : EB ws (fun _ => c) = c := by
  induction ws with
  | nil => rfl
  | cons w ws ih => simp only [EB, ih]; ring

theorem EB_congr (ws : List K) (G G' : List Bool → K)
    (h : ∀ b, b.length = ws.length → G b = G' b) : EB ws G = EB ws G' := by
  induction ws generalizing G G' with
  | nil => exact h [] rfl
  | cons w ws ih =>
    simp only [EB]
    rw [ih (fun b => G (true :: b)) (fun b => G' (true :: b)) (fun b hb => h _ (by simp [hb])),
      ih (fun b => G (false :: b)) (fun b => G' (false :: b)) (fun b hb => h _ (by simp [hb]))]

theorem EB_append (ws1 ws2 : List K) (G : List Bool → K) :
    EB (ws1 ++ ws2) G = EB ws1 (fun b1 => EB ws2 (fun b2 => G (b1 ++ b2))) := by
  induction ws1 generalizing G with
  | nil => rfl
  | cons w ws ih =>
    simp only [List.cons_append, EB, ih]

theorem EB_mul_left (ws : List K) (c : K) (G : List Bool → K) :
    EB ws (fun b => c * G b) = c * EB ws G := by
  induction ws generalizing G with
  | nil => rfl
  | cons w ws ih => simp only [EB, ih]; ring

theorem EB_mul_right (ws : List K) (c : K) (G : List Bool → K) :
    EB ws (fun b => G b * c) = EB ws G * c := by
  induction ws generalizing G with
  | nil => rfl
  | cons w ws ih => simp only [EB, ih]; ring

theorem EB_add (ws : List K) (G G' : List Bool → K) :
    EB ws (fun b => G b + G' b) = EB ws G + EB ws G' := by
  induction ws generalizing G G' with
  | nil => rfl
  | cons w ws ih => simp only [EB, ih]; ring

theorem EB_zero (ws : List K) : EB ws (fun _ => (0 : K)) = 0 := EB_const ws 0

theorem EB_list_sum {ι : Type} (ws : List K) (l : List ι) (F : ι → List Bool → K) :
    EB ws (fun b => (l.map fun j => F j b).sum) = (l.map fun j => EB ws (F j)).sum := by
  induction l with
  | nil => simpa using EB_zero ws
  | cons x l ih =>
    simp only [List.map_cons, List.sum_cons]
    rw [EB_add, ih]

/-- independence of the two halves of the bit tape -/
theorem EB_mul_split (ws1 ws2 : List K) (G1 G2 : List Bool → K) :
    EB (ws1 ++ ws2) (fun b => G1 (b.take ws1.length) * G2 (b.drop ws1.length)) =
      EB ws1 G1 * EB ws2 G2 := by
  rw [EB_append]
  rw [EB_congr ws1 _ (fun b1 => G1 b1 * EB ws2 G2)]
  · exact EB_mul_right ws1 _ G1
  · intro b1 hb1
    rw [← EB_mul_left]
    apply EB_congr
    intro b2 _
    rw [← hb1, List.take_left', List.drop_left'] <;> rfl

/-- casting the expectation along a field homomorphism (used for `ℚ → ℝ`) -/
theorem EB_map {L : Type} [Field L] (φ : K →+* L) (ws : List K) (G : List Bool → K) :
    φ (EB ws G) = EB (ws.map φ) (fun b => φ (G b)) := by
  induction ws generalizing G with
  | nil => rfl
  | cons w ws ih =>
    simp only [EB, List.map_cons, map_add, map_mul, map_sub, map_one, ih]

end EBdef

/-- indicator -/
def ind {K : Type} [Field K] (P : Prop) [Decidable P] : K := if P then 1 else 0

/-! ### binomial thinning -/

theorem EB_count_eq (η : ℚ) (n j : ℕ) :
    EB (List.replicate n η) (fun b => ind (b.count true = j)) =
      (Nat.choose n j : ℚ) * η ^ j * (1 - η) ^ (n - j) := by
  induction n generalizing j with
  | zero =>
    cases j with
    | zero => simp [EB, ind]
    | succ j => simp [EB, ind]
  | succ n ih =>
    simp only [List.replicate_succ, EB, List.count_cons_self, List.count_cons_of_ne
      (show (false : Bool) ≠ true by decide), beq_self_eq_true, if_true]
    cases j with
    | zero =>
      have h1 : EB (List.replicate n η) (fun b => (ind (List.count true b + 1 = 0) : ℚ)) = 0 := by
        rw [EB_congr _ _ (fun _ => (0 : ℚ)) (fun b _ => by simp [ind])]; exact EB_zero _
      rw [h1, ih 0]
      simp
      ring
    | succ j =>
      have h1 : EB (List.replicate n η) (fun b => (ind (List.count true b + 1 = j + 1) : ℚ)) =
          EB (List.replicate n η) (fun b => ind (List.count true b = j)) := by
        apply EB_congr; intro b _; simp [ind]
      rw [h1, ih j, ih (j + 1), Nat.choose_succ_succ]
      by_cases hj : j + 1 ≤ n
      · have e1 : n + 1 - (j + 1) = (n - (j + 1)) + 1 := by omega
        have e2 : n - j = (n - (j + 1)) + 1 := by omega
        rw [e1, e2]
        push_cast
        ring
      · have hc : Nat.choose n (j + 1) = 0 := Nat.choose_eq_zero_of_lt (by omega)
        have e1 : n + 1 - (j + 1) = n - j := by omega
        rw [hc, e1]
        push_cast
        ring

/-- BINOMIAL THINNING: the number of kept photons among `n` is binomial -/
theorem EB_binom (η : ℚ) (n : ℕ) (g : ℕ → ℚ) :
    EB (List.replicate n η) (fun b => g (b.count true)) =
      ((List.range (n + 1)).map fun j =>
        (binom n j : ℚ) * η ^ j * (1 - η) ^ (n - j) * g j).sum := by
  have h : ∀ b : List Bool, b.length = (List.replicate n η).length →
      g (b.count true) = ((List.range (n + 1)).map fun j => ind (b.count true = j) * g j).sum := by
    intro b hb
    rw [List.length_replicate] at hb
    have hle : b.count true < n + 1 := by
      have := List.count_le_length (a := true) (l := b); omega
    generalize b.count true = c at hle
    generalize n + 1 = m at hle
    induction m with
    | zero => omega
    | succ m ih =>
      rw [List.range_succ, List.map_append, List.sum_append]
      by_cases hc : c = m
      · subst hc
        have : ((List.range c).map fun j => (ind (c = j) : ℚ) * g j).sum = 0 := by
          apply List.sum_eq_zero
          intro x hx
          rw [List.mem_map] at hx
          obtain ⟨j, hj, rfl⟩ := hx
          have : c ≠ j := by have := List.mem_range.mp hj; omega
          simp [ind, this]
        rw [this]; simp [ind]
      · rw [← ih (by omega)]
        simp [ind, hc]
  rw [EB_congr _ _ _ h, EB_list_sum]
  congr 1
  apply List.map_congr_left
  intro j _
  rw [EB_mul_right, EB_count_eq, binom_eq_choose]

/-! ### the detector on a bit tape -/

/-- kept photons from "kept" bits: mode `n` reads the next `n` bits -/
def keptB : FState → List Bool → FState
  | [], _ => []
  | n :: s, b => (b.take n).count true :: keptB s (b.drop n)

/-- dark counts from "dark" bits -/
def darkB (o : FState) (b : List Bool) : FState := darkList (fun c : Bool => c = true) o b

/-- threshold of one mode -/
def thr (d : Det) (x : Nat) : Nat := if d.pnr then x else (if x ≥ 1 then 1 else 0)

theorem stage3_nil (d : Det) : stage3 d [] = [] := by
  unfold stage3; split <;> rfl

theorem stage3_cons (d : Det) (x : Nat) (l : FState) :
    stage3 d (x :: l) = thr d x :: stage3 d l := by
  unfold stage3 thr; split <;> rfl

/-- one mode, dark-count stage then threshold: weight of reading `c` from `j` kept photons -/
def Dw (d : Det) (j c : Nat) : ℚ :=
  (1 - d.pDark) * ind (thr d j = c) + d.pDark * ind (thr d (j + 1) = c)

def prodD (d : Det) : FState → FState → ℚ
  | [], [] => 1
  | j :: o, c :: t => Dw d j c * prodD d o t
  | _, _ => 0

/-- one mode, all three stages: weight of reading `c` from `n` photons -/
def Kw (d : Det) (n c : Nat) : ℚ :=
  ((List.range (n + 1)).map fun j =>
    (binom n j : ℚ) * d.eta ^ j * (1 - d.eta) ^ (n - j) * Dw d j c).sum

def prodK (d : Det) : FState → FState → ℚ
  | [], [] => 1
  | n :: s, c :: t => Kw d n c * prodK d s t
  | _, _ => 0

theorem ind_cons_eq (a c : Nat) (X t : FState) :
    (ind (a :: X = c :: t) : ℚ) = ind (a = c) * ind (X = t) := by
  unfold ind
  by_cases h1 : a = c <;> by_cases h2 : X = t <;> simp [h1, h2]

/-- DARK-COUNT STAGE: one independent bit per mode -/
theorem EB_dark (d : Det) (o t : FState) :
    EB (List.replicate o.length d.pDark) (fun b2 => ind (stage3 d (darkB o b2) = t)) =
      prodD d o t := by
  induction o generalizing t with
  | nil =>
    cases t with
    | nil => simp [EB, darkB, darkList, stage3_nil, ind, prodD]
    | cons c t => simp [EB, darkB, darkList, stage3_nil, ind, prodD]
  | cons j o ih =>
    simp only [List.length_cons, List.replicate_succ, EB]
    cases t with
    | nil =>
      have h : ∀ (x : Bool) (b : List Bool),
          (ind (stage3 d (darkB (j :: o) (x :: b)) = []) : ℚ) = 0 := by
        intro x b; simp [darkB, darkList, stage3_cons, ind]
      simp only [h, EB_zero, prodD]; ring
    | cons c t =>
      have ht : ∀ b : List Bool, (ind (stage3 d (darkB (j :: o) (true :: b)) = c :: t) : ℚ) =
          ind (thr d (j + 1) = c) * ind (stage3 d (darkB o b) = t) := by
        intro b
        simp only [darkB, darkList, if_true, stage3_cons]
        exact ind_cons_eq _ _ _ _
      have hf : ∀ b : List Bool, (ind (stage3 d (darkB (j :: o) (false :: b)) = c :: t) : ℚ) =
          ind (thr d j = c) * ind (stage3 d (darkB o b) = t) := by
        intro b
        simp only [darkB, darkList, Bool.false_eq_true, if_false, stage3_cons]
        exact ind_cons_eq _ _ _ _
      simp only [ht, hf, EB_mul_left, ih, prodD, Dw]
      ring

/-- with `p_dark = 0` the dark-count factor is the threshold alone -/
theorem prodD_zero (d : Det) (h : d.pDark = 0) (o t : FState) :
    prodD d o t = ind (stage3 d o = t) := by
  induction o generalizing t with
  | nil => cases t <;> simp [prodD, stage3_nil, ind]
  | cons j o ih =>
    cases t with
    | nil => simp [prodD, stage3_cons, ind]
    | cons c t =>
      rw [prodD, ih, stage3_cons, ind_cons_eq, Dw, h]; ring

/-- EFFICIENCY STAGE followed by the rest: product over modes -/
theorem EB_kept (d : Det) (s t : FState) :
    EB (List.replicate s.sum d.eta) (fun b1 => prodD d (keptB s b1) t) = prodK d s t := by
  induction s generalizing t with
  | nil => cases t <;> simp [EB, keptB, prodD, prodK]
  | cons n s ih =>
    cases t with
    | nil => simp only [keptB, prodD, EB_zero, prodK]
    | cons c t =>
      rw [List.sum_cons, List.replicate_add]
      simp only [keptB, prodD]
      have := EB_mul_split (List.replicate n d.eta) (List.replicate s.sum d.eta)
        (fun b => Dw d (b.count true) c) (fun b => prodD d (keptB s b) t)
      simp only [List.length_replicate] at this
      rw [this, ih, EB_binom d.eta n (fun j => Dw d j c), prodK, Kw]

/-- with `η = 1` nothing is lost -/
theorem Kw_one (d : Det) (h : d.eta = 1) (n c : Nat) : Kw d n c = Dw d n c := by
  unfold Kw
  rw [List.range_succ, List.map_append, List.sum_append, h]
  have : ((List.range n).map fun j =>
      (binom n j : ℚ) * 1 ^ j * (1 - 1) ^ (n - j) * Dw d j c).sum = 0 := by
    apply List.sum_eq_zero
    intro x hx
    rw [List.mem_map] at hx
    obtain ⟨j, hj, rfl⟩ := hx
    have : n - j ≠ 0 := by have := List.mem_range.mp hj; omega
    simp [this]
  rw [this]
  simp [binom_eq_choose]

theorem prodK_one (d : Det) (h : d.eta = 1) (s t : FState) : prodK d s t = prodD d s t := by
  induction s generalizing t with
  | nil => cases t <;> rfl
  | cons n s ih =>
    cases t with
    | nil => rfl
    | cons c t => rw [prodK, prodD, ih, Kw_one d h]

/-- the detector on a bit tape, in closed form: `b1` are the "kept" bits of the efficiency stage,
`b2` the "dark" bits of the dark-count stage; a stage that the model skips reads no bits -/
def outB (d : Det) (s : FState) (b1 b2 : List Bool) : FState :=
  stage3 d (if d.pDark > 0 then darkB (if d.eta < 1 then keptB s b1 else s) b2
    else (if d.eta < 1 then keptB s b1 else s))

/-- number of tape entries read by the efficiency stage / the dark-count stage -/
def nEff (d : Det) (s : FState) : Nat := if d.eta < 1 then s.sum else 0
def nDark (d : Det) (s : FState) : Nat := if d.pDark > 0 then s.length else 0

theorem keptB_length (s : FState) (b : List Bool) : (keptB s b).length = s.length := by
  induction s generalizing b with
  | nil => rfl
  | cons n s ih => simp [keptB, ih]

/-- LAW ON THE BIT TAPE: with independent bits (probability `η` in the efficiency stage, `p_dark`
in the dark-count stage) the probability of detecting `t` is the product over modes of the
one-mode weights -/
theorem EB_outB (d : Det) (h1 : d.eta ≤ 1) (h2 : 0 ≤ d.pDark) (s t : FState) :
    EB (List.replicate (nEff d s) d.eta ++ List.replicate (nDark d s) d.pDark)
      (fun b => ind (outB d s (b.take (nEff d s)) (b.drop (nEff d s)) = t)) = prodK d s t := by
  rw [EB_append]
  have inner : ∀ o : FState, o.length = s.length →
      EB (List.replicate (nDark d s) d.pDark)
        (fun b2 => ind (stage3 d (if d.pDark > 0 then darkB o b2 else o) = t)) = prodD d o t := by
    intro o ho
    unfold nDark
    by_cases hq : d.pDark > 0
    · simp only [hq, if_true]
      rw [← ho]; exact EB_dark d o t
    · simp only [hq, if_false, List.replicate_zero, EB]
      rw [prodD_zero d (le_antisymm (not_lt.mp hq) h2)]
  unfold nEff
  by_cases he : d.eta < 1
  · simp only [he, if_true]
    rw [← EB_kept]
    apply EB_congr
    intro b1 hb1
    rw [List.length_replicate] at hb1
    rw [← inner (keptB s b1) (keptB_length s b1)]
    apply EB_congr
    intro b2 _
    unfold outB
    simp only [he, if_true]
    rw [← hb1, List.take_left', List.drop_left'] <;> rfl
  · simp only [he, if_false, List.replicate_zero, EB, List.nil_append, List.take_zero,
      List.drop_zero]
    rw [prodK_one d (le_antisymm h1 (not_lt.mp he)), ← inner s rfl]
    apply EB_congr
    intro b2 _
    unfold outB
    simp only [he, if_false]

/-! ### the kernel -/

/-- total weight the exact kernel gives to the detected state `t` -/
def kernelWeight (d : Det) (s t : FState) : ℚ :=
  (((detectorKernel d s).filter (·.1 == t)).map (·.2)).sum

theorem filter_sum_map_cons (x : Nat × ℚ) (r : List (FState × ℚ)) (c : Nat) (t : FState) :
    (((r.map fun tq => (x.1 :: tq.1, x.2 * tq.2)).filter (·.1 == c :: t)).map (·.2)).sum =
      (if x.1 == c then x.2 else 0) * ((r.filter (·.1 == t)).map (·.2)).sum := by
  induction r with
  | nil => simp
  | cons y r ihr =>
    simp only [List.map_cons, List.filter_cons]
    by_cases h1 : x.1 = c <;> by_cases h2 : y.1 = t
    · simp [h1, h2] at ihr ⊢; rw [ihr]; ring
    · simp [h1, h2] at ihr ⊢; rw [ihr]
    · simp [h1, h2] at ihr ⊢; exact ihr
    · simp [h1, h2] at ihr ⊢; exact ihr

theorem filter_sum_flatMap_cons (l : List (Nat × ℚ)) (r : List (FState × ℚ)) (c : Nat)
    (t : FState) :
    (((l.flatMap fun kp => r.map fun tq => (kp.1 :: tq.1, kp.2 * tq.2)).filter
        (·.1 == c :: t)).map (·.2)).sum =
      ((l.filter (·.1 == c)).map (·.2)).sum * ((r.filter (·.1 == t)).map (·.2)).sum := by
  induction l with
  | nil => simp
  | cons x l ih =>
    rw [List.flatMap_cons, List.filter_append, List.map_append, List.sum_append, ih,
      filter_sum_map_cons, List.filter_cons]
    by_cases h1 : x.1 == c
    · simp [h1]; ring
    · simp [h1]

theorem filter_sum_flatMap_nil (l : List (Nat × ℚ)) (r : List (FState × ℚ)) :
    (((l.flatMap fun kp => r.map fun tq => (kp.1 :: tq.1, kp.2 * tq.2)).filter
        (·.1 == [])).map (·.2)).sum = 0 := by
  have : ((l.flatMap fun kp => r.map fun tq => (kp.1 :: tq.1, kp.2 * tq.2)).filter
        (·.1 == [])) = [] := by
    rw [List.filter_eq_nil_iff]
    intro x hx
    rw [List.mem_flatMap] at hx
    obtain ⟨kp, _, hx⟩ := hx
    rw [List.mem_map] at hx
    obtain ⟨tq, _, rfl⟩ := hx
    simp
  rw [this]; rfl

theorem lookup_eq_filter_sum (l : List (Nat × ℚ)) (h : (l.map (·.1)).Nodup) (a : Nat) :
    lookup l a = ((l.filter (·.1 == a)).map (·.2)).sum := by
  induction l with
  | nil => rfl
  | cons x l ih =>
    rw [List.map_cons, List.nodup_cons] at h
    rw [lookup_cons, List.filter_cons]
    by_cases hx : x.1 == a
    · have hxa : x.1 = a := by simpa using hx
      have : l.filter (·.1 == a) = [] := by
        rw [List.filter_eq_nil_iff]
        intro y hy hya
        have : y.1 = a := by simpa using hya
        exact h.1 (by rw [hxa, ← this]; exact List.mem_map_of_mem hy)
      simp [hx, this]
    · simp only [hx, if_false, Bool.false_eq_true]
      exact ih h.2

theorem filter_sum_dark (d : Det) (l : List (Nat × ℚ)) (c : Nat) :
    (((l.flatMap fun kp => [(kp.1, kp.2 * (1 - d.pDark)), (kp.1 + 1, kp.2 * d.pDark)]).filter
        (fun x => thr d x.1 == c)).map (·.2)).sum = (l.map fun kp => kp.2 * Dw d kp.1 c).sum := by
  induction l with
  | nil => rfl
  | cons x l ih =>
    rw [List.flatMap_cons, List.filter_append, List.map_append, List.sum_append, ih, List.map_cons,
      List.sum_cons]
    congr 1
    unfold Dw ind
    by_cases h1 : thr d x.1 = c <;> by_cases h2 : thr d (x.1 + 1) = c <;>
      simp [List.filter_cons, h1, h2] <;> ring

/-- one mode: the merged `modeKernel` gives `c` the weight `Kw d n c` -/
theorem modeKernel_filter_sum (d : Det) (n c : Nat) :
    (((modeKernel d n).filter (·.1 == c)).map (·.2)).sum = Kw d n c := by
  rw [← lookup_eq_filter_sum _ (by rw [modeKernel_eq]; exact nodup_foldl_mergeStep _ _ (by simp)),
    modeKernel_eq, lookup_foldl_mergeStep, lookup_nil, zero_add]
  have hthr : thrL d n = (darkL d n).map fun kp => (thr d kp.1, kp.2) := by
    unfold thrL thr
    cases hp : d.pnr <;> simp
  rw [hthr, filter_map_key (darkL d n) (thr d) c]
  unfold darkL
  rw [filter_sum_dark]
  unfold thinL Kw
  rw [List.map_map]
  rfl

/-- KERNEL: the total weight of `t` in `detectorKernel d s` is the product over modes -/
theorem kernelWeight_eq_prodK (d : Det) (s t : FState) : kernelWeight d s t = prodK d s t := by
  unfold kernelWeight
  induction s generalizing t with
  | nil =>
    cases t with
    | nil => simp [detectorKernel, prodK]
    | cons c t => simp [detectorKernel, prodK]
  | cons n s ih =>
    rw [detectorKernel_cons]
    cases t with
    | nil => rw [filter_sum_flatMap_nil]; rfl
    | cons c t => rw [filter_sum_flatMap_cons, ih, modeKernel_filter_sum]; rfl

/-- BIT-TAPE LAW = KERNEL -/
theorem detLaw_eq_kernelWeight (d : Det) (h1 : d.eta ≤ 1) (h2 : 0 ≤ d.pDark) (s t : FState) :
    EB (List.replicate (nEff d s) d.eta ++ List.replicate (nDark d s) d.pDark)
      (fun b => ind (outB d s (b.take (nEff d s)) (b.drop (nEff d s)) = t)) =
      kernelWeight d s t := by
  rw [EB_outB d h1 h2, kernelWeight_eq_prodK]

end LW.Proofs.C07
