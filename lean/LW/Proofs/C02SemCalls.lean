/-
  LW.Proofs.C02SemCalls — refinement of `mode_swaps` and of `herald`.
-/
import LW.Proofs.C02SemPrim

open scoped BigOperators

namespace LW.Proofs.C02Sem

open LW LW.Proofs.C01Aux LW.Proofs.C02

variable {K : Type} [CommRing K] [StarRing K]

set_option linter.unusedSectionVars false

/-! ### dictionaries relabelled by an injective map -/

section DictMap
variable (f : Nat → Nat) (hf : ∀ a b, f a = f b → a = b)
include hf

theorem contains_map_pair (d : Dict) (k : Nat) :
    Dict.contains (d.map fun p => (f p.1, f p.2)) (f k) = d.contains k := by
  induction d with
  | nil => rfl
  | cons p d ih =>
    simp only [Dict.contains, List.map_cons, List.any_cons] at ih ⊢
    rw [ih]
    congr 1
    by_cases e : p.1 = k
    · simp [e]
    · have : ¬ f p.1 = f k := fun h => e (hf _ _ h)
      simp [e, this]

theorem set_map_pair (d : Dict) (k v : Nat) :
    Dict.set (d.map fun p => (f p.1, f p.2)) (f k) (f v)
      = (d.set k v).map fun p => (f p.1, f p.2) := by
  unfold Dict.set
  rw [contains_map_pair f hf]
  split
  · rw [List.map_map, List.map_map]
    apply List.map_congr_left
    intro p _
    simp only [Function.comp]
    by_cases e : p.1 = k
    · simp [e]
    · have : ¬ f p.1 = f k := fun h => e (hf _ _ h)
      simp [e, this]
  · simp

theorem foldl_set_map_pair (ps : List (Nat × Nat)) (acc : Dict) :
    (ps.map fun p => (f p.1, f p.2)).foldl (fun (d : Dict) (p : Nat × Nat) => d.set p.1 p.2)
        (acc.map fun p => (f p.1, f p.2))
      = (ps.foldl (fun (d : Dict) (p : Nat × Nat) => d.set p.1 p.2) acc).map fun p => (f p.1, f p.2) := by
  induction ps generalizing acc with
  | nil => rfl
  | cons p ps ih =>
    simp only [List.map_cons, List.foldl_cons]
    rw [set_map_pair f hf, ih]

theorem ofPairs_map_pair (ps : List (Nat × Nat)) :
    Dict.ofPairs (ps.map fun p => (f p.1, f p.2)) = (Dict.ofPairs ps).map fun p => (f p.1, f p.2) := by
  unfold Dict.ofPairs
  exact foldl_set_map_pair f hf ps []

end DictMap

theorem zip_map_map (f : Nat → Nat) (l1 l2 : List Nat) :
    (l1.map f).zip (l2.map f) = (l1.zip l2).map fun p => (f p.1, f p.2) := by
  induction l1 generalizing l2 with
  | nil => rfl
  | cons a l1 ih =>
    cases l2 with
    | nil => rfl
    | cons b l2 => simp only [List.map_cons, List.zip_cons_cons, ih]

/-! ### sorting and permutations -/

theorem sortNat_eq_iff_perm (l1 l2 : List Nat) : sortNat l1 = sortNat l2 ↔ l1.Perm l2 := by
  constructor
  · intro h
    exact (perm_sortNat l1).symm.trans (h ▸ perm_sortNat l2)
  · intro h
    have hp : (sortNat l1).Perm (sortNat l2) := (perm_sortNat l1).trans (h.trans (perm_sortNat l2).symm)
    exact List.Perm.eq_of_pairwise (fun a b _ _ hab hba => Nat.le_antisymm hab hba)
      (sorted_sortNat l1) (sorted_sortNat l2) hp

/-! ### range checks of a list of user modes -/

theorem mapM_ports (c : Circ K) (hwf : c.WF) (l : List Int) (ks : List Nat)
    (h : l.mapM (fun x => c.modeInRange (c.mapMode x)) = .ok ks) :
    l.mapM (fun x => (({ n := c.portModes.length } : Circ K)).modeInRange x) = .ok (l.map Int.toNat) ∧
    ks = (l.map Int.toNat).map c.optMode ∧ ∀ k ∈ ks, k < c.n := by
  induction l generalizing ks with
  | nil =>
    simp only [List.mapM_nil, pure, Except.pure] at h
    injection h with h; subst h
    exact ⟨rfl, rfl, by simp⟩
  | cons x xs ih =>
    simp only [List.mapM_cons, bind, Except.bind] at h
    split at h
    · cases h
    · rename_i a ha
      split at h
      · cases h
      · rename_i ks' hks'
        simp only [pure, Except.pure] at h
        injection h with h; subst h
        obtain ⟨hm0, hm1, ha_eq, ha_lt, -⟩ := mapped_port c hwf ha
        obtain ⟨h1, h2, h3⟩ := ih ks' hks'
        refine ⟨?_, ?_, ?_⟩
        · simp only [List.mapM_cons, bind, Except.bind, dummy_inRange _ x hm0 hm1, h1]
          rfl
        · simp only [List.map_cons, ← h2, ← ha_eq]
        · intro k hk
          rcases List.mem_cons.mp hk with rfl | hk
          · exact ha_lt
          · exact h3 k hk

/-! ### `mode_swaps` -/

theorem optMode_inj (c : Circ K) (hwf : c.WF) (a b : Nat) (h : c.optMode a = c.optMode b) : a = b := by
  rw [← optIdx_optMode c hwf a, h, optIdx_optMode c hwf]

theorem fn_lt_of_vals {d : Dict} {n N x : Nat} (hv : ∀ v ∈ d.vals, v < n) (hN : n ≤ N) (hx : x < N) :
    Dict.fn d x < N := by
  rcases Dict.getD_cases d x with ⟨_, e⟩ | ⟨v, hm, e⟩
  · show d.getD x x < N; rw [e]; exact hx
  · show d.getD x x < N; rw [e]
    have := hv v (Dict.mem_vals_of_mem hm); omega

theorem sem_swaps (i : K) (c c' : Circ K) (hc : Reach c) (sw : List (Int × Int))
    (h : c.modeSwaps sw = .ok c') :
    ∃ x, (c.toOptic i).applyCall i (fun d => d.modeSwaps sw) = .ok x ∧ x.closed = (c'.toOptic i).closed := by
  have hwf := (LW.Proofs.Reach.reach_inv c hc).wf
  have hwf' := (modeSwaps_avoid c c' hwf sw h).1
  simp only [Circ.modeSwaps, bind, Except.bind, List.mapM_map] at h
  split at h
  · cases h
  · rename_i ks hks
    split at h
    · cases h
    · rename_i vs hvs
      have hks' : (sw.map (·.1)).mapM (fun x => c.modeInRange (c.mapMode x)) = .ok ks := by
        rw [List.mapM_map]; exact hks
      have hvs' : (sw.map (·.2)).mapM (fun x => c.modeInRange (c.mapMode x)) = .ok vs := by
        rw [List.mapM_map]; exact hvs
      obtain ⟨k1, k2, k3⟩ := mapM_ports c hwf _ ks hks'
      obtain ⟨v1, v2, v3⟩ := mapM_ports c hwf _ vs hvs'
      rw [List.mapM_map] at k1 v1
      set ksP := (sw.map (·.1)).map Int.toNat with hksP
      set vsP := (sw.map (·.2)).map Int.toNat with hvsP
      have hinj := optMode_inj c hwf
      have hd : Dict.ofPairs (ks.zip vs)
          = (Dict.ofPairs (ksP.zip vsP)).map fun p => (c.optMode p.1, c.optMode p.2) := by
        rw [k2, v2, zip_map_map, ofPairs_map_pair c.optMode hinj]
      have hkeys : (Dict.ofPairs (ks.zip vs)).keys = (Dict.ofPairs (ksP.zip vsP)).keys.map c.optMode := by
        rw [hd]; simp [Dict.keys, Function.comp_def]
      have hvals : (Dict.ofPairs (ks.zip vs)).vals = (Dict.ofPairs (ksP.zip vsP)).vals.map c.optMode := by
        rw [hd]; simp [Dict.vals, Function.comp_def]
      split at h
      · simp [throw, throwThe, MonadExceptOf.throw] at h
      · rename_i hchk
        simp only [pure, Except.pure] at h
        injection h with h; subst h
        have hsort : sortNat (Dict.ofPairs (ks.zip vs)).keys = sortNat (Dict.ofPairs (ks.zip vs)).vals := by
          by_contra hne
          apply hchk
          simp only [bne_iff_ne, ne_eq]
          exact hne
        have hsortP : sortNat (Dict.ofPairs (ksP.zip vsP)).keys = sortNat (Dict.ofPairs (ksP.zip vsP)).vals := by
          rw [sortNat_eq_iff_perm] at hsort ⊢
          rw [hkeys, hvals] at hsort
          have := hsort.map (optIdx c)
          simp only [List.map_map, Function.comp_def, optIdx_optMode c hwf, List.map_id'] at this
          exact this
        unfold Optic.applyCall
        beta_reduce
        have hdummy : (({ n := (c.toOptic i).p } : Circ K)).modeSwaps sw
            = .ok { n := (c.toOptic i).p, spec := [.prim (.swaps (Dict.ofPairs (ksP.zip vsP)))] } := by
          simp only [Circ.modeSwaps, bind, Except.bind, List.mapM_map, dummy_mapMode]
          have e1 : (c.toOptic i).p = c.portModes.length := rfl
          have k1' : List.mapM ((fun p : Int × Int => (({ n := c.portModes.length } : Circ K)).modeInRange p.1)
              ∘ fun p : Int × Int => (p.1, p.2)) sw = .ok ksP := k1
          have v1' : List.mapM ((fun p : Int × Int => (({ n := c.portModes.length } : Circ K)).modeInRange p.2)
              ∘ fun p : Int × Int => (p.1, p.2)) sw = .ok vsP := v1
          rw [e1, k1', v1']
          simp only [hsortP, bne_self_eq_false, Bool.false_eq_true, if_false]
          rfl
        rw [hdummy]
        refine ⟨_, rfl, ?_⟩
        have hrel : List.Forall₂ (MatRel i (fun r => some (c.optMode r)) c.n c.n)
            [.swaps (Dict.ofPairs (ks.zip vs))] [.swaps (Dict.ofPairs (ksP.zip vsP))] := by
          refine List.Forall₂.cons ?_ List.Forall₂.nil
          apply matRel_opt_swaps i c hwf
          · intro L x hx
            apply fn_lt_of_vals (n := c.n) _ (by omega) hx
            intro v hv
            have := mem_vals_ofPairs hv
            simp only [List.mem_map] at this
            obtain ⟨p, hp, rfl⟩ := this
            exact v3 _ (List.of_mem_zip hp).2
          · intro x
            have hx : x = c.optMode (optIdx c x) := (optMode_optIdx c hwf x).symm
            conv_rhs => rw [hx, hd, fn_map_pair _ c.optMode hinj, optIdx_optMode c hwf]
        exact congrArg Optic.closed (applyPrims_toOptic i c hwf _ _ hrel hwf')

/-! ### `herald` -/

theorem zip_append_single {α β : Type} (l1 : List α) (l2 : List β) (a : α) (b : β)
    (h : l1.length = l2.length) : (l1 ++ [a]).zip (l2 ++ [b]) = l1.zip l2 ++ [(a, b)] := by
  rw [List.zip_append h]
  rfl

theorem optIndex_eq_optIdx (c : Circ K) {m : Nat} (h : m < c.n) : c.optIndex m = optIdx c m := by
  unfold optIdx; rw [if_pos h]

theorem sem_herald (i : K) (c c' : Circ K) (hc : Reach c) (k : Nat) (a b : Int)
    (h : c.herald k a b = .ok c') :
    ∃ x, (c.toOptic i).herald k a b = .ok x ∧ x.closed = (c'.toOptic i).closed := by
  have hwf := (LW.Proofs.Reach.reach_inv c hc).wf
  simp only [Circ.herald, bind, Except.bind] at h
  split at h
  · cases h
  · rename_i ia ha
    split at h
    · cases h
    · rename_i ob hb
      obtain ⟨ha0, ha1, ha_eq, ha_lt, -⟩ := mapped_port c hwf ha
      obtain ⟨hb0, hb1, hb_eq, hb_lt, -⟩ := mapped_port c hwf hb
      split at h
      · simp [throw, throwThe, MonadExceptOf.throw] at h
      · rename_i hci
        split at h
        · simp [throw, throwThe, MonadExceptOf.throw] at h
        · rename_i hco
          simp only [pure, Except.pure] at h
          injection h with h
          subst h
          have hci' : ia ∉ c.inHer.keys := fun hh => hci (contains_iff.mpr hh)
          have hco' : ob ∉ c.outHer.keys := fun hh => hco (contains_iff.mpr hh)
          have hidxa : optIdx c ia = a.toNat := by rw [ha_eq, optIdx_optMode c hwf]
          have hidxb : optIdx c ob = b.toNat := by rw [hb_eq, optIdx_optMode c hwf]
          -- membership of a port in the declared heralds
          have hin : ∀ hh ∈ (c.toOptic i).her, hh.i = a.toNat → False := by
            intro hh hmem e
            rw [toOptic_her, List.mem_map] at hmem
            obtain ⟨⟨x, y⟩, hxy, rfl⟩ := hmem
            have hx : x.1 ∈ c.inHer.keys := by
              simp only [Dict.keys, List.mem_map]
              exact ⟨x, (List.of_mem_zip hxy).1, rfl⟩
            have hxn := hwf.inLt _ hx
            simp only at e
            rw [optIndex_eq_optIdx c hxn, ← hidxa] at e
            have := congrArg c.optMode e
            rw [optMode_optIdx c hwf, optMode_optIdx c hwf] at this
            exact hci' (this ▸ hx)
          have hout : ∀ hh ∈ (c.toOptic i).her, hh.o = b.toNat → False := by
            intro hh hmem e
            rw [toOptic_her, List.mem_map] at hmem
            obtain ⟨⟨x, y⟩, hxy, rfl⟩ := hmem
            have hy : y.1 ∈ c.outHer.keys := by
              simp only [Dict.keys, List.mem_map]
              exact ⟨y, (List.of_mem_zip hxy).2, rfl⟩
            have hyn := hwf.outLt _ hy
            simp only at e
            rw [optIndex_eq_optIdx c hyn, ← hidxb] at e
            have := congrArg c.optMode e
            rw [optMode_optIdx c hwf, optMode_optIdx c hwf] at this
            exact hco' (this ▸ hy)
          have hcin : (c.toOptic i).extIn.contains a.toNat = false := by
            rw [Bool.eq_false_iff]
            intro hcon
            rw [List.contains_iff_mem] at hcon
            unfold Optic.extIn at hcon
            simp only [List.mem_map, List.mem_filter] at hcon
            obtain ⟨hh, ⟨hmem, -⟩, e⟩ := hcon
            exact hin hh hmem e
          have hcout : (c.toOptic i).extOut.contains b.toNat = false := by
            rw [Bool.eq_false_iff]
            intro hcon
            rw [List.contains_iff_mem] at hcon
            unfold Optic.extOut at hcon
            simp only [List.mem_map, List.mem_filter] at hcon
            obtain ⟨hh, ⟨hmem, -⟩, e⟩ := hcon
            exact hout hh hmem e
          unfold Optic.herald
          have hp : (c.toOptic i).p = c.portModes.length := rfl
          rw [if_neg (by rw [hp]; intro hor; rcases hor with hor | hor <;> exact hor ⟨by assumption, by assumption⟩),
            hcin, hcout]
          simp only [Bool.false_eq_true, if_false]
          refine ⟨_, rfl, ?_⟩
          apply congrArg Optic.closed
          apply optic_eq
          · rfl
          · rfl
          · rfl
          · rfl
          · show (c.toOptic i).her ++ [_] = _
            rw [toOptic_her, toOptic_her]
            show _ = ((c.inHer.set ia k).zip (c.outHer.set ob k)).map _
            rw [set_of_not_mem hci', set_of_not_mem hco', zip_append_single _ _ _ _ hwf.lenEq,
              List.map_append]
            congr 1
            show [_] = [_]
            congr 1
            show Her.mk a.toNat b.toNat k = Her.mk (c.optIndex ia) (c.optIndex ob) k
            rw [optIndex_eq_optIdx c ha_lt, optIndex_eq_optIdx c hb_lt, hidxa, hidxb]

end LW.Proofs.C02Sem
