/-
  LW.Proofs.C12FullBridgePerm — the recursive permanent `LW.QF.permN` is Mathlib's permanent.
-/
import LW.Proofs.C03Perm
import LW.Model.QFock

open scoped BigOperators
open Finset

namespace LW.C12F

variable {R : Type} [CommRing R]

theorem skip_succAbove {n : ℕ} (j : Fin (n + 1)) (c : Fin n) :
    LW.QF.skip j.val c.val = (j.succAbove c).val := by
  unfold LW.QF.skip
  by_cases h : c.val < j.val
  · rw [if_pos h, Fin.succAbove_of_castSucc_lt _ _ h]
    rfl
  · rw [if_neg h, Fin.succAbove_of_le_castSucc _ _ (Nat.le_of_not_lt h)]
    rfl

/-- the model's recursive permanent is Mathlib's permanent of the leading block -/
theorem permN_eq_permanent (n : ℕ) (A : ℕ → ℕ → R) :
    LW.QF.permN n A = Matrix.permanent (Matrix.of fun (r c : Fin n) => A r.val c.val) := by
  induction n generalizing A with
  | zero => simp [LW.QF.permN, Matrix.permanent]
  | succ n ih =>
    rw [LW.QF.permN, M.sumN_eq_sum, Finset.sum_range, Matrix.permanent_succ_row_zero]
    refine Finset.sum_congr rfl fun j _ => ?_
    rw [ih]
    congr 1
    congr 1
    funext r c
    simp only [Matrix.submatrix_apply, Matrix.of_apply, skip_succAbove]
    rfl

end LW.C12F
