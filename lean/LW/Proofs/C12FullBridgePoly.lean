/-
  LW.Proofs.C12FullBridgePoly — expansion of the image of a monomial under `homOf U D` as a sum
  over index functions.
-/
import LW.Proofs.C12FullDefs
import LW.Proofs.FockIsoCore
import Mathlib.Algebra.BigOperators.Finsupp.Basic
import Mathlib.Algebra.MvPolynomial.Basic

open MvPolynomial Finset

namespace LW.C12F

open LW.Proofs.FockIso

variable {R : Type} [CommRing R]

/-- a product over photons is a product over modes with multiplicities -/
theorem prod_comp_occ {p D : ℕ} {M : Type*} [CommMonoid M] (y : Fin p → Fin D) (h : Fin D → M) :
    ∏ k, h (y k) = ∏ z, h z ^ occ y z := by
  rw [← Finset.prod_fiberwise' univ y h]
  refine Finset.prod_congr rfl fun z _ => ?_
  rw [Finset.prod_const]
  congr 1
  unfold occ
  rw [Fintype.card_subtype]

/-- occupation of an index function as a finitely supported function on all of `ℕ` -/
noncomputable def cnt {p D : ℕ} (f : Fin p → Fin D) : ℕ →₀ ℕ := ∑ k, Finsupp.single (f k).val 1

theorem homOf_monomial (U : ℕ → ℕ → R) (D : ℕ) (s : ℕ →₀ ℕ) (hs : s.support ⊆ Finset.range D) :
    homOf U D (monomial s 1) = ∏ j : Fin D, colForm U D j.val ^ s j.val := by
  unfold homOf
  rw [aeval_monomial, map_one, one_mul, Finsupp.prod_of_support_subset _ hs _ (by simp),
    ← Fin.prod_univ_eq_prod_range (fun j => (if j < D then colForm U D j else X j) ^ s j) D]
  refine Finset.prod_congr rfl fun j _ => ?_
  rw [if_pos j.2]

theorem colForm_eq_sum_fin (U : ℕ → ℕ → R) (D j : ℕ) :
    colForm U D j = ∑ i : Fin D, C (U i.val j) * X i.val := by
  unfold colForm
  rw [Finset.sum_range]

/-- product of linear forms expanded over index functions -/
theorem prod_colForm {p D : ℕ} (U : ℕ → ℕ → R) (y : Fin p → Fin D) :
    ∏ k, colForm U D (y k).val =
      ∑ f : Fin p → Fin D, C (∏ k, U (f k).val (y k).val) * monomial (cnt f) 1 := by
  simp_rw [colForm_eq_sum_fin]
  have h2 := Finset.prod_univ_sum (fun _ : Fin p => (univ : Finset (Fin D)))
    (fun k i => (C (U i.val (y k).val) * X i.val : MvPolynomial ℕ R))
  rw [Fintype.piFinset_univ] at h2
  rw [h2]
  refine Finset.sum_congr rfl fun f _ => ?_
  rw [Finset.prod_mul_distrib, map_prod]
  congr 1
  unfold cnt
  rw [monomial_sum_one]
  rfl

/-- the image of the monomial of occupation `occ y` -/
theorem homOf_monomial_eq {p D : ℕ} (U : ℕ → ℕ → R) (y : Fin p → Fin D) (s : ℕ →₀ ℕ)
    (hs : ∀ j, s j = if h : j < D then occ y ⟨j, h⟩ else 0) :
    homOf U D (monomial s 1) =
      ∑ f : Fin p → Fin D, C (∏ k, U (f k).val (y k).val) * monomial (cnt f) 1 := by
  rw [homOf_monomial, ← prod_colForm, prod_comp_occ y (fun z => colForm U D z.val)]
  · refine Finset.prod_congr rfl fun j _ => ?_
    rw [hs, dif_pos j.2]
  · intro j hj
    rw [Finsupp.mem_support_iff, hs] at hj
    by_cases h : j < D
    · exact Finset.mem_range.mpr h
    · rw [dif_neg h] at hj
      exact absurd rfl hj

/-- the amplitude as a sum over the index functions with the target occupation -/
theorem amp_eq_sum {p D : ℕ} (U : ℕ → ℕ → R) (y : Fin p → Fin D) (s t : ℕ →₀ ℕ)
    (hs : ∀ j, s j = if h : j < D then occ y ⟨j, h⟩ else 0) :
    amp (homOf U D) t s =
      ∑ f ∈ univ.filter (fun f : Fin p → Fin D => cnt f = t), ∏ k, U (f k).val (y k).val := by
  classical
  unfold amp
  rw [homOf_monomial_eq U y s hs, coeff_sum, Finset.sum_filter]
  refine Finset.sum_congr rfl fun f _ => ?_
  rw [coeff_C_mul, coeff_monomial]
  split_ifs <;> simp

theorem cnt_apply {p D : ℕ} (f : Fin p → Fin D) (j : ℕ) :
    cnt f j = if h : j < D then occ f ⟨j, h⟩ else 0 := by
  classical
  unfold cnt occ
  rw [Finsupp.finsetSum_apply]
  simp only [Finsupp.single_apply]
  rw [Finset.sum_boole]
  split_ifs with h
  · rw [Fintype.card_subtype]
    simp only [Nat.cast_id]
    congr 1
    ext k
    simp [Fin.ext_iff]
  · simp only [Nat.cast_id, Finset.card_eq_zero, Finset.filter_eq_empty_iff]
    intro k _ hk
    exact h (hk ▸ (f k).2)

theorem cnt_eq_iff {p D : ℕ} (f g : Fin p → Fin D) : cnt f = cnt g ↔ occ f = occ g := by
  constructor
  · intro h
    funext z
    have := DFunLike.congr_fun h z.val
    rw [cnt_apply, cnt_apply, dif_pos z.2, dif_pos z.2] at this
    exact this
  · intro h
    ext j
    rw [cnt_apply, cnt_apply, h]

end LW.C12F
