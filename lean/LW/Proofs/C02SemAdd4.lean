/-
  LW.Proofs.C02SemAdd4 — the index correspondence `tau` between the specification's index space
  `[ports | old ancillas | new ancillas | loss]` and the modes of the result of `Circuit.add`, and
  the row / column selectors of the two closed forms.
-/
import LW.Proofs.C02SemAdd3
import LW.Proofs.C02SemCalls

open scoped BigOperators

namespace LW.Proofs.C02Sem

open LW LW.Proofs.C01Aux LW.Proofs.C02

variable {K : Type} [CommRing K] [StarRing K]

set_option linter.unusedSectionVars false

/-- the parent's re-indexing by the new ancilla modes -/
def fK (sub : Circ K) (mode : Nat) (ts : List Nat) : Nat → Nat :=
  bumps ((sortNat (sub.inHer.keys.map (bumps ts))).map (mode + ·))

/-- specification index → mode (or loss index) of the result -/
def tau (par sub : Circ K) (mode : Nat) (ts : List Nat) (R : Nat) : Nat :=
  if R < par.n then fK sub mode ts (par.optMode R)
  else if R < par.n + sub.inHer.length then mode + bumps ts (sub.inHer.keys.getD (R - par.n) 0)
  else R

/-- the context of the refinement proof of `add` -/
structure Ctx (par sub res : Circ K) (m : Int) (g : Bool) (mode : Nat) (ts : List Nat) : Prop where
  wf : par.WF
  wfs : sub.WF
  wf' : res.WF
  d : AddData par sub res m g mode ts
  pos : AddPos par sub mode ts (fK sub mode ts)
  hm0 : 0 ≤ m
  hm1 : m.toNat < par.portModes.length
  hmode : par.optMode m.toNat = mode
  hmq : m.toNat + (sub.n - sub.inHer.length) ≤ par.portModes.length

section
variable {par sub res : Circ K} {m : Int} {g : Bool} {mode : Nat} {ts : List Nat}

theorem Ctx.key_lt (c : Ctx par sub res m g mode ts) {k : Nat} (hk : k < sub.inHer.length) :
    sub.inHer.keys.getD k 0 ∈ sub.inHer.keys ∧ sub.inHer.keys.getD k 0 < sub.n := by
  have hk' : k < sub.inHer.keys.length := by rw [keys_length]; exact hk
  rw [List.getD_eq_getElem _ _ hk']
  exact ⟨List.getElem_mem _, c.wfs.inLt _ (List.getElem_mem _)⟩

theorem Ctx.h_le (c : Ctx par sub res m g mode ts) : sub.inHer.length ≤ sub.n := by
  have := length_le_of_nodup_lt _ _ c.wfs.inNodup c.wfs.inLt
  rwa [keys_length] at this

theorem Ctx.tau_lt (c : Ctx par sub res m g mode ts) {R N : Nat} (hN : par.n + sub.inHer.length ≤ N)
    (hR : R < N) : tau par sub mode ts R < N := by
  unfold tau
  split
  · rename_i h
    have := c.pos.f_lt _ (optMode_lt par c.wf h)
    omega
  · split
    · rename_i h1 h2
      obtain ⟨-, hk⟩ := c.key_lt (k := R - par.n) (by omega)
      have := c.pos.b_lt _ hk
      have := c.pos.fit
      omega
    · exact hR

theorem Ctx.f_inj (c : Ctx par sub res m g mode ts) {a b : Nat}
    (e : fK sub mode ts a = fK sub mode ts b) : a = b := by
  rcases Nat.lt_trichotomy a b with h | h | h
  · have := c.pos.f_mono a b h; omega
  · exact h
  · have := c.pos.f_mono b a h; omega

theorem Ctx.tau_inj (c : Ctx par sub res m g mode ts) {R1 R2 : Nat}
    (e : tau par sub mode ts R1 = tau par sub mode ts R2) : R1 = R2 := by
  have hN := Nat.le_refl (par.n + sub.inHer.length)
  -- reduce to the case analysis on the three ranges
  have key : ∀ A B, A < par.n → ¬ B < par.n → tau par sub mode ts A ≠ tau par sub mode ts B := by
    intro A B hA hB e'
    have hA' := c.tau_lt hN (R := A) (by omega)
    unfold tau at e' hA'
    rw [if_pos hA] at e' hA'
    rw [if_neg hB] at e'
    split at e'
    · rename_i h2
      obtain ⟨hk, -⟩ := c.key_lt (k := B - par.n) (by omega)
      exact c.pos.f_not_new _ _ hk e'
    · omega
  have key2 : ∀ A B, ¬ A < par.n → A < par.n + sub.inHer.length → ¬ B < par.n + sub.inHer.length →
      tau par sub mode ts A ≠ tau par sub mode ts B := by
    intro A B hA1 hA2 hB e'
    have hA' := c.tau_lt hN (R := A) hA2
    have : tau par sub mode ts B = B := by
      unfold tau; rw [if_neg (by omega), if_neg hB]
    omega
  by_cases h1 : R1 < par.n
  · by_cases h2 : R2 < par.n
    · unfold tau at e
      rw [if_pos h1, if_pos h2] at e
      exact optMode_inj par c.wf _ _ (c.f_inj e)
    · exact absurd e (key R1 R2 h1 h2)
  · by_cases h2 : R2 < par.n
    · exact absurd e.symm (key R2 R1 h2 h1)
    · by_cases h3 : R1 < par.n + sub.inHer.length
      · by_cases h4 : R2 < par.n + sub.inHer.length
        · unfold tau at e
          rw [if_neg h1, if_pos h3, if_neg h2, if_pos h4] at e
          have e2 : sub.inHer.keys.getD (R1 - par.n) 0 = sub.inHer.keys.getD (R2 - par.n) 0 :=
            bumps_inj ts (by omega)
          have l1 : R1 - par.n < sub.inHer.keys.length := by rw [keys_length]; omega
          have l2 : R2 - par.n < sub.inHer.keys.length := by rw [keys_length]; omega
          rw [List.getD_eq_getElem _ _ l1, List.getD_eq_getElem _ _ l2] at e2
          have := (List.Nodup.getElem_inj_iff c.wfs.inNodup (hi := l1) (hj := l2)).mp e2
          omega
        · exact absurd e (key2 R1 R2 h1 h3 h4)
      · by_cases h4 : R2 < par.n + sub.inHer.length
        · exact absurd e.symm (key2 R2 R1 h2 h4 h3)
        · unfold tau at e
          rw [if_neg h1, if_neg h3, if_neg h2, if_neg h4] at e
          exact e

/-- re-indexing a sum over the index space by `tau` -/
theorem Ctx.sum_tau (c : Ctx par sub res m g mode ts) (D : Nat) (hD : par.n + sub.inHer.length ≤ D)
    (F : Nat → K) :
    ∑ k ∈ Finset.range D, F k = ∑ k ∈ Finset.range D, F (tau par sub mode ts k) := by
  have himg : (Finset.range D).image (tau par sub mode ts) = Finset.range D := by
    apply Finset.eq_of_subset_of_card_le
    · intro y hy
      obtain ⟨x, hx, rfl⟩ := Finset.mem_image.mp hy
      exact Finset.mem_range.mpr (c.tau_lt hD (Finset.mem_range.mp hx))
    · rw [Finset.card_image_of_injective _ (fun a b e => c.tau_inj e)]
  rw [← himg]
  rw [Finset.sum_image (fun a _ b _ e => c.tau_inj e)]
  rw [himg]

/-! ### free modes of the result -/

theorem Ctx.free_map (c : Ctx par sub res m g mode ts) (keys keys' : List Nat)
    (hk' : keys' = keys.map (fK sub mode ts) ++ (sub.inHer.keys.map (bumps ts)).map (· + mode)) :
    freeOf (par.n + sub.inHer.length) keys' = (freeOf par.n keys).map (fK sub mode ts) := by
  apply List.Pairwise.eq_of_mem_iff (r := (· < ·)) (freeOf_sorted _ _)
  · rw [List.pairwise_map]
    exact (freeOf_sorted _ _).imp (fun h => c.pos.f_mono _ _ h)
  · intro y
    rw [mem_freeOf, List.mem_map, hk']
    simp only [List.mem_append, List.mem_map, not_or]
    constructor
    · rintro ⟨hy, h1, h2⟩
      obtain ⟨x, hx, rfl⟩ := c.pos.f_surj y hy (by
        intro k hk e
        apply h2
        exact ⟨bumps ts k, ⟨k, hk, rfl⟩, by omega⟩)
      refine ⟨x, ?_, rfl⟩
      rw [mem_freeOf]
      exact ⟨hx, fun hin => h1 ⟨x, hin, rfl⟩⟩
    · rintro ⟨x, hx, rfl⟩
      obtain ⟨hxn, hxk⟩ := mem_freeOf.mp hx
      refine ⟨c.pos.f_lt x hxn, ?_, ?_⟩
      · rintro ⟨x', hx', e⟩
        exact hxk (c.f_inj e ▸ hx')
      · rintro ⟨w, ⟨k, hk, rfl⟩, e⟩
        exact c.pos.f_not_new x k hk (by omega)

theorem Ctx.res_inKeys (c : Ctx par sub res m g mode ts) :
    res.inHer.keys = par.inHer.keys.map (fK sub mode ts)
      ++ (sub.inHer.keys.map (bumps ts)).map (· + mode) := by
  rw [c.d.inHer, keys_append, keys_mapKeys]
  congr 1
  simp [Dict.keys, Dict.mapKeys, Function.comp_def]

theorem Ctx.res_outKeys (c : Ctx par sub res m g mode ts) :
    res.outHer.keys = par.outHer.keys.map (fK sub mode ts)
      ++ (sub.inHer.keys.map (bumps ts)).map (· + mode) := by
  rw [c.d.outHer, keys_append, keys_mapKeys]
  congr 1
  simp [Dict.keys, Dict.mapKeys, Function.comp_def]

theorem Ctx.res_inLen (c : Ctx par sub res m g mode ts) :
    res.inHer.length = par.inHer.length + sub.inHer.length := by
  rw [c.d.inHer, List.length_append, length_mapKeys, List.length_map, length_mapKeys]

end

end LW.Proofs.C02Sem
