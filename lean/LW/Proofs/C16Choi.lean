/-
  LW.Proofs.C16Choi — the reference Choi matrix and the linear-inversion system.
    * `choi_channel`   Σ_{a,b} ρ[a,b]·C_V[(a,c),(b,e)] = (V ρ V†)[c,e]  for the repaired
                       `choi_from_unitary` (column-stacking)
    * `liApply_choi`   the row of the LI transform matrix for (input, measurement) applied to
                       vec(C_V) is tr(P · V ρ_in V†): the reference Choi matrix solves the system
                       LI inverts, for every V
-/
import LW.Proofs.TomoLift
import LW.Model.ProcTomo

open scoped BigOperators

namespace LW.Tomo

variable {K : Type} [Field K] [StarRing K] [DecidableEq K]

set_option linter.unusedSectionVars false

theorem conj_eq_star (x : K) : conj x = star x := rfl

theorem get_dagger (A : M K) {r c : Nat} (hr : r < A.n) (hc : c < A.n) :
    A.dagger.get r c = star (A.get c r) := by
  unfold M.dagger
  rw [M.get_ofFn _ hr hc]
  rfl

theorem get_channel (V rho : M K) {c e : Nat} (hc : c < V.n) (he : e < V.n) :
    (channel V rho).get c e
      = ∑ b ∈ Finset.range V.n, (∑ a ∈ Finset.range V.n, V.get c a * rho.get a b) * star (V.get e b) := by
  unfold channel
  rw [M.get_mul _ _ (by simpa using hc) (by simpa using he), M.mul_n]
  refine Finset.sum_congr rfl fun b hb => ?_
  rw [M.get_mul _ _ hc (Finset.mem_range.mp hb), get_dagger _ (Finset.mem_range.mp hb) he]

theorem get_choi (V : M K) {a c b e : Nat} (ha : a < V.n) (hc : c < V.n) (hb : b < V.n) (he : e < V.n) :
    (choiFromUnitary V).get (a * V.n + c) (b * V.n + e) = V.get c a * star (V.get e b) := by
  unfold choiFromUnitary
  rw [M.get_ofFn _ (idx_lt ha hc) (idx_lt hb he), idx_mod hc, idx_div hc, idx_mod he, idx_div he]
  rfl

/-- the repaired `choi_from_unitary(V)` is the Choi matrix of `ρ ↦ V ρ V†` in the convention
`E(ρ)[c,e] = Σ_{a,b} ρ[a,b]·C[(a,c),(b,e)]` -/
theorem choi_channel (V rho : M K) {c e : Nat} (hc : c < V.n) (he : e < V.n) :
    ∑ a ∈ Finset.range V.n, ∑ b ∈ Finset.range V.n,
        rho.get a b * (choiFromUnitary V).get (a * V.n + c) (b * V.n + e)
      = (channel V rho).get c e := by
  rw [get_channel V rho hc he, Finset.sum_comm]
  refine Finset.sum_congr rfl fun b hb => ?_
  rw [Finset.sum_mul]
  refine Finset.sum_congr rfl fun a ha => ?_
  rw [get_choi V (Finset.mem_range.mp ha) hc (Finset.mem_range.mp hb) he]
  ring

@[simp] theorem conjM_n (A : M K) : (conjM A).n = A.n := rfl

theorem get_conjM (A : M K) {r k : Nat} (hr : r < A.n) (hk : k < A.n) :
    (conjM A).get r k = star (A.get r k) := by
  unfold conjM
  rw [M.get_ofFn _ hr hk]
  rfl

theorem rhoM_n (i : K) (t : InLabel) : (rhoM i t).n = 2 := by cases t <;> rfl

theorem rhoKron_n (i : K) (ins : Ins) : (rhoKron i ins).n = 2 ^ ins.length :=
  kronList_map_n _ (rhoM_n i) ins

theorem pauliKron_n (i : K) (m : Meas) : (pauliKron i m).n = 2 ^ m.length :=
  kronList_map_n _ (pauliM_n i) m

/-- entries of the matrix whose flattening is a row of the LI transform matrix -/
theorem get_liRowMat (i : K) (ins : Ins) (meas : Meas) {n : Nat} (hins : ins.length = n)
    (hm : meas.length = n) {a c b e : Nat} (ha : a < 2 ^ n) (hc : c < 2 ^ n) (hb : b < 2 ^ n)
    (he : e < 2 ^ n) :
    (liRowMat i ins meas).get (a * 2 ^ n + c) (b * 2 ^ n + e)
      = (rhoKron i ins).get a b * star ((pauliKron i meas).get c e) := by
  have hr : (rhoKron i ins).n = 2 ^ n := by rw [rhoKron_n, hins]
  have hp : (pauliKron i meas).n = 2 ^ n := by rw [pauliKron_n, hm]
  have hcr : (conjM (rhoKron i ins)).n = 2 ^ n := hr
  unfold liRowMat
  have hN : (kron (conjM (rhoKron i ins)) (pauliKron i meas)).n = 2 ^ n * 2 ^ n := by
    rw [kron_n, hcr, hp]
  rw [get_conjM _ (by rw [hN]; exact idx_lt ha hc) (by rw [hN]; exact idx_lt hb he),
    get_kron_gen _ _ (by rw [hcr, hp]; exact idx_lt ha hc) (by rw [hcr, hp]; exact idx_lt hb he),
    hp, idx_div hc, idx_mod hc, idx_div he, idx_mod he,
    get_conjM _ (by rw [hr]; exact ha) (by rw [hr]; exact hb)]
  simp only [star_mul', star_star]

/-- the reference Choi matrix solves the system linear inversion inverts: for every `V`,
`(T · vec C_V)[(in, meas)] = tr(P_meas · V ρ_in V†)` -/
theorem liApply_choi {i : K} (hi : star i = -i) (n : Nat) (V : M K) (hV : V.n = 2 ^ n) (ins : Ins)
    (hins : ins.length = n) (meas : Meas) (hm : meas.length = n) :
    liApply i (choiFromUnitary V) ins meas = trPauli i (channel V (rhoKron i ins)) meas := by
  have hN : (liRowMat i ins meas).n = 2 ^ n * 2 ^ n := by
    unfold liRowMat
    rw [conjM_n, kron_n, conjM_n, rhoKron_n, pauliKron_n, hins, hm]
  unfold liApply pairing trPauli
  rw [M.sumN_eq_sum, hN, hm, sum_range_mul]
  have e1 : ∀ a ∈ Finset.range (2 ^ n), ∀ c ∈ Finset.range (2 ^ n),
      M.sumN (2 ^ n * 2 ^ n) (fun k => (liRowMat i ins meas).get (a * 2 ^ n + c) k
          * (choiFromUnitary V).get (a * 2 ^ n + c) k)
        = ∑ b ∈ Finset.range (2 ^ n), ∑ e ∈ Finset.range (2 ^ n),
            (rhoKron i ins).get a b * star ((pauliKron i meas).get c e)
              * (choiFromUnitary V).get (a * 2 ^ n + c) (b * 2 ^ n + e) := by
    intro a ha c hc
    rw [M.sumN_eq_sum, sum_range_mul]
    refine Finset.sum_congr rfl fun b hb => Finset.sum_congr rfl fun e he => ?_
    rw [get_liRowMat i ins meas hins hm (Finset.mem_range.mp ha) (Finset.mem_range.mp hc)
      (Finset.mem_range.mp hb) (Finset.mem_range.mp he)]
  rw [Finset.sum_congr rfl fun a ha => Finset.sum_congr rfl fun c hc => e1 a ha c hc]
  -- reorder Σ_a Σ_c Σ_b Σ_e → Σ_c Σ_e Σ_a Σ_b
  rw [Finset.sum_comm]
  refine Finset.sum_congr rfl fun c hc => ?_
  rw [Finset.sum_congr rfl fun a _ => Finset.sum_comm, Finset.sum_comm]
  refine Finset.sum_congr rfl fun e he => ?_
  have hc' : c < V.n := by rw [hV]; exact Finset.mem_range.mp hc
  have he' : e < V.n := by rw [hV]; exact Finset.mem_range.mp he
  have := choi_channel V (rhoKron i ins) hc' he'
  rw [hV] at this
  rw [← this, pauliKron_herm hi meas (by rw [hm]; exact Finset.mem_range.mp hc)
    (by rw [hm]; exact Finset.mem_range.mp he), Finset.sum_mul]
  refine Finset.sum_congr rfl fun a _ => ?_
  rw [Finset.sum_mul]
  refine Finset.sum_congr rfl fun b _ => ?_
  ring

end LW.Tomo
