/-
  LW.Proofs.C12FullSubPlaced — what each placement of the converter's plan builds
  (`placedCircK`): the explicit sub-circuits of LW/Proofs/C12FullPlanDefs.lean.
-/
import LW.Proofs.C12FullPlanDefs
import LW.Proofs.C02Basic

set_option linter.unusedSectionVars false

namespace LW.C12F

open LW LW.QC LW.Gates LW.Proofs.C02

variable {K : Type}

/-! ### sorting of permutation-equivalent lists -/

theorem sortNat_eq_of_perm {l1 l2 : List Nat} (h : l1.Perm l2) : sortNat l1 = sortNat l2 := by
  have hp : (sortNat l1).Perm (sortNat l2) :=
    (perm_sortNat l1).trans (h.trans (perm_sortNat l2).symm)
  exact List.Perm.eq_of_pairwise (fun a b _ _ hab hba => Nat.le_antisymm hab hba)
    (sorted_sortNat l1) (sorted_sortNat l2) hp

/-! ### `mode_swaps` on a fresh circuit -/

theorem modeInRange_new (N : Nat) (m : Nat) (hm : m < N) :
    (Circ.new N : Circ K).modeInRange (m : Int) = .ok m := by
  unfold Circ.modeInRange
  have h1 : (0 : Int) ≤ (m : Int) := by omega
  have h2 : (m : Int) < (((Circ.new N : Circ K).n : Nat) : Int) := by
    show (m : Int) < (N : Int)
    omega
  rw [if_pos ⟨h1, h2⟩]
  simp

theorem mapM_inRange_keys (N : Nat) (d : Dict) (hk : ∀ k ∈ d.keys, k < N) :
    (d.map fun p => ((p.1 : Int), (p.2 : Int))).mapM
      (fun p => (Circ.new N : Circ K).modeInRange p.1) = .ok d.keys := by
  induction d with
  | nil => rfl
  | cons p d ih =>
    have hp : p.1 < N := hk p.1 (by simp [Dict.keys])
    have hd : ∀ k ∈ Dict.keys d, k < N := fun k hk' => hk k (by
      simp only [Dict.keys, List.map_cons, List.mem_cons]; exact Or.inr hk')
    simp only [List.map_cons, List.mapM_cons]
    rw [modeInRange_new N p.1 hp, ih hd]
    rfl

theorem mapM_inRange_vals (N : Nat) (d : Dict) (hk : ∀ k ∈ d.vals, k < N) :
    (d.map fun p => ((p.1 : Int), (p.2 : Int))).mapM
      (fun p => (Circ.new N : Circ K).modeInRange p.2) = .ok d.vals := by
  induction d with
  | nil => rfl
  | cons p d ih =>
    have hp : p.2 < N := hk p.2 (by simp [Dict.vals])
    have hd : ∀ k ∈ Dict.vals d, k < N := fun k hk' => hk k (by
      simp only [Dict.vals, List.map_cons, List.mem_cons]; exact Or.inr hk')
    simp only [List.map_cons, List.mapM_cons]
    rw [modeInRange_new N p.2 hp, ih hd]
    rfl

theorem zip_keys_vals (d : Dict) : d.keys.zip d.vals = d := by
  induction d with
  | nil => rfl
  | cons p d ih =>
    show (p.1, p.2) :: (Dict.keys d).zip (Dict.vals d) = p :: d
    rw [ih]

/-- `mode_swaps` of a permutation dictionary on a fresh circuit of `N` modes -/
theorem modeSwaps_new (N : Nat) (d : Dict) (hnd : d.keys.Nodup) (hperm : d.keys.Perm d.vals)
    (hk : ∀ k ∈ d.keys, k < N) :
    (Circ.new N : Circ K).modeSwaps (d.map fun p => ((p.1 : Int), (p.2 : Int)))
      = .ok { n := N, spec := [.prim (.swaps d)] } := by
  have hv : ∀ v ∈ d.vals, v < N := fun v hv => hk v (hperm.mem_iff.mpr hv)
  have hmap : (d.map fun p => ((p.1 : Int), (p.2 : Int))).map
      (fun p => ((Circ.new N : Circ K).mapMode p.1, (Circ.new N : Circ K).mapMode p.2))
      = d.map fun p => ((p.1 : Int), (p.2 : Int)) := by
    rw [List.map_map]; rfl
  have hof : Dict.ofPairs (d.keys.zip d.vals) = d := by
    rw [zip_keys_vals]; exact ofPairs_of_nodup hnd
  unfold Circ.modeSwaps
  simp only [bind, Except.bind]
  rw [hmap, mapM_inRange_keys N d hk, mapM_inRange_vals N d hv]
  simp only [hof, sortNat_eq_of_perm hperm, bne_self_eq_false, Bool.false_eq_true, if_false]
  rfl

/-! ### the dict literal of `SWAP` -/

theorem dictLit_swap (a0 a1 b0 b1 : Int) (h01 : a0 ≠ b0) (h02 : a0 ≠ a1) (h03 : a0 ≠ b1)
    (h12 : b0 ≠ a1) (h13 : b0 ≠ b1) (h23 : a1 ≠ b1) :
    dictLit [(a0, b0), (b0, a0), (a1, b1), (b1, a1)]
      = [(a0, b0), (b0, a0), (a1, b1), (b1, a1)] := by
  simp [dictLit, h01, h02, h03, h12, h13, h23, h01.symm, h02.symm, h03.symm, h12.symm, h13.symm,
    h23.symm]

theorem swapDict_perm (a b : Nat) : (swapDict a b).keys.Perm (swapDict a b).vals := by
  show [2 * a, 2 * b, 2 * a + 1, 2 * b + 1].Perm [2 * b, 2 * a, 2 * b + 1, 2 * a + 1]
  exact (List.Perm.swap _ _ _).trans ((List.Perm.swap _ _ _).cons _ |>.cons _)

theorem swapDict_nodup (a b : Nat) (hab : a ≠ b) : (swapDict a b).keys.Nodup := by
  show [2 * a, 2 * b, 2 * a + 1, 2 * b + 1].Nodup
  simp only [List.nodup_cons, List.mem_cons, List.not_mem_nil, List.nodup_nil, or_false,
    not_or, and_true, not_false_eq_true]
  omega

theorem swapDict_lt (a b : Nat) : ∀ k ∈ (swapDict a b).keys, k < 2 * max a b + 2 := by
  intro k hk
  have : k = 2 * a ∨ k = 2 * b ∨ k = 2 * a + 1 ∨ k = 2 * b + 1 := by
    simpa [swapDict, Dict.keys] using hk
  omega

/-- what `SWAP([2a, 2a+1], [2b, 2b+1])` returns -/
theorem SWAP_ok (a b : Nat) (hab : a ≠ b) :
    SWAP (K := K) [2 * (a : Int), 2 * a + 1] [2 * (b : Int), 2 * b + 1] = .ok (swapCirc K a b) := by
  have hN : (([2 * (a : Int), 2 * a + 1, 2 * b, 2 * b + 1] : List Int).foldl max (2 * (a : Int))
      + 1).toNat = 2 * max a b + 2 := by
    simp only [List.foldl_cons, List.foldl_nil]; omega
  have hd := dictLit_swap (2 * (a : Int)) (2 * a + 1) (2 * b) (2 * b + 1)
    (by omega) (by omega) (by omega) (by omega) (by omega) (by omega)
  show (Circ.new (([2 * (a : Int), 2 * a + 1, 2 * b, 2 * b + 1] : List Int).foldl max
      (2 * (a : Int)) + 1).toNat : Circ K).modeSwaps
      (dictLit [(2 * (a : Int), 2 * (b : Int)), (2 * (b : Int), 2 * (a : Int)),
        (2 * (a : Int) + 1, 2 * (b : Int) + 1), (2 * (b : Int) + 1, 2 * (a : Int) + 1)]) = _
  rw [hN, hd]
  have hsw : [(2 * (a : Int), 2 * (b : Int)), (2 * (b : Int), 2 * (a : Int)),
        (2 * (a : Int) + 1, 2 * (b : Int) + 1), (2 * (b : Int) + 1, 2 * (a : Int) + 1)]
      = (swapDict a b).map fun p => ((p.1 : Int), (p.2 : Int)) := by
    simp only [swapDict, List.map_cons, List.map_nil]
    congr <;> omega
  rw [hsw, modeSwaps_new (2 * max a b + 2) (swapDict a b) (swapDict_nodup a b hab)
    (swapDict_perm a b) (swapDict_lt a b)]
  rfl

/-! ### the placements -/

section
variable [Add K] [Mul K] [Neg K] [Zero K] [One K]

theorem placed_single (c : GC K) (par : Nat → K × K) (name : String) (idx mode : Nat) :
    placedCircK c par (.single name idx mode)
      = .ok (sqCirc c (sqOfName name (par idx)), (mode : Int)) := rfl

theorem placed_swap (c : GC K) (par : Nat → K × K) (a b : Nat) (hab : a ≠ b) :
    placedCircK c par (.swap a b) = .ok (swapCirc K a b, 0) := by
  show (do
      let g ← SWAP (K := K) [2 * (a : Int), 2 * a + 1] [2 * (b : Int), 2 * b + 1]
      pure (g, (0 : Int))) = _
  rw [SWAP_ok a b hab]
  rfl

theorem placed_two (c : GC K) (par : Nat → K × K) (cx ps : Bool) (target mode : Nat)
    (ht : target < 2) (hcz : cx = false → target = 0) :
    placedCircK c par (.two cx ps target mode) = .ok (twoCirc c cx ps target, (mode : Int)) := by
  have ht' : target = 0 ∨ target = 1 := by omega
  cases cx <;> cases ps
  · obtain rfl := hcz rfl
    show (do let g ← CZH c; pure (g, (mode : Int))) = _
    rw [CZH_struct]; rfl
  · obtain rfl := hcz rfl
    show (do let g ← CZ c; pure (g, (mode : Int))) = _
    rw [CZ_struct]; rfl
  · rcases ht' with rfl | rfl
    · show (do let g ← CNOTH c 0; pure (g, (mode : Int))) = _
      rw [CNOTH0_struct]; rfl
    · show (do let g ← CNOTH c 1; pure (g, (mode : Int))) = _
      rw [CNOTH1_struct]; rfl
  · rcases ht' with rfl | rfl
    · show (do let g ← CNOT c 0; pure (g, (mode : Int))) = _
      rw [CNOT0_struct]; rfl
    · show (do let g ← CNOT c 1; pure (g, (mode : Int))) = _
      rw [CNOT1_struct]; rfl

theorem placed_three (c : GC K) (par : Nat → K × K) (ccx : Bool) (target mode : Nat)
    (ht : target < 3) (hcz : ccx = false → target = 0) :
    placedCircK c par (.three ccx target mode) = .ok (threeCirc c ccx target, (mode : Int)) := by
  have ht' : target = 0 ∨ target = 1 ∨ target = 2 := by omega
  cases ccx
  · obtain rfl := hcz rfl
    show (do let g ← CCZ c; pure (g, (mode : Int))) = _
    rw [CCZ_struct]; rfl
  · rcases ht' with rfl | rfl | rfl
    · show (do let g ← CCNOT c 0; pure (g, (mode : Int))) = _
      rw [CCNOT0_struct]; rfl
    · show (do let g ← CCNOT c 1; pure (g, (mode : Int))) = _
      rw [CCNOT1_struct]; rfl
    · show (do let g ← CCNOT c 2; pure (g, (mode : Int))) = _
      rw [CCNOT2_struct]; rfl

end

end LW.C12F
