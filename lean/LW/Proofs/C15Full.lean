/-
  LW.Proofs.C15Full — the circuits `process()` hands to the experiment callback, for EVERY
  well-formed base circuit (private ancilla modes allowed, anywhere).

  `Circuit.add` of a herald-free two-mode circuit at user mode `x` onto a parent with ancillas:
  the ancillas lying between the images `a = _map_mode(x)` and `b = _map_mode(x+1)` of the two
  rails are passed through (`_add_empty_mode` at positions `1, 2, …, b-a-1` of the sub-circuit),
  nothing else changes.  Part 1: the pass-through loop, on lists.
-/
import LW.Proofs.C15Circuits
import LW.Proofs.C02AddDefs

namespace LW.Tomo

open LW.Proofs.C02

variable {K : Type} [CommRing K]

set_option linter.unusedSectionVars false

/-- `_add_empty_mode` applied at positions `1, 2, …, t` of a specification, in this order -/
def stretchSpec : Nat → List (Comp K) → List (Comp K)
  | 0, sp => sp
  | t + 1, sp => Circ.addEmptyModeSpec (stretchSpec t sp) (t + 1)

/-- state of the pass-through loop of `add` for a herald-free two-mode sub-circuit after `t`
insertions -/
def stT (sp0 sp : List (Comp K)) (t : Nat) : Circ.AddSt K :=
  ⟨{ n := t + 2, spec := sp0 }, stretchSpec t sp⟩

theorem targetOf_nil (t0 : Int) : targetOf [] t0 = t0 := rfl

theorem ptStep_skip_lt (mode : Nat) (sp0 sp : List (Comp K)) (t i : Nat) (h : i < mode) :
    ptStep mode (stT sp0 sp t) i = stT sp0 sp t := by
  unfold ptStep
  simp only [stT, Dict.keys, List.map_nil, targetOf_nil]
  rw [if_neg]
  omega

theorem ptStep_skip_gt (mode : Nat) (sp0 sp : List (Comp K)) (t i : Nat) (h : mode + t + 1 < i) :
    ptStep mode (stT sp0 sp t) i = stT sp0 sp t := by
  unfold ptStep
  simp only [stT, Dict.keys, List.map_nil, targetOf_nil]
  rw [if_neg]
  push_cast
  omega

theorem ptStep_advance (mode : Nat) (sp0 sp : List (Comp K)) (t : Nat) :
    ptStep mode (stT sp0 sp t) (mode + t + 1) = stT sp0 sp (t + 1) := by
  unfold ptStep
  simp only [stT, Dict.keys, List.map_nil, targetOf_nil]
  have e : ((mode + t + 1 : Nat) : Int) - (mode : Int) = ((t + 1 : Nat) : Int) := by
    push_cast; omega
  rw [e, if_pos (by push_cast; omega)]
  rfl

/-- second phase: every remaining ancilla lies at or above the current image of the second rail -/
theorem pt_phaseA (mode : Nat) (sp0 sp : List (Comp K)) (L : List Nat) (hs : L.Pairwise (· < ·))
    (t : Nat) (hge : ∀ j ∈ L, mode + t + 1 ≤ j) :
    ∃ t', L.foldl (ptStep mode) (stT sp0 sp t) = stT sp0 sp t' ∧
      ((mode + t' + 1 : Nat) : Int) = skipFold L ((mode + t + 1 : Nat) : Int) := by
  induction L generalizing t with
  | nil => exact ⟨t, rfl, rfl⟩
  | cons j L' ih =>
    have hj := hge j (by simp)
    have hrest : ∀ a ∈ L', j < a := fun a ha => List.rel_of_pairwise_cons hs ha
    by_cases e : j = mode + t + 1
    · subst e
      obtain ⟨t', h1, h2⟩ := ih hs.of_cons (t + 1) (fun a ha => by have := hrest a ha; omega)
      refine ⟨t', ?_, ?_⟩
      · rw [List.foldl_cons, ptStep_advance]; exact h1
      · rw [h2]
        simp only [skipFold, List.foldl_cons]
        rw [if_pos (by omega)]
        congr 1
    · obtain ⟨t', h1, h2⟩ := ih hs.of_cons t (fun a ha => by have := hrest a ha; omega)
      refine ⟨t', ?_, ?_⟩
      · rw [List.foldl_cons, ptStep_skip_gt _ _ _ _ _ (by omega)]; exact h1
      · rw [h2]
        simp only [skipFold, List.foldl_cons]
        rw [if_neg (by push_cast; omega)]

theorem skipFold_nonneg (L : List Nat) (m : Int) (h : 0 ≤ m) : 0 ≤ skipFold L m :=
  Int.le_trans h (le_skipFold L m)

theorem skipFold_le_add_length (L : List Nat) (m : Int) : skipFold L m ≤ m + (L.length : Int) := by
  induction L generalizing m with
  | nil => simp [skipFold]
  | cons i t ih =>
    simp only [skipFold, List.foldl_cons, List.length_cons]
    refine Int.le_trans (ih _) ?_
    split <;> push_cast <;> omega

/-- the pass-through loop for the two rails `x, x+1` (user modes): the ancillas strictly between
their images are inserted, in order; the result is `b - a - 1` insertions -/
theorem pt_loop (sp0 sp : List (Comp K)) (L : List Nat) (hs : L.Pairwise (· < ·)) (x : Nat) :
    ∃ t', L.foldl (ptStep (skipFold L (x : Int)).toNat) (stT sp0 sp 0) = stT sp0 sp t' ∧
      skipFold L (x : Int) + (t' : Int) + 1 = skipFold L ((x : Int) + 1) := by
  induction L generalizing x with
  | nil => exact ⟨0, rfl, by simp [skipFold]⟩
  | cons j L' ih =>
    have hrest : ∀ a ∈ L', j < a := fun a ha => List.rel_of_pairwise_cons hs ha
    by_cases hjx : j ≤ x
    · -- the ancilla lies below both rails
      have e1 : skipFold (j :: L') (x : Int) = skipFold L' ((x + 1 : Nat) : Int) := by
        simp only [skipFold, List.foldl_cons]
        rw [if_pos (by omega)]
        congr 1
      have e2 : skipFold (j :: L') ((x : Int) + 1) = skipFold L' (((x + 1 : Nat) : Int) + 1) := by
        simp only [skipFold, List.foldl_cons]
        rw [if_pos (by omega)]
        congr 1
      obtain ⟨t', h1, h2⟩ := ih hs.of_cons (x + 1)
      refine ⟨t', ?_, ?_⟩
      · rw [e1, List.foldl_cons, ptStep_skip_lt]
        · exact h1
        · have := le_skipFold L' ((x + 1 : Nat) : Int)
          omega
      · rw [e1, e2]; exact h2
    · -- the ancilla (and all later ones) lies above the first rail
      have e1 : skipFold (j :: L') (x : Int) = (x : Int) :=
        skipFold_of_lt _ _ (fun a ha => by
          rcases List.mem_cons.mp ha with rfl | ha
          · omega
          · have := hrest a ha; omega)
      obtain ⟨t', h1, h2⟩ := pt_phaseA x sp0 sp (j :: L') hs 0 (fun a ha => by
        rcases List.mem_cons.mp ha with rfl | ha
        · omega
        · have := hrest a ha; omega)
      refine ⟨t', ?_, ?_⟩
      · rw [e1]; exact h1
      · rw [e1]
        have : ((x + 0 + 1 : Nat) : Int) = (x : Int) + 1 := by push_cast; omega
        rw [this] at h2
        rw [← h2]; push_cast; omega

end LW.Tomo
