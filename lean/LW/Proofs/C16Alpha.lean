/-
  LW.Proofs.C16Alpha — the coefficients `alpha` of `GateFidelity._calculate_alpha_and_u_basis`:
  every Pauli string is the `alphaN`-combination of the input density matrices
  (single-qubit table + Kronecker induction), so `np.linalg.solve` — whose solution is unique
  because the input density matrices are a basis (C16LI `rho_dual`) — returns `alphaN`.
-/
import LW.Proofs.C16Main

open scoped BigOperators

namespace LW.Tomo

variable {K : Type} [Field K] [StarRing K] [DecidableEq K]

set_option linter.unusedSectionVars false

theorem lprod_snoc (l : List K) (x : K) : lprod (l ++ [x]) = lprod l * x := by
  induction l with
  | nil => simp [lprod]
  | cons a t ih =>
    simp only [lprod, List.cons_append, List.foldr_cons] at ih ⊢
    rw [ih, mul_assoc]

theorem alphaN_snoc (qs : Meas) (ts : Ins) (hl : qs.length = ts.length) (s : Pauli) (t : InLabel) :
    (alphaN (qs ++ [s]) (ts ++ [t]) : K) = alphaN qs ts * alphaCoeff s t := by
  unfold alphaN
  rw [List.zip_append hl, List.map_append, List.zip_cons_cons, List.zip_nil_right, List.map_cons,
    List.map_nil, lprod_snoc]

/-- single-qubit table: `P = Σ_t alphaCoeff(P, t) · ρ_t` over `(Z+, Z-, X+, Y+)` -/
theorem alpha1 {i : K} (h2 : (1 + 1 : K) ≠ 0) (p : Pauli) {x y : Nat} (hx : x < 2) (hy : y < 2) :
    ((tomoInputsLI.map fun t => alphaCoeff p t * (rhoM i t).get x y).sum : K) = (pauliM i p).get x y := by
  have hh := half_two h2
  simp only [tomoInputsLI, List.map_cons, List.map_nil, List.sum_cons, List.sum_nil]
  cases p <;> interval_cases x <;> interval_cases y <;> simp [alphaCoeff, rhoM, pauliM] <;>
    first
      | ring1
      | linear_combination hh
      | linear_combination (-1 : K) * hh
      | linear_combination (i : K) * hh
      | linear_combination (-i : K) * hh

/-- n qubits -/
theorem alpha_lift {i : K} (h2 : (1 + 1 : K) ≠ 0) (k : Nat) (qs : Meas) (hq : qs.length = k + 1)
    (a b : Nat) :
    (((combos tomoInputsLI k).map fun ins =>
        alphaN qs ins * entryRev (ins.reverse.map fun t => (rhoM i t).get) a b).sum : K)
      = entryRev (qs.reverse.map fun p => (pauliM i p).get) a b := by
  induction k generalizing qs a b with
  | zero =>
    match qs, hq with
    | [p], _ =>
      simp only [combos, List.map_map, Function.comp_def, List.reverse_cons, List.reverse_nil,
        List.nil_append, List.map_cons, List.map_nil, entryRev, one_mul]
      rw [← alpha1 h2 p (Nat.mod_lt _ (by omega)) (Nat.mod_lt _ (by omega))]
      congr 1
      apply List.map_congr_left
      intro t _
      simp [alphaN, lprod]
  | succ k ih =>
    have hne : qs ≠ [] := by intro h; rw [h] at hq; simp at hq
    obtain ⟨qs', s, rfl⟩ : ∃ qs' s, qs = qs' ++ [s] :=
      ⟨qs.dropLast, qs.getLast hne, (List.dropLast_append_getLast hne).symm⟩
    have hq' : qs'.length = k + 1 := by simpa using hq
    simp only [combos]
    rw [sum_map_flatMap]
    have step : ∀ v1 ∈ combos tomoInputsLI k,
        ((tomoInputsLI.map fun v2 => v1 ++ [v2]).map fun ins =>
          alphaN (qs' ++ [s]) ins * entryRev (ins.reverse.map fun t => (rhoM i t).get) a b).sum
        = (alphaN qs' v1 * entryRev (v1.reverse.map fun t => (rhoM i t).get) (a / 2) (b / 2))
          * (pauliM i s).get (a % 2) (b % 2) := by
      intro v1 hv1
      have hl : qs'.length = v1.length := by rw [hq', combos_length _ _ v1 hv1]
      rw [← alpha1 h2 s (Nat.mod_lt _ (by omega)) (Nat.mod_lt _ (by omega)), List.map_map,
        ← List.sum_map_mul_left]
      congr 1
      apply List.map_congr_left
      intro t _
      simp only [Function.comp_def, List.reverse_append, List.reverse_cons, List.reverse_nil,
        List.nil_append, List.singleton_append, List.map_cons, entryRev]
      rw [alphaN_snoc qs' v1 hl s t]
      ring
    rw [List.map_congr_left step, List.sum_map_mul_right, ih qs' hq']
    simp only [List.reverse_append, List.reverse_cons, List.reverse_nil, List.nil_append,
      List.singleton_append, List.map_cons, entryRev]

/-- every Pauli string is the `alphaN` combination of the input density matrices -/
theorem alpha_reconstruct {i : K} (h2 : (1 + 1 : K) ≠ 0) (k : Nat) (qs : Meas) (hq : qs.length = k + 1)
    {a b : Nat} (ha : a < 2 ^ (k + 1)) (hb : b < 2 ^ (k + 1)) :
    (((combineAll tomoInputsLI (k + 1)).map fun ins =>
        alphaN qs ins * (rhoKron i ins).get a b).sum : K) = (pauliKron i qs).get a b := by
  rw [pauliKron_get i qs (by rw [hq]; exact ha) (by rw [hq]; exact hb), ← alpha_lift h2 k qs hq a b]
  simp only [combineAll, Nat.add_sub_cancel]
  congr 1
  apply List.map_congr_left
  intro ins hins
  have hl := combos_length _ _ ins hins
  unfold rhoKron
  rw [kronList_map_get _ (rhoM_n i) ins (by rw [hl]; exact ha) (by rw [hl]; exact hb)]

end LW.Tomo
