/-
  LW.Proofs.C03Basis — `photons`, `fockBasis`, `partitionIdx`.
-/
import Mathlib.Data.List.Nodup
import Mathlib.Data.List.Range
import Mathlib.Data.List.GetD
import LW.Model.Fock

namespace LW.Proofs.C03

theorem foldl_add_eq (s : List Nat) (a : Nat) : s.foldl (· + ·) a = a + s.sum := by
  induction s generalizing a with
  | nil => simp
  | cons x xs ih => simp [List.foldl_cons, ih, Nat.add_assoc]

theorem photons_eq_sum (s : FState) : photons s = s.sum := by
  simp [photons, foldl_add_eq]

theorem photons_append (p : FState) (v : Nat) : photons (p ++ [v]) = photons p + v := by
  simp [photons_eq_sum]

theorem fockBasis_complete_aux (N n : Nat) (s : FState) :
    s ∈ fockBasis (N + 1) n ↔ s.length = N + 1 ∧ s.sum = n := by
  induction N generalizing n s with
  | zero =>
    simp only [fockBasis, List.mem_singleton]
    constructor
    · rintro rfl; simp
    · rintro ⟨h1, h2⟩
      match s, h1 with
      | [x], _ => simp at h2; simp [h2]
  | succ N ih =>
    simp only [fockBasis, List.mem_flatMap, List.mem_range, List.mem_map]
    constructor
    · rintro ⟨v, hv, p, hp, rfl⟩
      rw [ih] at hp
      simp only [List.length_append, List.length_singleton, List.sum_append, List.sum_singleton]
      omega
    · rintro ⟨h1, h2⟩
      rcases List.eq_nil_or_concat s with rfl | ⟨p, v, rfl⟩
      · simp at h1
      · simp only [List.concat_eq_append, List.length_append, List.length_singleton,
          List.sum_append, List.sum_singleton] at h1 h2
        refine ⟨v, by omega, p, ?_, by simp⟩
        rw [ih]
        omega

/-- `fock_basis(N, n)` enumerates exactly the occupations of `N ≥ 1` modes with `n` photons … -/
theorem fockBasis_complete (N n : Nat) (hN : 0 < N) (s : FState) :
    s ∈ fockBasis N n ↔ s.length = N ∧ photons s = n := by
  obtain ⟨N, rfl⟩ : ∃ M, N = M + 1 := ⟨N - 1, by omega⟩
  rw [photons_eq_sum]
  exact fockBasis_complete_aux N n s

theorem fockBasis_nodup_aux (N n : Nat) : (fockBasis (N + 1) n).Nodup := by
  induction N generalizing n with
  | zero => simp [fockBasis]
  | succ N ih =>
    simp only [fockBasis]
    rw [List.nodup_flatMap]
    constructor
    · intro v _
      refine List.Nodup.map ?_ (ih _)
      intro p q h
      exact List.append_cancel_right h
    · refine List.Pairwise.imp ?_ (List.nodup_range (n := n + 1))
      intro v w hvw
      simp only [Function.onFun]
      rw [List.disjoint_left]
      intro x hx hx'
      simp only [List.mem_map] at hx hx'
      obtain ⟨p, _, rfl⟩ := hx
      obtain ⟨q, _, hq⟩ := hx'
      have := List.append_inj_right' hq rfl
      simp at this
      exact hvw this.symm

/-- … each exactly once -/
theorem fockBasis_nodup (N n : Nat) : (fockBasis N n).Nodup := by
  cases N with
  | zero => simp [fockBasis]
  | succ N => exact fockBasis_nodup_aux N n

example : fockBasis 3 2 = [[2, 0, 0], [1, 1, 0], [0, 2, 0], [1, 0, 1], [0, 1, 1], [0, 0, 2]] := by
  decide

example : [1, 0, 1] ∈ fockBasis 3 2 := (fockBasis_complete 3 2 (by decide) _).2 (by decide)

/-! ### partitionIdx -/

theorem partitionIdx_append (p : FState) (v : Nat) :
    partitionIdx (p ++ [v]) = partitionIdx p ++ List.replicate v p.length := by
  unfold partitionIdx
  rw [List.length_append, List.length_singleton, List.range_succ,
    List.zip_append (by simp)]
  simp

/-- the index list of a state repeats each mode by its occupation -/
theorem partitionIdx_spec (s : FState) :
    (partitionIdx s).length = photons s ∧ ∀ m, (partitionIdx s).count m = s.getD m 0 := by
  induction s using List.reverseRecOn with
  | nil => simp [partitionIdx, photons]
  | append_singleton p v ih =>
    rw [partitionIdx_append, photons_append]
    refine ⟨by simp [ih.1], fun m => ?_⟩
    rw [List.count_append, ih.2, List.count_replicate]
    by_cases h : m < p.length
    · have : ¬ (p.length == m) = true := by simp; omega
      rw [List.getD_append _ _ _ _ h]
      simp [this]
    · rw [List.getD_append_right _ _ _ _ (by omega)]
      by_cases h' : p.length = m
      · subst h'; simp
      · have : ¬ (p.length == m) = true := by simpa using h'
        have h3 : 0 < m - p.length := by omega
        rw [List.getD_eq_default _ _ (by omega), List.getD_eq_default _ _ (by simp; omega)]
        simp [this]

example : partitionIdx [2, 0, 1] = [0, 0, 2] := by decide

end LW.Proofs.C03
