/-
  LW.Proofs.C06Hom — the property's main statement (sampler output = mixture over per-photon
  emission outcomes of the merged outputs of the distinguishable groups) and its Hong–Ou–Mandel
  corollary: at purity 1 the visibility of the coincidence dip equals the indistinguishability.
-/
import LW.Proofs.C06Remap
import Mathlib.Tactic.FieldSimp

set_option linter.unusedSectionVars false

namespace LW.Proofs.C06

open LW.Src LW.SV

section Main
variable {K Q : Type} [CommRing K] [Field Q] [LinearOrder Q] [IsStrictOrderedRing Q]

/-- THE SAMPLER'S DISTRIBUTION IS THE MIXTURE OVER INDEPENDENT PER-PHOTON EMISSION OUTCOMES OF THE
PRODUCT OF THE INDEPENDENT GROUP DISTRIBUTIONS: for every observable `F` of output patterns,
`annotated_state_pdist_calc` applied to `_build_statistics_full(state)` equals the sum, over all
outcome tuples of `specFull` (six outcomes per photon, documented probabilities multiplied, fresh
labels), of the merged-output distribution of that tuple's photon groups -/
theorem output_mixture (b : BackendKind) (nsq : K → Q) (eps : Q) (U : M K) (nReal : Nat)
    (P : Params Q) (h : InRange P) (s : FState) (hs : s ≠ [])
    (hne : ∀ g : FState, g.length = nReal → fullDist b nsq eps U nReal g ≠ []) (F : FState → Q) :
    mix (annotatedPdist b nsq eps U nReal (buildStatisticsFull P s)) F =
      mix (specFull P s).1
        (fun a => mixGroups ((groupsOf nReal a).map (fullDist b nsq eps U nReal)) F) := by
  unfold buildStatisticsFull
  rw [remap_preserves_mixture b nsq eps U nReal _ hne,
    mix_annotatedPdist b nsq eps U nReal _ (fun x _ g hg => hne g (groupsOf_len nReal x.1 g hg)),
    mix_fullDistribution P h s hs]

end Main

/-! ### two photons on two modes -/

/-- the annotated state of the outcome pair `(l1, l2)` of two single-photon modes, as `specFull`
builds it -/
def st2 (l1 l2 : List Int) : AState :=
  ((AState.new []).add (emb ([] ++ l1))).add (emb ([] ++ l2))

theorem groups_00 : groupsOf 2 (st2 [] []) = [[0, 0]] := by decide
theorem groups_i0 : groupsOf 2 (st2 [0] []) = [[1, 0]] := by decide
theorem groups_d0 : groupsOf 2 (st2 [1] []) = [[1, 0]] := by decide
theorem groups_0i : groupsOf 2 (st2 [] [0]) = [[0, 1]] := by decide
theorem groups_0d : groupsOf 2 (st2 [] [3]) = [[0, 1]] := by decide
theorem groups_ii : groupsOf 2 (st2 [0] [0]) = [[1, 1]] := by decide
theorem groups_id : groupsOf 2 (st2 [0] [3]) = [[1, 0], [0, 1]] := by decide
theorem groups_di : groupsOf 2 (st2 [1] [0]) = [[1, 0], [0, 1]] := by decide
theorem groups_dd : groupsOf 2 (st2 [1] [3]) = [[1, 0], [0, 1]] := by decide

section Two
variable {Q : Type} [Field Q] [LinearOrder Q] [IsStrictOrderedRing Q]

theorem mix_specMode_1 (P : Params Q) (ctr : Int) (H : List Int → Q) :
    mix (specMode P ctr 1) H = mix (outcomeTable P ctr) (fun l => H ([] ++ l)) := by
  rw [mix_specMode_succ]
  have h0 : ctr + 2 * ((0 : Nat) : Int) = ctr := by simp
  simp only [specMode, mix_cons, mix_nil, one_mul, add_zero, h0]

theorem mix_specFull_11 (P : Params Q) (G : AState → Q) :
    mix (specFull P [1, 1]).1 G =
      mix (outcomeTable P 1) (fun l1 => mix (outcomeTable P 3) (fun l2 => G (st2 l1 l2))) := by
  have h3 : (1 : Int) + 2 * ((1 : Nat) : Int) = 3 := by norm_num
  simp only [specFull, specFold, List.foldl_cons, List.foldl_nil, mix_specStep, mix_specMode_1, h3,
    mix_cons, mix_nil, one_mul, add_zero]
  rfl

theorem c1dp_of_pure (P : Params Q) (hx : P.p2 = 0) : c1dp P = 0 := by simp [c1dp, hx]
theorem c12d_of_pure (P : Params Q) (hx : P.p2 = 0) : c12d P = 0 := by simp [c12d, hx]
theorem c1d2d_of_pure (P : Params Q) (hx : P.p2 = 0) : c1d2d P = 0 := by simp [c1d2d, hx]
theorem c1_of_pure (P : Params Q) (hx : P.p2 = 0) : c1 P = P.pi * P.nu := by simp [c1, p1, hx]
theorem c1d_of_pure (P : Params Q) (hx : P.p2 = 0) : c1d P = (1 - P.pi) * P.nu := by
  simp [c1d, p1, pd, hx]

end Two

section Hom
variable {K Q : Type} [CommRing K] [Field Q] [LinearOrder Q] [IsStrictOrderedRing Q]

/-- COINCIDENCES OF TWO PHOTONS FROM A PURE SOURCE (purity 1): for an observable `F` that vanishes
on the outputs of fewer than two photons (e.g. the indicator of the coincidence pattern),
`⟨F⟩ = ν² (q² T_ind + (1 - q²) T_dis)` with `T_ind` the value for an indistinguishable pair and
`T_dis` the value for two distinguishable photons, `q² = indistinguishability` -/
theorem hom_coincidence (b : BackendKind) (nsq : K → Q) (eps : Q) (U : M K) (P : Params Q)
    (h : InRange P) (hx : P.p2 = 0)
    (hne : ∀ g : FState, g.length = 2 → fullDist b nsq eps U 2 g ≠ []) (F : FState → Q)
    (h00 : mix (fullDist b nsq eps U 2 [0, 0]) F = 0)
    (h10 : mix (fullDist b nsq eps U 2 [1, 0]) F = 0)
    (h01 : mix (fullDist b nsq eps U 2 [0, 1]) F = 0) :
    mix (annotatedPdist b nsq eps U 2 (buildStatisticsFull P [1, 1])) F =
      P.nu * P.nu * (P.pi * P.pi * mix (fullDist b nsq eps U 2 [1, 1]) F +
        (1 - P.pi * P.pi) *
          mixGroups [fullDist b nsq eps U 2 [1, 0], fullDist b nsq eps U 2 [0, 1]] F) := by
  rw [output_mixture b nsq eps U 2 P h [1, 1] (by simp) hne F, mix_specFull_11]
  have hone : ∀ g : FState, mixGroups [fullDist b nsq eps U 2 g] F = mix (fullDist b nsq eps U 2 g) F :=
    fun g => rfl
  simp only [outcomeTable, mix_cons, mix_nil, add_zero, c1dp_of_pure P hx, c12d_of_pure P hx,
    c1d2d_of_pure P hx, zero_mul, mul_zero, c1_of_pure P hx, c1d_of_pure P hx]
  norm_num only [groups_00, groups_i0, groups_d0, groups_0i, groups_0d, groups_ii, groups_id,
    groups_di, groups_dd, List.map_cons, List.map_nil, hone, h00, h10, h01]
  ring

end Hom

section Vis
variable {K Q : Type} [CommRing K] [Field Q] [LinearOrder Q] [IsStrictOrderedRing Q]

/-- HONG–OU–MANDEL VISIBILITY = INDISTINGUISHABILITY: pure source (purity 1, any brightness ≠ 0), a
circuit on which an indistinguishable pair never produces the observed coincidence (`T_ind = 0`:
the balanced beam splitter) while distinguishable photons do (`T_dis ≠ 0`).  With `C(q)` the
coincidence probability at √indistinguishability `q`, the visibility `1 - C(q)/C(0)` of the dip
relative to fully distinguishable photons is `q² = indistinguishability`. -/
theorem hom_visibility_eq_indist (b : BackendKind) (nsq : K → Q) (eps : Q) (U : M K) (P : Params Q)
    (h : InRange P) (hx : P.p2 = 0) (hν : P.nu ≠ 0)
    (hne : ∀ g : FState, g.length = 2 → fullDist b nsq eps U 2 g ≠ []) (F : FState → Q)
    (h00 : mix (fullDist b nsq eps U 2 [0, 0]) F = 0)
    (h10 : mix (fullDist b nsq eps U 2 [1, 0]) F = 0)
    (h01 : mix (fullDist b nsq eps U 2 [0, 1]) F = 0)
    (hind : mix (fullDist b nsq eps U 2 [1, 1]) F = 0)
    (hdis : mixGroups [fullDist b nsq eps U 2 [1, 0], fullDist b nsq eps U 2 [0, 1]] F ≠ 0) :
    1 - mix (annotatedPdist b nsq eps U 2 (buildStatisticsFull P [1, 1])) F /
        mix (annotatedPdist b nsq eps U 2 (buildStatisticsFull { P with pi := 0 } [1, 1])) F =
      P.pi * P.pi := by
  have h0 : InRange ({ P with pi := 0 } : Params Q) :=
    ⟨h.nu0, h.nu1, h.x0, h.x1, le_refl 0, zero_le_one⟩
  rw [hom_coincidence b nsq eps U P h hx hne F h00 h10 h01,
    hom_coincidence b nsq eps U { P with pi := 0 } h0 hx hne F h00 h10 h01, hind]
  simp only [mul_zero, zero_add, zero_mul, sub_zero, one_mul]
  field_simp
  ring

end Vis

/-! ### keeping every output (negative truncation threshold) on a lossless circuit -/

section NeNil
variable {K Q : Type} [CommRing K] [Field Q] [LinearOrder Q] [IsStrictOrderedRing Q]

theorem fold_keys_mono {α : Type} (step : PDist Q → α → PDist Q) (c : α → Prop) [DecidablePred c]
    (k : α → FState) (v : α → Q)
    (hstep : ∀ pd o, step pd o = if c o then pd.addTo (k o) (v o) else pd)
    (l : List α) (init : PDist Q) (x : FState) (hx : x ∈ init.map (·.1)) :
    x ∈ (l.foldl step init).map (·.1) := by
  induction l generalizing init with
  | nil => exact hx
  | cons a l ih =>
    rw [List.foldl_cons]
    apply ih
    rw [hstep]
    by_cases hc : c a
    · rw [if_pos hc, pdist_addTo]
      exact (mem_addTo_keys init (k a) (v a) x).2 (Or.inl hx)
    · rw [if_neg hc]; exact hx

theorem fold_keys_mem_of {α : Type} (step : PDist Q → α → PDist Q) (c : α → Prop) [DecidablePred c]
    (k : α → FState) (v : α → Q)
    (hstep : ∀ pd o, step pd o = if c o then pd.addTo (k o) (v o) else pd)
    (l : List α) (init : PDist Q) (o : α) (ho : o ∈ l) (hc : c o) :
    k o ∈ (l.foldl step init).map (·.1) := by
  induction l generalizing init with
  | nil => cases ho
  | cons a l ih =>
    rw [List.foldl_cons]
    rcases List.mem_cons.1 ho with rfl | hmem
    · apply fold_keys_mono step c k v hstep
      rw [hstep, if_pos hc, pdist_addTo]
      exact (mem_addTo_keys init (k o) (v o) (k o)).2 (Or.inr rfl)
    · exact ih _ hmem

/-- on a lossless circuit a negative truncation threshold keeps every pattern, so no group
distribution is empty -/
theorem fullDistPermanent_ne_nil (nsq : K → Q) (hn : ∀ z, 0 ≤ nsq z) (eps : Q) (heps : eps < 0)
    (U : M K) (hpos : 0 < U.n) (g : FState) (hg : g.length = U.n) :
    fullDist .permanent nsq eps U U.n g ≠ [] := by
  show fullDistPermanent nsq eps U U.n g ≠ []
  rw [C04a.fullDistPermanent_eq]
  by_cases hp : photons g = 0
  · rw [if_pos hp]; simp
  · rw [if_neg hp, if_neg (by intro hh; exact absurd hh.2 (by omega))]
    unfold C04a.permPd
    simp only [Nat.sub_self, List.replicate_zero, List.append_nil]
    intro hnil
    have hmem : g ∈ fockBasis g.length (photons g) :=
      (C03.fockBasis_complete g.length (photons g) (by omega) g).2 ⟨rfl, rfl⟩
    have hk := fold_keys_mem_of
      (fun (pd : PDist Q) (o : FState) =>
        if photons (o.take U.n) = 0 then pd
        else
          let p := transProb nsq U g o
          if eps < p then pd.addTo (o.take U.n) p else pd)
      (fun o => photons (o.take U.n) ≠ 0 ∧ eps < transProb nsq U g o)
      (fun o => o.take U.n) (fun o => transProb nsq U g o)
      (fun pd o => C04a.permStep_eq nsq eps U U.n g pd o)
      (fockBasis g.length (photons g)) [] g hmem
      ⟨by rw [← hg, List.take_length]; exact hp,
        lt_of_lt_of_le heps (div_nonneg (hn _) (Nat.cast_nonneg _))⟩
    rw [hnil] at hk
    cases hk

end NeNil

end LW.Proofs.C06
