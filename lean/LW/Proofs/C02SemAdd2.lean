/-
  LW.Proofs.C02SemAdd2 — the compiled matrix of the result of `Circuit.add`:
  `U_full' = Embed_window(Embed_ts(P_σ · U_sub)) · pad(Embed_K(U_self))`.
-/
import LW.Proofs.C02SemAdd1
import LW.Proofs.C02SemPrim

open scoped BigOperators

namespace LW.Proofs.C02Sem

open LW LW.Proofs.C01Aux LW.Proofs.C02

variable {K : Type} [CommRing K] [StarRing K]

set_option linter.unusedSectionVars false

theorem insOk_sorted (n : Nat) (l : List Nat) (hs : l.Pairwise (· < ·))
    (hlt : ∀ x ∈ l, x < n + l.length) : InsOk n l := by
  induction l generalizing n with
  | nil => trivial
  | cons k l ih =>
    have := head_add_length_le k l (n + (k :: l).length) hs hlt
    simp only [List.length_cons] at this
    refine ⟨by omega, ih (n + 1) hs.of_cons ?_⟩
    intro x hx
    have := hlt x (by simp [hx])
    simp only [List.length_cons] at this
    omega

/-! ### the swap appended to the sub-circuit -/

theorem lossCount_swapSpec (c : Circ K) : lossCount (swapSpec c) = lossCount c.spec := by
  unfold swapSpec
  simp only
  split
  · rw [lossCount_append]; rfl
  · rfl

theorem fn_id_of_keys_eq_vals (σ : Dict) (h : σ.keys = σ.vals) (r : Nat) : Dict.fn σ r = r := by
  by_cases hr : r ∈ σ.keys
  · have hm := Dict.fn_mem hr
    have : ∀ p ∈ σ, p.1 = p.2 := List.map_inj_left.mp h
    exact (this _ hm).symm
  · exact Dict.fn_of_not_mem hr

/-- the prov dictionary of `add` -/
theorem prov_eq (c : Circ K) (hwf : c.WF) :
    Dict.ofPairs (c.outHer.keys.zip c.inHer.keys) = c.outHer.keys.zip c.inHer.keys := by
  have hlen : c.outHer.keys.length = c.inHer.keys.length := by
    simp [Dict.keys, hwf.lenEq]
  apply ofPairs_of_nodup
  rw [List.map_fst_zip (le_of_eq hlen)]
  exact hwf.outNodup

theorem swapDict_swapsOk (c : Circ K) (hwf : c.WF) :
    SwapsOk c.n (Circ.synthSwaps c.n (c.outHer.keys.zip c.inHer.keys)) := by
  have hlen : c.outHer.keys.length = c.inHer.keys.length := by
    simp [Dict.keys, hwf.lenEq]
  have hfst : (c.outHer.keys.zip c.inHer.keys).map (·.1) = c.outHer.keys :=
    List.map_fst_zip (le_of_eq hlen)
  have hsnd : (c.outHer.keys.zip c.inHer.keys).map (·.2) = c.inHer.keys :=
    List.map_snd_zip (le_of_eq hlen.symm)
  apply LW.Proofs.Reach.synthSwaps_swapsOk
  · show ((c.outHer.keys.zip c.inHer.keys).map (·.1)).Nodup
    rw [hfst]; exact hwf.outNodup
  · show ((c.outHer.keys.zip c.inHer.keys).map (·.2)).Nodup
    rw [hsnd]; exact hwf.inNodup
  · show ∀ x ∈ (c.outHer.keys.zip c.inHer.keys).map (·.1), x < c.n
    rw [hfst]; exact hwf.outLt
  · show ∀ x ∈ (c.outHer.keys.zip c.inHer.keys).map (·.2), x < c.n
    rw [hsnd]; exact hwf.inLt

/-- entries of the compiled sub-circuit followed by its herald-returning swap -/
theorem get_compile_swapSpec (i : K) (c : Circ K) (hwf : c.WF) {r k : Nat}
    (hr : r < c.n + lossCount c.spec) (hk : k < c.n + lossCount c.spec) :
    ∃ ginv : Nat → Nat,
      PermBelow c.n (Dict.fn (Circ.synthSwaps c.n (c.outHer.keys.zip c.inHer.keys))) ginv ∧
      (compile i c.n (swapSpec c)).get r k = (compile i c.n c.spec).get (ginv r) k := by
  have hok := swapDict_swapsOk c hwf
  have hperm := (SwapsOk.permOk hok).permBelow_inv
  refine ⟨_, hperm, ?_⟩
  unfold swapSpec
  simp only
  rw [prov_eq c hwf]
  split
  · have := compile_append_prims i c.n c.spec [Prim.swaps (Circ.synthSwaps c.n (c.outHer.keys.zip c.inHer.keys))]
    rw [show [Comp.prim (Prim.swaps (Circ.synthSwaps c.n (c.outHer.keys.zip c.inHer.keys)))]
      = [Prim.swaps (Circ.synthSwaps c.n (c.outHer.keys.zip c.inHer.keys))].map Comp.prim from rfl, this]
    show ((permMat _ (compile i c.n c.spec).n).mul _).get r k = _
    rw [permMat_eq_permF, compile_n]
    exact permF_mul_get hperm (by omega) _ hr hk
  · rename_i hne
    have hkv : (Circ.synthSwaps c.n (c.outHer.keys.zip c.inHer.keys)).keys
        = (Circ.synthSwaps c.n (c.outHer.keys.zip c.inHer.keys)).vals := by
      by_contra hc
      apply hne
      simp only [bne_iff_ne, ne_eq]
      exact hc
    have hid := fn_id_of_keys_eq_vals _ hkv
    have : Dict.fn (Dict.ofPairs ((Circ.synthSwaps c.n (c.outHer.keys.zip c.inHer.keys)).map fun p => (p.2, p.1))) r = r := by
      have := hperm.left r
      rwa [hid r] at this
    rw [this]

/-! ### the matrix of the result -/

theorem Ufull_add (i : K) (self sub self' : Circ K) (m : Int) (g : Bool) (mode : Nat) (ts : List Nat)
    (d : AddData self sub self' m g mode ts) (hwfs : sub.WF)
    (hws : SpecWf self.n self.spec) (hwsub : SpecWf sub.n (swapSpec (pick sub g).1)) :
    self'.Ufull i =
      (Optic.embedVia (self.n + sub.inHer.length + lossCount self.spec + lossCount sub.spec)
        (Optic.embedVia (sub.n + ts.length + lossCount sub.spec)
          (compile i sub.n (swapSpec (pick sub g).1)) (unbumps ts))
        (winInv (sub.n + ts.length) mode (self.n + sub.inHer.length + lossCount self.spec))).mul
      ((Optic.embedVia (self.n + sub.inHer.length + lossCount self.spec) (self.Ufull i)
        (unbumps ((sortNat (sub.inHer.keys.map (bumps ts))).map (mode + ·)))).pad (lossCount sub.spec)) := by
  set Kk := (sortNat (sub.inHer.keys.map (bumps ts))).map (mode + ·) with hKk
  have hKlen : Kk.length = sub.inHer.length := by
    rw [hKk, List.length_map, length_sortNat, List.length_map, keys_length]
  have hknd : (sub.inHer.keys.map (bumps ts)).Nodup :=
    nodup_map_of_inj (fun a b => bumps_inj ts) hwfs.inNodup
  have hKs : Kk.Pairwise (· < ·) := by
    rw [hKk, List.pairwise_map]
    exact (strictSorted_sortNat hknd).imp (fun hab => by omega)
  have hKlt : ∀ x ∈ Kk, x < self.n + Kk.length := by
    intro x hx
    rw [hKk] at hx
    obtain ⟨k, hk, rfl⟩ := List.mem_map.mp hx
    rw [mem_sortNat] at hk
    obtain ⟨x0, hx0, rfl⟩ := List.mem_map.mp hk
    have hxn := hwfs.inLt x0 hx0
    have h1 := bumps_of_ge sub.n ts d.ok sub.n (Nat.le_refl _)
    have h2 := bumps_strictMono ts hxn
    have := d.fit
    rw [hKlen]; omega
  have hKok : InsOk self.n Kk := insOk_sorted self.n Kk hKs hKlt
  have hL2 : lossCount (swapSpec (pick sub g).1) = lossCount sub.spec := by
    rw [lossCount_swapSpec]
    unfold pick
    simp only
    split
    · show lossCount (unpackSpec sub.spec) = _
      rw [← lossN_flatten, ← lossN_flatten]
      congr 1
      unfold flattenSpec unpackSpec
      induction sub.spec with
      | nil => rfl
      | cons c cs ih =>
        simp only [List.flatMap_cons, List.flatMap_append, ih]
        congr 1
        cases c with
        | prim p => rfl
        | group cs' m1 m2 hin hout =>
          simp only [Comp.toPrims, List.flatMap_map, List.flatMap_singleton']
    · rfl
  have hpn : (pick sub g).1.n = sub.n := (pick_props sub g).1
  show compile i self'.n self'.spec = _
  rw [compile_eq_foldl, d.flat, List.foldl_append, d.n_eq]
  have hV : (flattenSpec (specIns Kk self.spec)).foldl (compilePrim i) (M.one (self.n + sub.inHer.length))
      = compile i (self.n + Kk.length) (specIns Kk self.spec) := by
    rw [compile_eq_foldl, hKlen]
  rw [hV, compile_specIns i self.n Kk hKok self.spec hws, hKlen]
  have hT : mode + (sub.n + ts.length) ≤ self.n + sub.inHer.length + lossCount self.spec := by
    have := d.fit; omega
  have hw2 := specWf_specIns sub.n ts _ hwsub
  rw [foldl_shift i (sub.n + ts.length) mode (self.n + sub.inHer.length + lossCount self.spec) hT
    (specIns ts (swapSpec (pick sub g).1)) hw2 _ rfl (isOfFn_embedVia _ _ _)]
  rw [lossCount_specIns, hL2, compile_specIns i sub.n ts d.ok _ hwsub, hL2]
  rfl

end LW.Proofs.C02Sem
