/-
  LW.Proofs.C12FullInstrPlan — the placements of one qiskit instruction (`placeInstr`) compose
  to the instruction's homomorphism `instrHom`: single-qubit and three-qubit gates are one
  placement on consecutive qubits; a `swap` is a renaming; `cx`/`cz` on arbitrary qubits is the
  two-qubit gate conjugated by the SWAPs of `convert_two_qubits_to_adjacent`, i.e. the gate placed
  directly on the two qubits.  Also the shape of a placeable instruction (`Shape`).
-/
import LW.Proofs.C12FullPlan
import LW.Proofs.C12

open MvPolynomial

namespace LW.C12F

open LW LW.QC LW.Gates LW.QF LW.Proofs.C02Sem

/-! ### shape of a placeable instruction -/

/-- the cases of an instruction accepted by `placeInstr` (with distinct qubits `< nq`) -/
inductive Shape (nq : ℕ) (g : Instr) (f : Bool) : Prop
  | single (q : ℕ) (hq : g.qubits = [q]) (hlt : q < nq)
  | swap (a b : ℕ) (hq : g.qubits = [a, b]) (hab : a ≠ b) (ha : a < nq) (hb : b < nq)
      (hn : g.name = "swap")
  | two (a b : ℕ) (hq : g.qubits = [a, b]) (hab : a ≠ b) (ha : a < nq) (hb : b < nq)
      (hn : g.name ≠ "swap")
  | three (a b t : ℕ) (hq : g.qubits = [a, b, t]) (hnd : [a, b, t].Nodup) (ha : a < nq)
      (hb : b < nq) (ht : t < nq) (hf : f = true)
      (hspan : max a (max b t) - min a (min b t) = 2) (hn : g.name = "ccx" ∨ g.name = "ccz")

/-- the plan of a placeable instruction, case by case -/
theorem placeInstr_cases (nq idx : ℕ) (g : Instr) (f : Bool) (plan : List Placed)
    (hnd : g.qubits.Nodup) (hlt : ∀ q ∈ g.qubits, q < nq) (h : placeInstr idx g f = .ok plan) :
    (∃ q, g.qubits = [q] ∧ q < nq ∧ plan = [.single g.name idx (2 * q)]) ∨
    (∃ a b, g.qubits = [a, b] ∧ a ≠ b ∧ a < nq ∧ b < nq ∧ g.name = "swap" ∧ plan = [.swap a b]) ∨
    (∃ a b, g.qubits = [a, b] ∧ a ≠ b ∧ a < nq ∧ b < nq ∧ g.name ≠ "swap" ∧
      plan = (toAdjacent a b).2.2.map (fun p => Placed.swap p.1 p.2) ++
        [.two (g.name = "cx") f
          (if g.name = "cx" then (toAdjacent a b).2.1 - min (toAdjacent a b).1 (toAdjacent a b).2.1
            else 0)
          (2 * min (toAdjacent a b).1 (toAdjacent a b).2.1)] ++
        (toAdjacent a b).2.2.map (fun p => Placed.swap p.1 p.2)) ∨
    (∃ a b t, g.qubits = [a, b, t] ∧ [a, b, t].Nodup ∧ a < nq ∧ b < nq ∧ t < nq ∧ f = true ∧
      max a (max b t) - min a (min b t) = 2 ∧ (g.name = "ccx" ∨ g.name = "ccz") ∧
      plan = [.three (g.name = "ccx") (if g.name = "ccx" then t - min a (min b t) else 0)
        (2 * min a (min b t))]) := by
  unfold placeInstr at h
  by_cases ha : allowed.contains g.name = true
  · simp only [ha, not_true_eq_false, if_false] at h
    match hq : g.qubits with
    | [] => rw [hq] at h; simp at h
    | [q] =>
      rw [hq] at h hlt
      left
      split_ifs at h
      · simp only [Except.ok.injEq] at h
        exact ⟨q, rfl, hlt q (by simp), h.symm⟩
    | [a, b] =>
      rw [hq] at h hlt hnd
      have hab : a ≠ b := by
        intro e; subst e; simp at hnd
      right
      simp only [placeTwo] at h
      by_cases hs : g.name = "swap"
      · left
        simp only [hs, if_true, Except.ok.injEq] at h
        exact ⟨a, b, rfl, hab, hlt a (by simp), hlt b (by simp), hs, h.symm⟩
      · right; left
        simp only [hs, if_false] at h
        by_cases hc : g.name = "cx" ∨ g.name = "cz"
        · rw [if_pos hc] at h
          simp only [Except.ok.injEq] at h
          exact ⟨a, b, rfl, hab, hlt a (by simp), hlt b (by simp), hs, h.symm⟩
        · rw [if_neg hc] at h
          cases h
    | [a, b, t] =>
      rw [hq] at h hlt hnd
      right; right; right
      simp only [placeThree] at h
      by_cases h1 : g.name = "ccx" ∨ g.name = "ccz"
      · rw [if_pos h1] at h
        cases f with
        | false => simp at h
        | true =>
          simp only [Bool.not_true, Bool.false_eq_true, if_false] at h
          by_cases h3 : max a (max b t) - min a (min b t) = 2
          · rw [if_neg (by simpa using h3)] at h
            simp only [Except.ok.injEq] at h
            exact ⟨a, b, t, rfl, hnd, hlt a (by simp), hlt b (by simp), hlt t (by simp), rfl, h3,
              h1, h.symm⟩
          · rw [if_pos h3] at h
            cases h
      · rw [if_neg h1] at h
        cases h
    | _ :: _ :: _ :: _ :: _ => rw [hq] at h; simp at h
  · have ha' : g.name ∉ allowed := by simpa using ha
    simp [ha'] at h

theorem shape_of_place (nq idx : ℕ) (g : Instr) (f : Bool) (plan : List Placed)
    (hnd : g.qubits.Nodup) (hlt : ∀ q ∈ g.qubits, q < nq) (h : placeInstr idx g f = .ok plan) :
    Shape nq g f := by
  rcases placeInstr_cases nq idx g f plan hnd hlt h with ⟨q, hq, hl, _⟩ |
    ⟨a, b, hq, hab, ha, hb, hn, _⟩ | ⟨a, b, hq, hab, ha, hb, hn, _⟩ |
    ⟨a, b, t, hq, hnd', ha, hb, ht, hf, hs, hn, _⟩
  · exact .single q hq hl
  · exact .swap a b hq hab ha hb hn
  · exact .two a b hq hab ha hb hn
  · exact .three a b t hq hnd' ha hb ht hf hs hn

/-! ### arithmetic of the qubit swaps -/

theorem qswap_self (a z : ℕ) : qswap a a z = z := by
  unfold qswap
  split_ifs <;> omega

theorem qswap_lt_of {a b nq D z : ℕ} (ha : a < nq) (hb : b < nq) (hD : 2 * nq ≤ D) (hz : z < D) :
    qswap a b z < D := by
  unfold qswap
  split_ifs <;> omega

theorem qswap_comm_disjoint (a b c d z : ℕ) (h1 : a ≠ c) (h2 : a ≠ d) (h3 : b ≠ c) (h4 : b ≠ d) :
    qswap a b (qswap c d z) = qswap c d (qswap a b z) := by
  unfold qswap
  split_ifs <;> omega

/-- the mode permutation of the swaps that bring `lo < hi` to `(l, l+1)` -/
def tauOf (lo hi l : ℕ) (z : ℕ) : ℕ := qswap hi (l + 1) (qswap lo l z)

theorem tauOf_invol (lo hi l : ℕ) (h1 : lo ≤ l) (h2 : l + 1 ≤ hi) (z : ℕ) :
    tauOf lo hi l (tauOf lo hi l z) = z := by
  unfold tauOf
  rw [qswap_comm_disjoint hi (l + 1) lo l _ (by omega) (by omega) (by omega) (by omega),
    qswap_invol, qswap_invol]

theorem tauOf_lt {lo hi l nq D z : ℕ} (h1 : lo ≤ l) (h2 : l + 1 ≤ hi) (hhi : hi < nq)
    (hD : 2 * nq ≤ D) (hz : z < D) : tauOf lo hi l z < D := by
  unfold tauOf
  exact qswap_lt_of hhi (by omega) hD (qswap_lt_of (by omega) (by omega) hD hz)

theorem tauOf_port0 (lo hi l e : ℕ) (h1 : lo ≤ l) (h2 : l + 1 ≤ hi) (he : e < 2) :
    tauOf lo hi l (2 * l + e) = 2 * lo + e := by
  unfold tauOf qswap
  split_ifs <;> omega

theorem tauOf_port1 (lo hi l e : ℕ) (h1 : lo ≤ l) (h2 : l + 1 ≤ hi) (he : e < 2) :
    tauOf lo hi l (2 * (l + 1) + e) = 2 * hi + e := by
  unfold tauOf qswap
  split_ifs <;> omega

theorem tauOf_ge (lo hi l z : ℕ) (h1 : lo ≤ l) (h2 : l + 1 ≤ hi) (hz : 2 * hi + 2 ≤ z) :
    tauOf lo hi l z = z := by
  unfold tauOf qswap
  split_ifs <;> omega

variable {R : Type} [CommRing R] [StarRing R]

/-! ### the swaps of `convert_two_qubits_to_adjacent` -/

theorem planHom_swap (c : GC R) (par : ℕ → R × R) (nq a b P : ℕ) (hab : a ≠ b) (ha : a < nq)
    (hb : b < nq) (hP : 2 * nq ≤ P) :
    planHom c par [.swap a b] P = (rename (qswap a b) : Hom R) := by
  simp only [planHom]
  rw [AlgHom.id_comp]
  exact placed_swap_hom c.i a b hab P (by omega)

theorem planHom_swapsFor (c : GC R) (par : ℕ → R × R) (nq lo hi l P : ℕ) (h1 : lo ≤ l)
    (h2 : l + 1 ≤ hi) (hhi : hi < nq) (hP : 2 * nq ≤ P) :
    (∀ p ∈ (swapsFor lo hi l).map (fun p => Placed.swap p.1 p.2), PlacedOk nq p) ∧
    planHer ((swapsFor lo hi l).map (fun p => Placed.swap p.1 p.2)) = [] ∧
    planHom c par ((swapsFor lo hi l).map (fun p => Placed.swap p.1 p.2)) P =
      (rename (tauOf lo hi l) : Hom R) := by
  unfold swapsFor
  by_cases ha : lo = l <;> by_cases hb : hi = l + 1
  · subst ha hb
    refine ⟨by simp, by simp [planHer], ?_⟩
    simp only [ne_eq, not_true_eq_false, if_false, List.append_nil, List.map_nil, planHom]
    have : tauOf lo (lo + 1) lo = id := by
      funext z; unfold tauOf; rw [qswap_self, qswap_self]; rfl
    rw [this, rename_id]
  · subst ha
    refine ⟨?_, by simp [hb, planHer, placedHer], ?_⟩
    · intro p hp
      simp only [ne_eq, not_true_eq_false, if_false, hb, not_false_eq_true, if_true,
        List.nil_append, List.map_cons, List.map_nil, List.mem_singleton] at hp
      subst hp
      exact ⟨hb, hhi, by omega⟩
    · simp only [ne_eq, not_true_eq_false, if_false, hb, not_false_eq_true, if_true,
        List.nil_append, List.map_cons, List.map_nil]
      rw [planHom_swap c par nq hi (lo + 1) P hb hhi (by omega) hP]
      congr 1
      funext z; unfold tauOf; rw [qswap_self]
  · subst hb
    refine ⟨?_, by simp [ha, planHer, placedHer], ?_⟩
    · intro p hp
      simp only [ne_eq, ha, not_false_eq_true, if_true, not_true_eq_false, if_false,
        List.append_nil, List.map_cons, List.map_nil, List.mem_singleton] at hp
      subst hp
      exact ⟨ha, by omega, by omega⟩
    · simp only [ne_eq, ha, not_false_eq_true, if_true, not_true_eq_false, if_false,
        List.append_nil, List.map_cons, List.map_nil]
      rw [planHom_swap c par nq lo l P ha (by omega) (by omega) hP]
      congr 1
      funext z; unfold tauOf; rw [qswap_self]
  · refine ⟨?_, by simp [ha, hb, planHer, placedHer], ?_⟩
    · intro p hp
      simp only [ne_eq, ha, not_false_eq_true, if_true, hb, List.cons_append, List.nil_append,
        List.map_cons, List.map_nil, List.mem_cons, List.not_mem_nil, or_false] at hp
      rcases hp with rfl | rfl
      · exact ⟨ha, by omega, by omega⟩
      · exact ⟨hb, hhi, by omega⟩
    · simp only [ne_eq, ha, not_false_eq_true, if_true, hb, List.cons_append, List.nil_append,
        List.map_cons, List.map_nil]
      have e : [Placed.swap lo l, Placed.swap hi (l + 1)] = [Placed.swap lo l] ++ [Placed.swap hi (l + 1)] :=
        rfl
      rw [e, planHom_append, planHom_swap c par nq lo l P ha (by omega) (by omega) hP,
        planHom_swap c par nq hi (l + 1) _ hb hhi (by omega) (by omega), rename_comp_rename]
      rfl

/-! ### one instruction -/

theorem planHom_single (c : GC R) (par : ℕ → R × R) (p : Placed) (P : ℕ) :
    planHom c par [p] P = placedHom c par p P := by
  simp only [planHom]
  rw [AlgHom.id_comp]

theorem placeInstr_hom (c : GC R) (par : ℕ → R × R) (nq idx : ℕ) (g : Instr) (f : Bool)
    (plan : List Placed) (P : ℕ) (hnd : g.qubits.Nodup) (hlt : ∀ q ∈ g.qubits, q < nq)
    (hpl : placeInstr idx g f = .ok plan) (hP : 2 * nq ≤ P) :
    (∀ p ∈ plan, PlacedOk nq p) ∧ planHer plan = instrHer g f ∧
      planHom c par plan P = instrHom c par idx g f P := by
  rcases placeInstr_cases nq idx g f plan hnd hlt hpl with ⟨q, hq, hl, rfl⟩ |
    ⟨a, b, hq, hab, ha, hb, hn, rfl⟩ | ⟨a, b, hq, hab, ha, hb, hn, rfl⟩ |
    ⟨a, b, t, hq, hnd', ha, hb, ht, hf, hs, _, rfl⟩
  · -- single-qubit gate
    refine ⟨?_, ?_, ?_⟩
    · intro p hp
      rw [List.mem_singleton] at hp
      subst hp
      show 2 * q + 2 ≤ 2 * nq
      omega
    · simp [planHer, placedHer, instrHer, hq]
    · rw [planHom_single]
      have hsw : isSwap g = false := by simp [isSwap, hq]
      unfold instrHom placedHom
      rw [hsw]
      simp only [Bool.false_eq_true, if_false, instrQ, instrSub, instrHer, hq, placedSub,
        placedMode, placedQ, placedHer]
      unfold circHom
      exact placeHomG_eq_of_pinj
        (pinj_fwdQ [q] P 0 (by simp) (by intro x hx; simp at hx; subst hx; omega))
        (pinj_invS' (2 * q) 2 P 0 (by omega)) _
        (fun x _ => by
          have := fwdQ_range' q 1 P x
          simpa [List.range'] using this.symm)
  · -- swap
    refine ⟨?_, ?_, ?_⟩
    · intro p hp
      rw [List.mem_singleton] at hp
      subst hp
      exact ⟨hab, ha, hb⟩
    · simp [planHer, placedHer, instrHer, hq, hn]
    · rw [planHom_swap c par nq a b P hab ha hb hP]
      have hsw : isSwap g = true := by simp [isSwap, hq, hn]
      unfold instrHom
      rw [hsw, if_pos rfl, hq]
      rfl
  · -- cx / cz
    have hsw : isSwap g = false := by simp [isSwap, hq, hn]
    -- normal form of `toAdjacent`
    obtain ⟨l, h1, h2, hta, htgt, hlo, hhi⟩ : ∃ l, min a b ≤ l ∧ l + 1 ≤ max a b ∧
        (toAdjacent a b).2.2 = swapsFor (min a b) (max a b) l ∧
        (toAdjacent a b).2.1 - min (toAdjacent a b).1 (toAdjacent a b).2.1 = (if a < b then 1 else 0) ∧
        min (toAdjacent a b).1 (toAdjacent a b).2.1 = l ∧ max a b < nq := by
      rcases Nat.lt_or_gt_of_ne hab with hlt' | hgt
      · obtain ⟨l, h1, h2, e, _⟩ := toAdjacent_lt a b hlt'
        refine ⟨l, by omega, by omega, ?_, ?_, ?_, by omega⟩
        · rw [e, show min a b = a by omega, show max a b = b by omega]
        · rw [e, if_pos hlt']; simp
        · rw [e]; simp
      · obtain ⟨l, h1, h2, _, e⟩ := toAdjacent_lt b a hgt
        refine ⟨l, by omega, by omega, ?_, ?_, ?_, by omega⟩
        · rw [e, show min a b = b by omega, show max a b = a by omega]
        · rw [e, if_neg (by omega)]; simp
        · rw [e]; simp
    rw [hta, htgt, hlo]
    obtain ⟨hS1, hS2, hS3⟩ := planHom_swapsFor c par nq (min a b) (max a b) l P h1 h2 hhi hP
    have hS3' := (planHom_swapsFor c par nq (min a b) (max a b) l
      (P + (instrHer g f).length) h1 h2 hhi (by omega)).2.2
    have hherg : instrHer g f = if f then [0, 0] else [0, 1, 1, 0] := by
      simp [instrHer, hq, hn]
    have htw : PlacedOk nq (.two (g.name = "cx") f
        (if g.name = "cx" then (if a < b then 1 else 0) else 0) (2 * l)) := by
      refine ⟨?_, ?_, ?_⟩
      · split_ifs <;> omega
      · intro hcx
        have : ¬ g.name = "cx" := by simpa using hcx
        rw [if_neg this]
      · omega
    refine ⟨?_, ?_, ?_⟩
    · intro p hp
      rw [List.mem_append, List.mem_append, List.mem_singleton] at hp
      rcases hp with (hp | rfl) | hp
      · exact hS1 p hp
      · exact htw
      · exact hS1 p hp
    · rw [planHer_append, planHer_append, hS2, hherg]
      simp [planHer, placedHer]
    · rw [planHom_append, planHom_append, hS3, hS2, planHom_single]
      have hP0 : P + ([] : List ℕ).length = P := rfl
      have hPl : P +
          (planHer [Placed.two (g.name = "cx") f
            (if g.name = "cx" then (if a < b then 1 else 0) else 0) (2 * l)]).length
          = P + (instrHer g f).length := by
        rw [hherg]; simp [planHer, placedHer]
      rw [planHer_append, hS2, List.nil_append, hP0, hPl, hS3']
      unfold instrHom
      rw [hsw]
      simp only [Bool.false_eq_true, if_false]
      unfold placedHom
      simp only [placedSub, placedMode, placedQ, placedHer]
      have hsub : instrSub c par idx g f = twoCirc c (g.name = "cx") f
          (if g.name = "cx" then (if a < b then 1 else 0) else 0) := by
        simp [instrSub, hq]
      have hQ : instrQ g = [min a b, max a b] := by simp [instrQ, hq]
      rw [hsub, hQ, hherg]
      have hDl : P + (if f = true then [0, 0] else [0, 1, 1, 0]).length
          = P + (if f = true then 2 else 4) := by cases f <;> rfl
      have hconj := rename_conj_place (R := R) (tauOf (min a b) (max a b) l)
        (tauOf_invol _ _ _ h1 h2) (D := P + (if f = true then [0, 0] else [0, 1, 1, 0]).length)
        (fun z hz => tauOf_lt h1 h2 hhi (by omega) hz)
        (circHom c.i (twoCirc c (g.name = "cx") f
          (if g.name = "cx" then (if a < b then 1 else 0) else 0)))
        (fwdS (2 * l) 4 P) (invS' (2 * l) 4 P)
      rw [hconj]
      have hn6 : (twoCirc c (g.name = "cx") f
          (if g.name = "cx" then (if a < b then 1 else 0) else 0)).n
          = 4 + (if f = true then [0, 0] else [0, 1, 1, 0]).length := by
        cases f <;> rfl
      unfold circHom
      rw [hn6]
      have hlt2 : ∀ q ∈ [min a b, max a b], 2 * q + 1 < P := by
        intro q hq'
        simp only [List.mem_cons, List.not_mem_nil, or_false] at hq'
        rcases hq' with rfl | rfl <;> omega
      have hnd2 : [min a b, max a b].Nodup := by
        simp only [List.nodup_cons, List.mem_cons, List.not_mem_nil, or_false, not_false_eq_true,
          List.nodup_nil, and_true]
        omega
      refine placeHomG_eq_of_pinj
        (pinj_fwdQ [min a b, max a b] P _ hnd2 hlt2)
        (pinj_conj (pinj_invS' (2 * l) 4 P _ (by omega)) _ (tauOf_invol _ _ _ h1 h2)
          (fun z hz => tauOf_lt h1 h2 hhi (by omega) hz)) _ ?_
      intro x hx
      have hxl : x < 4 + 4 := by
        have h4 : (if f = true then [0, 0] else [0, 1, 1, 0]).length ≤ 4 := by cases f <;> simp
        have h5 : 2 * [min a b, max a b].length = 4 := rfl
        omega
      by_cases hx2 : x < 2
      · have e1 : fwdS (2 * l) 4 P x = 2 * l + x := by unfold fwdS; rw [if_pos (by omega)]
        rw [e1, tauOf_port0 _ _ _ _ h1 h2 hx2]
        have := fwdQ_port [min a b, max a b] P 0 x (by simp) hx2
        simpa using this.symm
      · by_cases hx4 : x < 4
        · have e1 : fwdS (2 * l) 4 P x = 2 * (l + 1) + (x - 2) := by
            unfold fwdS; rw [if_pos (by omega)]; omega
          rw [e1, tauOf_port1 _ _ _ _ h1 h2 (by omega)]
          have := fwdQ_port [min a b, max a b] P 1 (x - 2) (by simp) (by omega)
          have e2 : 2 * 1 + (x - 2) = x := by omega
          rw [e2] at this
          simpa using this.symm
        · have e1 : fwdS (2 * l) 4 P x = P + (x - 4) := by unfold fwdS; rw [if_neg (by omega)]
          rw [e1, tauOf_ge _ _ _ _ h1 h2 (by omega)]
          have := fwdQ_her [min a b, max a b] P (x - 4)
          have e2 : 2 * [min a b, max a b].length + (x - 4) = x := by simp; omega
          rw [e2] at this
          exact this.symm
  · -- ccx / ccz
    have hsw : isSwap g = false := by simp [isSwap, hq]
    have hmn : min a (min b t) + 2 < nq := by omega
    refine ⟨?_, ?_, ?_⟩
    · intro p hp
      rw [List.mem_singleton] at hp
      subst hp
      refine ⟨?_, ?_, ?_⟩
      · split_ifs <;> omega
      · intro hcx
        have : ¬ g.name = "ccx" := by simpa using hcx
        rw [if_neg this]
      · omega
    · simp [planHer, placedHer, instrHer, hq]
    · rw [planHom_single]
      unfold instrHom placedHom
      rw [hsw]
      simp only [Bool.false_eq_true, if_false, instrQ, instrSub, instrHer, hq, placedSub,
        placedMode, placedQ, placedHer]
      unfold circHom
      have hn10 : (threeCirc c (g.name = "ccx")
          (if g.name = "ccx" then t - min a (min b t) else 0)).n = 6 + 4 := rfl
      rw [hn10]
      exact placeHomG_eq_of_pinj
        (pinj_fwdQ [min a (min b t), min a (min b t) + 1, min a (min b t) + 2] P 4
          (by simp) (by intro x hx; simp at hx; rcases hx with rfl | rfl | rfl <;> omega))
        (pinj_invS' (2 * min a (min b t)) 6 P 4 (by omega)) _
        (fun x _ => by
          have := fwdQ_range' (min a (min b t)) 3 P x
          simpa [List.range'] using this.symm)

end LW.C12F
