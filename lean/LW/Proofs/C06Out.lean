/-
  LW.Proofs.C06Out — `annotated_state_pdist_calc`: the output distribution is the mixture, over the
  source inputs, of the distribution of the merged outputs of the independent photon groups.
-/
import LW.Proofs.C06Input
import LW.Proofs.C04b

set_option linter.unusedSectionVars false

namespace LW.Proofs.C06

open LW.Src LW.SV

/-! ### `list(dict.fromkeys(·))` -/

section Dedup
variable {α : Type} [BEq α] [LawfulBEq α]

theorem dedup_fold (l : List α) (acc : List α) :
    (∀ x, x ∈ l.foldl (fun acc x => if acc.contains x then acc else acc ++ [x]) acc ↔ x ∈ acc ∨ x ∈ l) ∧
      (acc.Nodup → (l.foldl (fun acc x => if acc.contains x then acc else acc ++ [x]) acc).Nodup) := by
  induction l generalizing acc with
  | nil => simp
  | cons a l ih =>
    rw [List.foldl_cons]
    by_cases h : acc.contains a = true
    · rw [if_pos h]
      have hm : a ∈ acc := List.contains_iff_mem.1 h
      refine ⟨fun x => ?_, (ih acc).2⟩
      rw [(ih acc).1 x, List.mem_cons]
      constructor
      · rintro (h1 | h1)
        · exact Or.inl h1
        · exact Or.inr (Or.inr h1)
      · rintro (h1 | rfl | h1)
        · exact Or.inl h1
        · exact Or.inl hm
        · exact Or.inr h1
    · rw [if_neg h]
      have hm : a ∉ acc := fun hh => h (List.contains_iff_mem.2 hh)
      refine ⟨fun x => ?_, fun hnd => (ih _).2 ?_⟩
      · rw [(ih _).1 x, List.mem_append, List.mem_singleton, List.mem_cons, or_assoc]
      · exact List.nodup_append.2 ⟨hnd, List.nodup_singleton a, by
          intro x hx y hy
          rw [List.mem_singleton] at hy
          subst hy
          exact fun hxy => hm (hxy ▸ hx)⟩

theorem mem_dedup (l : List α) (x : α) : x ∈ dedup l ↔ x ∈ l := by
  unfold dedup
  rw [(dedup_fold l []).1 x]
  simp

theorem dedup_nodup (l : List α) : (dedup l).Nodup := (dedup_fold l []).2 (by simp)

end Dedup

theorem find_map_self {β : Type} (l : List FState) (f : FState → β) (s : FState) (hs : s ∈ l) :
    ((l.map fun s => (s, f s)).find? (·.1 == s)).map (·.2) = some (f s) := by
  induction l with
  | nil => cases hs
  | cons a l ih =>
    rw [List.map_cons, List.find?_cons]
    by_cases ha : a = s
    · subst ha; simp
    · have : ((a, f a).1 == s) = false := by simpa using ha
      rw [this]
      rcases List.mem_cons.1 hs with h | h
      · exact absurd h.symm ha
      · exact ih h

section
variable {Q : Type} [Field Q] [LinearOrder Q] [IsStrictOrderedRing Q]

/-! ### output dictionaries are `KD FState Q` -/

theorem pdist_addTo (d : PDist Q) (s : FState) (p : Q) : d.addTo s p = KD.addTo d s p := rfl
theorem pdist_total (d : PDist Q) : d.total = KD.total d := rfl

theorem foldl_addTo_keys_nodup {α : Type} [BEq α] [LawfulBEq α] (l : List (α × Q)) (init : KD α Q)
    (h : (init.map (·.1)).Nodup) :
    ((l.foldl (fun d x => KD.addTo d x.1 x.2) init).map (·.1)).Nodup := by
  induction l generalizing init with
  | nil => exact h
  | cons x l ih => exact ih _ (addTo_keys_nodup init x.1 x.2 h)

/-- `conv` accumulates the product list -/
theorem conv_eq (d1 d2 : PDist Q) :
    conv d1 d2 = KD.ofPairs (d1.flatMap fun x => d2.map fun y => (mergeF x.1 y.1, x.2 * y.2)) := by
  unfold conv KD.ofPairs
  rw [List.foldl_flatMap]
  congr 1
  funext nd x
  rw [List.foldl_map]
  rfl

theorem mix_conv (d1 d2 : PDist Q) (F : FState → Q) :
    mix (conv d1 d2) F = mix d1 (fun a => mix d2 (fun b => F (mergeF a b))) := by
  rw [conv_eq, mix_ofPairs, mix_product d1 d2 mergeF F]

theorem conv_keys_nodup (d1 d2 : PDist Q) : ((conv d1 d2).map (·.1)).Nodup := by
  rw [conv_eq]; exact ofPairs_keys_nodup _

theorem conv_ne_nil (d1 d2 : PDist Q) (h1 : d1 ≠ []) (h2 : d2 ≠ []) : conv d1 d2 ≠ [] := by
  rw [conv_eq]
  obtain ⟨x, l1, rfl⟩ := List.exists_cons_of_ne_nil h1
  obtain ⟨y, l2, rfl⟩ := List.exists_cons_of_ne_nil h2
  intro h
  have hm : mergeF x.1 y.1 ∈ (KD.ofPairs
      (((x :: l1).flatMap fun x => (y :: l2).map fun y => (mergeF x.1 y.1, x.2 * y.2))) : KD FState Q).map (·.1) := by
    rw [mem_ofPairs_keys]
    simp
  rw [h] at hm
  cases hm

/-- merged outputs of further independent groups, starting from the pattern `acc` -/
def specConv (ds : List (PDist Q)) (acc : FState) (F : FState → Q) : Q :=
  match ds with
  | [] => F acc
  | d :: ds => mix d (fun b => specConv ds (mergeF acc b) F)

theorem mix_foldl_conv (ds : List (PDist Q)) (d0 : PDist Q) (F : FState → Q) :
    mix (ds.foldl conv d0) F = mix d0 (fun a => specConv ds a F) := by
  induction ds generalizing d0 with
  | nil => rfl
  | cons d ds ih =>
    rw [List.foldl_cons, ih, mix_conv]
    rfl

theorem foldl_conv_ne_nil (ds : List (PDist Q)) (d0 : PDist Q) (h0 : d0 ≠ [])
    (h : ∀ d ∈ ds, d ≠ []) : ds.foldl conv d0 ≠ [] := by
  induction ds generalizing d0 with
  | nil => exact h0
  | cons d ds ih =>
    rw [List.foldl_cons]
    exact ih _ (conv_ne_nil d0 d h0 (h d (by simp))) (fun e he => h e (by simp [he]))

theorem convAll_fold (ds : List (PDist Q)) (d0 : PDist Q) (h0 : d0 ≠ []) (h : ∀ d ∈ ds, d ≠ []) :
    ds.foldl (fun pd d => if pd.isEmpty then d else conv pd d) d0 = ds.foldl conv d0 := by
  induction ds generalizing d0 with
  | nil => rfl
  | cons d ds ih =>
    rw [List.foldl_cons, List.foldl_cons]
    have : d0.isEmpty = false := by
      cases d0 with
      | nil => exact absurd rfl h0
      | cons _ _ => rfl
    rw [this]
    exact ih _ (conv_ne_nil d0 d h0 (h d (by simp))) (fun e he => h e (by simp [he]))

/-- distribution of the merged output of independent groups, as a mixture -/
def mixGroups (ds : List (PDist Q)) (F : FState → Q) : Q :=
  match ds with
  | [] => 0
  | d0 :: ds => mix d0 (fun a => specConv ds a F)

theorem mix_convAll (ds : List (PDist Q)) (h : ∀ d ∈ ds, d ≠ []) (F : FState → Q) :
    mix (convAll ds) F = mixGroups ds F := by
  cases ds with
  | nil => rfl
  | cons d0 ds =>
    unfold convAll
    rw [List.foldl_cons]
    have : ([] : PDist Q).isEmpty = true := rfl
    simp only [this, if_true]
    rw [convAll_fold ds d0 (h d0 (by simp)) (fun e he => h e (by simp [he])), mix_foldl_conv]
    rfl

theorem convAll_keys_nodup (ds : List (PDist Q)) (h : ∀ d ∈ ds, (d.map (·.1)).Nodup) :
    ((convAll ds).map (·.1)).Nodup := by
  unfold convAll
  have : ∀ (ds : List (PDist Q)) (d0 : PDist Q), (d0.map (·.1)).Nodup →
      (∀ d ∈ ds, (d.map (·.1)).Nodup) →
      ((ds.foldl (fun pd d => if pd.isEmpty then d else conv pd d) d0).map (·.1)).Nodup := by
    intro ds
    induction ds with
    | nil => intro d0 h0 _; exact h0
    | cons d ds ih =>
      intro d0 h0 hd
      rw [List.foldl_cons]
      apply ih
      · by_cases he : d0.isEmpty = true
        · rw [if_pos he]; exact hd d (by simp)
        · rw [if_neg he]; exact conv_keys_nodup d0 d
      · intro e he; exact hd e (by simp [he])
  exact this ds [] (by simp) h

end

section Main
variable {K Q : Type} [CommRing K] [Field Q] [LinearOrder Q] [IsStrictOrderedRing Q]

/-- OUTPUT DISTRIBUTION = MIXTURE OF INDEPENDENT GROUPS: for every observable `F` of output
patterns, `annotated_state_pdist_calc` gives the mixture over the source inputs of the merged
outputs of the per-label boson-sampling distributions (each computed once and looked up) -/
theorem mix_annotatedPdist (b : BackendKind) (nsq : K → Q) (eps : Q) (U : M K) (nReal : Nat)
    (inputs : KD AState Q)
    (hne : ∀ x ∈ inputs, ∀ g ∈ groupsOf nReal x.1, fullDist b nsq eps U nReal g ≠ [])
    (F : FState → Q) :
    mix (annotatedPdist b nsq eps U nReal inputs) F =
      mix inputs (fun a => mixGroups ((groupsOf nReal a).map (fullDist b nsq eps U nReal)) F) := by
  unfold annotatedPdist
  simp only
  set combos := inputs.map fun x => (groupsOf nReal x.1, x.2) with hcombos
  set uniq := dedup (combos.flatMap (·.1)) with huniq
  set look : FState → PDist Q := fun s =>
    (((uniq.map fun s => (s, fullDist b nsq eps U nReal s)).find? (·.1 == s)).map (·.2)).getD [] with hlook
  have hlookeq : ∀ c ∈ combos, c.1.map look = c.1.map (fullDist b nsq eps U nReal) := by
    intro c hc
    apply List.map_congr_left
    intro g hg
    have : g ∈ uniq := by
      rw [huniq, mem_dedup, List.mem_flatMap]
      exact ⟨c, hc, hg⟩
    simp only [hlook]
    rw [find_map_self uniq _ g this]
    rfl
  -- the outer loop, for an arbitrary list of combinations
  have key : ∀ (cs : List (List FState × Q)) (stats : PDist Q), (stats.map (·.1)).Nodup →
      ((cs.foldl (fun (stats : PDist Q) (c : List FState × Q) =>
          (convAll (c.1.map look)).foldl (fun (stats : PDist Q) (o : FState × Q) =>
            stats.addTo o.1 (c.2 * o.2)) stats) stats).map (·.1)).Nodup ∧
      mix (cs.foldl (fun (stats : PDist Q) (c : List FState × Q) =>
          (convAll (c.1.map look)).foldl (fun (stats : PDist Q) (o : FState × Q) =>
            stats.addTo o.1 (c.2 * o.2)) stats) stats) F =
        mix stats F + (cs.map fun c => c.2 * mix (convAll (c.1.map look)) F).sum := by
    intro cs
    induction cs with
    | nil => intro stats h; exact ⟨h, by simp⟩
    | cons c cs ih =>
      intro stats h
      rw [List.foldl_cons]
      have hinner : (convAll (c.1.map look)).foldl (fun (stats : PDist Q) (o : FState × Q) =>
            stats.addTo o.1 (c.2 * o.2)) stats =
          ((convAll (c.1.map look)).map fun o => (o.1, c.2 * o.2)).foldl
            (fun d x => KD.addTo d x.1 x.2) stats := by
        rw [List.foldl_map]; rfl
      rw [hinner]
      obtain ⟨h1, h2⟩ := ih _ (foldl_addTo_keys_nodup _ stats h)
      refine ⟨h1, ?_⟩
      rw [h2, mix_foldl_addTo _ stats F h, mix_scale, List.map_cons, List.sum_cons, add_assoc]
  have := (key combos [] (by simp)).2
  rw [this, mix_nil, zero_add]
  unfold mix
  rw [hcombos, List.map_map]
  congr 1
  apply List.map_congr_left
  intro x hx
  simp only [Function.comp]
  have hc : (groupsOf nReal x.1, x.2) ∈ combos := by
    rw [hcombos]; exact List.mem_map.2 ⟨x, hx, rfl⟩
  have e1 := hlookeq _ hc
  simp only at e1
  rw [e1]
  show x.2 * mix (convAll _) F = _
  rw [mix_convAll]
  · intro d hd
    obtain ⟨g, hg, rfl⟩ := List.mem_map.1 hd
    exact hne x hx g hg

end Main

end LW.Proofs.C06
