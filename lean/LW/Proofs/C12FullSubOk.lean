/-
  LW.Proofs.C12FullSubOk — the explicit sub-circuits behind the placements of the converter's plan
  (`sqCirc`, `swapCirc`, `twoCirc`, `threeCirc`) satisfy the interface `SubOk` of the main
  induction of `convert_correct`: bookkeeping invariant, positional well-formedness, equal and
  sorted heralds, no loss, and the stated numbers of ports / herald photons.
-/
import LW.Proofs.C12FullMainDefs
import LW.Proofs.C12FullSubPlaced

namespace LW.C12F

open LW LW.QC LW.Gates LW.QF

set_option linter.unusedSectionVars false

variable {R : Type} [CommRing R] [StarRing R]

/-! ### dimensions of the hard-coded blocks -/

theorem sqMat_n (c : GC R) (g : SQ R) : (sqMat c g).n = 2 := rfl
theorem czUnitary_n (c : GC R) : (czUnitary c).n = 6 := rfl
theorem czhUnitary_n (c : GC R) : (czhUnitary c).n = 8 := rfl
theorem cczUnitary_n (c : GC R) : (cczUnitary c).n = 10 := rfl

/-! ### a gate circuit: one group of unitary blocks with heralds -/

theorem subOk_gateCirc (n : Nat) (her : Dict) (prims : List (Prim R))
    (hnd : her.keys.Nodup) (hlt : ∀ k ∈ her.keys, k < n) (hs : her.keys.Pairwise (· < ·))
    (hget : ∀ a ∈ her.keys, (her.get? a).isSome)
    (hp : ∀ p ∈ prims, ∃ m u, p = Prim.unitary m u ∧ m + u.n ≤ n) :
    SubOk (gateCirc n her prims) (n - her.length) (her.map (·.2)) := by
  refine ⟨⟨hnd, hnd, hlt, hlt, rfl, hnd, fun a ha => ⟨hget a ha, rfl⟩, ?_⟩, ?_, rfl, hs, ?_, rfl,
    rfl⟩
  · intro comp hcomp m hm
    have hc : comp = .group prims 0 (n - 1) her her := by
      simpa [gateCirc] using hcomp
    subst hc
    simp only [Comp.modes, List.mem_flatMap] at hm
    obtain ⟨p, hpm, hm⟩ := hm
    obtain ⟨m0, u, rfl, hle⟩ := hp p hpm
    simp only [Prim.modes, List.mem_map, List.mem_range] at hm
    obtain ⟨x, hx, rfl⟩ := hm
    show x + m0 < n
    omega
  · intro p hpm
    have hpm' : p ∈ prims := by
      simpa [gateCirc, flattenSpec, Comp.toPrims] using hpm
    obtain ⟨m0, u, rfl, hle⟩ := hp p hpm'
    exact hle
  · have hf : prims.filter Prim.isLoss = [] := by
      rw [List.filter_eq_nil_iff]
      intro p hpm
      obtain ⟨m0, u, rfl, _⟩ := hp p hpm
      simp [Prim.isLoss]
    simp [gateCirc, lossCount, Comp.lossCount, hf]

/-! ### the four families -/

theorem subOk_sq (c : GC R) (g : SQ R) : SubOk (sqCirc c g) 2 [] := by
  refine ⟨⟨List.nodup_nil, List.nodup_nil, ?_, ?_, rfl, List.nodup_nil, ?_, ?_⟩, ?_, rfl,
    List.Pairwise.nil, rfl, rfl, rfl⟩
  · intro k hk; exact absurd hk List.not_mem_nil
  · intro k hk; exact absurd hk List.not_mem_nil
  · intro k hk; exact absurd hk List.not_mem_nil
  · intro comp hcomp m hm
    have hc : comp = .prim (.unitary 0 (sqMat c g)) := by
      simpa [sqCirc, unitaryCirc] using hcomp
    subst hc
    simp only [Comp.modes, Prim.modes, List.mem_map, List.mem_range, sqMat_n] at hm
    obtain ⟨x, hx, rfl⟩ := hm
    show x + 0 < 2
    omega
  · intro p hpm
    have hp : p = .unitary 0 (sqMat c g) := by
      simpa [sqCirc, unitaryCirc, flattenSpec, Comp.toPrims] using hpm
    subst hp
    show 0 + (sqMat c g).n ≤ 2
    rw [sqMat_n]

theorem swapDict_swapsOk (a b : Nat) (hab : a ≠ b) : SwapsOk (2 * max a b + 2) (swapDict a b) :=
  ⟨swapDict_nodup a b hab, swapDict_perm a b, swapDict_lt a b⟩

theorem subOk_swap (a b : Nat) (hab : a ≠ b) : SubOk (swapCirc R a b) (2 * max a b + 2) [] := by
  refine ⟨⟨List.nodup_nil, List.nodup_nil, ?_, ?_, rfl, List.nodup_nil, ?_, ?_⟩, ?_, rfl,
    List.Pairwise.nil, rfl, rfl, rfl⟩
  · intro k hk; exact absurd hk List.not_mem_nil
  · intro k hk; exact absurd hk List.not_mem_nil
  · intro k hk; exact absurd hk List.not_mem_nil
  · intro comp hcomp m hm
    have hc : comp = .prim (.swaps (swapDict a b)) := by
      simpa [swapCirc] using hcomp
    subst hc
    simp only [Comp.modes, Prim.modes, List.mem_append] at hm
    rcases hm with hm | hm
    · exact swapDict_lt a b m hm
    · exact swapDict_lt a b m ((swapDict_perm a b).mem_iff.mpr hm)
  · intro p hpm
    have hp : p = .swaps (swapDict a b) := by
      simpa [swapCirc, flattenSpec, Comp.toPrims] using hpm
    subst hp
    exact swapDict_swapsOk a b hab

theorem subOk_two (c : GC R) (cx ps : Bool) (t : Nat) (ht : t < 2) :
    SubOk (twoCirc c cx ps t) 4 (if ps then [0, 0] else [0, 1, 1, 0]) := by
  have ht2 : t = 0 ∨ t = 1 := by omega
  cases ps
  · -- heralded variant, 8 modes
    have key : ∀ prims : List (Prim R),
        (∀ p ∈ prims, ∃ m u, p = Prim.unitary m u ∧ m + u.n ≤ 8) →
        SubOk (gateCirc 8 herCZH prims) 4 [0, 1, 1, 0] := fun prims hp =>
      subOk_gateCirc 8 herCZH prims (by decide) (by decide) (by decide) (by decide) hp
    cases cx
    · refine key [.unitary 0 (czhUnitary c)] ?_
      intro p hp
      simp only [List.mem_singleton] at hp
      exact ⟨_, _, hp, by have := czhUnitary_n c; omega⟩
    · rcases ht2 with rfl | rfl
      · refine key [.unitary 2 (sqMat c .H), .unitary 0 (czhUnitary c),
          .unitary 2 (sqMat c .H)] ?_
        intro p hp
        simp only [List.mem_cons, List.not_mem_nil, or_false] at hp
        rcases hp with rfl | rfl | rfl
        · exact ⟨_, _, rfl, by have := sqMat_n c SQ.H; omega⟩
        · exact ⟨_, _, rfl, by have := czhUnitary_n c; omega⟩
        · exact ⟨_, _, rfl, by have := sqMat_n c SQ.H; omega⟩
      · refine key [.unitary 4 (sqMat c .H), .unitary 0 (czhUnitary c),
          .unitary 4 (sqMat c .H)] ?_
        intro p hp
        simp only [List.mem_cons, List.not_mem_nil, or_false] at hp
        rcases hp with rfl | rfl | rfl
        · exact ⟨_, _, rfl, by have := sqMat_n c SQ.H; omega⟩
        · exact ⟨_, _, rfl, by have := czhUnitary_n c; omega⟩
        · exact ⟨_, _, rfl, by have := sqMat_n c SQ.H; omega⟩
  · -- post-selected variant, 6 modes
    have key : ∀ prims : List (Prim R),
        (∀ p ∈ prims, ∃ m u, p = Prim.unitary m u ∧ m + u.n ≤ 6) →
        SubOk (gateCirc 6 herCZ prims) 4 [0, 0] := fun prims hp =>
      subOk_gateCirc 6 herCZ prims (by decide) (by decide) (by decide) (by decide) hp
    cases cx
    · refine key [.unitary 0 (czUnitary c)] ?_
      intro p hp
      simp only [List.mem_singleton] at hp
      exact ⟨_, _, hp, by have := czUnitary_n c; omega⟩
    · rcases ht2 with rfl | rfl
      · refine key [.unitary 1 (sqMat c .H), .unitary 0 (czUnitary c),
          .unitary 1 (sqMat c .H)] ?_
        intro p hp
        simp only [List.mem_cons, List.not_mem_nil, or_false] at hp
        rcases hp with rfl | rfl | rfl
        · exact ⟨_, _, rfl, by have := sqMat_n c SQ.H; omega⟩
        · exact ⟨_, _, rfl, by have := czUnitary_n c; omega⟩
        · exact ⟨_, _, rfl, by have := sqMat_n c SQ.H; omega⟩
      · refine key [.unitary 3 (sqMat c .H), .unitary 0 (czUnitary c),
          .unitary 3 (sqMat c .H)] ?_
        intro p hp
        simp only [List.mem_cons, List.not_mem_nil, or_false] at hp
        rcases hp with rfl | rfl | rfl
        · exact ⟨_, _, rfl, by have := sqMat_n c SQ.H; omega⟩
        · exact ⟨_, _, rfl, by have := czUnitary_n c; omega⟩
        · exact ⟨_, _, rfl, by have := sqMat_n c SQ.H; omega⟩

theorem subOk_three (c : GC R) (ccx : Bool) (t : Nat) (ht : t < 3) :
    SubOk (threeCirc c ccx t) 6 [0, 0, 0, 0] := by
  have key : ∀ prims : List (Prim R),
      (∀ p ∈ prims, ∃ m u, p = Prim.unitary m u ∧ m + u.n ≤ 10) →
      SubOk (gateCirc 10 herCCZ prims) 6 [0, 0, 0, 0] := fun prims hp =>
    subOk_gateCirc 10 herCCZ prims (by decide) (by decide) (by decide) (by decide) hp
  cases ccx
  · refine key [.unitary 0 (cczUnitary c)] ?_
    intro p hp
    simp only [List.mem_singleton] at hp
    exact ⟨_, _, hp, by have := cczUnitary_n c; omega⟩
  · refine key [.unitary (2 + 2 * t) (sqMat c .H), .unitary 0 (cczUnitary c),
      .unitary (2 + 2 * t) (sqMat c .H)] ?_
    intro p hp
    simp only [List.mem_cons, List.not_mem_nil, or_false] at hp
    rcases hp with rfl | rfl | rfl
    · exact ⟨_, _, rfl, by have := sqMat_n c SQ.H; omega⟩
    · exact ⟨_, _, rfl, by have := cczUnitary_n c; omega⟩
    · exact ⟨_, _, rfl, by have := sqMat_n c SQ.H; omega⟩

end LW.C12F
