/-
  LW.Proofs.C02Reject — C02: `add` rejects additions whose user-visible span does not fit.
-/
import LW.Proofs.C02Final
namespace LW.Proofs.C02
variable {K : Type}

/-! ### rejection of oversize additions -/
theorem stepFold_bounds (l : List Nat) (t0 : Int) :
    t0 ≤ l.foldl (fun (t : Int) (m : Nat) => if t > (m : Int) then t + 1 else t) t0 ∧
    l.foldl (fun (t : Int) (m : Nat) => if t > (m : Int) then t + 1 else t) t0 ≤ t0 + l.length ∧
    (t0 < 0 → l.foldl (fun (t : Int) (m : Nat) => if t > (m : Int) then t + 1 else t) t0 = t0) := by
  induction l generalizing t0 with
  | nil => simp
  | cons a t ih =>
    simp only [List.foldl_cons, List.length_cons]
    by_cases hc : t0 > (a : Int)
    · rw [if_pos hc]
      obtain ⟨h1, h2, h3⟩ := ih (t0 + 1)
      refine ⟨by omega, by omega, ?_⟩
      intro hneg; omega
    · rw [if_neg hc]
      obtain ⟨h1, h2, h3⟩ := ih t0
      exact ⟨h1, by omega, h3⟩

theorem targetOf_bounds (ks : List Nat) (t0 : Int) :
    t0 ≤ targetOf ks t0 ∧ targetOf ks t0 ≤ t0 + ks.length ∧ (t0 < 0 → targetOf ks t0 = t0) := by
  have := stepFold_bounds (sortNat ks) t0
  rw [length_sortNat] at this
  exact this

theorem skipFold_count (l : List Nat) (hs : l.Pairwise (· < ·)) (m : Int) :
    skipFold l m = m + ((l.filter fun (a : Nat) => decide ((a : Int) < skipFold l m)).length : Int) := by
  induction l generalizing m with
  | nil => simp [skipFold]
  | cons i t ih =>
    by_cases hmi : m ≥ (i : Int)
    · have e : skipFold (i :: t) m = skipFold t (m + 1) := by
        simp only [skipFold, List.foldl_cons, if_pos hmi]
      rw [e]
      have hR := le_skipFold t (m + 1)
      have := ih hs.of_cons (m + 1)
      have hi : (i : Int) < skipFold t (m + 1) := by omega
      simp only [List.filter_cons, hi, decide_true, if_true, List.length_cons]
      omega
    · have e : skipFold (i :: t) m = skipFold t m := by
        simp only [skipFold, List.foldl_cons, if_neg hmi]
      have e2 : skipFold t m = m := skipFold_of_lt t m (fun b hb => by
          have := List.rel_of_pairwise_cons hs hb
          omega)
      rw [e, e2]
      have : (i :: t).filter (fun (a : Nat) => decide ((a : Int) < m)) = [] := by
        rw [List.filter_eq_nil_iff]
        intro a ha
        simp only [decide_eq_true_eq]
        rcases List.mem_cons.mp ha with rfl | ha
        · omega
        · have := List.rel_of_pairwise_cons hs ha; omega
      rw [this]; simp

theorem length_split (l : List Nat) (x : Nat) (hx : x ∉ l) :
    l.length = (l.filter fun a => decide (a < x)).length + (l.filter fun a => decide (x < a)).length := by
  induction l with
  | nil => rfl
  | cons a t ih =>
    have hax : a ≠ x := fun e => hx (by simp [e])
    have := ih (fun h => hx (by simp [h]))
    by_cases h1 : a < x
    · have h2 : ¬ x < a := by omega
      simp only [List.filter_cons, h1, h2, decide_true, decide_false, if_true, List.length_cons]
      simp only [Bool.false_eq_true, if_false]
      omega
    · have h2 : x < a := by omega
      simp only [List.filter_cons, h1, h2, decide_true, decide_false, if_true, List.length_cons]
      simp only [Bool.false_eq_true, if_false]
      omega

section
variable [Zero K] [One K]

theorem ptFold_grows (n0 h mode : Nat) (l : List Nat) (hs : l.Pairwise (· < ·))
    (hlt : ∀ a ∈ l, a < n0) (hne : mode ∉ l) (st : Circ.AddSt K) (inv : SubInv h st)
    (hA : mode + st.sub.n + (l.filter fun a => decide (mode < a)).length > n0 + h) :
    mode + (l.foldl (ptStep mode) st).sub.n > n0 + h := by
  induction l generalizing st with
  | nil => simpa using hA
  | cons i t ih =>
    have hkl : st.sub.inHer.keys.length = h := by rw [← inv.len]; simp [Dict.keys]
    obtain ⟨b1, b2, b3⟩ := targetOf_bounds st.sub.inHer.keys ((i : Int) - (mode : Int))
    rw [hkl] at b2
    have hne' : mode ∉ t := fun hh => hne (by simp [hh])
    have hi : i ≠ mode := fun e => hne (by simp [e])
    simp only [List.foldl_cons]
    by_cases him : i < mode
    · have e : ptStep mode st i = st := by
        rcases ptStep_cases mode st i with ⟨e, -⟩ | ⟨-, hc⟩
        · exact e
        · have := b3 (by omega); omega
      rw [e]
      apply ih hs.of_cons (fun a ha => hlt a (by simp [ha])) hne' st inv
      have : ¬ mode < i := by omega
      simpa [List.filter_cons, this] using hA
    · have him' : mode < i := by omega
      have hall : ∀ a ∈ t, decide (mode < a) = true := by
        intro a ha
        have := List.rel_of_pairwise_cons hs ha
        simp only [decide_eq_true_eq]; omega
      have hft : t.filter (fun a => decide (mode < a)) = t := List.filter_eq_self.mpr hall
      have hlen := head_add_length_le i t n0 hs hlt
      have hA' : mode + st.sub.n + (t.length + 1) > n0 + h := by
        simpa [List.filter_cons, him', hft] using hA
      rcases ptStep_cases mode st i with ⟨-, hc⟩ | ⟨e, -⟩
      · exfalso; apply hc; omega
      · rw [e]
        apply ih hs.of_cons (fun a ha => hlt a (by simp [ha])) hne' _ (inv.insert _)
        rw [hft]
        show mode + (st.sub.n + 1) + t.length > n0 + h
        omega

theorem add_rejects (self sub : Circ K) (hs : self.WF) (hsub : sub.WF)
    (m : Int) (g : Bool)
    (h : m < 0 ∨ (self.ports : Int) < m + ((sub.n - sub.inHer.length : Nat) : Int)) :
    self.add sub m g = .error .modeRange := by
  rw [add_eq]
  have herr : ∀ x : Int, ¬ (0 ≤ x ∧ x < (self.n : Int)) → self.modeInRange x = .error .modeRange := by
    intro x hx; unfold Circ.modeInRange; rw [if_neg hx]
  by_cases hm0 : m < 0
  · have : self.mapMode m = m := skipFold_of_lt _ m (fun a _ => by omega)
    rw [this, herr m (by omega)]; rfl
  · have h' : (self.ports : Int) < m + ((sub.n - sub.inHer.length : Nat) : Int) := by
      rcases h with h | h
      · exact absurd h hm0
      · exact h
    by_cases hmp : m < (self.ports : Int)
    · have hR1 : self.mapMode m < (self.n : Int) := (mapMode_lt_iff' self hs m).mpr hmp
      have hR0 : m ≤ self.mapMode m := le_skipFold _ m
      have hok : self.modeInRange (self.mapMode m) = .ok (self.mapMode m).toNat := by
        unfold Circ.modeInRange; rw [if_pos ⟨by omega, hR1⟩]
      rw [hok]
      simp only [Except.bind, addTail]
      split
      · rfl
      · split
        · rfl
        · rename_i h1 h2
          exfalso; apply h2
          have hlen : (pick sub g).1.inHer.length = sub.inHer.length := by rw [(pick_props sub g).2.1]
          have hn : (pick sub g).1.n = sub.n := (pick_props sub g).1
          rw [hlen]
          have hss := strictSorted_sortNat hs.intNodup
          have hcount := skipFold_count (sortNat self.internal) hss m
          have hnot : (self.mapMode m).toNat ∉ sortNat self.internal := by
            intro hh
            exact skipFold_not_mem _ (sorted_sortNat _) m _ hh (by
              show self.mapMode m = _
              omega)
          have hsplit := length_split (sortNat self.internal) _ hnot
          rw [length_sortNat] at hsplit
          have hfc : ((sortNat self.internal).filter fun (a : Nat) => decide ((a : Int) < skipFold (sortNat self.internal) m))
              = (sortNat self.internal).filter fun a => decide (a < (self.mapMode m).toNat) := by
            apply List.filter_congr
            intro a _
            have : skipFold (sortNat self.internal) m = self.mapMode m := rfl
            rw [this]
            by_cases hc : a < (self.mapMode m).toNat
            · have : (a : Int) < self.mapMode m := by omega
              simp [hc, this]
            · have : ¬ (a : Int) < self.mapMode m := by omega
              simp [hc, this]
          rw [hfc] at hcount
          have hcount' : self.mapMode m = m + _ := hcount
          have hil := WF.internal_length_le hs
          have hhle := length_le_of_nodup_lt _ _ hsub.inNodup hsub.inLt
          have hkl : sub.inHer.keys.length = sub.inHer.length := by simp [Dict.keys]
          have := ptFold_grows self.n sub.inHer.length (self.mapMode m).toNat (sortNat self.internal) hss
            (fun a ha => WF.internal_lt hs a (mem_sortNat.mp ha)) hnot _ (SubInv.init sub hsub g)
            (by
              show (self.mapMode m).toNat + (pick sub g).1.n + _ > _
              rw [hn]
              simp only [Circ.ports] at h'
              omega)
          have inv := (SubInv.init sub hsub g).fold (self.mapMode m).toNat (sortNat self.internal)
          omega
    · have : ¬ self.mapMode m < (self.n : Int) := fun hh => hmp ((mapMode_lt_iff' self hs m).mp hh)
      rw [herr _ (by omega)]; rfl
end

end LW.Proofs.C02
