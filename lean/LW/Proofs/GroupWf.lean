/-
  LW.Proofs.GroupWf — well-formedness of grouped components (definitions only): the leaf
  components of a group act inside the group's declared mode range `[m1, m2]`.  This is what
  `Circuit.add` produces (the sub-circuit is shifted to `mode … mode + n - 1`) and what
  `Comp.blocked` silently assumes; it is NOT part of `Comp.Wf`.
-/
import LW.Proofs.CircInv

namespace LW

variable {K : Type}

/-- the leaf components of a group stay inside the group's declared mode range -/
def Comp.GroupOk : Comp K → Prop
  | .prim _ => True
  | .group cs m1 m2 _ _ => ∀ p ∈ cs, ∀ m ∈ p.modes, m1 ≤ m ∧ m ≤ m2

def SpecGroupOk (spec : List (Comp K)) : Prop := ∀ c ∈ spec, c.GroupOk

end LW
