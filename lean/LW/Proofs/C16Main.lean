/-
  LW.Proofs.C16Main — assembled statements of LW/Properties/C16.lean.
-/
import Mathlib.Algebra.Star.Rat
import Mathlib.Tactic.NormNum
import LW.Proofs.C16LI

open scoped BigOperators

namespace LW.Proofs.C16

open LW.Tomo

variable {K : Type} [Field K] [StarRing K] [DecidableEq K]

set_option linter.unusedSectionVars false

theorem ofFn_get_self (N : Nat) (f : Nat → Nat → K) :
    M.ofFn N (fun j l => (M.ofFn N f).get j l) = M.ofFn N f := by
  apply M.ofFn_congr
  intro j l hj hl
  rw [M.get_ofFn _ hj hl]

/-- the `lambdas` dict for noiseless data of the process `ρ ↦ V ρ V†` -/
def lamsOfUnitary (i : K) (n : Nat) (V : M K) : List ((Ins × Meas) × K) :=
  (combineAll tomoInputsLI n).flatMap fun ins =>
    (tomoMeasurements n).map fun meas => ((ins, meas), trPauli i (channel V (rhoKron i ins)) meas)

theorem lamsOfUnitary_eq {i : K} (hs : star i = -i) (k : Nat) (V : M K) (hV : V.n = 2 ^ (k + 1)) :
    lamsOfUnitary i (k + 1) V = lamsOf i (k + 1) (choiFromUnitary V) := by
  unfold lamsOfUnitary lamsOf
  apply List.flatMap_congr
  intro ins hins
  apply List.map_congr_left
  intro meas hmeas
  have hli : ins.length = k + 1 := by
    simp only [combineAll, Nat.add_sub_cancel] at hins
    exact combos_length _ _ ins hins
  have hlm : meas.length = k + 1 := tomoMeasurements_length (by omega) meas hmeas
  rw [liApply_choi hs (k + 1) V hV ins hli meas hlm]

theorem li_returns_choi {i : K} (hi : i * i = -1) (hs : star i = -i) (h2 : (1 + 1 : K) ≠ 0) (k : Nat)
    (V : M K) (hV : V.n = 2 ^ (k + 1)) :
    liInverse i (k + 1) (lamsOfUnitary i (k + 1) V) = choiFromUnitary V := by
  rw [lamsOfUnitary_eq hs k V hV]
  have hN : ∀ C : M K, liInverse i (k + 1) (lamsOf i (k + 1) C)
      = M.ofFn (2 ^ (k + 1) * 2 ^ (k + 1)) fun j l =>
          (liInverse i (k + 1) (lamsOf i (k + 1) C)).get j l := by
    intro C
    conv_lhs => unfold liInverse
    apply M.ofFn_congr
    intro j l hj hl
    unfold liInverse
    rw [M.get_ofFn _ hj hl]
  rw [hN]
  have key : ∀ j l, j < 2 ^ (k + 1) * 2 ^ (k + 1) → l < 2 ^ (k + 1) * 2 ^ (k + 1) →
      (liInverse i (k + 1) (lamsOf i (k + 1) (choiFromUnitary V))).get j l
        = (choiFromUnitary V).get j l := by
    intro j l hj hl
    have hd : 0 < 2 ^ (k + 1) := Nat.pos_of_ne_zero (by positivity)
    have hj1 : j / 2 ^ (k + 1) < 2 ^ (k + 1) := Nat.div_lt_of_lt_mul (by rwa [Nat.mul_comm] at hj)
    have hl1 : l / 2 ^ (k + 1) < 2 ^ (k + 1) := Nat.div_lt_of_lt_mul (by rwa [Nat.mul_comm] at hl)
    have hj2 : j % 2 ^ (k + 1) < 2 ^ (k + 1) := Nat.mod_lt _ hd
    have hl2 : l % 2 ^ (k + 1) < 2 ^ (k + 1) := Nat.mod_lt _ hd
    have ej : j = j / 2 ^ (k + 1) * 2 ^ (k + 1) + j % 2 ^ (k + 1) := (Nat.div_add_mod' j _).symm
    have el : l = l / 2 ^ (k + 1) * 2 ^ (k + 1) + l % 2 ^ (k + 1) := (Nat.div_add_mod' l _).symm
    have := liInverse_liApply hi hs h2 k (choiFromUnitary V) hj1 hj2 hl1 hl2
    rw [← ej, ← el] at this
    exact this
  rw [M.ofFn_congr key]
  unfold choiFromUnitary
  rw [hV]
  exact ofFn_get_self _ _

/-- injectivity of the LI transform matrix: two matrices with the same image are equal -/
theorem li_transform_injective {i : K} (hi : i * i = -1) (hs : star i = -i) (h2 : (1 + 1 : K) ≠ 0)
    (k : Nat) (C1 C2 : M K)
    (h : ∀ ins meas, liApply i C1 ins meas = liApply i C2 ins meas)
    {a c b e : Nat} (ha : a < 2 ^ (k + 1)) (hc : c < 2 ^ (k + 1)) (hb : b < 2 ^ (k + 1))
    (he : e < 2 ^ (k + 1)) :
    C1.get (a * 2 ^ (k + 1) + c) (b * 2 ^ (k + 1) + e)
      = C2.get (a * 2 ^ (k + 1) + c) (b * 2 ^ (k + 1) + e) := by
  rw [← liInverse_liApply hi hs h2 k C1 ha hc hb he, ← liInverse_liApply hi hs h2 k C2 ha hc hb he]
  have : lamsOf i (k + 1) C1 = lamsOf i (k + 1) C2 := by
    unfold lamsOf
    apply List.flatMap_congr
    intro ins _
    apply List.map_congr_left
    intro meas _
    rw [h ins meas]
  rw [this]

theorem F9_pinned_counterexample :
    (choiFromUnitaryPinned (mat2 (3 / 5 : ℚ) (-4 / 5) (4 / 5) (3 / 5))).get 0 1
      ≠ (choiFromUnitary (mat2 (3 / 5 : ℚ) (-4 / 5) (4 / 5) (3 / 5))).get 0 1 := by
  unfold choiFromUnitaryPinned choiFromUnitary
  rw [M.get_ofFn _ (by simp) (by simp), M.get_ofFn _ (by simp) (by simp)]
  simp [conj_eq_star]
  norm_num

end LW.Proofs.C16
