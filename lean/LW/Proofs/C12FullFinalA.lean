/-
  LW.Proofs.C12FullFinalA — glue for the final assembly of `convert_correct`: the plan of a whole
  instruction list composes to `listHom`, the empty circuit, Fock-state membership, list states as
  `mk`, bounds on the herald photon numbers, non-vanishing of the scalar, and safety of the
  heralded-only conversion.
-/
import LW.Proofs.C12FullIface3
import LW.Proofs.C12FullGateAmp

open MvPolynomial

namespace LW.C12F

open LW LW.QC LW.Gates LW.QF LW.Proofs.C02Sem

/-! ### the plan of an instruction list -/

theorem placeAll_hom {R : Type} [CommRing R] [StarRing R] (c : GC R) (par : ℕ → R × R) (nq : ℕ) :
    ∀ (gs : List Instr) (idx : ℕ) (fs : List Bool) (plan : List Placed) (P : ℕ),
      (∀ g ∈ gs, g.qubits.Nodup ∧ ∀ q ∈ g.qubits, q < nq) → fs.length = gs.length →
      placeAll idx gs fs = .ok plan → 2 * nq ≤ P →
      (∀ p ∈ plan, PlacedOk nq p) ∧ planHer plan = listHer gs fs ∧
        planHom c par plan P = listHom c par idx gs fs P ∧ List.Forall₂ (Shape nq) gs fs := by
  intro gs
  induction gs with
  | nil =>
    intro idx fs plan P _ hl h _
    simp only [placeAll, Except.ok.injEq] at h
    subst h
    have : fs = [] := List.eq_nil_of_length_eq_zero (by simpa using hl)
    subst this
    exact ⟨by simp, rfl, rfl, List.Forall₂.nil⟩
  | cons g rest ih =>
    intro idx fs plan P hwf hl h hP
    cases fs with
    | nil => simp at hl
    | cons f fs' =>
      simp only [placeAll, bind, Except.bind, List.headD_cons, List.tail_cons] at h
      cases h1 : placeInstr idx g f with
      | error e => rw [h1] at h; simp at h
      | ok here =>
        rw [h1] at h
        cases h2 : placeAll (idx + 1) rest fs' with
        | error e => rw [h2] at h; simp at h
        | ok later =>
          rw [h2] at h
          simp only [pure, Except.pure, Except.ok.injEq] at h
          subst h
          have hg := hwf g List.mem_cons_self
          obtain ⟨a1, a2, a3⟩ := placeInstr_hom c par nq idx g f here P hg.1 hg.2 h1 hP
          have hsh := shape_of_place nq idx g f here hg.1 hg.2 h1
          obtain ⟨b1, b2, b3, b4⟩ := ih (idx + 1) fs' later (P + (instrHer g f).length)
            (fun g' hg' => hwf g' (List.mem_cons_of_mem _ hg')) (by simpa using hl) h2 (by omega)
          refine ⟨?_, ?_, ?_, List.Forall₂.cons hsh b4⟩
          · intro p hp
            rcases List.mem_append.mp hp with hp | hp
            · exact a1 p hp
            · exact b1 p hp
          · rw [planHer_append, a2, b2]
            rfl
          · rw [planHom_append, a2, a3, b3]
            rfl

/-! ### the empty circuit -/

theorem circHom_new {R : Type} [CommRing R] (i : R) (N : ℕ) :
    circHom i (Circ.new N : Circ R) = AlgHom.id R _ := by
  apply algHom_ext
  intro j
  rw [AlgHom.id_apply]
  unfold circHom
  show homOf (closedE i (Circ.new N : Circ R)) N (X j) = X j
  by_cases hj : j < N
  · rw [homOf_X_lt _ hj]
    unfold colForm
    rw [Finset.sum_eq_single j]
    · have : closedE i (Circ.new N : Circ R) j j = 1 := by
        unfold closedE
        show (M.one N : M R).get (layout [] N j) (layout [] N j) = 1
        rw [layout_nil N hj, M.get_one hj hj, if_pos rfl]
      rw [this, C_1, one_mul]
    · intro r hr hne
      have hr' := Finset.mem_range.mp hr
      have : closedE i (Circ.new N : Circ R) r j = 0 := by
        unfold closedE
        show (M.one N : M R).get (layout [] N r) (layout [] N j) = 0
        rw [layout_nil N hr', layout_nil N hj, M.get_one hr' hj, if_neg hne]
      rw [this, C_0, zero_mul]
    · intro h
      exact absurd (Finset.mem_range.mpr hj) h
  · rw [homOf_X_ge _ (by omega)]

theorem herInv_new {R : Type} [CommRing R] [StarRing R] (N : ℕ) : HerInv (Circ.new N : Circ R) :=
  ⟨LW.Proofs.C02.new_WF N, rfl, rfl, rfl⟩

theorem specOk_new {R : Type} (N : ℕ) : SpecOk N (Circ.new N : Circ R).spec := by
  intro p hp
  simp [Circ.new, flattenSpec] at hp

/-! ### Fock states -/

theorem mem_fockStates_fwd {m p : ℕ} {o : List ℕ} (h : o ∈ fockStates m p) :
    o.length = m ∧ o.sum = p := by
  induction m generalizing p o with
  | zero =>
    cases p with
    | zero => simp [fockStates] at h; simp [h]
    | succ p => simp [fockStates] at h
  | succ m ih =>
    simp only [fockStates, List.mem_flatMap, List.mem_reverse, List.mem_range, List.mem_map] at h
    obtain ⟨k, hk, t, ht, rfl⟩ := h
    have := ih ht
    simp only [List.length_cons, List.sum_cons]
    omega

/-! ### list states -/

/-- the herald part of a list state -/
noncomputable def herPart (n : ℕ) (Hs : List ℕ) : ℕ →₀ ℕ := (List.replicate n 0 ++ Hs).toFinsupp

theorem herPart_apply_ge (n : ℕ) (Hs : List ℕ) {z : ℕ} (hz : n ≤ z) :
    herPart n Hs z = Hs.getD (z - n) 0 := by
  unfold herPart
  rw [List.toFinsupp_apply, List.getD_append_right _ _ _ _ (by simpa using hz)]
  simp

theorem herPart_support (n : ℕ) (Hs : List ℕ) : ∀ z ∈ (herPart n Hs).support, n ≤ z := by
  intro z hz
  by_contra hc
  rw [Finsupp.mem_support_iff] at hz
  apply hz
  unfold herPart
  rw [List.toFinsupp_apply, List.getD_append _ _ _ _ (by simp; omega)]
  simp

theorem herAt_herPart (n : ℕ) (Hs : List ℕ) : HerAt n Hs (herPart n Hs) := by
  intro k _
  rw [herPart_apply_ge n Hs (by omega)]
  congr 1
  omega

theorem toFinsupp_eq_mk (u Hs : List ℕ) :
    (u ++ Hs).toFinsupp = mk u (herPart u.length Hs) := by
  ext z
  rw [List.toFinsupp_apply]
  by_cases hz : z < u.length
  · rw [mk_apply_lt (herPart_support _ _) hz, List.getD_append _ _ _ _ hz]
  · rw [mk_apply_ge (by omega), herPart_apply_ge _ _ (by omega),
      List.getD_append_right _ _ _ _ (by omega)]

/-! ### herald photon numbers are 0 or 1 -/

theorem instrHer_le (g : Instr) (f : Bool) : ∀ x ∈ instrHer g f, x ≤ 1 := by
  intro x hx
  unfold instrHer at hx
  split at hx
  · split_ifs at hx <;> simp at hx <;> omega
  · simp at hx; omega
  · simp at hx

theorem listHer_le : ∀ (gs : List Instr) (fs : List Bool), ∀ x ∈ listHer gs fs, x ≤ 1
  | [], _, x, hx => by simp [listHer] at hx
  | g :: rest, fs, x, hx => by
    simp only [listHer, List.mem_append] at hx
    rcases hx with hx | hx
    · exact instrHer_le _ _ x hx
    · exact listHer_le rest fs.tail x hx

theorem dualRail_entries_le (b : List Bool) : ∀ x ∈ dualRail b, x ≤ 1 := by
  induction b with
  | nil => intro x hx; simp [dualRail] at hx
  | cons y t ih =>
    intro x hx
    cases y <;> simp only [dualRail, List.mem_cons] at hx <;> rcases hx with rfl | rfl | hx <;>
      first | omega | exact ih x hx

/-! ### the scalar does not vanish -/

theorem instrK_ne_zero {R : Type} [Field R] (c : GC R) (hv : c.Valid) (g : Instr) (f : Bool) :
    instrK c g f ≠ 0 := by
  obtain ⟨h1, h2, h3⟩ := scalar_sq_field c hv
  have hk1 : -c.third ≠ 0 := by
    intro h; rw [h] at h1; simp at h1
  have hk2 : c.half * c.half ≠ 0 := by
    intro h; rw [h] at h2; simp at h2
  have hk3 : c.i * (c.rh * (c.half * c.third)) ≠ 0 := by
    intro h
    unfold kCCZf at h3
    rw [h] at h3; simp at h3
  unfold instrK
  split
  · split_ifs
    · exact one_ne_zero
    · exact hk1
    · exact hk2
  · exact hk3
  · exact one_ne_zero

theorem listK_ne_zero {R : Type} [Field R] (c : GC R) (hv : c.Valid) :
    ∀ (gs : List Instr) (fs : List Bool), listK c gs fs ≠ 0
  | [], _ => one_ne_zero
  | g :: rest, fs => mul_ne_zero (instrK_ne_zero c hv g _) (listK_ne_zero c hv rest fs.tail)

/-! ### heralded-only conversion is safe without rules -/

theorem safe_heralded (nq : ℕ) {gs : List Instr} {fs : List Bool}
    (h : List.Forall₂ (Shape nq) gs fs) (hf : ∀ f ∈ fs, f = false) : Safe nq gs fs [] := by
  induction h with
  | nil =>
    intro c0 tr _ hrun _ cf hcf
    cases hrun
    simp at hcf
  | @cons g f gs' fs' hg _ ih =>
    intro c0 tr h0 hrun _ cf hcf
    cases hrun with
    | cons _ _ _ _ _ c' tr' hstep hrun' =>
      have hff : f = false := hf f List.mem_cons_self
      have hc' : AllOne nq c' := by
        cases hg with
        | single q hq hlt =>
          unfold stepRel at hstep
          rw [if_pos (by rw [hq]; rfl)] at hstep
          rw [hstep]; exact h0
        | swap a b hq hab ha hb hn =>
          unfold stepRel at hstep
          rw [if_neg (by rw [hq]; simp), if_pos hn] at hstep
          obtain ⟨a', b', hq', e1, e2, e3⟩ := hstep
          rw [hq] at hq'
          simp only [List.cons.injEq, and_true] at hq'
          obtain ⟨rfl, rfl⟩ := hq'
          intro q hq''
          by_cases h1 : q = a
          · subst h1; rw [e1]; exact h0 b hb
          · by_cases h2 : q = b
            · subst h2; rw [e2]; exact h0 a ha
            · rw [e3 q h1 h2]; exact h0 q hq''
        | two a b hq hab ha hb hn =>
          unfold stepRel at hstep
          rw [if_neg (by rw [hq]; simp), if_neg hn] at hstep
          obtain ⟨⟨e1, _⟩, e2⟩ := hstep
          have hall : ∀ q ∈ g.qubits, c0 q = 1 := by
            intro q hq'
            rw [hq] at hq'
            simp only [List.mem_cons, List.not_mem_nil, or_false] at hq'
            rcases hq' with rfl | rfl
            · exact h0 _ ha
            · exact h0 _ hb
          intro q hq''
          by_cases hm : q ∈ g.qubits
          · exact e2 hff hall q hm
          · rw [e1 q hm]; exact h0 q hq''
        | three a b t hq hnd ha hb ht hf' hspan hn =>
          rw [hff] at hf'
          cases hf'
      rcases List.mem_cons.mp hcf with rfl | hcf'
      · exact hc'
      · exact ih (fun f' hf' => hf f' (List.mem_cons_of_mem _ hf')) c' tr' hc' hrun'
          (fun q hq => by simp at hq) cf hcf'

end LW.C12F
