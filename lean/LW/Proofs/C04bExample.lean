/-
  LW.Proofs.C04bExample — non-vacuity of the hypotheses of C04 part B: the 2-mode rotation `rot`
  over ℂ (LW.Proofs.FockIsoExample) with `|z|² = Complex.normSq z : ℝ`, one circuit mode + one loss
  mode and two circuit modes without loss.
-/
import LW.Proofs.C04b
import LW.Proofs.FockIsoExample
import Mathlib.Data.Complex.Basic
import Mathlib.Data.Real.Basic

namespace LW.Proofs.C04b

open LW.Proofs.FockIso (rot rot_unitary)

private theorem hnsq_ex : ∀ z : ℂ, Complex.ofRealHom (Complex.normSq z) = z * star z :=
  fun z => (Complex.mul_conj z).symm

example : ampNum rot [1, 1] [2, 0] = ((factProd [2, 0] : Nat) : ℂ) * slosGet (slosPhi rot [1, 1]) [2, 0] :=
  slos_eq_permanent rot (by decide) [1, 1] [2, 0] rfl rfl rfl

example : ((fullDistSlos Complex.normSq (1 / 100) rot 1 [2]).get? [1]).getD 0 =
    ((fullDistPermanent Complex.normSq (1 / 100) rot 1 [2]).get? [1]).getD 0 :=
  backends_agree Complex.normSq (fun a b => map_mul Complex.normSq a b) Complex.normSq_natCast
    (1 / 100) rot 1 [2] rfl (by decide) (by decide) [1] (by decide)

example : (fullDist .slos Complex.normSq 0 rot 1 [2]).total = 1 :=
  fullDist_total_one Complex.normSq Complex.ofRealHom Complex.ofReal_injective hnsq_ex
    Complex.normSq_nonneg .slos rot rot_unitary 1 [2] rfl (by decide) (by decide)

example : (fullDist .permanent Complex.normSq 0 rot 2 [1, 1]).total = 1 :=
  fullDist_total_one Complex.normSq Complex.ofRealHom Complex.ofReal_injective hnsq_ex
    Complex.normSq_nonneg .permanent rot rot_unitary 2 [1, 1] rfl (by decide) (by decide)

example : (pdistCalc .permanent Complex.normSq 0 rot 1 [([2], 1 / 2), ([0], 1 / 2)]).total = 1 :=
  pdistCalc_total_one Complex.normSq Complex.ofRealHom Complex.ofReal_injective hnsq_ex
    Complex.normSq_nonneg .permanent rot rot_unitary 1 (by decide) (by decide) _
    (by
      intro x hx
      simp only [List.mem_cons, List.not_mem_nil, or_false] at hx
      rcases hx with rfl | rfl <;> exact ⟨rfl, by norm_num⟩)
    (by norm_num)

end LW.Proofs.C04b
