/-
  LW.Proofs.C12FullConj — placed homomorphisms up to the choice of index maps: `placeHomG` only
  depends on the forward map below the sub-circuit's dimension and on the partial inverse below
  the global dimension; conjugation by an involutive renaming of the modes moves a placement;
  a placed SWAP is the renaming `qswap`; on consecutive qubits `fwdQ` is the window map `fwdS`.
-/
import LW.Proofs.C12FullIdx
import LW.Proofs.C12FullCircAdd
import LW.Proofs.C12FullSubTab

open MvPolynomial

namespace LW.C12F

open LW LW.QC LW.Gates LW.QF LW.Proofs.C02Sem

variable {R : Type} [CommRing R]

theorem pinj_congr_fwd {d D : ℕ} {fwd fwd' : ℕ → ℕ} {inv : ℕ → Option ℕ} (h : PInj d D fwd inv)
    (e : ∀ x, x < d → fwd' x = fwd x) : PInj d D fwd' inv :=
  ⟨fun x hx => by rw [e x hx]; exact h.fwd_lt x hx,
    fun x hx => by rw [e x hx]; exact h.inv_fwd x hx,
    fun r x hr hi => by
      obtain ⟨h1, h2⟩ := h.inv_some r x hr hi
      exact ⟨h1, by rw [e x h1]; exact h2⟩⟩

theorem pinj_inv_unique {d D : ℕ} {fwd : ℕ → ℕ} {inv inv' : ℕ → Option ℕ} (h : PInj d D fwd inv)
    (h' : PInj d D fwd inv') : ∀ j, j < D → inv j = inv' j := by
  intro j hj
  cases hi : inv j with
  | some x =>
    obtain ⟨hx, e⟩ := h.inv_some j x hj hi
    rw [← e, h'.inv_fwd x hx]
  | none =>
    cases hi' : inv' j with
    | none => rfl
    | some x =>
      obtain ⟨hx, e⟩ := h'.inv_some j x hj hi'
      rw [← e, h.inv_fwd x hx] at hi
      cases hi

theorem placeHomG_congr_fwd {d D : ℕ} {fwd fwd' : ℕ → ℕ} {inv : ℕ → Option ℕ}
    (h : PInj d D fwd inv) (U : ℕ → ℕ → R) (e : ∀ x, x < d → fwd' x = fwd x) :
    placeHomG (homOf U d) fwd' inv D = placeHomG (homOf U d) fwd inv D := by
  apply algHom_ext
  intro j
  by_cases hj : j < D
  · cases hi : inv j with
    | none => rw [placeHomG_X_none _ _ _ (fun _ => hi), placeHomG_X_none _ _ _ (fun _ => hi)]
    | some y =>
      obtain ⟨hy, _⟩ := h.inv_some j y hj hi
      rw [placeHomG_X_some _ _ _ hj hi, placeHomG_X_some _ _ _ hj hi, homOf_X_lt _ hy]
      unfold colForm
      rw [map_sum, map_sum]
      apply Finset.sum_congr rfl
      intro x hx
      rw [map_mul, map_mul, rename_C, rename_C, rename_X, rename_X, e x (Finset.mem_range.mp hx)]
  · rw [placeHomG_X_none _ _ _ (fun hh => absurd hh hj),
      placeHomG_X_none _ _ _ (fun hh => absurd hh hj)]

/-- two placements of the same sub-circuit through partial injections with the same forward map
below the sub-circuit's dimension coincide -/
theorem placeHomG_eq_of_pinj {d D : ℕ} {fwd fwd' : ℕ → ℕ} {inv inv' : ℕ → Option ℕ}
    (h : PInj d D fwd inv) (h' : PInj d D fwd' inv') (U : ℕ → ℕ → R)
    (e : ∀ x, x < d → fwd' x = fwd x) :
    placeHomG (homOf U d) fwd' inv' D = placeHomG (homOf U d) fwd inv D := by
  have h'' : PInj d D fwd inv' := pinj_congr_fwd h' (fun x hx => (e x hx).symm)
  rw [placeHomG_congr _ fwd' (pinj_inv_unique h'' h), placeHomG_congr_fwd h U e]

/-! ### conjugation by an involutive renaming -/

theorem pinj_conj {d D : ℕ} {fwd : ℕ → ℕ} {inv : ℕ → Option ℕ} (h : PInj d D fwd inv)
    (τ : ℕ → ℕ) (hτ : ∀ z, τ (τ z) = z) (hD : ∀ z, z < D → τ z < D) :
    PInj d D (fun x => τ (fwd x)) (fun z => inv (τ z)) :=
  ⟨fun x hx => hD _ (h.fwd_lt x hx),
    fun x hx => by
      show inv (τ (τ (fwd x))) = some x
      rw [hτ]; exact h.inv_fwd x hx,
    fun r x hr hi => by
      obtain ⟨h1, h2⟩ := h.inv_some (τ r) x (hD r hr) hi
      exact ⟨h1, by show τ (fwd x) = r; rw [h2, hτ]⟩⟩

theorem rename_conj_place (τ : ℕ → ℕ) (hτ : ∀ z, τ (τ z) = z) {D : ℕ} (hD : ∀ z, z < D → τ z < D)
    (φ : Hom R) (fwd : ℕ → ℕ) (inv : ℕ → Option ℕ) :
    (rename τ : Hom R).comp ((placeHomG φ fwd inv D).comp (rename τ : Hom R)) =
      placeHomG φ (fun x => τ (fwd x)) (fun z => inv (τ z)) D := by
  apply algHom_ext
  intro j
  rw [AlgHom.comp_apply, AlgHom.comp_apply, rename_X]
  by_cases hj : j < D
  · have hj' : τ j < D := hD j hj
    cases hi : inv (τ j) with
    | none =>
      rw [placeHomG_X_none _ _ _ (fun _ => hi), rename_X, hτ]
      exact (placeHomG_X_none φ (fun x => τ (fwd x)) (fun z => inv (τ z)) (D := D) (j := j)
        (fun _ => hi)).symm
    | some y =>
      rw [placeHomG_X_some _ _ _ hj' hi, rename_rename]
      exact (placeHomG_X_some φ (fun x => τ (fwd x)) (fun z => inv (τ z)) (D := D) (j := j) hj
        hi).symm
  · have hj' : ¬ τ j < D := by
      intro hc
      have := hD _ hc
      rw [hτ] at this
      exact hj this
    rw [placeHomG_X_none _ _ _ (fun hh => absurd hh hj'), rename_X, hτ,
      placeHomG_X_none _ _ _ (fun hh => absurd hh hj)]

/-! ### a placed SWAP is a renaming -/

theorem qswap_of_ge (a b z : ℕ) (hz : 2 * max a b + 2 ≤ z) : qswap a b z = z := by
  unfold qswap
  rw [if_neg (by omega), if_neg (by omega)]

theorem placed_swap_hom [StarRing R] (i : R) (a b : ℕ) (hab : a ≠ b) (P : ℕ)
    (hP : 2 * max a b + 2 ≤ P) :
    placeHomG (circHom i (swapCirc R a b)) (fwdS 0 (2 * max a b + 2) P)
      (invS' 0 (2 * max a b + 2) P) P = (rename (qswap a b) : Hom R) := by
  apply algHom_ext
  intro j
  rw [rename_X]
  by_cases hj : j < P
  · by_cases hjN : j < 2 * max a b + 2
    · have hi : invS' 0 (2 * max a b + 2) P j = some j := by
        unfold invS'
        rw [if_pos (by omega)]
        congr 1
      rw [placeHomG_X_some _ _ _ hj hi, circHom_swap i a b hab j hjN, rename_X]
      have := qswap_lt_max a b hjN
      unfold fwdS
      rw [if_pos this, Nat.zero_add]
    · have hi : invS' 0 (2 * max a b + 2) P j = none := by
        unfold invS'
        rw [if_neg (by omega), if_neg (by omega)]
      rw [placeHomG_X_none _ _ _ (fun _ => hi), qswap_of_ge a b j (by omega)]
  · rw [placeHomG_X_none _ _ _ (fun hh => absurd hh hj), qswap_of_ge a b j (by omega)]

/-! ### consecutive qubits -/

theorem fwdQ_range' (l r P x : ℕ) : fwdQ (List.range' l r) P x = fwdS (2 * l) (2 * r) P x := by
  unfold fwdQ fwdS
  rw [List.length_range']
  by_cases hx : x < 2 * r
  · rw [if_pos hx, if_pos hx, List.getD_eq_getElem _ _ (by rw [List.length_range']; omega),
      List.getElem_range']
    omega
  · rw [if_neg hx, if_neg hx]

end LW.C12F
