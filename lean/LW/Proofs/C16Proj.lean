/-
  LW.Proofs.C16Proj — the projection steps of the MLE process tomography (LW.Model.MLEProj):
  `_tp_proj` lands in (and fixes) the trace-preserving matrices, is affine-compatible with the
  partial trace, keeps Hermitian matrices Hermitian; `partialTrace` is linear.
-/
import LW.Proofs.C16MLE
import LW.Model.MLEProj

open scoped BigOperators

namespace LW.Tomo

variable {K : Type} [Field K] [StarRing K] [DecidableEq K]

set_option linter.unusedSectionVars false

@[simp] theorem msub_n (A B : M K) : (msub A B).n = A.n := rfl
@[simp] theorem partialTrace_n (d : Nat) (A : M K) : (partialTrace d A).n = d := rfl
@[simp] theorem tpProj_n (d : Nat) (A : M K) : (tpProj d A).n = A.n := rfl

theorem get_msub (A B : M K) {r k : Nat} (hr : r < A.n) (hk : k < A.n) :
    (msub A B).get r k = A.get r k - B.get r k := by
  unfold msub; rw [M.get_ofFn _ hr hk]

theorem natK_eq (d : Nat) : (natK d : K) = (d : K) := by
  induction d with
  | zero => simp [natK]
  | succ n ih => simp [natK, ih]

theorem get_partialTrace (d : Nat) (A : M K) {a c : Nat} (ha : a < d) (hc : c < d) :
    (partialTrace d A).get a c = ∑ b ∈ Finset.range d, A.get (a * d + b) (c * d + b) := by
  unfold partialTrace
  rw [M.get_ofFn _ ha hc, M.sumN_eq_sum]

/-- entries of `_tp_proj(A)` on the block grid -/
theorem get_tpProj (d : Nat) (A : M K) (hA : A.n = d * d) {a b c e : Nat}
    (ha : a < d) (hb : b < d) (hc : c < d) (he : e < d) :
    (tpProj d A).get (a * d + b) (c * d + e)
      = A.get (a * d + b) (c * d + e)
        - (d : K)⁻¹ * ((partialTrace d A).get a c - (if a = c then 1 else 0))
          * (if b = e then 1 else 0) := by
  have h1 : a * d + b < A.n := hA ▸ idx_lt ha hb
  have h2 : c * d + e < A.n := hA ▸ idx_lt hc he
  unfold tpProj
  simp only
  rw [get_msub _ _ h1 h2]
  congr 1
  have hn : (scale (natK d : K)⁻¹ (msub (partialTrace d A) (M.one d))).n = d := rfl
  rw [get_kron_gen _ _ (by rw [hn, M.one_n]; exact idx_lt ha hb)
    (by rw [hn, M.one_n]; exact idx_lt hc he)]
  simp only [M.one_n]
  rw [idx_div hb, idx_div he, idx_mod hb, idx_mod he,
    get_scale _ _ (by simpa using ha) (by simpa using hc),
    get_msub _ _ (by simpa using ha) (by simpa using hc), M.get_one ha hc, M.get_one hb he,
    natK_eq]

/-- **`_tp_proj` lands in the trace-preserving set**: the partial trace of its result is the
identity, for every input matrix. -/
theorem tpProj_tracePreserving (d : Nat) (A : M K) (hA : A.n = d * d) (hd : (d : K) ≠ 0)
    {a c : Nat} (ha : a < d) (hc : c < d) :
    (partialTrace d (tpProj d A)).get a c = if a = c then 1 else 0 := by
  rw [get_partialTrace _ _ ha hc]
  have : ∀ b ∈ Finset.range d, (tpProj d A).get (a * d + b) (c * d + b)
      = A.get (a * d + b) (c * d + b)
        - (d : K)⁻¹ * ((partialTrace d A).get a c - (if a = c then 1 else 0)) := by
    intro b hb
    have hb' := Finset.mem_range.mp hb
    rw [get_tpProj d A hA ha hb' hc hb', if_pos rfl, mul_one]
  rw [Finset.sum_congr rfl this, Finset.sum_sub_distrib, Finset.sum_const, Finset.card_range,
    ← get_partialTrace _ _ ha hc, nsmul_eq_mul, ← mul_assoc, mul_inv_cancel₀ hd, one_mul]
  ring

/-- `_tp_proj` changes nothing on a matrix that is already trace preserving. -/
theorem tpProj_fixes_tp (d : Nat) (A : M K) (hA : A.n = d * d)
    (hTP : ∀ a c, a < d → c < d → (partialTrace d A).get a c = if a = c then 1 else 0)
    {a b c e : Nat} (ha : a < d) (hb : b < d) (hc : c < d) (he : e < d) :
    (tpProj d A).get (a * d + b) (c * d + e) = A.get (a * d + b) (c * d + e) := by
  rw [get_tpProj d A hA ha hb hc he, hTP a c ha hc]
  simp

/-- hence `_tp_proj` is idempotent. -/
theorem tpProj_idempotent (d : Nat) (A : M K) (hA : A.n = d * d) (hd : (d : K) ≠ 0)
    {a b c e : Nat} (ha : a < d) (hb : b < d) (hc : c < d) (he : e < d) :
    (tpProj d (tpProj d A)).get (a * d + b) (c * d + e) = (tpProj d A).get (a * d + b) (c * d + e) :=
  tpProj_fixes_tp d (tpProj d A) (by simpa using hA)
    (fun _ _ ha' hc' => tpProj_tracePreserving d A hA hd ha' hc') ha hb hc he

/-- `_tp_proj` keeps Hermitian matrices Hermitian (so the CP step may call `eigh`). -/
theorem tpProj_hermitian (d : Nat) (A : M K) (hA : A.n = d * d)
    (hH : ∀ r k, r < A.n → k < A.n → star (A.get r k) = A.get k r)
    {a b c e : Nat} (ha : a < d) (hb : b < d) (hc : c < d) (he : e < d) :
    star ((tpProj d A).get (a * d + b) (c * d + e)) = (tpProj d A).get (c * d + e) (a * d + b) := by
  have h1 : ∀ {a b : Nat}, a < d → b < d → a * d + b < A.n := fun ha hb => hA ▸ idx_lt ha hb
  have hpt : star ((partialTrace d A).get a c) = (partialTrace d A).get c a := by
    rw [get_partialTrace _ _ ha hc, get_partialTrace _ _ hc ha, star_sum]
    exact Finset.sum_congr rfl fun x hx =>
      hH _ _ (h1 ha (Finset.mem_range.mp hx)) (h1 hc (Finset.mem_range.mp hx))
  rw [get_tpProj d A hA ha hb hc he, get_tpProj d A hA hc he ha hb, star_sub, star_mul', star_mul',
    star_sub, hpt, hH _ _ (h1 ha hb) (h1 hc he), star_inv₀, star_natCast]
  have e1 : (if a = c then (1 : K) else 0) = if c = a then 1 else 0 := by
    by_cases h : a = c <;> simp [h, eq_comm]
  have e2 : (if b = e then (1 : K) else 0) = if e = b then 1 else 0 := by
    by_cases h : b = e <;> simp [h, eq_comm]
  rw [e1, e2]
  simp [apply_ite star]

/-- the partial trace is linear: `pt(A + α·(B − A)) = pt(A) + α·(pt(B) − pt(A))` — the TP defect of a
`pgdb` iterate is the same convex combination of the defects of `choi` and of the projected point. -/
theorem partialTrace_affine (d : Nat) (A B : M K) (alpha : K) (hA : A.n = d * d) (hB : B.n = d * d)
    {a c : Nat} (ha : a < d) (hc : c < d) :
    (partialTrace d (madd A (scale alpha (msub B A)))).get a c
      = (partialTrace d A).get a c
        + alpha * ((partialTrace d B).get a c - (partialTrace d A).get a c) := by
  have h1 : ∀ {a b : Nat}, a < d → b < d → a * d + b < A.n := fun ha hb => hA ▸ idx_lt ha hb
  have h2 : ∀ {a b : Nat}, a < d → b < d → a * d + b < B.n := fun ha hb => hB ▸ idx_lt ha hb
  rw [get_partialTrace _ _ ha hc, get_partialTrace _ _ ha hc, get_partialTrace _ _ ha hc,
    ← Finset.sum_sub_distrib, Finset.mul_sum, ← Finset.sum_add_distrib]
  refine Finset.sum_congr rfl fun b hb => ?_
  have hb' := Finset.mem_range.mp hb
  rw [get_madd _ _ (h1 ha hb') (h1 hc hb'),
    get_scale _ _ (by simpa using h2 ha hb') (by simpa using h2 hc hb'),
    get_msub _ _ (h2 ha hb') (h2 hc hb')]

/-- `pgdbStep` keeps the dimension when the projection does. -/
theorem pgdbStep_n (proj grad : M K → M K) (muInv alpha : K) (choi : M K) :
    (pgdbStep proj grad muInv alpha choi).n = choi.n := rfl

/-- **every `pgdb` iterate is trace preserving** when the projection returns trace-preserving
matrices of the right size, whatever the gradient, the step sizes and the number of iterations. -/
theorem pgdbRun_tracePreserving (d : Nat) (proj grad : M K → M K) (muInv : K)
    (hproj : ∀ X, X.n = d * d → (proj X).n = d * d ∧
      ∀ a c, a < d → c < d → (partialTrace d (proj X)).get a c = if a = c then 1 else 0)
    (alphas : List K) (choi : M K) (hn : choi.n = d * d)
    (hTP : ∀ a c, a < d → c < d → (partialTrace d choi).get a c = if a = c then 1 else 0) :
    (pgdbRun proj grad muInv alphas choi).n = d * d ∧
      ∀ a c, a < d → c < d →
        (partialTrace d (pgdbRun proj grad muInv alphas choi)).get a c = if a = c then 1 else 0 := by
  induction alphas generalizing choi with
  | nil => exact ⟨hn, hTP⟩
  | cons al as ih =>
    simp only [pgdbRun]
    refine ih _ (by rw [pgdbStep_n]; exact hn) ?_
    intro a c ha hc
    have hX : (msub choi (scale muInv (grad choi))).n = d * d := by simpa using hn
    obtain ⟨hpn, hpt⟩ := hproj _ hX
    unfold pgdbStep
    simp only
    rw [partialTrace_affine d choi _ al hn hpn ha hc, hpt a c ha hc, hTP a c ha hc]
    ring

/-- the starting point `I/d` of `pgdb` is trace preserving. -/
theorem pgdbInit_tracePreserving (d : Nat) (hd : (d : K) ≠ 0) {a c : Nat} (ha : a < d) (hc : c < d) :
    (partialTrace d (pgdbInit d : M K)).get a c = if a = c then 1 else 0 := by
  rw [get_partialTrace _ _ ha hc]
  have : ∀ b ∈ Finset.range d, (pgdbInit d : M K).get (a * d + b) (c * d + b)
      = (d : K)⁻¹ * (if a = c then 1 else 0) := by
    intro b hb
    have hb' := Finset.mem_range.mp hb
    unfold pgdbInit
    rw [get_scale _ _ (by simpa using idx_lt ha hb') (by simpa using idx_lt hc hb'),
      M.get_one (idx_lt ha hb') (idx_lt hc hb'), natK_eq]
    by_cases h : a = c
    · subst h; simp
    · have : ¬ (a * d + b = c * d + b) := by
        intro h'
        have := Nat.eq_of_mul_eq_mul_right (by omega : 0 < d) (Nat.add_right_cancel h')
        exact h this
      rw [if_neg h, if_neg this, mul_zero]
  rw [Finset.sum_congr rfl this, Finset.sum_const, Finset.card_range, nsmul_eq_mul, ← mul_assoc,
    mul_inv_cancel₀ hd, one_mul]

end LW.Tomo

namespace LW.Tomo

variable {K : Type} [Field K] [StarRing K] [DecidableEq K]

set_option linter.unusedSectionVars false

/-- what `_tp_proj` removes, on the block grid: `kron((ptrace(A) − I)/d, I_d)` -/
theorem get_removed_tp (d : Nat) (A : M K) (hA : A.n = d * d) {a b c e : Nat}
    (ha : a < d) (hb : b < d) (hc : c < d) (he : e < d) :
    (msub A (tpProj d A)).get (a * d + b) (c * d + e)
      = (d : K)⁻¹ * ((partialTrace d A).get a c - (if a = c then 1 else 0)) * (if b = e then 1 else 0) := by
  have h1 : a * d + b < A.n := hA ▸ idx_lt ha hb
  have h2 : c * d + e < A.n := hA ▸ idx_lt hc he
  rw [get_msub _ _ h1 h2, get_tpProj d A hA ha hb hc he]
  ring

/-- **`_tp_proj` is the ORTHOGONAL projection onto the trace-preserving matrices**: what it removes
is Frobenius-orthogonal to `T − _tp_proj(A)` for every trace-preserving `T`; hence
`‖A − T‖² = ‖A − tp(A)‖² + ‖tp(A) − T‖²` and `_tp_proj(A)` is the nearest trace-preserving matrix. -/
theorem tpProj_orthogonal (d : Nat) (A T : M K) (hA : A.n = d * d) (hT : T.n = d * d) (hd : (d : K) ≠ 0)
    (hTP : ∀ a c, a < d → c < d → (partialTrace d T).get a c = if a = c then 1 else 0) :
    ∑ r ∈ Finset.range (d * d), ∑ k ∈ Finset.range (d * d),
        star ((msub A (tpProj d A)).get r k) * (msub T (tpProj d A)).get r k = 0 := by
  rw [sum_range_mul]
  apply Finset.sum_eq_zero
  intro a ha
  have ha' := Finset.mem_range.mp ha
  -- reorder: for fixed a, sum over b then (c, e)
  have step : ∀ b ∈ Finset.range d,
      ∑ k ∈ Finset.range (d * d),
          star ((msub A (tpProj d A)).get (a * d + b) k) * (msub T (tpProj d A)).get (a * d + b) k
        = ∑ c ∈ Finset.range d,
            star ((d : K)⁻¹ * ((partialTrace d A).get a c - (if a = c then 1 else 0)))
              * (msub T (tpProj d A)).get (a * d + b) (c * d + b) := by
    intro b hb
    have hb' := Finset.mem_range.mp hb
    rw [sum_range_mul]
    refine Finset.sum_congr rfl fun c hc => ?_
    have hc' := Finset.mem_range.mp hc
    have : ∀ e ∈ Finset.range d,
        star ((msub A (tpProj d A)).get (a * d + b) (c * d + e)) * (msub T (tpProj d A)).get (a * d + b) (c * d + e)
          = if e = b then star ((d : K)⁻¹ * ((partialTrace d A).get a c - (if a = c then 1 else 0)))
              * (msub T (tpProj d A)).get (a * d + b) (c * d + b) else 0 := by
      intro e he
      have he' := Finset.mem_range.mp he
      rw [get_removed_tp d A hA ha' hb' hc' he']
      by_cases h : e = b
      · subst h; simp
      · have h' : ¬ b = e := fun x => h x.symm
        simp [h, h']
    rw [Finset.sum_congr rfl this, Finset.sum_ite_eq', if_pos hb]
  rw [Finset.sum_congr rfl step, Finset.sum_comm]
  apply Finset.sum_eq_zero
  intro c hc
  have hc' := Finset.mem_range.mp hc
  rw [← Finset.mul_sum]
  have hz : ∑ b ∈ Finset.range d, (msub T (tpProj d A)).get (a * d + b) (c * d + b) = 0 := by
    have h1 : ∀ b ∈ Finset.range d, (msub T (tpProj d A)).get (a * d + b) (c * d + b)
        = T.get (a * d + b) (c * d + b) - (tpProj d A).get (a * d + b) (c * d + b) := by
      intro b hb
      have hb' := Finset.mem_range.mp hb
      exact get_msub _ _ (hT ▸ idx_lt ha' hb') (hT ▸ idx_lt hc' hb')
    rw [Finset.sum_congr rfl h1, Finset.sum_sub_distrib, ← get_partialTrace _ _ ha' hc',
      ← get_partialTrace _ _ ha' hc', hTP a c ha' hc', tpProj_tracePreserving d A hA hd ha' hc', sub_self]
  rw [hz, mul_zero]

end LW.Tomo
