/-
  LW.Proofs.C02SemSynth — exact functional characterisation of the swap dictionary synthesised by
  `Circ.synthSwaps`: the k-th key goes to the k-th value, and the j-th mode that is not a key goes to
  the j-th mode that is not a value.
-/
import LW.Proofs.ReachSynth
import LW.Proofs.SwapDict

namespace LW.Proofs.C02Sem
open LW

/-- modes below `n` that are not in `l`, ascending -/
def freeOf (n : Nat) (l : List Nat) : List Nat := (List.range n).filter fun m => !l.contains m

/-- modes in `[s, s + k)` that are not in `l`, ascending -/
def freeFrom (l : List Nat) (s k : Nat) : List Nat := (List.range' s k).filter fun m => !l.contains m

theorem freeOf_eq_freeFrom (n : Nat) (l : List Nat) : freeOf n l = freeFrom l 0 n := by
  unfold freeOf freeFrom
  rw [List.range_eq_range']

theorem freeFrom_zero (l : List Nat) (s : Nat) : freeFrom l s 0 = [] := rfl

theorem freeFrom_succ_mem {l : List Nat} {s : Nat} (k : Nat) (h : s ∈ l) :
    freeFrom l s (k + 1) = freeFrom l (s + 1) k := by
  unfold freeFrom
  rw [List.range'_succ, List.filter_cons]
  simp [h]

theorem freeFrom_succ_not_mem {l : List Nat} {s : Nat} (k : Nat) (h : s ∉ l) :
    freeFrom l s (k + 1) = s :: freeFrom l (s + 1) k := by
  unfold freeFrom
  rw [List.range'_succ, List.filter_cons]
  simp [h]

/-! ### the skip loop finds the first free value -/

theorem synthSkip_freeFrom (prov : Dict) (fuel cur m : Nat) (hm : m ≤ fuel)
    (hne : freeFrom prov.vals cur m ≠ []) :
    freeFrom prov.vals cur m = Circ.synthSkip prov fuel cur ::
      freeFrom prov.vals (Circ.synthSkip prov fuel cur + 1)
        (cur + m - (Circ.synthSkip prov fuel cur + 1)) := by
  induction fuel generalizing cur m with
  | zero =>
    have : m = 0 := by omega
    subst this
    exact absurd (freeFrom_zero _ _) hne
  | succ fuel ih =>
    cases m with
    | zero => exact absurd (freeFrom_zero _ _) hne
    | succ m =>
      simp only [Circ.synthSkip]
      by_cases hc : cur ∈ prov.vals
      · have hc' : prov.vals.contains cur = true := by simp [hc]
        rw [if_pos hc']
        rw [freeFrom_succ_mem m hc] at hne ⊢
        have := ih (cur + 1) m (by omega) hne
        rw [this]
        congr 2
        omega
      · have hc' : ¬ prov.vals.contains cur = true := by simp [hc]
        rw [if_neg hc']
        rw [freeFrom_succ_not_mem m hc]
        congr 2
        omega

/-! ### `synthGo`: frame, keys, free modes -/

theorem synthGo_frame (n : Nat) (prov : Dict) (fuel i cur : Nat) (acc : Dict) (j : Nat) (hj : j < i) :
    Dict.fn (Circ.synthGo n prov fuel i cur acc) j = Dict.fn acc j := by
  induction fuel generalizing i cur acc with
  | zero => rfl
  | succ fuel ih =>
    have hne : ¬ i = j := by omega
    simp only [Circ.synthGo]
    split
    · rw [ih (i + 1) _ _ (by omega), Dict.fn_set, if_neg hne]
    · rw [ih (i + 1) _ _ (by omega)]
      split
      · rw [Dict.fn_set, if_neg hne]
      · rfl

theorem synthGo_key (n : Nat) (prov : Dict) (fuel i cur : Nat) (acc : Dict) (j : Nat)
    (hij : i ≤ j) (hj : j < i + fuel) (hc : prov.contains j = true) :
    Dict.fn (Circ.synthGo n prov fuel i cur acc) j = prov.getD j 0 := by
  induction fuel generalizing i cur acc with
  | zero => omega
  | succ fuel ih =>
    by_cases e : i = j
    · subst e
      simp only [Circ.synthGo]
      rw [if_pos hc, synthGo_frame _ _ _ _ _ _ _ (by omega), Dict.fn_set, if_pos rfl]
    · simp only [Circ.synthGo]
      split
      · exact ih (i + 1) _ _ (by omega) (by omega)
      · exact ih (i + 1) _ _ (by omega) (by omega)

theorem synthGo_free (n : Nat) (prov : Dict) (fuel i cur : Nat) (acc : Dict) (hfi : fuel + i = n)
    (hacc : ∀ j, i ≤ j → Dict.fn acc j = j)
    (hlen : (freeFrom prov.keys i fuel).length ≤ (freeFrom prov.vals cur (n - cur)).length) :
    (freeFrom prov.keys i fuel).map (Dict.fn (Circ.synthGo n prov fuel i cur acc))
      = (freeFrom prov.vals cur (n - cur)).take (freeFrom prov.keys i fuel).length := by
  induction fuel generalizing i cur acc with
  | zero => simp [freeFrom_zero]
  | succ fuel ih =>
    simp only [Circ.synthGo]
    by_cases hc : prov.contains i = true
    · rw [if_pos hc]
      have hik : i ∈ prov.keys := Dict.contains_iff.mp hc
      rw [freeFrom_succ_mem fuel hik] at hlen ⊢
      apply ih (i + 1) cur _ (by omega) _ hlen
      intro j hj
      rw [Dict.fn_set, if_neg (by omega)]
      exact hacc j (by omega)
    · rw [if_neg hc]
      have hik : i ∉ prov.keys := fun h => hc (Dict.contains_iff.mpr h)
      rw [freeFrom_succ_not_mem fuel hik] at hlen ⊢
      have hne : freeFrom prov.vals cur (n - cur) ≠ [] := by
        intro h
        rw [h] at hlen
        simp at hlen
      have hcn : cur < n := by
        rcases Nat.lt_or_ge cur n with h | h
        · exact h
        · exfalso
          apply hne
          have : n - cur = 0 := by omega
          rw [this]
          rfl
      have hsk := synthSkip_freeFrom prov (n + 1) cur (n - cur) (by omega) hne
      have e : cur + (n - cur) - (Circ.synthSkip prov (n + 1) cur + 1)
          = n - (Circ.synthSkip prov (n + 1) cur + 1) := by omega
      rw [e] at hsk
      rw [hsk] at hlen ⊢
      simp only [List.length_cons, Nat.add_le_add_iff_right] at hlen
      simp only [List.map_cons, List.length_cons, List.take_succ_cons]
      have hacc' : ∀ j, i + 1 ≤ j →
          Dict.fn (if i ≠ Circ.synthSkip prov (n + 1) cur
            then acc.set i (Circ.synthSkip prov (n + 1) cur) else acc) j = j := by
        intro j hj
        split
        · rw [Dict.fn_set, if_neg (by omega)]
          exact hacc j (by omega)
        · exact hacc j (by omega)
      congr 1
      · rw [synthGo_frame _ _ _ _ _ _ _ (by omega)]
        split
        · rw [Dict.fn_set, if_pos rfl]
        · rename_i h
          have h' : i = Circ.synthSkip prov (n + 1) cur := Classical.not_not.mp h
          rw [hacc i (Nat.le_refl _)]
          exact h'
      · exact ih (i + 1) _ _ (by omega) hacc' hlen

/-! ### counting -/

theorem length_freeOf (n : Nat) (l : List Nat) (hnd : l.Nodup) (hlt : ∀ x ∈ l, x < n) :
    (freeOf n l).length = n - l.length := by
  have h1 := List.length_eq_countP_add_countP (fun m => !l.contains m) (l := List.range n)
  rw [List.countP_eq_length_filter, List.countP_eq_length_filter, List.length_range] at h1
  have h2 : ((List.range n).filter fun a => decide ¬ ((!l.contains a) = true)).Perm l := by
    apply (List.perm_ext_iff_of_nodup (List.nodup_range.filter _) hnd).mpr
    intro a
    simp only [List.mem_filter, List.mem_range, List.contains_eq_mem, Bool.not_eq_true',
      decide_eq_false_iff_not, decide_not, Bool.not_not, decide_eq_true_eq]
    exact ⟨fun h => h.2, fun h => ⟨hlt a h, h⟩⟩
  have h3 := h2.length_eq
  unfold freeOf
  omega

/-! ### the main theorem -/

theorem pair_val_unique {d : Dict} (hnd : d.keys.Nodup) {k a b : Nat} (ha : (k, a) ∈ d)
    (hb : (k, b) ∈ d) : a = b :=
  (Dict.fn_eq_of_mem hnd ha).symm.trans (Dict.fn_eq_of_mem hnd hb)

/-- list form of the free-mode clause: the non-keys go, in order, to the non-values -/
theorem synthSwaps_free_map (n : Nat) (ks vs : List Nat) (hlen : ks.length = vs.length)
    (hknd : ks.Nodup) (hvnd : vs.Nodup) (hk : ∀ x ∈ ks, x < n) (hv : ∀ x ∈ vs, x < n) :
    (freeOf n ks).map (Dict.fn (Circ.synthSwaps n (ks.zip vs))) = freeOf n vs := by
  have hkeys : Dict.keys (ks.zip vs) = ks := by
    unfold Dict.keys; exact List.map_fst_zip (by omega)
  have hvals : Dict.vals (ks.zip vs) = vs := by
    unfold Dict.vals; exact List.map_snd_zip (by omega)
  have hl : (freeOf n ks).length = (freeOf n vs).length := by
    rw [length_freeOf n ks hknd hk, length_freeOf n vs hvnd hv, hlen]
  have := synthGo_free n (ks.zip vs) n 0 0 [] (by omega) (fun j _ => rfl)
    (by rw [hkeys, hvals, Nat.sub_zero, ← freeOf_eq_freeFrom, ← freeOf_eq_freeFrom, hl])
  rw [hkeys, hvals, Nat.sub_zero, ← freeOf_eq_freeFrom, ← freeOf_eq_freeFrom, hl,
    List.take_length] at this
  exact this

/-- key clause: every key goes to its paired value -/
theorem synthSwaps_key (n : Nat) (ks vs : List Nat) (hlen : ks.length = vs.length)
    (hknd : ks.Nodup) (hk : ∀ x ∈ ks, x < n) (j : Nat) (h1 : j < ks.length) (h2 : j < vs.length) :
    Dict.fn (Circ.synthSwaps n (ks.zip vs)) ks[j] = vs[j] := by
  have hkeys : Dict.keys (ks.zip vs) = ks := by
    unfold Dict.keys; exact List.map_fst_zip (by omega)
  have hmem : ks[j] ∈ Dict.keys (ks.zip vs) := by rw [hkeys]; exact List.getElem_mem h1
  unfold Circ.synthSwaps
  rw [synthGo_key n (ks.zip vs) n 0 0 [] ks[j] (Nat.zero_le _)
    (by have := hk _ (List.getElem_mem h1); omega) (Dict.contains_iff.mpr hmem)]
  have hp1 : (ks[j], Dict.getD (ks.zip vs) ks[j] 0) ∈ ks.zip vs := Reach.getD_pair_mem hmem
  have hp2 : (ks[j], vs[j]) ∈ ks.zip vs := by
    have hj : j < (ks.zip vs).length := by simp; omega
    have := List.getElem_mem hj
    rwa [List.getElem_zip] at this
  exact pair_val_unique (by rw [hkeys]; exact hknd) hp1 hp2

theorem synthSwaps_spec (n : Nat) (ks vs : List Nat) (hlen : ks.length = vs.length)
    (hknd : ks.Nodup) (hvnd : vs.Nodup) (hk : ∀ x ∈ ks, x < n) (hv : ∀ x ∈ vs, x < n) :
    (∀ j (h1 : j < ks.length) (h2 : j < vs.length),
        Dict.fn (Circ.synthSwaps n (ks.zip vs)) ks[j] = vs[j]) ∧
    (∀ j (h1 : j < (freeOf n ks).length) (h2 : j < (freeOf n vs).length),
        Dict.fn (Circ.synthSwaps n (ks.zip vs)) (freeOf n ks)[j] = (freeOf n vs)[j]) ∧
    (freeOf n ks).length = (freeOf n vs).length := by
  refine ⟨synthSwaps_key n ks vs hlen hknd hk, ?_, ?_⟩
  · intro j h1 h2
    have hmap := synthSwaps_free_map n ks vs hlen hknd hvnd hk hv
    have : ((freeOf n ks).map (Dict.fn (Circ.synthSwaps n (ks.zip vs))))[j]'(by simpa using h1)
        = (freeOf n vs)[j] := by
      simp only [hmap]
    rwa [List.getElem_map] at this
  · rw [length_freeOf n ks hknd hk, length_freeOf n vs hvnd hv, hlen]

/-- non-vacuity / sanity: `n = 5`, heralds `3 ↦ 1`, `0 ↦ 4` -/
example : Circ.synthSwaps 5 ([3, 0].zip [1, 4]) = [(0, 4), (1, 0), (3, 1), (4, 3)] := by decide

end LW.Proofs.C02Sem
