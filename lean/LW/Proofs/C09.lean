/-
  LW.Proofs.C09 — circuit rewrites preserve the transformation (proofs).
-/
import LW.Proofs.CircuitWf
import LW.Proofs.CircInv
import LW.Proofs.GroupWf
import LW.Proofs.SwapDict
import LW.Model.Rewrite

-- the lemmas keep the `[CommRing K] [StarRing K]` signature of LW/Properties/C09.lean throughout
set_option linter.unusedSectionVars false

namespace LW.Proofs.C09

open LW

variable {K : Type} [CommRing K] [StarRing K]

/-! ### bookkeeping -/

theorem rewrites_keep_heralds (c : Circ K) :
    (c.compress.n = c.n ∧ c.compress.inHer = c.inHer ∧ c.compress.outHer = c.outHer) ∧
    (c.removeNonAdj.n = c.n ∧ c.removeNonAdj.inHer = c.inHer ∧ c.removeNonAdj.outHer = c.outHer) ∧
    c.copy = c :=
  ⟨⟨rfl, rfl, rfl⟩, ⟨rfl, rfl, rfl⟩, rfl⟩

theorem unpackGroups_keeps (c : Circ K) :
    c.unpackGroups.n = c.n ∧ c.unpackGroups.inHer = c.inHer ∧ c.unpackGroups.outHer = c.outHer ∧
    c.unpackGroups.inputModes = c.inputModes :=
  ⟨rfl, rfl, rfl, rfl⟩

/-! ### unpacking -/

theorem unpack_no_group (spec : List (Comp K)) :
    ∀ c ∈ unpackSpec spec, ∃ p, c = .prim p := by
  intro c hc
  unfold unpackSpec at hc
  rw [List.mem_flatMap] at hc
  obtain ⟨a, _, ha⟩ := hc
  cases a with
  | prim p =>
    simp only [List.mem_singleton] at ha
    exact ⟨p, ha⟩
  | group cs m1 m2 hin hout =>
    simp only [List.mem_map] at ha
    obtain ⟨p, _, hp⟩ := ha
    exact ⟨p, hp.symm⟩

/-- running a spec from a given state -/
def run (i : K) (U : M K) (spec : List (Comp K)) : M K := spec.foldl (compileComp i) U

theorem compile_eq_run (i : K) (n : Nat) (spec : List (Comp K)) :
    compile i n spec = run i (M.one n) spec := rfl

@[simp] theorem run_nil (i : K) (U : M K) : run i U [] = U := rfl
@[simp] theorem run_cons (i : K) (U : M K) (c : Comp K) (l : List (Comp K)) :
    run i U (c :: l) = run i (compileComp i U c) l := rfl
theorem run_append (i : K) (U : M K) (l1 l2 : List (Comp K)) :
    run i U (l1 ++ l2) = run i (run i U l1) l2 := by
  unfold run; rw [List.foldl_append]

theorem run_map_prim (i : K) (U : M K) (cs : List (Prim K)) :
    run i U (cs.map .prim) = cs.foldl (compilePrim i) U := by
  induction cs generalizing U with
  | nil => rfl
  | cons p cs ih => rw [List.map_cons, run_cons, ih]; rfl

theorem run_unpack (i : K) (U : M K) (spec : List (Comp K)) :
    run i U (unpackSpec spec) = run i U spec := by
  induction spec generalizing U with
  | nil => rfl
  | cons c spec ih =>
    have : unpackSpec (c :: spec) = (match c with
        | .prim p => [.prim p]
        | .group cs .. => cs.map .prim) ++ unpackSpec spec := by
      unfold unpackSpec
      rw [List.flatMap_cons]
      rfl
    rw [this, run_append, ih, run_cons]
    cases c with
    | prim p => rfl
    | group cs m1 m2 hin hout =>
      simp only
      rw [run_map_prim]
      rfl

theorem unpack_compile (i : K) (n : Nat) (spec : List (Comp K)) :
    compile i n (unpackSpec spec) = compile i n spec :=
  run_unpack i (M.one n) spec

/-! ### non-adjacent beam splitters: shape -/

theorem Prim.convertNonAdj_bs_adj (m1 m2 : Nat) (c s : K) (cv : Conv)
    (h : m1 + 1 = m2 ∨ m2 + 1 = m1) :
    (Prim.bs m1 m2 c s cv).convertNonAdj = [.bs m1 m2 c s cv] := by
  simp only [Prim.convertNonAdj]
  rw [if_pos h]

theorem Prim.convertNonAdj_bs_nonadj (m1 m2 : Nat) (c s : K) (cv : Conv)
    (h : ¬(m1 + 1 = m2 ∨ m2 + 1 = m1)) :
    (Prim.bs m1 m2 c s cv).convertNonAdj =
      [.swaps (nonAdjSwaps (min m1 m2) (max m1 m2)),
       .bs (if m1 > m2 then (min m1 m2 + max m1 m2 - 1) / 2 + 1 else (min m1 m2 + max m1 m2 - 1) / 2)
           (if m1 > m2 then (min m1 m2 + max m1 m2 - 1) / 2 else (min m1 m2 + max m1 m2 - 1) / 2 + 1)
           c s cv,
       .swaps (Dict.ofPairs ((nonAdjSwaps (min m1 m2) (max m1 m2)).map fun p => (p.2, p.1)))] := by
  simp only [Prim.convertNonAdj]
  rw [if_neg h]
  by_cases hgt : m1 > m2
  · simp only [hgt, if_true]
  · simp only [hgt, if_false]

theorem Prim.convertNonAdj_adjacent (p : Prim K) :
    ∀ q ∈ p.convertNonAdj, ∀ m1 m2 cc ss cv, q = Prim.bs m1 m2 cc ss cv →
      m1 + 1 = m2 ∨ m2 + 1 = m1 := by
  intro q hq m1 m2 cc ss cv e
  cases p with
  | bs a b c s v =>
    by_cases h : a + 1 = b ∨ b + 1 = a
    · rw [Prim.convertNonAdj_bs_adj a b c s v h, List.mem_singleton] at hq
      rw [e] at hq
      injection hq with h1 h2
      rw [h1, h2]; exact h
    · rw [Prim.convertNonAdj_bs_nonadj a b c s v h] at hq
      simp only [List.mem_cons, List.not_mem_nil, or_false] at hq
      rw [e] at hq
      rcases hq with hq | hq | hq
      · cases hq
      · injection hq with h1 h2
        by_cases hgt : a > b
        · simp only [hgt, if_true] at h1 h2; omega
        · simp only [hgt, if_false] at h1 h2; omega
      · cases hq
  | ps _ _ => simp only [Prim.convertNonAdj, List.mem_singleton] at hq; rw [e] at hq; cases hq
  | loss _ _ _ => simp only [Prim.convertNonAdj, List.mem_singleton] at hq; rw [e] at hq; cases hq
  | barrier _ => simp only [Prim.convertNonAdj, List.mem_singleton] at hq; rw [e] at hq; cases hq
  | swaps _ => simp only [Prim.convertNonAdj, List.mem_singleton] at hq; rw [e] at hq; cases hq
  | unitary _ _ => simp only [Prim.convertNonAdj, List.mem_singleton] at hq; rw [e] at hq; cases hq

theorem convertNonAdj_adjacent (spec : List (Comp K)) :
    ∀ c ∈ convertNonAdj spec, ∀ p ∈ c.toPrims, ∀ m1 m2 cc ss cv, p = Prim.bs m1 m2 cc ss cv →
      m1 + 1 = m2 ∨ m2 + 1 = m1 := by
  intro c hc p hp
  unfold convertNonAdj at hc
  rw [List.mem_flatMap] at hc
  obtain ⟨a, _, ha⟩ := hc
  cases a with
  | prim q =>
    simp only [List.mem_map] at ha
    obtain ⟨q', hq', rfl⟩ := ha
    simp only [Comp.toPrims, List.mem_singleton] at hp
    subst hp
    exact Prim.convertNonAdj_adjacent q p hq'
  | group cs g1 g2 hin hout =>
    simp only [List.mem_singleton] at ha
    subst ha
    simp only [Comp.toPrims, List.mem_flatMap] at hp
    obtain ⟨q, _, hq⟩ := hp
    exact Prim.convertNonAdj_adjacent q p hq

/-! ### swap compression: length -/

theorem compressGo_length_le (l : List (Nat × Comp K)) (skip : List Nat) :
    (compressGo l skip).length ≤ l.length := by
  induction l generalizing skip with
  | nil => simp [compressGo]
  | cons a l ih =>
    obtain ⟨i, c⟩ := a
    unfold compressGo
    by_cases hs : skip.contains i = true
    · rw [if_pos hs]
      exact Nat.le_succ_of_le (ih skip)
    · rw [if_neg hs]
      split
      · simp only [List.length_cons]
        exact Nat.succ_le_succ (ih _)
      · simp only [List.length_cons]
        exact Nat.succ_le_succ (ih _)

theorem compress_length_le (spec : List (Comp K)) :
    (compressSwaps spec).length ≤ spec.length := by
  unfold compressSwaps
  refine le_trans (compressGo_length_le _ _) ?_
  simp

/-! ### combining swap dictionaries -/

theorem permMat_eq_permF (σ : Dict) (n : Nat) : (permMat σ n : M K) = permF (Dict.fn σ) n := rfl

theorem combine_permMat_of_permOk (n : Nat) (σ τ : Dict) (hσ : PermOk n σ) (hτ : PermOk n τ) :
    (permMat (combineSwapDicts σ τ) n : M K) = (permMat τ n).mul (permMat σ n) := by
  obtain ⟨g, hg⟩ := hσ.permBelow
  rw [permMat_eq_permF, permMat_eq_permF, permMat_eq_permF, permF_mul_permF hg (le_refl n)]
  congr 1
  funext c
  exact fn_combine hσ hτ c

theorem combine_permMat (n : Nat) (σ τ : Dict) (hσ : SwapsOk n σ) (hτ : SwapsOk n τ) :
    (permMat (combineSwapDicts σ τ) n : M K) = (permMat τ n).mul (permMat σ n) :=
  combine_permMat_of_permOk n σ τ hσ.permOk hτ.permOk

/-! ### dimensions along compilation -/

@[simp] theorem Prim.mat_n (i : K) (n : Nat) (p : Prim K) : (p.mat i n).n = n := by
  cases p with
  | bs m1 m2 c s cv => cases cv <;> rfl
  | _ => rfl

theorem compilePrim_n_ge (i : K) (U : M K) (p : Prim K) : U.n ≤ (compilePrim i U p).n := by
  cases p with
  | barrier ms => exact le_refl _
  | loss m a b => show U.n ≤ U.n + 1; omega
  | bs m1 m2 c s cv => show U.n ≤ ((Prim.bs m1 m2 c s cv).mat i U.n).n; rw [Prim.mat_n]
  | ps m p => exact le_refl _
  | swaps σ => exact le_refl _
  | unitary m u => exact le_refl _

theorem foldl_compilePrim_n_ge (i : K) (cs : List (Prim K)) (U : M K) :
    U.n ≤ (cs.foldl (compilePrim i) U).n := by
  induction cs generalizing U with
  | nil => exact le_refl _
  | cons p cs ih => exact le_trans (compilePrim_n_ge i U p) (ih _)

theorem compileComp_n_ge (i : K) (U : M K) (c : Comp K) : U.n ≤ (compileComp i U c).n := by
  cases c with
  | prim p => exact compilePrim_n_ge i U p
  | group cs m1 m2 hin hout => exact foldl_compilePrim_n_ge i cs U

theorem run_n_ge (i : K) (l : List (Comp K)) (U : M K) : U.n ≤ (run i U l).n := by
  induction l generalizing U with
  | nil => exact le_refl _
  | cons c l ih => exact le_trans (compileComp_n_ge i U c) (ih _)

/-! ### non-adjacent beam splitters: transformation -/

/-- conjugating an embedded 2×2 block by a mode permutation moves the block -/
theorem conj_embed2 {n : Nat} {f g : Nat → Nat} (h : PermBelow n f g) (U : M K) (hN : n ≤ U.n)
    (x y : Nat) (a b c d : K) :
    (permF g U.n).mul ((embed2 U.n (f x) (f y) a b c d).mul ((permF f U.n).mul U))
      = (embed2 U.n x y a b c d).mul U := by
  rw [← M.mul_assoc' (embed2 U.n (f x) (f y) a b c d) (permF f U.n) U (by simp),
    ← M.mul_assoc' (permF g U.n) _ U (by simp), permF_conj h hN _ (by simp)]
  congr 1
  refine M.ext_get (M.isOfFn_ofFn _ _) (M.isOfFn_ofFn _ _) rfl ?_
  intro r k hr hk
  simp only [M.ofFn_n] at hr hk
  rw [M.get_ofFn _ hr hk, embed2_get_perm h hN x y a b c d hr hk]

theorem foldl_convertNonAdj_prim (i : K) (n : Nat) (p : Prim K) (hp : p.Wf n) (U : M K)
    (hU : n ≤ U.n) : p.convertNonAdj.foldl (compilePrim i) U = compilePrim i U p := by
  cases p with
  | bs m1 m2 c s cv =>
    by_cases hadj : m1 + 1 = m2 ∨ m2 + 1 = m1
    · rw [Prim.convertNonAdj_bs_adj m1 m2 c s cv hadj]; rfl
    · rw [Prim.convertNonAdj_bs_nonadj m1 m2 c s cv hadj]
      obtain ⟨h1, h2, hne, _⟩ := hp
      have hlo : min m1 m2 < max m1 m2 := by omega
      have hhi : max m1 m2 < n := by omega
      have hok := nonAdjSwaps_permOk n _ _ hlo hhi
      have hpb := hok.permBelow_inv
      have hf1 : Dict.fn (nonAdjSwaps (min m1 m2) (max m1 m2)) m1
          = if m1 > m2 then (min m1 m2 + max m1 m2 - 1) / 2 + 1
            else (min m1 m2 + max m1 m2 - 1) / 2 := by
        rw [fn_nonAdjSwaps]
        unfold nonAdjFn
        split_ifs <;> omega
      have hf2 : Dict.fn (nonAdjSwaps (min m1 m2) (max m1 m2)) m2
          = if m1 > m2 then (min m1 m2 + max m1 m2 - 1) / 2
            else (min m1 m2 + max m1 m2 - 1) / 2 + 1 := by
        rw [fn_nonAdjSwaps]
        unfold nonAdjFn
        split_ifs <;> omega
      rw [← hf1, ← hf2]
      cases cv with
      | rx => exact conj_embed2 hpb U hU m1 m2 c (i * s) (i * s) c
      | h => exact conj_embed2 hpb U hU m1 m2 c s s (-c)
  | ps _ _ => rfl
  | loss _ _ _ => rfl
  | barrier _ => rfl
  | swaps _ => rfl
  | unitary _ _ => rfl

theorem foldl_convertNonAdj_prims (i : K) (n : Nat) (cs : List (Prim K)) (hcs : ∀ p ∈ cs, p.Wf n)
    (U : M K) (hU : n ≤ U.n) :
    (cs.flatMap Prim.convertNonAdj).foldl (compilePrim i) U = cs.foldl (compilePrim i) U := by
  induction cs generalizing U with
  | nil => rfl
  | cons p cs ih =>
    rw [List.flatMap_cons, List.foldl_append, List.foldl_cons,
      foldl_convertNonAdj_prim i n p (hcs p List.mem_cons_self) U hU]
    exact ih (fun q hq => hcs q (List.mem_cons_of_mem _ hq)) _
      (le_trans hU (compilePrim_n_ge i U p))

/-- what `convertNonAdj` emits for one entry -/
def convPiece (c : Comp K) : List (Comp K) :=
  match c with
  | .prim p => p.convertNonAdj.map .prim
  | .group cs m1 m2 hin hout => [.group (cs.flatMap Prim.convertNonAdj) m1 m2 hin hout]

theorem convertNonAdj_cons (c : Comp K) (spec : List (Comp K)) :
    convertNonAdj (c :: spec) = convPiece c ++ convertNonAdj spec := by
  unfold convertNonAdj
  rw [List.flatMap_cons]
  rfl

theorem run_convertNonAdj (i : K) (n : Nat) (spec : List (Comp K)) (h : SpecWf n spec) (U : M K)
    (hU : n ≤ U.n) : run i U (convertNonAdj spec) = run i U spec := by
  induction spec generalizing U with
  | nil => rfl
  | cons c spec ih =>
    have hc : Comp.Wf n c := h c List.mem_cons_self
    have hs : SpecWf n spec := fun d hd => h d (List.mem_cons_of_mem _ hd)
    rw [convertNonAdj_cons, run_append, run_cons]
    have key : run i U (convPiece c) = compileComp i U c := by
      cases c with
      | prim p =>
        simp only [convPiece]
        rw [run_map_prim]
        exact foldl_convertNonAdj_prim i n p hc U hU
      | group cs m1 m2 hin hout =>
        simp only [convPiece, run_cons, run_nil]
        exact foldl_convertNonAdj_prims i n cs hc U hU
    rw [key]
    exact ih hs _ (le_trans hU (compileComp_n_ge i U c))

theorem convertNonAdj_compile (i : K) (n : Nat) (spec : List (Comp K)) (h : SpecWf n spec) :
    compile i n (convertNonAdj spec) = compile i n spec :=
  run_convertNonAdj i n spec h (M.one n) (le_refl n)

/-! ### swap compression: a swap commutes with components it does not touch -/

/-- modes a leaf component acts on non-trivially (for a swap: its keys) -/
def touch : Prim K → List Nat
  | .bs m1 m2 .. => [m1, m2]
  | .ps m _ => [m]
  | .loss m .. => [m]
  | .barrier _ => []
  | .swaps σ => Dict.keys σ
  | .unitary m u => (List.range u.n).map (· + m)

theorem fn_comm_of_disjoint {n : Nat} {ρ τ : Dict} (hρ : PermOk n ρ) (hτ : PermOk n τ)
    (hd : ∀ m ∈ Dict.keys ρ, m ∉ Dict.keys τ) (x : Nat) :
    Dict.fn ρ (Dict.fn τ x) = Dict.fn τ (Dict.fn ρ x) := by
  by_cases hx : x ∈ Dict.keys τ
  · have h1 : Dict.fn τ x ∉ Dict.keys ρ := fun hc => hd _ hc (hτ.fn_mem_keys hx)
    have h2 : x ∉ Dict.keys ρ := fun hc => hd _ hc hx
    rw [Dict.fn_of_not_mem h1, Dict.fn_of_not_mem h2]
  · by_cases hx' : x ∈ Dict.keys ρ
    · have h1 : Dict.fn ρ x ∉ Dict.keys τ := hd _ (hρ.fn_mem_keys hx')
      rw [Dict.fn_of_not_mem hx, Dict.fn_of_not_mem h1]
    · rw [Dict.fn_of_not_mem hx, Dict.fn_of_not_mem hx', Dict.fn_of_not_mem hx]

/-- algebra of one commutation step -/
theorem comm_step (A P V : M K) (hAP : P.n = A.n) (hc : P.mul A = A.mul P) :
    A.mul (P.mul V) = P.mul (A.mul V) := by
  rw [← M.mul_assoc' A P V hAP, ← hc, M.mul_assoc' P A V hAP.symm]

theorem compilePrim_swaps (i : K) (U : M K) (τ : Dict) :
    compilePrim i U (.swaps τ) = (permF (Dict.fn τ) U.n).mul U := rfl

/-- a swap commutes with a leaf component none of whose modes it moves -/
theorem compilePrim_swaps_comm (i : K) (n : Nat) (τ : Dict) (hτ : PermOk n τ) (p : Prim K)
    (hp : p.Wf n) (hd : ∀ m ∈ touch p, m ∉ Dict.keys τ) (U : M K) (hU : n ≤ U.n) :
    compilePrim i (compilePrim i U (.swaps τ)) p
      = compilePrim i (compilePrim i U p) (.swaps τ) := by
  obtain ⟨g, hg⟩ := hτ.permBelow
  have hfix : ∀ m ∈ touch p, Dict.fn τ m = m := fun m hm => Dict.fn_of_not_mem (hd m hm)
  cases p with
  | barrier ms => rfl
  | bs m1 m2 c s cv =>
    have e1 := hfix m1 (by simp [touch])
    have e2 := hfix m2 (by simp [touch])
    have key : ∀ a b c' d : K, (embed2 U.n m1 m2 a b c' d).mul ((permF (Dict.fn τ) U.n).mul U)
        = (permF (Dict.fn τ) U.n).mul ((embed2 U.n m1 m2 a b c' d).mul U) := by
      intro a b c' d
      refine comm_step _ _ _ (by rfl) ?_
      refine permF_comm hg hU _ (by rfl) ?_
      intro r k hr hk
      have := embed2_get_perm hg hU m1 m2 a b c' d hr hk
      rwa [e1, e2] at this
    cases cv with
    | rx => exact key _ _ _ _
    | h => exact key _ _ _ _
  | ps m q =>
    have e1 := hfix m (by simp [touch])
    show (embed1 U.n m q).mul ((permF (Dict.fn τ) U.n).mul U)
        = (permF (Dict.fn τ) U.n).mul ((embed1 U.n m q).mul U)
    refine comm_step _ _ _ (by rfl) ?_
    refine permF_comm hg hU _ (by rfl) ?_
    intro r k hr hk
    have := embed1_get_perm hg hU m q hr hk
    rwa [e1] at this
  | loss m a b =>
    have e1 := hfix m (by simp [touch])
    have e2 : Dict.fn τ (U.n + 1 - 1) = U.n + 1 - 1 := hτ.fix _ (by omega)
    have hU1 : n ≤ U.n + 1 := by omega
    show (embed2 (U.n + 1) m (U.n + 1 - 1) a b (-b) a).mul (((permF (Dict.fn τ) U.n).mul U).pad 1)
        = (permF (Dict.fn τ) (U.n + 1)).mul ((embed2 (U.n + 1) m (U.n + 1 - 1) a b (-b) a).mul (U.pad 1))
    rw [permF_mul_pad hg U hU]
    refine comm_step _ _ _ (by rfl) ?_
    refine permF_comm hg hU1 _ (by rfl) ?_
    intro r k hr hk
    have := embed2_get_perm hg hU1 m (U.n + 1 - 1) a b (-b) a hr hk
    rwa [e1, e2] at this
  | swaps ρ =>
    have hρ : PermOk n ρ := SwapsOk.permOk hp
    show (permF (Dict.fn ρ) U.n).mul ((permF (Dict.fn τ) U.n).mul U)
        = (permF (Dict.fn τ) U.n).mul ((permF (Dict.fn ρ) U.n).mul U)
    refine comm_step _ _ _ (by rfl) ?_
    refine permF_comm hg hU _ (by rfl) ?_
    intro r k hr hk
    exact permF_get_perm hg hU _ (fn_comm_of_disjoint hρ hτ hd) hr hk
  | unitary m u =>
    show (embedBlock U.n m u).mul ((permF (Dict.fn τ) U.n).mul U)
        = (permF (Dict.fn τ) U.n).mul ((embedBlock U.n m u).mul U)
    refine comm_step _ _ _ (by rfl) ?_
    refine permF_comm hg hU _ (by rfl) ?_
    intro r k hr hk
    apply embedBlock_get_perm hg hU m u _ hr hk
    intro x h1 h2
    apply hfix
    simp only [touch, List.mem_map, List.mem_range]
    exact ⟨x - m, by omega, by omega⟩

theorem touch_subset_modes (p : Prim K) : ∀ m ∈ touch p, m ∈ p.modes := by
  intro m hm
  cases p with
  | swaps σ => exact List.mem_append_left _ hm
  | barrier ms => simp [touch] at hm
  | _ => exact hm

theorem foldl_compilePrim_swaps_comm (i : K) (n : Nat) (τ : Dict) (hτ : PermOk n τ)
    (cs : List (Prim K)) (hcs : ∀ p ∈ cs, p.Wf n)
    (hd : ∀ p ∈ cs, ∀ m ∈ touch p, m ∉ Dict.keys τ) (U : M K) (hU : n ≤ U.n) :
    cs.foldl (compilePrim i) (compilePrim i U (.swaps τ))
      = compilePrim i (cs.foldl (compilePrim i) U) (.swaps τ) := by
  induction cs generalizing U with
  | nil => rfl
  | cons p cs ih =>
    rw [List.foldl_cons, List.foldl_cons,
      compilePrim_swaps_comm i n τ hτ p (hcs p List.mem_cons_self) (hd p List.mem_cons_self) U hU]
    exact ih (fun q hq => hcs q (List.mem_cons_of_mem _ hq))
      (fun q hq => hd q (List.mem_cons_of_mem _ hq)) _ (le_trans hU (compilePrim_n_ge i U p))

/-- a swap commutes with a (non-swap) component none of whose blocked modes it moves -/
theorem compileComp_swaps_comm (i : K) (n : Nat) (τ : Dict) (hτ : PermOk n τ) (c : Comp K)
    (hc : c.Wf n) (hg : c.GroupOk) (hns : ∀ ρ, c ≠ .prim (.swaps ρ))
    (hd : ∀ m ∈ c.blocked, m ∉ Dict.keys τ) (U : M K) (hU : n ≤ U.n) :
    compileComp i (compileComp i U (.prim (.swaps τ))) c
      = compileComp i (compileComp i U c) (.prim (.swaps τ)) := by
  cases c with
  | prim p =>
    cases p with
    | swaps ρ => exact absurd rfl (hns ρ)
    | barrier ms => rfl
    | bs m1 m2 c s cv => exact compilePrim_swaps_comm i n τ hτ (.bs m1 m2 c s cv) hc hd U hU
    | ps m q => exact compilePrim_swaps_comm i n τ hτ (.ps m q) hc hd U hU
    | loss m a b => exact compilePrim_swaps_comm i n τ hτ (.loss m a b) hc hd U hU
    | unitary m u => exact compilePrim_swaps_comm i n τ hτ (.unitary m u) hc hd U hU
  | group cs m1 m2 hin hout =>
    apply foldl_compilePrim_swaps_comm i n τ hτ cs hc _ U hU
    intro p hp m hm
    apply hd
    obtain ⟨h1, h2⟩ := hg p hp m (touch_subset_modes p m hm)
    simp only [Comp.blocked, List.mem_map, List.mem_range]
    exact ⟨m - m1, by omega, by omega⟩

/-! ### swap compression: the scan -/

/-- the entries that are still present, given the skip list -/
def eff (l : List (Nat × Comp K)) (skip : List Nat) : List (Comp K) :=
  (l.filter fun p => !skip.contains p.1).map (·.2)

theorem eff_nil (skip : List Nat) : eff ([] : List (Nat × Comp K)) skip = [] := rfl

theorem eff_cons_skip (k : Nat) (c : Comp K) (l : List (Nat × Comp K)) (skip : List Nat)
    (h : k ∈ skip) : eff ((k, c) :: l) skip = eff l skip := by
  unfold eff
  rw [List.filter_cons]
  simp [h]

theorem eff_cons_keep (k : Nat) (c : Comp K) (l : List (Nat × Comp K)) (skip : List Nat)
    (h : k ∉ skip) : eff ((k, c) :: l) skip = c :: eff l skip := by
  unfold eff
  rw [List.filter_cons]
  simp [h]

theorem eff_skip_append (l : List (Nat × Comp K)) (skip : List Nat) (k : Nat)
    (h : k ∉ l.map (·.1)) : eff l (skip ++ [k]) = eff l skip := by
  unfold eff
  congr 1
  apply List.filter_congr
  intro p hp
  have : p.1 ≠ k := fun e => h (e ▸ List.mem_map.mpr ⟨p, hp, rfl⟩)
  simp [this]

theorem eff_no_skip (l : List (Nat × Comp K)) : eff l [] = l.map (·.2) := by
  unfold eff
  simp

theorem scan_nil (σ : Dict) (b s : List Nat) :
    compressScan ([] : List (Nat × Comp K)) σ b s = (σ, s) := rfl

theorem scan_cons_skip (k : Nat) (c : Comp K) (rest : List (Nat × Comp K)) (σ : Dict)
    (b s : List Nat) (h : k ∈ s) :
    compressScan ((k, c) :: rest) σ b s = compressScan rest σ b s := by
  by_cases hsw : ∃ τ, c = .prim (.swaps τ)
  · obtain ⟨τ, rfl⟩ := hsw
    rw [compressScan]
    simp [h]
  · rw [compressScan]
    · simp [h]
    · intro τ e
      exact hsw ⟨τ, e⟩

theorem scan_cons_swap_blocked (k : Nat) (τ : Dict) (rest : List (Nat × Comp K)) (σ : Dict)
    (b s : List Nat) (h : k ∉ s) (hb : ∃ x ∈ Dict.keys τ, x ∈ b) :
    compressScan ((k, .prim (.swaps τ)) :: rest) σ b s
      = compressScan rest σ (b ++ Dict.keys τ) s := by
  rw [compressScan]
  have : (Dict.keys τ).any b.contains = true := by simpa using hb
  simp [h, this]

theorem scan_cons_swap_free (k : Nat) (τ : Dict) (rest : List (Nat × Comp K)) (σ : Dict)
    (b s : List Nat) (h : k ∉ s) (hb : ∀ x ∈ Dict.keys τ, x ∉ b) :
    compressScan ((k, .prim (.swaps τ)) :: rest) σ b s
      = compressScan rest (combineSwapDicts σ τ) b (s ++ [k]) := by
  rw [compressScan]
  have : ¬ (Dict.keys τ).any b.contains = true := by simpa using hb
  simp [h, this]

theorem scan_cons_other (k : Nat) (c : Comp K) (rest : List (Nat × Comp K)) (σ : Dict)
    (b s : List Nat) (h : k ∉ s) (hns : ∀ ρ, c ≠ .prim (.swaps ρ)) :
    compressScan ((k, c) :: rest) σ b s = compressScan rest σ (b ++ c.blocked) s := by
  rw [compressScan]
  · simp [h]
  · intro τ e
    exact hns τ e

theorem scan_skip_mono (rest : List (Nat × Comp K)) (σ : Dict) (b s : List Nat) (x : Nat)
    (hx : x ∈ s) : x ∈ (compressScan rest σ b s).2 := by
  fun_induction compressScan rest σ b s with
  | case1 => exact hx
  | case2 _ _ _ _ _ _ _ ih => exact ih hx
  | case3 _ _ _ _ _ _ _ _ ih => exact ih hx
  | case4 _ _ _ _ _ _ _ _ ih => exact ih (List.mem_append_left _ hx)
  | case5 _ _ _ _ _ _ _ _ ih => exact ih hx

theorem scan_skip_bound (rest : List (Nat × Comp K)) (σ : Dict) (b s : List Nat) (x : Nat)
    (hx : x ∈ (compressScan rest σ b s).2) : x ∈ s ∨ x ∈ rest.map (·.1) := by
  fun_induction compressScan rest σ b s with
  | case1 => exact Or.inl hx
  | case2 _ _ _ _ _ _ _ ih =>
    rcases ih hx with h | h
    · exact Or.inl h
    · exact Or.inr (List.mem_cons_of_mem _ h)
  | case3 _ _ _ _ _ _ _ _ ih =>
    rcases ih hx with h | h
    · exact Or.inl h
    · exact Or.inr (List.mem_cons_of_mem _ h)
  | case4 _ _ _ _ _ _ _ _ ih =>
    rcases ih hx with h | h
    · rcases List.mem_append.mp h with h | h
      · exact Or.inl h
      · rw [List.mem_singleton] at h
        rw [h]
        exact Or.inr List.mem_cons_self
    · exact Or.inr (List.mem_cons_of_mem _ h)
  | case5 _ _ _ _ _ _ _ _ ih =>
    rcases ih hx with h | h
    · exact Or.inl h
    · exact Or.inr (List.mem_cons_of_mem _ h)

/-- every later swap that avoids `b` may be moved in front of `pre` -/
def MovesPast (i : K) (n : Nat) (b : List Nat) (pre : List (Comp K)) : Prop :=
  ∀ τ, PermOk n τ → (∀ k ∈ Dict.keys τ, k ∉ b) → ∀ U : M K, n ≤ U.n →
    run i U (pre ++ [.prim (.swaps τ)]) = run i U (.prim (.swaps τ) :: pre)

theorem movesPast_nil (i : K) (n : Nat) : MovesPast i n [] ([] : List (Comp K)) :=
  fun _ _ _ _ _ => rfl

theorem MovesPast.extend {i : K} {n : Nat} {b : List Nat} {pre : List (Comp K)}
    (h : MovesPast i n b pre) (c : Comp K) (b' : List Nat)
    (hcomm : ∀ τ, PermOk n τ → (∀ k ∈ Dict.keys τ, k ∉ b') → ∀ U : M K, n ≤ U.n →
      compileComp i (compileComp i U (.prim (.swaps τ))) c
        = compileComp i (compileComp i U c) (.prim (.swaps τ))) :
    MovesPast i n (b ++ b') (pre ++ [c]) := by
  intro τ hτ hd U hU
  have hd1 : ∀ k ∈ Dict.keys τ, k ∉ b := fun k hk hb => hd k hk (List.mem_append_left _ hb)
  have hd2 : ∀ k ∈ Dict.keys τ, k ∉ b' := fun k hk hb => hd k hk (List.mem_append_right _ hb)
  have e1 := h τ hτ hd1 U hU
  have e2 := hcomm τ hτ hd2 (run i U pre) (le_trans hU (run_n_ge i pre U))
  simp only [run_append, run_cons, run_nil] at e1 e2 ⊢
  rw [← e2, e1]

/-- two consecutive swaps compile to the combined swap -/
theorem compileComp_combine (i : K) (n : Nat) (σ τ : Dict) (hσ : PermOk n σ) (hτ : PermOk n τ)
    (U : M K) (hU : n ≤ U.n) :
    compileComp i U (.prim (.swaps (combineSwapDicts σ τ)))
      = compileComp i (compileComp i U (.prim (.swaps σ))) (.prim (.swaps τ)) := by
  show (permMat (combineSwapDicts σ τ) U.n).mul U
      = (permMat τ U.n).mul ((permMat σ U.n).mul U)
  rw [combine_permMat_of_permOk U.n σ τ (hσ.mono hU) (hτ.mono hU), M.mul_assoc' _ _ _ (by rfl)]

theorem scan_correct (i : K) (n : Nat) (rest : List (Nat × Comp K)) (σ : Dict) (b s : List Nat) :
    ∀ pre : List (Comp K), PermOk n σ → (rest.map (·.1)).Nodup →
      (∀ p ∈ rest, p.2.Wf n ∧ p.2.GroupOk) → MovesPast i n b pre →
      ∀ U : M K, n ≤ U.n →
        run i U (.prim (.swaps (compressScan rest σ b s).1)
                  :: (pre ++ eff rest (compressScan rest σ b s).2))
          = run i U (.prim (.swaps σ) :: (pre ++ eff rest s)) := by
  fun_induction compressScan rest σ b s with
  | case1 => intro pre _ _ _ _ U _; rfl
  | case2 k c rest σ b s hk ih =>
    intro pre hσ hnd hwf hmp U hU
    have hk' : k ∈ s := by simpa using hk
    rw [eff_cons_skip k c rest _ (scan_skip_mono rest σ b s k hk'), eff_cons_skip k c rest s hk']
    exact ih pre hσ (List.nodup_cons.mp hnd).2 (fun p hp => hwf p (List.mem_cons_of_mem _ hp))
      hmp U hU
  | case3 k rest σ b s hk τ hb ih =>
    intro pre hσ hnd hwf hmp U hU
    have hk' : k ∉ s := by simpa using hk
    have hnd' := List.nodup_cons.mp hnd
    have hk2 : k ∉ (compressScan rest σ (b ++ Dict.keys τ) s).2 := by
      intro hc
      rcases scan_skip_bound rest σ _ s k hc with h | h
      · exact hk' h
      · exact hnd'.1 h
    have hτ : PermOk n τ := SwapsOk.permOk (hwf (k, .prim (.swaps τ)) List.mem_cons_self).1
    rw [eff_cons_keep k _ rest _ hk2, eff_cons_keep k _ rest s hk']
    have e : ∀ X : List (Comp K), pre ++ Comp.prim (Prim.swaps τ) :: X
        = (pre ++ [Comp.prim (Prim.swaps τ)]) ++ X := by intro X; simp
    rw [e (eff rest s), e (eff rest (compressScan rest σ (b ++ Dict.keys τ) s).2)]
    refine ih (pre ++ [.prim (.swaps τ)]) hσ hnd'.2
      (fun p hp => hwf p (List.mem_cons_of_mem _ hp)) ?_ U hU
    apply hmp.extend
    intro τ' hτ' hd' V hV
    exact compilePrim_swaps_comm i n τ' hτ' (.swaps τ)
      (hwf (k, .prim (.swaps τ)) List.mem_cons_self).1 (fun m hm hm' => hd' m hm' hm) V hV
  | case4 k rest σ b s hk τ hb ih =>
    intro pre hσ hnd hwf hmp U hU
    have hk' : k ∉ s := by simpa using hk
    have hnd' := List.nodup_cons.mp hnd
    have hτ : PermOk n τ := SwapsOk.permOk (hwf (k, .prim (.swaps τ)) List.mem_cons_self).1
    have hfree : ∀ x ∈ Dict.keys τ, x ∉ b := by simpa using hb
    have hk2 : k ∈ (compressScan rest (combineSwapDicts σ τ) b (s ++ [k])).2 :=
      scan_skip_mono rest _ b _ k (List.mem_append_right _ (List.mem_singleton.mpr rfl))
    rw [eff_cons_skip k _ rest _ hk2, eff_cons_keep k _ rest s hk']
    rw [ih pre (hσ.combine hτ) hnd'.2 (fun p hp => hwf p (List.mem_cons_of_mem _ hp)) hmp U hU,
      eff_skip_append rest s k hnd'.1]
    have e1 := hmp τ hτ hfree (compileComp i U (.prim (.swaps σ)))
      (le_trans hU (compileComp_n_ge i U _))
    simp only [run_append, run_cons, run_nil] at e1 ⊢
    rw [compileComp_combine i n σ τ hσ hτ U hU, ← e1]
  | case5 k rest σ b s hk c hns ih =>
    intro pre hσ hnd hwf hmp U hU
    have hk' : k ∉ s := by simpa using hk
    have hnd' := List.nodup_cons.mp hnd
    have hk2 : k ∉ (compressScan rest σ (b ++ c.blocked) s).2 := by
      intro hc
      rcases scan_skip_bound rest σ _ s k hc with h | h
      · exact hk' h
      · exact hnd'.1 h
    rw [eff_cons_keep k _ rest _ hk2, eff_cons_keep k _ rest s hk']
    have e : ∀ X : List (Comp K), pre ++ c :: X = (pre ++ [c]) ++ X := by intro X; simp
    rw [e (eff rest s), e (eff rest (compressScan rest σ (b ++ c.blocked) s).2)]
    refine ih (pre ++ [c]) hσ hnd'.2 (fun p hp => hwf p (List.mem_cons_of_mem _ hp)) ?_ U hU
    apply hmp.extend
    intro τ' hτ' hd' V hV
    have hc := hwf (k, c) List.mem_cons_self
    exact compileComp_swaps_comm i n τ' hτ' c hc.1 hc.2 (fun ρ e => hns ρ e)
      (fun m hm hm' => hd' m hm' hm) V hV

theorem go_correct (i : K) (n : Nat) (l : List (Nat × Comp K)) (skip : List Nat) :
    (l.map (·.1)).Nodup → (∀ p ∈ l, p.2.Wf n ∧ p.2.GroupOk) → ∀ U : M K, n ≤ U.n →
      run i U (compressGo l skip) = run i U (eff l skip) := by
  fun_induction compressGo l skip with
  | case1 => intro _ _ U _; rfl
  | case2 k c rest skip hk ih =>
    intro hnd hwf U hU
    have hk' : k ∈ skip := by simpa using hk
    rw [eff_cons_skip k c rest skip hk']
    exact ih (List.nodup_cons.mp hnd).2 (fun p hp => hwf p (List.mem_cons_of_mem _ hp)) U hU
  | case3 k rest skip hk τ σ' skip' hscan ih =>
    intro hnd hwf U hU
    have hk' : k ∉ skip := by simpa using hk
    have hnd' := List.nodup_cons.mp hnd
    have hwf' : ∀ p ∈ rest, p.2.Wf n ∧ p.2.GroupOk := fun p hp => hwf p (List.mem_cons_of_mem _ hp)
    have hτ : PermOk n τ := SwapsOk.permOk (hwf (k, .prim (.swaps τ)) List.mem_cons_self).1
    have hsc := scan_correct i n rest τ [] skip [] hτ hnd'.2 hwf' (movesPast_nil i n) U hU
    rw [hscan] at hsc
    simp only [List.nil_append] at hsc
    rw [eff_cons_keep k _ rest skip hk', ← hsc, run_cons, run_cons]
    exact ih hnd'.2 hwf' _ (le_trans hU (compileComp_n_ge i U _))
  | case4 k rest skip hk c hns ih =>
    intro hnd hwf U hU
    have hk' : k ∉ skip := by simpa using hk
    rw [eff_cons_keep k _ rest skip hk', run_cons, run_cons]
    exact ih (List.nodup_cons.mp hnd).2 (fun p hp => hwf p (List.mem_cons_of_mem _ hp)) _
      (le_trans hU (compileComp_n_ge i U _))

/-- the original statement of `compress_compile` (false as stated: `SpecWf` does not confine a
group's components to the group's mode range, see `compress_compile_counterexample`) -/
def compress_compile_statement : Prop :=
  ∀ {K : Type} [CommRing K] [StarRing K] (i : K) (n : Nat) (spec : List (Comp K)),
    SpecWf n spec → compile i n (compressSwaps spec) = compile i n spec

/-- swap compression leaves `U_full` unchanged, provided the components of every group act inside
the group's declared mode range `[m1, m2]` (the range `Comp.blocked` uses) -/
theorem compress_compile_partial (i : K) (n : Nat) (spec : List (Comp K)) (h : SpecWf n spec)
    (hg : SpecGroupOk spec) :
    compile i n (compressSwaps spec) = compile i n spec := by
  have hlen : (List.range spec.length).length = spec.length := List.length_range
  have h1 : ((List.range spec.length).zip spec).map (·.1) = List.range spec.length :=
    List.map_fst_zip (le_of_eq hlen)
  have h2 : ((List.range spec.length).zip spec).map (·.2) = spec :=
    List.map_snd_zip (le_of_eq hlen.symm)
  have key := go_correct i n ((List.range spec.length).zip spec) []
    (by rw [h1]; exact List.nodup_range)
    (fun p hp => by
      have : p.2 ∈ spec := (List.of_mem_zip (a := p.1) (b := p.2) hp).2
      exact ⟨h _ this, hg _ this⟩)
    (M.one n) (le_refl n)
  rw [eff_no_skip, h2] at key
  exact key

/-! ### the original statement is false; non-vacuity of the corrected one -/

section Witness

private def sw01 : Dict := [(0, 1), (1, 0)]

/-- a group declared on modes 2…3 whose only component acts on mode 0: allowed by `SpecWf`,
invisible to `Comp.blocked` -/
def cexSpec : List (Comp Int) :=
  [.prim (.swaps sw01), .group [.ps 0 (-1)] 2 3 [] [], .prim (.swaps sw01)]

theorem cexSpec_wf : SpecWf 4 cexSpec := by
  intro c hc
  simp only [cexSpec, List.mem_cons, List.not_mem_nil, or_false] at hc
  rcases hc with rfl | rfl | rfl
  · exact (⟨by decide, by decide, by decide⟩ : SwapsOk 4 sw01)
  · intro p hp
    simp only [List.mem_singleton] at hp
    subst hp
    exact ⟨by decide, by decide⟩
  · exact (⟨by decide, by decide, by decide⟩ : SwapsOk 4 sw01)

theorem compress_compile_statement_false : ¬ compress_compile_statement := by
  intro h
  have e := congrArg (fun A => A.get 0 0) (h (0 : Int) 4 cexSpec cexSpec_wf)
  have h1 : (compile (0 : Int) 4 (compressSwaps cexSpec)).get 0 0 = -1 := by decide +kernel
  have h2 : (compile (0 : Int) 4 cexSpec).get 0 0 = 1 := by decide +kernel
  simp only [h1, h2] at e
  exact absurd e (by decide)

/-- non-vacuity: a spec with a non-adjacent beam splitter, a loss element, a well-placed group and
two swaps that get merged satisfies all hypotheses of the rewrite theorems -/
def okSpec : List (Comp Int) :=
  [.prim (.swaps sw01), .group [.ps 2 (-1), .bs 2 3 1 0 .h] 2 3 [] [], .prim (.loss 3 1 0),
   .prim (.bs 4 2 0 1 .rx), .prim (.swaps sw01)]

example : SpecWf 5 okSpec ∧ SpecGroupOk okSpec := by
  constructor
  · intro c hc
    simp only [okSpec, List.mem_cons, List.not_mem_nil, or_false] at hc
    rcases hc with rfl | rfl | rfl | rfl | rfl
    · exact (⟨by decide, by decide, by decide⟩ : SwapsOk 5 sw01)
    · intro p hp
      simp only [List.mem_cons, List.not_mem_nil, or_false] at hp
      rcases hp with rfl | rfl
      · exact ⟨by decide, by decide⟩
      · exact ⟨by decide, by decide, by decide, by decide, by decide, by decide⟩
    · exact ⟨by decide, by decide, by decide, by decide⟩
    · exact ⟨by decide, by decide, by decide, by decide, by decide, by decide⟩
    · exact (⟨by decide, by decide, by decide⟩ : SwapsOk 5 sw01)
  · intro c hc
    simp only [okSpec, List.mem_cons, List.not_mem_nil, or_false] at hc
    rcases hc with rfl | rfl | rfl | rfl | rfl
    · trivial
    · intro p hp
      simp only [List.mem_cons, List.not_mem_nil, or_false] at hp
      rcases hp with rfl | rfl <;> decide
    · trivial
    · trivial
    · trivial

/-- on this instance compression really merges swaps and conversion really rewrites -/
example : (compressSwaps okSpec).length = 4 ∧ (convertNonAdj okSpec).length = 7 := by
  constructor <;> decide +kernel

end Witness

end LW.Proofs.C09
