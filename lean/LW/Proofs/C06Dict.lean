/-
  LW.Proofs.C06Dict — insertion-ordered dictionaries `KD α Q` as weighted mixtures.

  `mix d F = Σ_{(k,w) ∈ d} w · F k`.  Accumulating equal keys (`addTo`, `ofPairs`), assigning fresh
  keys (`setTo`), dropping zero weights and taking products are all expressed through `mix`, for an
  arbitrary observable `F`; totals are the case `F = 1`.
-/
import Mathlib.Algebra.Order.Field.Basic
import Mathlib.Algebra.BigOperators.Group.List.Basic
import Mathlib.Algebra.BigOperators.Ring.List
import Mathlib.Data.List.Nodup
import Mathlib.Tactic.Ring
import LW.Model.Source

namespace LW.Proofs.C06

open LW.Src

/-- mixture of the observable `F` with the weights of `d` -/
def mix {α Q : Type} [Add Q] [Mul Q] [Zero Q] (d : List (α × Q)) (F : α → Q) : Q :=
  (d.map fun x => x.2 * F x.1).sum

section Basic
variable {α Q : Type} [Semiring Q]

@[simp] theorem mix_nil (F : α → Q) : mix ([] : List (α × Q)) F = 0 := rfl

@[simp] theorem mix_cons (x : α × Q) (d : List (α × Q)) (F : α → Q) :
    mix (x :: d) F = x.2 * F x.1 + mix d F := by
  simp [mix]

@[simp] theorem mix_append (d e : List (α × Q)) (F : α → Q) :
    mix (d ++ e) F = mix d F + mix e F := by
  simp [mix]

theorem mix_map {β : Type} (d : List (β × Q)) (f : β × Q → α × Q) (F : α → Q) :
    mix (d.map f) F = (d.map fun x => (f x).2 * F (f x).1).sum := by
  simp [mix, Function.comp_def]

theorem mix_map_key {β : Type} (d : List (β × Q)) (f : β → α) (F : α → Q) :
    mix (d.map fun x => (f x.1, x.2)) F = mix d (fun b => F (f b)) := by
  simp [mix, Function.comp_def]

theorem mix_flatMap {β : Type} (d : List β) (f : β → List (α × Q)) (F : α → Q) :
    mix (d.flatMap f) F = (d.map fun b => mix (f b) F).sum := by
  induction d with
  | nil => simp
  | cons b d ih => simp [List.flatMap_cons, ih]

theorem mix_congr (d : List (α × Q)) (F G : α → Q) (h : ∀ x ∈ d, F x.1 = G x.1) :
    mix d F = mix d G := by
  unfold mix
  congr 1
  apply List.map_congr_left
  intro x hx
  rw [h x hx]

theorem total_eq_mix (d : KD α Q) : KD.total d = mix d (fun _ => 1) := by
  have : ∀ (a : Q) (d : List (α × Q)), d.foldl (fun acc x => acc + x.2) a = a + mix d (fun _ => 1) := by
    intro a d
    induction d generalizing a with
    | nil => simp
    | cons x d ih => rw [List.foldl_cons, ih, mix_cons, mul_one, add_assoc]
  unfold KD.total
  rw [this, zero_add]

end Basic

section Comm
variable {α β Q : Type} [CommSemiring Q]

/-- the product of two weighted lists under a pairing `g` -/
theorem mix_product (d : List (α × Q)) (e : List (β × Q)) {γ : Type} (g : α → β → γ) (F : γ → Q) :
    mix (d.flatMap fun a => e.map fun b => (g a.1 b.1, a.2 * b.2)) F =
      mix d (fun a => mix e (fun b => F (g a b))) := by
  rw [mix_flatMap]
  unfold mix
  congr 1
  apply List.map_congr_left
  intro a _
  rw [List.map_map, ← List.sum_map_mul_left]
  congr 1
  apply List.map_congr_left
  intro b _
  simp only [Function.comp]
  ring

theorem mix_mul_right (d : List (α × Q)) (F : α → Q) (c : Q) :
    mix d (fun a => F a * c) = mix d F * c := by
  unfold mix
  rw [← List.sum_map_mul_right]
  congr 1
  apply List.map_congr_left
  intro a _
  ring

theorem mix_const (d : List (α × Q)) (c : Q) : mix d (fun _ => c) = mix d (fun _ => 1) * c := by
  rw [← mix_mul_right]; simp

theorem mix_add (d : List (α × Q)) (F G : α → Q) :
    mix d (fun a => F a + G a) = mix d F + mix d G := by
  induction d with
  | nil => simp
  | cons x d ih => rw [mix_cons, mix_cons, mix_cons, ih]; ring

theorem mix_scale (d : List (α × Q)) (c : Q) (F : α → Q) :
    mix (d.map fun x => (x.1, c * x.2)) F = c * mix d F := by
  unfold mix
  rw [List.map_map, ← List.sum_map_mul_left]
  congr 1
  apply List.map_congr_left
  intro a _
  simp only [Function.comp]
  ring

end Comm

/-! ### keyed updates -/

section Keyed
variable {α Q : Type} [BEq α] [LawfulBEq α]

theorem any_key_iff (d : KD α Q) (k : α) : d.any (·.1 == k) = true ↔ k ∈ d.map (·.1) := by
  simp only [List.any_eq_true, beq_iff_eq, List.mem_map]

theorem addTo_keys [Add Q] (d : KD α Q) (k : α) (p : Q) :
    (KD.addTo d k p).map (·.1) = if k ∈ d.map (·.1) then d.map (·.1) else d.map (·.1) ++ [k] := by
  unfold KD.addTo
  by_cases h : d.any (·.1 == k) = true
  · rw [if_pos h, if_pos ((any_key_iff d k).1 h), List.map_map]
    apply List.map_congr_left
    intro x _
    by_cases hx : x.1 = k
    · simp [hx]
    · simp [hx]
  · rw [if_neg h, if_neg (fun h' => h ((any_key_iff d k).2 h'))]
    simp

theorem setTo_keys (d : KD α Q) (k : α) (p : Q) :
    (KD.setTo d k p).map (·.1) = if k ∈ d.map (·.1) then d.map (·.1) else d.map (·.1) ++ [k] := by
  unfold KD.setTo
  by_cases h : d.any (·.1 == k) = true
  · rw [if_pos h, if_pos ((any_key_iff d k).1 h), List.map_map]
    apply List.map_congr_left
    intro x _
    by_cases hx : x.1 = k
    · simp [hx]
    · simp [hx]
  · rw [if_neg h, if_neg (fun h' => h ((any_key_iff d k).2 h'))]
    simp

theorem setTo_of_not_mem (d : KD α Q) (k : α) (p : Q) (h : k ∉ d.map (·.1)) :
    KD.setTo d k p = d ++ [(k, p)] := by
  unfold KD.setTo
  rw [if_neg (fun h' => h ((any_key_iff d k).1 h'))]

theorem addTo_keys_nodup [Add Q] (d : KD α Q) (k : α) (p : Q) (hd : (d.map (·.1)).Nodup) :
    ((KD.addTo d k p).map (·.1)).Nodup := by
  rw [addTo_keys]
  by_cases h : k ∈ d.map (·.1)
  · rw [if_pos h]; exact hd
  · rw [if_neg h]
    exact List.nodup_append.2 ⟨hd, List.nodup_singleton k, by
      intro a ha b hb
      rw [List.mem_singleton] at hb
      subst hb
      exact fun hab => h (hab ▸ ha)⟩

theorem mem_addTo_keys [Add Q] (d : KD α Q) (k : α) (p : Q) (a : α) :
    a ∈ (KD.addTo d k p).map (·.1) ↔ a ∈ d.map (·.1) ∨ a = k := by
  rw [addTo_keys]
  by_cases h : k ∈ d.map (·.1)
  · rw [if_pos h]
    constructor
    · exact Or.inl
    · rintro (h' | rfl)
      · exact h'
      · exact h
  · rw [if_neg h]; simp

theorem ofPairs_keys_nodup [Add Q] (l : List (α × Q)) : ((KD.ofPairs l).map (·.1)).Nodup := by
  unfold KD.ofPairs
  have : ∀ (l : List (α × Q)) (init : KD α Q), (init.map (·.1)).Nodup →
      ((l.foldl (fun d x => KD.addTo d x.1 x.2) init).map (·.1)).Nodup := by
    intro l
    induction l with
    | nil => intro init h; exact h
    | cons x l ih => intro init h; exact ih _ (addTo_keys_nodup init x.1 x.2 h)
  exact this l [] (by simp)

theorem mem_ofPairs_keys [Add Q] (l : List (α × Q)) (a : α) :
    a ∈ (KD.ofPairs l).map (·.1) ↔ a ∈ l.map (·.1) := by
  unfold KD.ofPairs
  have : ∀ (l : List (α × Q)) (init : KD α Q),
      a ∈ (l.foldl (fun d x => KD.addTo d x.1 x.2) init).map (·.1) ↔
        a ∈ init.map (·.1) ∨ a ∈ l.map (·.1) := by
    intro l
    induction l with
    | nil => intro init; simp
    | cons x l ih =>
      intro init
      rw [List.foldl_cons, ih, mem_addTo_keys, List.map_cons, List.mem_cons, or_assoc]
  rw [this l []]
  simp

end Keyed

section KeyedAlg
variable {α Q : Type} [BEq α] [LawfulBEq α] [Semiring Q]

theorem mix_map_upd (k : α) (p : Q) (F : α → Q) (d : KD α Q) (hd : (d.map (·.1)).Nodup) :
    mix (d.map fun x => if x.1 == k then (k, x.2 + p) else x) F =
      mix d F + if k ∈ d.map (·.1) then p * F k else 0 := by
  induction d with
  | nil => simp
  | cons x d ih =>
    simp only [List.map_cons, List.nodup_cons] at hd
    rw [List.map_cons, mix_cons, mix_cons, ih hd.2]
    by_cases hx : x.1 = k
    · have hk : k ∉ d.map (·.1) := hx ▸ hd.1
      simp only [hx, beq_self_eq_true, if_true, List.map_cons, List.mem_cons, true_or, if_neg hk,
        add_zero]
      rw [add_mul, add_right_comm]
    · have hkx : ¬ k = x.1 := fun h => hx h.symm
      simp only [beq_iff_eq, hx, if_false, List.map_cons, List.mem_cons, hkx, false_or]
      rw [add_assoc]

/-- `d[k] += p` adds `p · F k` to every mixture -/
theorem mix_addTo (d : KD α Q) (k : α) (p : Q) (F : α → Q) (hd : (d.map (·.1)).Nodup) :
    mix (KD.addTo d k p) F = mix d F + p * F k := by
  unfold KD.addTo
  by_cases h : d.any (·.1 == k) = true
  · rw [if_pos h, mix_map_upd k p F d hd, if_pos ((any_key_iff d k).1 h)]
  · rw [if_neg h]; simp

theorem mix_foldl_addTo (l : List (α × Q)) (init : KD α Q) (F : α → Q)
    (h0 : (init.map (·.1)).Nodup) :
    mix (l.foldl (fun d x => KD.addTo d x.1 x.2) init) F = mix init F + mix l F := by
  induction l generalizing init with
  | nil => simp
  | cons x l ih =>
    rw [List.foldl_cons, ih _ (addTo_keys_nodup init x.1 x.2 h0), mix_addTo _ _ _ _ h0, mix_cons,
      add_assoc]

/-- accumulating a list of weighted keys into a dictionary keeps every mixture -/
theorem mix_ofPairs (l : List (α × Q)) (F : α → Q) : mix (KD.ofPairs l) F = mix l F := by
  unfold KD.ofPairs
  rw [mix_foldl_addTo l [] F (by simp)]
  simp

end KeyedAlg

/-! ### dropping zero weights -/

section Ordered
variable {α Q : Type} [Field Q] [LinearOrder Q]

theorem mix_filter_pos (d : List (α × Q)) (F : α → Q) (h : ∀ x ∈ d, 0 ≤ x.2) :
    mix (d.filter fun x => decide (0 < x.2)) F = mix d F := by
  induction d with
  | nil => rfl
  | cons x d ih =>
    have hx := h x (by simp)
    have ih' := ih (fun y hy => h y (by simp [hy]))
    by_cases hp : 0 < x.2
    · rw [List.filter_cons_of_pos (by simpa using hp), mix_cons, mix_cons, ih']
    · rw [List.filter_cons_of_neg (by simpa using hp), mix_cons, ih']
      have : x.2 = 0 := le_antisymm (not_lt.1 hp) hx
      rw [this, zero_mul, zero_add]

theorem mem_filter_pos_nonneg (d : List (α × Q)) :
    ∀ x ∈ d.filter (fun x => decide (0 < x.2)), 0 < x.2 := by
  intro x hx
  have := (List.mem_filter.1 hx).2
  simpa using this

end Ordered

end LW.Proofs.C06
