/-
  LW.Proofs.C18Misc — dB ↔ decimal conversion, seeds, random permutation matrices.
-/
import Mathlib.Analysis.SpecialFunctions.Pow.Real
import Mathlib.Analysis.SpecialFunctions.Log.Base
import Mathlib.Data.List.Nodup
import LW.Proofs.UnitaryAlg
import LW.Model.StateVal

open scoped BigOperators

namespace LW.SV

/-! ### dB ↔ decimal -/

/-- the only facts about `10 ** x` and `log10` the conversion laws need -/
structure ExpLogLaws (E : ExpLog ℝ) : Prop where
  log_pow : ∀ x, E.log10 (E.pow10 x) = x
  pow_log : ∀ y, 0 < y → E.pow10 (E.log10 y) = y
  pow_pos : ∀ x, 0 < E.pow10 x
  pow_le_one : ∀ x, x ≤ 0 → E.pow10 x ≤ 1
  log_nonpos : ∀ y, 0 < y → y ≤ 1 → E.log10 y ≤ 0

/-- the real functions the floats approximate -/
noncomputable def realE : ExpLog ℝ := ⟨fun x => (10 : ℝ) ^ x, Real.logb 10⟩

theorem realE_laws : ExpLogLaws realE where
  log_pow x := Real.logb_rpow (by norm_num) (by norm_num)
  pow_log y hy := Real.rpow_logb (by norm_num) (by norm_num) hy
  pow_pos x := Real.rpow_pos_of_pos (by norm_num) x
  pow_le_one x hx := Real.rpow_le_one_of_one_le_of_nonpos (by norm_num) hx
  log_nonpos y hy h1 := Real.logb_nonpos (by norm_num) hy.le h1

theorem absK_eq_abs (x : ℝ) : absK x = |x| := by
  unfold absK
  split
  · rename_i h; rw [abs_of_neg h]
  · rename_i h; rw [abs_of_nonneg (not_lt.mp h)]

variable {E : ExpLog ℝ}

theorem dbToDec_eq (E : ExpLog ℝ) (x : ℝ) : dbToDec E x = 1 - E.pow10 (-|x| / 10) := by
  simp only [dbToDec, absK_eq_abs]

/-- a dB value converts to a loss in `[0, 1)` -/
theorem dbToDec_range (hE : ExpLogLaws E) (x : ℝ) : 0 ≤ dbToDec E x ∧ dbToDec E x < 1 := by
  rw [dbToDec_eq]
  have h1 := hE.pow_pos (-|x| / 10)
  have h2 := hE.pow_le_one (-|x| / 10) (by
    have := abs_nonneg x
    apply div_nonpos_of_nonpos_of_nonneg <;> linarith)
  constructor <;> linarith

/-- the sign of the dB value is ignored -/
theorem dbToDec_neg (E : ExpLog ℝ) (x : ℝ) : dbToDec E (-x) = dbToDec E x := by
  rw [dbToDec_eq, dbToDec_eq, abs_neg]

theorem decToDb_error (E : ExpLog ℝ) (l : ℝ) (h : l < 0 ∨ 1 ≤ l) : decToDb E l = .error .value := by
  simp [decToDb, h]

theorem decToDb_ok (E : ExpLog ℝ) (l : ℝ) (h0 : 0 ≤ l) (h1 : l < 1) :
    decToDb E l = .ok |10 * E.log10 (1 - l)| := by
  have : ¬ (l < 0 ∨ 1 ≤ l) := by
    rintro (h | h) <;> linarith
  simp [decToDb, this, absK_eq_abs]

/-- dB → decimal → dB returns the (positive) dB value -/
theorem decToDb_dbToDec (hE : ExpLogLaws E) (x : ℝ) : decToDb E (dbToDec E x) = .ok |x| := by
  obtain ⟨h0, h1⟩ := dbToDec_range hE x
  rw [decToDb_ok E _ h0 h1, dbToDec_eq]
  congr 1
  have : (1 : ℝ) - (1 - E.pow10 (-|x| / 10)) = E.pow10 (-|x| / 10) := by ring
  rw [this, hE.log_pow]
  have : (10 : ℝ) * (-|x| / 10) = -|x| := by ring
  rw [this, abs_neg, abs_abs]

/-- decimal → dB → decimal returns the loss, for every loss in `[0, 1)` -/
theorem dbToDec_decToDb (hE : ExpLogLaws E) (l : ℝ) (h0 : 0 ≤ l) (h1 : l < 1) :
    ∃ d, decToDb E l = .ok d ∧ 0 ≤ d ∧ dbToDec E d = l := by
  refine ⟨_, decToDb_ok E l h0 h1, abs_nonneg _, ?_⟩
  rw [dbToDec_eq, abs_abs]
  have hpos : 0 < 1 - l := by linarith
  have hle : 1 - l ≤ 1 := by linarith
  have hlog := hE.log_nonpos (1 - l) hpos hle
  have : |10 * E.log10 (1 - l)| = -(10 * E.log10 (1 - l)) := abs_of_nonpos (by linarith)
  rw [this]
  have : -(-(10 * E.log10 (1 - l))) / 10 = E.log10 (1 - l) := by ring
  rw [this, hE.pow_log _ hpos]
  ring

/-! ### seeds -/

/-- the accepted seeds are exactly: None, a (non-bool) int, a finite number with an integral value -/
theorem processSeed_ok_iff (s : Seed) :
    (∃ r, processSeed s = .ok r) ↔
      (s = .none ∨ (∃ i, s = .int i) ∨ (∃ q, s = .real q ∧ q.den = 1)) := by
  cases s with
  | none => simp [processSeed]
  | int i => simp [processSeed]
  | bool b => simp [processSeed]
  | real q =>
    by_cases h : q.den = 1 <;> simp [processSeed, h]
  | other => simp [processSeed]

/-- every refusal is a TypeError -/
theorem processSeed_error (s : Seed) (e : Err) (h : processSeed s = .error e) : e = .type := by
  cases s with
  | none => simp [processSeed] at h
  | int i => simp [processSeed] at h
  | bool b => simp [processSeed] at h; exact h.symm
  | real q =>
    by_cases hq : q.den = 1 <;> simp [processSeed, hq] at h
    exact h.symm
  | other => simp [processSeed] at h; exact h.symm

/-- a number with integral value `k` is the seed `k` -/
theorem processSeed_real_int (k : Int) : processSeed (.real (k : Rat)) = processSeed (.int k) := by
  simp [processSeed]

/-- reproducibility: the result is a function of (N, seed) and the generator's order for that seed -/
theorem randomPermutation_reproducible {K : Type} [Zero K] [One K] (N : Nat) (s₁ s₂ : Seed)
    (tape : Option Int → List Nat) (h : processSeed s₁ = processSeed s₂) :
    (randomPermutation N s₁ tape : Except Err (M K)) = randomPermutation N s₂ tape := by
  simp only [randomPermutation, h]

end LW.SV

/-! ### permutation matrices -/

namespace LW.SV

variable {K : Type} [CommRing K] [StarRing K]

set_option linter.unusedSectionVars false

theorem perm_range_facts {N : Nat} {σ : List Nat} (hσ : σ.Perm (List.range N)) :
    σ.length = N ∧ (∀ i, i < N → σ.getD i N < N) ∧
    (∀ i j, i < N → j < N → σ.getD i N = σ.getD j N → i = j) := by
  have hl : σ.length = N := by simpa using hσ.length_eq
  have hnd : σ.Nodup := hσ.nodup_iff.mpr List.nodup_range
  refine ⟨hl, ?_, ?_⟩
  · intro i hi
    have hi' : i < σ.length := by omega
    rw [List.getD_eq_getElem?_getD, List.getElem?_eq_getElem hi']
    have := hσ.mem_iff.mp (List.getElem_mem hi')
    simpa using this
  · intro i j hi hj h
    have hi' : i < σ.length := by omega
    have hj' : j < σ.length := by omega
    rw [List.getD_eq_getElem?_getD, List.getD_eq_getElem?_getD, List.getElem?_eq_getElem hi',
      List.getElem?_eq_getElem hj'] at h
    exact (List.Nodup.getElem_inj_iff hnd).mp (by simpa using h)

theorem permRows_get (N : Nat) (σ : List Nat) {i j : Nat} (hi : i < N) (hj : j < N) :
    (permRows N σ : M K).get i j = if σ.getD i N = j then 1 else 0 := by
  unfold permRows
  rw [M.get_ofFn _ hi hj]

/-- `random_permutation` returns a unitary matrix whenever the generator's order is a permutation
of `range(N)` -/
theorem permRows_unitary (N : Nat) (σ : List Nat) (hσ : σ.Perm (List.range N)) :
    IsUnitary (permRows N σ : M K) := by
  obtain ⟨_, hlt, hinj⟩ := perm_range_facts hσ
  rw [M.isUnitary_iff]
  show (permRows N σ : M K).UN N
  rw [M.UN_iff_rows]
  intro r c hr hc
  rw [Finset.sum_congr rfl (g := fun k => (if σ.getD r N = k then (1 : K) else 0) *
      star (if σ.getD c N = k then (1 : K) else 0)) (fun k hk => by
    rw [permRows_get N σ hr (Finset.mem_range.mp hk), permRows_get N σ hc (Finset.mem_range.mp hk)])]
  rw [sum_delta_left (hlt r hr)]
  by_cases h : r = c
  · subst h; simp
  · have : ¬ σ.getD c N = σ.getD r N := fun hh => h (hinj c r hc hr hh).symm
    rw [if_neg this, if_neg h, star_zero]

/-- every row has its single 1 in column `σ[i]`, every column is hit by exactly one row -/
theorem permRows_is_permutation (N : Nat) (σ : List Nat) (hσ : σ.Perm (List.range N)) :
    (∀ i j, i < N → j < N → (permRows N σ : M K).get i j = if σ.getD i N = j then 1 else 0) ∧
    (∀ i, i < N → σ.getD i N < N) ∧
    (∀ j, j < N → ∃ i, i < N ∧ σ.getD i N = j ∧ ∀ i', i' < N → σ.getD i' N = j → i' = i) := by
  obtain ⟨hl, hlt, hinj⟩ := perm_range_facts hσ
  refine ⟨fun i j hi hj => permRows_get N σ hi hj, hlt, ?_⟩
  intro j hj
  have hmem : j ∈ σ := hσ.mem_iff.mpr (by simpa using hj)
  obtain ⟨i, hi, he⟩ := List.getElem_of_mem hmem
  have hiN : i < N := by omega
  have hget : σ.getD i N = j := by
    rw [List.getD_eq_getElem?_getD, List.getElem?_eq_getElem hi]; simpa using he
  exact ⟨i, hiN, hget, fun i' hi' h' => hinj i' i hi' hiN (h'.trans hget.symm)⟩

end LW.SV
