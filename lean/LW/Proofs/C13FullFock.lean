/-
  LW.Proofs.C13FullFock — list lemmas behind the SWAP statement for all mode pairs: the mode-index
  list `idxs` of an occupation list, `occ`, the two-photon Fock states, `fullState` without heralds,
  and the 2×2 permanent of the gate model.
-/
import LW.Proofs.C13
import LW.Proofs.MatAlg

set_option linter.unusedSimpArgs false
set_option linter.unusedVariables false

namespace LW.Gates

open LW.QF

/-! ### `idxs` and `occ` -/

theorem idxsFrom_append (m : Nat) (s t : List Nat) :
    idxsFrom m (s ++ t) = idxsFrom m s ++ idxsFrom (m + s.length) t := by
  induction s generalizing m with
  | nil => simp [idxsFrom]
  | cons k s ih =>
    simp only [List.cons_append, idxsFrom, ih, List.append_assoc, List.length_cons]
    congr 3
    omega

theorem idxs_snoc (s : List Nat) (k : Nat) : idxs (s ++ [k]) = idxs s ++ List.replicate k s.length := by
  unfold idxs
  rw [idxsFrom_append]
  simp [idxsFrom]

theorem length_occ (n : Nat) (ms : List Nat) : (occ n ms).length = n := by simp [occ]

theorem occ_succ (n : Nat) (ms : List Nat) : occ (n + 1) ms = occ n ms ++ [ms.count n] := by
  simp [occ, List.range_succ]

theorem idxs_occ_succ (n : Nat) (ms : List Nat) :
    idxs (occ (n + 1) ms) = idxs (occ n ms) ++ List.replicate (ms.count n) n := by
  rw [occ_succ, idxs_snoc, length_occ]

theorem idxs_occ_pair_aux (p q : Nat) (h : p ≤ q) (n : Nat) :
    idxs (occ n [p, q]) = (if p < n then [p] else []) ++ (if q < n then [q] else []) := by
  induction n with
  | zero => simp [occ, idxs, idxsFrom]
  | succ n ih =>
    rw [idxs_occ_succ, ih]
    by_cases h1 : p < n
    · by_cases h2 : q < n
      · have e1 : p ≠ n := by omega
        have e2 : q ≠ n := by omega
        have h3 : p < n + 1 := by omega
        have h4 : q < n + 1 := by omega
        simp [h1, h2, h3, h4, List.count_cons, e1, e2]
      · by_cases h5 : q = n
        · have e1 : p ≠ n := by omega
          have h3 : p < n + 1 := by omega
          have h4 : q < n + 1 := by omega
          simp [h1, h2, h3, h4, List.count_cons, e1, h5]
        · have e1 : p ≠ n := by omega
          have h3 : p < n + 1 := by omega
          have h4 : ¬ q < n + 1 := by omega
          simp [h1, h2, h3, h4, List.count_cons, e1, h5]
    · have h2 : ¬ q < n := by omega
      by_cases h5 : p = n
      · by_cases h6 : q = n
        · have h3 : p < n + 1 := by omega
          have h4 : q < n + 1 := by omega
          simp [h1, h2, h3, h4, List.count_cons, h5, h6]
        · have h3 : p < n + 1 := by omega
          have h4 : ¬ q < n + 1 := by omega
          simp [h1, h2, h3, h4, List.count_cons, h5, h6]
      · have h6 : q ≠ n := by omega
        have h3 : ¬ p < n + 1 := by omega
        have h4 : ¬ q < n + 1 := by omega
        simp [h1, h2, h3, h4, List.count_cons, h5, h6]

theorem idxs_occ_pair {n p q : Nat} (h : p ≤ q) (hq : q < n) : idxs (occ n [p, q]) = [p, q] := by
  rw [idxs_occ_pair_aux p q h n]
  have hp : p < n := by omega
  simp [hp, hq]

theorem occ_comm (n p q : Nat) : occ n [p, q] = occ n [q, p] := by
  unfold occ
  apply List.map_congr_left
  intro m _
  exact List.Perm.count_eq (List.Perm.swap _ _ _) m

theorem idxs_occ_pair' {n p q : Nat} (hp : p < n) (hq : q < n) :
    idxs (occ n [p, q]) = [p, q] ∨ idxs (occ n [p, q]) = [q, p] := by
  by_cases h : p ≤ q
  · exact .inl (idxs_occ_pair h hq)
  · right
    rw [occ_comm]
    exact idxs_occ_pair (by omega) hp

theorem mem_idxsFrom {m : Nat} {s : List Nat} {x : Nat} (h : x ∈ idxsFrom m s) :
    m ≤ x ∧ x < m + s.length := by
  induction s generalizing m with
  | nil => simp [idxsFrom] at h
  | cons k s ih =>
    simp only [idxsFrom, List.mem_append, List.mem_replicate] at h
    rcases h with h | h
    · simp only [List.length_cons]; omega
    · have := ih h
      simp only [List.length_cons]; omega

theorem mem_idxs_lt {s : List Nat} {x : Nat} (h : x ∈ idxs s) : x < s.length := by
  have := mem_idxsFrom h
  omega

theorem length_idxsFrom (m : Nat) (s : List Nat) : (idxsFrom m s).length = s.sum := by
  induction s generalizing m with
  | nil => simp [idxsFrom]
  | cons k s ih => simp [idxsFrom, ih]

theorem length_idxs (s : List Nat) : (idxs s).length = s.sum := length_idxsFrom 0 s

/-- an occupation list is recovered from its mode-index list -/
theorem occ_idxs (s : List Nat) : occ s.length (idxs s) = s := by
  induction s using List.reverseRecOn with
  | nil => simp [occ]
  | append_singleton s k ih =>
    rw [List.length_append, List.length_singleton, occ_succ, idxs_snoc]
    congr 1
    · conv_rhs => rw [← ih]
      unfold occ
      apply List.map_congr_left
      intro m hm
      have hm' : m < s.length := by simpa using hm
      rw [List.count_append, List.count_replicate]
      have : ¬ (s.length == m) = true := by simp; omega
      simp [this]
    · rw [List.count_append, List.count_replicate]
      have : List.count s.length (idxs s) = 0 := by
        rw [List.count_eq_zero]
        intro hmem
        have := mem_idxs_lt hmem
        omega
      simp [this]

/-- equality of two-photon occupation lists -/
theorem occ_pair_eq_iff {n u v s t : Nat} (hu : u < n) (hv : v < n) (hs : s < n) (ht : t < n) :
    occ n [u, v] = occ n [s, t] ↔ (u = s ∧ v = t) ∨ (u = t ∧ v = s) := by
  constructor
  · intro h
    have hc : ∀ m, m < n → List.count m [u, v] = List.count m [s, t] := by
      intro m hm
      have := congrArg (fun l => l.getD m 0) h
      simpa [occ, List.getD, hm] using this
    have mu : u ∈ [s, t] := by rw [← List.count_pos_iff, ← hc u hu, List.count_pos_iff]; simp
    have mv : v ∈ [s, t] := by rw [← List.count_pos_iff, ← hc v hv, List.count_pos_iff]; simp
    have ms : s ∈ [u, v] := by rw [← List.count_pos_iff, hc s hs, List.count_pos_iff]; simp
    have mt : t ∈ [u, v] := by rw [← List.count_pos_iff, hc t ht, List.count_pos_iff]; simp
    simp only [List.mem_cons, List.not_mem_nil, or_false] at mu mv ms mt
    omega
  · rintro (⟨rfl, rfl⟩ | ⟨rfl, rfl⟩)
    · rfl
    · exact occ_comm _ _ _

/-! ### Fock states and `fullState` -/

theorem mem_fockStates {m p : Nat} {o : List Nat} (h : o ∈ fockStates m p) :
    o.length = m ∧ o.sum = p := by
  induction m generalizing p o with
  | zero =>
    cases p with
    | zero => simp [fockStates] at h; simp [h]
    | succ p => simp [fockStates] at h
  | succ m ih =>
    simp only [fockStates, List.mem_flatMap, List.mem_reverse, List.mem_range, List.mem_map] at h
    obtain ⟨k, hk, t, ht, rfl⟩ := h
    have := ih ht
    simp only [List.length_cons, List.sum_cons]
    omega

theorem fullStateGo_nil (k m : Nat) (s : List Nat) (h : s.length = k) : fullStateGo [] k m s = s := by
  induction k generalizing m s with
  | zero =>
    have : s = [] := List.eq_nil_of_length_eq_zero h
    simp [fullStateGo, this]
  | succ k ih =>
    cases s with
    | nil => simp at h
    | cons x t =>
      have ht : t.length = k := by simpa using h
      simp [fullStateGo, Dict.get?, ih _ t ht]

theorem fullState_nil (n : Nat) (s : List Nat) (h : s.length = n) : fullState [] n s = s :=
  fullStateGo_nil n 0 s h

/-! ### the 2×2 permanent -/

theorem permN_two {R : Type} [CommRing R] (A : Nat → Nat → R) :
    permN 2 A = A 0 0 * A 1 1 + A 0 1 * A 1 0 := by
  simp [permN, M.sumN, skip]

end LW.Gates
