/-
  LW.Proofs.UnitaryAlg — unitarity of model matrices at a given dimension, entrywise
  characterisations, closure under product and padding.
-/
import Mathlib.Algebra.BigOperators.Intervals
import LW.Proofs.MatAlg

open scoped BigOperators

namespace LW

variable {K : Type} [CommRing K] [StarRing K]

set_option linter.unusedSectionVars false

namespace M

/-- unitary when read at dimension `N` -/
def UN (A : M K) (N : Nat) : Prop := A.toMatN N ∈ Matrix.unitaryGroup (Fin N) K

theorem isUnitary_iff (A : M K) : IsUnitary A ↔ A.UN A.n := Iff.rfl

theorem UN_iff_rows (A : M K) (N : Nat) : A.UN N ↔ ∀ r c, r < N → c < N →
    ∑ k ∈ Finset.range N, A.get r k * star (A.get c k) = if r = c then 1 else 0 := by
  unfold UN
  rw [Matrix.mem_unitaryGroup_iff, ← Matrix.ext_iff]
  simp only [Matrix.mul_apply, Matrix.star_apply, Matrix.one_apply, toMatN, Finset.sum_range,
    Fin.forall_iff, Fin.mk.injEq]
  exact ⟨fun h r c hr hc => h r hr c hc, fun h r hr c hc => h r c hr hc⟩

theorem UN_iff_cols (A : M K) (N : Nat) : A.UN N ↔ ∀ r c, r < N → c < N →
    ∑ k ∈ Finset.range N, star (A.get k r) * A.get k c = if r = c then 1 else 0 := by
  unfold UN
  rw [Matrix.mem_unitaryGroup_iff', ← Matrix.ext_iff]
  simp only [Matrix.mul_apply, Matrix.star_apply, Matrix.one_apply, toMatN, Finset.sum_range,
    Fin.forall_iff, Fin.mk.injEq]
  exact ⟨fun h r c hr hc => h r hr c hc, fun h r hr c hc => h r c hr hc⟩

theorem toMatN_mul (A B : M K) {N : Nat} (hA : A.n = N) :
    (A.mul B).toMatN N = A.toMatN N * B.toMatN N := by
  subst hA
  ext r c
  simp only [toMatN, Matrix.mul_apply]
  rw [get_mul _ _ r.2 c.2, Finset.sum_range]

theorem UN_mul {A B : M K} {N : Nat} (hA : A.n = N) (h1 : A.UN N) (h2 : B.UN N) :
    (A.mul B).UN N := by
  unfold UN at *
  rw [toMatN_mul A B hA]
  exact mul_mem h1 h2

theorem UN_one (N : Nat) : (M.one N : M K).UN N := by
  rw [UN_iff_rows]
  intro r c hr hc
  rw [Finset.sum_congr rfl (fun k hk => by
    rw [get_one hr (Finset.mem_range.mp hk), get_one hc (Finset.mem_range.mp hk)])]
  by_cases h : r = c
  · simp [h, hc]
  · simp [h, hr, Ne.symm h]

end M

/-! ### delta sums -/

theorem sum_delta_left {N r : Nat} (hr : r < N) (g : Nat → K) :
    ∑ k ∈ Finset.range N, (if r = k then (1 : K) else 0) * g k = g r := by
  simp [hr]

theorem sum_mul_star_delta {N c : Nat} (hc : c < N) (f : Nat → K) :
    ∑ k ∈ Finset.range N, f k * star (if c = k then (1 : K) else 0) = f c := by
  rw [Finset.sum_congr rfl (g := fun k => if c = k then f k else 0) (fun k _ => by
    by_cases h : c = k <;> simp [h])]
  simp [hc]

theorem sum_star_delta_mul {N r : Nat} (hr : r < N) (g : Nat → K) :
    ∑ k ∈ Finset.range N, star (if r = k then (1 : K) else 0) * g k = g r := by
  rw [Finset.sum_congr rfl (g := fun k => if r = k then g k else 0) (fun k _ => by
    by_cases h : r = k <;> simp [h])]
  simp [hr]

/-- a sum supported on two distinct points -/
theorem sum_two {N m1 m2 : Nat} (h1 : m1 < N) (h2 : m2 < N) (hne : m1 ≠ m2) (f : Nat → K)
    (hf : ∀ k, k < N → k ≠ m1 → k ≠ m2 → f k = 0) :
    ∑ k ∈ Finset.range N, f k = f m1 + f m2 := by
  rw [← Finset.sum_pair hne]
  symm
  apply Finset.sum_subset
  · intro k hk
    simp only [Finset.mem_insert, Finset.mem_singleton] at hk
    rw [Finset.mem_range]; omega
  · intro k hkN hk
    simp only [Finset.mem_insert, Finset.mem_singleton, not_or] at hk
    exact hf k (Finset.mem_range.mp hkN) hk.1 hk.2

/-- a sum supported on a block of consecutive indices -/
theorem sum_block {N m w : Nat} (h : m + w ≤ N) (g : Nat → K) :
    ∑ k ∈ Finset.range N, (if m ≤ k ∧ k < m + w then g (k - m) else 0) =
      ∑ j ∈ Finset.range w, g j := by
  rw [← Finset.sum_filter]
  have : (Finset.range N).filter (fun k => m ≤ k ∧ k < m + w) = Finset.Ico m (m + w) := by
    ext k; simp only [Finset.mem_filter, Finset.mem_range, Finset.mem_Ico]; omega
  rw [this, Finset.sum_Ico_eq_sum_range]
  simp

namespace M

theorem UN_pad {A : M K} {N : Nat} (hA : A.n = N) (h : A.UN N) : (A.pad 1).UN (N + 1) := by
  subst hA
  rw [UN_iff_rows] at h ⊢
  intro r c hr hc
  rw [Finset.sum_range_succ]
  rw [Finset.sum_congr rfl (g := fun k =>
      (if r < A.n then A.get r k else 0) * star (if c < A.n then A.get c k else 0))
    (fun k hk => by
      have hk := Finset.mem_range.mp hk
      rw [get_pad _ hr (by omega), get_pad _ hc (by omega)]
      by_cases h1 : r < A.n <;> by_cases h2 : c < A.n
      · simp [h1, h2, hk]
      · have e2 : c ≠ k := by omega
        simp [h1, h2, hk, e2]
      · have e1 : r ≠ k := by omega
        simp [h1, h2, hk, e1]
      · have e1 : r ≠ k := by omega
        simp [h1, h2, e1])]
  rw [get_pad _ hr (by omega), get_pad _ hc (by omega)]
  by_cases h1 : r < A.n <;> by_cases h2 : c < A.n
  · have e1 : r ≠ A.n := by omega
    have e2 : c ≠ A.n := by omega
    simp [h1, h2, e1, e2, h r c h1 h2]
  · have e2 : c = A.n := by omega
    have e1 : r ≠ A.n := by omega
    simp [h1, e1, e2]
  · have e1 : r = A.n := by omega
    have e2 : c ≠ A.n := by omega
    simp [h2, e1, e2]
    omega
  · have e1 : r = A.n := by omega
    have e2 : c = A.n := by omega
    simp [e1, e2]

end M

end LW
