/-
  LW.Proofs.C10Heap — naturality lifted to the pool of live circuits: one call, and every history
  of calls (construction, copies, `unpack_groups`, and the two rewrites), commutes with mapping the
  scalars.
-/
import LW.Proofs.C10Rewrite

namespace LW

variable {K K' : Type}

/-! ### the pool of live circuits -/

def Heap.mapK (f : K → K') (h : Heap K) : Heap K' := h.map fun x => (x.1, x.2.map f)

theorem Heap.get?_mapK (f : K → K') (h : Heap K) (k : String) :
    Heap.get? (Heap.mapK f h) k = (Heap.get? h k).map (Circ.map f) := by
  unfold Heap.get? Heap.mapK
  induction h with
  | nil => rfl
  | cons x xs ih =>
    simp only [List.map_cons, List.find?_cons]
    cases hx : (x.1 == k)
    · exact ih
    · rfl

theorem Heap.set_mapK (f : K → K') (h : Heap K) (k : String) (c : Circ K) :
    Heap.mapK f (Heap.set h k c) = Heap.set (Heap.mapK f h) k (c.map f) := by
  unfold Heap.set Heap.mapK
  have hany : (List.map (fun x : String × Circ K => (x.1, x.2.map f)) h).any (·.1 == k) = h.any (·.1 == k) := by
    rw [List.any_map]; rfl
  rw [hany]
  split
  · simp only [List.map_map]
    apply List.map_congr_left
    intro x _
    simp only [Function.comp]
    split <;> rfl
  · simp

theorem CircOp.target_map (f : K → K') (op : CircOp K) : (op.map f).target = op.target := by
  cases op <;> rfl

section
variable [Zero K] [One K] [Zero K'] [One K'] {f : K → K'}

theorem CircOp.eval_map (hf : Fix01 f) (h : Heap K) (op : CircOp K) :
    (op.map f).eval (Heap.mapK f h) = (op.eval h).map (Except.map (Circ.map f)) := by
  cases op with
  | new id n => rfl
  | unitary id u => rfl
  | bs id m1 m2 cs cv l rv lv =>
    simp only [CircOp.map, CircOp.eval, Heap.get?_mapK, Option.map_map]
    congr 1; funext c; exact Circ.map_bs f c m1 m2 cs cv l rv lv
  | ps id m p l lv =>
    simp only [CircOp.map, CircOp.eval, Heap.get?_mapK, Option.map_map]
    congr 1; funext c; exact Circ.map_ps f c m p l lv
  | loss id m ab lv =>
    simp only [CircOp.map, CircOp.eval, Heap.get?_mapK, Option.map_map]
    congr 1; funext c; exact Circ.map_loss f c m ab lv
  | barrier id ms =>
    simp only [CircOp.map, CircOp.eval, Heap.get?_mapK, Option.map_map]
    congr 1; funext c; exact Circ.map_barrier f c ms
  | swaps id sw =>
    simp only [CircOp.map, CircOp.eval, Heap.get?_mapK, Option.map_map]
    congr 1; funext c; exact Circ.map_modeSwaps f c sw
  | herald id n i o =>
    simp only [CircOp.map, CircOp.eval, Heap.get?_mapK, Option.map_map]
    congr 1; funext c; exact Circ.map_herald f c n i o
  | add id sub m g =>
    simp only [CircOp.map, CircOp.eval, Heap.get?_mapK]
    cases Heap.get? h id with
    | none => rfl
    | some c =>
      cases Heap.get? h sub with
      | none => rfl
      | some s =>
        simp only [Option.map_some, Option.bind_eq_bind, Option.bind_some, Option.pure_def]
        rw [Circ.map_add hf]
  | plus dst a b =>
    simp only [CircOp.map, CircOp.eval, Heap.get?_mapK]
    cases Heap.get? h a with
    | none => rfl
    | some x =>
      cases Heap.get? h b with
      | none => rfl
      | some y =>
        simp only [Option.map_some, Option.bind_eq_bind, Option.bind_some, Option.pure_def]
        rw [Circ.map_plus]
  | copy dst src =>
    simp only [CircOp.map, CircOp.eval, Heap.get?_mapK, Option.map_map]
    rfl
  | unpack id =>
    simp only [CircOp.map, CircOp.eval, Heap.get?_mapK, Option.map_map]
    congr 1; funext c
    simp only [Function.comp, Circ.map_unpackGroups, Except.map]
  | compress id =>
    simp only [CircOp.map, CircOp.eval, Heap.get?_mapK, Option.map_map]
    congr 1; funext c
    simp only [Function.comp, Circ.map_compress, Except.map]
  | nonadj id =>
    simp only [CircOp.map, CircOp.eval, Heap.get?_mapK, Option.map_map]
    congr 1; funext c
    simp only [Function.comp, Circ.map_removeNonAdj, Except.map]

/-- one call on the pool commutes with mapping the scalars -/
theorem heapStep_mapK (hf : Fix01 f) (h : Heap K) (op : CircOp K) :
    heapStep (Heap.mapK f h) (op.map f) = (heapStep h op).map fun p => (Heap.mapK f p.1, p.2) := by
  unfold heapStep
  rw [CircOp.eval_map hf h op, CircOp.target_map]
  cases op.eval h with
  | none => rfl
  | some r =>
    cases r with
    | error e => rfl
    | ok c => simp only [Option.map_some, Except.map, Heap.set_mapK]

/-- … and so does every history of calls -/
theorem heapRun_mapK (hf : Fix01 f) (ops : List (CircOp K)) (h : Heap K) :
    heapRun (Heap.mapK f h) (ops.map (CircOp.map f)) =
      (heapRun h ops).map fun p => (Heap.mapK f p.1, p.2) := by
  induction ops generalizing h with
  | nil => rfl
  | cons op ops ih =>
    simp only [List.map_cons, heapRun]
    rw [heapStep_mapK hf h op]
    cases heapStep h op with
    | none => rfl
    | some p =>
      obtain ⟨h1, r⟩ := p
      simp only [Option.map_some, Option.bind_eq_bind, Option.bind_some]
      rw [ih h1]
      cases heapRun h1 ops with
      | none => rfl
      | some q => rfl

end

end LW
