/-
  LW.Proofs.C16MLEList2 — list-level MLE data-model consistency, part 2: traces, the `nij` dict,
  `_n_vec_from_data`, and the proportionality to `_p_vec(choi_from_unitary(V))`.
-/
import LW.Proofs.C16MLEList

open scoped BigOperators

namespace LW.Tomo

variable {K : Type} [Field K] [StarRing K] [DecidableEq K]

set_option linter.unusedSectionVars false

/-! ### traces -/

theorem entryRev_trace_one (fs : List (Nat → Nat → K)) (h : ∀ f ∈ fs, f 0 0 + f 1 1 = 1) :
    ∑ a ∈ Finset.range (2 ^ fs.length), entryRev fs a a = 1 := by
  induction fs with
  | nil => simp [entryRev]
  | cons f r ih =>
    rw [List.length_cons, pow_succ, sum_range_mul_two]
    simp only [entryRev, two_mul_div, two_mul_mod, two_mul_add_one_div, two_mul_add_one_mod]
    rw [Finset.sum_congr rfl (fun q _ => (mul_add _ _ _).symm), ← Finset.sum_mul,
      ih (fun g hg => h g (List.mem_cons_of_mem _ hg)), one_mul]
    exact h f List.mem_cons_self

/-- the input density matrices have unit trace -/
theorem trN_rhoKron (h2 : (1 + 1 : K) ≠ 0) (i : K) (ins : Ins) (n : Nat) (hins : ins.length = n) :
    trN n (rhoKron i ins) = 1 := by
  subst hins
  unfold trN rhoKron
  rw [Finset.sum_congr rfl (fun a ha => kronList_map_get (rhoM i) (rhoM_n i) ins
    (Finset.mem_range.mp ha) (Finset.mem_range.mp ha))]
  have hh : (half : K) + half = 1 := by
    have := half_two (K := K) h2
    rw [mul_add, mul_one] at this
    exact this
  have := entryRev_trace_one (ins.reverse.map fun t => (rhoM i t).get) (by
    intro f hf
    obtain ⟨t, _, rfl⟩ := List.mem_map.mp hf
    cases t <;> simp [rhoM, hh])
  simpa using this

/-- a unitary channel preserves the trace -/
theorem trN_channel (n : Nat) (V rho : M K) (hV : V.n = 2 ^ n)
    (hU : V.dagger.mul V = M.one (2 ^ n)) : trN n (channel V rho) = trN n rho := by
  have hδ : ∀ b a, b < 2 ^ n → a < 2 ^ n →
      ∑ c ∈ Finset.range (2 ^ n), star (V.get c b) * V.get c a = if b = a then 1 else 0 := by
    intro b a hb ha
    have h1 : (V.dagger.mul V).get b a = (M.one (2 ^ n) : M K).get b a := by rw [hU]
    have hdn : V.dagger.n = 2 ^ n := hV
    rw [M.get_mul _ _ (by rw [hdn]; exact hb) (by rw [hdn]; exact ha), M.get_one hb ha, hdn] at h1
    rw [← h1]
    refine Finset.sum_congr rfl fun c hc => ?_
    rw [get_dagger V (by rw [hV]; exact hb) (by rw [hV]; exact Finset.mem_range.mp hc)]
  unfold trN
  rw [Finset.sum_congr rfl (fun c hc => get_channel V rho (by rw [hV]; exact Finset.mem_range.mp hc)
    (by rw [hV]; exact Finset.mem_range.mp hc)), hV]
  have e1 : ∀ c ∈ Finset.range (2 ^ n), ∀ b ∈ Finset.range (2 ^ n),
      (∑ a ∈ Finset.range (2 ^ n), V.get c a * rho.get a b) * star (V.get c b)
        = ∑ a ∈ Finset.range (2 ^ n), rho.get a b * (star (V.get c b) * V.get c a) := by
    intro c _ b _
    rw [Finset.sum_mul]
    refine Finset.sum_congr rfl fun a _ => ?_
    ring
  rw [Finset.sum_congr rfl (fun c hc => Finset.sum_congr rfl (e1 c hc)), Finset.sum_comm]
  refine Finset.sum_congr rfl fun b hb => ?_
  rw [Finset.sum_comm]
  rw [Finset.sum_congr rfl (fun a ha => by
    rw [← Finset.mul_sum, hδ b a (Finset.mem_range.mp hb) (Finset.mem_range.mp ha)])]
  simp only [mul_ite, mul_one, mul_zero, Finset.sum_ite_eq, hb, if_true]

/-! ### the `nij` dict on noiseless data -/

/-- `MLEProcessTomography.process()` up to the optimiser, on noiseless data of the unitary `V`:
the dict holds `tr(P · V ρ_in V†)` for every input and non-trivial measurement -/
theorem mleData_born {i h : K} (hc : Consts i h) (h2 : (1 + 1 : K) ≠ 0) (n : Nat) (hn : 0 < n)
    (V : M K) (hV : V.n = 2 ^ n) (hU : V.dagger.mul V = M.one (2 ^ n)) (order : List Meas)
    (hord : order.Perm (requiredSet n)) :
    mleData n order ((combineAll tomoInputsMLE n).flatMap fun ins =>
        order.map fun s => bornTable i h n (channel V (rhoKron i ins)) s)
      = .ok ((combineAll tomoInputsMLE n).flatMap fun ins =>
          (tomoMeasurements n true).map fun meas =>
            ((ins, meas), trPauli i (channel V (rhoKron i ins)) meas)) := by
  unfold mleData
  rw [runExperiments_tables n _ order (fun ins s => bornTable i h n (channel V (rhoKron i ins)) s)
    (cover_of_perm hord)]
  simp only [bind, Except.bind]
  rw [List.filter_flatMap]
  simp only [List.filter_map]
  have hfil : ∀ ins : Ins,
      ((fun e : (Ins × Meas) × Res K => e.1.2 != List.replicate n Pauli.I) ∘
        fun meas : Meas => ((ins, meas), bornTable i h n (channel V (rhoKron i ins)) (meas.map toZ)))
      = fun m : Meas => m != List.replicate n Pauli.I := fun _ => rfl
  simp only [hfil, ← tomoMeasurements_true]
  unfold expectationValues
  rw [mapM_ok _ (fun e => (e.1, trPauli i (channel V (rhoKron i e.1.1)) e.1.2))]
  · rw [List.map_flatMap]
    simp only [List.map_map]
    rfl
  · intro e he
    obtain ⟨ins, hins, he⟩ := List.mem_flatMap.mp he
    obtain ⟨meas, hmeas, rfl⟩ := List.mem_map.mp he
    have hl : meas.length = n := tomoMeasurements_length hn meas (mem_tomoMeasurements_true hmeas)
    have hil : ins.length = n := mem_inputs_length hn hins
    have htr : trN n (channel V (rhoKron i ins)) = 1 := by
      rw [trN_channel n V _ hV hU, trN_rhoKron h2 i ins n hil]
    have hexp := expectation_born hc meas (channel V (rhoKron i ins))
      (bornTable i h n (channel V (rhoKron i ins)) (meas.map toZ)) (by rw [hl])
      (by rw [hl, htr]; exact one_ne_zero)
    simp only [hexp, hl, htr, inv_one, mul_one]
    rfl

/-! ### `_n_vec_from_data` -/

theorem nVec_table (n : Nat) (v : Ins → Meas → K) :
    nVec n ((combineAll tomoInputsMLE n).flatMap fun ins =>
        (tomoMeasurements n true).map fun meas => ((ins, meas), v ins meas))
      = .ok ((combineAll tomoInputsMLE n).flatMap fun ins =>
          (tomoMeasurements n true).flatMap fun meas =>
            [(1 + v ins meas) * half *
                ((((combineAll tomoInputsMLE n).length * (tomoMeasurements n true).length : Nat) : K))⁻¹,
             (1 + -v ins meas) * half *
                ((((combineAll tomoInputsMLE n).length * (tomoMeasurements n true).length : Nat) : K))⁻¹]) := by
  set inputs := combineAll tomoInputsMLE n with hinputs
  set TMt := tomoMeasurements n true with hTMt
  set keys : List (Ins × Meas) := inputs.flatMap fun ins => TMt.map fun meas => (ins, meas) with hkeys
  have hdata : (inputs.flatMap fun ins => TMt.map fun meas => ((ins, meas), v ins meas))
      = keys.map fun k => (k, v k.1 k.2) := by
    rw [hkeys, List.map_flatMap]
    simp only [List.map_map]
    rfl
  have hlen : (inputs.flatMap fun ins => TMt.map fun meas => ((ins, meas), v ins meas)).length
      = inputs.length * TMt.length :=
    length_flatMap_const _ _ _ (fun _ _ => by simp)
  unfold nVec
  simp only [lsum_ones, hlen]
  rw [← hinputs, ← hTMt]
  rw [mapM_ok _ (fun ins => TMt.map fun meas =>
      [(1 + v ins meas) * half * (((inputs.length * TMt.length : Nat) : K))⁻¹,
       (1 + -v ins meas) * half * (((inputs.length * TMt.length : Nat) : K))⁻¹])]
  · simp only [bind, Except.bind, pure, Except.pure]
    rw [flatten_flatten_map]
  · intro ins hins
    apply mapM_ok
    intro meas hmeas
    have hk : (ins, meas) ∈ keys := by
      rw [hkeys]
      exact List.mem_flatMap.mpr ⟨ins, hins, List.mem_map.mpr ⟨meas, hmeas, rfl⟩⟩
    rw [hdata, find_key_map (fun k => v k.1 k.2) keys hk]
    rfl

/-! ### the consistency statement -/

/-- list-level MLE consistency, for every field in which the number of data entries
`6ⁿ·(4ⁿ - 1)` (= `len(data)`) is invertible -/
theorem mle_model_consistent_nz {i h : K} (hc : Consts i h) (h2 : (1 + 1 : K) ≠ 0) (n : Nat)
    (V : M K) (order : List Meas) (rs : List (Res K)) (nv : List K) (hn : 0 < n)
    (hV : V.n = 2 ^ n) (hU : V.dagger.mul V = M.one (2 ^ n)) (hord : order.Perm (requiredSet n))
    (hrs : rs = (combineAll tomoInputsMLE n).flatMap (fun ins =>
      order.map fun s => bornTable i h n (channel V (rhoKron i ins)) s))
    (hnv : (do let data ← mleData n order rs; nVec n data) = .ok nv)
    (hlen : ((6 ^ n * (4 ^ n - 1) : Nat) : K) ≠ 0) :
    ∃ c : K, c ≠ 0 ∧ (pVec i n (choiFromUnitary V)).map (· * c) = nv := by
  subst hrs
  rw [mleData_born hc h2 n hn V hV hU order hord] at hnv
  simp only [bind, Except.bind] at hnv
  rw [nVec_table, inputsMLE_length n hn, tomoMeasurements_true_length n hn] at hnv
  injection hnv with hnv
  set L : K := ((6 ^ n * (4 ^ n - 1) : Nat) : K) with hL
  have htp : (twoPow (2 * n) : K) ≠ 0 := by
    rw [twoPow_eq]
    exact pow_ne_zero _ h2
  refine ⟨twoPow (2 * n) * L⁻¹, mul_ne_zero htp (inv_ne_zero hlen), ?_⟩
  rw [← hnv]
  unfold pVec
  rw [List.map_flatMap]
  apply flatMap_congr'
  intro ins hins
  rw [List.map_flatMap]
  apply flatMap_congr'
  intro meas hmeas
  have hl : meas.length = n := tomoMeasurements_length hn meas (mem_tomoMeasurements_true hmeas)
  have hil : ins.length = n := mem_inputs_length hn hins
  have htr : trN n (channel V (rhoKron i ins)) = 1 := by
    rw [trN_channel n V _ hV hU, trN_rhoKron h2 i ins n hil]
  obtain ⟨e1, e2⟩ := mle_rows i n V hV ins hil meas hl
  show [pairing (aRowMats i n ins meas).1 (choiFromUnitary V) * (twoPow (2 * n) * L⁻¹),
      pairing (aRowMats i n ins meas).2 (choiFromUnitary V) * (twoPow (2 * n) * L⁻¹)] = _
  rw [e1, e2, htr]
  have key : ∀ x : K, (twoPow (2 * n))⁻¹ * x * (twoPow (2 * n) * L⁻¹) = x * L⁻¹ := by
    intro x
    rw [mul_comm (twoPow (2 * n))⁻¹ x, mul_assoc, ← mul_assoc (twoPow (2 * n))⁻¹,
      inv_mul_cancel₀ htp, one_mul]
  rw [key, key, mul_comm half, mul_comm half]

/-- in characteristic zero (in particular over ℂ) the count is always invertible -/
theorem mle_model_consistent_char0 [CharZero K] {i h : K} (hc : Consts i h) (h2 : (1 + 1 : K) ≠ 0)
    (n : Nat) (V : M K) (order : List Meas) (rs : List (Res K)) (nv : List K) (hn : 0 < n)
    (hV : V.n = 2 ^ n) (hU : V.dagger.mul V = M.one (2 ^ n)) (hord : order.Perm (requiredSet n))
    (hrs : rs = (combineAll tomoInputsMLE n).flatMap (fun ins =>
      order.map fun s => bornTable i h n (channel V (rhoKron i ins)) s))
    (hnv : (do let data ← mleData n order rs; nVec n data) = .ok nv) :
    ∃ c : K, c ≠ 0 ∧ (pVec i n (choiFromUnitary V)).map (· * c) = nv := by
  refine mle_model_consistent_nz hc h2 n V order rs nv hn hV hU hord hrs hnv ?_
  have h4 : 4 ^ 1 ≤ 4 ^ n := Nat.pow_le_pow_right (by norm_num) hn
  have h6 : 0 < 6 ^ n := Nat.pos_of_ne_zero (pow_ne_zero _ (by norm_num))
  exact Nat.cast_ne_zero.mpr (Nat.mul_ne_zero (by omega) (by omega))

end LW.Tomo
