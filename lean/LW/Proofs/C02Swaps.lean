/-
  LW.Proofs.C02Swaps — C02: the herald-returning swap dictionary of `add` stays in range.
-/
import LW.Proofs.C02Modes
namespace LW.Proofs.C02
variable {K : Type}

/-! ### counting, for the range of `synthSwaps` -/
/-- number of `x ∈ [s, s + k)` with `P x` -/
def cnt (P : Nat → Bool) : Nat → Nat → Nat
  | 0, _ => 0
  | k + 1, s => (P s).toNat + cnt P k (s + 1)

theorem cnt_sub {P : Nat → Bool} {n s : Nat} (h : s < n) :
    cnt P (n - s) s = (P s).toNat + cnt P (n - (s + 1)) (s + 1) := by
  have : n - s = (n - (s + 1)) + 1 := by omega
  rw [this, cnt]

theorem cnt_compl (P : Nat → Bool) (k s : Nat) : cnt P k s + cnt (fun x => !P x) k s = k := by
  induction k generalizing s with
  | zero => rfl
  | succ k ih =>
    simp only [cnt]
    have := ih (s + 1)
    cases P s <;> simp <;> omega

theorem cnt_or_le (P Q : Nat → Bool) (k s : Nat) :
    cnt (fun x => P x || Q x) k s ≤ cnt P k s + cnt Q k s := by
  induction k generalizing s with
  | zero => simp [cnt]
  | succ k ih =>
    simp only [cnt]
    have := ih (s + 1)
    cases P s <;> cases Q s <;> simp <;> omega

theorem cnt_or_disj (P Q : Nat → Bool) (k s : Nat) (h : ∀ x, ¬ (P x = true ∧ Q x = true)) :
    cnt (fun x => P x || Q x) k s = cnt P k s + cnt Q k s := by
  induction k generalizing s with
  | zero => simp [cnt]
  | succ k ih =>
    simp only [cnt]
    have := ih (s + 1)
    have := h s
    cases hp : P s <;> cases hq : Q s <;> simp_all <;> omega

theorem cnt_eq_le (a k s : Nat) : cnt (fun x => x == a) k s ≤ 1 := by
  induction k generalizing s with
  | zero => simp [cnt]
  | succ k ih =>
    simp only [cnt]
    by_cases h : s = a
    · subst h
      have : cnt (fun x => x == s) k (s + 1) = 0 := by
        clear ih
        generalize hs : s + 1 = t
        have ht : s < t := by omega
        clear hs
        induction k generalizing t with
        | zero => rfl
        | succ k ih2 =>
          simp only [cnt]
          have : (t == s) = false := by simp; omega
          simp only [this, ih2 (t + 1) (by omega)]; rfl
      simp [this]
    · have : (s == a) = false := by simp [h]
      have := ih (s + 1)
      simp [*]

theorem cnt_eq_of_mem (a k s : Nat) (h1 : s ≤ a) (h2 : a < s + k) : cnt (fun x => x == a) k s = 1 := by
  induction k generalizing s with
  | zero => omega
  | succ k ih =>
    simp only [cnt]
    by_cases h : s = a
    · subst h
      have h0 := cnt_eq_le s (k + 1) s
      simp only [cnt, beq_self_eq_true, Bool.toNat_true] at h0 ⊢
      omega
    · have : (s == a) = false := by simp [h]
      simp only [this, ih (s + 1) (by omega) (by omega)]; rfl

theorem cnt_false (k s : Nat) : cnt (fun _ => false) k s = 0 := by
  induction k generalizing s with
  | zero => rfl
  | succ k ih => simp only [cnt, ih]; rfl

theorem cnt_mem_le (l : List Nat) (k s : Nat) : cnt (fun x => decide (x ∈ l)) k s ≤ l.length := by
  induction l with
  | nil => simp [cnt_false]
  | cons a t ih =>
    have h1 : (fun x => decide (x ∈ a :: t)) = (fun x => (x == a) || decide (x ∈ t)) := by
      funext x; simp only [List.mem_cons, Bool.decide_or]; by_cases h : x = a <;> simp [h]
    rw [h1]
    have := cnt_or_le (fun x => x == a) (fun x => decide (x ∈ t)) k s
    have := cnt_eq_le a k s
    simp only [List.length_cons]; omega

theorem cnt_mem_ge (l : List Nat) (n : Nat) (hnd : l.Nodup) (hlt : ∀ a ∈ l, a < n) :
    l.length ≤ cnt (fun x => decide (x ∈ l)) n 0 := by
  induction l with
  | nil => simp
  | cons a t ih =>
    have h1 : (fun x => decide (x ∈ a :: t)) = (fun x => (x == a) || decide (x ∈ t)) := by
      funext x; simp only [List.mem_cons, Bool.decide_or]; by_cases h : x = a <;> simp [h]
    rw [h1]
    simp only [List.nodup_cons] at hnd
    rw [cnt_or_disj]
    · have := cnt_eq_of_mem a n 0 (by omega) (by have := hlt a (by simp); omega)
      have := ih hnd.2 (fun x hx => hlt x (by simp [hx]))
      simp only [List.length_cons]; omega
    · intro x ⟨hx1, hx2⟩
      simp at hx1 hx2
      subst hx1; exact hnd.1 hx2

/-- non-members of a duplicate-free bounded list are at most as many as non-members of any list of the
same length -/
theorem cnt_not_mem_le (ks vs : List Nat) (n : Nat) (hnd : ks.Nodup) (hlt : ∀ a ∈ ks, a < n)
    (hlen : vs.length = ks.length) :
    cnt (fun x => !decide (x ∈ ks)) n 0 ≤ cnt (fun x => !decide (x ∈ vs)) n 0 := by
  have h1 := cnt_compl (fun x => decide (x ∈ ks)) n 0
  have h2 := cnt_compl (fun x => decide (x ∈ vs)) n 0
  have h3 := cnt_mem_ge ks n hnd hlt
  have h4 := cnt_mem_le vs n 0
  omega


/-! ### `synthSwaps` stays in range -/
theorem synthSkip_spec (prov : Dict) (n : Nat) (fuel cur : Nat) (hf : n - cur ≤ fuel)
    (hpos : 1 ≤ cnt (fun v => !decide (v ∈ prov.vals)) (n - cur) cur) :
    let r := Circ.synthSkip prov fuel cur
    r < n ∧ cnt (fun v => !decide (v ∈ prov.vals)) (n - (r + 1)) (r + 1) + 1
      = cnt (fun v => !decide (v ∈ prov.vals)) (n - cur) cur := by
  induction fuel generalizing cur with
  | zero =>
    have : n - cur = 0 := by omega
    rw [this] at hpos; simp [cnt] at hpos
  | succ fuel ih =>
    have hcur : cur < n := by
      rcases Nat.lt_or_ge cur n with h | h
      · exact h
      · have : n - cur = 0 := by omega
        rw [this] at hpos; simp [cnt] at hpos
    simp only [Circ.synthSkip]
    by_cases hc : cur ∈ prov.vals
    · have hc' : prov.vals.contains cur = true := by simp [hc]
      rw [if_pos hc']
      have e := cnt_sub (P := fun v => !decide (v ∈ prov.vals)) hcur
      simp only [hc, decide_true, Bool.not_true, Bool.toNat_false, Nat.zero_add] at e
      rw [e] at hpos ⊢
      exact ih (cur + 1) (by omega) hpos
    · have hc' : ¬ prov.vals.contains cur = true := by simp [hc]
      rw [if_neg hc']
      have e := cnt_sub (P := fun v => !decide (v ∈ prov.vals)) hcur
      simp only [hc, decide_false, Bool.not_false, Bool.toNat_true] at e
      exact ⟨hcur, by omega⟩

theorem getD_mem_vals {d : Dict} {k : Nat} (h : d.contains k = true) : d.getD k 0 ∈ d.vals := by
  have hk := contains_iff.mp h
  have := get?_isSome_iff.mpr hk
  cases hg : d.get? k with
  | none => rw [hg] at this; simp at this
  | some v =>
    simp only [Dict.getD, hg, Option.getD_some]
    exact get?_mem_vals hg

theorem synthGo_lt (n : Nat) (prov : Dict) (hv : ∀ x ∈ prov.vals, x < n)
    (fuel i cur : Nat) (acc : Dict) (hfi : fuel + i = n)
    (hcnt : cnt (fun j => !decide (j ∈ prov.keys)) (n - i) i
        ≤ cnt (fun v => !decide (v ∈ prov.vals)) (n - cur) cur)
    (hk : ∀ x ∈ acc.keys, x < n) (hvl : ∀ x ∈ acc.vals, x < n) :
    (∀ x ∈ (Circ.synthGo n prov fuel i cur acc).keys, x < n) ∧
    (∀ x ∈ (Circ.synthGo n prov fuel i cur acc).vals, x < n) := by
  induction fuel generalizing i cur acc with
  | zero => exact ⟨hk, hvl⟩
  | succ fuel ih =>
    have hi : i < n := by omega
    have e := cnt_sub (P := fun j => !decide (j ∈ prov.keys)) hi
    simp only [Circ.synthGo]
    by_cases hc : prov.contains i = true
    · rw [if_pos hc]
      have hik := contains_iff.mp hc
      simp only [hik, decide_true, Bool.not_true, Bool.toNat_false, Nat.zero_add] at e
      apply ih (i + 1) cur _ (by omega) (by rw [← e]; exact hcnt)
      · intro x hx
        rcases mem_keys_set.mp hx with rfl | hx
        · exact hi
        · exact hk x hx
      · intro x hx
        rcases mem_vals_set hx with rfl | hx
        · exact hv _ (getD_mem_vals hc)
        · exact hvl x hx
    · rw [if_neg hc]
      have hik : i ∉ prov.keys := fun h => hc (contains_iff.mpr h)
      simp only [hik, decide_false, Bool.not_false, Bool.toNat_true] at e
      have hpos : 1 ≤ cnt (fun v => !decide (v ∈ prov.vals)) (n - cur) cur := by omega
      obtain ⟨hr, hcr⟩ := synthSkip_spec prov n (n + 1) cur (by omega) hpos
      apply ih (i + 1) _ _ (by omega) (by omega)
      · intro x hx
        split at hx
        · rcases mem_keys_set.mp hx with rfl | hx
          · exact hi
          · exact hk x hx
        · exact hk x hx
      · intro x hx
        split at hx
        · rcases mem_vals_set hx with rfl | hx
          · exact hr
          · exact hvl x hx
        · exact hvl x hx

theorem synthSwaps_lt (n : Nat) (prov : Dict) (hnd : prov.keys.Nodup) (hk : ∀ x ∈ prov.keys, x < n)
    (hv : ∀ x ∈ prov.vals, x < n) :
    (∀ x ∈ (Circ.synthSwaps n prov).keys, x < n) ∧ (∀ x ∈ (Circ.synthSwaps n prov).vals, x < n) := by
  unfold Circ.synthSwaps
  apply synthGo_lt n prov hv n 0 0 [] (by omega)
  · exact cnt_not_mem_le prov.keys prov.vals n hnd hk (by simp [Dict.keys, Dict.vals])
  · simp [Dict.keys]
  · simp [Dict.vals]

end LW.Proofs.C02
