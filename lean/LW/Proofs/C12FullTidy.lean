/-
  LW.Proofs.C12FullTidy — tidy optics (no loss, heralds = private ancillas in index order):
  their canonical closed form is the optic's own matrix, tidiness is preserved by `compose` with a
  loss-free closed sub-optic, and the abstraction of a circuit whose heralds are exactly its
  ancillas is tidy.
-/
import LW.Proofs.C12FullSpecOk
import LW.Proofs.C02SemAdd6

namespace LW.C12F

open LW LW.Proofs.C01Aux LW.Proofs.C02 LW.Proofs.C02Sem

variable {K : Type} [CommRing K] [StarRing K]

set_option linter.unusedSectionVars false

/-! ### free ports of a tidy optic -/

theorem Tidy.extIn_nil {x : Optic K} (h : Tidy x) : x.extIn = [] := by
  unfold Optic.extIn
  rw [List.map_eq_nil_iff, List.filter_eq_nil_iff]
  intro hh hm
  obtain ⟨j, hj, rfl⟩ := List.mem_iff_getElem.mp hm
  have := (h.idx j hj).1
  simp only [decide_eq_true_eq]
  omega

theorem Tidy.extOut_nil {x : Optic K} (h : Tidy x) : x.extOut = [] := by
  unfold Optic.extOut
  rw [List.map_eq_nil_iff, List.filter_eq_nil_iff]
  intro hh hm
  obtain ⟨j, hj, rfl⟩ := List.mem_iff_getElem.mp hm
  have := (h.idx j hj).2
  simp only [decide_eq_true_eq]
  omega

theorem Tidy.freeIn_eq {x : Optic K} (h : Tidy x) : x.freeIn = List.range x.p := by
  unfold Optic.freeIn
  rw [h.extIn_nil]
  simp

theorem Tidy.freeOut_eq {x : Optic K} (h : Tidy x) : x.freeOut = List.range x.p := by
  unfold Optic.freeOut
  rw [h.extOut_nil]
  simp

theorem Tidy.colIdx_eq {x : Optic K} (h : Tidy x) {y : Nat} (hy : y < x.p + x.her.length) :
    colIdx x y = y := by
  unfold colIdx
  rw [h.freeIn_eq, List.length_range]
  by_cases h1 : y < x.p
  · rw [if_pos h1, List.getD_eq_getElem _ _ (by rw [List.length_range]; exact h1),
      List.getElem_range]
  · rw [if_neg h1, if_pos hy, List.getD_eq_getElem _ _ (by omega)]
    have := (h.idx (y - x.p) (by omega)).1
    omega

theorem Tidy.rowIdx_eq {x : Optic K} (h : Tidy x) {y : Nat} (hy : y < x.p + x.her.length) :
    rowIdx x y = y := by
  unfold rowIdx
  rw [h.freeIn_eq, h.freeOut_eq, List.length_range]
  by_cases h1 : y < x.p
  · rw [if_pos h1, List.getD_eq_getElem _ _ (by rw [List.length_range]; exact h1),
      List.getElem_range]
  · rw [if_neg h1, if_pos hy, List.getD_eq_getElem _ _ (by omega)]
    have := (h.idx (y - x.p) (by omega)).2
    omega

/-! ### the closed form -/

/-- closed form of a tidy optic: all ports are free, the matrix is the optic's own -/
theorem Tidy.closed_eq {x : Optic K} (h : Tidy x) :
    x.closed = ⟨x.p, x.her.map (·.n), 0, x.W⟩ := by
  rw [LW.Proofs.C02Sem.closed_eq, h.freeIn_eq, List.length_range, h.l0]
  congr 1
  refine Eq.trans ?_ h.wofn.symm
  rw [h.wn, ← h.len, Nat.add_zero]
  apply M.ofFn_congr
  intro r c hr hc
  rw [h.rowIdx_eq hr, h.colIdx_eq hc]

/-! ### composition -/

theorem Tidy.compose {x : Optic K} (h : Tidy x) (s : Closed K) (hs : s.l = 0) (m : Nat) :
    Tidy (x.compose s m) where
  l0 := by rw [compose_l, h.l0, hs]
  len := by rw [compose_her_length, compose_a, h.len]
  idx := by
    intro j hj
    have hlen := h.len
    simp only [compose_her, compose_p]
    rw [compose_her_length] at hj
    by_cases h1 : j < x.her.length
    · rw [List.getElem_append_left h1]
      exact h.idx j h1
    · rw [List.getElem_append_right (by omega), List.getElem_map, List.getElem_range]
      constructor <;> (show x.p + x.a + (j - x.her.length) = x.p + j) <;> omega
  wn := by
    rw [compose_W, M.mul_n, embedVia_n, compose_p, compose_a, h.l0, hs]
    omega
  wofn := by
    rw [compose_W]
    exact M.isOfFn_mul _ _

/-- hence the closed form of a composition -/
theorem Tidy.closed_compose {x : Optic K} (h : Tidy x) (s : Closed K) (hs : s.l = 0) (m : Nat) :
    (x.compose s m).closed = ⟨x.p, x.her.map (·.n) ++ s.hn, 0,
      (Optic.embedVia (x.p + x.a + s.hn.length) s.W (invS x s m)).mul
        (Optic.embedVia (x.p + x.a + s.hn.length) x.W (invP x s.hn.length))⟩ := by
  rw [(h.compose s hs m).closed_eq, compose_p, compose_her_n, compose_W, h.l0, hs, Nat.add_zero]

/-! ### the abstraction of a circuit whose heralds are its ancillas -/

/-- the abstraction of a circuit whose heralds are exactly its ancillas (same order), with equal
input and output heralds and no loss components, is tidy -/
theorem tidy_toOptic (i : K) (c : Circ K) (hwf : c.WF) (hk : c.inHer.keys = c.internal)
    (ho : c.outHer = c.inHer) (hl : lossCount c.spec = 0) : Tidy (c.toOptic i) where
  l0 := by rw [toOptic_l, hl]
  len := by rw [her_length i c hwf, toOptic_a, ← hk, keys_length]
  idx := by
    intro j hj
    have hj' : j < c.internal.length := by
      rw [her_length i c hwf, ← keys_length, hk] at hj; exact hj
    have hopt : c.optIndex c.internal[j] = c.portModes.length + j :=
      optIndex_internal c (idxOf?_getElem_of_nodup hwf.intNodup hj')
    have e1 : ((c.toOptic i).her.map (·.i))[j]'(by rw [List.length_map]; exact hj)
        = (c.internal.map c.optIndex)[j]'(by rw [List.length_map]; exact hj') := by
      congr 1
      rw [her_map_i i c hwf, hk]
    have e2 : ((c.toOptic i).her.map (·.o))[j]'(by rw [List.length_map]; exact hj)
        = (c.internal.map c.optIndex)[j]'(by rw [List.length_map]; exact hj') := by
      congr 1
      rw [her_map_o i c hwf, ho, hk]
    rw [List.getElem_map, List.getElem_map, hopt] at e1 e2
    rw [toOptic_p]
    exact ⟨e1, e2⟩
  wn := by
    rw [toOptic_W_n i c hwf, hl, toOptic_p, toOptic_a, portModes_length c hwf]
    rfl
  wofn := by
    rw [toOptic_W i c hwf]
    exact isOfFn_embedVia _ _ _

/-! ### non-vacuity: a fresh two-port optic is tidy, and stays tidy after wiring a closed
sub-optic with one free port and two heralds onto port 1 -/

example : Tidy (Optic.new 2 : Optic ℤ) :=
  ⟨rfl, rfl, fun j hj => absurd hj (Nat.not_lt_zero j), rfl, M.isOfFn_one 2⟩

example : Tidy ((Optic.new 2 : Optic ℤ).compose ⟨1, [1, 0], 0, M.one 3⟩ 1) := by
  have h : Tidy (Optic.new 2 : Optic ℤ) :=
    ⟨rfl, rfl, fun j hj => absurd hj (Nat.not_lt_zero j), rfl, M.isOfFn_one 2⟩
  exact h.compose _ rfl 1

end LW.C12F
