/-
  LW.Proofs.C14Noise — the error-model clauses of C14: exact modulo, draws inside the declared
  bounds, seed determinism.
-/
import Mathlib.Algebra.Order.Floor.Ring
import Mathlib.Data.Rat.Floor
import Mathlib.Tactic.Linarith
import LW.Model.ReckNoise

namespace LW

/-- what a distribution needs from its generator state: a TopHat was constructed with
`min ≤ max` and draws uniforms from `[0, 1)` -/
def Reck.TapeOk : Reck.Dist → Reck.Tape → Prop
  | .topHat lo hi, t => lo ≤ hi ∧ ∀ u ∈ t, 0 ≤ u ∧ u < 1
  | _, _ => True

end LW

namespace LW.Proofs.C14

open LW.Reck

/-- `(x % y)` lies in `[0, y)` for `y > 0` (exact arithmetic) -/
theorem pmod_range (x y : Rat) (hy : 0 < y) : 0 ≤ pmod x y ∧ pmod x y < y := by
  unfold pmod
  have h1 : ((x / y).floor : Rat) ≤ x / y := Rat.floor_le _
  have h2 : x / y < ((x / y).floor : Rat) + 1 := by
    have := Rat.lt_floor_add_one (x / y)
    push_cast at this
    exact this
  have hx : x = (x / y) * y := by field_simp
  constructor
  · nlinarith
  · nlinarith

/-- the constructors refuse `max < min` with `ValueError` -/
theorem constructors_reject (c dv lo hi : Rat) (h : hi < lo) :
    mkTopHat lo hi = .error .value ∧ mkGaussian c dv (some lo) (some hi) = .error .value := by
  simp [mkTopHat, mkGaussian, h]

/-! ### draws -/

theorem firstInBounds_spec (lo hi : Option Rat) (t t' : Tape) (v : Rat)
    (h : firstInBounds lo hi t = some (v, t')) : inBounds lo hi v = true ∧ t' <:+ t := by
  induction t with
  | nil => simp [firstInBounds] at h
  | cons u rest ih =>
    unfold firstInBounds at h
    by_cases hb : inBounds lo hi u = true
    · rw [if_pos hb] at h
      injection h with h
      injection h with h1 h2
      subst h1 h2
      exact ⟨hb, List.suffix_cons _ _⟩
    · rw [if_neg hb] at h
      obtain ⟨a, b⟩ := ih h
      exact ⟨a, b.trans (List.suffix_cons _ _)⟩

theorem tapeOk_suffix {d : Dist} {t t' : Tape} (h : TapeOk d t) (hs : t' <:+ t) : TapeOk d t' := by
  cases d with
  | topHat lo hi => exact ⟨h.1, fun u hu => h.2 u (hs.subset hu)⟩
  | constant v => trivial
  | gaussian c dv lo hi => trivial

/-- **every drawn value lies inside the declared bounds of its distribution**, and a draw only
moves the generator forward -/
theorem value_within (d : Dist) (t t' : Tape) (v : Rat) (ht : TapeOk d t)
    (h : d.value t = some (v, t')) : d.within v ∧ t' <:+ t := by
  cases d with
  | constant c =>
    simp only [Dist.value, Option.some.injEq, Prod.mk.injEq] at h
    obtain ⟨rfl, rfl⟩ := h
    exact ⟨rfl, List.suffix_refl _⟩
  | gaussian c dv lo hi =>
    exact firstInBounds_spec lo hi t t' v h
  | topHat lo hi =>
    cases t with
    | nil => simp [Dist.value] at h
    | cons u rest =>
      simp only [Dist.value, Option.some.injEq, Prod.mk.injEq] at h
      obtain ⟨rfl, rfl⟩ := h
      obtain ⟨hle, hu⟩ := ht
      obtain ⟨h0, h1⟩ := hu u List.mem_cons_self
      refine ⟨⟨?_, ?_⟩, List.suffix_cons _ _⟩
      · nlinarith
      · nlinarith

/-- a resampled Gaussian value satisfies the code's loop exit condition literally -/
theorem gaussian_within_iff (lo hi : Option Rat) (v : Rat) :
    inBounds lo hi v = true ↔ (∀ l, lo = some l → l ≤ v) ∧ (∀ h, hi = some h → v ≤ h) := by
  unfold inBounds
  cases lo <;> cases hi <;> simp [not_lt]

/-! ### the programmed parameters -/

theorem offsetCells_range (twoPi : Rat) (h2 : 0 < twoPi) (d : Dist) (cells : List (Rat × Rat))
    (t t' : Tape) (r : List (Rat × Rat)) (h : offsetCells twoPi d cells t = some (r, t')) :
    (∀ c ∈ r, (0 ≤ c.1 ∧ c.1 < twoPi) ∧ (0 ≤ c.2 ∧ c.2 < twoPi)) ∧ r.length = cells.length := by
  induction cells generalizing t t' r with
  | nil =>
    simp only [offsetCells, Option.some.injEq, Prod.mk.injEq] at h
    obtain ⟨rfl, _⟩ := h
    simp
  | cons c rest ih =>
    obtain ⟨th, ph⟩ := c
    simp only [offsetCells, Option.bind_eq_bind] at h
    cases h1 : d.value t with
    | none => simp [h1] at h
    | some p1 =>
      obtain ⟨o1, t1⟩ := p1
      cases h2' : d.value t1 with
      | none => simp [h1, h2'] at h
      | some p2 =>
        obtain ⟨o2, t2⟩ := p2
        cases h3 : offsetCells twoPi d rest t2 with
        | none => simp [h1, h2', h3] at h
        | some p3 =>
          obtain ⟨r3, t3⟩ := p3
          simp only [h1, h2', h3, Option.bind_some, Option.some.injEq, Prod.mk.injEq] at h
          obtain ⟨rfl, _⟩ := h
          obtain ⟨ih1, ih2⟩ := ih t2 t3 r3 h3
          refine ⟨?_, by simp [ih2]⟩
          intro c hc
          rcases List.mem_cons.mp hc with rfl | hc
          · exact ⟨pmod_range _ _ h2, pmod_range _ _ h2⟩
          · exact ih1 c hc

theorem offsetEnds_range (twoPi : Rat) (h2 : 0 < twoPi) (d : Dist) (ends : List Rat)
    (t t' : Tape) (r : List Rat) (h : offsetEnds twoPi d ends t = some (r, t')) :
    ∀ p ∈ r, 0 ≤ p ∧ p < twoPi := by
  induction ends generalizing t t' r with
  | nil =>
    simp only [offsetEnds, Option.some.injEq, Prod.mk.injEq] at h
    obtain ⟨rfl, _⟩ := h
    simp
  | cons p0 rest ih =>
    simp only [offsetEnds, Option.bind_eq_bind] at h
    cases h1 : d.value t with
    | none => simp [h1] at h
    | some p1 =>
      obtain ⟨o1, t1⟩ := p1
      cases h3 : offsetEnds twoPi d rest t1 with
      | none => simp [h1, h3] at h
      | some p3 =>
        obtain ⟨r3, t3⟩ := p3
        simp only [h1, h3, Option.bind_some, Option.some.injEq, Prod.mk.injEq] at h
        obtain ⟨rfl, _⟩ := h
        intro p hp
        rcases List.mem_cons.mp hp with rfl | hp
        · exact pmod_range _ _ h2
        · exact ih t1 t3 r3 h3 p hp

theorem drawCells_within (dBs dLoss : Dist) (cells : List (Rat × Rat)) (tb tl tb' tl' : Tape)
    (r : List CellParams) (hb : TapeOk dBs tb) (hl : TapeOk dLoss tl)
    (h : drawCells dBs dLoss cells tb tl = some (r, tb', tl')) :
    (∀ c ∈ r, dBs.within c.r1 ∧ dBs.within c.r2 ∧ dLoss.within c.loss) ∧
    r.map (fun c => (c.theta, c.phi)) = cells := by
  induction cells generalizing tb tl tb' tl' r with
  | nil =>
    simp only [drawCells, Option.some.injEq, Prod.mk.injEq] at h
    obtain ⟨rfl, _⟩ := h
    simp
  | cons c rest ih =>
    obtain ⟨th, ph⟩ := c
    simp only [drawCells, Option.bind_eq_bind] at h
    cases h1 : dBs.value tb with
    | none => simp [h1] at h
    | some p1 =>
      obtain ⟨r1, t1⟩ := p1
      cases h2 : dBs.value t1 with
      | none => simp [h1, h2] at h
      | some p2 =>
        obtain ⟨r2, t2⟩ := p2
        cases h3 : dLoss.value tl with
        | none => simp [h1, h3] at h
        | some p3 =>
          obtain ⟨l, t3⟩ := p3
          cases h4 : drawCells dBs dLoss rest t2 t3 with
          | none => simp [h1, h2, h3, h4] at h
          | some p4 =>
            obtain ⟨r4, t4, t5⟩ := p4
            simp only [h1, h2, h3, h4, Option.bind_some, Option.some.injEq, Prod.mk.injEq] at h
            obtain ⟨rfl, _⟩ := h
            obtain ⟨w1, s1⟩ := value_within dBs tb t1 r1 hb h1
            have hb1 := tapeOk_suffix hb s1
            obtain ⟨w2, s2⟩ := value_within dBs t1 t2 r2 hb1 h2
            have hb2 := tapeOk_suffix hb1 s2
            obtain ⟨w3, s3⟩ := value_within dLoss tl t3 l hl h3
            have hl3 := tapeOk_suffix hl s3
            obtain ⟨ih1, ih2⟩ := ih t2 t3 t4 t5 r4 hb2 hl3 h4
            refine ⟨?_, by simp [ih2]⟩
            intro c hc
            rcases List.mem_cons.mp hc with rfl | hc
            · exact ⟨w1, w2, w3⟩
            · exact ih1 c hc

/-- **bounds of everything `Reck.map` programs**: every phase in `[0, 2π)`, every reflectivity and
loss inside the declared bounds of its distribution -/
theorem program_bounds (twoPi : Rat) (h2 : 0 < twoPi) (e e' : EMS) (A : Angles) (P : Programmed)
    (hb : TapeOk e.bs e.tBs) (hl : TapeOk e.loss e.tLoss)
    (h : program twoPi e A = some (P, e')) :
    (∀ c ∈ P.cells, (0 ≤ c.phi ∧ c.phi < twoPi) ∧ (0 ≤ c.theta ∧ c.theta < twoPi) ∧
      e.bs.within c.r1 ∧ e.bs.within c.r2 ∧ e.loss.within c.loss) ∧
    (∀ p ∈ P.ends, 0 ≤ p ∧ p < twoPi) ∧ P.cells.length = A.cells.length := by
  unfold program at h
  simp only [Option.bind_eq_bind] at h
  cases h1 : offsetCells twoPi e.off A.cells e.tOff with
  | none => simp [h1] at h
  | some p1 =>
    obtain ⟨cells, t1⟩ := p1
    cases h3 : offsetEnds twoPi e.off A.ends t1 with
    | none => simp [h1, h3] at h
    | some p3 =>
      obtain ⟨ends, t3⟩ := p3
      cases h4 : drawCells e.bs e.loss cells e.tBs e.tLoss with
      | none => simp [h1, h3, h4] at h
      | some p4 =>
        obtain ⟨cps, t4, t5⟩ := p4
        simp only [h1, h3, h4, Option.bind_some, Option.some.injEq, Prod.mk.injEq] at h
        obtain ⟨rfl, _⟩ := h
        obtain ⟨o1, o2⟩ := offsetCells_range twoPi h2 e.off A.cells e.tOff t1 cells h1
        have o3 := offsetEnds_range twoPi h2 e.off A.ends t1 t3 ends h3
        obtain ⟨d1, d2⟩ := drawCells_within e.bs e.loss cells e.tBs e.tLoss t4 t5 cps hb hl h4
        refine ⟨?_, o3, ?_⟩
        · intro c hc
          have hmem : (c.theta, c.phi) ∈ cells := by
            rw [← d2]; exact List.mem_map.mpr ⟨c, hc, rfl⟩
          have := o1 _ hmem
          exact ⟨this.2, this.1, d1 c hc⟩
        · have : cps.length = cells.length := by rw [← d2]; simp
          simp only
          rw [this, o2]

/-! ### seed determinism -/

/-- two generator states are interchangeable for a distribution that never reads its state -/
def SameFor (d : Dist) (t t' : Tape) : Prop := d.hasSeed = true → t = t'

theorem value_same (d : Dist) (t t' : Tape) (h : SameFor d t t') :
    (d.value t = none ∧ d.value t' = none) ∨
    ∃ v t1 t1', d.value t = some (v, t1) ∧ d.value t' = some (v, t1') ∧ SameFor d t1 t1' := by
  cases d with
  | constant c => exact Or.inr ⟨c, t, t', rfl, rfl, fun hh => by simp [Dist.hasSeed] at hh⟩
  | gaussian c dv lo hi =>
    have := h rfl
    subst this
    cases hv : (Dist.gaussian c dv lo hi).value t with
    | none => exact Or.inl ⟨rfl, rfl⟩
    | some p => exact Or.inr ⟨p.1, p.2, p.2, rfl, rfl, fun _ => rfl⟩
  | topHat lo hi =>
    have := h rfl
    subst this
    cases hv : (Dist.topHat lo hi).value t with
    | none => exact Or.inl ⟨rfl, rfl⟩
    | some p => exact Or.inr ⟨p.1, p.2, p.2, rfl, rfl, fun _ => rfl⟩

theorem offsetCells_same (twoPi : Rat) (d : Dist) (cells : List (Rat × Rat)) (t t' : Tape)
    (h : SameFor d t t') :
    (offsetCells twoPi d cells t = none ∧ offsetCells twoPi d cells t' = none) ∨
    ∃ r t1 t1', offsetCells twoPi d cells t = some (r, t1) ∧
      offsetCells twoPi d cells t' = some (r, t1') ∧ SameFor d t1 t1' := by
  induction cells generalizing t t' with
  | nil => exact Or.inr ⟨[], t, t', rfl, rfl, h⟩
  | cons c rest ih =>
    obtain ⟨th, ph⟩ := c
    simp only [offsetCells, Option.bind_eq_bind]
    rcases value_same d t t' h with ⟨a, b⟩ | ⟨v1, t1, t1', a, b, s1⟩
    · left; simp [a, b]
    · rcases value_same d t1 t1' s1 with ⟨a2, b2⟩ | ⟨v2, t2, t2', a2, b2, s2⟩
      · left; simp [a, b, a2, b2]
      · rcases ih t2 t2' s2 with ⟨a3, b3⟩ | ⟨r, t3, t3', a3, b3, s3⟩
        · left; simp [a, b, a2, b2, a3, b3]
        · right
          exact ⟨(pmod (th + v1) twoPi, pmod (ph + v2) twoPi) :: r, t3, t3', by simp [a, a2, a3],
            by simp [b, b2, b3], s3⟩

theorem offsetEnds_same (twoPi : Rat) (d : Dist) (ends : List Rat) (t t' : Tape)
    (h : SameFor d t t') :
    (offsetEnds twoPi d ends t = none ∧ offsetEnds twoPi d ends t' = none) ∨
    ∃ r t1 t1', offsetEnds twoPi d ends t = some (r, t1) ∧
      offsetEnds twoPi d ends t' = some (r, t1') ∧ SameFor d t1 t1' := by
  induction ends generalizing t t' with
  | nil => exact Or.inr ⟨[], t, t', rfl, rfl, h⟩
  | cons p rest ih =>
    simp only [offsetEnds, Option.bind_eq_bind]
    rcases value_same d t t' h with ⟨a, b⟩ | ⟨v1, t1, t1', a, b, s1⟩
    · left; simp [a, b]
    · rcases ih t1 t1' s1 with ⟨a3, b3⟩ | ⟨r, t3, t3', a3, b3, s3⟩
      · left; simp [a, b, a3, b3]
      · right
        exact ⟨pmod (p + v1) twoPi :: r, t3, t3', by simp [a, a3], by simp [b, b3], s3⟩

theorem drawCells_same (dBs dLoss : Dist) (cells : List (Rat × Rat)) (tb tb' tl tl' : Tape)
    (hb : SameFor dBs tb tb') (hl : SameFor dLoss tl tl') :
    (drawCells dBs dLoss cells tb tl).map Prod.fst =
      (drawCells dBs dLoss cells tb' tl').map Prod.fst := by
  induction cells generalizing tb tb' tl tl' with
  | nil => rfl
  | cons c rest ih =>
    obtain ⟨th, ph⟩ := c
    simp only [drawCells, Option.bind_eq_bind]
    rcases value_same dBs tb tb' hb with ⟨a, b⟩ | ⟨v1, t1, t1', a, b, s1⟩
    · simp [a, b]
    · rcases value_same dBs t1 t1' s1 with ⟨a2, b2⟩ | ⟨v2, t2, t2', a2, b2, s2⟩
      · simp [a, b, a2, b2]
      · rcases value_same dLoss tl tl' hl with ⟨a3, b3⟩ | ⟨v3, t3, t3', a3, b3, s3⟩
        · simp [a, b, a3, b3]
        · have := ih t2 t2' t3 t3' s2 s3
          simp only [a, b, a2, b2, a3, b3, Option.bind_some]
          cases h1 : drawCells dBs dLoss rest t2 t3 with
          | none =>
            rw [h1] at this
            cases h2 : drawCells dBs dLoss rest t2' t3' with
            | none => rfl
            | some p => rw [h2] at this; simp at this
          | some p =>
            rw [h1] at this
            cases h2 : drawCells dBs dLoss rest t2' t3' with
            | none => rw [h2] at this; simp at this
            | some q =>
              rw [h2] at this
              simp only [Option.map_some, Option.some.injEq] at this
              simp [this]

/-- the programmed parameters do not depend on the generator state of a distribution that has no
generator (Constant) -/
theorem program_same (twoPi : Rat) (e1 e2 : EMS) (A : Angles) (hbs : e1.bs = e2.bs)
    (hloss : e1.loss = e2.loss) (hoff : e1.off = e2.off)
    (sb : SameFor e1.bs e1.tBs e2.tBs) (sl : SameFor e1.loss e1.tLoss e2.tLoss)
    (so : SameFor e1.off e1.tOff e2.tOff) :
    (program twoPi e1 A).map Prod.fst = (program twoPi e2 A).map Prod.fst := by
  unfold program
  simp only [Option.bind_eq_bind, ← hbs, ← hloss, ← hoff]
  rcases offsetCells_same twoPi e1.off A.cells e1.tOff e2.tOff so with ⟨a, b⟩ | ⟨r, t1, t1', a, b, s1⟩
  · simp [a, b]
  · rcases offsetEnds_same twoPi e1.off A.ends t1 t1' s1 with ⟨a2, b2⟩ | ⟨r2, t2, t2', a2, b2, _⟩
    · simp [a, b, a2, b2]
    · have := drawCells_same e1.bs e1.loss r e1.tBs e2.tBs e1.tLoss e2.tLoss sb sl
      simp only [a, b, a2, b2, Option.bind_some]
      cases h1 : drawCells e1.bs e1.loss r e1.tBs e1.tLoss with
      | none =>
        rw [h1] at this
        cases h2 : drawCells e1.bs e1.loss r e2.tBs e2.tLoss with
        | none => rfl
        | some p => rw [h2] at this; simp at this
      | some p =>
        rw [h1] at this
        cases h2 : drawCells e1.bs e1.loss r e2.tBs e2.tLoss with
        | none => rw [h2] at this; simp at this
        | some q =>
          rw [h2] at this
          simp only [Option.map_some, Option.some.injEq] at this
          simp [this]

/-- **the same seed gives the same mapped circuit**: whatever the three generators did before,
mapping with an integer seed programs the same parameters -/
theorem seed_determinism (gen : Nat → Dist → Tape) (seedInts : Nat → List Nat) (twoPi : Rat)
    (e1 e2 : EMS) (hbs : e1.bs = e2.bs) (hloss : e1.loss = e2.loss) (hoff : e1.off = e2.off)
    (seed : Nat) (A : Angles) :
    (mapParams gen seedInts twoPi e1 seed A).map Prod.fst =
      (mapParams gen seedInts twoPi e2 seed A).map Prod.fst := by
  unfold mapParams
  apply program_same
  · simpa [setRandomSeed] using hbs
  · simpa [setRandomSeed] using hloss
  · simpa [setRandomSeed] using hoff
  · intro h
    have h' : e1.bs.hasSeed = true := by simpa [setRandomSeed] using h
    simp only [setRandomSeed, ← hbs, h', if_true]
  · intro h
    have h' : e1.loss.hasSeed = true := by simpa [setRandomSeed] using h
    simp only [setRandomSeed, ← hbs, ← hloss, h', if_true]
  · intro h
    have h' : e1.off.hasSeed = true := by simpa [setRandomSeed] using h
    simp only [setRandomSeed, ← hbs, ← hloss, ← hoff, h', if_true]

end LW.Proofs.C14
