/-
  LW.Proofs.C19Rewrite — the two circuit rewrites (`remove_non_adjacent_bs`,
  `compress_mode_swaps`; LW.Model.Rewrite) keep every spec entry drawable.
-/
import LW.Proofs.C19Built
import LW.Model.Rewrite

namespace LW.Disp

open LW

variable {K : Type}

/-! ### `remove_non_adjacent_bs` -/

theorem nonAdjSwaps_bound {lo hi n : Nat} (h : lo ≤ hi) (hn : hi < n) :
    ∀ p ∈ nonAdjSwaps lo hi, p.1 < n ∧ p.2 < n := by
  intro p hp
  unfold nonAdjSwaps at hp
  simp only [List.mem_append, List.mem_map, List.mem_range] at hp
  rcases hp with ⟨k, hk, rfl⟩ | ⟨k, hk, rfl⟩
  · dsimp only
    constructor
    · omega
    · split <;> omega
  · dsimp only
    constructor
    · omega
    · split <;> omega

theorem convertNonAdj_prim_ok {n : Nat} (p : Prim K) (h : CompOk n (Comp.prim p)) :
    ∀ q ∈ p.convertNonAdj, CompOk n (Comp.prim q) := by
  cases p with
  | bs m1 m2 c s cv =>
    obtain ⟨h1, h2, h12⟩ := h
    intro q hq
    simp only [Prim.convertNonAdj] at hq
    by_cases hadj : m1 + 1 = m2 ∨ m2 + 1 = m1
    · rw [if_pos hadj, List.mem_singleton] at hq; subst hq; exact ⟨h1, h2, h12⟩
    · rw [if_neg hadj] at hq
      have hb := nonAdjSwaps_bound (lo := min m1 m2) (hi := max m1 m2) (n := n) (by omega) (by omega)
      have hsw : CompOk n (Comp.prim (Prim.swaps (nonAdjSwaps (min m1 m2) (max m1 m2))) : Comp K) := by
        intro x hx
        rcases List.mem_append.mp hx with h3 | h3
        · obtain ⟨p, hp, rfl⟩ := List.mem_map.mp h3; exact (hb p hp).1
        · obtain ⟨p, hp, rfl⟩ := List.mem_map.mp h3; exact (hb p hp).2
      have hsw' : CompOk n (Comp.prim (Prim.swaps (Dict.ofPairs
          ((nonAdjSwaps (min m1 m2) (max m1 m2)).map fun p => (p.2, p.1)))) : Comp K) := by
        intro x hx
        rcases List.mem_append.mp hx with h3 | h3
        · refine ofPairs_keys_inv (Q := fun x => x < n) _ ?_ x h3
          intro p hp
          obtain ⟨q, hq, rfl⟩ := List.mem_map.mp hp
          exact (hb q hq).2
        · refine ofPairs_vals_inv (Q := fun x => x < n) _ ?_ x h3
          intro p hp
          obtain ⟨q, hq, rfl⟩ := List.mem_map.mp hp
          exact (hb q hq).1
      by_cases hgt : m1 > m2
      · simp only [hgt, if_true, List.mem_cons, List.not_mem_nil, or_false] at hq
        rcases hq with rfl | rfl | rfl
        · exact hsw
        · exact ⟨by omega, by omega, by omega⟩
        · exact hsw'
      · simp only [hgt, if_false, List.mem_cons, List.not_mem_nil, or_false] at hq
        rcases hq with rfl | rfl | rfl
        · exact hsw
        · exact ⟨by omega, by omega, by omega⟩
        · exact hsw'
  | ps m p => intro q hq; simp only [Prim.convertNonAdj, List.mem_singleton] at hq; subst hq; exact h
  | loss m a c => intro q hq; simp only [Prim.convertNonAdj, List.mem_singleton] at hq; subst hq; exact h
  | barrier ms => intro q hq; simp only [Prim.convertNonAdj, List.mem_singleton] at hq; subst hq; exact h
  | swaps σ => intro q hq; simp only [Prim.convertNonAdj, List.mem_singleton] at hq; subst hq; exact h
  | unitary m u => intro q hq; simp only [Prim.convertNonAdj, List.mem_singleton] at hq; subst hq; exact h

theorem convertNonAdj_ok {n : Nat} (spec : List (Comp K))
    (h : ∀ comp ∈ spec, CompOk n comp ∧ InnerOk n comp) :
    ∀ comp ∈ convertNonAdj spec, CompOk n comp ∧ InnerOk n comp := by
  intro comp hc
  unfold convertNonAdj at hc
  obtain ⟨x, hx, hcx⟩ := List.mem_flatMap.mp hc
  cases x with
  | prim p =>
    simp only at hcx
    obtain ⟨q, hq, rfl⟩ := List.mem_map.mp hcx
    have := convertNonAdj_prim_ok p (h _ hx).1 q hq
    refine ⟨this, ?_⟩
    intro r hr
    simp only [Comp.toPrims, List.mem_singleton] at hr
    subst hr; exact this
  | group cs m1 m2 hin hout =>
    simp only [List.mem_singleton] at hcx
    subst hcx
    refine ⟨(h _ hx).1, ?_⟩
    intro r hr
    simp only [Comp.toPrims] at hr
    obtain ⟨q, hq, hrq⟩ := List.mem_flatMap.mp hr
    exact convertNonAdj_prim_ok q ((h _ hx).2 q hq) r hrq


/-! ### `compress_mode_swaps` -/

/-- every key and every value of a swap dictionary is a mode of the circuit -/
def DictLt (n : Nat) (d : Dict) : Prop := (∀ k ∈ d.keys, k < n) ∧ ∀ v ∈ d.vals, v < n

theorem dictLt_iff_compOk {n : Nat} {σ : Dict} :
    DictLt n σ ↔ CompOk n (Comp.prim (Prim.swaps σ) : Comp K) := by
  constructor
  · intro h m hm
    rcases List.mem_append.mp hm with h1 | h1
    · exact h.1 m h1
    · exact h.2 m h1
  · intro h
    exact ⟨fun k hk => h k (List.mem_append_left _ hk), fun v hv => h v (List.mem_append_right _ hv)⟩

theorem foldl_set_dictLt {n : Nat} (ps : List (Nat × Nat)) (d : Dict) (hd : DictLt n d)
    (hps : ∀ p ∈ ps, p.1 < n ∧ p.2 < n) : DictLt n (ps.foldl (fun d p => d.set p.1 p.2) d) := by
  induction ps generalizing d with
  | nil => exact hd
  | cons p ps ih =>
    rw [List.foldl_cons]
    have hp := hps p (List.mem_cons_self ..)
    exact ih _ ⟨keys_set_lt hd.1 hp.1, vals_set_inv hd.2 hp.2⟩
      (fun q hq => hps q (List.mem_cons_of_mem _ hq))

theorem dictLt_mem {n : Nat} {d : Dict} (h : DictLt n d) {p : Nat × Nat} (hp : p ∈ d) :
    p.1 < n ∧ p.2 < n := ⟨h.1 _ (mem_keys hp), h.2 _ (mem_vals hp)⟩

theorem combineSwapDicts_lt {n : Nat} {s1 s2 : Dict} (h1 : DictLt n s1) (h2 : DictLt n s2) :
    DictLt n (combineSwapDicts s1 s2) := by
  unfold combineSwapDicts
  dsimp only
  have hpart : DictLt n (s1.map fun p => (p.1, if s2.contains p.2 then s2.getD p.2 p.2 else p.2)) := by
    constructor
    · intro k hk
      simp only [Dict.keys, List.map_map, List.mem_map, Function.comp] at hk
      obtain ⟨p, hp, rfl⟩ := hk
      exact (dictLt_mem h1 hp).1
    · intro v hv
      simp only [Dict.vals, List.map_map, List.mem_map, Function.comp] at hv
      obtain ⟨p, hp, rfl⟩ := hv
      split
      · rcases Dict.getD_cases s2 p.2 with ⟨_, e⟩ | ⟨w, hw, e⟩
        · rw [e]; exact (dictLt_mem h1 hp).2
        · rw [e]; exact (dictLt_mem h2 hw).2
      · exact (dictLt_mem h1 hp).2
  have hall := foldl_set_dictLt
    (s2.filter fun p => !((s1.filter fun p => s2.contains p.2).map (·.2)).contains p.1) _ hpart
    (fun p hp => dictLt_mem h2 (List.mem_filter.mp hp).1)
  constructor
  · intro k hk
    obtain ⟨p, hp, rfl⟩ := List.mem_map.mp hk
    exact (dictLt_mem hall (List.mem_filter.mp hp).1).1
  · intro v hv
    obtain ⟨p, hp, rfl⟩ := List.mem_map.mp hv
    exact (dictLt_mem hall (List.mem_filter.mp hp).1).2

theorem compressScan_lt {n : Nat} (rest : List (Nat × Comp K)) (σ : Dict) (blocked skip : List Nat)
    (hσ : DictLt n σ) (hr : ∀ x ∈ rest, CompOk n x.2) :
    DictLt n (compressScan rest σ blocked skip).1 := by
  induction rest generalizing σ blocked skip with
  | nil => exact hσ
  | cons x rest ih =>
    obtain ⟨k, c⟩ := x
    have hrest : ∀ y ∈ rest, CompOk n y.2 := fun y hy => hr y (List.mem_cons_of_mem _ hy)
    have hc : CompOk n c := hr (k, c) (List.mem_cons_self ..)
    unfold compressScan
    split
    · exact ih σ blocked skip hσ hrest
    · split
      · rename_i τ
        split
        · exact ih _ _ _ hσ hrest
        · exact ih _ _ _ (combineSwapDicts_lt hσ (dictLt_iff_compOk.mpr hc)) hrest
      · exact ih _ _ _ hσ hrest

theorem compressGo_ok {n : Nat} (l : List (Nat × Comp K)) (skip : List Nat)
    (h : ∀ x ∈ l, CompOk n x.2 ∧ InnerOk n x.2) :
    ∀ comp ∈ compressGo l skip, CompOk n comp ∧ InnerOk n comp := by
  induction l generalizing skip with
  | nil => intro comp hc; simp [compressGo] at hc
  | cons x rest ih =>
    obtain ⟨i, c⟩ := x
    have hrest : ∀ y ∈ rest, CompOk n y.2 ∧ InnerOk n y.2 :=
      fun y hy => h y (List.mem_cons_of_mem _ hy)
    have hc := h (i, c) (List.mem_cons_self ..)
    unfold compressGo
    split
    · exact ih skip hrest
    · split
      · rename_i σ
        dsimp only
        intro comp hcomp
        rcases List.mem_cons.mp hcomp with rfl | hcomp
        · have hlt := compressScan_lt rest σ [] skip (dictLt_iff_compOk.mpr hc.1)
            (fun y hy => (hrest y hy).1)
          have hok : CompOk n (Comp.prim (Prim.swaps (compressScan rest σ [] skip).1) : Comp K) :=
            dictLt_iff_compOk.mp hlt
          refine ⟨hok, ?_⟩
          intro p hp
          simp only [Comp.toPrims, List.mem_singleton] at hp
          subst hp; exact hok
        · exact ih _ hrest comp hcomp
      · intro comp hcomp
        rcases List.mem_cons.mp hcomp with rfl | hcomp
        · exact hc
        · exact ih _ hrest comp hcomp

theorem compressSwaps_ok {n : Nat} (spec : List (Comp K))
    (h : ∀ comp ∈ spec, CompOk n comp ∧ InnerOk n comp) :
    ∀ comp ∈ compressSwaps spec, CompOk n comp ∧ InnerOk n comp := by
  unfold compressSwaps
  apply compressGo_ok
  intro x hx
  exact h x.2 (List.of_mem_zip (a := x.1) (b := x.2) hx).2

/-! ### the rewrites on circuit objects -/

theorem built_of_same_book {c : Circ K} (hb : Built c) (spec' : List (Comp K))
    (h : ∀ comp ∈ spec', CompOk c.n comp ∧ InnerOk c.n comp) : Built { c with spec := spec' } :=
  { wf := { pos := hb.wf.pos, intNodup := hb.wf.intNodup, intLt := hb.wf.intLt,
            extInLt := hb.wf.extInLt, extOutLt := hb.wf.extOutLt,
            compOk := fun comp hc => (h comp hc).1 },
    inNodup := hb.inNodup, inLt := hb.inLt, outLt := hb.outLt,
    inner := fun comp hc => (h comp hc).2 }

theorem built_compress {c : Circ K} (hb : Built c) : Built c.compress :=
  built_of_same_book hb _ (compressSwaps_ok c.spec
    fun comp hc => ⟨hb.wf.compOk comp hc, hb.inner comp hc⟩)

theorem built_removeNonAdj {c : Circ K} (hb : Built c) : Built c.removeNonAdj :=
  built_of_same_book hb _ (convertNonAdj_ok c.spec
    fun comp hc => ⟨hb.wf.compOk comp hc, hb.inner comp hc⟩)

end LW.Disp
