/-
  LW.Proofs.C10Lit — unitary blocks of every circuit in a reachable world hold literal numbers only
  (the hypothesis `LitU` of `readU_congr` is an invariant of the histories).
-/
import LW.Proofs.C10World

namespace LW

variable {α K : Type}

namespace Circ

/-- the primitive construction calls append leaf components that are not unitary blocks -/
def Appends (c c' : Circ K) : Prop :=
  ∃ extra : List (Prim K), c'.spec = c.spec ++ extra.map Comp.prim ∧ ∀ p ∈ extra, p.blockEntries = []

theorem bs_appends (c c' : Circ K) (m1 m2 : Int) (cs : K × K) (cv : Conv) (l : Option (K × K))
    (rv lv : Bool) (h : c.bs m1 m2 cs cv l rv lv = .ok c') : Appends c c' := by
  unfold Circ.bs at h
  cases h1 : c.modeInRange (c.mapMode m1) with
  | error e => simp [h1, bind, Except.bind] at h
  | ok a =>
    simp only [h1, bind, Except.bind] at h
    by_cases hab : (a : Int) = c.mapMode m2
    · simp [hab, throw, throwThe, MonadExceptOf.throw] at h
    · cases h2 : c.modeInRange (c.mapMode m2) with
      | error e => simp [h2, hab] at h
      | ok b =>
        simp only [h2, hab, if_false] at h
        cases lv <;> cases rv <;> rcases l with _ | ⟨la, lb⟩ <;>
          simp [pure, Except.pure, throw, throwThe, MonadExceptOf.throw] at h
        · subst h
          exact ⟨[.bs a b cs.1 cs.2 cv], by simp, by simp [Prim.blockEntries]⟩
        · subst h
          exact ⟨[.bs a b cs.1 cs.2 cv, .loss a la lb, .loss b la lb], by simp, by simp [Prim.blockEntries]⟩

theorem ps_appends (c c' : Circ K) (m : Int) (p : K) (l : Option (K × K)) (lv : Bool)
    (h : c.ps m p l lv = .ok c') : Appends c c' := by
  unfold Circ.ps at h
  cases h1 : c.modeInRange (c.mapMode m) with
  | error e => simp [h1, bind, Except.bind] at h
  | ok a =>
    simp only [h1, bind, Except.bind] at h
    cases lv <;> rcases l with _ | ⟨la, lb⟩ <;>
      simp [pure, Except.pure, throw, throwThe, MonadExceptOf.throw] at h
    · subst h
      exact ⟨[.ps a p], by simp, by simp [Prim.blockEntries]⟩
    · subst h
      exact ⟨[.ps a p, .loss a la lb], by simp, by simp [Prim.blockEntries]⟩

theorem loss_appends (c c' : Circ K) (m : Int) (ab : K × K) (lv : Bool)
    (h : c.loss m ab lv = .ok c') : Appends c c' := by
  unfold Circ.loss at h
  cases h1 : c.modeInRange (c.mapMode m) with
  | error e => simp [h1, bind, Except.bind] at h
  | ok a =>
    simp only [h1, bind, Except.bind] at h
    cases lv <;> simp [pure, Except.pure, throw, throwThe, MonadExceptOf.throw] at h
    subst h
    exact ⟨[.loss a ab.1 ab.2], by simp, by simp [Prim.blockEntries]⟩

theorem barrier_appends (c c' : Circ K) (ms : Option (List Int)) (h : c.barrier ms = .ok c') :
    Appends c c' := by
  unfold Circ.barrier at h
  simp only [bind, Except.bind] at h
  split at h
  · cases h
  · rename_i ms' _
    simp only [pure, Except.pure, Except.ok.injEq] at h
    subst h
    exact ⟨[.barrier ms'], by simp, by simp [Prim.blockEntries]⟩

theorem modeSwaps_appends (c c' : Circ K) (sw : List (Int × Int)) (h : c.modeSwaps sw = .ok c') :
    Appends c c' := by
  unfold Circ.modeSwaps at h
  simp only [bind, Except.bind] at h
  split at h
  · cases h
  · split at h
    · cases h
    · split at h
      · simp [throw, throwThe, MonadExceptOf.throw] at h
      · simp only [pure, Except.pure, Except.ok.injEq] at h
        subst h
        exact ⟨[.swaps _], by simp; rfl, by simp [Prim.blockEntries]⟩

theorem herald_spec (c c' : Circ K) (n : Nat) (i o : Int) (h : c.herald n i o = .ok c') :
    c'.spec = c.spec := by
  unfold Circ.herald at h
  cases h1 : c.modeInRange (c.mapMode i) with
  | error e => simp [h1, bind, Except.bind] at h
  | ok a =>
    cases h2 : c.modeInRange (c.mapMode o) with
    | error e => simp [h1, h2, bind, Except.bind] at h
    | ok b =>
      simp only [h1, h2, bind, Except.bind] at h
      by_cases g1 : c.inHer.contains a = true <;> by_cases g2 : c.outHer.contains b = true <;>
        simp [g1, g2, pure, Except.pure, throw, throwThe, MonadExceptOf.throw] at h
      subst h; rfl

theorem plus_spec (a b c' : Circ K) (h : a.plus b = .ok c') : c'.spec = a.spec ++ b.spec := by
  unfold Circ.plus at h
  split at h
  · cases h
  · split at h
    · cases h
    · injection h with h; subst h; rfl

end Circ

/-! ### the two rewrites keep every unitary block -/

theorem Prim.mem_convertNonAdj (p q : Prim K) (h : q ∈ p.convertNonAdj) : q = p ∨ q.blockEntries = [] := by
  cases p with
  | bs m1 m2 c s cv =>
    right
    simp only [Prim.convertNonAdj] at h
    split at h
    · simp only [List.mem_singleton] at h; subst h; rfl
    · simp only [List.mem_cons, List.not_mem_nil, or_false] at h
      rcases h with rfl | rfl | rfl <;> rfl
  | ps m x => left; simpa [Prim.convertNonAdj] using h
  | loss m a b => left; simpa [Prim.convertNonAdj] using h
  | barrier ms => left; simpa [Prim.convertNonAdj] using h
  | swaps d => left; simpa [Prim.convertNonAdj] using h
  | unitary m u => left; simpa [Prim.convertNonAdj] using h

theorem convertNonAdj_prims (spec : List (Comp K)) (q : Prim K) (h : q ∈ primsOf (convertNonAdj spec)) :
    q ∈ primsOf spec ∨ q.blockEntries = [] := by
  unfold primsOf convertNonAdj at h
  simp only [List.mem_flatMap] at h
  obtain ⟨c', ⟨c, hc, hc'⟩, hq⟩ := h
  cases c with
  | prim p =>
    simp only [List.mem_map] at hc'
    obtain ⟨q', hq', rfl⟩ := hc'
    simp only [Comp.toPrims, List.mem_singleton] at hq
    subst hq
    rcases Prim.mem_convertNonAdj p q hq' with rfl | h
    · left
      exact List.mem_flatMap.mpr ⟨_, hc, by simp [Comp.toPrims]⟩
    · exact Or.inr h
  | group cs m1 m2 hin hout =>
    simp only [List.mem_singleton] at hc'
    subst hc'
    simp only [Comp.toPrims, List.mem_flatMap] at hq
    obtain ⟨p, hp, hqp⟩ := hq
    rcases Prim.mem_convertNonAdj p q hqp with rfl | h
    · left
      exact List.mem_flatMap.mpr ⟨_, hc, by simpa [Comp.toPrims] using hp⟩
    · exact Or.inr h

theorem compressGo_mem (l : List (Nat × Comp K)) (s : List Nat) (c' : Comp K) (h : c' ∈ compressGo l s) :
    c' ∈ l.map (·.2) ∨ ∃ σ, c' = .prim (.swaps σ) := by
  induction l generalizing s with
  | nil => simp [compressGo] at h
  | cons x xs ih =>
    obtain ⟨i, c⟩ := x
    simp only [compressGo] at h
    split at h
    · rcases ih s h with h' | h'
      · exact Or.inl (List.mem_cons_of_mem _ h')
      · exact Or.inr h'
    · split at h
      · rcases List.mem_cons.mp h with rfl | h
        · exact Or.inr ⟨_, rfl⟩
        · rcases ih _ h with h' | h'
          · exact Or.inl (List.mem_cons_of_mem _ h')
          · exact Or.inr h'
      · rcases List.mem_cons.mp h with rfl | h
        · exact Or.inl (by simp)
        · rcases ih _ h with h' | h'
          · exact Or.inl (List.mem_cons_of_mem _ h')
          · exact Or.inr h'

theorem compressSwaps_prims (spec : List (Comp K)) (q : Prim K) (h : q ∈ primsOf (compressSwaps spec)) :
    q ∈ primsOf spec ∨ q.blockEntries = [] := by
  unfold primsOf at h
  rw [List.mem_flatMap] at h
  obtain ⟨c', hc', hq⟩ := h
  rcases compressGo_mem _ _ c' hc' with hm | ⟨σ, rfl⟩
  · left
    have : c' ∈ spec := by
      simp only [List.mem_map] at hm
      obtain ⟨⟨i, c⟩, hic, rfl⟩ := hm
      exact (List.of_mem_zip hic).2
    exact List.mem_flatMap.mpr ⟨c', this, hq⟩
  · right
    simp only [Comp.toPrims, List.mem_singleton] at hq
    subst hq; rfl

namespace PCirc

theorem litU_of_prims_sub (c c' : PCirc α K)
    (h : ∀ q ∈ primsOf c'.spec, q ∈ primsOf c.spec ∨ q.blockEntries = []) (hc : c.LitU) : c'.LitU := by
  intro q hq
  rcases h q hq with h1 | h1
  · exact hc q h1
  · rw [litU_iff_block, h1]
    intro x hx; cases hx

theorem litU_of_appends (c c' : PCirc α K) (h : Circ.Appends c c') (hc : c.LitU) : c'.LitU := by
  obtain ⟨extra, hs, he⟩ := h
  intro p hp
  rw [hs, primsOf_append] at hp
  rcases List.mem_append.mp hp with hp | hp
  · exact hc p hp
  · have : p ∈ extra := by
      unfold primsOf at hp
      simp only [List.flatMap_map, Comp.toPrims, List.mem_flatMap, List.mem_singleton] at hp
      obtain ⟨q, hq, rfl⟩ := hp
      exact hq
    rw [litU_iff_block, he p this]
    intro x hx; cases hx

theorem litU_of_spec_eq (c c' : PCirc α K) (h : primsOf c'.spec = primsOf c.spec) (hc : c.LitU) : c'.LitU := by
  intro p hp
  rw [h] at hp
  exact hc p hp

end PCirc

/-- every circuit of the world has literal unitary blocks -/
def World.LitU (w : World α K) : Prop := ∀ cid c, Heap.get? w.circs cid = some c → PCirc.LitU c

namespace World

variable [Zero K] [One K]

omit [Zero K] [One K] in
theorem litU_set {w : World α K} (hw : w.LitU) (cid : String) (c : PCirc α K) (hc : c.LitU) :
    ∀ k c', Heap.get? (Heap.set w.circs cid c) k = some c' → PCirc.LitU c' := by
  intro k c' h
  by_cases hk : k = cid
  · subst hk
    rw [C10Aux.get?_set_eq] at h
    injection h with h; subst h; exact hc
  · rw [C10Aux.get?_set_ne _ _ _ _ hk] at h
    exact hw k c' h

omit [Zero K] [One K] in
theorem M.entries_map_lit (u : M K) (x : Sym α K) (hx : x ∈ (u.map Sym.lit).entries) : ∃ k, x = Sym.lit k := by
  unfold M.entries M.map at hx
  simp only [Array.toList_map, List.flatMap_map, List.mem_flatMap, List.mem_map] at hx
  obtain ⟨row, _, y, _, rfl⟩ := hx
  exact ⟨y, rfl⟩

/-- the pool call of a well-formed parameter-free op keeps blocks literal -/
theorem heapStep_litU {h h' : Heap (Sym α K)} {op : CircOp (Sym α K)} {r : Outcome}
    (hh : ∀ cid c, Heap.get? h cid = some c → PCirc.LitU c)
    (hu : ∀ id u, op = .unitary id u → ∀ x ∈ u.entries, ∃ k, x = Sym.lit k)
    (hs : heapStep h op = some (h', r)) :
    ∀ cid c, Heap.get? h' cid = some c → PCirc.LitU c := by
  unfold heapStep at hs
  cases he : op.eval h with
  | none => simp [he] at hs
  | some res =>
    cases res with
    | error e =>
      simp only [he, Option.some.injEq, Prod.mk.injEq] at hs
      rw [← hs.1]; exact hh
    | ok cnew =>
      simp only [he, Option.some.injEq, Prod.mk.injEq] at hs
      rw [← hs.1]
      have key : PCirc.LitU cnew := by
        cases op with
        | new id n =>
          simp only [CircOp.eval, Option.some.injEq, Except.ok.injEq] at he
          subst he
          intro p hp; simp [Circ.new, primsOf] at hp
        | unitary id u =>
          simp only [CircOp.eval, Option.some.injEq, Except.ok.injEq] at he
          subst he
          intro p hp
          simp only [primsOf, List.flatMap_cons, List.flatMap_nil, List.append_nil, Comp.toPrims,
            List.mem_singleton] at hp
          subst hp
          exact hu id u rfl
        | bs id m1 m2 cs cv l rv lv =>
          simp only [CircOp.eval] at he
          cases hg : Heap.get? h id with
          | none => simp [hg] at he
          | some c =>
            simp only [hg, Option.map_some, Option.some.injEq] at he
            exact PCirc.litU_of_appends c cnew (Circ.bs_appends c cnew _ _ _ _ _ _ _ he) (hh id c hg)
        | ps id m p l lv =>
          simp only [CircOp.eval] at he
          cases hg : Heap.get? h id with
          | none => simp [hg] at he
          | some c =>
            simp only [hg, Option.map_some, Option.some.injEq] at he
            exact PCirc.litU_of_appends c cnew (Circ.ps_appends c cnew _ _ _ _ he) (hh id c hg)
        | loss id m ab lv =>
          simp only [CircOp.eval] at he
          cases hg : Heap.get? h id with
          | none => simp [hg] at he
          | some c =>
            simp only [hg, Option.map_some, Option.some.injEq] at he
            exact PCirc.litU_of_appends c cnew (Circ.loss_appends c cnew _ _ _ he) (hh id c hg)
        | barrier id ms =>
          simp only [CircOp.eval] at he
          cases hg : Heap.get? h id with
          | none => simp [hg] at he
          | some c =>
            simp only [hg, Option.map_some, Option.some.injEq] at he
            exact PCirc.litU_of_appends c cnew (Circ.barrier_appends c cnew _ he) (hh id c hg)
        | swaps id sw =>
          simp only [CircOp.eval] at he
          cases hg : Heap.get? h id with
          | none => simp [hg] at he
          | some c =>
            simp only [hg, Option.map_some, Option.some.injEq] at he
            exact PCirc.litU_of_appends c cnew (Circ.modeSwaps_appends c cnew _ he) (hh id c hg)
        | herald id n i o =>
          simp only [CircOp.eval] at he
          cases hg : Heap.get? h id with
          | none => simp [hg] at he
          | some c =>
            simp only [hg, Option.map_some, Option.some.injEq] at he
            exact PCirc.litU_of_spec_eq c cnew (by rw [Circ.herald_spec c cnew _ _ _ he]) (hh id c hg)
        | add id sub m g =>
          simp only [CircOp.eval, Option.bind_eq_bind] at he
          cases hg : Heap.get? h id with
          | none => simp [hg] at he
          | some c =>
            cases hg2 : Heap.get? h sub with
            | none => simp [hg, hg2] at he
            | some s =>
              simp only [hg, hg2, Option.bind_some, Option.pure_def, Option.some.injEq] at he
              exact PCirc.add_litU c s cnew m g he (hh id c hg) (hh sub s hg2)
        | plus dst a b =>
          simp only [CircOp.eval, Option.bind_eq_bind] at he
          cases hg : Heap.get? h a with
          | none => simp [hg] at he
          | some x =>
            cases hg2 : Heap.get? h b with
            | none => simp [hg, hg2] at he
            | some y =>
              simp only [hg, hg2, Option.bind_some, Option.pure_def, Option.some.injEq] at he
              intro p hp
              rw [Circ.plus_spec x y cnew he, primsOf_append] at hp
              rcases List.mem_append.mp hp with hp | hp
              · exact hh a x hg p hp
              · exact hh b y hg2 p hp
        | copy dst src =>
          simp only [CircOp.eval] at he
          cases hg : Heap.get? h src with
          | none => simp [hg] at he
          | some c =>
            simp only [hg, Option.map_some, Option.some.injEq, Except.ok.injEq] at he
            subst he
            exact hh src c hg
        | unpack id =>
          simp only [CircOp.eval] at he
          cases hg : Heap.get? h id with
          | none => simp [hg] at he
          | some c =>
            simp only [hg, Option.map_some, Option.some.injEq, Except.ok.injEq] at he
            subst he
            exact PCirc.litU_of_spec_eq c _ (primsOf_unpackSpec c.spec) (hh id c hg)
        | compress id =>
          simp only [CircOp.eval] at he
          cases hg : Heap.get? h id with
          | none => simp [hg] at he
          | some c =>
            simp only [hg, Option.map_some, Option.some.injEq, Except.ok.injEq] at he
            subst he
            exact PCirc.litU_of_prims_sub c _ (compressSwaps_prims c.spec) (hh id c hg)
        | nonadj id =>
          simp only [CircOp.eval] at he
          cases hg : Heap.get? h id with
          | none => simp [hg] at he
          | some c =>
            simp only [hg, Option.map_some, Option.some.injEq, Except.ok.injEq] at he
            subst he
            exact PCirc.litU_of_prims_sub c _ (convertNonAdj_prims c.spec) (hh id c hg)
      intro k c' hk
      by_cases hkt : k = op.target
      · subst hkt
        rw [C10Aux.get?_set_eq] at hk
        injection hk with hk; subst hk; exact key
      · rw [C10Aux.get?_set_ne _ _ _ _ hkt] at hk
        exact hh k c' hk

omit [Zero K] [One K] in
theorem M.entries_map {K' : Type} (f : K → K') (u : M K) : (u.map f).entries = u.entries.map f := by
  unfold M.entries M.map
  simp only [Array.toList_map, List.flatMap_map, List.map_flatMap]

omit [Zero K] [One K] in
theorem litU_freeze (σ : Store α) (c : PCirc α K) (hc : PCirc.LitU c) : PCirc.LitU (PCirc.freeze σ c) := by
  intro p hp
  unfold PCirc.freeze at hp
  rw [Circ.map_spec, primsOf_map] at hp
  obtain ⟨q, hq, rfl⟩ := List.mem_map.mp hp
  have hql := hc q hq
  cases q with
  | unitary m u =>
    simp only [Prim.map, Prim.LitU, M.entries_map] at hql ⊢
    intro x hx
    obtain ⟨y, hy, rfl⟩ := List.mem_map.mp hx
    obtain ⟨k, rfl⟩ := hql y hy
    exact ⟨k, rfl⟩
  | _ => trivial

variable [LT α] [DecidableLT α]

theorem litU_of_circs_eq {w w' : World α K} (hw : w.LitU) (h : w'.circs = w.circs) : w'.LitU := by
  intro cid c hc
  rw [h] at hc
  exact hw cid c hc

theorem litU_of_heapStep {w w' : World α K} {cop : CircOp (Sym α K)} {chk : Option Err} {o : Option Fail}
    (hw : w.LitU) (hu : ∀ id u, cop = .unitary id u → ∀ x ∈ u.entries, ∃ k, x = Sym.lit k)
    (h : (heapStep w.circs cop).map (ofHeap w chk) = some (w', o)) : w'.LitU := by
  cases hs : heapStep w.circs cop with
  | none => simp [hs] at h
  | some p =>
    obtain ⟨h', r⟩ := p
    simp only [hs, Option.map_some, Option.some.injEq, ofHeap, Prod.mk.injEq] at h
    intro cid c hcid
    rw [← h.1] at hcid
    exact heapStep_litU hw hu hs cid c hcid

/-- LITERAL BLOCKS are an invariant of every call of the C10 histories -/
theorem step_litU (ν : Views α K) {w w' : World α K} {op : POp α K} {o : Option Fail}
    (hw : w.LitU) (hop : op.WF) (h : World.step ν w op = some (w', o)) : w'.LitU := by
  cases op with
  | circ cop =>
    obtain ⟨op₀, rfl⟩ := hop
    simp only [step] at h
    cases hs : heapStep w.circs (op₀.map Sym.lit) with
    | none => simp [hs] at h
    | some p =>
      obtain ⟨h', r⟩ := p
      simp only [hs, Option.some.injEq, Prod.mk.injEq] at h
      intro cid c hcid
      rw [← h.1] at hcid
      refine heapStep_litU hw ?_ hs cid c hcid
      intro id u hu
      cases op₀ <;> simp only [CircOp.map] at hu <;> try cases hu
      exact M.entries_map_lit _
  | bs cid m1 m2 r cv l =>
    rw [step_bs] at h
    exact litU_of_heapStep hw (fun _ _ e => by cases e) h
  | ps cid m phi l =>
    rw [step_ps] at h
    exact litU_of_heapStep hw (fun _ _ e => by cases e) h
  | loss cid m l =>
    rw [step_loss] at h
    exact litU_of_heapStep hw (fun _ _ e => by cases e) h
  | freeze dst src =>
    simp only [step] at h
    cases hg : Heap.get? w.circs src with
    | none => simp [hg] at h
    | some c =>
      simp only [hg, Option.map_some, Option.some.injEq, updCirc, Prod.mk.injEq] at h
      rw [← h.1]
      exact litU_set hw dst _ (litU_freeze w.store c (hw src c hg))
  | pNew id v bounds =>
    intro cid c hc
    rw [step_circ_frame ν h cid (by simp [POp.circTarget])] at hc
    exact hw cid c hc
  | pSet id v =>
    intro cid c hc
    rw [step_circ_frame ν h cid (by simp [POp.circTarget])] at hc
    exact hw cid c hc
  | pMin id b =>
    intro cid c hc
    rw [step_circ_frame ν h cid (by simp [POp.circTarget])] at hc
    exact hw cid c hc
  | pMax id b =>
    intro cid c hc
    rw [step_circ_frame ν h cid (by simp [POp.circTarget])] at hc
    exact hw cid c hc
  | dNew d items =>
    intro cid c hc
    rw [step_circ_frame ν h cid (by simp [POp.circTarget])] at hc
    exact hw cid c hc
  | dSet d key arg =>
    intro cid c hc
    rw [step_circ_frame ν h cid (by simp [POp.circTarget])] at hc
    exact hw cid c hc
  | dRemove d key =>
    intro cid c hc
    rw [step_circ_frame ν h cid (by simp [POp.circTarget])] at hc
    exact hw cid c hc

theorem run_litU (ν : Views α K) (ops : List (POp α K)) {w w' : World α K} {rs : List (Option Fail)}
    (hw : w.LitU) (hops : ∀ op ∈ ops, op.WF) (h : World.run ν w ops = some (w', rs)) : w'.LitU := by
  induction ops generalizing w w' rs with
  | nil =>
    simp only [run, Option.some.injEq, Prod.mk.injEq] at h
    rw [← h.1]; exact hw
  | cons op ops ih =>
    simp only [run, Option.bind_eq_bind] at h
    cases hs : step ν w op with
    | none => simp [hs] at h
    | some p =>
      obtain ⟨w1, r⟩ := p
      simp only [hs, Option.bind_some] at h
      cases hr : run ν w1 ops with
      | none => simp [hr] at h
      | some q =>
        obtain ⟨w2, rs2⟩ := q
        simp only [hr, Option.bind_some, Option.pure_def, Option.some.injEq, Prod.mk.injEq] at h
        rw [← h.1]
        exact ih (step_litU ν hw (hops op List.mem_cons_self) hs)
          (fun op' hop' => hops op' (List.mem_cons_of_mem _ hop')) hr

omit [Zero K] [One K] [LT α] [DecidableLT α] in
theorem empty_litU : ({} : World α K).LitU := by
  intro cid c h
  simp [Heap.get?] at h

end World

end LW
