/-
  LW.Proofs.C19Api — the invariant `Disp.WF` is established by the constructors and preserved by
  every accepted primitive construction call, `herald`, `+` and `copy` of the model
  (LW.Model.Circuit).  `add`, `unpack_groups` and the two rewrites need the stronger invariant
  `Built` (LW/Proofs/C19Built.lean, C19AddFull.lean, C19Rewrite.lean); histories: C19Hist.lean.
-/
import LW.Proofs.C19
import LW.Proofs.DictLemmas
import LW.Model.Heap

namespace LW.Disp

variable {K : Type}

theorem modeInRange_lt {c : Circ K} {x : Int} {a : Nat} (h : c.modeInRange x = .ok a) :
    a < c.n := by
  unfold Circ.modeInRange at h
  split at h
  · injection h with h
    omega
  · cases h

theorem modeInRange_eq {c : Circ K} {x : Int} {a : Nat} (h : c.modeInRange x = .ok a) :
    (a : Int) = x := by
  unfold Circ.modeInRange at h
  split at h
  · injection h with h
    omega
  · cases h

/-- appending components that satisfy `CompOk` keeps the invariant (nothing else changes) -/
theorem wf_append_spec {c : Circ K} (hw : WF c) (l : List (Comp K))
    (hl : ∀ comp ∈ l, CompOk c.n comp) : WF { c with spec := c.spec ++ l } :=
  { pos := hw.pos, intNodup := hw.intNodup, intLt := hw.intLt, extInLt := hw.extInLt,
    extOutLt := hw.extOutLt,
    compOk := fun comp hc => by
      rcases List.mem_append.mp hc with h | h
      · exact hw.compOk comp h
      · exact hl comp h }

theorem wf_new (n : Nat) (h : 0 < n) : WF (Circ.new n : Circ K) :=
  { pos := h, intNodup := List.nodup_nil, intLt := (fun _ h => nomatch h),
    extInLt := (fun _ h => nomatch h), extOutLt := (fun _ h => nomatch h),
    compOk := (fun _ h => nomatch h) }

theorem wf_unitary (u : M K) (h : 0 < u.n) :
    WF ({ n := u.n, spec := [.prim (.unitary 0 u)] } : Circ K) :=
  { pos := h, intNodup := List.nodup_nil, intLt := (fun _ h => nomatch h),
    extInLt := (fun _ h => nomatch h), extOutLt := (fun _ h => nomatch h),
    compOk := fun comp hc => by
      rw [List.mem_singleton] at hc
      subst hc
      exact ⟨h, by simp⟩ }

theorem wf_bs {c c' : Circ K} (hw : WF c) {m1 m2 : Int} {cs : K × K} {cv : Conv}
    {l : Option (K × K)} {rv lv : Bool} (h : c.bs m1 m2 cs cv l rv lv = .ok c') : WF c' := by
  unfold Circ.bs at h
  cases ha : c.modeInRange (c.mapMode m1) with
  | error e => simp [ha, bind, Except.bind] at h
  | ok a =>
    by_cases he : (a : Int) = c.mapMode m2
    · simp [ha, he, bind, Except.bind, throw, throwThe, MonadExceptOf.throw] at h
    cases hb : c.modeInRange (c.mapMode m2) with
    | error e => simp [ha, hb, he, bind, Except.bind] at h
    | ok b =>
      have ha1 := modeInRange_lt ha
      have hb1 := modeInRange_lt hb
      have hab : a ≠ b := fun hab => he (by rw [hab]; exact modeInRange_eq hb)
      cases lv <;> cases rv <;>
        simp only [ha, hb, he, bind, Except.bind, if_false, Bool.not_true, Bool.not_false,
          throw, throwThe, MonadExceptOf.throw, Bool.false_eq_true, if_true] at h
      all_goals try (cases h; done)
      cases l with
      | none =>
        simp [pure, Except.pure] at h
        subst h
        exact wf_append_spec hw _ (by
          intro comp hc
          rw [List.mem_singleton] at hc; subst hc
          exact ⟨ha1, hb1, hab⟩)
      | some ab =>
        obtain ⟨la, lb⟩ := ab
        simp [pure, Except.pure] at h
        subst h
        have := wf_append_spec hw [.prim (.bs a b cs.1 cs.2 cv), .prim (.loss a la lb),
          .prim (.loss b la lb)] (by
          intro comp hc
          simp only [List.mem_cons, List.not_mem_nil, or_false] at hc
          rcases hc with rfl | rfl | rfl
          · exact ⟨ha1, hb1, hab⟩
          · exact ha1
          · exact hb1)
        simpa using this

theorem wf_ps {c c' : Circ K} (hw : WF c) {m : Int} {p : K} {l : Option (K × K)} {lv : Bool}
    (h : c.ps m p l lv = .ok c') : WF c' := by
  unfold Circ.ps at h
  cases ha : c.modeInRange (c.mapMode m) with
  | error e => simp [ha, bind, Except.bind] at h
  | ok a =>
    have ha1 := modeInRange_lt ha
    cases lv <;>
      simp only [ha, bind, Except.bind, Bool.not_true, Bool.not_false, throw, throwThe,
        MonadExceptOf.throw, Bool.false_eq_true, if_true, if_false] at h
    · cases h
    cases l with
    | none =>
      simp [pure, Except.pure] at h
      subst h
      exact wf_append_spec hw _ (by
        intro comp hc
        rw [List.mem_singleton] at hc; subst hc
        exact ha1)
    | some ab =>
      obtain ⟨la, lb⟩ := ab
      simp [pure, Except.pure] at h
      subst h
      have := wf_append_spec hw [.prim (.ps a p), .prim (.loss a la lb)] (by
        intro comp hc
        simp only [List.mem_cons, List.not_mem_nil, or_false] at hc
        rcases hc with rfl | rfl
        · exact ha1
        · exact ha1)
      simpa using this

theorem wf_loss {c c' : Circ K} (hw : WF c) {m : Int} {ab : K × K} {lv : Bool}
    (h : c.loss m ab lv = .ok c') : WF c' := by
  unfold Circ.loss at h
  cases ha : c.modeInRange (c.mapMode m) with
  | error e => simp [ha, bind, Except.bind] at h
  | ok a =>
    have ha1 := modeInRange_lt ha
    cases lv <;>
      simp only [ha, bind, Except.bind, Bool.not_true, Bool.not_false, throw, throwThe,
        MonadExceptOf.throw, Bool.false_eq_true, if_true, if_false] at h
    · cases h
    simp [pure, Except.pure] at h
    subst h
    exact wf_append_spec hw _ (by
      intro comp hc
      rw [List.mem_singleton] at hc; subst hc
      exact ha1)

theorem wf_barrier_aux {c c' : Circ K} (hw : WF c) (ml : List Int)
    (h : (do
      let ms' ← ml.mapM fun m => c.modeInRange (c.mapMode m)
      (pure ({ c with spec := c.spec ++ [Comp.prim (Prim.barrier ms')] } : Circ K) :
        Except Err (Circ K))) = .ok c') : WF c' := by
  cases hm : ml.mapM (fun m => c.modeInRange (c.mapMode m)) with
  | error e => simp [hm, bind, Except.bind] at h
  | ok ms' =>
    have hlt : ∀ b ∈ ms', b < c.n :=
      mapM_ok_forall (P := fun b => b < c.n) (fun a b hab => modeInRange_lt hab) ml ms' hm
    simp [hm, bind, Except.bind, pure, Except.pure] at h
    subst h
    exact wf_append_spec hw _ (by
      intro comp hc
      rw [List.mem_singleton] at hc; subst hc
      exact hlt)

theorem wf_barrier {c c' : Circ K} (hw : WF c) {ms : Option (List Int)}
    (h : c.barrier ms = .ok c') : WF c' := by
  unfold Circ.barrier at h
  cases ms with
  | none => exact wf_barrier_aux hw _ h
  | some l => exact wf_barrier_aux hw _ h

theorem wf_modeSwaps {c c' : Circ K} (hw : WF c) {sw : List (Int × Int)}
    (h : c.modeSwaps sw = .ok c') : WF c' := by
  unfold Circ.modeSwaps at h
  generalize sw.map (fun p => (c.mapMode p.1, c.mapMode p.2)) = rm at h
  cases hk : rm.mapM (fun p => c.modeInRange p.1) with
  | error e => simp [hk, bind, Except.bind] at h
  | ok ks =>
    cases hv : rm.mapM (fun p => c.modeInRange p.2) with
    | error e => simp [hk, hv, bind, Except.bind] at h
    | ok vs =>
      have hlt : ∀ b ∈ ks, b < c.n :=
        mapM_ok_forall (P := fun b => b < c.n) (fun a b hab => modeInRange_lt hab) rm ks hk
      obtain ⟨-, hQ⟩ := Dict.ofPairs_inv (Q := fun k => k < c.n) (ks.zip vs)
        (fun p hp => hlt p.1 (List.of_mem_zip (a := p.1) (b := p.2) hp).1)
      by_cases hs : sortNat (Dict.ofPairs (ks.zip vs)).keys = sortNat (Dict.ofPairs (ks.zip vs)).vals
      · simp [hk, hv, hs, bind, Except.bind, pure, Except.pure] at h
        subst h
        have hperm := perm_of_sortNat_eq hs
        exact wf_append_spec hw _ (by
          intro comp hc
          rw [List.mem_singleton] at hc; subst hc
          intro m hm
          rcases List.mem_append.mp hm with h1 | h1
          · exact hQ m h1
          · exact hQ m (hperm.mem_iff.mpr h1))
      · simp [hk, hv, hs, bind, Except.bind, throw, throwThe, MonadExceptOf.throw] at h

theorem keys_set_lt {d : Dict} {k v n : Nat} (hd : ∀ x ∈ d.keys, x < n) (hk : k < n) :
    ∀ x ∈ (d.set k v).keys, x < n := by
  rw [Dict.keys_set]
  split
  · exact hd
  · intro x hx
    rcases List.mem_append.mp hx with h | h
    · exact hd x h
    · rw [List.mem_singleton] at h; subst h; exact hk

theorem wf_herald {c c' : Circ K} (hw : WF c) {nPhot : Nat} {i o : Int}
    (h : c.herald nPhot i o = .ok c') : WF c' := by
  unfold Circ.herald at h
  cases hi : c.modeInRange (c.mapMode i) with
  | error e => simp [hi, bind, Except.bind] at h
  | ok a =>
    cases ho : c.modeInRange (c.mapMode o) with
    | error e => simp [hi, ho, bind, Except.bind] at h
    | ok b =>
      have ha1 := modeInRange_lt hi
      have hb1 := modeInRange_lt ho
      simp only [hi, ho, bind, Except.bind] at h
      split at h
      · simp [throw, throwThe, MonadExceptOf.throw] at h
      · split at h
        · simp [throw, throwThe, MonadExceptOf.throw] at h
        · simp [pure, Except.pure] at h
          subst h
          exact { pos := hw.pos, intNodup := hw.intNodup, intLt := hw.intLt,
                  extInLt := keys_set_lt hw.extInLt ha1,
                  extOutLt := keys_set_lt hw.extOutLt hb1,
                  compOk := hw.compOk }

theorem wf_plus {a b c : Circ K} (ha : WF a) (hb : WF b) (h : a.plus b = .ok c) : WF c := by
  unfold Circ.plus at h
  split at h
  · cases h
  · rename_i hn
    split at h
    · cases h
    · injection h with h
      subst h
      have hn' : a.n = b.n := by simpa using hn
      exact { pos := ha.pos, intNodup := List.nodup_nil, intLt := (fun _ h => nomatch h),
              extInLt := (fun _ h => nomatch h), extOutLt := (fun _ h => nomatch h),
              compOk := fun comp hc => by
                rcases List.mem_append.mp hc with h | h
                · exact ha.compOk comp h
                · have := hb.compOk comp h
                  rw [← hn'] at this
                  exact this }

theorem wf_copy {c : Circ K} (hw : WF c) : WF c.copy := hw


/-! ### histories of calls on the pool -/

/-- constructors that produce at least one mode (what the invariant needs of a history) -/
def OpSane : CircOp K → Prop
  | .new _ n => 0 < n
  | .unitary _ u => 0 < u.n
  | _ => True

theorem heap_get?_set {h : Heap K} {k k' : String} {c x : Circ K}
    (hx : (h.set k c).get? k' = some x) : x = c ∨ h.get? k' = some x := by
  unfold Heap.set at hx
  split at hx
  · clear * - hx
    induction h with
    | nil => simp [Heap.get?] at hx
    | cons p ps ih =>
      unfold Heap.get? at hx ih ⊢
      rw [List.map_cons, List.find?_cons] at hx
      rw [List.find?_cons]
      by_cases hp : p.1 = k
      · have e1 : (if (p.1 == k) = true then (k, c) else p) = (k, c) := by simp [hp]
        rw [e1] at hx
        by_cases hk : k = k'
        · left
          have : ((k, c).1 == k') = true := by simp [hk]
          rw [this] at hx
          simpa using hx.symm
        · have h1 : ((k, c).1 == k') = false := by simp [hk]
          have h2 : (p.1 == k') = false := by simp [hp, hk]
          rw [h1] at hx
          rw [h2]
          exact ih hx
      · have e1 : (if (p.1 == k) = true then (k, c) else p) = p := by simp [hp]
        rw [e1] at hx
        cases hpk : (p.1 == k')
        · rw [hpk] at hx
          exact ih hx
        · rw [hpk] at hx
          right; exact hx
  · unfold Heap.get? at hx ⊢
    rw [List.find?_append] at hx
    cases hf : h.find? (fun x => x.1 == k') with
    | some y => rw [hf] at hx; right; simpa using hx
    | none =>
      rw [hf] at hx
      left
      by_cases hk : k = k'
      · simpa [hk] using hx.symm
      · simp [hk] at hx

end LW.Disp
