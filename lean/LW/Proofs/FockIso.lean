/-
  LW.Proofs.FockIso — the Fock-space isometry for the model's amplitudes: bridge from the
  list-based model (`fockBasis`, `partitionIdx`, `permRC`) to the pure identity of
  `LW.Proofs.FockIsoCore`.
-/
import LW.Proofs.FockIsoCore
import LW.Proofs.FockIsoDeps

open Finset

namespace LW.Proofs.FockIso

variable {K : Type}

/-! ### list bookkeeping -/

theorem photons_eq_sum (l : List ℕ) : photons l = l.sum := by
  unfold photons
  rw [List.sum_eq_foldl_nat]

theorem fact_eq (n : ℕ) : fact n = n.factorial := by
  induction n with
  | zero => rfl
  | succ n ih => rw [fact, ih, Nat.factorial_succ]

theorem factProd_eq (l : List ℕ) : factProd l = (l.map Nat.factorial).prod := by
  unfold factProd
  rw [List.prod_eq_foldl_nat]
  congr 1
  exact List.map_congr_left fun a _ => fact_eq a

/-- occupation list → occupation function -/
def toW (N : ℕ) (t : List ℕ) : Fin N → ℕ := fun z => t.getD z.val 0

theorem ofFn_toW {N : ℕ} (t : List ℕ) (ht : t.length = N) : List.ofFn (toW N t) = t := by
  apply List.ext_getElem (by simp [ht])
  intro i h1 h2
  simp [toW, List.getD_eq_getElem?_getD, h2]

theorem toW_ofFn {N : ℕ} (w : Fin N → ℕ) : toW N (List.ofFn w) = w := by
  funext z
  simp [toW, List.getD_eq_getElem?_getD]

theorem factProd_eq_prod {N : ℕ} (t : List ℕ) (ht : t.length = N) :
    factProd t = ∏ z, (toW N t z).factorial := by
  rw [factProd_eq]
  conv_lhs => rw [← ofFn_toW t ht]
  rw [List.map_ofFn, List.prod_ofFn]
  rfl

theorem count_ofFn {n : ℕ} (r : Fin n → ℕ) (m : ℕ) :
    (List.ofFn r).count m = Fintype.card {k // r k = m} := by
  rw [Fintype.card_subtype, Finset.card_filter]
  induction n with
  | zero => simp
  | succ n ih =>
    rw [List.ofFn_succ, List.count_cons, ih, Fin.sum_univ_succ, add_comm]
    simp

/-- a list of `n` indices below `N` as an index function -/
def idxFn {n N : ℕ} (l : List ℕ) (hl : l.length = n) (hb : ∀ m ∈ l, m < N) : Fin n → Fin N :=
  fun k => ⟨l[k.val]'(hl ▸ k.2), hb _ (List.getElem_mem _)⟩

theorem ofFn_idxFn {n N : ℕ} (l : List ℕ) (hl : l.length = n) (hb : ∀ m ∈ l, m < N) :
    List.ofFn (fun k => (idxFn l hl hb k).val) = l := by
  subst hl
  exact List.ofFn_getElem

theorem occ_idxFn {n N : ℕ} (l : List ℕ) (hl : l.length = n) (hb : ∀ m ∈ l, m < N) (z : Fin N) :
    occ (idxFn l hl hb) z = l.count z.val := by
  conv_rhs => rw [← ofFn_idxFn l hl hb]
  rw [count_ofFn]
  unfold occ
  apply Fintype.card_congr
  exact Equiv.subtypeEquivRight fun k => Fin.ext_iff

theorem partitionIdx_lt (t : FState) (m : ℕ) (hm : m ∈ partitionIdx t) : m < t.length := by
  have h1 := List.count_pos_iff.mpr hm
  rw [(partitionIdx_spec t).2 m] at h1
  by_contra h
  simp [List.getD_eq_getElem?_getD, List.getElem?_eq_none (Nat.le_of_not_lt h)] at h1

/-- the index function of a state -/
def stateFn {n N : ℕ} (t : FState) (hl : t.length = N) (hp : photons t = n) : Fin n → Fin N :=
  idxFn (partitionIdx t) ((partitionIdx_spec t).1.trans hp) fun m hm => hl ▸ partitionIdx_lt t m hm

theorem occ_stateFn {n N : ℕ} (t : FState) (hl : t.length = N) (hp : photons t = n) :
    occ (stateFn t hl hp) = toW N t := by
  funext z
  unfold stateFn
  rw [occ_idxFn, (partitionIdx_spec t).2]
  rfl

theorem ampNum_eq [CommRing K] (U : M K) {n : ℕ} (s t : FState) (hsl : s.length = U.n)
    (hsp : photons s = n) (htl : t.length = U.n) (htp : photons t = n) :
    ampNum U s t = (U.toMat.submatrix (stateFn t htl htp) (stateFn s hsl hsp)).permanent := by
  have h := permRC_eq_permanent U n (fun k => (stateFn t htl htp k).val)
    (fun k => (stateFn s hsl hsp k).val)
  unfold stateFn at h
  rw [ofFn_idxFn, ofFn_idxFn] at h
  unfold ampNum
  rw [h]
  rfl

/-! ### the isometry -/

theorem amplitudes_unit_vector [Field K] [StarRing K] [CharZero K] (U : M K) (hU : IsUnitary U)
    (hN : 0 < U.n) (s : FState) (hs : s.length = U.n) :
    ((fockBasis U.n (photons s)).map fun t =>
        ampNum U s t * star (ampNum U s t) / ((ampNormSq s t : Nat) : K)).sum = 1 := by
  classical
  have hUc : star U.toMat * U.toMat = 1 := Matrix.mem_unitaryGroup_iff'.mp hU
  rw [← List.sum_toFinset _ (fockBasis_nodup _ _)]
  have hmem : ∀ t, t ∈ (fockBasis U.n (photons s)).toFinset ↔
      t.length = U.n ∧ photons t = photons s := fun t => by
    rw [List.mem_toFinset, fockBasis_complete _ _ hN]
  set F : FState → K := fun t =>
    ampNum U s t * star (ampNum U s t) / ((ampNormSq s t : Nat) : K) with hF
  have hinj : Set.InjOn (toW U.n) ((fockBasis U.n (photons s)).toFinset : Set FState) := by
    intro t1 h1 t2 h2 h
    rw [← ofFn_toW t1 ((hmem t1).mp h1).1, ← ofFn_toW t2 ((hmem t2).mp h2).1, h]
  have key := isometry_pure U.toMat hUc (stateFn s hs rfl)
    ((fockBasis U.n (photons s)).toFinset.image (toW U.n)) ?_ (fun w => F (List.ofFn w)) ?_
  · rw [Finset.sum_image hinj] at key
    rw [← key]
    apply Finset.sum_congr rfl
    intro t ht
    rw [ofFn_toW t ((hmem t).mp ht).1]
  · intro f
    refine Finset.mem_image.mpr ⟨List.ofFn (occ f), (hmem _).mpr ⟨by simp, ?_⟩, toW_ofFn _⟩
    rw [photons_eq_sum, List.sum_ofFn, sum_occ, Fintype.card_fin]
  · intro w hw
    obtain ⟨t, ht, rfl⟩ := Finset.mem_image.mp hw
    obtain ⟨htl, htp⟩ := (hmem t).mp ht
    refine ⟨stateFn t htl htp, occ_stateFn t htl htp, ?_⟩
    simp only [ofFn_toW t htl, hF]
    rw [← ampNum_eq U s t hs rfl htl htp, occ_stateFn s hs rfl, ← factProd_eq_prod s hs,
      ← factProd_eq_prod t htl]
    rfl

end LW.Proofs.FockIso
