/-
  LW.Proofs.C15Main — the statements of LW/Properties/C15.lean that are assembled from several
  lemmas, and the concrete instance over ℂ used as non-vacuity example.
-/
import Mathlib.Analysis.Real.Sqrt
import Mathlib.Data.Complex.Basic
import LW.Proofs.C15Circuits

open scoped BigOperators

namespace LW.Proofs.C15

open LW.Tomo

variable {K : Type} [Field K] [StarRing K] [DecidableEq K]

set_option linter.unusedSectionVars false

theorem process_pure {i h : K} (hc : Consts i h) (h2 : (1 + 1 : K) ≠ 0) (n : Nat)
    (hn : 0 < n) (psi : Nat → K) (hnorm : normSq n psi ≠ 0) (order : List Meas) (rs : List (Res K))
    (hcover : ∀ c ∈ tomoMeasurements n, c.map toZ ∈ order)
    (hrs : List.Forall₂ (fun s r => r.Perm (bornTable i h n (densityOfState (2 ^ n) psi) s)) order rs)
    (sqrtm : M K → M K) (hsq : ∀ A : M K, A.mul A = A → sqrtm A = A) :
    ∃ rho, process i n order rs = .ok rho ∧ rho.n = 2 ^ n ∧
      (∀ r k, r < 2 ^ n → k < 2 ^ n → rho.get r k = psi r * star (psi k) * (normSq n psi)⁻¹) ∧
      (∀ r k, r < 2 ^ n → k < 2 ^ n → star (rho.get k r) = rho.get r k) ∧
      trace rho = 1 ∧
      stateFidelity sqrtm rho rho = .ok 1 := by
  have htr : trN n (densityOfState (2 ^ n) psi) ≠ 0 := by rw [trN_densityOfState]; exact hnorm
  obtain ⟨h1, h3, h4, h5, h6⟩ := normalised_pure n psi hnorm
  exact ⟨_, process_born hc h2 n hn _ htr order rs hcover hrs, h1, h3, h4, h5,
    stateFidelity_projector sqrtm hsq _ h6 h5⟩

theorem required_settings {n : Nat} (hn : 0 < n) :
    (requiredSet n).Nodup ∧ (∀ s, s ∈ requiredSet n ↔ s ∈ requiredSpec n) ∧
    (∀ s, s ∈ requiredSpec n ↔ s.length = n ∧ ∀ p ∈ s, p ∈ [Pauli.X, Pauli.Y, Pauli.Z]) ∧
    ∀ order : List Meas, order.Perm (requiredSet n) →
      ∀ c ∈ tomoMeasurements n, c.map toZ ∈ order := by
  refine ⟨requiredSet_nodup n, fun s => mem_requiredSet hn s, ?_, fun order hp => cover_of_perm hp⟩
  intro s
  unfold requiredSpec combineAll
  rw [mem_combos]
  constructor
  · rintro ⟨h1, h2⟩
    exact ⟨by omega, h2⟩
  · rintro ⟨h1, h2⟩
    exact ⟨by omega, h2⟩

theorem forall2_map_self {α β : Type} (f : α → List β) (l : List α) :
    List.Forall₂ (fun s r => r.Perm (f s)) l (l.map f) := by
  induction l with
  | nil => exact List.Forall₂.nil
  | cons a t ih => exact List.Forall₂.cons (List.Perm.refl _) ih

noncomputable section
open Classical

theorem consts_complex : Consts (Complex.I) (((Real.sqrt 2)⁻¹ : ℝ) : ℂ) where
  i_sq := Complex.I_mul_I
  i_star := Complex.conj_I
  h_star := Complex.conj_ofReal _
  h_sq := by
    rw [← Complex.ofReal_mul, ← Complex.ofReal_add, ← mul_inv,
      Real.mul_self_sqrt (by norm_num : (0 : ℝ) ≤ 2)]
    norm_num

theorem example_instance :
    process Complex.I 1 [[Pauli.Y], [Pauli.Z], [Pauli.X]]
        ([[Pauli.Y], [Pauli.Z], [Pauli.X]].map
          (bornTable Complex.I (((Real.sqrt 2)⁻¹ : ℝ) : ℂ) 1 (mat2 1 Complex.I (-Complex.I) 3)))
      = .ok (normalised 1 (mat2 1 Complex.I (-Complex.I) 3)) := by
  apply process_born consts_complex (by norm_num) 1 (by norm_num)
  · unfold trN
    simp [Finset.sum_range_succ]
    norm_num
  · decide
  · exact forall2_map_self _ _

end

end LW.Proofs.C15
