import LW.Proofs.DistDefs
import LW.Proofs.C04a
import LW.Proofs.FockIso
import LW.Proofs.FockFunctor
import LW.Proofs.C04bSlos
import Mathlib.Algebra.Order.BigOperators.Group.List
import Mathlib.Algebra.Order.BigOperators.GroupWithZero.List
import Mathlib.Algebra.BigOperators.Ring.List

open Finset

namespace LW.Proofs.C04b

open LW LW.Proofs.C04a
open LW.Proofs.FockIso (occ toW stateFn)

variable {K Q : Type}

set_option linter.unusedSectionVars false

/-! ### (1) SLOS = permanent -/

theorem slosPhi_eq_tab [CommRing K] (U : M K) (s : FState) (hs : s.length = U.n) :
    slosPhi U s = slosTab U (fun k => (stateFn s hs rfl k).val) := by
  unfold slosPhi slosTab stateFn
  rw [FockIso.ofFn_idxFn]

theorem slos_eq_permanent [CommRing K] (U : M K) (hN : 0 < U.n) (s t : FState)
    (hs : s.length = U.n) (ht : t.length = U.n) (hp : photons t = photons s) :
    ampNum U s t = ((factProd t : Nat) : K) * slosGet (slosPhi U s) t := by
  have _ := hN
  rw [FockIso.ampNum_eq U s t hs rfl ht hp, FockIso.permanent_eq_fibre, nsmul_eq_mul,
    slosPhi_eq_tab U s hs, slosTab_get U _ t ht, FockIso.factProd_eq_prod t ht]
  simp only [FockIso.occ_stateFn]
  rfl

/-! ### shared bookkeeping -/

theorem sum_filter_ite {α A : Type} [AddCommMonoid A] (l : List α) (c : α → Prop) [DecidablePred c]
    (v : α → A) :
    ((l.filter fun o => c o).map v).sum = (l.map fun o => if c o then v o else 0).sum := by
  induction l with
  | nil => rfl
  | cons a l ih =>
    by_cases h : c a
    · rw [List.filter_cons_of_pos (by simpa using h), List.map_cons, List.sum_cons, ih,
        List.map_cons, List.sum_cons, if_pos h]
    · rw [List.filter_cons_of_neg (by simpa using h), ih, List.map_cons, List.sum_cons, if_neg h,
        zero_add]

/-- a sum over the entries of a table with distinct keys, as a sum over any duplicate-free list
containing the keys (absent keys read as `0`) -/
theorem table_sum_eq {A : Type} [AddCommMonoid A] [AddCommMonoid K] (d : List (FState × K))
    (hd : (d.map (·.1)).Nodup) (B : List FState) (hB : B.Nodup) (hsub : ∀ k ∈ d.map (·.1), k ∈ B)
    (g : FState → K → A) (hg : ∀ t, g t 0 = 0) :
    (d.map fun x => g x.1 x.2).sum = (B.map fun t => g t (slosGet d t)).sum := by
  have h1 : d.map (fun x => g x.1 x.2) = (d.map (·.1)).map (fun t => g t (slosGet d t)) := by
    rw [List.map_map]
    apply List.map_congr_left
    intro x hx
    simp only [Function.comp_apply, slosGet_of_mem d hd x hx]
  rw [h1, ← List.sum_toFinset _ hd, ← List.sum_toFinset _ hB]
  apply Finset.sum_subset
  · intro k hk
    rw [List.mem_toFinset] at hk ⊢
    exact hsub k hk
  · intro t _ ht
    rw [List.mem_toFinset] at ht
    rw [slosGet_of_not_mem d t ht, hg]

theorem factProd_pos (t : FState) : 0 < factProd t := by
  rw [FockIso.factProd_eq]
  apply List.prod_pos
  intro a ha
  obtain ⟨b, _, rfl⟩ := List.mem_map.1 ha
  exact Nat.factorial_pos b

theorem inS_length (U : M K) (nReal : Nat) (input : FState) (hlen : input.length = nReal)
    (hU : nReal ≤ U.n) : (input ++ List.replicate (U.n - nReal) 0).length = U.n := by
  rw [List.length_append, List.length_replicate, hlen]; omega

theorem inS_photons (k : Nat) (input : FState) :
    photons (input ++ List.replicate k 0) = photons input := by
  rw [photons_append, photons_replicate_zero, Nat.add_zero]

theorem slosPhi_nodup [CommRing K] (U : M K) (s : FState) (hs : s.length = U.n) :
    ((slosPhi U s).map (·.1)).Nodup := by
  rw [slosPhi_eq_tab U s hs]
  exact slosTab_nodup U _

theorem slosPhi_sub_basis [CommRing K] (U : M K) (hN : 0 < U.n) (s : FState) :
    ∀ k ∈ (slosPhi U s).map (·.1), k ∈ fockBasis U.n (photons s) := by
  intro k hk
  rw [FockIso.fockBasis_complete _ _ hN]
  exact slosPhi_keys U s k hk

/-- the two backends' per-output probabilities coincide -/
theorem transProb_eq_slos [CommRing K] [Field Q] [LinearOrder Q] [IsStrictOrderedRing Q]
    (nsq : K → Q) (hmul : ∀ a b, nsq (a * b) = nsq a * nsq b)
    (hnat : ∀ n : Nat, nsq (n : K) = (n : Q) * (n : Q)) (U : M K) (hN : 0 < U.n) (s o : FState)
    (hs : s.length = U.n) (ho : o.length = U.n) (hp : photons o = photons s) :
    transProb nsq U s o =
      nsq (slosGet (slosPhi U s) o) * ((factProd o : Nat) : Q) / ((factProd s : Nat) : Q) := by
  unfold transProb ampNormSq
  rw [slos_eq_permanent U hN s o hs ho hp, hmul, hnat, Nat.cast_mul]
  have h1 : ((factProd o : Nat) : Q) ≠ 0 := Nat.cast_ne_zero.2 (factProd_pos o).ne'
  have h2 : ((factProd s : Nat) : Q) ≠ 0 := Nat.cast_ne_zero.2 (factProd_pos s).ne'
  field_simp

/-! ### (3) normalisation -/

section Norm
variable [Field K] [StarRing K] [CharZero K] [Field Q] [LinearOrder Q] [IsStrictOrderedRing Q]

theorem hmul_of_hnsq (nsq : K → Q) (ι : Q →+* K) (hι : Function.Injective ι)
    (hnsq : ∀ z, ι (nsq z) = z * star z) (a b : K) : nsq (a * b) = nsq a * nsq b := by
  apply hι
  rw [map_mul, hnsq, hnsq, hnsq, star_mul']
  ring

theorem hnat_of_hnsq (nsq : K → Q) (ι : Q →+* K) (hι : Function.Injective ι)
    (hnsq : ∀ z, ι (nsq z) = z * star z) (n : Nat) : nsq (n : K) = (n : Q) * (n : Q) := by
  apply hι
  rw [hnsq, map_mul, map_natCast, star_natCast]

theorem transProb_sum_one (nsq : K → Q) (ι : Q →+* K) (hι : Function.Injective ι)
    (hnsq : ∀ z, ι (nsq z) = z * star z) (U : M K) (hU : IsUnitary U) (hN : 0 < U.n)
    (s : FState) (hs : s.length = U.n) :
    ((fockBasis U.n (photons s)).map (transProb nsq U s)).sum = 1 := by
  apply hι
  rw [map_list_sum, List.map_map, map_one, ← FockIso.amplitudes_unit_vector U hU hN s hs]
  congr 1
  apply List.map_congr_left
  intro t _
  simp only [Function.comp_apply, transProb, map_div₀, hnsq, map_natCast]

theorem transProb_nonneg (nsq : K → Q) (hn : ∀ z, 0 ≤ nsq z) (U : M K) (s o : FState) :
    0 ≤ transProb nsq U s o :=
  div_nonneg (hn _) (Nat.cast_nonneg _)

/-- the per-entry probability of the SLOS backend -/
abbrev slosP (nsq : K → Q) (inS : FState) (t : FState) (a : K) : Q :=
  nsq a * ((factProd t : Nat) : Q) / ((factProd inS : Nat) : Q)

theorem slosP_nonneg (nsq : K → Q) (hn : ∀ z, 0 ≤ nsq z) (inS t : FState) (a : K) :
    0 ≤ slosP nsq inS t a :=
  div_nonneg (mul_nonneg (hn _) (Nat.cast_nonneg _)) (Nat.cast_nonneg _)

theorem fullDist_total_one (nsq : K → Q) (ι : Q →+* K) (hι : Function.Injective ι)
    (hnsq : ∀ z, ι (nsq z) = z * star z) (hn : ∀ z, 0 ≤ nsq z)
    (b : BackendKind) (U : M K) (hU : IsUnitary U) (nReal : Nat) (input : FState)
    (hlen : input.length = nReal) (hle : nReal ≤ U.n) (hpos : 0 < nReal) :
    (fullDist b nsq 0 U nReal input).total = 1 := by
  have hN : 0 < U.n := by omega
  have hinLen := inS_length U nReal input hlen hle
  have hinPh := inS_photons (U.n - nReal) input
  have hone := transProb_sum_one nsq ι hι hnsq U hU hN _ hinLen
  have hmul := hmul_of_hnsq nsq ι hι hnsq
  have hnat := hnat_of_hnsq nsq ι hι hnsq
  cases b with
  | permanent =>
    show (fullDistPermanent nsq 0 U nReal input).total = 1
    rw [fullDistPermanent_eq]
    by_cases h0 : photons input = 0
    · rw [if_pos h0, total_eq_sum]; simp
    · rw [if_neg h0]
      have htot := permPd_total nsq 0 U nReal input
      simp only [hinLen] at htot
      by_cases ht : (permPd nsq 0 U nReal input).total < 1 ∧ U.n - nReal > 0
      · rw [if_pos ht, permPd_filter, total_eq_sum, List.map_append, List.sum_append,
          ← total_eq_sum]
        simp
      · rw [if_neg ht]
        rw [sum_filter_ite] at htot
        have hle1 : (permPd nsq 0 U nReal input).total ≤ 1 := by
          rw [htot, ← hone]
          apply List.sum_le_sum
          intro o _
          split_ifs
          · exact le_rfl
          · exact transProb_nonneg nsq hn U _ o
        rcases not_and_or.1 ht with h | h
        · exact le_antisymm hle1 (not_lt.1 h)
        · have hUn : U.n = nReal := by omega
          rw [htot, ← hone]
          congr 1
          apply List.map_congr_left
          intro o ho
          obtain ⟨ho1, ho2⟩ := (FockIso.fockBasis_complete _ _ hN o).1 ho
          have hto : o.take nReal = o := List.take_of_length_le (by omega)
          by_cases hc : photons (o.take nReal) ≠ 0 ∧
              0 < transProb nsq U (input ++ List.replicate (U.n - nReal) 0) o
          · rw [if_pos hc]
          · rw [if_neg hc]
            rcases not_and_or.1 hc with h' | h'
            · exfalso
              apply h'
              rw [hto, ho2, hinPh]
              exact h0
            · exact le_antisymm (transProb_nonneg nsq hn U _ o) (not_lt.1 h')
  | slos =>
    show (fullDistSlos nsq 0 U nReal input).total = 1
    rw [fullDistSlos_eq]
    by_cases h0 : photons input = 0
    · rw [if_pos h0, total_eq_sum]; simp
    · rw [if_neg h0]
      have h0t : PDist.total ([] : PDist Q) = 0 := rfl
      rw [fold_total (Q := Q) (α := FState × K) _
        (fun x : FState × K => 0 < slosP nsq (input ++ List.replicate (U.n - nReal) 0) x.1 x.2)
        (fun x => x.1.take nReal)
        (fun x => slosP nsq (input ++ List.replicate (U.n - nReal) 0) x.1 x.2)
        (fun _ _ => rfl) _ [] (by simp), h0t, zero_add, sum_filter_ite]
      have h1 : ∀ x : FState × K,
          (if 0 < slosP nsq (input ++ List.replicate (U.n - nReal) 0) x.1 x.2 then
            slosP nsq (input ++ List.replicate (U.n - nReal) 0) x.1 x.2 else 0) =
          slosP nsq (input ++ List.replicate (U.n - nReal) 0) x.1 x.2 := by
        intro x
        split_ifs with h
        · rfl
        · exact le_antisymm (slosP_nonneg nsq hn _ _ _) (not_lt.1 h)
      simp only [h1]
      rw [table_sum_eq _ (slosPhi_nodup U _ hinLen) _ (FockIso.fockBasis_nodup U.n _)
        (slosPhi_sub_basis U hN _) (slosP nsq (input ++ List.replicate (U.n - nReal) 0))
        (fun t => by
          have : nsq 0 = 0 := by simpa using hnat 0
          simp [slosP, this]),
        ← hone]
      congr 1
      apply List.map_congr_left
      intro o ho
      obtain ⟨ho1, ho2⟩ := (FockIso.fockBasis_complete _ _ hN o).1 ho
      rw [transProb_eq_slos nsq hmul hnat U hN _ o hinLen ho1 ho2]

end Norm

/-! ### (2) the backends agree -/

theorem backends_agree [CommRing K] [Field Q] [LinearOrder Q] [IsStrictOrderedRing Q]
    (nsq : K → Q) (hmul : ∀ a b, nsq (a * b) = nsq a * nsq b)
    (hnat : ∀ n : Nat, nsq (n : K) = (n : Q) * (n : Q))
    (eps : Q) (U : M K) (nReal : Nat) (input : FState) (hlen : input.length = nReal)
    (hU : nReal ≤ U.n) (hpos : 0 < nReal) (r : FState) (hr : photons r ≠ 0) :
    ((fullDistSlos nsq eps U nReal input).get? r).getD 0 =
      ((fullDistPermanent nsq eps U nReal input).get? r).getD 0 := by
  have hN : 0 < U.n := by omega
  have hinLen := inS_length U nReal input hlen hU
  by_cases h0 : photons input = 0
  · rw [fullDistSlos_eq, fullDistPermanent_eq, if_pos h0, if_pos h0]
  · have hm := fullDistPermanent_marginal nsq eps U nReal input h0 r hr
    simp only [hinLen] at hm
    rw [hm, sum_filter_ite, fullDistSlos_eq, if_neg h0,
      fold_getD (Q := Q) (α := FState × K) _
        (fun x : FState × K => eps < slosP nsq (input ++ List.replicate (U.n - nReal) 0) x.1 x.2)
        (fun x => x.1.take nReal)
        (fun x => slosP nsq (input ++ List.replicate (U.n - nReal) 0) x.1 x.2)
        (fun _ _ => rfl) _ [] r, get?_nil, Option.getD_none, zero_add, sum_filter_ite]
    have hnsq0 : nsq 0 = 0 := by simpa using hnat 0
    refine Eq.trans (table_sum_eq _ (slosPhi_nodup U _ hinLen) _ (FockIso.fockBasis_nodup U.n _)
      (slosPhi_sub_basis U hN _)
      (fun t a => if eps < slosP nsq (input ++ List.replicate (U.n - nReal) 0) t a ∧
          t.take nReal = r then slosP nsq (input ++ List.replicate (U.n - nReal) 0) t a else 0)
      (fun t => by simp [slosP, hnsq0])) ?_
    congr 1
    apply List.map_congr_left
    intro o ho
    obtain ⟨ho1, ho2⟩ := (FockIso.fockBasis_complete _ _ hN o).1 ho
    rw [transProb_eq_slos nsq hmul hnat U hN _ o hinLen ho1 ho2]
    simp only [and_comm]

/-! ### (4) mixtures -/

section Mix
variable [Field Q] [LinearOrder Q] [IsStrictOrderedRing Q]

/-- adding a weighted dictionary into an accumulator with distinct keys -/
theorem mix_step (F : PDist Q) (w : Q) (acc : PDist Q) (hacc : (acc.map (·.1)).Nodup) :
    ((F.foldl (fun (pd : PDist Q) (tp : FState × Q) => pd.addTo tp.1 (tp.2 * w)) acc).map
        (·.1)).Nodup ∧
      (F.foldl (fun (pd : PDist Q) (tp : FState × Q) => pd.addTo tp.1 (tp.2 * w)) acc).total =
        acc.total + F.total * w := by
  refine ⟨fold_keys_nodup _ (fun _ => True) (fun tp : FState × Q => tp.1)
      (fun tp : FState × Q => tp.2 * w) (fun _ _ => (if_pos trivial).symm) F acc hacc, ?_⟩
  rw [fold_total _ (fun _ => True) (fun tp : FState × Q => tp.1)
      (fun tp : FState × Q => tp.2 * w) (fun _ _ => (if_pos trivial).symm) F acc hacc,
    total_eq_sum F, ← List.sum_map_mul_right]
  simp

theorem mix_fold (G : FState → PDist Q) (inputs : List (FState × Q))
    (hG : ∀ x ∈ inputs, (G x.1).total = 1) (acc : PDist Q) (hacc : (acc.map (·.1)).Nodup) :
    (inputs.foldl (fun (pd : PDist Q) (sw : FState × Q) =>
      (G sw.1).foldl (fun (pd : PDist Q) (tp : FState × Q) => pd.addTo tp.1 (tp.2 * sw.2)) pd)
      acc).total = acc.total + (inputs.map (·.2)).sum := by
  induction inputs generalizing acc with
  | nil => simp
  | cons x l ih =>
    obtain ⟨h1, h2⟩ := mix_step (G x.1) x.2 acc hacc
    rw [List.foldl_cons, ih (fun y hy => hG y (by simp [hy])) _ h1, h2, hG x (by simp),
      List.map_cons, List.sum_cons, one_mul, add_assoc]

end Mix

theorem pdistCalc_total_one [Field K] [StarRing K] [CharZero K] [Field Q] [LinearOrder Q]
    [IsStrictOrderedRing Q] (nsq : K → Q) (ι : Q →+* K) (hι : Function.Injective ι)
    (hnsq : ∀ z, ι (nsq z) = z * star z) (hn : ∀ z, 0 ≤ nsq z)
    (b : BackendKind) (U : M K) (hU : IsUnitary U) (nReal : Nat) (hle : nReal ≤ U.n)
    (hpos : 0 < nReal) (inputs : List (FState × Q))
    (hin : ∀ x ∈ inputs, x.1.length = nReal ∧ 0 ≤ x.2) (hw : (inputs.map (·.2)).sum = 1) :
    (pdistCalc b nsq 0 U nReal inputs).total = 1 := by
  have hc : (calcPd b nsq 0 U nReal inputs).total = 1 := by
    unfold calcPd
    have h0t : PDist.total ([] : PDist Q) = 0 := rfl
    rw [mix_fold (fun s => fullDist b nsq 0 U nReal s) inputs
      (fun x hx => fullDist_total_one nsq ι hι hnsq hn b U hU nReal x.1 (hin x hx).1 hle hpos)
      [] (by simp), h0t, zero_add, hw]
  rw [pdistCalc_eq, hc, if_neg (fun h => lt_irrefl _ h.1)]
  exact hc

/-! ### non-vacuity (cheap instance; the unitary instance over ℂ is in `LW.Proofs.C04bExample`)
`K = ℤ`, `Q = ℚ`, unnormalised Hadamard, `|z|² := z²`, negative truncation threshold: the output
`[1, 1]` has amplitude `0` (Hong–Ou–Mandel), so its key exists in one backend only. -/

section NonVacuity

private def Uex : M Int := ⟨2, #[#[1, 1], #[1, -1]]⟩
private def nsqex : Int → Rat := fun z => ((z * z : Int) : Rat)

example : ((fullDistSlos nsqex (-1) Uex 2 [1, 1]).get? [1, 1]).getD 0 =
    ((fullDistPermanent nsqex (-1) Uex 2 [1, 1]).get? [1, 1]).getD 0 :=
  backends_agree nsqex (by intro a b; simp only [nsqex]; push_cast; ring)
    (by intro n; simp [nsqex]) (-1) Uex 2 [1, 1] rfl (by decide) (by decide) [1, 1] (by decide)

example : ampNum Uex [1, 1] [0, 2] = ((factProd [0, 2] : Nat) : Int) * slosGet (slosPhi Uex [1, 1]) [0, 2] :=
  slos_eq_permanent Uex (by decide) [1, 1] [0, 2] rfl rfl rfl

end NonVacuity

end LW.Proofs.C04b
