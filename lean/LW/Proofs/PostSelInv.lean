/-
  LW.Proofs.PostSelInv — invariants of the `PostSelection` state machine (LW.Model.PostSel) over
  every history of `add` / `multi_rules` assignments, and its relation to `psValidate`.
-/
import Mathlib.Data.List.Basic
import LW.Model.PostSel

namespace LW.PostSel

/-! ### `insertSet` -/

theorem mem_insertSet {m x : Nat} {l : List Nat} : x ∈ insertSet m l ↔ x = m ∨ x ∈ l := by
  unfold insertSet
  split
  · rename_i h
    have hm : m ∈ l := by simpa using h
    constructor
    · exact Or.inr
    · rintro (rfl | h') <;> assumption
  · simp [or_comm]

theorem nodup_insertSet {m : Nat} {l : List Nat} (h : l.Nodup) : (insertSet m l).Nodup := by
  unfold insertSet
  split
  · exact h
  · rename_i hc
    have hm : m ∉ l := by simpa using hc
    exact List.nodup_append.mpr ⟨h, by simp, by
      intro a ha b hb; simp at hb; subst hb; exact fun e => hm (e ▸ ha)⟩

theorem mem_foldl_insertSet (ms : List Nat) (l : List Nat) (x : Nat) :
    x ∈ ms.foldl (fun acc m => insertSet m acc) l ↔ x ∈ ms ∨ x ∈ l := by
  induction ms generalizing l with
  | nil => simp
  | cons m ms ih =>
    simp only [List.foldl_cons, ih, mem_insertSet, List.mem_cons]
    tauto

theorem nodup_foldl_insertSet (ms : List Nat) (l : List Nat) (h : l.Nodup) :
    (ms.foldl (fun acc m => insertSet m acc) l).Nodup := by
  induction ms generalizing l with
  | nil => exact h
  | cons m ms ih => exact ih _ (nodup_insertSet h)

/-! ### what an accepted `add` does -/

/-- an accepted `add` appends exactly one rule, records its modes, leaves `multi_rules` alone; and
without `multi_rules` none of the new rule's modes had a rule before -/
theorem add_ok {p q : PS} {m n : PArg} (h : p.add m n = .ok q) :
    ∃ r : Rule, q.rules = p.rules ++ [r] ∧ q.multi = p.multi ∧
      q.modesWith = r.modes.foldl (fun acc m => insertSet m acc) p.modesWith ∧
      (p.multi = false → ∀ x ∈ r.modes, x ∉ p.modesWith) := by
  unfold PS.add at h
  cases hm : checkIntOrTuple m with
  | error e => simp [hm, bind, Except.bind] at h
  | ok ms =>
    cases hn : checkIntOrTuple n with
    | error e => simp [hm, hn, bind, Except.bind] at h
    | ok ns =>
      simp only [hm, hn, bind, Except.bind, pure, Except.pure] at h
      by_cases h1 : ms.any (· < 0) = true
      · simp [h1, throw, throwThe, MonadExceptOf.throw] at h
      · by_cases h2 : ns.any (· < 0) = true
        · simp [h1, h2, throw, throwThe, MonadExceptOf.throw] at h
        · simp [h1, h2, throw, throwThe, MonadExceptOf.throw] at h
          split at h
          · cases h
          · rename_i h3
            injection h with h
            subst h
            refine ⟨⟨ms.map Int.toNat, ns.map Int.toNat⟩, rfl, rfl, rfl, ?_⟩
            intro hmulti x hx hin
            apply h3
            refine ⟨hmulti, ?_⟩
            simp only [List.mem_map] at hx
            obtain ⟨a, ha, rfl⟩ := hx
            exact ⟨a, ha, hin⟩

/-! ### the listing invariant -/

/-- `__modes_with_rules` is duplicate-free and holds exactly the modes of the stored rules -/
def Inv (p : PS) : Prop :=
  p.modesWith.Nodup ∧ ∀ x, x ∈ p.modesWith ↔ ∃ r ∈ p.rules, x ∈ r.modes

theorem inv_new (b : Bool) : Inv (PS.new b) := by
  refine ⟨List.nodup_nil, fun x => ?_⟩
  simp [PS.new]

theorem inv_step {p : PS} (h : Inv p) (op : Op) : Inv (p.step op) := by
  cases op with
  | setMulti b => exact h
  | add m n =>
    simp only [PS.step]
    cases hq : p.add m n with
    | error e => exact h
    | ok q =>
      simp only
      obtain ⟨r, hr, _, hmw, _⟩ := add_ok hq
      refine ⟨hmw ▸ nodup_foldl_insertSet _ _ h.1, fun x => ?_⟩
      rw [hmw, mem_foldl_insertSet, hr, h.2 x]
      constructor
      · rintro (hx | ⟨r', hr', hx⟩)
        · exact ⟨r, by simp, hx⟩
        · exact ⟨r', by simp [hr'], hx⟩
      · rintro ⟨r', hr', hx⟩
        rcases List.mem_append.mp hr' with h' | h'
        · exact Or.inr ⟨r', h', hx⟩
        · simp at h'; subst h'; exact Or.inl hx

theorem inv_run (p : PS) (h : Inv p) (ops : List Op) : Inv (p.run ops) := by
  induction ops generalizing p with
  | nil => exact h
  | cons op ops ih => exact ih _ (inv_step h op)

/-! ### one rule per mode while `multi_rules` stays off -/

def Disjoint (p : PS) : Prop :=
  p.rules.Pairwise fun r1 r2 => ∀ x ∈ r1.modes, x ∉ r2.modes

def noMultiOn : Op → Prop
  | .setMulti b => b = false
  | .add _ _ => True

theorem disjoint_step {p : PS} (hi : Inv p) (hm : p.multi = false) (hd : Disjoint p) (op : Op)
    (hop : noMultiOn op) : (p.step op).multi = false ∧ Disjoint (p.step op) := by
  cases op with
  | setMulti b => exact ⟨hop, hd⟩
  | add m n =>
    simp only [PS.step]
    cases hq : p.add m n with
    | error e => exact ⟨hm, hd⟩
    | ok q =>
      simp only
      obtain ⟨r, hr, hmu, _, hfresh⟩ := add_ok hq
      refine ⟨hmu ▸ hm, ?_⟩
      unfold Disjoint
      rw [hr, List.pairwise_append]
      refine ⟨hd, List.pairwise_singleton _ _, ?_⟩
      intro r1 hr1 r2 hr2 x hx1 hx2
      simp at hr2
      subst hr2
      exact hfresh hm x hx2 ((hi.2 x).mpr ⟨r1, hr1, hx1⟩)

theorem disjoint_run (p : PS) (hi : Inv p) (hm : p.multi = false) (hd : Disjoint p) (ops : List Op)
    (hops : ∀ op ∈ ops, noMultiOn op) : Disjoint (p.run ops) := by
  induction ops generalizing p with
  | nil => exact hd
  | cons op ops ih =>
    have h := disjoint_step hi hm hd op (hops op (List.mem_cons_self ..))
    exact ih _ (inv_step hi op) h.1 h.2 fun o ho => hops o (List.mem_cons_of_mem _ ho)

/-! ### `validate` -/

theorem validateRules_eq (rules : List Rule) (s : FState)
    (hr : ∀ r ∈ rules, ∀ m ∈ r.modes, m < s.length) :
    validateRules rules s = .ok (psValidate rules s) := by
  induction rules with
  | nil => rfl
  | cons r rs ih =>
    have h1 : ruleValidate r s = .ok (r.validate s) := by
      unfold ruleValidate Rule.validate
      rw [if_neg]
      simp only [List.any_eq_true, not_exists, not_and]
      intro m hm
      have := hr r (List.mem_cons_self ..) m hm
      simp; omega
    have ih' := ih fun r' h' => hr r' (List.mem_cons_of_mem _ h')
    simp only [validateRules, h1, bind, Except.bind, psValidate, List.all_cons]
    cases hv : r.validate s
    · simp [pure, Except.pure]
    · simp only [if_true, Bool.true_and]
      exact ih'

/-- a state accepted under `rules ++ more` is accepted under `rules` -/
theorem validateRules_append_true (rules more : List Rule) (s : FState)
    (h : validateRules (rules ++ more) s = .ok true) : validateRules rules s = .ok true := by
  induction rules with
  | nil => rfl
  | cons r rs ih =>
    simp only [List.cons_append, validateRules, bind, Except.bind] at h ⊢
    cases hr : ruleValidate r s with
    | error e => rw [hr] at h; cases h
    | ok b =>
      rw [hr] at h
      cases b with
      | false => simp at h; cases h
      | true => simp only [if_true] at h ⊢; exact ih h

end LW.PostSel
