/-
  LW.Proofs.C02SemAdd5 — the closed form of the composed optic and the correspondence of its
  row / column selectors with those of the result of `Circuit.add` (through `tau`).
-/
import LW.Proofs.C02SemAdd4

open scoped BigOperators

namespace LW.Proofs.C02Sem

open LW LW.Proofs.C01Aux LW.Proofs.C02

variable {K : Type} [CommRing K] [StarRing K]

set_option linter.unusedSectionVars false

/-! ### list helpers -/

theorem getD_map' {α β : Type} (f : α → β) (l : List α) (k : Nat) (d : β) (d' : α) (hk : k < l.length) :
    (l.map f).getD k d = f (l.getD k d') := by
  rw [List.getD_eq_getElem _ _ (by rw [List.length_map]; exact hk), List.getD_eq_getElem _ _ hk,
    List.getElem_map]

theorem map_getD_range (l : List Nat) (d : Nat) :
    (List.range l.length).map (fun k => l.getD k d) = l := by
  apply List.ext_getElem
  · simp
  · intro k h1 h2
    rw [List.getElem_map, List.getElem_range, List.getD_eq_getElem _ _ h2]

/-! ### fields of `compose` -/

section Compose
variable (x : Optic K) (s : Closed K) (m : Nat)

theorem compose_p : (x.compose s m).p = x.p := rfl
theorem compose_a : (x.compose s m).a = x.a + s.hn.length := rfl
theorem compose_l : (x.compose s m).l = x.l + s.l := rfl
theorem compose_her : (x.compose s m).her = x.her ++ (List.range s.hn.length).map fun k =>
    (⟨x.p + x.a + k, x.p + x.a + k, s.hn.getD k 0⟩ : Her) := rfl

theorem compose_extIn : (x.compose s m).extIn = x.extIn := by
  unfold Optic.extIn
  rw [compose_her, compose_p, List.filter_append]
  have : ((List.range s.hn.length).map fun k =>
      (⟨x.p + x.a + k, x.p + x.a + k, s.hn.getD k 0⟩ : Her)).filter (fun hh => decide (hh.i < x.p)) = [] := by
    rw [List.filter_eq_nil_iff]
    intro hh hm
    obtain ⟨k, -, rfl⟩ := List.mem_map.mp hm
    simp only [decide_eq_true_eq]
    omega
  rw [this, List.append_nil]

theorem compose_extOut : (x.compose s m).extOut = x.extOut := by
  unfold Optic.extOut
  rw [compose_her, compose_p, List.filter_append]
  have : ((List.range s.hn.length).map fun k =>
      (⟨x.p + x.a + k, x.p + x.a + k, s.hn.getD k 0⟩ : Her)).filter (fun hh => decide (hh.o < x.p)) = [] := by
    rw [List.filter_eq_nil_iff]
    intro hh hm
    obtain ⟨k, -, rfl⟩ := List.mem_map.mp hm
    simp only [decide_eq_true_eq]
    omega
  rw [this, List.append_nil]

theorem compose_freeIn : (x.compose s m).freeIn = x.freeIn := by
  unfold Optic.freeIn
  rw [compose_extIn, compose_p]

theorem compose_freeOut : (x.compose s m).freeOut = x.freeOut := by
  unfold Optic.freeOut
  rw [compose_extOut, compose_p]

theorem compose_her_length : (x.compose s m).her.length = x.her.length + s.hn.length := by
  rw [compose_her, List.length_append, List.length_map, List.length_range]

theorem compose_her_n : (x.compose s m).her.map (·.n) = x.her.map (·.n) ++ s.hn := by
  rw [compose_her, List.map_append, List.map_map]
  congr 1
  exact map_getD_range s.hn 0

end Compose

/-! ### column and row selectors -/

section
variable {par sub res : Circ K} {m : Int} {g : Bool} {mode : Nat} {ts : List Nat}

theorem Ctx.hx_le (c : Ctx par sub res m g mode ts) : par.inHer.length ≤ par.n := by
  have := length_le_of_nodup_lt _ _ c.wf.inNodup c.wf.inLt
  rwa [keys_length] at this

theorem closed_hn_length (i : K) (sub : Circ K) (hwfs : sub.WF) :
    (sub.toOptic i).closed.hn.length = sub.inHer.length := by
  rw [closed_toOptic i sub hwfs]; simp

theorem Ctx.col_corr (c : Ctx par sub res m g mode ts) (i : K) {y : Nat}
    (hy : y < par.n - par.inHer.length + (par.inHer.length + sub.inHer.length)
      + (lossCount par.spec + lossCount sub.spec)) :
    colM res y = tau par sub mode ts
      (colIdx ((par.toOptic i).compose (sub.toOptic i).closed m.toNat) y) ∧
    colIdx ((par.toOptic i).compose (sub.toOptic i).closed m.toNat) y
      < par.n + sub.inHer.length + lossCount par.spec + lossCount sub.spec := by
  have hxle := c.hx_le
  have hfi := freeIn_length i par c.wf
  have hhl := her_length i par c.wf
  have hsl := closed_hn_length i sub c.wfs
  have hpl := portModes_length par c.wf
  have hq : res.n - res.inHer.length = par.n - par.inHer.length := by
    rw [c.d.n_eq, c.res_inLen]; omega
  unfold colM colIdx
  rw [hq, c.res_inLen, compose_freeIn, compose_her_length, hfi, hhl, hsl]
  by_cases h1 : y < par.n - par.inHer.length
  · rw [if_pos h1, if_pos h1, c.d.n_eq, c.free_map _ _ c.res_inKeys]
    have hy1 : y < (par.toOptic i).freeIn.length := by rw [hfi]; exact h1
    have hy2 : y < (freeOf par.n par.inHer.keys).length := by
      rw [← freeIn_map_optMode i par c.wf, List.length_map]; exact hy1
    have hr := freeIn_lt i par _ (List.getElem_mem hy1)
    rw [getD_map' _ _ _ _ 0 hy2, List.getD_eq_getElem _ _ hy1, List.getD_eq_getElem _ _ hy2]
    constructor
    · unfold tau
      rw [if_pos (by omega)]
      congr 1
      have e : ((par.toOptic i).freeIn.map par.optMode)[y]'(by rw [List.length_map]; exact hy1)
          = (freeOf par.n par.inHer.keys)[y] := by
        congr 1
        exact freeIn_map_optMode i par c.wf
      rw [List.getElem_map] at e
      exact e.symm
    · omega
  · rw [if_neg h1, if_neg h1]
    by_cases h2 : y < par.n - par.inHer.length + (par.inHer.length + sub.inHer.length)
    · rw [if_pos h2, if_pos h2, c.res_inKeys, compose_her]
      by_cases h3 : y - (par.n - par.inHer.length) < par.inHer.length
      · -- an old herald
        have l1 : y - (par.n - par.inHer.length) < (par.inHer.keys.map (fK sub mode ts)).length := by
          rw [List.length_map, keys_length]; exact h3
        have l2 : y - (par.n - par.inHer.length) < (par.toOptic i).her.length := by rw [hhl]; exact h3
        have l3 : y - (par.n - par.inHer.length) < par.inHer.keys.length := by rw [keys_length]; exact h3
        rw [List.getD_append _ _ _ _ l1, List.getD_append _ _ _ _ l2,
          getD_map' _ _ _ _ 0 l3, List.getD_eq_getElem _ _ l2, List.getD_eq_getElem _ _ l3]
        have e : ((par.toOptic i).her.map (·.i))[y - (par.n - par.inHer.length)]'(by
              rw [List.length_map]; exact l2)
            = (par.inHer.keys.map par.optIndex)[y - (par.n - par.inHer.length)]'(by
              rw [List.length_map]; exact l3) := by
          congr 1
          exact her_map_i i par c.wf
        rw [List.getElem_map, List.getElem_map] at e
        rw [e]
        have hk := c.wf.inLt _ (List.getElem_mem l3)
        rw [optIndex_eq_optIdx' par hk]
        have hlt := optIdx_lt par c.wf (Nat.le_refl _) hk
        constructor
        · unfold tau
          rw [if_pos hlt, optMode_optIdx par c.wf]
        · omega
      · -- a new herald
        have l1 : (par.inHer.keys.map (fK sub mode ts)).length ≤ y - (par.n - par.inHer.length) := by
          rw [List.length_map, keys_length]; omega
        have l2 : (par.toOptic i).her.length ≤ y - (par.n - par.inHer.length) := by rw [hhl]; omega
        rw [List.getD_append_right _ _ _ _ l1, List.getD_append_right _ _ _ _ l2, List.length_map,
          keys_length, hhl, hsl]
        have l3 : y - (par.n - par.inHer.length) - par.inHer.length < sub.inHer.keys.length := by
          rw [keys_length]; omega
        have l4 : y - (par.n - par.inHer.length) - par.inHer.length < (List.range sub.inHer.length).length := by
          rw [List.length_range]; omega
        rw [List.map_map, getD_map' _ _ _ _ 0 l3, getD_map' _ _ _ _ 0 l4,
          List.getD_eq_getElem _ _ l4, List.getElem_range]
        show _ = tau par sub mode ts (par.portModes.length + par.internal.length + _) ∧
          par.portModes.length + par.internal.length + _ < _
        rw [hpl]
        constructor
        · unfold tau
          rw [if_neg (by omega), if_pos (by omega)]
          simp only [Function.comp, Nat.add_sub_cancel_left]
          omega
        · omega
    · rw [if_neg h2, if_neg h2, c.d.n_eq, compose_p, compose_a, hsl]
      show _ = tau par sub mode ts (par.portModes.length + (par.internal.length + _) + _) ∧
        par.portModes.length + (par.internal.length + _) + _ < _
      constructor
      · unfold tau
        rw [if_neg (by omega), if_neg (by omega)]
        omega
      · omega

theorem Ctx.row_corr (c : Ctx par sub res m g mode ts) (i : K) {y : Nat}
    (hy : y < par.n - par.inHer.length + (par.inHer.length + sub.inHer.length)
      + (lossCount par.spec + lossCount sub.spec)) :
    rowM res y = tau par sub mode ts
      (rowIdx ((par.toOptic i).compose (sub.toOptic i).closed m.toNat) y) ∧
    rowIdx ((par.toOptic i).compose (sub.toOptic i).closed m.toNat) y
      < par.n + sub.inHer.length + lossCount par.spec + lossCount sub.spec := by
  have hxle := c.hx_le
  have hfi := freeIn_length i par c.wf
  have hfo := freeOut_length i par c.wf
  have hhl := her_length i par c.wf
  have hsl := closed_hn_length i sub c.wfs
  have hpl := portModes_length par c.wf
  have hq : res.n - res.inHer.length = par.n - par.inHer.length := by
    rw [c.d.n_eq, c.res_inLen]; omega
  unfold rowM rowIdx
  rw [hq, c.res_inLen, compose_freeIn, compose_freeOut, compose_her_length, hfi, hhl, hsl]
  by_cases h1 : y < par.n - par.inHer.length
  · rw [if_pos h1, if_pos h1, c.d.n_eq, c.free_map _ _ c.res_outKeys]
    have hy1 : y < (par.toOptic i).freeOut.length := by rw [hfo]; exact h1
    have hy2 : y < (freeOf par.n par.outHer.keys).length := by
      rw [← freeOut_map_optMode i par c.wf, List.length_map]; exact hy1
    have hr := freeOut_lt i par _ (List.getElem_mem hy1)
    rw [getD_map' _ _ _ _ 0 hy2, List.getD_eq_getElem _ _ hy1, List.getD_eq_getElem _ _ hy2]
    constructor
    · unfold tau
      rw [if_pos (by omega)]
      congr 1
      have e : ((par.toOptic i).freeOut.map par.optMode)[y]'(by rw [List.length_map]; exact hy1)
          = (freeOf par.n par.outHer.keys)[y] := by
        congr 1
        exact freeOut_map_optMode i par c.wf
      rw [List.getElem_map] at e
      exact e.symm
    · omega
  · rw [if_neg h1, if_neg h1]
    by_cases h2 : y < par.n - par.inHer.length + (par.inHer.length + sub.inHer.length)
    · rw [if_pos h2, if_pos h2, c.res_outKeys, compose_her]
      have holen : par.outHer.keys.length = par.inHer.length := by rw [keys_length, c.wf.lenEq]
      by_cases h3 : y - (par.n - par.inHer.length) < par.inHer.length
      · -- an old herald
        have l1 : y - (par.n - par.inHer.length) < (par.outHer.keys.map (fK sub mode ts)).length := by
          rw [List.length_map, holen]; exact h3
        have l2 : y - (par.n - par.inHer.length) < (par.toOptic i).her.length := by rw [hhl]; exact h3
        have l3 : y - (par.n - par.inHer.length) < par.outHer.keys.length := by rw [holen]; exact h3
        rw [List.getD_append _ _ _ _ l1, List.getD_append _ _ _ _ l2,
          getD_map' _ _ _ _ 0 l3, List.getD_eq_getElem _ _ l2, List.getD_eq_getElem _ _ l3]
        have e : ((par.toOptic i).her.map (·.o))[y - (par.n - par.inHer.length)]'(by
              rw [List.length_map]; exact l2)
            = (par.outHer.keys.map par.optIndex)[y - (par.n - par.inHer.length)]'(by
              rw [List.length_map]; exact l3) := by
          congr 1
          exact her_map_o i par c.wf
        rw [List.getElem_map, List.getElem_map] at e
        rw [e]
        have hk := c.wf.outLt _ (List.getElem_mem l3)
        rw [optIndex_eq_optIdx' par hk]
        have hlt := optIdx_lt par c.wf (Nat.le_refl _) hk
        constructor
        · unfold tau
          rw [if_pos hlt, optMode_optIdx par c.wf]
        · omega
      · -- a new herald
        have l1 : (par.outHer.keys.map (fK sub mode ts)).length ≤ y - (par.n - par.inHer.length) := by
          rw [List.length_map, holen]; omega
        have l2 : (par.toOptic i).her.length ≤ y - (par.n - par.inHer.length) := by rw [hhl]; omega
        rw [List.getD_append_right _ _ _ _ l1, List.getD_append_right _ _ _ _ l2, List.length_map,
          holen, hhl, hsl]
        have l3 : y - (par.n - par.inHer.length) - par.inHer.length < sub.inHer.keys.length := by
          rw [keys_length]; omega
        have l4 : y - (par.n - par.inHer.length) - par.inHer.length < (List.range sub.inHer.length).length := by
          rw [List.length_range]; omega
        rw [List.map_map, getD_map' _ _ _ _ 0 l3, getD_map' _ _ _ _ 0 l4,
          List.getD_eq_getElem _ _ l4, List.getElem_range]
        show _ = tau par sub mode ts (par.portModes.length + par.internal.length + _) ∧
          par.portModes.length + par.internal.length + _ < _
        rw [hpl]
        constructor
        · unfold tau
          rw [if_neg (by omega), if_pos (by omega)]
          simp only [Function.comp, Nat.add_sub_cancel_left]
          omega
        · omega
    · rw [if_neg h2, if_neg h2, c.d.n_eq, compose_p, compose_a, hsl]
      show _ = tau par sub mode ts (par.portModes.length + (par.internal.length + _) + _) ∧
        par.portModes.length + (par.internal.length + _) + _ < _
      constructor
      · unfold tau
        rw [if_neg (by omega), if_neg (by omega)]
        omega
      · omega

end

end LW.Proofs.C02Sem
