/-
  LW.Proofs.C02SemAdd1 — explicit description of the result of an accepted `Circuit.add`
  (modes, heralds, ancillas, flattened spec) in terms of the inserted pass-through targets `ts`.
-/
import LW.Proofs.C02SemAccept

open scoped BigOperators

namespace LW.Proofs.C02Sem

open LW LW.Proofs.C01Aux LW.Proofs.C02

variable {K : Type} [CommRing K] [StarRing K]

set_option linter.unusedSectionVars false

/-- everything the refinement proof needs to know about an accepted `add` -/
structure AddData (par sub res : Circ K) (m : Int) (g : Bool) (mode : Nat) (ts : List Nat) : Prop where
  hmode : par.modeInRange (par.mapMode m) = .ok mode
  sorted : ts.Pairwise (· < ·)
  ok : InsOk sub.n ts
  lt : ∀ t ∈ ts, t < sub.n + ts.length
  fit : mode + (sub.n + ts.length) ≤ par.n + sub.inHer.length
  fwd : ∀ i ∈ par.internal, i < mode ∨
    (mode ≤ i ∧ ∃ t ∈ ts, i - mode + cntLt (sub.inHer.keys.map (bumps ts)) t = t) ∨
    (mode ≤ i ∧ ((sub.n + ts.length : Nat) : Int)
        ≤ targetOf (sub.inHer.keys.map (bumps ts)) ((i : Int) - (mode : Int)))
  bwd : ∀ t ∈ ts, ∃ i ∈ par.internal, mode ≤ i ∧
    i - mode + cntLt (sub.inHer.keys.map (bumps ts)) t = t
  n_eq : res.n = par.n + sub.inHer.length
  flat : flattenSpec res.spec =
    flattenSpec (specIns ((sortNat (sub.inHer.keys.map (bumps ts))).map (mode + ·)) par.spec) ++
    flattenSpec ((specIns ts (swapSpec (pick sub g).1)).map (Comp.shift mode))
  inHer : res.inHer =
    Dict.mapKeys (bumps ((sortNat (sub.inHer.keys.map (bumps ts))).map (mode + ·))) par.inHer ++
      (Dict.mapKeys (bumps ts) sub.inHer).map (fun p => (p.1 + mode, p.2))
  outHer : res.outHer =
    Dict.mapKeys (bumps ((sortNat (sub.inHer.keys.map (bumps ts))).map (mode + ·))) par.outHer ++
      (Dict.mapKeys (bumps ts) sub.inHer).map (fun p => (p.1 + mode, p.2))
  internal : res.internal =
    par.internal.map (bumps ((sortNat (sub.inHer.keys.map (bumps ts))).map (mode + ·))) ++
      (sortNat (sub.inHer.keys.map (bumps ts))).map (mode + ·)

theorem flatten_append (s1 s2 : List (Comp K)) : flattenSpec (s1 ++ s2) = flattenSpec s1 ++ flattenSpec s2 := by
  unfold flattenSpec; rw [List.flatMap_append]

theorem flatten_addedComps (st : Circ.AddSt K) (mode : Nat) (grouped : Bool) :
    flattenSpec (addedComps st mode grouped) = flattenSpec (st.spec.map (Comp.shift mode)) := by
  unfold addedComps
  cases grouped
  · rfl
  · simp [flattenSpec, Comp.toPrims]

theorem add_data (self sub self' : Circ K) (hwf : self.WF) (hwfs : sub.WF) (m : Int) (g : Bool)
    (h : self.add sub m g = .ok self') : ∃ mode ts, AddData self sub self' m g mode ts := by
  rw [add_eq] at h
  cases hm : self.modeInRange (self.mapMode m) with
  | error e => rw [hm] at h; cases h
  | ok mode =>
    rw [hm] at h
    simp only [Except.bind, addTail] at h
    split at h
    · cases h
    · split at h
      · cases h
      · rename_i h1 h2
        injection h with h
        obtain ⟨pn, pin, pout, -⟩ := pick_props sub g
        have hnd : (pick sub g).1.inHer.keys.Nodup := by rw [pin]; exact hwfs.inNodup
        obtain ⟨ts, inv⟩ := PtInv.fold (K := K) (sub0 := (pick sub g).1)
          (spec0 := swapSpec (pick sub g).1) (mode := mode) hnd (sortNat self.internal)
          (strictSorted_sortNat hwf.intNodup) (PtInv.init _ _ mode) (by intro j hj; cases hj)
        rw [List.nil_append] at inv
        generalize hst : (sortNat self.internal).foldl (ptStep mode)
          ⟨(pick sub g).1, swapSpec (pick sub g).1⟩ = st at inv h h2
        have hlen : (pick sub g).1.inHer.length = sub.inHer.length := by rw [pin]
        rw [hlen] at h2
        have hkeys : st.sub.inHer.keys = sub.inHer.keys.map (bumps ts) := by
          rw [inv.inHer, keys_mapKeys, pin]
        have hstn : st.sub.n = sub.n + ts.length := by rw [inv.n_eq, pn]
        have hHlen : st.sub.inHer.length = sub.inHer.length := by
          rw [inv.inHer, length_mapKeys, pin]
        have hknd : st.sub.inHer.keys.Nodup := by
          rw [hkeys]; exact nodup_map_of_inj (fun a b => bumps_inj ts) hwfs.inNodup
        have hklt : ∀ k ∈ st.sub.inHer.keys, k < st.sub.n := by
          intro k hk
          rw [hkeys] at hk
          obtain ⟨x, hx, rfl⟩ := List.mem_map.mp hk
          have hxn := hwfs.inLt x hx
          rw [hstn]
          have := bumps_of_ge sub.n ts (by have := inv.ok; rwa [pn] at this) sub.n (Nat.le_refl _)
          have := bumps_strictMono ts hxn
          omega
        have hhle := length_le_of_nodup_lt _ _ hknd hklt
        rw [keys_length, hHlen] at hhle
        -- the new-ancilla loop and the herald loop
        obtain ⟨a1, a2, a3, a4, a5⟩ := ancFold_explicit (K := K) mode (sortNat st.sub.inHer.keys)
          (strictSorted_sortNat hknd) self hwf.inNodup hwf.outNodup
        have hLlen : (sortNat st.sub.inHer.keys).length = sub.inHer.length := by
          rw [length_sortNat, keys_length, hHlen]
        set Kk := (sortNat st.sub.inHer.keys).map (mode + ·) with hKk
        have hKs : Kk.Pairwise (· < ·) := by
          rw [hKk, List.pairwise_map]
          exact (strictSorted_sortNat hknd).imp (fun hab => by omega)
        have hnd2 : ((st.sub.inHer.map fun p => (p.1 + mode, p.2)).map (·.1)).Nodup := by
          rw [List.map_map]
          have : ((fun x : Nat × Nat => x.1) ∘ fun p : Nat × Nat => (p.1 + mode, p.2)) = (· + mode) ∘ (·.1) := rfl
          rw [this, ← List.map_map]
          exact nodup_map_of_inj (fun a b h => by omega) hknd
        have hfresh : ∀ (d : Dict), ∀ k ∈ (st.sub.inHer.map fun p => (p.1 + mode, p.2)).map (·.1),
            k ∉ (Dict.mapKeys (bumps Kk) d).keys := by
          intro d k hk hk2
          simp only [List.map_map, List.mem_map, Function.comp] at hk
          obtain ⟨p, hp, rfl⟩ := hk
          rw [keys_mapKeys] at hk2
          obtain ⟨a, -, ha⟩ := List.mem_map.mp hk2
          have hpk : mode + p.1 ∈ Kk := by
            rw [hKk]
            apply List.mem_map.mpr
            refine ⟨p.1, ?_, rfl⟩
            rw [mem_sortNat]; simp only [Dict.keys, List.mem_map]; exact ⟨p, hp, rfl⟩
          have := bumps_not_mem Kk hKs a
          rw [ha, Nat.add_comm] at this
          exact this hpk
        have hself' : self' = addFinal self st mode (pick sub g).2 := h.symm
        have e_n : self'.n = self.n + sub.inHer.length := by
          rw [hself', (LW.Proofs.Reach.addFinal_n_spec self st mode _).1, a1, hLlen]
        have e_spec : self'.spec = specIns Kk self.spec ++ addedComps st mode (pick sub g).2 := by
          rw [hself', (LW.Proofs.Reach.addFinal_n_spec self st mode _).2, a2]; rfl
        have e_rest : self'.inHer = Dict.mapKeys (bumps Kk) self.inHer ++ st.sub.inHer.map (fun p => (p.1 + mode, p.2)) ∧
            self'.outHer = Dict.mapKeys (bumps Kk) self.outHer ++ st.sub.inHer.map (fun p => (p.1 + mode, p.2)) ∧
            self'.internal = self.internal.map (bumps Kk) ++ Kk := by
          rw [hself']
          unfold addFinal
          simp only [herFold_eq]
          rw [a3, a4, foldl_set_fresh _ _ hnd2 (hfresh _), foldl_set_fresh _ _ hnd2 (hfresh _), a5]
          cases (pick sub g).2 <;> exact ⟨rfl, rfl, rfl⟩
        have hKk' : Kk = (sortNat (sub.inHer.keys.map (bumps ts))).map (mode + ·) := by
          rw [hKk, hkeys]
        have hin' : st.sub.inHer = Dict.mapKeys (bumps ts) sub.inHer := by rw [inv.inHer, pin]
        refine ⟨mode, ts, ⟨hm, inv.sorted, ?_, ?_, ?_, ?_, ?_, e_n, ?_, ?_, ?_, ?_⟩⟩
        · have := inv.ok; rwa [pn] at this
        · intro t ht; have := inv.lt t ht; rwa [hstn] at this
        · rw [hstn] at h2; omega
        · intro i hi
          have := inv.fwd i (mem_sortNat.mpr hi)
          rw [hkeys, hstn] at this
          exact this
        · intro t ht
          obtain ⟨i, hi, h3, h4⟩ := inv.bwd t ht
          rw [hkeys] at h4
          exact ⟨i, mem_sortNat.mp hi, h3, h4⟩
        · rw [e_spec, flatten_append, flatten_addedComps, inv.spec, ← hKk']
          rfl
        · rw [e_rest.1, hin', ← hKk']
        · rw [e_rest.2.1, hin', ← hKk']
        · rw [e_rest.2.2, ← hKk']

end LW.Proofs.C02Sem
