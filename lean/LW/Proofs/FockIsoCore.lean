/-
  LW.Proofs.FockIsoCore — the pure-Mathlib heart of the Fock-space isometry:
  occupations of index functions, the fibre-sum lemma, and the first-quantised norm identity
  for permanents of sub-matrices of a matrix with orthonormal columns.
-/
import Mathlib.GroupTheory.Perm.DomMulAct
import Mathlib.Algebra.BigOperators.Ring.Finset
import Mathlib.Algebra.BigOperators.Field
import Mathlib.Algebra.BigOperators.GroupWithZero.Finset
import Mathlib.Algebra.Star.BigOperators
import Mathlib.Logic.Equiv.Fintype
import Mathlib.LinearAlgebra.Matrix.Permanent
import Mathlib.LinearAlgebra.UnitaryGroup

open Equiv Finset

namespace LW.Proofs.FockIso

set_option linter.unusedSectionVars false

section Fibre

variable {α ι : Type*} [Fintype α] [DecidableEq α] [Fintype ι] [DecidableEq ι]

/-- occupation of `z` under `f` -/
def occ (f : α → ι) (z : ι) : ℕ := Fintype.card {a // f a = z}

/-- two functions with the same occupations differ by a permutation of the domain -/
theorem exists_perm_of_occ_eq (f g : α → ι) (h : occ f = occ g) : ∃ τ : Perm α, g ∘ τ = f := by
  classical
  have e : ∀ z, {a // f a = z} ≃ {a // g a = z} := fun z =>
    Fintype.equivOfCardEq (by simpa [occ] using congrFun h z)
  refine ⟨(Equiv.sigmaFiberEquiv f).symm.trans
    ((Equiv.sigmaCongrRight e).trans (Equiv.sigmaFiberEquiv g)), ?_⟩
  funext a
  simp only [Function.comp_apply, Equiv.trans_apply]
  have := ((e (f a)) ⟨a, rfl⟩).2
  simpa [Equiv.sigmaFiberEquiv, Equiv.sigmaCongrRight] using this

theorem occ_comp_perm (g : α → ι) (τ : Perm α) : occ (g ∘ τ) = occ g := by
  funext z
  unfold occ
  apply Fintype.card_congr
  exact
    { toFun := fun a => ⟨τ a.1, a.2⟩
      invFun := fun a => ⟨τ.symm a.1, by simpa using a.2⟩
      left_inv := fun a => by simp
      right_inv := fun a => by simp }

theorem card_perm_comp_eq (g f : α → ι) :
    Fintype.card {τ : Perm α // g ∘ τ = f} =
      if occ f = occ g then ∏ z, (occ g z).factorial else 0 := by
  classical
  split_ifs with h
  · obtain ⟨τ0, hτ0⟩ := exists_perm_of_occ_eq f g h
    show _ = ∏ z, (Fintype.card {a // g a = z}).factorial
    rw [← DomMulAct.stabilizer_card g]
    apply Fintype.card_congr
    exact
      { toFun := fun τ => ⟨τ.1 * τ0⁻¹, by
          have := τ.2
          funext a
          have h2 : f (τ0⁻¹ a) = g a := by
            have := congrFun hτ0 (τ0⁻¹ a); simpa using this.symm
          have h3 := congrFun τ.2 (τ0⁻¹ a)
          simp only [Function.comp_apply, Perm.coe_mul] at *
          rw [h3, h2]⟩
        invFun := fun σ => ⟨σ.1 * τ0, by
          funext a
          have h3 := congrFun σ.2 (τ0 a)
          have h2 := congrFun hτ0 a
          simp only [Function.comp_apply, Perm.coe_mul] at *
          rw [h3, h2]⟩
        left_inv := fun τ => by ext; simp
        right_inv := fun σ => by ext; simp }
  · rw [Fintype.card_eq_zero_iff]
    constructor
    rintro ⟨τ, hτ⟩
    exact h (by rw [← hτ, occ_comp_perm])

/-- fibre-sum lemma: summing over the orbit of `g` counts each equal-occupation function
`∏ occ!` times -/
theorem fibre_sum {R : Type*} [CommSemiring R] (g : α → ι) (F : (α → ι) → R) :
    ∑ τ : Perm α, F (g ∘ τ) =
      (∏ z, (occ g z).factorial : ℕ) •
        ∑ f ∈ univ.filter (fun f : α → ι => occ f = occ g), F f := by
  classical
  have : ∑ τ : Perm α, F (g ∘ τ) =
      ∑ f : α → ι, (Fintype.card {τ : Perm α // g ∘ τ = f}) • F f := by
    rw [← Finset.sum_fiberwise (s := univ) (g := fun τ : Perm α => g ∘ (τ : α → α))
      (f := fun τ => F (g ∘ τ))]
    apply Finset.sum_congr rfl
    intro f _
    rw [Finset.sum_congr rfl (g := fun _ => F f), Finset.sum_const, Fintype.card_subtype]
    intro τ hτ
    simp only [Finset.mem_filter] at hτ
    rw [hτ.2]
  rw [this, ← Finset.sum_nsmul, Finset.sum_filter]
  apply Finset.sum_congr rfl
  intro f _
  rw [card_perm_comp_eq]
  split_ifs <;> simp

/-- the occupations of a function sum to the size of its domain -/
theorem sum_occ (f : α → ι) : ∑ z, occ f z = Fintype.card α := by
  unfold occ
  rw [← Fintype.card_sigma]
  exact Fintype.card_congr (Equiv.sigmaFiberEquiv f)

end Fibre

section Core

variable {n N : Type*} [Fintype n] [DecidableEq n] [Fintype N] [DecidableEq N]
variable {K : Type*}

/-- `A(f) = ∏_k U[f k, y k]` -/
def rowProd [CommMonoid K] (U : Matrix N N K) (y f : n → N) : K := ∏ k, U (f k) (y k)

theorem permanent_submatrix [CommSemiring K] (U : Matrix N N K) (f y : n → N) :
    (U.submatrix f y).permanent = ∑ σ : Perm n, rowProd U y (f ∘ σ) := by
  simp [Matrix.permanent, rowProd]

/-- the permanent of `U[f|y]` as a multiple of the sum of `A` over the occupation class of `f` -/
theorem permanent_eq_fibre [CommSemiring K] (U : Matrix N N K) (f y : n → N) :
    (U.submatrix f y).permanent =
      (∏ z, (occ f z).factorial : ℕ) •
        ∑ f' ∈ univ.filter (fun f' : n → N => occ f' = occ f), rowProd U y f' := by
  rw [permanent_submatrix, fibre_sum]

variable [CommRing K] [StarRing K]

theorem sum_rowProd_star_comp (U : Matrix N N K) (hU : star U * U = 1) (y : n → N) (τ : Perm n) :
    ∑ f : n → N, rowProd U y f * star (rowProd U y (f ∘ τ)) =
      if y ∘ τ.symm = y then 1 else 0 := by
  have h1 : ∀ f : n → N, rowProd U y f * star (rowProd U y (f ∘ τ)) =
      ∏ j, U (f j) (y j) * star (U (f j) (y (τ.symm j))) := by
    intro f
    unfold rowProd
    rw [star_prod, Finset.prod_mul_distrib]
    congr 1
    rw [← Equiv.prod_comp τ (fun j => star (U (f j) (y (τ.symm j))))]
    simp
  simp_rw [h1]
  have h2 := Finset.prod_univ_sum (fun _ : n => (univ : Finset N))
    (fun j r => U r (y j) * star (U r (y (τ.symm j))))
  rw [Fintype.piFinset_univ] at h2
  rw [← h2]
  have h3 : ∀ j, ∑ r, U r (y j) * star (U r (y (τ.symm j))) =
      if y (τ.symm j) = y j then 1 else 0 := by
    intro j
    have := congrFun (congrFun hU (y (τ.symm j))) (y j)
    simp only [Matrix.mul_apply, Matrix.star_apply, Matrix.one_apply] at this
    rw [← this]
    exact Finset.sum_congr rfl fun r _ => mul_comm _ _
  simp_rw [h3]
  rw [Finset.prod_ite_zero]
  simp only [Finset.prod_const_one]
  congr 1
  rw [eq_iff_iff]
  exact ⟨fun h => funext fun j => h j (Finset.mem_univ j), fun h j _ => congrFun h j⟩

/-- first-quantised norm identity: `Σ_f A(f) · star perm(U[f|y]) = ∏_z occ_y(z)!` -/
theorem sum_rowProd_star_permanent (U : Matrix N N K) (hU : star U * U = 1) (y : n → N) :
    ∑ f : n → N, rowProd U y f * star (U.submatrix f y).permanent =
      ((∏ z, (occ y z).factorial : ℕ) : K) := by
  simp_rw [permanent_submatrix, star_sum, Finset.mul_sum]
  rw [Finset.sum_comm]
  simp_rw [sum_rowProd_star_comp U hU y]
  rw [Finset.sum_boole]
  congr 1
  have := card_perm_comp_eq y y
  rw [if_pos rfl] at this
  rw [← this, Fintype.card_subtype]
  congr 1
  ext τ
  simp only [Finset.mem_filter, Finset.mem_univ, true_and]
  rw [Equiv.comp_symm_eq]
  exact eq_comm

end Core

section Regroup

variable {n N : Type*} [Fintype n] [DecidableEq n] [Fintype N] [DecidableEq N]
variable {K : Type*} [Field K] [StarRing K] [CharZero K]

/-- the isometry in pure form: `T` is any finite set of occupations containing all occupations of
functions `n → N`, and `G t` is `|perm U[x|y]|² / (∏ occ_y! ∏ t!)` for some `x` of occupation `t` -/
theorem isometry_pure (U : Matrix N N K) (hU : star U * U = 1) (y : n → N)
    (T : Finset (N → ℕ)) (hT : ∀ f : n → N, occ f ∈ T) (G : (N → ℕ) → K)
    (hG : ∀ t ∈ T, ∃ x : n → N, occ x = t ∧
      G t = (U.submatrix x y).permanent * star (U.submatrix x y).permanent /
        (((∏ z, (occ y z).factorial) * ∏ z, (t z).factorial : ℕ) : K)) :
    ∑ t ∈ T, G t = 1 := by
  classical
  set S : (N → ℕ) → K := fun t => ∑ f ∈ univ.filter (fun f : n → N => occ f = t), rowProd U y f
    with hS
  have hP : ∀ f : n → N, (U.submatrix f y).permanent =
      ((∏ z, (occ f z).factorial : ℕ) : K) * S (occ f) := by
    intro f
    rw [permanent_eq_fibre, nsmul_eq_mul]
  have key : ∑ t ∈ T, ((∏ z, (t z).factorial : ℕ) : K) * (S t * star (S t)) =
      ((∏ z, (occ y z).factorial : ℕ) : K) := by
    rw [← sum_rowProd_star_permanent U hU y,
      ← Finset.sum_fiberwise_of_maps_to (g := fun f : n → N => occ f) (t := T)
        (fun f _ => hT f)]
    apply Finset.sum_congr rfl
    intro t _
    rw [Finset.sum_congr rfl (g := fun f => rowProd U y f *
      (((∏ z, (t z).factorial : ℕ) : K) * star (S t)))]
    · rw [← Finset.sum_mul]
      ring
    · intro f hf
      simp only [Finset.mem_filter, Finset.mem_univ, true_and] at hf
      rw [hP f, hf, star_mul', star_natCast]
  have hsf : (((∏ z, (occ y z).factorial : ℕ)) : K) ≠ 0 :=
    Nat.cast_ne_zero.mpr (Finset.prod_ne_zero_iff.mpr fun z _ => Nat.factorial_ne_zero _)
  have hG' : ∀ t ∈ T, G t = ((∏ z, (t z).factorial : ℕ) : K) * (S t * star (S t)) /
      ((∏ z, (occ y z).factorial : ℕ) : K) := by
    intro t ht
    obtain ⟨x, hx, hGt⟩ := hG t ht
    have htf : (((∏ z, (t z).factorial : ℕ)) : K) ≠ 0 :=
      Nat.cast_ne_zero.mpr (Finset.prod_ne_zero_iff.mpr fun z _ => Nat.factorial_ne_zero _)
    rw [hGt, hP x, hx, star_mul', star_natCast, Nat.cast_mul]
    field_simp
  rw [Finset.sum_congr rfl hG', ← Finset.sum_div, key, div_self hsf]

end Regroup

end LW.Proofs.FockIso
