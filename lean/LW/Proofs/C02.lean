/-
  LW.Proofs.C02 — proofs of the C02 property theorems.
-/
import LW.Proofs.CircInv
import LW.Proofs.C02Calls
import LW.Proofs.C02Final
import LW.Proofs.C02Reject

namespace LW.Proofs.C02

variable {K : Type}

theorem mapMode_not_internal (c : Circ K) (m : Int) (hm : 0 ≤ m) :
    ∀ a ∈ c.internal, c.mapMode m ≠ (a : Int) := by
  have _ := hm
  intro a ha
  exact skipFold_not_mem _ (sorted_sortNat _) m a (mem_sortNat.mpr ha)

theorem mapMode_strictMono (c : Circ K) (m m' : Int) (h : m < m') : c.mapMode m < c.mapMode m' :=
  skipFold_strictMono _ h

theorem mapMode_lt_iff (c : Circ K) (hwf : c.WF) (m : Int) (hm : 0 ≤ m) :
    c.mapMode m < (c.n : Int) ↔ m < (c.ports : Int) := by
  have _ := hm
  exact mapMode_lt_iff' c hwf m

theorem new_WF (n : Nat) : (Circ.new n : Circ K).WF := by
  constructor <;> simp [Circ.new, Dict.keys]

theorem herald_preserves_WF (c c' : Circ K) (hwf : c.WF) (k : Nat) (i o : Int)
    (h : c.herald k i o = .ok c') : c'.WF ∧ c'.n = c.n ∧ c'.internal = c.internal :=
  herald_WF c c' hwf k i o h

theorem prim_calls_avoid_ancillas (c c' : Circ K) (hwf : c.WF) :
    (∀ m1 m2 cs cv l, c.bs m1 m2 cs cv l = .ok c' →
        c'.WF ∧ ∃ added, c'.spec = c.spec ++ added ∧ ∀ x ∈ added, ∀ m ∈ x.modes, m ∉ c.internal) ∧
    (∀ m p l, c.ps m p l = .ok c' →
        c'.WF ∧ ∃ added, c'.spec = c.spec ++ added ∧ ∀ x ∈ added, ∀ m ∈ x.modes, m ∉ c.internal) ∧
    (∀ m ab, c.loss m ab = .ok c' →
        c'.WF ∧ ∃ added, c'.spec = c.spec ++ added ∧ ∀ x ∈ added, ∀ m ∈ x.modes, m ∉ c.internal) ∧
    (∀ ms, c.barrier ms = .ok c' →
        c'.WF ∧ ∃ added, c'.spec = c.spec ++ added ∧ ∀ x ∈ added, ∀ m ∈ x.modes, m ∉ c.internal) ∧
    (∀ sw, c.modeSwaps sw = .ok c' →
        c'.WF ∧ ∃ added, c'.spec = c.spec ++ added ∧ ∀ x ∈ added, ∀ m ∈ x.modes, m ∉ c.internal) :=
  ⟨bs_avoid c c' hwf, ps_avoid c c' hwf, loss_avoid c c' hwf, barrier_avoid c c' hwf,
    modeSwaps_avoid c c' hwf⟩

theorem add_preserves_WF [Zero K] [One K] (self sub self' : Circ K) (hs : self.WF) (hsub : sub.WF)
    (m : Int) (g : Bool) (h : self.add sub m g = .ok self') :
    self'.WF ∧
    self'.internal.length = self.internal.length + sub.inHer.length ∧
    self'.ports = self.ports ∧
    (∀ a ∈ self.internal, ∃ a' ∈ self'.internal, a ≤ a' ∧ self'.inHer.get? a' = self.inHer.get? a
        ∧ self'.outHer.get? a' = self.outHer.get? a) :=
  add_WF self sub self' hs hsub m g h

theorem add_rejects_oversize [Zero K] [One K] (self sub : Circ K) (hs : self.WF) (hsub : sub.WF)
    (m : Int) (g : Bool)
    (h : m < 0 ∨ (self.ports : Int) < m + ((sub.n - sub.inHer.length : Nat) : Int)) :
    self.add sub m g = .error .modeRange :=
  add_rejects self sub hs hsub m g h

section
variable [Add K] [Mul K] [Neg K] [Zero K] [One K]
set_option linter.unusedSectionVars false

theorem range_map_getD (l : List Nat) : (List.range l.length).map (fun k => l.getD k 0) = l := by
  apply List.ext_getElem
  · simp
  · intro i h1 h2
    simp at h1
    simp [h1]

theorem compose_heralds (x : Optic K) (s : Closed K) (m : Nat) :
    (x.compose s m).p = x.p ∧
    (x.compose s m).a = x.a + s.hn.length ∧
    (x.compose s m).l = x.l + s.l ∧
    (x.compose s m).her.take x.her.length = x.her ∧
    ((x.compose s m).her.drop x.her.length).map (·.n) = s.hn ∧
    ∀ h ∈ (x.compose s m).her.drop x.her.length, h.i = h.o ∧ x.p + x.a ≤ h.i := by
  refine ⟨rfl, rfl, rfl, ?_, ?_, ?_⟩
  · simp [Optic.compose]
  · simp only [Optic.compose, List.drop_left', List.map_map]
    exact range_map_getD s.hn
  · simp only [Optic.compose, List.drop_left']
    intro h hh
    simp only [List.mem_map, List.mem_range] at hh
    obtain ⟨k, _, rfl⟩ := hh
    simp

theorem closed_shape (x : Optic K) :
    x.closed.hn = x.her.map (·.n) ∧ x.closed.l = x.l ∧
    x.closed.W.n = x.closed.q + x.her.length + x.l := ⟨rfl, rfl, rfl⟩

end

/-! ### non-vacuity: the hypotheses are satisfiable on a concrete instance -/
section NonVacuity

/-- a two-mode circuit with one beam splitter whose mode 1 is heralded -/
private def subC : Circ Int :=
  { n := 2, inHer := [(1, 0)], outHer := [(1, 0)], spec := [.prim (.bs 0 1 1 0 .rx)] }
/-- a three-mode circuit whose mode 1 is an internal ancilla -/
private def selfC : Circ Int := { n := 3, inHer := [(1, 1)], outHer := [(1, 1)], internal := [1] }

private theorem subC_WF : subC.WF := by
  constructor <;> simp [subC, Dict.keys, Comp.modes, Prim.modes]
private theorem selfC_WF : selfC.WF := by
  constructor <;> simp [selfC, Dict.keys, Dict.get?]

-- `add_preserves_WF` applies: the addition at user mode 1 is accepted ...
example : ∃ c', selfC.add subC 1 false = .ok c' ∧ c'.WF ∧ c'.internal.length = 2 := by
  refine ⟨_, rfl, ?_⟩
  have := add_preserves_WF selfC subC _ selfC_WF subC_WF 1 false rfl
  exact ⟨this.1, this.2.1⟩
-- ... and `add_rejects_oversize` applies at user mode 2 (2 ports < 2 + 1)
example : selfC.add subC 2 false = .error .modeRange :=
  add_rejects_oversize selfC subC selfC_WF subC_WF 2 false (Or.inr (by decide))
-- `herald_preserves_WF` / `prim_calls_avoid_ancillas` apply to accepted calls
example : ∃ c', selfC.herald 1 0 1 = .ok c' ∧ c'.WF :=
  ⟨_, rfl, (herald_preserves_WF selfC _ selfC_WF 1 0 1 rfl).1⟩
example : ∃ c', selfC.bs 0 1 (1, 0) .rx none = .ok c' ∧ c'.WF :=
  ⟨_, rfl, ((prim_calls_avoid_ancillas selfC _ selfC_WF).1 0 1 (1, 0) .rx none rfl).1⟩
-- user mode 1 of `selfC` is full mode 2: the ancilla is skipped
example : selfC.mapMode 1 = 2 := by decide

end NonVacuity

end LW.Proofs.C02
