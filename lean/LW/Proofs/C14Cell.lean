/-
  LW.Proofs.C14Cell — the unit cell of the Reck interferometer: `bs_matrix` as a 2×2 block, its
  unitarity, and the identity  ps · bs(½) · ps · bs(½) = bs_matrix  (in reversed mode order).
-/
import Mathlib.Tactic.LinearCombination
import Mathlib.Tactic.Ring
import LW.Proofs.C14Block
import LW.Proofs.CircuitWf

open Matrix

namespace LW

/-- the algebraic constraints on the results of the trigonometric calls of one nulling step:
`c = cos(θ/2)`, `s = sin(θ/2)` real with `c² + s² = 1`, `w = e^{iθ/2} = c + i·s`, `|e^{iφ}| = 1` -/
structure Reck.CellOk {K : Type} [CommRing K] [StarRing K] (i : K) (x : Reck.Cell K) : Prop where
  c_real : star x.c = x.c
  s_real : star x.s = x.s
  norm : x.c * x.c + x.s * x.s = 1
  w_def : x.w = x.c + i * x.s
  p_unit : x.p * star x.p = 1

end LW

namespace LW.Proofs.C14

open LW.Reck

variable {K : Type} [CommRing K] [StarRing K]

set_option linter.unusedSectionVars false

/-- the 2×2 block of `bs_matrix` -/
def Tblk (i : K) (x : Cell K) : Matrix (Fin 2) (Fin 2) K :=
  !![-(x.p * x.s * (i * x.w)), x.c * (i * x.w); x.p * x.c * (i * x.w), x.s * (i * x.w)]

theorem toMatN_bsMatrix {n j : Nat} (hj : j + 1 < n) (i : K) (x : Cell K) :
    (bsMatrix i n j (j + 1) x).toMatN n = E2 ⟨j, by omega⟩ ⟨j + 1, hj⟩ (Tblk i x) := by
  unfold bsMatrix Tblk
  exact toMatN_embed2 (by omega) hj (by omega) _ _ _ _

theorem gp_unit {i : K} (hi : IsImagUnit i) {x : Cell K} (hx : CellOk i x) :
    star (i * x.w) * (i * x.w) = 1 := by
  rw [hx.w_def, star_mul', star_add, star_mul', hi.star, hx.c_real, hx.s_real]
  linear_combination (-(x.c * x.c) + (i * i - 1) * (x.s * x.s)) * hi.sq + hx.norm

theorem Tblk_unitary {i : K} (hi : IsImagUnit i) {x : Cell K} (hx : CellOk i x) :
    (Tblk i x)ᴴ * Tblk i x = 1 := by
  have hg := gp_unit hi hx
  have hp : star x.p * x.p = 1 := by rw [mul_comm]; exact hx.p_unit
  unfold Tblk
  generalize i * x.w = g at hg
  have hc := hx.c_real
  have hs := hx.s_real
  have hn := hx.norm
  ext a b
  fin_cases a <;> fin_cases b <;>
    simp [Matrix.mul_apply, Fin.sum_univ_two, Matrix.conjTranspose_apply, star_mul', hc, hs]
  · linear_combination (x.s * x.s + x.c * x.c) * (star x.p * x.p) * hg +
      (x.s * x.s + x.c * x.c) * hp + hn
  · ring
  · ring
  · linear_combination (x.c * x.c + x.s * x.s) * hg + hn

/-- the 50:50 `Rx` beam splitter block, `h = √½` -/
def Bblk (i h : K) : Matrix (Fin 2) (Fin 2) K := !![h, i * h; i * h, h]

/-- **unit cell identity** on the two modes, in the circuit's own mode order `(mode, mode+1)`:
phase `e^{iφ}` on `mode+1`, 50:50 splitter, phase `e^{iθ}` on `mode`, 50:50 splitter
equals `bs_matrix(θ, φ)` with its two modes exchanged -/
theorem unit_cell_2x2 {i h : K} (hi : IsImagUnit i) (hh : 2 * (h * h) = 1) {x : Cell K}
    (hx : CellOk i x) :
    Bblk i h * !![x.w * x.w, 0; 0, 1] * Bblk i h * !![1, 0; 0, x.p] =
      !![(Tblk i x) 1 1, (Tblk i x) 1 0; (Tblk i x) 0 1, (Tblk i x) 0 0] := by
  rcases x with ⟨c, s, w, p⟩
  have hw : w = c + i * s := hx.w_def
  subst hw
  have hn : c * c + s * s = 1 := hx.norm
  have hsq := hi.sq
  unfold Bblk Tblk
  ext a b
  fin_cases a <;> fin_cases b <;>
    simp [Matrix.mul_apply, Fin.sum_univ_two]
  · linear_combination (h * h) * hn + (h * h - h * h * s * s) * hsq + (i * s * (c + i * s)) * hh
  · linear_combination p * (-(i * h * h) * hn + (i * h * h * s * s) * hsq + (i * c * (c + i * s)) * hh)
  · linear_combination -(i * h * h) * hn + (i * h * h * s * s) * hsq + (i * c * (c + i * s)) * hh
  · linear_combination p * (-(h * h) * hn + (h * h * s * s + h * h * (c + i * s) * (c + i * s)) * hsq -
      (i * s * (c + i * s)) * hh)

end LW.Proofs.C14
