/-
  LW.Proofs.C13FullSwap — the SWAP statement for ALL mode pairs, over any commutative ring:
  `SWAP([a0, a1], [b0, b1])` on four distinct modes builds `Circuit(max + 1)` with one
  `mode_swaps` component and no heralds, and from each of the four basis inputs (photon on `a_x`
  and on `b_y`) the amplitude to a two-photon output state is 1 on the swapped state (photon on
  `b_x` and on `a_y`) and 0 on every other one.

  Steps: `SWAP_struct` (LW/Proofs/C13FullStruct.lean) evaluates the constructor; `U_full` is the
  permutation matrix of the dictionary; without heralds `fullState` is the identity; a two-photon
  state is `occ N [u, v]` for its mode-index list `[u, v]` (LW/Proofs/C13FullFock.lean); the
  permanent of the 2×2 sub-matrix of a permutation matrix is decided by case analysis.
-/
import LW.Proofs.SwapDict
import LW.Proofs.C13FullStruct
import LW.Proofs.C13FullFock

set_option linter.unusedSimpArgs false
set_option linter.unusedVariables false

open scoped BigOperators

namespace LW.Gates

open LW.QF

variable {R : Type} [CommRing R]

/-- a permutation matrix multiplied onto the identity, entrywise -/
theorem permMat_mul_one_get (σ : Dict) (N : Nat) {r c : Nat} (hr : r < N) (hc : c < N) :
    ((permMat σ N : M R).mul (M.one N)).get r c = if Dict.fn σ c = r then 1 else 0 := by
  have hn : (permMat σ N : M R).n = N := rfl
  rw [M.get_mul _ _ (by rw [hn]; exact hr) (by rw [hn]; exact hc), hn]
  rw [Finset.sum_eq_single c]
  · rw [M.get_one hc hc, if_pos rfl, mul_one]
    unfold permMat
    rw [M.get_ofFn _ hr hc]
    rfl
  · intro k hk hkc
    rw [M.get_one (Finset.mem_range.mp hk) hc, if_neg hkc, mul_zero]
  · intro h
    exact absurd (Finset.mem_range.mpr hc) h

/-- entries of `U_full` of the SWAP circuit -/
theorem swapCirc_Ufull_get (i : R) (a0 a1 b0 b1 : Nat) {r c : Nat}
    (hr : r < max (max a0 a1) (max b0 b1) + 1) (hc : c < max (max a0 a1) (max b0 b1) + 1) :
    ((swapCirc a0 a1 b0 b1 : Circ R).Ufull i).get r c
      = if Dict.fn (swapDict a0 a1 b0 b1) c = r then 1 else 0 := by
  have hU : (swapCirc a0 a1 b0 b1 : Circ R).Ufull i
      = (permMat (swapDict a0 a1 b0 b1) (max (max a0 a1) (max b0 b1) + 1) : M R).mul
          (M.one (max (max a0 a1) (max b0 b1) + 1)) := rfl
  rw [hU]
  exact permMat_mul_one_get _ _ hr hc

/-- the function of the SWAP dictionary on its four modes -/
theorem swapDict_fn (a0 a1 b0 b1 : Nat) (h : [a0, a1, b0, b1].Nodup) :
    Dict.fn (swapDict a0 a1 b0 b1) a0 = b0 ∧ Dict.fn (swapDict a0 a1 b0 b1) a1 = b1 ∧
    Dict.fn (swapDict a0 a1 b0 b1) b0 = a0 ∧ Dict.fn (swapDict a0 a1 b0 b1) b1 = a1 := by
  simp only [List.nodup_cons, List.mem_cons, List.not_mem_nil, or_false, not_or, List.nodup_nil,
    and_true, not_false_eq_true] at h
  obtain ⟨⟨h01, h02, h03⟩, ⟨h12, h13⟩, h23⟩ := h
  refine ⟨?_, ?_, ?_, ?_⟩ <;>
    simp [swapDict, Dict.fn_cons, h01, h02, h03, h12, h13, h23, Ne.symm h01, Ne.symm h02,
      Ne.symm h03, Ne.symm h12, Ne.symm h13, Ne.symm h23]

/-- two-photon amplitudes of a permutation matrix: 1 exactly on the permuted state -/
theorem amp_perm2 (U : Nat → Nat → R) (σ : Nat → Nat) (N : Nat)
    (hU : ∀ r c, r < N → c < N → U r c = if σ c = r then 1 else 0)
    {p q : Nat} (hp : p < N) (hq : q < N) (hσp : σ p < N) (hσq : σ q < N) (hne : σ p ≠ σ q)
    (o : List Nat) (hl : o.length = N) (hs : o.sum = 2) :
    permAmpFull U (occ N [p, q]) o = if o = occ N [σ p, σ q] then 1 else 0 := by
  have hx : (idxs o).length = 2 := by rw [length_idxs, hs]
  obtain ⟨u, v, huv⟩ := List.length_eq_two.mp hx
  have hu : u < N := by
    have := mem_idxs_lt (s := o) (x := u) (by rw [huv]; simp)
    omega
  have hv : v < N := by
    have := mem_idxs_lt (s := o) (x := v) (by rw [huv]; simp)
    omega
  have ho : o = occ N [u, v] := by
    have := occ_idxs o
    rw [hl, huv] at this
    exact this.symm
  have val : ∀ y : List Nat, (y = [p, q] ∨ y = [q, p]) →
      permN 2 (fun r c => U ([u, v].getD r 0) (y.getD c 0)) = U u p * U v q + U u q * U v p := by
    rintro y (rfl | rfl)
    · rw [permN_two]
      simp
    · rw [permN_two]
      simp
      ring
  have hy := idxs_occ_pair' (n := N) hp hq
  have hylen : (idxs (occ N [p, q])).length = 2 := by
    rcases hy with h | h <;> rw [h] <;> rfl
  show (if (idxs o).length = (idxs (occ N [p, q])).length then
      permN (idxs o).length (fun r c => U ((idxs o).getD r 0) ((idxs (occ N [p, q])).getD c 0))
    else 0) = _
  rw [hylen, if_pos hx, huv]
  show permN 2 (fun r c => U ([u, v].getD r 0) ((idxs (occ N [p, q])).getD c 0)) = _
  rw [val _ hy, hU u p hu hp, hU v q hv hq, hU u q hu hq, hU v p hv hp]
  have hiff : (o = occ N [σ p, σ q]) ↔ ((u = σ p ∧ v = σ q) ∨ (u = σ q ∧ v = σ p)) := by
    rw [ho]
    exact occ_pair_eq_iff hu hv hσp hσq
  by_cases e1 : σ p = u
  · have e3 : ¬ σ q = u := fun h => hne (e1.trans h.symm)
    by_cases e2 : σ q = v
    · have : o = occ N [σ p, σ q] := hiff.mpr (.inl ⟨e1.symm, e2.symm⟩)
      rw [if_pos e1, if_pos e2, if_neg e3, if_pos this]
      simp
    · have : ¬ o = occ N [σ p, σ q] := by
        intro h
        rcases hiff.mp h with ⟨_, h⟩ | ⟨h, _⟩
        · exact e2 h.symm
        · exact e3 h.symm
      rw [if_pos e1, if_neg e2, if_neg e3, if_neg this]
      simp
  · by_cases e3 : σ q = u
    · by_cases e4 : σ p = v
      · have : o = occ N [σ p, σ q] := hiff.mpr (.inr ⟨e3.symm, e4.symm⟩)
        rw [if_neg e1, if_pos e3, if_pos e4, if_pos this]
        simp
      · have : ¬ o = occ N [σ p, σ q] := by
          intro h
          rcases hiff.mp h with ⟨h, _⟩ | ⟨_, h⟩
          · exact e1 h.symm
          · exact e4 h.symm
        rw [if_neg e1, if_pos e3, if_neg e4, if_neg this]
        simp
    · have : ¬ o = occ N [σ p, σ q] := by
        intro h
        rcases hiff.mp h with ⟨h, _⟩ | ⟨h, _⟩
        · exact e1 h.symm
        · exact e3 h.symm
      rw [if_neg e1, if_neg e3, if_neg this]
      simp

/-- amplitudes of the SWAP circuit from a two-photon input on modes `p ≠ q` that the dictionary
sends to `sp`, `sq` -/
theorem swapCirc_amp (i : R) (a0 a1 b0 b1 : Nat) {p q sp sq : Nat}
    (hp : p < max (max a0 a1) (max b0 b1) + 1) (hq : q < max (max a0 a1) (max b0 b1) + 1)
    (hsp' : sp < max (max a0 a1) (max b0 b1) + 1) (hsq' : sq < max (max a0 a1) (max b0 b1) + 1)
    (hsp : Dict.fn (swapDict a0 a1 b0 b1) p = sp) (hsq : Dict.fn (swapDict a0 a1 b0 b1) q = sq)
    (hne : sp ≠ sq) (o : List Nat) (hl : o.length = max (max a0 a1) (max b0 b1) + 1)
    (hs : o.sum = 2) :
    gateAmp i (swapCirc a0 a1 b0 b1 : Circ R) (occ (max (max a0 a1) (max b0 b1) + 1) [p, q]) o
      = if o = occ (max (max a0 a1) (max b0 b1) + 1) [sp, sq] then 1 else 0 := by
  have e : gateAmp i (swapCirc a0 a1 b0 b1 : Circ R) (occ (max (max a0 a1) (max b0 b1) + 1) [p, q]) o
      = permAmpFull ((swapCirc a0 a1 b0 b1 : Circ R).Ufull i).get
          (occ (max (max a0 a1) (max b0 b1) + 1) [p, q]) o := by
    show permAmpFull _ (fullState [] (max (max a0 a1) (max b0 b1) + 1)
        (occ (max (max a0 a1) (max b0 b1) + 1) [p, q]))
      (fullState [] (max (max a0 a1) (max b0 b1) + 1) o) = _
    rw [fullState_nil _ _ (length_occ _ _), fullState_nil _ o hl]
  rw [e]
  subst hsp hsq
  exact amp_perm2 _ (Dict.fn (swapDict a0 a1 b0 b1)) _
    (fun r c hr hc => swapCirc_Ufull_get i a0 a1 b0 b1 hr hc) hp hq hsp' hsq' hne o hl hs

/-- **SWAP for all mode pairs** (the statement `LW.C13.SWAP_statement`) -/
theorem SWAP_all_pairs :
    ∀ (R : Type) [CommRing R] (i : R) (a0 a1 b0 b1 : Nat), [a0, a1, b0, b1].Nodup →
      ∃ circ : Circ R, SWAP (K := R) [a0, a1] [b0, b1] = .ok circ ∧ circ.inHer = [] ∧
        circ.n = max (max a0 a1) (max b0 b1) + 1 ∧
        ∀ x y : Bool, ∀ o ∈ fockStates circ.n 2,
          gateAmp i circ (occ circ.n [if x then a1 else a0, if y then b1 else b0]) o =
            if o = occ circ.n [if x then b1 else b0, if y then a1 else a0] then 1 else 0 := by
  intro R _ i a0 a1 b0 b1 h
  refine ⟨swapCirc a0 a1 b0 b1, SWAP_struct a0 a1 b0 b1 h, rfl, rfl, ?_⟩
  intro x y o ho
  have hmem := mem_fockStates ho
  have hl : o.length = max (max a0 a1) (max b0 b1) + 1 := hmem.1
  have hs : o.sum = 2 := hmem.2
  obtain ⟨f0, f1, f2, f3⟩ := swapDict_fn a0 a1 b0 b1 h
  simp only [List.nodup_cons, List.mem_cons, List.not_mem_nil, or_false, not_or, List.nodup_nil,
    and_true, not_false_eq_true] at h
  obtain ⟨⟨h01, h02, h03⟩, ⟨h12, h13⟩, h23⟩ := h
  show gateAmp i (swapCirc a0 a1 b0 b1 : Circ R)
      (occ (max (max a0 a1) (max b0 b1) + 1) [if x then a1 else a0, if y then b1 else b0]) o =
    if o = occ (max (max a0 a1) (max b0 b1) + 1) [if x then b1 else b0, if y then a1 else a0]
      then 1 else 0
  cases x <;> cases y <;> simp only [Bool.false_eq_true, eq_self, if_true, if_false, ↓reduceIte]
  · exact swapCirc_amp i a0 a1 b0 b1 (by omega) (by omega) (by omega) (by omega) f0 f2
      (Ne.symm h02) o hl hs
  · exact swapCirc_amp i a0 a1 b0 b1 (by omega) (by omega) (by omega) (by omega) f0 f3
      (Ne.symm h12) o hl hs
  · exact swapCirc_amp i a0 a1 b0 b1 (by omega) (by omega) (by omega) (by omega) f1 f2
      (Ne.symm h03) o hl hs
  · exact swapCirc_amp i a0 a1 b0 b1 (by omega) (by omega) (by omega) (by omega) f1 f3
      (Ne.symm h13) o hl hs

/-- non-vacuity: a scattered layout satisfies the hypothesis, and the conclusion gives the concrete
amplitude 1 (over ℤ) from the input with photons on modes 4 and 3 to photons on modes 0 and 1 -/
example : ∃ circ : Circ ℤ, SWAP (K := ℤ) [((4 : Nat) : Int), ((1 : Nat) : Int)]
      [((0 : Nat) : Int), ((3 : Nat) : Int)] = .ok circ ∧
    gateAmp 0 circ (occ 5 [4, 3]) (occ 5 [0, 1]) = 1 := by
  obtain ⟨c, h1, _, h3, h4⟩ := SWAP_all_pairs ℤ 0 4 1 0 3 (by decide)
  refine ⟨c, h1, ?_⟩
  have h5 : c.n = 5 := h3
  have := h4 false true (occ 5 [0, 1]) (by rw [h5]; decide)
  rw [h5] at this
  simpa using this

end LW.Gates
