/-
  LW.Proofs.C15 — `StateTomography.process()` on noiseless data returns the density operator.
-/
import LW.Proofs.C15Expect

open scoped BigOperators

namespace LW.Tomo

variable {K : Type} [Field K] [StarRing K] [DecidableEq K]

set_option linter.unusedSectionVars false

/-- `tr(P_c ρ₀)` with `ρ₀` read at dimension `2^|c|` -/
def trPauli (i : K) (rho0 : M K) (c : Meas) : K :=
  ∑ a ∈ Finset.range (2 ^ c.length), ∑ a' ∈ Finset.range (2 ^ c.length),
    rho0.get a a' * (pauliKron i c).get a' a

/-- `tr ρ₀` at dimension `2ⁿ` -/
def trN (n : Nat) (rho0 : M K) : K := ∑ a ∈ Finset.range (2 ^ n), rho0.get a a

theorem list_range_sum (n : Nat) (f : Nat → K) :
    ((List.range n).map f).sum = ∑ k ∈ Finset.range n, f k := by
  induction n with
  | zero => simp
  | succ n ih => rw [List.range_succ, List.map_append, List.sum_append, ih, Finset.sum_range_succ]; simp

theorem list_sum_finset_sum {α : Type} (l : List α) (s : Finset Nat) (f : α → Nat → K) :
    (l.map fun c => ∑ a ∈ s, f c a).sum = ∑ a ∈ s, (l.map fun c => f c a).sum := by
  induction l with
  | nil => simp
  | cons x t ih => simp [List.sum_cons, ih, Finset.sum_add_distrib]

/-- the value the multiplier loop contributes for one `(state, counts)` item (total version) -/
def weight (c : Meas) (sc : List Nat × K) : K :=
  (match (multiplier c sc.1 : Except Err K) with
   | .ok m => m
   | .error _ => 0) * sc.2

/-- `_calculate_expectation_value` on any reordering of the noiseless outcome table of the setting
that serves `c` returns `tr(P_c ρ₀) / tr ρ₀` -/
theorem expectation_born {i h : K} (hc : Consts i h) (c : Meas) (rho0 : M K) (r : Res K)
    (hr : r.Perm (bornTable i h c.length rho0 (c.map toZ))) (htr : trN c.length rho0 ≠ 0) :
    expectation c r = .ok (trPauli i rho0 c * (trN c.length rho0)⁻¹) := by
  set T := bornTable i h c.length rho0 (c.map toZ) with hT
  have hmemT : ∀ sc ∈ T, ∃ b, b < 2 ^ c.length ∧
      sc = (dualRail c.length b, born (settingU i h (c.map toZ)) rho0 b) := by
    intro sc hsc
    simp only [hT, bornTable, List.mem_map, List.mem_range] at hsc
    obtain ⟨b, hb, rfl⟩ := hsc
    exact ⟨b, hb, rfl⟩
  have hw : ∀ sc ∈ T, (do let m ← (multiplier c sc.1 : Except Err K); pure (m * sc.2))
      = Except.ok (weight c sc) := by
    intro sc hsc
    obtain ⟨b, _, rfl⟩ := hmemT sc hsc
    simp only [weight, multiplier_dualRail]
    rfl
  have hterms : r.mapM (fun sc => do let m ← (multiplier c sc.1 : Except Err K); pure (m * sc.2))
      = .ok (r.map (weight c)) :=
    mapM_ok _ _ r (fun sc hsc => hw sc (hr.mem_iff.mp hsc))
  have hsumW : lsum (r.map (weight c)) = trPauli i rho0 c := by
    rw [lsum_eq_sum, (hr.map (weight c)).sum_eq, hT, bornTable, List.map_map]
    have : (weight c ∘ fun b => (dualRail c.length b, born (settingU i h (c.map toZ)) rho0 b))
        = fun b => sgnRev c.reverse b * born (settingU i h (c.map toZ)) rho0 b := by
      funext b
      simp only [Function.comp, weight, multiplier_dualRail]
    rw [this, list_range_sum, born_sum_pauli hc rho0 c]
    rfl
  have hsumN : lsum (r.map (·.2)) = trN c.length rho0 := by
    rw [lsum_eq_sum, (hr.map (·.2)).sum_eq, hT, bornTable, List.map_map]
    have : ((fun sc : List Nat × K => sc.2) ∘
        fun b => (dualRail c.length b, born (settingU i h (c.map toZ)) rho0 b))
        = fun b => born (settingU i h (c.map toZ)) rho0 b := rfl
    rw [this, list_range_sum]
    have := born_sum_total hc rho0 (c.map toZ)
    rw [List.length_map] at this
    exact this
  unfold expectation
  rw [hterms]
  simp only [bind, Except.bind, hsumW, hsumN, if_neg htr]
  rfl

/-! ### the lookup of results by setting -/

theorem lookup_forall2 {β : Type} {R : Meas → β → Prop} {order : List Meas} {rs : List β}
    (h : List.Forall₂ R order rs) {s : Meas} (hs : s ∈ order) :
    ∃ r, lookup (order.zip rs) s = some r ∧ R s r := by
  induction h with
  | nil => cases hs
  | @cons s0 r0 o rs' h0 _ ih =>
    by_cases e : s0 = s
    · subst e
      exact ⟨r0, by simp [lookup, List.zip_cons_cons, List.find?_cons], h0⟩
    · have hs' : s ∈ o := by
        cases hs with
        | head => exact absurd rfl e
        | tail _ h => exact h
      obtain ⟨r, hr1, hr2⟩ := ih hs'
      refine ⟨r, ?_, hr2⟩
      simp only [lookup, List.zip_cons_cons, List.find?_cons] at hr1 ⊢
      have : (s0 == s) = false := by simpa using e
      rw [this]
      exact hr1

theorem combos_length {α : Type} (vals : List α) (k : Nat) : ∀ ps ∈ combos vals k, ps.length = k + 1 := by
  induction k with
  | zero =>
    intro ps hps
    simp only [combos, List.mem_map] at hps
    obtain ⟨_, _, rfl⟩ := hps
    rfl
  | succ k ih =>
    intro ps hps
    simp only [combos, List.mem_flatMap, List.mem_map] at hps
    obtain ⟨v1, hv1, _, _, rfl⟩ := hps
    simp [ih v1 hv1]

theorem tomoMeasurements_length {n : Nat} (hn : 0 < n) : ∀ c ∈ tomoMeasurements n, c.length = n := by
  intro c hc
  simp only [tomoMeasurements, combineAll] at hc
  have := combos_length Pauli.all (n - 1) c (by simpa using hc)
  omega

/-! ### the Pauli expansion -/

/-- Pauli reconstruction: `2⁻ⁿ Σ_P tr(P ρ₀) P = ρ₀` for every `2ⁿ × 2ⁿ` matrix, the sum running
over the strings `_get_tomo_measurements` enumerates -/
theorem pauli_reconstruction {i : K} (hi : i * i = -1) (h2 : (1 + 1 : K) ≠ 0) (n : Nat) (hn : 0 < n)
    (rho0 : M K) {r k : Nat} (hr : r < 2 ^ n) (hk : k < 2 ^ n) :
    ((tomoMeasurements n).map fun c =>
        trPauli i rho0 c * (twoPow n)⁻¹ * (pauliKron i c).get r k).sum = rho0.get r k := by
  obtain ⟨m, rfl⟩ : ∃ m, n = m + 1 := ⟨n - 1, by omega⟩
  have hlen := tomoMeasurements_length (n := m + 1) (by omega)
  have e1 : ((tomoMeasurements (m + 1)).map fun c =>
        trPauli i rho0 c * (twoPow (m + 1))⁻¹ * (pauliKron i c).get r k)
      = (tomoMeasurements (m + 1)).map fun c =>
          (twoPow (m + 1))⁻¹ * ∑ a ∈ Finset.range (2 ^ (m + 1)), ∑ a' ∈ Finset.range (2 ^ (m + 1)),
            rho0.get a a' *
              (entryRev (c.reverse.map fun p => (pauliM i p).get) a' a
                * entryRev (c.reverse.map fun p => (pauliM i p).get) r k) := by
    apply List.map_congr_left
    intro c hc
    have hl := hlen c hc
    unfold trPauli
    rw [hl, mul_comm (Finset.sum _ _) _, mul_assoc, Finset.sum_mul]
    congr 1
    refine Finset.sum_congr rfl fun a ha => ?_
    rw [Finset.sum_mul]
    refine Finset.sum_congr rfl fun a' ha' => ?_
    rw [pauliKron_get i c (by rw [hl]; exact Finset.mem_range.mp ha')
        (by rw [hl]; exact Finset.mem_range.mp ha),
      pauliKron_get i c (by rw [hl]; exact hr) (by rw [hl]; exact hk)]
    ring
  rw [e1, List.sum_map_mul_left, list_sum_finset_sum]
  have e2 : ∀ a ∈ Finset.range (2 ^ (m + 1)),
      ((tomoMeasurements (m + 1)).map fun c => ∑ a' ∈ Finset.range (2 ^ (m + 1)),
          rho0.get a a' *
            (entryRev (c.reverse.map fun p => (pauliM i p).get) a' a
              * entryRev (c.reverse.map fun p => (pauliM i p).get) r k)).sum
        = if a = r then rho0.get a k * (1 + 1) ^ (m + 1) else 0 := by
    intro a ha
    rw [list_sum_finset_sum]
    have e3 : ∀ a' ∈ Finset.range (2 ^ (m + 1)),
        ((tomoMeasurements (m + 1)).map fun c => rho0.get a a' *
            (entryRev (c.reverse.map fun p => (pauliM i p).get) a' a
              * entryRev (c.reverse.map fun p => (pauliM i p).get) r k)).sum
          = if a' = k then (if a = r then rho0.get a a' * (1 + 1) ^ (m + 1) else 0) else 0 := by
      intro a' ha'
      rw [List.sum_map_mul_left]
      have := pauli_complete hi m (Finset.mem_range.mp ha') (Finset.mem_range.mp ha) hr hk
      simp only [tomoMeasurements, combineAll, Nat.add_sub_cancel, Bool.false_eq_true, if_false]
      rw [this]
      by_cases h1 : a' = k <;> by_cases h2' : a = r <;> simp [h1, h2']
    rw [Finset.sum_congr rfl e3, Finset.sum_ite_eq' _ k, if_pos (Finset.mem_range.mpr hk)]
  rw [Finset.sum_congr rfl e2, Finset.sum_ite_eq' _ r, if_pos (Finset.mem_range.mpr hr), twoPow_eq]
  field_simp

/-! ### process -/

/-- the matrix `process` returns on noiseless data -/
def normalised (n : Nat) (rho0 : M K) : M K :=
  M.ofFn (2 ^ n) fun r k => rho0.get r k * (trN n rho0)⁻¹

theorem densityMatrix_born {i h : K} (hc : Consts i h) (h2 : (1 + 1 : K) ≠ 0) (n : Nat) (hn : 0 < n)
    (rho0 : M K) (htr : trN n rho0 ≠ 0) (full : List (Meas × Res K))
    (hkeys : full.map (·.1) = tomoMeasurements n)
    (hvals : ∀ p ∈ full, p.2.Perm (bornTable i h n rho0 (p.1.map toZ))) :
    densityMatrix i n full = .ok (normalised n rho0) := by
  have hlen := tomoMeasurements_length hn
  have hlenp : ∀ p ∈ full, p.1.length = n := by
    intro p hp
    apply hlen
    rw [← hkeys]
    exact List.mem_map_of_mem hp
  have hws : full.mapM (fun mr => do
        let e ← expectation mr.1 mr.2
        pure (e * (twoPow n)⁻¹, pauliKron i mr.1))
      = .ok (full.map fun p => (trPauli i rho0 p.1 * (trN n rho0)⁻¹ * (twoPow n)⁻¹, pauliKron i p.1)) := by
    apply mapM_ok
    intro p hp
    have hl := hlenp p hp
    have := expectation_born hc p.1 rho0 p.2 (by rw [hl]; exact hvals p hp) (by rw [hl]; exact htr)
    rw [this, hl]
    rfl
  unfold densityMatrix
  rw [hws]
  simp only [bind, Except.bind, pure, Except.pure, normalised]
  congr 1
  apply M.ofFn_congr
  intro r k hr hk
  rw [lsum_eq_sum, List.map_map]
  have e : ((fun wm : K × M K => wm.1 * wm.2.get r k) ∘
      fun p : Meas × Res K => (trPauli i rho0 p.1 * (trN n rho0)⁻¹ * (twoPow n)⁻¹, pauliKron i p.1))
      = (fun c : Meas => (trN n rho0)⁻¹ * (trPauli i rho0 c * (twoPow n)⁻¹ * (pauliKron i c).get r k))
          ∘ (·.1) := by
    funext p
    simp only [Function.comp]
    ring
  rw [e, ← List.map_map, hkeys, List.sum_map_mul_left, pauli_reconstruction hc.i_sq h2 n hn rho0 hr hk]
  ring

/-- `StateTomography.process()` on noiseless outcome tables of the density operator `ρ₀` returns
`ρ₀ / tr ρ₀`, for every order in which the callback saw the settings and every ordering of the
entries inside each result dictionary -/
theorem process_born {i h : K} (hc : Consts i h) (h2 : (1 + 1 : K) ≠ 0) (n : Nat) (hn : 0 < n)
    (rho0 : M K) (htr : trN n rho0 ≠ 0) (order : List Meas) (rs : List (Res K))
    (hcover : ∀ c ∈ tomoMeasurements n, c.map toZ ∈ order)
    (hrs : List.Forall₂ (fun s r => r.Perm (bornTable i h n rho0 s)) order rs) :
    process i n order rs = .ok (normalised n rho0) := by
  have hl : order.length = rs.length := hrs.length_eq
  let G : Meas → Meas × Res K := fun c =>
    match lookup (order.zip rs) (c.map toZ) with
    | some r => (c, r)
    | none => (c, [])
  unfold process
  simp only [hl, ne_eq, not_true_eq_false, if_false]
  have : densityMatrix i n ((tomoMeasurements n).map G) = .ok (normalised n rho0) := by
    apply densityMatrix_born hc h2 n hn rho0 htr
    · rw [List.map_map]
      conv_rhs => rw [← List.map_id (tomoMeasurements n)]
      apply List.map_congr_left
      intro c _
      simp only [Function.comp, G]
      split <;> rfl
    · intro p hp
      simp only [List.mem_map] at hp
      obtain ⟨c, hcm, rfl⟩ := hp
      obtain ⟨r, hr1, hr2⟩ := lookup_forall2 hrs (hcover c hcm)
      simp only [G, hr1]
      exact hr2
  simp only [bind, Except.bind, pure, Except.pure]
  rw [mapM_ok _ G (tomoMeasurements n)]
  · exact this
  · intro c hcm
    obtain ⟨r, hr1, _⟩ := lookup_forall2 hrs (hcover c hcm)
    simp only [G, hr1]

end LW.Tomo
