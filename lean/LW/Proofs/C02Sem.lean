/-
  LW.Proofs.C02Sem — C02 (semantic core): the refinement theorems, collected.

  * C02SemEmbed / C02SemRun / C02SemRel / C02SemBumps — algebra of `Optic.embedVia` (partial
    injections), the RUN lemma (compiling relabelled components = embedding of the compiled original),
    the INSERT-MODE lemma (`compile_addEmptyMode`, iterated: `compile_specIns`) and the SHIFT lemma
    (`foldl_shift`).
  * C02SemAbs / C02SemClosed — structure of `Circ.toOptic` (`optMode`/`optIdx` inverse bijections,
    `mapMode m` = m-th port) and its closed form on the circuit's own modes (`closed_toOptic`).
  * C02SemPrim / C02SemCalls — `sem_bs`, `sem_ps`, `sem_loss`, `sem_swaps`, `sem_herald`.
  * C02SemAccept — `sem_add_accepts`.
  * C02SemSynth — functional characterisation of `synthSwaps`.
  * C02SemLoops / C02SemAdd1..6 — the two loops of `add` made explicit, the matrix of the result
    (`Ufull_add`), the positional facts (`addPos`, WINDOW lemma), and `sem_add`.
-/
import LW.Model.Abs
import LW.Proofs.Reach
import LW.Proofs.C02SemCalls
import LW.Proofs.C02SemAccept
import LW.Proofs.C02SemAdd6

namespace LW.Proofs.C02Sem

/-! ### non-vacuity: an accepted addition with an ancilla inside the span, heralds whose input and
output modes differ and are declared out of mode order -/

private def exSub : Except Err (Circ Int) := do
  let c : Circ Int := { n := 4, spec := [.prim (.bs 0 1 1 0 .h), .prim (.bs 2 3 1 0 .rx)] }
  let c ← c.herald 1 3 0
  c.herald 2 0 1

private def exPar : Except Err (Circ Int) := do
  let c : Circ Int := { n := 3, spec := [.prim (.bs 0 2 1 0 .h)] }
  let s : Circ Int := { n := 2, spec := [.prim (.bs 0 1 1 0 .h)] }
  let s ← s.herald 1 1 1
  c.add s 1 false

example : ∃ par sub res : Circ Int, exPar = .ok par ∧ exSub = .ok sub ∧ par.add sub 1 false = .ok res ∧
    par.internal = [2] ∧ sub.inHer = [(3, 1), (0, 2)] ∧ sub.outHer = [(0, 1), (1, 2)] ∧
    res.internal = [3, 1, 5] := by
  refine ⟨_, _, _, rfl, rfl, rfl, ?_, ?_, ?_, ?_⟩ <;> decide

end LW.Proofs.C02Sem
