/-
  LW.Proofs.C16MLEExample — non-vacuity of the corrected list-level MLE statement over ℂ: for one
  qubit and the complex, non-symmetric unitary `V = [[3, -4i], [4, 3i]]/5` all hypotheses hold (the
  data pipeline succeeds on the noiseless tables) and the data vector is a non-zero multiple of
  `_p_vec(choi_from_unitary(V))`.
-/
import LW.Proofs.C16Cex

open scoped BigOperators

namespace LW.Tomo

noncomputable section
open Classical

/-- `V = [[3, -4i], [4, 3i]]/5` -/
def exV : M ℂ := mat2 (3 / 5 : ℂ) (-4 / 5 * Complex.I) (4 / 5) (3 / 5 * Complex.I)

theorem exV_unitary : exV.dagger.mul exV = M.one (2 ^ 1) := by
  unfold M.mul
  show M.ofFn 2 _ = M.ofFn 2 _
  apply M.ofFn_congr
  intro r c hr hc
  rw [M.sumN_eq_sum]
  show ∑ k ∈ Finset.range 2, exV.dagger.get r k * exV.get k c = _
  have h0 : (0 : Nat) < exV.n := by decide
  have h1 : (1 : Nat) < exV.n := by decide
  have e00 : exV.get 0 0 = 3 / 5 := mat2_00 ..
  have e01 : exV.get 0 1 = -4 / 5 * Complex.I := mat2_01 ..
  have e10 : exV.get 1 0 = 4 / 5 := mat2_10 ..
  have e11 : exV.get 1 1 = 3 / 5 * Complex.I := mat2_11 ..
  have s35 : star (3 / 5 : ℂ) = 3 / 5 := by
    rw [Complex.star_def, map_div₀, map_ofNat, map_ofNat]
  have s45 : star (4 / 5 : ℂ) = 4 / 5 := by
    rw [Complex.star_def, map_div₀, map_ofNat, map_ofNat]
  have sI : star Complex.I = -Complex.I := Complex.conj_I
  have d00 : exV.dagger.get 0 0 = 3 / 5 := by rw [get_dagger exV h0 h0, e00, s35]
  have d01 : exV.dagger.get 0 1 = 4 / 5 := by rw [get_dagger exV h0 h1, e10, s45]
  have d10 : exV.dagger.get 1 0 = 4 / 5 * Complex.I := by
    rw [get_dagger exV h1 h0, e01, show (-4 / 5 * Complex.I : ℂ) = -(4 / 5 * Complex.I) by ring,
      star_neg, star_mul', s45, sI]
    ring
  have d11 : exV.dagger.get 1 1 = -(3 / 5 * Complex.I) := by
    rw [get_dagger exV h1 h1, e11, star_mul', s35, sI]
    ring
  have hI : Complex.I * Complex.I = -1 := Complex.I_mul_I
  have hr' : r = 0 ∨ r = 1 := by omega
  have hc' : c = 0 ∨ c = 1 := by omega
  rcases hr' with rfl | rfl <;> rcases hc' with rfl | rfl <;>
    rw [Finset.sum_range_succ, Finset.sum_range_succ, Finset.sum_range_zero, zero_add] <;>
    simp only [d00, d01, d10, d11, e00, e01, e10, e11]
  · norm_num
  · simp only [show (0 : Nat) = 1 ↔ False by decide, if_false]
    ring
  · simp only [show (1 : Nat) = 0 ↔ False by decide, if_false]
    ring
  · simp only [if_true]
    linear_combination (-1 : ℂ) * hI

/-- the corrected list-level MLE statement is not vacuous over ℂ -/
theorem mle_example_complex :
    (do let data ← mleData 1 (requiredSet 1) ((combineAll tomoInputsMLE 1).flatMap (fun ins =>
          (requiredSet 1).map fun s =>
            bornTable Complex.I (((Real.sqrt 2)⁻¹ : ℝ) : ℂ) 1 (channel exV (rhoKron Complex.I ins)) s));
        nVec 1 data)
      = .ok (nvOf Complex.I exV 1 (((6 ^ 1 * (4 ^ 1 - 1) : Nat)) : ℂ)) ∧
    ∃ c : ℂ, c ≠ 0 ∧ (pVec Complex.I 1 (choiFromUnitary exV)).map (· * c)
      = nvOf Complex.I exV 1 (((6 ^ 1 * (4 ^ 1 - 1) : Nat)) : ℂ) := by
  have hpipe := mle_pipeline Proofs.C15.consts_complex (by norm_num : (1 + 1 : ℂ) ≠ 0) 1
    (by norm_num) exV rfl exV_unitary (requiredSet 1) (List.Perm.refl _)
  exact ⟨hpipe, mle_model_consistent_char0 Proofs.C15.consts_complex (by norm_num) 1 exV
    (requiredSet 1) _ _ (by norm_num) rfl exV_unitary (List.Perm.refl _) rfl hpipe⟩

end

end LW.Tomo
