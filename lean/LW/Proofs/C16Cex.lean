/-
  LW.Proofs.C16Cex — the list-level MLE statement of C16 is FALSE as originally written (for every
  field): in `𝔽₄₉ = 𝔽₇[i]` (which satisfies `Consts` and `2 ≠ 0`) and `n = 3` qubits the number
  `len(data) = 6³·63 = 13608` is zero, so `_n_vec_from_data` (which divides by it; `x/0 = 0` in a
  Lean field) is the zero vector, while `_p_vec` of the reference Choi matrix is not.  More
  generally the hypothesis `len(data) ≠ 0` of the corrected statement is necessary in every field
  (`mle_count_necessary`).
-/
import LW.Proofs.C16MLEList2
import LW.Proofs.C16F49

open scoped BigOperators

namespace LW.Tomo

variable {K : Type} [Field K] [StarRing K] [DecidableEq K]

set_option linter.unusedSectionVars false

/-- the data vector on noiseless data of `V`, with `L = len(data)` -/
def nvOf (i : K) (V : M K) (n : Nat) (L : K) : List K :=
  (combineAll tomoInputsMLE n).flatMap fun ins =>
    (tomoMeasurements n true).flatMap fun meas =>
      [(1 + trPauli i (channel V (rhoKron i ins)) meas) * half * L⁻¹,
       (1 + -trPauli i (channel V (rhoKron i ins)) meas) * half * L⁻¹]

/-- the whole data pipeline on noiseless data of a unitary -/
theorem mle_pipeline {i h : K} (hc : Consts i h) (h2 : (1 + 1 : K) ≠ 0) (n : Nat) (hn : 0 < n)
    (V : M K) (hV : V.n = 2 ^ n) (hU : V.dagger.mul V = M.one (2 ^ n)) (order : List Meas)
    (hord : order.Perm (requiredSet n)) :
    (do let data ← mleData n order ((combineAll tomoInputsMLE n).flatMap fun ins =>
          order.map fun s => bornTable i h n (channel V (rhoKron i ins)) s)
        nVec n data)
      = .ok (nvOf i V n (((6 ^ n * (4 ^ n - 1) : Nat)) : K)) := by
  rw [mleData_born hc h2 n hn V hV hU order hord]
  simp only [bind, Except.bind]
  rw [nVec_table, inputsMLE_length n hn, tomoMeasurements_true_length n hn]
  rfl

theorem one_dagger_mul_one (N : Nat) : (M.one N : M K).dagger.mul (M.one N) = M.one N := by
  unfold M.mul
  show M.ofFn N _ = M.ofFn N _
  apply M.ofFn_congr
  intro r c hr hc
  rw [M.sumN_eq_sum]
  show ∑ k ∈ Finset.range N, (M.one N : M K).dagger.get r k * (M.one N : M K).get k c = _
  rw [Finset.sum_eq_single r]
  · rw [get_dagger _ (by simpa using hr) (by simpa using hr), M.get_one hr hr, M.get_one hr hc]
    simp
  · intro k hk hkr
    rw [get_dagger _ (by simpa using hr) (by simpa using Finset.mem_range.mp hk),
      M.get_one (Finset.mem_range.mp hk) hr, if_neg hkr]
    simp
  · intro h
    exact absurd (Finset.mem_range.mpr hr) h

/-- the extra hypothesis of the corrected statement is NECESSARY: in any field in which the number
`len(data) = 6ⁿ·(4ⁿ-1)` vanishes, the data vector computed on noiseless data of a unitary `V` is the
zero vector (`x/0 = 0`), which is not a non-zero multiple of `_p_vec(choi_from_unitary(V))`: the two
model probabilities of the pair (input `Z+…Z+`, measurement `Z…Z`) sum to `4⁻ⁿ ≠ 0` -/
theorem mle_count_necessary {i h : K} (hc : Consts i h) (h2 : (1 + 1 : K) ≠ 0) (n : Nat) (hn : 0 < n)
    (V : M K) (hV : V.n = 2 ^ n) (hU : V.dagger.mul V = M.one (2 ^ n)) (order : List Meas)
    (hord : order.Perm (requiredSet n)) (hzero : (((6 ^ n * (4 ^ n - 1) : Nat)) : K) = 0) :
    ∃ nv, (do let data ← mleData n order ((combineAll tomoInputsMLE n).flatMap (fun ins =>
              order.map fun s => bornTable i h n (channel V (rhoKron i ins)) s)); nVec n data)
        = .ok nv ∧
      ¬ ∃ c : K, c ≠ 0 ∧ (pVec i n (choiFromUnitary V)).map (· * c) = nv := by
  refine ⟨_, mle_pipeline hc h2 n hn V hV hU order hord, ?_⟩
  rintro ⟨c, hc0, hc⟩
  have hn1 : n - 1 + 1 = n := by omega
  -- every entry of the data vector is zero
  have hzeroall : ∀ x ∈ nvOf i V n (((6 ^ n * (4 ^ n - 1) : Nat)) : K), x = 0 := by
    intro x hx
    unfold nvOf at hx
    obtain ⟨ins, _, hx⟩ := List.mem_flatMap.mp hx
    obtain ⟨meas, _, hx⟩ := List.mem_flatMap.mp hx
    rw [hzero, inv_zero] at hx
    simp only [mul_zero, List.mem_cons, List.not_mem_nil, or_false, or_self] at hx
    exact hx
  -- hence every model probability is zero
  have hp : ∀ p ∈ pVec i n (choiFromUnitary V), p = 0 := by
    intro p hp
    have h1 : p * c ∈ (pVec i n (choiFromUnitary V)).map (· * c) := List.mem_map.mpr ⟨p, hp, rfl⟩
    rw [hc] at h1
    rcases mul_eq_zero.mp (hzeroall _ h1) with h | h
    · exact h
    · exact absurd h hc0
  -- but the two probabilities of one (input, measurement) pair sum to `4⁻ⁿ ≠ 0`
  have hins : List.replicate n InLabel.Zp ∈ combineAll tomoInputsMLE n := by
    simp only [combineAll]
    rw [mem_combos]
    refine ⟨by rw [List.length_replicate, hn1], ?_⟩
    intro p hp
    rw [List.eq_of_mem_replicate hp]
    decide
  have hmeas : List.replicate n Pauli.Z ∈ tomoMeasurements n true := by
    rw [tomoMeasurements_true, List.mem_filter]
    refine ⟨?_, ?_⟩
    · simp only [tomoMeasurements, combineAll, Bool.false_eq_true, if_false]
      rw [mem_combos]
      refine ⟨by rw [List.length_replicate, hn1], ?_⟩
      intro p hp
      rw [List.eq_of_mem_replicate hp]
      decide
    · obtain ⟨m, rfl⟩ : ∃ m, n = m + 1 := ⟨n - 1, by omega⟩
      simp [List.replicate_succ]
  have hmem : ∀ x ∈ [pairing (aRowMats i n (List.replicate n InLabel.Zp)
        (List.replicate n Pauli.Z)).1 (choiFromUnitary V),
      pairing (aRowMats i n (List.replicate n InLabel.Zp)
        (List.replicate n Pauli.Z)).2 (choiFromUnitary V)],
      x ∈ pVec i n (choiFromUnitary V) := by
    intro x hx
    unfold pVec
    exact List.mem_flatMap.mpr ⟨_, hins, List.mem_flatMap.mpr ⟨_, hmeas, hx⟩⟩
  obtain ⟨e1, e2⟩ := mle_rows i n V hV (List.replicate n InLabel.Zp) (List.length_replicate ..)
    (List.replicate n Pauli.Z) (List.length_replicate ..)
  have z1 := hp _ (hmem _ List.mem_cons_self)
  have z2 := hp _ (hmem _ (List.mem_cons_of_mem _ List.mem_cons_self))
  have htr : trN n (channel V (rhoKron i (List.replicate n InLabel.Zp))) = 1 := by
    rw [trN_channel n _ _ hV hU, trN_rhoKron h2 i _ n (List.length_replicate ..)]
  rw [z1, htr] at e1
  rw [z2, htr] at e2
  have htp : (twoPow (2 * n) : K) ≠ 0 := by
    rw [twoPow_eq]
    exact pow_ne_zero _ h2
  have hsum : (0 : K) = (twoPow (2 * n))⁻¹ * (half * (1 + 1)) := by
    linear_combination e1 + e2
  rw [half_two h2, mul_one] at hsum
  exact inv_ne_zero htp hsum.symm

theorem consts_F49 : Consts F49.I F49.H := ⟨F49.I_mul_I, F49.star_I, F49.star_H, F49.H_sq⟩

/-- the original list-level statement (all fields) is false -/
theorem mle_statement_original_false :
    ¬ (∀ (K : Type) [Field K] [StarRing K] [DecidableEq K] (i h : K), Consts i h → (1 + 1 : K) ≠ 0 →
      ∀ (n : Nat) (V : M K) (order : List Meas) (rs : List (Res K)) (nv : List K), 0 < n →
      V.n = 2 ^ n → (V.dagger.mul V = M.one (2 ^ n)) → order.Perm (requiredSet n) →
      rs = (combineAll tomoInputsMLE n).flatMap (fun ins =>
        order.map fun s => bornTable i h n (channel V (rhoKron i ins)) s) →
      (do let data ← mleData n order rs; nVec n data) = .ok nv →
      ∃ c : K, c ≠ 0 ∧ (pVec i n (choiFromUnitary V)).map (· * c) = nv) := by
  intro H
  have hn : 0 < 3 := by norm_num
  have h2 := F49.two_ne_zero'
  have hU : (M.one (2 ^ 3) : M F49).dagger.mul (M.one (2 ^ 3)) = M.one (2 ^ 3) :=
    one_dagger_mul_one _
  have hV : (M.one (2 ^ 3) : M F49).n = 2 ^ 3 := rfl
  obtain ⟨nv, hnv, hno⟩ := mle_count_necessary consts_F49 h2 3 hn (M.one (2 ^ 3)) hV hU
    (requiredSet 3) (List.Perm.refl _) F49.count_zero
  exact hno (H F49 F49.I F49.H consts_F49 h2 3 (M.one (2 ^ 3)) (requiredSet 3) _ nv hn
    hV hU (List.Perm.refl _) rfl hnv)

end LW.Tomo
