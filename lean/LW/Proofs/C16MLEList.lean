/-
  LW.Proofs.C16MLEList — list-level packaging of the MLE data-model consistency: on noiseless
  data of a unitary `V`, the data vector `_n_vec_from_data` builds is the vector of model
  probabilities `_p_vec(choi_from_unitary(V))` times the constant `4ⁿ / len(data)`.
  Part 1: the experiment runner and the data pipeline on noiseless tables.
-/
import LW.Proofs.C16Final

open scoped BigOperators

namespace LW.Tomo

variable {K : Type} [Field K] [StarRing K] [DecidableEq K]

set_option linter.unusedSectionVars false

/-! ### generic list helpers -/

/-- slicing a concatenation of equally long blocks (`results[per*i : per*(i+1)]`) -/
theorem mapM_blocks {α β γ : Type} (blk : α → List β) (per : Nat) (hper : ∀ a, (blk a).length = per)
    (mk : α → List β → γ) (R : List β) (f : α × Nat → Except Err γ)
    (hf : ∀ a idx, f (a, idx) =
      if ((R.drop (per * idx)).take per).length ≠ per then .error .value
      else .ok (mk a ((R.drop (per * idx)).take per)))
    (l : List α) (P : List β) (k0 : Nat) (hP : P.length = per * k0) (hR : R = P ++ l.flatMap blk) :
    (l.zipIdx k0).mapM f = .ok (l.map fun a => mk a (blk a)) := by
  induction l generalizing P k0 with
  | nil => rfl
  | cons a t ih =>
    have hs : (R.drop (per * k0)).take per = blk a := by
      rw [hR, List.flatMap_cons, List.drop_left' hP, List.take_left' (hper a)]
    rw [List.zipIdx_cons, List.mapM_cons, hf, hs, if_neg (by simp [hper a]),
      ih (P ++ blk a) (k0 + 1) (by rw [List.length_append, hP, hper a, Nat.mul_succ])
        (by rw [hR, List.flatMap_cons, List.append_assoc])]
    rfl

theorem lookup_zip_map {β : Type} (f : Meas → β) (order : List Meas) {s : Meas} (hs : s ∈ order) :
    lookup (order.zip (order.map f)) s = some (f s) := by
  induction order with
  | nil => cases hs
  | cons s0 o ih =>
    by_cases e : s0 = s
    · subst e
      simp [lookup, List.find?_cons]
    · have hs' : s ∈ o := by
        cases hs with
        | head => exact absurd rfl e
        | tail _ h => exact h
      have := ih hs'
      simp only [lookup, List.map_cons, List.zip_cons_cons, List.find?_cons] at this ⊢
      have hne : (s0 == s) = false := by simpa using e
      rw [hne]
      exact this

theorem find_key_map {κ β : Type} [BEq κ] [LawfulBEq κ] (f : κ → β) (keys : List κ) {key : κ}
    (hk : key ∈ keys) :
    (keys.map fun k => (k, f k)).find? (fun e => e.1 == key) = some (key, f key) := by
  induction keys with
  | nil => cases hk
  | cons k0 t ih =>
    by_cases e : k0 = key
    · subst e
      simp [List.find?_cons]
    · have hk' : key ∈ t := by
        cases hk with
        | head => exact absurd rfl e
        | tail _ h => exact h
      have hne : (k0 == key) = false := by simpa using e
      simp only [List.map_cons, List.find?_cons, hne]
      exact ih hk'

theorem flatten_flatten_map {α β γ : Type} (l : List α) (m : α → List β) (q : α → β → List γ) :
    (l.map fun a => (m a).map (q a)).flatten.flatten = l.flatMap fun a => (m a).flatMap (q a) := by
  induction l with
  | nil => rfl
  | cons a t ih =>
    simp only [List.map_cons, List.flatten_cons, List.flatten_append, List.flatMap_cons, ih]
    rfl

theorem flatMap_congr' {α β : Type} (l : List α) (f g : α → List β) (h : ∀ a ∈ l, f a = g a) :
    l.flatMap f = l.flatMap g := by
  induction l with
  | nil => rfl
  | cons a t ih =>
    simp only [List.flatMap_cons]
    rw [h a List.mem_cons_self, ih (fun x hx => h x (List.mem_cons_of_mem _ hx))]

theorem length_flatMap_const {α β : Type} (l : List α) (f : α → List β) (c : Nat)
    (h : ∀ a ∈ l, (f a).length = c) : (l.flatMap f).length = l.length * c := by
  induction l with
  | nil => simp
  | cons a t ih =>
    simp only [List.flatMap_cons, List.length_append, List.length_cons]
    rw [h a List.mem_cons_self, ih (fun x hx => h x (List.mem_cons_of_mem _ hx)), Nat.succ_mul]
    omega

theorem lsum_ones {α : Type} (l : List α) : lsum (l.map fun _ => (1 : K)) = (l.length : K) := by
  rw [lsum_eq_sum]
  induction l with
  | nil => simp
  | cons a t ih => simp [ih]; ring

/-! ### the combinations -/

theorem combos_card {α : Type} (vals : List α) (k : Nat) :
    (combos vals k).length = vals.length ^ (k + 1) := by
  induction k with
  | zero => simp [combos]
  | succ k ih =>
    simp only [combos]
    rw [length_flatMap_const _ _ vals.length (fun _ _ => by simp), ih]
    exact (pow_succ _ _).symm

theorem combos_nodup {α : Type} (vals : List α) (hv : vals.Nodup) (k : Nat) :
    (combos vals k).Nodup := by
  induction k with
  | zero =>
    simp only [combos]
    exact hv.map (fun a b h => by simpa using h)
  | succ k ih =>
    simp only [combos]
    rw [List.nodup_flatMap]
    refine ⟨fun v1 _ => hv.map (fun a b h => by simpa using h), ?_⟩
    refine ih.imp ?_
    intro v1 v1' hne
    simp only [Function.onFun]
    rw [List.disjoint_left]
    intro x hx hx'
    obtain ⟨a, _, rfl⟩ := List.mem_map.mp hx
    obtain ⟨b, _, hb⟩ := List.mem_map.mp hx'
    exact hne (List.append_inj_left' hb rfl).symm

theorem tomoMeasurements_nodup (n : Nat) : (tomoMeasurements n).Nodup := by
  simp only [tomoMeasurements, combineAll, Bool.false_eq_true, if_false]
  exact combos_nodup _ (by decide) _

theorem tomoMeasurements_true (n : Nat) :
    tomoMeasurements n true = (tomoMeasurements n).filter (· != List.replicate n Pauli.I) := by
  have := (tomoMeasurements_nodup n).erase_eq_filter (List.replicate n Pauli.I)
  simp only [tomoMeasurements, combineAll, Bool.false_eq_true, if_false, if_true] at this ⊢
  exact this

theorem mem_tomoMeasurements_true {n : Nat} {m : Meas} (h : m ∈ tomoMeasurements n true) :
    m ∈ tomoMeasurements n := by
  rw [tomoMeasurements_true] at h
  exact (List.mem_filter.mp h).1

theorem replicateI_mem (n : Nat) (hn : 0 < n) : List.replicate n Pauli.I ∈ tomoMeasurements n := by
  simp only [tomoMeasurements, combineAll, Bool.false_eq_true, if_false]
  rw [mem_combos]
  refine ⟨by simp; omega, ?_⟩
  intro p hp
  rw [List.eq_of_mem_replicate hp]
  decide

theorem tomoMeasurements_true_length (n : Nat) (hn : 0 < n) :
    (tomoMeasurements n true).length = 4 ^ n - 1 := by
  have h1 : tomoMeasurements n true = (tomoMeasurements n).erase (List.replicate n Pauli.I) := by
    simp [tomoMeasurements]
  rw [h1, List.length_erase_of_mem (replicateI_mem n hn)]
  simp only [tomoMeasurements, combineAll, Bool.false_eq_true, if_false]
  rw [combos_card]
  have : n - 1 + 1 = n := by omega
  rw [this]
  rfl

theorem inputsMLE_length (n : Nat) (hn : 0 < n) : (combineAll tomoInputsMLE n).length = 6 ^ n := by
  simp only [combineAll]
  rw [combos_card]
  have : n - 1 + 1 = n := by omega
  rw [this]
  rfl

theorem mem_inputs_length {n : Nat} (hn : 0 < n) {vals : List InLabel} {ins : Ins}
    (h : ins ∈ combineAll vals n) : ins.length = n := by
  have := ((mem_combos _ _ _).mp h).1
  omega

/-! ### the experiment runner on noiseless tables -/

/-- `_run_required_experiments` when the callback returns, input-major, the table `g ins s` for
every setting `s` of `order`: each (input, measurement) is paired with the table of its setting -/
theorem runExperiments_tables (n : Nat) (inputs : List Ins) (order : List Meas)
    (g : Ins → Meas → Res K) (hcover : ∀ c ∈ tomoMeasurements n, c.map toZ ∈ order) :
    runExperiments n inputs order (inputs.flatMap fun ins => order.map (g ins))
      = .ok (inputs.flatMap fun ins =>
          (tomoMeasurements n).map fun meas => ((ins, meas), g ins (meas.map toZ))) := by
  unfold runExperiments
  have h1 := mapM_blocks (fun ins => order.map (g ins)) order.length (fun _ => by simp)
    (fun (ins : Ins) (slice : List (Res K)) => (ins, order.zip slice))
    (inputs.flatMap fun ins => order.map (g ins))
    (fun (x : Ins × Nat) =>
      if (((inputs.flatMap fun ins => order.map (g ins)).drop (order.length * x.2)).take
          order.length).length ≠ order.length then (.error .value : Except Err (Ins × List (Meas × Res K)))
      else .ok (x.1, order.zip (((inputs.flatMap fun ins => order.map (g ins)).drop
          (order.length * x.2)).take order.length)))
    (fun _ _ => rfl) inputs [] 0 rfl rfl
  have h2 : (inputs.map fun a => (a, order.zip (order.map (g a)))).mapM
      (fun (x : Ins × List (Meas × Res K)) =>
        (tomoMeasurements n).mapM fun meas =>
          match lookup x.2 (meas.map toZ) with
          | some r => (pure ((x.1, meas), r) : Except Err ((Ins × Meas) × Res K))
          | none => throw Err.other)
      = .ok ((inputs.map fun a => (a, order.zip (order.map (g a)))).map
          fun (x : Ins × List (Meas × Res K)) =>
          (tomoMeasurements n).map fun meas => ((x.1, meas), g x.1 (meas.map toZ))) := by
    apply mapM_ok
    intro x hx
    obtain ⟨a, _, rfl⟩ := List.mem_map.mp hx
    apply mapM_ok
    intro meas hm
    simp only [lookup_zip_map (g a) order (hcover meas hm)]
    rfl
  show (do
    let sorted ← (inputs.zipIdx).mapM _
    let full ← sorted.mapM _
    pure full.flatten : Except Err _) = _
  erw [h1]
  simp only [bind, Except.bind]
  erw [h2]
  simp only [List.map_map, List.flatMap_def]
  rfl

end LW.Tomo
