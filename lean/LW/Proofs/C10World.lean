/-
  LW.Proofs.C10World — the world of live objects: parameter updates never touch circuits, calls
  with `Parameter` arguments are calls of the plain construction API on symbolic fields, frozen
  copies stay constant over every later history, unitary blocks stay literal.
-/
import LW.Proofs.C10Add
import LW.Proofs.C10Param

namespace LW

variable {α K : Type}

/-! ### the pool of circuits (self-contained copies of the small C08 frame lemmas) -/

namespace C10Aux

theorem find_map_ne (h : Heap K) (k k' : String) (c : Circ K) (hne : k' ≠ k) :
    ((h.map fun x => if x.1 == k then (k, c) else x).find? (·.1 == k')).map (·.2) =
      (h.find? (·.1 == k')).map (·.2) := by
  induction h with
  | nil => rfl
  | cons x xs ih =>
    rw [List.map_cons]
    by_cases hx : x.1 = k
    · have hf : (if (x.1 == k) = true then (k, c) else x) = (k, c) := by simp [hx]
      have h1 : (x.1 == k') = false := by simp [hx, Ne.symm hne]
      have h2 : (k == k') = false := by simp [Ne.symm hne]
      rw [hf, List.find?_cons, List.find?_cons]
      simp only [h1, h2]
      exact ih
    · have hf : (if (x.1 == k) = true then (k, c) else x) = x := by simp [hx]
      rw [hf, List.find?_cons, List.find?_cons]
      cases hxk : (x.1 == k')
      · exact ih
      · rfl

theorem get?_set_ne (h : Heap K) (k k' : String) (c : Circ K) (hne : k' ≠ k) :
    Heap.get? (Heap.set h k c) k' = Heap.get? h k' := by
  unfold Heap.set Heap.get?
  split
  · exact find_map_ne h k k' c hne
  · rw [List.find?_append]
    have : ([(k, c)] : Heap K).find? (·.1 == k') = none := by simp [hne.symm]
    simp [this]

theorem find_map_eq (h : Heap K) (k : String) (c : Circ K) (hany : h.any (·.1 == k) = true) :
    ((h.map fun x => if x.1 == k then (k, c) else x).find? (·.1 == k)).map (·.2) = some c := by
  induction h with
  | nil => simp at hany
  | cons x xs ih =>
    rw [List.map_cons, List.find?_cons]
    by_cases hx : x.1 = k
    · simp [hx]
    · have hf : (if (x.1 == k) = true then (k, c) else x) = x := by simp [hx]
      have hx' : (x.1 == k) = false := by simp [hx]
      rw [hf, hx']
      simp only [List.any_cons, hx', Bool.false_or] at hany
      exact ih hany

theorem get?_set_eq (h : Heap K) (k : String) (c : Circ K) :
    Heap.get? (Heap.set h k c) k = some c := by
  unfold Heap.set Heap.get?
  split
  · rename_i hany; exact find_map_eq h k c hany
  · rename_i hany
    rw [List.find?_append]
    have hnone : h.find? (·.1 == k) = none := by
      rw [List.find?_eq_none]
      intro x hx hxk
      exact hany (List.any_eq_true.mpr ⟨x, hx, hxk⟩)
    simp [hnone]

theorem heapStep_frame [Zero K] [One K] (h h' : Heap K) (op : CircOp K) (r : Outcome)
    (hs : heapStep h op = some (h', r)) (k : String) (hk : k ≠ op.target) :
    Heap.get? h' k = Heap.get? h k := by
  unfold heapStep at hs
  split at hs
  · exact absurd hs (by simp)
  · simp only [Option.some.injEq, Prod.mk.injEq] at hs
    rw [← hs.1]
    exact get?_set_ne h op.target k _ hk
  · simp only [Option.some.injEq, Prod.mk.injEq] at hs
    rw [← hs.1]

end C10Aux

/-- the circuit a call may write (`none`: the call only concerns parameters / dictionaries) -/
def POp.circTarget : POp α K → Option String
  | .circ op => some op.target
  | .bs cid .. | .ps cid .. | .loss cid .. => some cid
  | .freeze dst _ => some dst
  | _ => none

/-- calls of the C10 histories: the parameter-free calls carry literal scalars only (they are
built as `cop.map Sym.lit`) -/
def POp.WF : POp α K → Prop
  | .circ op => ∃ op₀ : CircOp K, op = op₀.map Sym.lit
  | _ => True

/-- replacement of the exception class when `check_loss` raised first -/
def relabel (chk : Option Err) (r : Outcome) : Outcome :=
  match chk, r with
  | some e, some .value => some e
  | _, r => r

namespace World

section Frame
variable [LT α] [DecidableLT α] [Zero K] [One K]

theorem updCirc_get_ne {w w' : World α K} {cid k : String} {r : Except Err (PCirc α K)} {o : Option Fail}
    (h : w.updCirc cid r = (w', o)) (hk : k ≠ cid) : Heap.get? w'.circs k = Heap.get? w.circs k := by
  unfold updCirc at h
  cases r with
  | error e => simp only [Prod.mk.injEq] at h; rw [← h.1]
  | ok c =>
    simp only [Prod.mk.injEq] at h
    rw [← h.1]
    exact C10Aux.get?_set_ne w.circs cid k c hk

theorem updParam_circs {w w' : World α K} {id : Nat} {r : Except PErr (Param α)} {o : Option Fail}
    (h : w.updParam id r = (w', o)) : w'.circs = w.circs := by
  unfold updParam at h
  cases r <;> (simp only [Prod.mk.injEq] at h; rw [← h.1])

/-- FRAME: a call leaves every circuit other than its target exactly as it was; in particular a
parameter or dictionary update changes no circuit object at all -/
theorem step_circ_frame (ν : Views α K) {w w' : World α K} {op : POp α K} {o : Option Fail}
    (h : World.step ν w op = some (w', o)) (k : String) (hk : op.circTarget ≠ some k) :
    Heap.get? w'.circs k = Heap.get? w.circs k := by
  cases op with
  | pNew id v bounds =>
    simp only [step] at h
    split at h
    · cases h
    · injection h with h; rw [updParam_circs h]
  | pSet id v =>
    simp only [step] at h
    cases hg : w.store.get? id with
    | none => simp [hg] at h
    | some p => simp only [hg, Option.map_some, Option.some.injEq] at h; rw [updParam_circs h]
  | pMin id b =>
    simp only [step] at h
    cases hg : w.store.get? id with
    | none => simp [hg] at h
    | some p => simp only [hg, Option.map_some, Option.some.injEq] at h; rw [updParam_circs h]
  | pMax id b =>
    simp only [step] at h
    cases hg : w.store.get? id with
    | none => simp [hg] at h
    | some p => simp only [hg, Option.map_some, Option.some.injEq] at h; rw [updParam_circs h]
  | dNew d items =>
    simp only [step] at h
    split at h
    · simp only [Option.some.injEq, Prod.mk.injEq] at h; rw [← h.1]; rfl
    · cases h
  | dSet d key arg =>
    simp only [step, Option.bind_eq_bind] at h
    cases hd : w.getDict d with
    | none => simp [hd] at h
    | some pd =>
      simp only [hd, Option.bind_some] at h
      cases hs : pd.setItem w.store key arg with
      | none => simp [hs] at h
      | some r =>
        simp only [hs, Option.bind_some] at h
        cases r with
        | error e => simp only [Option.pure_def, Option.some.injEq, Prod.mk.injEq] at h; rw [← h.1]
        | ok wr =>
          cases wr <;>
            (simp only [Option.pure_def, Option.some.injEq, Prod.mk.injEq] at h; rw [← h.1]; try rfl)
  | dRemove d key =>
    simp only [step, Option.bind_eq_bind] at h
    cases hd : w.getDict d with
    | none => simp [hd] at h
    | some pd =>
      simp only [hd, Option.bind_some] at h
      split at h
      · simp only [Option.pure_def, Option.some.injEq, Prod.mk.injEq] at h; rw [← h.1]
      · simp only [Option.pure_def, Option.some.injEq, Prod.mk.injEq] at h; rw [← h.1]; rfl
  | circ cop =>
    simp only [step] at h
    cases hh : heapStep w.circs cop with
    | none => simp [hh] at h
    | some p =>
      obtain ⟨h', r⟩ := p
      simp only [hh, Option.some.injEq, Prod.mk.injEq] at h
      rw [← h.1]
      have hne : k ≠ cop.target := fun e => hk (by simp [POp.circTarget, e])
      exact C10Aux.heapStep_frame w.circs h' cop r hh k hne
  | bs cid m1 m2 r cv l =>
    simp only [step] at h
    cases hg : Heap.get? w.circs cid with
    | none => simp [hg] at h
    | some c =>
      simp only [hg, Option.map_some, Option.some.injEq] at h
      exact updCirc_get_ne h (fun e => hk (by simp [POp.circTarget, e]))
  | ps cid m phi l =>
    simp only [step] at h
    cases hg : Heap.get? w.circs cid with
    | none => simp [hg] at h
    | some c =>
      simp only [hg, Option.map_some, Option.some.injEq] at h
      exact updCirc_get_ne h (fun e => hk (by simp [POp.circTarget, e]))
  | loss cid m l =>
    simp only [step] at h
    cases hg : Heap.get? w.circs cid with
    | none => simp [hg] at h
    | some c =>
      simp only [hg, Option.map_some, Option.some.injEq] at h
      exact updCirc_get_ne h (fun e => hk (by simp [POp.circTarget, e]))
  | freeze dst src =>
    simp only [step] at h
    cases hg : Heap.get? w.circs src with
    | none => simp [hg] at h
    | some c =>
      simp only [hg, Option.map_some, Option.some.injEq] at h
      exact updCirc_get_ne h (fun e => hk (by simp [POp.circTarget, e]))

theorem run_circ_frame (ν : Views α K) (ops : List (POp α K)) {w w' : World α K}
    {rs : List (Option Fail)} (h : World.run ν w ops = some (w', rs)) (k : String)
    (hk : ∀ op ∈ ops, op.circTarget ≠ some k) : Heap.get? w'.circs k = Heap.get? w.circs k := by
  induction ops generalizing w w' rs with
  | nil =>
    simp only [run, Option.some.injEq, Prod.mk.injEq] at h
    rw [← h.1]
  | cons op ops ih =>
    simp only [run, Option.bind_eq_bind] at h
    cases hs : step ν w op with
    | none => simp [hs] at h
    | some p =>
      obtain ⟨w1, r⟩ := p
      simp only [hs, Option.bind_some] at h
      cases hr : run ν w1 ops with
      | none => simp [hr] at h
      | some q =>
        obtain ⟨w2, rs2⟩ := q
        simp only [hr, Option.bind_some, Option.pure_def, Option.some.injEq, Prod.mk.injEq] at h
        rw [← h.1, ih hr (fun op' hop' => hk op' (List.mem_cons_of_mem _ hop'))]
        exact step_circ_frame ν hs k (hk op List.mem_cons_self)

end Frame

section Bridge
variable [LT α] [DecidableLT α] [Zero K] [One K]

/-- the outcome of a pool call, written back into the world -/
def ofHeap (w : World α K) (chk : Option Err) (p : Heap (Sym α K) × Outcome) : World α K × Option Fail :=
  ({ w with circs := p.1 }, (relabel chk p.2).map Fail.circ)

theorem updCirc_withLossCheck (w : World α K) (cid : String) (chk : Option Err)
    (f : Bool → Except Err (PCirc α K)) :
    w.updCirc cid (withLossCheck chk f) =
      ofHeap w chk (match f chk.isNone with
        | .ok c => (Heap.set w.circs cid c, none)
        | .error e => (w.circs, some e)) := by
  cases chk with
  | none =>
    simp only [withLossCheck, Option.isNone_none]
    cases f true <;> rfl
  | some e =>
    simp only [withLossCheck, Option.isNone_some]
    cases f false with
    | ok c => rfl
    | error e' => cases e' <;> rfl

/-- a `bs` call with `Parameter` arguments is the plain construction call on symbolic fields, with
the loss-validity flag decided by `check_loss` on the parameter's value at the time of the call -/
theorem step_bs (ν : Views α K) (w : World α K) (cid : String) (m1 m2 : Int) (r : ReflArg α K)
    (cv : Conv) (l : LossArg α K) :
    World.step ν w (.bs cid m1 m2 r cv l) =
      (heapStep w.circs (.bs cid m1 m2 r.fields.1 cv (l.fields ν w.store).1 r.fields.2
        (l.fields ν w.store).2.isNone)).map (ofHeap w (l.fields ν w.store).2) := by
  simp only [step, heapStep, CircOp.eval, CircOp.target]
  cases Heap.get? w.circs cid with
  | none => rfl
  | some c =>
    simp only [Option.map_some, PCirc.bsP, updCirc_withLossCheck]
    cases Circ.bs c m1 m2 r.fields.1 cv (l.fields ν w.store).1 r.fields.2 (l.fields ν w.store).2.isNone <;> rfl

theorem step_ps (ν : Views α K) (w : World α K) (cid : String) (m : Int) (phi : PhiArg α K)
    (l : LossArg α K) :
    World.step ν w (.ps cid m phi l) =
      (heapStep w.circs (.ps cid m phi.field (l.fields ν w.store).1
        (l.fields ν w.store).2.isNone)).map (ofHeap w (l.fields ν w.store).2) := by
  simp only [step, heapStep, CircOp.eval, CircOp.target]
  cases Heap.get? w.circs cid with
  | none => rfl
  | some c =>
    simp only [Option.map_some, PCirc.psP, updCirc_withLossCheck]
    cases Circ.ps c m phi.field (l.fields ν w.store).1 (l.fields ν w.store).2.isNone <;> rfl

theorem step_loss (ν : Views α K) (w : World α K) (cid : String) (m : Int) (l : LossArg α K) :
    World.step ν w (.loss cid m l) =
      (heapStep w.circs (.loss cid m ((l.fields ν w.store).1.getD (.lit 1, .lit 0))
        (l.fields ν w.store).2.isNone)).map (ofHeap w (l.fields ν w.store).2) := by
  simp only [step, heapStep, CircOp.eval, CircOp.target]
  cases Heap.get? w.circs cid with
  | none => rfl
  | some c =>
    simp only [Option.map_some, PCirc.lossP, updCirc_withLossCheck]
    cases Circ.loss c m ((l.fields ν w.store).1.getD (.lit 1, .lit 0)) (l.fields ν w.store).2.isNone <;> rfl

end Bridge

section Frozen
variable [LT α] [DecidableLT α] [Add K] [Mul K] [Neg K] [Zero K] [One K]

/-- FROZEN COPY over histories: after `dst = src.copy(freeze_parameters=True)`, whatever calls
follow — parameter updates of any kind, accepted or rejected, construction on other circuits,
further copies — as long as `dst` itself is not the target of a call, `dst.U` stays what `src.U`
was at the moment of the copy, and `dst` lists no parameter -/
theorem frozen_history (ν : Views α K) (i : K) (w w1 w2 : World α K) (dst src : String)
    (ops : List (POp α K)) (rs : List (Option Fail))
    (hf : World.step ν w (.freeze dst src) = some (w1, none))
    (hr : World.run ν w1 ops = some (w2, rs))
    (hk : ∀ op ∈ ops, op.circTarget ≠ some dst) :
    World.readU ν i w2 dst = World.readU ν i w src ∧ World.allParams w2 dst = some [] := by
  simp only [step] at hf
  cases hg : Heap.get? w.circs src with
  | none => simp [hg] at hf
  | some c =>
    simp only [hg, Option.map_some, Option.some.injEq, updCirc, Prod.mk.injEq, and_true] at hf
    have h1 : Heap.get? w1.circs dst = some (PCirc.freeze w.store c) := by
      rw [← hf]
      exact C10Aux.get?_set_eq w.circs dst _
    have h2 := run_circ_frame ν ops hr dst hk
    unfold World.readU World.allParams
    rw [h2, h1, hg]
    simp only [Option.map_some]
    rw [PCirc.freeze_readU, PCirc.freeze_params]
    exact ⟨rfl, rfl⟩

end Frozen

end World

end LW
