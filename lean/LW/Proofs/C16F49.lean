/-
  LW.Proofs.C16F49 — the field with 49 elements `𝔽₇[i]` with complex conjugation, as a concrete
  `Field` / `StarRing`.  It satisfies every scalar hypothesis of the C16 statements
  (`i² = -1`, `conj i = -i`, `h = 2` real with `2h² = 1`, `2 ≠ 0`) but has characteristic 7, so the
  number `6³·(4³-1) = 13608 = 7·1944` of MLE data entries for three qubits vanishes in it.
-/
import Mathlib.Data.ZMod.Basic
import Mathlib.Algebra.Field.ZMod
import Mathlib.Algebra.Ring.MinimalAxioms
import Mathlib.Algebra.Field.Basic
import Mathlib.Algebra.Star.Basic
import Mathlib.Tactic.Ring
import Mathlib.Tactic.NormNum.Prime

namespace LW

instance fact_prime_seven : Fact (Nat.Prime 7) := ⟨by norm_num⟩

@[ext] structure F49 where
  re : ZMod 7
  im : ZMod 7
deriving DecidableEq

namespace F49

instance : Zero F49 := ⟨⟨0, 0⟩⟩
instance : One F49 := ⟨⟨1, 0⟩⟩
instance : Add F49 := ⟨fun a b => ⟨a.re + b.re, a.im + b.im⟩⟩
instance : Neg F49 := ⟨fun a => ⟨-a.re, -a.im⟩⟩
instance : Mul F49 := ⟨fun a b => ⟨a.re * b.re - a.im * b.im, a.re * b.im + a.im * b.re⟩⟩
instance : Inv F49 := ⟨fun a =>
  ⟨a.re * (a.re * a.re + a.im * a.im)⁻¹, -a.im * (a.re * a.re + a.im * a.im)⁻¹⟩⟩

@[simp] theorem zero_re : (0 : F49).re = 0 := rfl
@[simp] theorem zero_im : (0 : F49).im = 0 := rfl
@[simp] theorem one_re : (1 : F49).re = 1 := rfl
@[simp] theorem one_im : (1 : F49).im = 0 := rfl
@[simp] theorem add_re (a b : F49) : (a + b).re = a.re + b.re := rfl
@[simp] theorem add_im (a b : F49) : (a + b).im = a.im + b.im := rfl
@[simp] theorem neg_re (a : F49) : (-a).re = -a.re := rfl
@[simp] theorem neg_im (a : F49) : (-a).im = -a.im := rfl
@[simp] theorem mul_re (a b : F49) : (a * b).re = a.re * b.re - a.im * b.im := rfl
@[simp] theorem mul_im (a b : F49) : (a * b).im = a.re * b.im + a.im * b.re := rfl
theorem inv_re (a : F49) : a⁻¹.re = a.re * (a.re * a.re + a.im * a.im)⁻¹ := rfl
theorem inv_im (a : F49) : a⁻¹.im = -a.im * (a.re * a.re + a.im * a.im)⁻¹ := rfl

instance : CommRing F49 :=
  CommRing.ofMinimalAxioms
    (by intro a b c; ext <;> simp <;> ring)
    (by intro a; ext <;> simp)
    (by intro a; ext <;> simp)
    (by intro a b c; ext <;> simp <;> ring)
    (by intro a b; ext <;> simp <;> ring)
    (by intro a; ext <;> simp)
    (by intro a b c; ext <;> simp <;> ring)

theorem zmod7_mul_inv (d : ZMod 7) (hd : d ≠ 0) : d * d⁻¹ = 1 := by
  exact mul_inv_cancel₀ hd

theorem normSq_ne_zero : ∀ x y : ZMod 7, x * x + y * y = 0 → x = 0 ∧ y = 0 := by decide

instance : Field F49 :=
  { (inferInstance : CommRing F49) with
    inv := fun a => a⁻¹
    exists_pair_ne := ⟨0, 1, by
      intro h
      have := congrArg F49.re h
      revert this
      decide⟩
    mul_inv_cancel := by
      intro a ha
      have hd : a.re * a.re + a.im * a.im ≠ 0 := by
        intro h0
        obtain ⟨h1, h2⟩ := normSq_ne_zero _ _ h0
        exact ha (by ext <;> simp [h1, h2])
      ext
      · rw [mul_re, inv_re, inv_im, one_re]
        have : a.re * (a.re * (a.re * a.re + a.im * a.im)⁻¹)
            - a.im * (-a.im * (a.re * a.re + a.im * a.im)⁻¹)
            = (a.re * a.re + a.im * a.im) * (a.re * a.re + a.im * a.im)⁻¹ := by ring
        rw [this, zmod7_mul_inv _ hd]
      · rw [mul_im, inv_re, inv_im, one_im]
        ring
    inv_zero := by
      ext <;> simp [inv_re, inv_im]
    nnqsmul := _
    nnqsmul_def := fun _ _ => rfl
    qsmul := _
    qsmul_def := fun _ _ => rfl }

instance : StarRing F49 where
  star a := ⟨a.re, -a.im⟩
  star_involutive a := by ext <;> simp
  star_mul a b := by
    ext
    · show a.re * b.re - a.im * b.im = b.re * a.re - -b.im * -a.im
      ring
    · show -(a.re * b.im + a.im * b.re) = b.re * -a.im + -b.im * a.re
      ring
  star_add a b := by
    ext
    · rfl
    · show -(a.im + b.im) = -a.im + -b.im
      ring

theorem star_def (a : F49) : star a = ⟨a.re, -a.im⟩ := rfl

/-- the imaginary unit and `1/√2 = 2` (`2·2² = 8 = 1`) -/
def I : F49 := ⟨0, 1⟩
def H : F49 := ⟨2, 0⟩

theorem I_mul_I : I * I = -1 := by ext <;> simp [I]
theorem star_I : star I = -I := by ext <;> simp [I, star_def]
theorem star_H : star H = H := by ext <;> simp [H, star_def]
theorem H_sq : H * H + H * H = 1 := by
  ext
  · simp [H]; decide
  · simp [H]
theorem two_ne_zero' : (1 + 1 : F49) ≠ 0 := by
  intro h
  have := congrArg F49.re h
  revert this
  simp
  decide

theorem natCast_re (n : Nat) : ((n : F49)).re = (n : ZMod 7) ∧ ((n : F49)).im = 0 := by
  induction n with
  | zero => simp
  | succ n ih => rw [Nat.cast_succ, Nat.cast_succ, add_re, add_im, ih.1, ih.2]; simp

/-- the number of MLE data entries for three qubits vanishes in `𝔽₄₉` -/
theorem count_zero : (((6 ^ 3 * (4 ^ 3 - 1) : Nat)) : F49) = 0 := by
  ext
  · rw [(natCast_re _).1]; decide
  · rw [(natCast_re _).2]; rfl

end F49

end LW
