/-
  LW.Proofs.C06Norm — the sampler distribution with an imperfect source is normalised
  (unitary `U_full`, no backend truncation).
-/
import LW.Proofs.C06Out

set_option linter.unusedSectionVars false

namespace LW.Proofs.C06

open LW.Src LW.SV LW.Proofs.C04a LW.Proofs.C04b

section Keys
variable {Q : Type} [Field Q] [LinearOrder Q] [IsStrictOrderedRing Q]

theorem basicStep_len (P : Params Q) (n : Nat) (stats : List (Q × FState)) (mode : Nat)
    (hs : ∀ x ∈ stats, x.2.length = n) : ∀ x ∈ basicStep P n stats mode, x.2.length = n := by
  have hsub : ∀ x ∈ ((P.nu, unitVec n mode) ::
      (if P.nu < 1 then [(1 - P.nu, List.replicate n 0)] else [])), x.2.length = n := by
    intro x hx
    by_cases hν : P.nu < 1
    · simp only [hν, if_true, List.mem_cons, List.not_mem_nil, or_false] at hx
      rcases hx with rfl | rfl <;> simp [unitVec]
    · simp only [hν, if_false, List.mem_cons, List.not_mem_nil, or_false] at hx
      subst hx; simp [unitVec]
  unfold basicStep
  simp only
  by_cases he : stats.isEmpty = true
  · rw [if_pos he]; exact hsub
  · rw [if_neg he]
    intro x hx
    simp only [List.mem_flatMap, List.mem_map] at hx
    obtain ⟨a, ha, b, hb, rfl⟩ := hx
    simp only [List.length_zipWith, hs a ha, hsub b hb, Nat.min_self]

theorem buildStatisticsBasic_len (P : Params Q) (s : FState) :
    ∀ x ∈ buildStatisticsBasic P s, x.1.length = s.length := by
  rw [buildStatisticsBasic_eq]
  simp only
  have hall : ∀ (ms : List Nat) (stats : List (Q × FState)), (∀ x ∈ stats, x.2.length = s.length) →
      ∀ x ∈ ms.foldl (basicStep P s.length) stats, x.2.length = s.length := by
    intro ms
    induction ms with
    | nil => intro stats h; exact h
    | cons m ms ih => intro stats h; exact ih _ (basicStep_len P s.length stats m h)
  by_cases he : (KD.ofPairs (((partitionIdx s).foldl (basicStep P s.length) []).map
      fun x => (x.2, x.1)) : KD FState Q).isEmpty = true
  · rw [if_pos he]
    intro x hx
    simp only [List.mem_singleton] at hx
    subst hx; rfl
  · rw [if_neg he]
    intro x hx
    have : x.1 ∈ (KD.ofPairs (((partitionIdx s).foldl (basicStep P s.length) []).map
        fun x => (x.2, x.1)) : KD FState Q).map (·.1) := List.mem_map.2 ⟨x, hx, rfl⟩
    rw [mem_ofPairs_keys] at this
    simp only [List.map_map, List.mem_map, Function.comp] at this
    obtain ⟨y, hy, hyx⟩ := this
    rw [← hyx]
    exact hall _ [] (by simp) y hy

theorem applyThreshold_keys {α : Type} (thr : Q) (d : KD α Q) :
    ∀ x ∈ applyThreshold thr d, x.1 ∈ d.map (·.1) := by
  unfold applyThreshold
  by_cases ht : 0 < thr
  · rw [if_pos ht]
    intro x hx
    simp only [List.mem_map] at hx
    obtain ⟨y, hy, rfl⟩ := hx
    exact List.mem_map.2 ⟨y, (List.mem_filter.1 hy).1, rfl⟩
  · rw [if_neg ht]
    intro x hx
    exact List.mem_map.2 ⟨x, hx, rfl⟩

theorem groupsOf_len (nReal : Nat) (a : AState) : ∀ g ∈ groupsOf nReal a, g.length = nReal := by
  unfold groupsOf
  simp only
  by_cases he : (labelsOf a).isEmpty = true
  · rw [if_pos he]
    intro g hg
    simp only [List.mem_singleton] at hg
    subst hg; simp
  · rw [if_neg he]
    intro g hg
    obtain ⟨l, _, rfl⟩ := List.mem_map.1 hg
    simp [groupState]

theorem groupsOf_ne_nil (nReal : Nat) (a : AState) : groupsOf nReal a ≠ [] := by
  unfold groupsOf
  simp only
  by_cases he : (labelsOf a).isEmpty = true
  · rw [if_pos he]; simp
  · rw [if_neg he]
    intro h
    rw [List.map_eq_nil_iff] at h
    rw [h] at he
    exact he rfl

theorem specConv_one (ds : List (PDist Q)) (h : ∀ d ∈ ds, KD.total d = 1) (acc : FState) :
    specConv ds acc (fun _ => 1) = 1 := by
  induction ds generalizing acc with
  | nil => rfl
  | cons d ds ih =>
    unfold specConv
    have : (fun b => specConv ds (mergeF acc b) (fun _ => (1 : Q))) = fun _ => 1 := by
      funext b
      exact ih (fun e he => h e (by simp [he])) _
    rw [this, ← total_eq_mix]
    exact h d (by simp)

theorem mixGroups_one (ds : List (PDist Q)) (hne : ds ≠ []) (h : ∀ d ∈ ds, KD.total d = 1) :
    mixGroups ds (fun _ => 1) = 1 := by
  cases ds with
  | nil => exact absurd rfl hne
  | cons d0 ds =>
    show mix d0 (fun a => specConv ds a (fun _ => (1 : Q))) = 1
    have : (fun a => specConv ds a (fun _ => (1 : Q))) = fun _ => 1 := by
      funext a
      exact specConv_one ds (fun e he => h e (by simp [he])) a
    rw [this, ← total_eq_mix]
    exact h d0 (by simp)

theorem samplerDistSrc_ok {K : Type} [Add K] [Mul K] [Zero K] [One K] (b : BackendKind) (nsq : K → Q)
    (eps : Q) (U : M K) (nReal : Nat) (P : Params Q) (h : InRange P) (hthr : ¬ 0 < P.thr)
    (full : FState) (hs : full ≠ []) : ∃ pd, samplerDistSrc b nsq eps U nReal P full = .ok pd := by
  obtain ⟨st, hst⟩ := buildStatistics_ok P h hthr full hs
  unfold samplerDistSrc
  rw [hst]
  exact ⟨_, rfl⟩

end Keys

section Main
variable {K Q : Type} [Field K] [StarRing K] [CharZero K] [Field Q] [LinearOrder Q]
  [IsStrictOrderedRing Q]

theorem total_ne_nil (d : PDist Q) (h : d.total = 1) : d ≠ [] := by
  intro h0
  rw [h0] at h
  simp [PDist.total] at h

/-- OUTPUT DISTRIBUTION IS NORMALISED: for a unitary `U_full` and no backend truncation, the
distribution computed by the Sampler with an imperfect source sums to exactly one (both backends,
both statistics paths, with or without probability threshold) -/
theorem output_normalised (nsq : K → Q) (ι : Q →+* K) (hι : Function.Injective ι)
    (hnsq : ∀ z, ι (nsq z) = z * star z) (hn : ∀ z, 0 ≤ nsq z)
    (b : BackendKind) (U : M K) (hU : IsUnitary U) (nReal : Nat) (hle : nReal ≤ U.n)
    (hpos : 0 < nReal) (P : Params Q) (h : InRange P) (full : FState) (hlen : full.length = nReal)
    (pd : PDist Q) (hok : samplerDistSrc b nsq 0 U nReal P full = .ok pd) : pd.total = 1 := by
  have hfull : full ≠ [] := by
    intro h0; rw [h0] at hlen; simp at hlen; omega
  have hfd : ∀ g : FState, g.length = nReal → (fullDist b nsq 0 U nReal g).total = 1 :=
    fun g hg => fullDist_total_one nsq ι hι hnsq hn b U hU nReal g hg hle hpos
  unfold samplerDistSrc at hok
  cases hst : buildStatistics P full with
  | error e => rw [hst] at hok; cases hok
  | ok st =>
    rw [hst] at hok
    simp only at hok
    have hnorm := input_stats_normalised P h full hfull st hst
    have hfin : ∀ d : PDist Q, d.total = 1 →
        PDist.total (if d.isEmpty then [(List.replicate nReal 0, (1 : Q))] else d) = 1 := by
      intro d hd
      by_cases he : d.isEmpty = true
      · exact absurd (List.isEmpty_iff.1 he) (total_ne_nil d hd)
      · rw [if_neg he]; exact hd
    cases st with
    | basic d =>
      simp only at hok
      cases hok
      apply hfin
      -- keys of the statistics are states on the circuit's modes
      have hkeys : ∀ x ∈ d, x.1.length = nReal := by
        unfold buildStatistics at hst
        by_cases hperf : P.p2 = 0 ∧ P.pi = 1
        · rw [if_pos hperf] at hst
          simp only at hst
          by_cases he : (applyThreshold P.thr (buildStatisticsBasic P full)).isEmpty = true
          · rw [if_pos he] at hst; cases hst
          · rw [if_neg he] at hst
            cases hst
            intro x hx
            obtain ⟨y, hy, hyx⟩ := List.mem_map.1 (applyThreshold_keys P.thr _ x hx)
            rw [← hyx, buildStatisticsBasic_len P full y hy, hlen]
        · rw [if_neg hperf] at hst
          simp only at hst
          by_cases he : (applyThreshold P.thr (buildStatisticsFull P full)).isEmpty = true
          · rw [if_pos he] at hst; cases hst
          · rw [if_neg he] at hst; cases hst
      have hc : (calcPd b nsq 0 U nReal d).total = 1 := by
        unfold calcPd
        have h0t : PDist.total ([] : PDist Q) = 0 := rfl
        rw [mix_fold (fun s => fullDist b nsq 0 U nReal s) d
          (fun x hx => hfd x.1 (hkeys x hx)) [] (by simp), h0t, zero_add]
        have : Stats.total (Stats.basic d) = 1 := hnorm
        simp only [Stats.total] at this
        rw [total_eq_mix] at this
        simpa [mix] using this
      rw [pdistCalc_eq, hc, if_neg (fun hh => lt_irrefl _ hh.1)]
      exact hc
    | full d =>
      simp only at hok
      cases hok
      apply hfin
      have hne : ∀ x ∈ d, ∀ g ∈ groupsOf nReal x.1, fullDist b nsq 0 U nReal g ≠ [] :=
        fun x _ g hg => total_ne_nil _ (hfd g (groupsOf_len nReal x.1 g hg))
      rw [pdist_total, total_eq_mix, mix_annotatedPdist b nsq 0 U nReal d hne]
      have : (fun a : AState => mixGroups ((groupsOf nReal a).map (fullDist b nsq 0 U nReal))
          (fun _ => (1 : Q))) = fun _ => 1 := by
        funext a
        apply mixGroups_one
        · intro h0
          exact groupsOf_ne_nil nReal a (List.map_eq_nil_iff.1 h0)
        · intro e he
          obtain ⟨g, hg, rfl⟩ := List.mem_map.1 he
          exact hfd g (groupsOf_len nReal a g hg)
      rw [this, ← total_eq_mix]
      exact hnorm

end Main

end LW.Proofs.C06
