/-
  LW.Proofs.C12FullIface3 — the interface `Iface` for `ccx` / `ccz` on three adjacent qubits in
  any order, and the interface for every placeable instruction (`iface_of_shape`).
-/
import LW.Proofs.C12FullIface2

open MvPolynomial

namespace LW.C12F

open LW LW.QC LW.Gates LW.QF LW.Proofs.C02Sem

section bits

variable {K : Type} [CommRing K]

theorem delta_ccx (n a b t : ℕ) (ib mid : List Bool) (hib : ib.length = n) (hmid : mid.length = n)
    (hat : a ≠ t) (hbt : b ≠ t) (ht : t < n)
    (hag : ∀ q, q < n → q ∉ [a, b, t] → getBit mid q = getBit ib q) :
    (delta ib (if (getBit mid a && getBit mid b) = true then mid.set t (!getBit mid t) else mid) : K) =
      if getBit mid a = getBit ib a ∧ getBit mid b = getBit ib b ∧
          (getBit mid t != (getBit mid a && getBit mid b)) = getBit ib t then 1 else 0 := by
  by_cases hc : (getBit mid a && getBit mid b) = true
  · rw [if_pos hc]
    have hx : (mid.set t (!getBit mid t)).length = n := by simpa using hmid
    have hag' : ∀ q, q < n → q ∉ [a, b, t] →
        getBit (mid.set t (!getBit mid t)) q = getBit ib q := by
      intro q hq hqn
      rw [getBit_set, if_neg]
      · exact hag q hq hqn
      · intro hc'
        apply hqn
        simp [hc'.1]
    have hxa : getBit (mid.set t (!getBit mid t)) a = getBit mid a := by
      rw [getBit_set, if_neg (fun hc' => hat hc'.1)]
    have hxb : getBit (mid.set t (!getBit mid t)) b = getBit mid b := by
      rw [getBit_set, if_neg (fun hc' => hbt hc'.1)]
    have hxt : getBit (mid.set t (!getBit mid t)) t = !getBit mid t := by
      rw [getBit_set, if_pos ⟨rfl, by omega⟩]
    rw [delta_on (K := K) hx hib [a, b, t] hag']
    simp only [List.forall_mem_cons, List.not_mem_nil, false_imp_iff, implies_true, and_true,
      hxa, hxb, hxt, hc]
    cases getBit mid t <;> cases getBit ib t <;> simp
  · rw [if_neg hc]
    rw [delta_on (K := K) hmid hib [a, b, t] hag]
    simp only [List.forall_mem_cons, List.not_mem_nil, false_imp_iff, implies_true, and_true]
    have hc' : (getBit mid a && getBit mid b) = false := by simpa using hc
    rw [hc']
    cases getBit mid t <;> cases getBit ib t <;> simp

theorem delta_three (n a b t : ℕ) (ib mid : List Bool) (hib : ib.length = n)
    (hmid : mid.length = n)
    (hag : ∀ q, q < n → q ∉ [a, b, t] → getBit mid q = getBit ib q) :
    (delta ib mid : K) =
      if getBit mid a = getBit ib a ∧ getBit mid b = getBit ib b ∧ getBit mid t = getBit ib t
        then 1 else 0 := by
  rw [delta_on (K := K) hmid hib [a, b, t] hag]
  simp only [List.forall_mem_cons, List.not_mem_nil, false_imp_iff, implies_true, and_true]

end bits

variable {R : Type} [Field R] [StarRing R]

theorem iface_three (c : GC R) (hv : c.Valid) (par : ℕ → R × R) (nq : ℕ) (g : Instr) (f : Bool)
    (a b t : ℕ) (hq : g.qubits = [a, b, t]) (hnd' : [a, b, t].Nodup) (ha : a < nq) (hb : b < nq)
    (ht : t < nq) (hf : f = true) (hspan : max a (max b t) - min a (min b t) = 2)
    (hname : g.name = "ccx" ∨ g.name = "ccz") : Iface c par nq g f := by
  have hn : g.name ≠ "swap" := by
    rcases hname with h | h <;> rw [h] <;> decide
  simp only [List.nodup_cons, List.mem_cons, List.not_mem_nil, or_false, not_or,
    not_false_eq_true, List.nodup_nil, and_true] at hnd'
  obtain ⟨⟨hab, hat⟩, hbt⟩ := hnd'
  have hsw : isSwap g = false := by simp [isSwap, hq]
  have hH : instrHer g f = [0, 0, 0, 0] := by simp [instrHer, hq]
  generalize hmn : min a (min b t) = mn at *
  have hQ : instrQ g = [mn, mn + 1, mn + 2] := by simp [instrQ, hq, hmn]
  have hcases : (a = mn ∧ b = mn + 1 ∧ t = mn + 2) ∨ (a = mn ∧ t = mn + 1 ∧ b = mn + 2) ∨
      (b = mn ∧ a = mn + 1 ∧ t = mn + 2) ∨ (b = mn ∧ t = mn + 1 ∧ a = mn + 2) ∨
      (t = mn ∧ a = mn + 1 ∧ b = mn + 2) ∨ (t = mn ∧ b = mn + 1 ∧ a = mn + 2) := by
    have h1 : mn ≤ a ∧ mn ≤ b ∧ mn ≤ t ∧ a ≤ mn + 2 ∧ b ≤ mn + 2 ∧ t ≤ mn + 2 := by omega
    have h2 : mn = a ∨ mn = b ∨ mn = t := by omega
    obtain ⟨l1, l2, l3, u1, u2, u3⟩ := h1
    clear hmn hspan
    rcases h2 with e | e | e
    · have : (b = mn + 1 ∧ t = mn + 2) ∨ (t = mn + 1 ∧ b = mn + 2) := by omega
      rcases this with ⟨x, y⟩ | ⟨x, y⟩
      · exact Or.inl ⟨e.symm, x, y⟩
      · exact Or.inr (Or.inl ⟨e.symm, x, y⟩)
    · have : (a = mn + 1 ∧ t = mn + 2) ∨ (t = mn + 1 ∧ a = mn + 2) := by omega
      rcases this with ⟨x, y⟩ | ⟨x, y⟩
      · exact Or.inr (Or.inr (Or.inl ⟨e.symm, x, y⟩))
      · exact Or.inr (Or.inr (Or.inr (Or.inl ⟨e.symm, x, y⟩)))
    · have : (a = mn + 1 ∧ b = mn + 2) ∨ (b = mn + 1 ∧ a = mn + 2) := by omega
      rcases this with ⟨x, y⟩ | ⟨x, y⟩
      · exact Or.inr (Or.inr (Or.inr (Or.inr (Or.inl ⟨e.symm, x, y⟩))))
      · exact Or.inr (Or.inr (Or.inr (Or.inr (Or.inr ⟨e.symm, x, y⟩))))
  have hnd : [mn, mn + 1, mn + 2].Nodup := by simp
  have hQlt : ∀ q' ∈ [mn, mn + 1, mn + 2], q' < nq := by
    intro q' hq'
    simp only [List.mem_cons, List.not_mem_nil, or_false] at hq'
    rcases hq' with rfl | rfl | rfl <;> omega
  have hperm : [mn, mn + 1, mn + 2].Perm [a, b, t] := by
    rcases hcases with ⟨h1, h2, h3⟩ | ⟨h1, h2, h3⟩ | ⟨h1, h2, h3⟩ | ⟨h1, h2, h3⟩ | ⟨h1, h2, h3⟩ |
      ⟨h1, h2, h3⟩ <;> rw [← h3, ← h2, ← h1]
    · exact (List.Perm.swap _ _ _).cons _
    · exact List.Perm.swap _ _ _
    · exact ((List.Perm.swap _ _ _).cons _).trans (List.Perm.swap _ _ _)
    · exact (List.Perm.swap _ _ _).trans ((List.Perm.swap _ _ _).cons _)
    · exact ((List.Perm.swap _ _ _).trans ((List.Perm.swap _ _ _).cons _)).trans
        (List.Perm.swap _ _ _)
  have hmem : ∀ q', q' ∈ [mn, mn + 1, mn + 2] ↔ q' ∈ [a, b, t] := fun q' => hperm.mem_iff
  set tg : ℕ := if g.name = "ccx" then t - mn else 0 with htg
  have htg3 : tg < 3 := by rw [htg]; split_ifs <;> omega
  set sub : Circ R := threeCirc c (g.name = "ccx") tg with hsub
  have hφ : ∀ idx P, instrHom c par idx g f P =
      placeHomG (homOf (closedE c.i sub) (2 * [mn, mn + 1, mn + 2].length + [0, 0, 0, 0].length))
        (fwdQ [mn, mn + 1, mn + 2] P) (invQ [mn, mn + 1, mn + 2] P) (P + [0, 0, 0, 0].length) := by
    intro idx P
    unfold instrHom
    rw [hsw, hQ, hH]
    simp only [Bool.false_eq_true, if_false]
    have : instrSub c par idx g f = sub := by simp [instrSub, hq, hsub, htg, hmn]
    rw [this]
    rfl
  have hK : instrK c g f = c.i * (c.rh * (c.half * c.third)) := by simp [instrK, hq]
  refine ⟨?_, ?_, ?_, ?_⟩
  · intro idx P z hP hz hz2
    rw [hφ]
    rw [hH] at hz2
    exact gen_touch nq _ P _ _ hnd hQlt hP hz hz2
  · intro idx P w s hP hne hw hs
    rw [hφ] at hne
    rw [hH] at hw hs
    unfold stepRel
    rw [if_neg (by rw [hq]; simp), if_neg hn, hq]
    refine ⟨⟨?_, ?_⟩, ?_⟩
    · intro q' hq'
      exact gen_cfg_outside nq _ P _ _ hnd hQlt hP hne (fun hc => hq' ((hmem q').mp hc))
    · have := gen_cfg_sum nq _ P _ _ hnd hQlt hP rfl hne hw hs
      rw [(hperm.map (cfgN nq w)).sum_eq, (hperm.map (cfgN nq s)).sum_eq] at this
      exact this.symm
    · intro hf'
      rw [hf] at hf'
      cases hf'
  · intro idx P ib mid η hP hib hmid hη hher
    rw [hφ]
    rw [hH] at hher
    by_cases hag : ∀ q', q' < nq → q' ∉ [mn, mn + 1, mn + 2] → getBit mid q' = getBit ib q'
    · have hag' : ∀ q', q' < nq → q' ∉ [a, b, t] → getBit mid q' = getBit ib q' :=
        fun q' h1 h2 => hag q' h1 (fun hc => h2 ((hmem q').mp hc))
      rw [gen_table_local nq _ P _ _ hnd hQlt hP rfl hib hmid hη hher hag]
      have htab := amp_three c hv (g.name = "ccx") tg htg3
        ([mn, mn + 1, mn + 2].map (getBit ib)) ([mn, mn + 1, mn + 2].map (getBit mid)) rfl rfl
      have hcirc : amp (homOf (closedE c.i sub) (2 * [mn, mn + 1, mn + 2].length + [0, 0, 0, 0].length))
          (dualRail ([mn, mn + 1, mn + 2].map (getBit mid)) ++ [0, 0, 0, 0]).toFinsupp
          (dualRail ([mn, mn + 1, mn + 2].map (getBit ib)) ++ [0, 0, 0, 0]).toFinsupp
          = scaleBy (c.i * (c.rh * (c.half * c.third)))
            ((if decide (g.name = "ccx") = true then namedCNOT tg else namedCZ)
              ([mn, mn + 1, mn + 2].map (getBit mid)) ([mn, mn + 1, mn + 2].map (getBit ib))) :=
        htab
      rw [hcirc, hK]
      simp only [List.map_cons, List.map_nil]
      by_cases hcx : g.name = "ccx"
      · have hA : applyInstr c par idx g (delta ib) mid =
            delta ib (if (getBit mid a && getBit mid b) = true then mid.set t (!getBit mid t)
              else mid) := by
          simp only [applyInstr, hq]
          rw [if_pos hcx]
        rw [hA, delta_ccx nq a b t ib mid hib hmid hat hbt ht hag']
        simp only [hcx, decide_true, if_true]
        have etg : tg = t - mn := by rw [htg, if_pos hcx]
        have hcl := namedCNOT_three (getBit mid a) (getBit mid b) (getBit mid t) (getBit ib a)
          (getBit ib b) (getBit ib t)
        rcases hcases with ⟨h1, h2, h3⟩ | ⟨h1, h2, h3⟩ | ⟨h1, h2, h3⟩ | ⟨h1, h2, h3⟩ |
          ⟨h1, h2, h3⟩ | ⟨h1, h2, h3⟩
        · rw [etg, show t - mn = 2 by omega, ← h3, ← h2, ← h1, hcl.1, scaleBy_ite]
        · rw [etg, show t - mn = 1 by omega, ← h3, ← h2, ← h1, hcl.2.2.1, scaleBy_ite]
        · rw [etg, show t - mn = 2 by omega, ← h3, ← h2, ← h1, hcl.2.1, scaleBy_ite]
        · rw [etg, show t - mn = 1 by omega, ← h3, ← h2, ← h1, hcl.2.2.2.1, scaleBy_ite]
        · rw [etg, show t - mn = 0 by omega, ← h3, ← h2, ← h1, hcl.2.2.2.2.1, scaleBy_ite]
        · rw [etg, show t - mn = 0 by omega, ← h3, ← h2, ← h1, hcl.2.2.2.2.2, scaleBy_ite]
      · have hA : applyInstr c par idx g (delta ib) mid =
            if (getBit mid a && getBit mid b && getBit mid t) = true then -(delta ib mid)
              else delta ib mid := by
          simp only [applyInstr, hq]
          rw [if_neg hcx]
        rw [hA, delta_three nq a b t ib mid hib hmid hag']
        simp only [hcx, decide_false, Bool.false_eq_true, if_false]
        have hcl := namedCZ_three (getBit mid a) (getBit mid b) (getBit mid t) (getBit ib a)
          (getBit ib b) (getBit ib t)
        rcases hcases with ⟨h1, h2, h3⟩ | ⟨h1, h2, h3⟩ | ⟨h1, h2, h3⟩ | ⟨h1, h2, h3⟩ |
          ⟨h1, h2, h3⟩ | ⟨h1, h2, h3⟩
        · rw [← h3, ← h2, ← h1, hcl.1, scaleBy_sign]
        · rw [← h3, ← h2, ← h1, hcl.2.2.1, scaleBy_sign]
        · rw [← h3, ← h2, ← h1, hcl.2.1, scaleBy_sign]
        · rw [← h3, ← h2, ← h1, hcl.2.2.2.1, scaleBy_sign]
        · rw [← h3, ← h2, ← h1, hcl.2.2.2.2.1, scaleBy_sign]
        · rw [← h3, ← h2, ← h1, hcl.2.2.2.2.2, scaleBy_sign]
    · push Not at hag
      obtain ⟨q', hq', hq'Q, hd⟩ := hag
      have hq'ab : q' ∉ [a, b, t] := fun hc => hq'Q ((hmem q').mpr hc)
      have hq't : q' ≠ t := fun hc => hq'ab (by simp [hc])
      rw [gen_table_zero nq _ P _ _ hnd hQlt hP hib hmid hη hq' hq'Q hd]
      have hz : applyInstr c par idx g (delta ib) mid = 0 := by
        simp only [applyInstr, hq]
        by_cases hcx : g.name = "ccx"
        · rw [if_pos hcx]
          apply delta_eq_zero q'
          split
          · rw [getBit_set, if_neg (fun hc => hq't hc.1)]; exact hd
          · exact hd
        · rw [if_neg hcx]
          show (if (getBit mid a && getBit mid b && getBit mid t) = true then -(delta ib mid)
            else delta ib mid) = 0
          rw [delta_eq_zero q' hd, neg_zero, ite_self]
      rw [hz, mul_zero]
  · intro cf _
    unfold stepRel
    rw [if_neg (by rw [hq]; simp), if_neg hn]
    exact ⟨⟨fun _ _ => rfl, rfl⟩, fun _ h => h⟩

/-- every placeable instruction satisfies the interface -/
theorem iface_of_shape (c : GC R) (hv : c.Valid) (par : ℕ → R × R) (nq : ℕ) (g : Instr) (f : Bool)
    (h : Shape nq g f) : Iface c par nq g f := by
  cases h with
  | single q hq hlt => exact iface_single c par nq g f q hq hlt
  | swap a b hq hab ha hb hn => exact iface_swap c par nq g f a b hq hab ha hb hn
  | two a b hq hab ha hb hn => exact iface_two c hv par nq g f a b hq hab ha hb hn
  | three a b t hq hnd ha hb ht hf hspan hn =>
    exact iface_three c hv par nq g f a b t hq hnd ha hb ht hf hspan hn

end LW.C12F
