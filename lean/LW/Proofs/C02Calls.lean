/-
  LW.Proofs.C02Calls — C02: mapMode, herald and the primitive construction calls.
-/
import LW.Proofs.C02Basic
namespace LW.Proofs.C02
variable {K : Type}

theorem modeInRange_ok {c : Circ K} {x : Int} {a : Nat} (h : c.modeInRange x = .ok a) :
    0 ≤ x ∧ x < (c.n : Int) ∧ (a : Int) = x := by
  unfold Circ.modeInRange at h
  split at h
  · rename_i hx
    injection h with h
    subst h
    refine ⟨hx.1, hx.2, ?_⟩
    omega
  · cases h

theorem mapped_ok {c : Circ K} {m : Int} {a : Nat} (h : c.modeInRange (c.mapMode m) = .ok a) :
    a < c.n ∧ a ∉ c.internal ∧ (a : Int) = c.mapMode m := by
  obtain ⟨h0, h1, h2⟩ := modeInRange_ok h
  refine ⟨by omega, ?_, h2⟩
  intro ha
  exact skipFold_not_mem _ (sorted_sortNat _) m a (mem_sortNat.mpr ha) h2.symm

theorem mapM_ok {α β ε : Type} (f : α → Except ε β) (l : List α) (l' : List β)
    (h : l.mapM f = .ok l') : ∀ b ∈ l', ∃ a ∈ l, f a = .ok b := by
  induction l generalizing l' with
  | nil =>
    simp only [List.mapM_nil, pure, Except.pure] at h
    injection h with h; subst h; simp
  | cons x xs ih =>
    simp only [List.mapM_cons, bind, Except.bind] at h
    split at h
    · cases h
    · rename_i b hb
      split at h
      · cases h
      · rename_i bs hbs
        simp only [pure, Except.pure] at h
        injection h with h; subst h
        intro y hy
        rcases List.mem_cons.mp hy with rfl | hy
        · exact ⟨x, by simp, hb⟩
        · obtain ⟨a, ha, hfa⟩ := ih bs hbs y hy
          exact ⟨a, by simp [ha], hfa⟩

theorem WF.internal_lt {c : Circ K} (hwf : c.WF) : ∀ a ∈ c.internal, a < c.n := by
  intro a ha
  exact hwf.inLt a (get?_isSome_iff.mp (hwf.intHer a ha).1)

theorem WF.internal_length_le {c : Circ K} (hwf : c.WF) : c.internal.length ≤ c.n := by
  have hs := strictSorted_sortNat hwf.intNodup
  have hl := length_sortNat c.internal
  have hn : ∀ a ∈ sortNat c.internal, a < c.n :=
    fun a ha => WF.internal_lt hwf a (mem_sortNat.mp ha)
  cases hsl : sortNat c.internal with
  | nil => rw [hsl] at hl; simp at hl; omega
  | cons i t =>
    rw [hsl] at hs hn hl
    have := head_add_length_le i t c.n hs hn
    simp at hl; omega

theorem mapMode_lt_iff' (c : Circ K) (hwf : c.WF) (m : Int) :
    c.mapMode m < (c.n : Int) ↔ m < (c.ports : Int) := by
  have h1 := skipFold_lt_iff (sortNat c.internal) c.n (strictSorted_sortNat hwf.intNodup)
    (fun a ha => WF.internal_lt hwf a (mem_sortNat.mp ha)) m
  have hl := WF.internal_length_le hwf
  simp only [Circ.mapMode, Circ.ports]
  simp only [skipFold, length_sortNat] at h1
  rw [h1]; omega

/-- changing only the spec keeps the invariant if the new components are in range -/
theorem WF.with_spec {c : Circ K} (hwf : c.WF) (added : List (Comp K))
    (h : ∀ x ∈ added, ∀ m ∈ x.modes, m < c.n) : ({ c with spec := c.spec ++ added } : Circ K).WF := by
  refine ⟨hwf.inNodup, hwf.outNodup, hwf.inLt, hwf.outLt, hwf.lenEq, hwf.intNodup, hwf.intHer, ?_⟩
  intro comp hc m hm
  rcases List.mem_append.mp hc with hc | hc
  · exact hwf.modesLt comp hc m hm
  · exact h comp hc m hm

theorem herald_WF (c c' : Circ K) (hwf : c.WF) (k : Nat) (i o : Int)
    (h : c.herald k i o = .ok c') : c'.WF ∧ c'.n = c.n ∧ c'.internal = c.internal := by
  simp only [Circ.herald, bind, Except.bind] at h
  split at h
  · cases h
  · rename_i a ha
    split at h
    · cases h
    · rename_i b hb
      obtain ⟨ha1, ha2, -⟩ := mapped_ok ha
      obtain ⟨hb1, hb2, -⟩ := mapped_ok hb
      split at h
      · simp [throw, throwThe, MonadExceptOf.throw] at h
      · rename_i hci
        split at h
        · simp [throw, throwThe, MonadExceptOf.throw] at h
        · rename_i hco
          simp only [pure, Except.pure] at h
          injection h with h
          subst h
          have hci' : a ∉ c.inHer.keys := fun hh => hci (contains_iff.mpr hh)
          have hco' : b ∉ c.outHer.keys := fun hh => hco (contains_iff.mpr hh)
          refine ⟨⟨?_, ?_, ?_, ?_, ?_, hwf.intNodup, ?_, hwf.modesLt⟩, rfl, rfl⟩
          · exact nodup_keys_set hwf.inNodup
          · exact nodup_keys_set hwf.outNodup
          · intro x hx
            rcases mem_keys_set.mp hx with rfl | hx
            · exact ha1
            · exact hwf.inLt x hx
          · intro x hx
            rcases mem_keys_set.mp hx with rfl | hx
            · exact hb1
            · exact hwf.outLt x hx
          · show (c.inHer.set a k).length = (c.outHer.set b k).length
            rw [set_of_not_mem hci', set_of_not_mem hco']
            simp [hwf.lenEq]
          · intro x hx
            obtain ⟨h1, h2⟩ := hwf.intHer x hx
            have hxa : x ≠ a := by
              intro e; subst e; exact hci' (get?_isSome_iff.mp h1)
            have hxb : x ≠ b := by
              intro e; subst e; rw [h2] at h1; exact hco' (get?_isSome_iff.mp h1)
            show ((c.inHer.set a k).get? x).isSome ∧ (c.inHer.set a k).get? x = (c.outHer.set b k).get? x
            rw [get?_set, get?_set, if_neg hxa, if_neg hxb]
            exact ⟨h1, h2⟩

abbrev Avoid (c c' : Circ K) : Prop :=
  c'.WF ∧ ∃ added, c'.spec = c.spec ++ added ∧ ∀ x ∈ added, ∀ m ∈ x.modes, m ∉ c.internal

theorem avoid_of {c : Circ K} (hwf : c.WF) (added : List (Comp K))
    (h : ∀ x ∈ added, ∀ m ∈ x.modes, m < c.n ∧ m ∉ c.internal) :
    Avoid c { c with spec := c.spec ++ added } :=
  ⟨WF.with_spec hwf added (fun x hx m hm => (h x hx m hm).1), added, rfl,
    fun x hx m hm => (h x hx m hm).2⟩

theorem bs_avoid (c c' : Circ K) (hwf : c.WF) (m1 m2 cs cv l)
    (h : c.bs m1 m2 cs cv l = .ok c') : Avoid c c' := by
  simp only [Circ.bs, bind, Except.bind] at h
  split at h
  · cases h
  · rename_i a ha
    obtain ⟨ha1, ha2, -⟩ := mapped_ok ha
    split at h
    · simp [throw, throwThe, MonadExceptOf.throw] at h
    · split at h
      · cases h
      · rename_i b hb
        obtain ⟨hb1, hb2, -⟩ := mapped_ok hb
        simp only [Bool.not_true, Bool.false_eq_true, if_false, pure, Except.pure] at h
        split at h
        · injection h with h; subst h
          have := avoid_of hwf [.prim (.bs a b cs.1 cs.2 cv)] (by
            intro x hx m hm
            simp only [List.mem_singleton] at hx; subst hx
            simp only [Comp.modes, Prim.modes, List.mem_cons, List.not_mem_nil, or_false] at hm
            rcases hm with rfl | rfl
            · exact ⟨ha1, ha2⟩
            · exact ⟨hb1, hb2⟩)
          exact this
        · rename_i la lb
          injection h with h; subst h
          have := avoid_of hwf [.prim (.bs a b cs.1 cs.2 cv), .prim (.loss a la lb), .prim (.loss b la lb)] (by
            intro x hx m hm
            simp only [List.mem_cons, List.not_mem_nil, or_false] at hx
            rcases hx with rfl | rfl | rfl <;>
              simp only [Comp.modes, Prim.modes, List.mem_cons, List.not_mem_nil, or_false] at hm
            · rcases hm with rfl | rfl
              · exact ⟨ha1, ha2⟩
              · exact ⟨hb1, hb2⟩
            · subst hm; exact ⟨ha1, ha2⟩
            · subst hm; exact ⟨hb1, hb2⟩)
          simpa [Avoid, List.append_assoc] using this


theorem ps_avoid (c c' : Circ K) (hwf : c.WF) (m p l)
    (h : c.ps m p l = .ok c') : Avoid c c' := by
  simp only [Circ.ps, bind, Except.bind] at h
  split at h
  · cases h
  · rename_i a ha
    obtain ⟨ha1, ha2, -⟩ := mapped_ok ha
    simp only [Bool.not_true, Bool.false_eq_true, if_false, pure, Except.pure] at h
    split at h
    · injection h with h; subst h
      exact avoid_of hwf [.prim (.ps a p)] (by
        intro x hx m hm
        simp only [List.mem_singleton] at hx; subst hx
        simp only [Comp.modes, Prim.modes, List.mem_cons, List.not_mem_nil, or_false] at hm
        subst hm; exact ⟨ha1, ha2⟩)
    · rename_i la lb
      injection h with h; subst h
      have := avoid_of hwf [.prim (.ps a p), .prim (.loss a la lb)] (by
        intro x hx m hm
        simp only [List.mem_cons, List.not_mem_nil, or_false] at hx
        rcases hx with rfl | rfl <;>
          simp only [Comp.modes, Prim.modes, List.mem_cons, List.not_mem_nil, or_false] at hm <;>
          (subst hm; exact ⟨ha1, ha2⟩))
      simpa [Avoid, List.append_assoc] using this

theorem loss_avoid (c c' : Circ K) (hwf : c.WF) (m ab)
    (h : c.loss m ab = .ok c') : Avoid c c' := by
  simp only [Circ.loss, bind, Except.bind] at h
  split at h
  · cases h
  · rename_i a ha
    obtain ⟨ha1, ha2, -⟩ := mapped_ok ha
    simp only [Bool.not_true, Bool.false_eq_true, if_false, pure, Except.pure] at h
    injection h with h; subst h
    exact avoid_of hwf [.prim (.loss a ab.1 ab.2)] (by
      intro x hx m hm
      simp only [List.mem_singleton] at hx; subst hx
      simp only [Comp.modes, Prim.modes, List.mem_cons, List.not_mem_nil, or_false] at hm
      subst hm; exact ⟨ha1, ha2⟩)

theorem barrier_avoid (c c' : Circ K) (hwf : c.WF) (ms)
    (h : c.barrier ms = .ok c') : Avoid c c' := by
  simp only [Circ.barrier, bind, Except.bind] at h
  split at h
  · cases h
  · rename_i ms' hms
    simp only [pure, Except.pure] at h
    injection h with h; subst h
    exact avoid_of hwf [.prim (.barrier ms')] (by
      intro x hx m hm
      simp only [List.mem_singleton] at hx; subst hx
      simp only [Comp.modes, Prim.modes] at hm
      obtain ⟨a, -, ha⟩ := mapM_ok _ _ _ hms m hm
      obtain ⟨h1, h2, -⟩ := mapped_ok ha
      exact ⟨h1, h2⟩)

theorem modeSwaps_avoid (c c' : Circ K) (hwf : c.WF) (sw)
    (h : c.modeSwaps sw = .ok c') : Avoid c c' := by
  simp only [Circ.modeSwaps, bind, Except.bind] at h
  split at h
  · cases h
  · rename_i ks hks
    split at h
    · cases h
    · rename_i vs hvs
      split at h
      · simp [throw, throwThe, MonadExceptOf.throw] at h
      · simp only [pure, Except.pure] at h
        injection h with h; subst h
        have hk : ∀ a ∈ ks, a < c.n ∧ a ∉ c.internal := by
          intro a ha
          obtain ⟨p, hpm, hp⟩ := mapM_ok _ _ _ hks a ha
          simp only [List.mem_map] at hpm
          obtain ⟨q, -, rfl⟩ := hpm
          obtain ⟨h1, h2, -⟩ := mapped_ok hp
          exact ⟨h1, h2⟩
        have hv : ∀ a ∈ vs, a < c.n ∧ a ∉ c.internal := by
          intro a ha
          obtain ⟨p, hpm, hp⟩ := mapM_ok _ _ _ hvs a ha
          simp only [List.mem_map] at hpm
          obtain ⟨q, -, rfl⟩ := hpm
          obtain ⟨h1, h2, -⟩ := mapped_ok hp
          exact ⟨h1, h2⟩
        exact avoid_of hwf [.prim (.swaps (Dict.ofPairs (ks.zip vs)))] (by
          intro x hx m hm
          simp only [List.mem_singleton] at hx; subst hx
          simp only [Comp.modes, Prim.modes, List.mem_append] at hm
          rcases hm with hm | hm
          · have := mem_keys_ofPairs.mp hm
            simp only [List.mem_map] at this
            obtain ⟨p, hp, rfl⟩ := this
            exact hk _ (List.of_mem_zip hp).1
          · have := mem_vals_ofPairs hm
            simp only [List.mem_map] at this
            obtain ⟨p, hp, rfl⟩ := this
            exact hv _ (List.of_mem_zip hp).2)

end LW.Proofs.C02
