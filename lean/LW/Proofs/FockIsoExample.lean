/-
  LW.Proofs.FockIsoExample — non-vacuity of the hypotheses of `amplitudes_unit_vector`:
  a 2-mode rotation over ℂ with the two-photon input `[1, 1]`.
-/
import LW.Proofs.FockIso
import LW.Proofs.UnitaryAlg
import Mathlib.Data.Complex.Basic
import Mathlib.Tactic.IntervalCases
import Mathlib.Tactic.NormNum

namespace LW.Proofs.FockIso

noncomputable def rot : M ℂ := M.ofFn 2 fun i j =>
  if i = 0 then (if j = 0 then 3 / 5 else 4 / 5) else (if j = 0 then -4 / 5 else 3 / 5)

theorem rot_unitary : IsUnitary rot := by
  rw [M.isUnitary_iff, M.UN_iff_rows]
  intro r c hr hc
  have h2 : rot.n = 2 := rfl
  rw [h2] at hr hc ⊢
  have e : ∀ a b, a < 2 → b < 2 → rot.get a b =
      if a = 0 then (if b = 0 then 3 / 5 else 4 / 5) else (if b = 0 then -4 / 5 else 3 / 5) :=
    fun a b ha hb => M.get_ofFn _ ha hb
  interval_cases r <;> interval_cases c <;>
    simp [Finset.sum_range_succ, e, map_ofNat] <;> norm_num

example : ((fockBasis 2 2).map fun t =>
    ampNum rot [1, 1] t * star (ampNum rot [1, 1] t) / ((ampNormSq [1, 1] t : Nat) : ℂ)).sum = 1 :=
  amplitudes_unit_vector rot rot_unitary (by decide) [1, 1] rfl

end LW.Proofs.FockIso
