import Mathlib.Data.Complex.Basic
import LW.Proofs.C01Dim
import LW.Proofs.C01Lead
import LW.Proofs.C01Unitary
import LW.Proofs.C01Api

namespace LW.Proofs.C01

open LW.Proofs.C01Aux

variable {K : Type} [CommRing K] [StarRing K]

set_option linter.unusedSectionVars false

theorem compile_dim (i : K) (n : Nat) (spec : List (Comp K)) :
    (compile i n spec).n = n + lossCount spec := by
  unfold compile
  rw [foldl_compileComp_n, M.one_n]

theorem U_eq_orderedProd (i : K) (n : Nat) (spec : List (Comp K)) (h : SpecWf n spec) :
    (compile i n spec).lead n = orderedProd i n (flattenSpec spec) := by
  unfold compile orderedProd
  rw [foldl_compileComp_eq,
    foldl_compilePrim_lead i _ _ (mem_flattenSpec_wf h) (le_of_eq (M.one_n n).symm), one_lead]

theorem Ufull_unitary (i : K) (hi : IsImagUnit i) (n : Nat) (spec : List (Comp K))
    (h : SpecWf n spec) : IsUnitary (compile i n spec) := by
  unfold compile
  rw [foldl_compileComp_eq]
  exact isUnitary_foldl_compilePrim i hi _ _ (mem_flattenSpec_wf h)
    (le_of_eq (M.one_n n).symm) (isUnitary_one n)

theorem accepted_calls_wf (c c' : Circ K) (hc : SpecWf c.n c.spec) :
    (∀ m1 m2 cs cv l, cs.1 * cs.1 + cs.2 * cs.2 = 1 → star cs.1 = cs.1 → star cs.2 = cs.2 →
        (∀ ab, l = some ab → ab.1 * ab.1 + ab.2 * ab.2 = 1 ∧ star ab.1 = ab.1 ∧ star ab.2 = ab.2) →
        c.bs m1 m2 cs cv l = .ok c' → c'.n = c.n ∧ SpecWf c'.n c'.spec) ∧
    (∀ m p l, p * star p = 1 →
        (∀ ab, l = some ab → ab.1 * ab.1 + ab.2 * ab.2 = 1 ∧ star ab.1 = ab.1 ∧ star ab.2 = ab.2) →
        c.ps m p l = .ok c' → c'.n = c.n ∧ SpecWf c'.n c'.spec) ∧
    (∀ m ab, ab.1 * ab.1 + ab.2 * ab.2 = 1 → star ab.1 = ab.1 → star ab.2 = ab.2 →
        c.loss m ab = .ok c' → c'.n = c.n ∧ SpecWf c'.n c'.spec) ∧
    (∀ ms, c.barrier ms = .ok c' → c'.n = c.n ∧ SpecWf c'.n c'.spec) ∧
    (∀ sw, c.modeSwaps sw = .ok c' → c'.n = c.n ∧ SpecWf c'.n c'.spec) := by
  refine ⟨?_, ?_, ?_, ?_, ?_⟩
  · intro m1 m2 cs cv l h1 h2 h3 hl h
    exact bs_wf c c' hc m1 m2 cs cv l h1 h2 h3 hl h
  · intro m p l hp hl h
    exact ps_wf c c' hc m p l hp hl h
  · intro m ab h1 h2 h3 h
    exact loss_wf c c' hc m ab h1 h2 h3 h
  · intro ms h
    exact barrier_wf c c' hc ms h
  · intro sw h
    exact modeSwaps_wf c c' hc sw h

theorem bs_rejects (c : Circ K) (m1 m2 : Int) (cs : K × K) (cv : Conv)
    (l : Option (K × K))
    (h : c.mapMode m1 = c.mapMode m2 ∨ c.mapMode m1 < 0 ∨ (c.n : Int) ≤ c.mapMode m1 ∨
         c.mapMode m2 < 0 ∨ (c.n : Int) ≤ c.mapMode m2) :
    c.bs m1 m2 cs cv l = .error .modeRange := by
  unfold Circ.bs Circ.modeInRange
  by_cases h1 : 0 ≤ c.mapMode m1 ∧ c.mapMode m1 < (c.n : Int)
  · by_cases he : c.mapMode m1 = c.mapMode m2
    · have : ((c.mapMode m1).toNat : Int) = c.mapMode m2 := by omega
      simp [h1, this, bind, Except.bind, throw, throwThe, MonadExceptOf.throw]
    · have hne : ¬ ((c.mapMode m1).toNat : Int) = c.mapMode m2 := by omega
      have h2 : ¬ (0 ≤ c.mapMode m2 ∧ c.mapMode m2 < (c.n : Int)) := by omega
      simp [h1, he, h2, bind, Except.bind]
  · simp [h1, bind, Except.bind]

/-! ### non-vacuity: the hypotheses hold on a concrete circuit over `ℂ` -/

section NonVacuity

/-- a 2-mode spec with an `Rx` beam splitter (3-4-5 triangle), a loss element, a swap, and a
grouped phase shifter -/
noncomputable def exSpec : List (Comp ℂ) :=
  [.prim (.bs 0 1 (3 / 5) (4 / 5) .rx), .prim (.loss 0 (3 / 5) (4 / 5)),
   .prim (.swaps [(0, 1), (1, 0)]), .group [.ps 1 Complex.I, .barrier [0, 1]] 0 1 [] []]

example : IsImagUnit Complex.I := ⟨Complex.I_mul_I, Complex.conj_I⟩

theorem exSpec_wf : SpecWf 2 exSpec := by
  intro c hc
  simp only [exSpec, List.mem_cons, List.not_mem_nil, or_false] at hc
  rcases hc with rfl | rfl | rfl | rfl
  · refine ⟨by omega, by omega, by omega, ?_, ?_, ?_⟩
    · simp
    · simp
    · norm_num
  · refine ⟨by omega, ?_, ?_, ?_⟩
    · simp
    · simp
    · norm_num
  · refine ⟨by decide, by decide, by decide⟩
  · intro p hp
    simp only [List.mem_cons, List.not_mem_nil, or_false] at hp
    rcases hp with rfl | rfl
    · exact ⟨by omega, by simp⟩
    · intro m hm
      simp only [List.mem_cons, List.not_mem_nil, or_false] at hm
      omega

example : IsUnitary (compile Complex.I 2 exSpec) :=
  Ufull_unitary Complex.I ⟨Complex.I_mul_I, Complex.conj_I⟩ 2 exSpec exSpec_wf

example : (compile Complex.I 2 exSpec).n = 3 := by
  rw [compile_dim]; rfl

/-- the API accepts a beam-splitter call on a fresh circuit, and rejects equal modes -/
example : ∃ c', (Circ.new 2 : Circ ℂ).bs 0 1 (3 / 5, 4 / 5) .rx none = .ok c' := ⟨_, rfl⟩

example : (Circ.new 2 : Circ ℂ).bs 1 1 (3 / 5, 4 / 5) .rx none = .error .modeRange := rfl

end NonVacuity

end LW.Proofs.C01
