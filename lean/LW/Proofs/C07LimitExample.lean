/-
  C07 limit statements: non-vacuity of the hypotheses of `sampling_frequencies_converge` and
  `detectorSampleR_law`.
  The coordinate process on the infinite product of uniform laws is an i.i.d. uniform sequence.
-/
import Mathlib.Probability.Independence.InfinitePi
import LW.Proofs.C07LimitLLN
import LW.Proofs.C07LimitDetLaw

namespace LW.Proofs.C07

open MeasureTheory ProbabilityTheory Filter Topology

/-- an ideal tape exists: the coordinates of `ℕ → ℝ` under the product of uniform laws are
independent and uniform on `[0,1)` -/
theorem ideal_tape_exists :
    ∃ (μ : Measure (ℕ → ℝ)) (U : ℕ → (ℕ → ℝ) → ℝ), iIndepFun U μ ∧
      ∀ i, Measure.map (U i) μ = volume.restrict (Set.Ico (0 : ℝ) 1) :=
  ⟨Measure.infinitePi (fun _ : ℕ => uniform01), fun i ω => ω i,
    iIndepFun_infinitePi (P := fun _ : ℕ => uniform01) (X := fun _ x => x) (fun _ => measurable_id),
    fun i => Measure.infinitePi_map_eval (fun _ : ℕ => uniform01) i⟩

/-- non-vacuity: with weights 1/4, 0, 3/4 and the ideal tape, almost surely the frequency of
index 2 tends to 3/4 -/
example : ∃ (μ : Measure (ℕ → ℝ)) (U : ℕ → (ℕ → ℝ) → ℝ), IsProbabilityMeasure μ ∧
    ∀ᵐ ω ∂μ, Tendsto
      (fun n : ℕ =>
        (((Finset.range n).filter fun i => inverseCdfR [1/4, 0, 3/4] (U i ω) = 2).card : ℝ) / n)
      atTop (𝓝 (3/4)) := by
  refine ⟨Measure.infinitePi (fun _ : ℕ => uniform01), fun i ω => ω i, inferInstance, ?_⟩
  have h := sampling_frequencies_converge_iIndep (μ := Measure.infinitePi (fun _ : ℕ => uniform01))
    (fun i ω => ω i)
    (iIndepFun_infinitePi (P := fun _ : ℕ => uniform01) (X := fun _ x => x) (fun _ => measurable_id))
    (fun i => Measure.infinitePi_map_eval (fun _ : ℕ => uniform01) i)
    [1/4, 0, 3/4]
    (by
      intro p hp
      simp only [List.mem_cons, List.not_mem_nil, or_false] at hp
      rcases hp with h | h | h <;> rw [h] <;> norm_num)
    (by norm_num) 2 (by simp)
  have e : ([1/4, 0, 3/4] : List ℝ).getD 2 0 / ([1/4, 0, 3/4] : List ℝ).sum = 3/4 := by norm_num
  rw [e] at h
  exact h

/-- non-vacuity of the detector law: the imperfect threshold detector ⟨1/2, 1/4, threshold⟩ on the
state `[2,0,1]`, fed 6 entries of the ideal tape, reads `[1,1,1]` with probability 65/512 (the
weight of `[1,1,1]` in the exact kernel) -/
example : ∃ (μ : Measure (ℕ → ℝ)) (V : ℕ → (ℕ → ℝ) → ℝ), IsProbabilityMeasure μ ∧
    μ {ω | (detectorSampleR ⟨1/2, 1/4, false⟩ [2, 0, 1]
      ((List.range 6).map fun i => V i ω)).1 = [1, 1, 1]} = ENNReal.ofReal (65 / 512) := by
  refine ⟨Measure.infinitePi (fun _ : ℕ => uniform01), fun i ω => ω i, inferInstance, ?_⟩
  have h := detectorSampleR_law' (μ := Measure.infinitePi (fun _ : ℕ => uniform01))
    (fun i ω => ω i)
    (iIndepFun_infinitePi (P := fun _ : ℕ => uniform01) (X := fun _ x => x) (fun _ => measurable_id))
    (fun i => Measure.infinitePi_map_eval (fun _ : ℕ => uniform01) i)
    ⟨1/2, 1/4, false⟩ (by norm_num) (by norm_num) (by norm_num) (by norm_num) [2, 0, 1] 6
    (by decide) [1, 1, 1]
  have e : ((((detectorKernel ⟨1/2, 1/4, false⟩ [2, 0, 1]).filter (·.1 == [1, 1, 1])).map
      (·.2)).sum : ℚ) = 65 / 512 := by decide +kernel
  rw [e] at h
  rw [h]
  norm_num

/-- the real twin agrees with the model on a rational tape (the tape of the model-level example in
C07Sample) -/
example : (detectorSampleR ⟨1/2, 1/4, false⟩ [2, 0, 1]
    (List.map (fun q : ℚ => (q : ℝ)) [3/4, 1/4, 1/4, 1/2, 1/8, 1/2, 1/3])).1 = [1, 1, 1] := by
  rw [detectorSampleR_cast]
  decide +kernel

end LW.Proofs.C07
