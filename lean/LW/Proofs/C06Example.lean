/-
  LW.Proofs.C06Example — concrete parameter sets used by the non-vacuity examples of C06.
-/
import LW.Proofs.C06Two
import LW.Proofs.C06Perfect
import Mathlib.Algebra.Order.Ring.Rat
import Mathlib.Algebra.Field.Rat
import Mathlib.Data.Real.Basic
import Mathlib.Tactic.NormNum

namespace LW.Proofs.C06

open LW.Src

/-- brightness 1/2, two-photon weight 1/3 (purity 5/8), √indistinguishability 3/5 -/
theorem inRange_ex : InRange (⟨1/2, 1/3, 3/5, 0⟩ : Params ℚ) :=
  ⟨by norm_num, by norm_num, by norm_num, by norm_num, by norm_num, by norm_num⟩

theorem inRange_exR : InRange (⟨1/2, 1/3, 3/5, 0⟩ : Params ℝ) :=
  ⟨by norm_num, by norm_num, by norm_num, by norm_num, by norm_num, by norm_num⟩

/-! ### a balanced beam splitter with decidable arithmetic
`K = ℤ`, `Q = ℚ`, unnormalised Hadamard matrix, `|z|² := z²`, negative truncation threshold (every
pattern is kept): an indistinguishable pair never leaves in different modes (permanent 0). -/

def hadamard : M Int := ⟨2, #[#[1, 1], #[1, -1]]⟩
def nsqInt : Int → Rat := fun z => ((z * z : Int) : Rat)
/-- indicator of the coincidence pattern |1,1⟩ -/
def coincidence : FState → Rat := fun t => if t = [1, 1] then 1 else 0

theorem nsqInt_nonneg : ∀ z, 0 ≤ nsqInt z := by
  intro z
  simp only [nsqInt]
  exact_mod_cast mul_self_nonneg z

theorem hadamard_ne_nil : ∀ g : FState, g.length = 2 → fullDist .permanent nsqInt (-1) hadamard 2 g ≠ [] :=
  fun g hg => fullDistPermanent_ne_nil nsqInt nsqInt_nonneg (-1) (by norm_num) hadamard (by decide) g hg

theorem hadamard_00 : mix (fullDist .permanent nsqInt (-1) hadamard 2 [0, 0]) coincidence = 0 := by
  decide +kernel
theorem hadamard_10 : mix (fullDist .permanent nsqInt (-1) hadamard 2 [1, 0]) coincidence = 0 := by
  decide +kernel
theorem hadamard_01 : mix (fullDist .permanent nsqInt (-1) hadamard 2 [0, 1]) coincidence = 0 := by
  decide +kernel
/-- Hong–Ou–Mandel: the indistinguishable pair bunches -/
theorem hadamard_11 : mix (fullDist .permanent nsqInt (-1) hadamard 2 [1, 1]) coincidence = 0 := by
  decide +kernel
theorem hadamard_dis : mixGroups [fullDist .permanent nsqInt (-1) hadamard 2 [1, 0],
    fullDist .permanent nsqInt (-1) hadamard 2 [0, 1]] coincidence ≠ 0 := by
  decide +kernel

/-- pure source, brightness 1/2, √indistinguishability 3/5 -/
theorem inRange_pure : InRange (⟨1/2, 0, 3/5, 0⟩ : Params ℚ) :=
  ⟨by norm_num, by norm_num, by norm_num, by norm_num, by norm_num, by norm_num⟩

theorem inRange_q0 : InRange (⟨1/2, 0, 0, 0⟩ : Params ℚ) :=
  ⟨by norm_num, by norm_num, by norm_num, by norm_num, by norm_num, by norm_num⟩

theorem inRange_q1 : InRange (⟨1/2, 0, 1, 0⟩ : Params ℚ) :=
  ⟨by norm_num, by norm_num, by norm_num, by norm_num, by norm_num, by norm_num⟩

end LW.Proofs.C06
