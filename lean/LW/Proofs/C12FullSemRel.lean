/-
  LW.Proofs.C12FullSemRel — the INSERT-MODE and SHIFT lemmas for `compile` under the *positional*
  well-formedness `SpecOk` (no unitarity): weak copies of the lemmas of `C02SemRel`/`C02SemBumps`.
-/
import LW.Proofs.C12FullSpecOk
import LW.Proofs.C02SemBumps

open scoped BigOperators

namespace LW.C12F

open LW LW.Proofs.C01Aux LW.Proofs.C02 LW.Proofs.C02Sem

variable {K : Type} [CommRing K] [StarRing K]

set_option linter.unusedSectionVars false

/-! ### `PrimOk` is preserved by the relabellings -/

theorem PrimOk.addEmptyMode {n : Nat} {p : Prim K} (h : PrimOk n p) (t : Nat) :
    PrimOk (n + 1) (p.addEmptyMode t) := by
  cases p with
  | bs m1 m2 c s cv => exact h.elim
  | ps m q => exact h.elim
  | loss m a b => exact h.elim
  | barrier ms => exact h.elim
  | swaps σ =>
    exact LW.Proofs.Reach.Prim.Wf.addEmptyMode (K := K) (p := Prim.swaps σ) (n := n) h t
  | unitary m u =>
    have h1 : m + u.n ≤ n := h
    simp only [Prim.addEmptyMode]
    split
    · rename_i hc
      have hb : bump t m = m := by
        unfold bump at hc ⊢
        split <;> rename_i h' <;> simp only [h', if_true, if_false] at hc <;> omega
      rw [hb] at hc ⊢
      show m + (u.n + 1) ≤ n + 1
      omega
    · have := bump_le_succ t m
      show bump t m + u.n ≤ n + 1
      omega

theorem PrimOk.shift {n : Nat} {p : Prim K} (h : PrimOk n p) (k : Nat) :
    PrimOk (n + k) (p.shift k) := by
  cases p with
  | bs m1 m2 c s cv => exact h.elim
  | ps m q => exact h.elim
  | loss m a b => exact h.elim
  | barrier ms => exact h.elim
  | swaps σ =>
    exact LW.Proofs.Reach.Prim.Wf.shift (K := K) (p := Prim.swaps σ) (n := n) h k
  | unitary m u =>
    have h1 : m + u.n ≤ n := h
    show m + k + u.n ≤ n + k
    omega

theorem PrimOk.mono {n N : Nat} {p : Prim K} (h : PrimOk n p) (hN : n ≤ N) : PrimOk N p := by
  cases p with
  | bs m1 m2 c s cv => exact h.elim
  | ps m q => exact h.elim
  | loss m a b => exact h.elim
  | barrier ms => exact h.elim
  | swaps σ =>
    have h' : SwapsOk n σ := h
    exact ⟨h'.1, h'.2.1, fun k hk => Nat.lt_of_lt_of_le (h'.2.2 k hk) hN⟩
  | unitary m u =>
    have h1 : m + u.n ≤ n := h
    show m + u.n ≤ N
    omega

theorem SpecOk.addEmptyMode {n : Nat} {spec : List (Comp K)} (h : SpecOk n spec) (t : Nat) :
    SpecOk (n + 1) (Circ.addEmptyModeSpec spec t) := by
  intro p hp
  rw [flatten_addEmptyMode] at hp
  obtain ⟨p0, hp0, rfl⟩ := List.mem_map.mp hp
  exact PrimOk.addEmptyMode (h p0 hp0) t

theorem SpecOk.shift {n : Nat} {spec : List (Comp K)} (h : SpecOk n spec) (k : Nat) :
    SpecOk (n + k) (spec.map (Comp.shift k)) := by
  intro p hp
  rw [flatten_shift] at hp
  obtain ⟨p0, hp0, rfl⟩ := List.mem_map.mp hp
  exact PrimOk.shift (h p0 hp0) k

theorem SpecOk.mono {n N : Nat} {spec : List (Comp K)} (h : SpecOk n spec) (hN : n ≤ N) :
    SpecOk N spec := fun p hp => PrimOk.mono (h p hp) hN

theorem specOk_specIns (n : Nat) (ks : List Nat) (spec : List (Comp K)) (hw : SpecOk n spec) :
    SpecOk (n + ks.length) (specIns ks spec) := by
  induction ks generalizing n spec with
  | nil => exact hw
  | cons k ks ih =>
    have := ih (n + 1) _ (SpecOk.addEmptyMode hw k)
    rw [specIns_cons]
    simpa [Nat.add_assoc, Nat.add_comm 1] using this

/-! ### the matrix relations -/

theorem matRel_addEmptyMode' (i : K) (n k : Nat) (hk : k ≤ n) (q : Prim K) (hq : PrimOk n q) :
    MatRel i (unbump k) n (n + 1) q (q.addEmptyMode k) := by
  cases q with
  | bs m1 m2 c s cv => exact hq.elim
  | ps m ph => exact hq.elim
  | loss m a b => exact hq.elim
  | barrier ms => exact hq.elim
  | swaps σ => exact matRel_addEmptyMode i n k hk (Prim.swaps σ) hq
  | unitary m u =>
    have h1 : m + u.n ≤ n := hq
    simp only [Prim.addEmptyMode]
    split
    · rename_i hc
      have hb : bump k m = m := by
        unfold bump at hc ⊢
        split <;> rename_i h' <;> simp only [h', if_true, if_false] at hc <;> omega
      rw [hb] at hc ⊢
      refine ⟨rfl, rfl, fun L _ => ?_⟩
      have := embedBlock_bump_inside (n + L) m k u hc.1 hc.2 (by omega)
      rwa [show n + L + 1 = n + 1 + L by omega] at this
    · rename_i hc
      refine ⟨rfl, rfl, fun L _ => ?_⟩
      have := embedBlock_bump_outside (n + L) m k u (by
        unfold bump at hc; split_ifs at hc <;> omega) (by omega) (by omega)
      rwa [show n + L + 1 = n + 1 + L by omega] at this

theorem matRel_shift' (i : K) (nS s T : Nat) (hT : s + nS ≤ T) (q : Prim K) (hq : PrimOk nS q) :
    MatRel i (winInv nS s T) nS T q (q.shift s) := by
  cases q with
  | bs m1 m2 c s cv => exact hq.elim
  | ps m ph => exact hq.elim
  | loss m a b => exact hq.elim
  | barrier ms => exact hq.elim
  | swaps σ => exact matRel_shift i nS s T hT (Prim.swaps σ) hq
  | unitary m u =>
    have h1 : m + u.n ≤ nS := hq
    refine ⟨rfl, rfl, fun L _ => ?_⟩
    exact embedBlock_win nS s T L m u hT h1

/-! ### lists -/

/-- INSERT-MODE LEMMA (positional hypotheses only) -/
theorem compile_addEmptyMode' (i : K) (n k : Nat) (hk : k ≤ n) (spec : List (Comp K))
    (hw : SpecOk n spec) :
    compile i (n + 1) (Circ.addEmptyModeSpec spec k)
      = Optic.embedVia (n + 1 + lossCount spec) (compile i n spec) (unbump k) := by
  have hP : ∀ L, PInj (n + L) (n + 1 + L) (bump k) (unbump k) := fun L => by
    have := pinj_bump k (n + L) (by omega)
    rwa [show n + L + 1 = n + 1 + L by omega] at this
  rw [compile_eq_foldl, compile_eq_foldl, flatten_addEmptyMode]
  have hrel := forall₂_map (MatRel i (unbump k) n (n + 1)) (Prim.addEmptyMode k) (flattenSpec spec)
    (fun q hq => matRel_addEmptyMode' i n k hk q (hw q hq))
  have := run_rel i hP _ _ hrel (M.one n) (M.one (n + 1)) 0 rfl rfl (M.isOfFn_one _)
  have h0 := hP 0
  simp only [Nat.add_zero] at h0 this
  rw [embedVia_one h0] at this
  have e1 : (M.one (n + 1) : M K).mul (M.one (n + 1)) = M.one (n + 1) :=
    one_mul' (M.one (n + 1)) (M.isOfFn_one _)
  rw [e1] at this
  rw [this, one_pad, lossN_flatten]
  exact mul_one' _ (isOfFn_embedVia _ _ _)

/-- SHIFT LEMMA (positional hypotheses only) -/
theorem foldl_shift' (i : K) (nS s T : Nat) (hT : s + nS ≤ T) (spec : List (Comp K))
    (hw : SpecOk nS spec) (V : M K) (hV : V.n = T) (hVf : V.IsOfFn) :
    (flattenSpec (spec.map (Comp.shift s))).foldl (compilePrim i) V
      = (Optic.embedVia (T + lossCount spec) (compile i nS spec) (winInv nS s T)).mul
          (V.pad (lossCount spec)) := by
  have hP := fun L => pinj_win nS s T L hT
  rw [compile_eq_foldl, flatten_shift]
  have hrel := forall₂_map (MatRel i (winInv nS s T) nS T) (Prim.shift s) (flattenSpec spec)
    (fun q hq => matRel_shift' i nS s T hT q (hw q hq))
  have := run_rel i hP _ _ hrel (M.one nS) V 0 rfl (by omega) hVf
  have h0 := hP 0
  simp only [Nat.add_zero] at h0 this
  rw [embedVia_one h0] at this
  have e1 : (M.one T : M K).mul V = V := by
    have := one_mul' V hVf
    rwa [hV] at this
  rw [e1] at this
  rw [this, lossN_flatten]

/-- ITERATED INSERT-MODE LEMMA (positional hypotheses only) -/
theorem compile_specIns' (i : K) (n : Nat) (ks : List Nat) (hok : InsOk n ks) (spec : List (Comp K))
    (hw : SpecOk n spec) :
    compile i (n + ks.length) (specIns ks spec)
      = Optic.embedVia (n + ks.length + lossCount spec) (compile i n spec) (unbumps ks) := by
  induction ks generalizing n spec with
  | nil =>
    simp only [specIns_nil, List.length_nil, Nat.add_zero]
    have hP : PInj (n + lossCount spec) (n + lossCount spec) (bumps []) (unbumps []) := by
      have := pinj_bumps n (lossCount spec) [] trivial
      simpa using this
    refine M.ext_get (isOfFn_compile i n spec) (isOfFn_embedVia _ _ _) (compile_n i n spec) ?_
    intro r c hr hc
    rw [compile_n] at hr hc
    exact (get_embedVia_fwd hP _ hr hc).symm
  | cons k ks ih =>
    have hw1 := SpecOk.addEmptyMode hw k
    have h1 := ih (n + 1) hok.2 _ hw1
    rw [compile_addEmptyMode' i n k hok.1 spec hw, lossCount_addEmptyMode] at h1
    have e1 : n + (k :: ks).length = n + 1 + ks.length := by simp only [List.length_cons]; omega
    rw [specIns_cons, e1, h1]
    have hP2 := pinj_bumps (n + 1) (lossCount spec) ks hok.2
    exact embedVia_comp (f1 := bump k) hP2 _

end LW.C12F
