/-
  LW.Proofs.C12FullPoly — algebra of the substitution homomorphisms `homOf`:
  products of matrices are compositions, amplitudes compose by summing over the monomials of the
  intermediate polynomial, and weight-preserving homomorphisms conserve the weight of a state.
-/
import Mathlib.RingTheory.MvPolynomial.WeightedHomogeneous
import LW.Proofs.C12FullDefs
import LW.Proofs.MatAlg

open MvPolynomial

namespace LW.C12F

variable {R : Type} [CommRing R]

abbrev Hom (R : Type) [CommRing R] := MvPolynomial ℕ R →ₐ[R] MvPolynomial ℕ R

/-! ### basic evaluation -/

theorem homOf_X_lt (U : Nat → Nat → R) {D j : Nat} (h : j < D) :
    homOf U D (X j) = colForm U D j := by
  unfold homOf
  rw [aeval_X, if_pos h]

theorem homOf_X_ge (U : Nat → Nat → R) {D j : Nat} (h : D ≤ j) : homOf U D (X j) = X j := by
  unfold homOf
  rw [aeval_X, if_neg (by omega)]

theorem colForm_congr {U V : Nat → Nat → R} {D j : Nat} (h : ∀ i, i < D → U i j = V i j) :
    colForm U D j = colForm V D j := by
  unfold colForm
  apply Finset.sum_congr rfl
  intro i hi
  rw [h i (Finset.mem_range.mp hi)]

theorem homOf_congr {U V : Nat → Nat → R} {D : Nat} (h : ∀ i j, i < D → j < D → U i j = V i j) :
    homOf U D = homOf V D := by
  apply algHom_ext
  intro j
  by_cases hj : j < D
  · rw [homOf_X_lt _ hj, homOf_X_lt _ hj]
    exact colForm_congr fun i hi => h i j hi hj
  · rw [homOf_X_ge _ (by omega), homOf_X_ge _ (by omega)]

theorem homOf_colForm (U V : Nat → Nat → R) (D j : Nat) :
    homOf U D (colForm V D j) = ∑ k ∈ Finset.range D, C (V k j) * colForm U D k := by
  unfold colForm
  rw [map_sum]
  apply Finset.sum_congr rfl
  intro k hk
  rw [map_mul, algHom_C, homOf_X_lt _ (Finset.mem_range.mp hk)]
  rfl

/-- entry function of a product at dimension `D` -/
def mulE (D : Nat) (A B : Nat → Nat → R) : Nat → Nat → R :=
  fun r c => ∑ k ∈ Finset.range D, A r k * B k c

/-- products are compositions -/
theorem homOf_mulE (A B : Nat → Nat → R) (D : Nat) :
    homOf (mulE D A B) D = (homOf A D).comp (homOf B D) := by
  apply algHom_ext
  intro j
  rw [AlgHom.comp_apply]
  by_cases hj : j < D
  · rw [homOf_X_lt _ hj, homOf_X_lt _ hj, homOf_colForm]
    unfold colForm mulE
    simp only [Finset.mul_sum]
    rw [Finset.sum_comm]
    apply Finset.sum_congr rfl
    intro i _
    rw [map_sum, Finset.sum_mul]
    apply Finset.sum_congr rfl
    intro k _
    rw [C_mul]
    ring
  · rw [homOf_X_ge _ (by omega), homOf_X_ge _ (by omega), homOf_X_ge _ (by omega)]

/-! ### amplitudes compose -/

theorem amp_comp (φ ψ : Hom R) (t s : ℕ →₀ ℕ) :
    amp (φ.comp ψ) t s =
      ∑ w ∈ (ψ (monomial s 1)).support, amp ψ w s * amp φ t w := by
  unfold amp
  rw [AlgHom.comp_apply]
  conv_lhs => rw [as_sum (ψ (monomial s 1))]
  rw [map_sum, coeff_sum]
  apply Finset.sum_congr rfl
  intro w _
  rw [← mul_one (coeff w (ψ (monomial s 1))), ← C_mul_monomial, map_mul, algHom_C, mul_one]
  exact coeff_C_mul _ _ _

/-- the sum may be taken over any finite set outside of which the terms vanish -/
theorem amp_comp_subset (φ ψ : Hom R) (t s : ℕ →₀ ℕ) (A : Finset (ℕ →₀ ℕ))
    (h : ∀ w, w ∉ A → amp ψ w s * amp φ t w = 0) :
    amp (φ.comp ψ) t s = ∑ w ∈ A, amp ψ w s * amp φ t w := by
  classical
  rw [amp_comp]
  have h1 : ∑ w ∈ (ψ (monomial s 1)).support, amp ψ w s * amp φ t w
      = ∑ w ∈ (ψ (monomial s 1)).support ∪ A, amp ψ w s * amp φ t w := by
    apply Finset.sum_subset Finset.subset_union_left
    intro w _ hw
    have : amp ψ w s = 0 := by
      unfold amp
      exact notMem_support_iff.mp hw
    rw [this, zero_mul]
  have h2 : ∑ w ∈ A, amp ψ w s * amp φ t w
      = ∑ w ∈ (ψ (monomial s 1)).support ∪ A, amp ψ w s * amp φ t w := by
    apply Finset.sum_subset Finset.subset_union_right
    intro w _ hw
    exact h w hw
  rw [h1, h2]

theorem amp_id (t s : ℕ →₀ ℕ) : amp (AlgHom.id R (MvPolynomial ℕ R)) t s = if s = t then 1 else 0 := by
  classical
  unfold amp
  rw [AlgHom.id_apply, coeff_monomial]

/-! ### conservation laws -/

/-- `φ` preserves the weight `wt` of every creation operator -/
def Pres (wt : ℕ → ℕ) (φ : Hom R) : Prop := ∀ j, IsWeightedHomogeneous wt (φ (X j)) (wt j)

theorem Pres.id (wt : ℕ → ℕ) : Pres wt (AlgHom.id R (MvPolynomial ℕ R)) := by
  intro j
  rw [AlgHom.id_apply]
  exact isWeightedHomogeneous_X R wt j

theorem Pres.monomial {wt : ℕ → ℕ} {φ : Hom R} (h : Pres wt φ) (s : ℕ →₀ ℕ) :
    IsWeightedHomogeneous wt (φ (monomial s 1)) (Finsupp.weight wt s) := by
  rw [← prod_X_pow_eq_monomial, map_prod, Finsupp.weight_apply]
  unfold Finsupp.sum
  apply IsWeightedHomogeneous.prod
  intro j _
  rw [map_pow]
  exact (h j).pow (s j)

theorem Pres.apply {wt : ℕ → ℕ} {φ : Hom R} (h : Pres wt φ) {p : MvPolynomial ℕ R} {n : ℕ}
    (hp : IsWeightedHomogeneous wt p n) : IsWeightedHomogeneous wt (φ p) n := by
  classical
  rw [as_sum p, map_sum]
  apply IsWeightedHomogeneous.sum
  intro v hv
  have hc : coeff v p ≠ 0 := mem_support_iff.mp hv
  have hw : Finsupp.weight wt v = n := by
    by_contra hne
    exact hc (hp.coeff_eq_zero v hne)
  rw [← mul_one (coeff v p), ← C_mul_monomial, map_mul, algHom_C]
  have := (h.monomial v).C_mul (coeff v p)
  rw [hw] at this
  exact this

theorem Pres.comp {wt : ℕ → ℕ} {φ ψ : Hom R} (hφ : Pres wt φ) (hψ : Pres wt ψ) :
    Pres wt (φ.comp ψ) := by
  intro j
  rw [AlgHom.comp_apply]
  exact hφ.apply (hψ j)

theorem Pres.amp_eq_zero {wt : ℕ → ℕ} {φ : Hom R} (h : Pres wt φ) {t s : ℕ →₀ ℕ}
    (hne : Finsupp.weight wt t ≠ Finsupp.weight wt s) : amp φ t s = 0 :=
  (h.monomial s).coeff_eq_zero t hne

/-- a matrix whose non-zero entries connect modes of equal weight preserves the weight -/
theorem pres_homOf (wt : ℕ → ℕ) (U : Nat → Nat → R) (D : Nat)
    (h : ∀ i j, i < D → j < D → U i j ≠ 0 → wt i = wt j) : Pres wt (homOf U D) := by
  intro j
  by_cases hj : j < D
  · rw [homOf_X_lt _ hj]
    unfold colForm
    apply IsWeightedHomogeneous.sum
    intro i hi
    by_cases hz : U i j = 0
    · rw [hz, C_0, zero_mul]
      exact isWeightedHomogeneous_zero R _ _
    · have := (isWeightedHomogeneous_X R wt i).C_mul (U i j)
      rw [h i j (Finset.mem_range.mp hi) hj hz] at this
      exact this
  · rw [homOf_X_ge _ (by omega)]
    exact isWeightedHomogeneous_X R wt j

end LW.C12F
