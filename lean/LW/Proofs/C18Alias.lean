/-
  LW.Proofs.C18Alias — immutability through the API: whatever client code does with the values
  handed out by reads, the stored rows do not change (repaired `__getitem__`); the pinned
  `AnnotatedState.__getitem__` hands out an internal row (finding F14).
-/
import Mathlib.Data.List.Basic
import LW.Model.StateVal

namespace LW.SV

/-- every handle held by client code is a private copy -/
def AllFresh (w : World) : Prop := ∀ h ∈ w.handles, ∃ v, h = Handle.fresh v

def ClientOp.isGetRow : ClientOp → Bool
  | .getRow _ => true
  | _ => false

theorem allFresh_append {w : World} {hs : List Handle} (hw : AllFresh w)
    (h : ∀ x ∈ hs, ∃ v, x = Handle.fresh v) :
    AllFresh { w with handles := w.handles ++ hs } := by
  intro x hx
  simp only [List.mem_append] at hx
  rcases hx with hx | hx
  · exact hw x hx
  · exact h x hx

/-- one client action keeps the rows and the invariant, provided the read that was used does not
alias (repaired code, or any action other than `obj[i]`) -/
theorem clientStep_frame (aliasing : Bool) (w : World) (hw : AllFresh w) (op : ClientOp)
    (hop : aliasing = false ∨ op.isGetRow = false) :
    (clientStep aliasing w op).rows = w.rows ∧ AllFresh (clientStep aliasing w op) := by
  cases op with
  | readS =>
    refine ⟨rfl, allFresh_append hw ?_⟩
    intro x hx
    simp only [List.mem_map] at hx
    obtain ⟨v, _, rfl⟩ := hx
    exact ⟨v, rfl⟩
  | getRow i =>
    have ha : aliasing = false := by
      rcases hop with h | h
      · exact h
      · simp [ClientOp.isGetRow] at h
    subst ha
    simp only [clientStep]
    cases pyIndex w.rows.length i with
    | none => exact ⟨rfl, hw⟩
    | some k =>
      refine ⟨rfl, allFresh_append hw ?_⟩
      intro x hx
      simp only [List.mem_singleton] at hx
      exact ⟨_, hx⟩
  | setS => exact ⟨rfl, hw⟩
  | setNModes => exact ⟨rfl, hw⟩
  | setItem => exact ⟨rfl, hw⟩
  | slice sl => exact ⟨rfl, hw⟩
  | append h x =>
    simp only [clientStep]
    cases hh : w.handles[h]? with
    | none => exact ⟨rfl, hw⟩
    | some hd =>
      have hmem : hd ∈ w.handles := List.mem_of_getElem? hh
      obtain ⟨v, rfl⟩ := hw hd hmem
      refine ⟨rfl, ?_⟩
      intro y hy
      simp only at hy
      rcases List.mem_or_eq_of_mem_set hy with hy | hy
      · exact hw y hy
      · exact ⟨_, hy⟩

/-- the repaired API: no sequence of client actions changes the stored rows -/
theorem clientRun_fixed (w : World) (hw : AllFresh w) (ops : List ClientOp) :
    (clientRun false w ops).rows = w.rows ∧ AllFresh (clientRun false w ops) := by
  induction ops generalizing w with
  | nil => exact ⟨rfl, hw⟩
  | cons op ops ih =>
    have h1 := clientStep_frame false w hw op (Or.inl rfl)
    have h2 := ih (clientStep false w op) h1.2
    exact ⟨h2.1.trans h1.1, h2.2⟩

/-- also for the pinned code, as long as `obj[i]` with an int is not used (all of `State`'s API) -/
theorem clientRun_no_getRow (aliasing : Bool) (w : World) (hw : AllFresh w) (ops : List ClientOp)
    (hops : ∀ op ∈ ops, op.isGetRow = false) :
    (clientRun aliasing w ops).rows = w.rows ∧ AllFresh (clientRun aliasing w ops) := by
  induction ops generalizing w with
  | nil => exact ⟨rfl, hw⟩
  | cons op ops ih =>
    have h1 := clientStep_frame aliasing w hw op (Or.inr (hops op (by simp)))
    have h2 := ih (clientStep aliasing w op) h1.2 (fun o ho => hops o (by simp [ho]))
    exact ⟨h2.1.trans h1.1, h2.2⟩

/-- F14 on the pinned code: `a = AnnotatedState([[0],[1]]); a[0].append(5)` changes `a` -/
theorem F14_pinned_counterexample :
    (clientRun true ⟨[[0], [1]], []⟩ [.getRow 0, .append 0 5]).rows = [[0, 5], [1]] := by
  decide

theorem F14_fixed_witness :
    (clientRun false ⟨[[0], [1]], []⟩ [.getRow 0, .append 0 5]).rows = [[0], [1]] := by
  decide

end LW.SV
