/-
  LW.Proofs.C02SemAccept — the specification accepts exactly the additions the bookkeeping accepts.
-/
import LW.Proofs.C02SemClosed
import LW.Proofs.C02SemLoops
import LW.Proofs.Reach

open scoped BigOperators

namespace LW.Proofs.C02Sem

open LW LW.Proofs.C01Aux LW.Proofs.C02

variable {K : Type}

section
variable [Zero K] [One K]

theorem ptFold_le (mode : Nat) (l : List Nat) (st : Circ.AddSt K) :
    (l.foldl (ptStep mode) st).sub.n ≤ st.sub.n + (l.filter fun a => decide (mode ≤ a)).length := by
  induction l generalizing st with
  | nil => simp
  | cons i t ih =>
    simp only [List.foldl_cons]
    have hf : (t.filter fun a => decide (mode ≤ a)).length
        ≤ ((i :: t).filter fun a => decide (mode ≤ a)).length := by
      rw [List.filter_cons]; split <;> simp
    rcases ptStep_cases mode st i with ⟨e, -⟩ | ⟨e, hc⟩
    · rw [e]; have := ih st; omega
    · rw [e]
      obtain ⟨-, -, b3⟩ := targetOf_bounds st.sub.inHer.keys ((i : Int) - (mode : Int))
      have him : mode ≤ i := by
        by_contra hcon
        have := b3 (by omega); omega
      have := ih { sub := st.sub.addEmptyModeBook (targetOf st.sub.inHer.keys ((i : Int) - (mode : Int))).toNat,
                   spec := Circ.addEmptyModeSpec st.spec (targetOf st.sub.inHer.keys ((i : Int) - (mode : Int))).toNat }
      have h2 : ((i :: t).filter fun a => decide (mode ≤ a)).length
          = (t.filter fun a => decide (mode ≤ a)).length + 1 := by
        rw [List.filter_cons]; simp [him]
      have h3 : (st.sub.addEmptyModeBook (targetOf st.sub.inHer.keys ((i : Int) - (mode : Int))).toNat).n
          = st.sub.n + 1 := rfl
      simp only [h3] at this
      omega

theorem ptFold_ge (mode : Nat) (l : List Nat) (st : Circ.AddSt K) :
    st.sub.n ≤ (l.foldl (ptStep mode) st).sub.n := by
  induction l generalizing st with
  | nil => exact Nat.le_refl _
  | cons i t ih =>
    simp only [List.foldl_cons]
    rcases ptStep_cases mode st i with ⟨e, -⟩ | ⟨e, -⟩
    · rw [e]; exact ih st
    · rw [e]
      refine Nat.le_trans ?_ (ih _)
      show st.sub.n ≤ st.sub.n + 1
      omega

/-- position of the `m`-th port: `m` plus the number of ancillas below it -/
theorem mapMode_count (c : Circ K) (hwf : c.WF) (m : Int) (hm : 0 ≤ m) :
    (c.mapMode m).toNat = m.toNat + ((sortNat c.internal).filter fun a => decide (a < (c.mapMode m).toNat)).length ∧
    (c.mapMode m).toNat ∉ sortNat c.internal := by
  have hss := strictSorted_sortNat hwf.intNodup
  have hcount := skipFold_count (sortNat c.internal) hss m
  have h0 : 0 ≤ c.mapMode m := Int.le_trans hm (le_skipFold _ m)
  have hnot : (c.mapMode m).toNat ∉ sortNat c.internal := by
    intro hh
    exact skipFold_not_mem _ (sorted_sortNat _) m _ hh (by
      show c.mapMode m = _
      omega)
  have hfc : ((sortNat c.internal).filter fun (a : Nat) => decide ((a : Int) < skipFold (sortNat c.internal) m))
      = (sortNat c.internal).filter fun a => decide (a < (c.mapMode m).toNat) := by
    apply List.filter_congr
    intro a _
    have : skipFold (sortNat c.internal) m = c.mapMode m := rfl
    rw [this]
    simp only [decide_eq_decide]
    omega
  rw [hfc] at hcount
  have hcount' : c.mapMode m = m + _ := hcount
  exact ⟨by omega, hnot⟩

end

section
variable [CommRing K] [StarRing K]

set_option linter.unusedSectionVars false

theorem closed_q (i : K) (c : Circ K) (hwf : c.WF) :
    (c.toOptic i).closed.q = c.n - c.inHer.length := by
  rw [closed_toOptic i c hwf]

theorem sem_add_accepts (i : K) (self sub : Circ K) (hs : Reach self) (hsub : Reach sub) (m : Int) (g : Bool) :
    (∃ self', self.add sub m g = .ok self') ↔ (∃ x, (self.toOptic i).add (sub.toOptic i) m = .ok x) := by
  have hwf := (LW.Proofs.Reach.reach_inv self hs).wf
  have hwfs := (LW.Proofs.Reach.reach_inv sub hsub).wf
  have hP := portModes_length_eq_ports self hwf
  have hq := closed_q i sub hwfs
  have hp : (self.toOptic i).p = self.portModes.length := rfl
  constructor
  · rintro ⟨self', h⟩
    -- acceptance by the bookkeeping forces the port-level conditions
    have hrej := add_rejects self sub hwf hwfs m g
    have hcond : ¬ (m < 0 ∨ (self.ports : Int) < m + ((sub.n - sub.inHer.length : Nat) : Int)) := by
      intro hc
      rw [hrej hc] at h
      cases h
    have hmode : ∃ mode, self.modeInRange (self.mapMode m) = .ok mode := by
      rw [add_eq] at h
      cases hm : self.modeInRange (self.mapMode m) with
      | error e => rw [hm] at h; cases h
      | ok mode => exact ⟨mode, rfl⟩
    obtain ⟨mode, hmode⟩ := hmode
    obtain ⟨hm0, hm1, -⟩ := mapped_port self hwf hmode
    unfold Optic.add
    rw [if_pos]
    · exact ⟨_, rfl⟩
    · rw [hq, hp]
      refine ⟨hm0, hm1, ?_⟩
      rw [hP]; omega
  · rintro ⟨x, h⟩
    unfold Optic.add at h
    dsimp only at h
    split at h
    · rename_i hc
      rw [hq, hp, hP] at hc
      obtain ⟨hm0, hm1, hm2⟩ := hc
      clear h
      rw [add_eq]
      have hR1 : self.mapMode m < (self.n : Int) := (mapMode_lt_iff' self hwf m).mpr hm1
      have hR0 : m ≤ self.mapMode m := le_skipFold _ m
      have hok : self.modeInRange (self.mapMode m) = .ok (self.mapMode m).toNat := by
        unfold Circ.modeInRange; rw [if_pos ⟨by omega, hR1⟩]
      rw [hok]
      simp only [Except.bind, addTail]
      obtain ⟨hcount, hnot⟩ := mapMode_count self hwf m hm0
      have hsplit := length_split (sortNat self.internal) _ hnot
      rw [length_sortNat] at hsplit
      have hil := WF.internal_length_le hwf
      have hhle := length_le_of_nodup_lt _ _ hwfs.inNodup hwfs.inLt
      have hkl : sub.inHer.keys.length = sub.inHer.length := by simp [Dict.keys]
      have hlen : (pick sub g).1.inHer.length = sub.inHer.length := by rw [(pick_props sub g).2.1]
      have hn : (pick sub g).1.n = sub.n := (pick_props sub g).1
      have hup := ptFold_le (self.mapMode m).toNat (sortNat self.internal)
        ⟨(pick sub g).1, swapSpec (pick sub g).1⟩
      have hlo := ptFold_ge (self.mapMode m).toNat (sortNat self.internal)
        ⟨(pick sub g).1, swapSpec (pick sub g).1⟩
      have hfil : ((sortNat self.internal).filter fun a => decide ((self.mapMode m).toNat ≤ a)).length
          = ((sortNat self.internal).filter fun a => decide ((self.mapMode m).toNat < a)).length := by
        congr 1
        apply List.filter_congr
        intro a ha
        have : a ≠ (self.mapMode m).toNat := fun e => hnot (e ▸ ha)
        simp only [decide_eq_decide]
        omega
      rw [hfil] at hup
      simp only [hn] at hup hlo
      have hports : self.ports = self.n - self.internal.length := rfl
      rw [hlen, hn]
      rw [if_neg (by omega), if_neg (by omega)]
      exact ⟨_, rfl⟩
    · cases h

end

end LW.Proofs.C02Sem
