/-
  LW.Proofs.C15Pure — corollaries of `process_born` for a pure state, the fidelity clause, the
  set of required settings, rejection clauses.
-/
import LW.Proofs.C15

open scoped BigOperators

namespace LW.Tomo

variable {K : Type} [Field K] [StarRing K] [DecidableEq K]

set_option linter.unusedSectionVars false

/-- `⟨ψ|ψ⟩` at dimension `2ⁿ` -/
def normSq (n : Nat) (psi : Nat → K) : K := ∑ a ∈ Finset.range (2 ^ n), psi a * star (psi a)

theorem trN_densityOfState (n : Nat) (psi : Nat → K) :
    trN n (densityOfState (2 ^ n) psi) = normSq n psi := by
  unfold trN normSq densityOfState
  refine Finset.sum_congr rfl fun a ha => ?_
  rw [M.get_ofFn _ (Finset.mem_range.mp ha) (Finset.mem_range.mp ha)]
  rfl

theorem normSq_star (n : Nat) (psi : Nat → K) : star (normSq n psi) = normSq n psi := by
  unfold normSq
  rw [star_sum]
  refine Finset.sum_congr rfl fun a _ => ?_
  rw [star_mul', star_star, mul_comm]

theorem trace_eq_sum (A : M K) : trace A = ∑ a ∈ Finset.range A.n, A.get a a := by
  unfold trace
  rw [M.sumN_eq_sum]

/-- the normalised projector `|ψ⟩⟨ψ| / ⟨ψ|ψ⟩`: entries, Hermitian, unit trace, idempotent -/
theorem normalised_pure (n : Nat) (psi : Nat → K) (hnorm : normSq n psi ≠ 0) :
    let rho := normalised n (densityOfState (2 ^ n) psi)
    rho.n = 2 ^ n ∧
    (∀ r k, r < 2 ^ n → k < 2 ^ n → rho.get r k = psi r * star (psi k) * (normSq n psi)⁻¹) ∧
    (∀ r k, r < 2 ^ n → k < 2 ^ n → star (rho.get k r) = rho.get r k) ∧
    trace rho = 1 ∧
    rho.mul rho = rho := by
  intro rho
  have hget : ∀ r k, r < 2 ^ n → k < 2 ^ n →
      rho.get r k = psi r * star (psi k) * (normSq n psi)⁻¹ := by
    intro r k hr hk
    simp only [rho, normalised]
    rw [M.get_ofFn _ hr hk, trN_densityOfState]
    unfold densityOfState
    rw [M.get_ofFn _ hr hk]
    rfl
  refine ⟨rfl, hget, ?_, ?_, ?_⟩
  · intro r k hr hk
    rw [hget k r hk hr, hget r k hr hk, star_mul', star_mul', star_star, star_inv₀, normSq_star]
    ring
  · rw [trace_eq_sum]
    have : rho.n = 2 ^ n := rfl
    rw [this, Finset.sum_congr rfl (fun a ha => hget a a (Finset.mem_range.mp ha) (Finset.mem_range.mp ha)),
      ← Finset.sum_mul]
    exact mul_inv_cancel₀ hnorm
  · have hn' : rho.n = 2 ^ n := rfl
    unfold M.mul
    rw [hn']
    conv_rhs => rw [show rho = M.ofFn (2 ^ n) (fun r k => rho.get r k) from by
      simp only [rho, normalised]
      apply M.ofFn_congr
      intro r k hr hk
      rw [M.get_ofFn _ hr hk]]
    apply M.ofFn_congr
    intro r k hr hk
    rw [M.sumN_eq_sum, hget r k hr hk]
    have : ∀ m ∈ Finset.range (2 ^ n), rho.get r m * rho.get m k
        = (psi r * star (psi k) * (normSq n psi)⁻¹ * (normSq n psi)⁻¹) * (psi m * star (psi m)) := by
      intro m hm
      rw [hget r m hr (Finset.mem_range.mp hm), hget m k (Finset.mem_range.mp hm) hk]
      ring
    rw [Finset.sum_congr rfl this, ← Finset.mul_sum]
    change _ * normSq n psi = _
    field_simp

/-- `state_fidelity(ρ, ρ) = 1` for a normalised projector, given the contract of the external
`sqrtm`: the principal square root of an idempotent matrix is the matrix itself -/
theorem stateFidelity_projector (sqrtm : M K → M K) (hsq : ∀ A : M K, A.mul A = A → sqrtm A = A)
    (rho : M K) (hidem : rho.mul rho = rho) (htr : trace rho = 1) :
    stateFidelity sqrtm rho rho = .ok 1 := by
  unfold stateFidelity
  simp only [hsq rho hidem, ne_eq, not_true_eq_false, if_false, hidem, htr]

/-! ### the required settings -/

theorem nodup_eraseDups {α : Type} [BEq α] [LawfulBEq α] :
    ∀ (m : Nat) (l : List α), l.length ≤ m → l.eraseDups.Nodup := by
  intro m
  induction m with
  | zero =>
    intro l hl
    have : l = [] := List.length_eq_zero_iff.mp (by omega)
    subst this
    simp
  | succ m ih =>
    intro l hl
    cases l with
    | nil => simp
    | cons a t =>
      rw [List.eraseDups_cons, List.nodup_cons]
      refine ⟨?_, ih _ ?_⟩
      · rw [List.mem_eraseDups, List.mem_filter]
        simp
      · have := List.length_filter_le (fun b => !b == a) t
        simp only [List.length_cons] at hl
        omega

theorem mem_combos {α : Type} (vals : List α) (k : Nat) (ps : List α) :
    ps ∈ combos vals k ↔ ps.length = k + 1 ∧ ∀ p ∈ ps, p ∈ vals := by
  induction k generalizing ps with
  | zero =>
    simp only [combos, List.mem_map]
    constructor
    · rintro ⟨v, hv, rfl⟩
      exact ⟨rfl, by simpa using hv⟩
    · rintro ⟨hl, hm⟩
      match ps, hl with
      | [v], _ => exact ⟨v, hm v List.mem_cons_self, rfl⟩
  | succ k ih =>
    simp only [combos, List.mem_flatMap, List.mem_map]
    constructor
    · rintro ⟨v1, hv1, v2, hv2, rfl⟩
      obtain ⟨h1, h2⟩ := (ih v1).mp hv1
      refine ⟨by simp [h1], ?_⟩
      intro p hp
      rcases List.mem_append.mp hp with hp | hp
      · exact h2 p hp
      · have : p = v2 := by simpa using hp
        exact this ▸ hv2
    · rintro ⟨hl, hm⟩
      have hne : ps ≠ [] := by
        intro h
        rw [h] at hl
        simp at hl
      refine ⟨ps.dropLast, (ih _).mpr ⟨by simp [hl], fun p hp => hm p (List.mem_of_mem_dropLast hp)⟩,
        ps.getLast hne, hm _ (List.getLast_mem hne), List.dropLast_append_getLast hne⟩

theorem toZ_ne_I (p : Pauli) : toZ p ≠ Pauli.I := by cases p <;> simp [toZ]

theorem toZ_of_ne_I (p : Pauli) (h : p ≠ Pauli.I) : toZ p = p := by cases p <;> simp_all [toZ]

/-- the settings the code requests are exactly the strings over `{X, Y, Z}` of length `n` -/
theorem mem_requiredSet {n : Nat} (hn : 0 < n) (s : Meas) :
    s ∈ requiredSet n ↔ s ∈ requiredSpec n := by
  unfold requiredSet requiredSpec tomoMeasurements combineAll
  simp only [Bool.false_eq_true, if_false]
  rw [List.mem_eraseDups, List.mem_map, mem_combos]
  constructor
  · rintro ⟨c, hc, rfl⟩
    obtain ⟨hl, _⟩ := (mem_combos _ _ _).mp hc
    refine ⟨by simp [hl], ?_⟩
    intro p hp
    obtain ⟨q, _, rfl⟩ := List.mem_map.mp hp
    cases q <;> simp [toZ]
  · rintro ⟨hl, hm⟩
    refine ⟨s, (mem_combos _ _ _).mpr ⟨hl, ?_⟩, ?_⟩
    · intro p hp
      have := hm p hp
      simp only [Pauli.all]
      simp only [List.mem_cons, List.not_mem_nil, or_false] at this ⊢
      tauto
    · conv_rhs => rw [← List.map_id s]
      apply List.map_congr_left
      intro p hp
      have := hm p hp
      apply toZ_of_ne_I
      intro h
      subst h
      simp at this

theorem requiredSet_nodup (n : Nat) : (requiredSet n).Nodup :=
  nodup_eraseDups _ _ (le_refl _)

/-- every measurement string is served by a requested setting, for any enumeration `order` of
the required settings -/
theorem cover_of_perm {n : Nat} {order : List Meas} (hp : order.Perm (requiredSet n)) :
    ∀ c ∈ tomoMeasurements n, c.map toZ ∈ order := by
  intro c hc
  rw [hp.mem_iff]
  unfold requiredSet
  rw [List.mem_eraseDups]
  exact List.mem_map_of_mem hc

/-! ### rejection clauses -/

theorem process_length_mismatch (i : K) (n : Nat) (order : List Meas) (rs : List (Res K))
    (h : order.length ≠ rs.length) : process i n order rs = .error .value := by
  unfold process
  simp only [h, ne_eq, not_false_eq_true, if_true]
  rfl

end LW.Tomo
