/-
  LW.Proofs.Reach — every circuit constructible through the API satisfies the hypotheses of the
  C01 / C02 / C09 theorems (proofs).
-/
import LW.Proofs.ReachDef
import LW.Proofs.ReachAdd
import LW.Proofs.ReachRewrite
import LW.Proofs.ReachCalls
import LW.Proofs.C01
import LW.Proofs.C02
import LW.Proofs.C09

set_option linter.unusedSectionVars false

namespace LW.Proofs.Reach

open LW

variable {K : Type} [CommRing K] [StarRing K]

/-- the combined invariant carried through the induction on `Reach` -/
structure Inv (c : Circ K) : Prop where
  wf : c.WF
  spec : SpecWf c.n c.spec
  grp : SpecGroupOk c.spec

theorem reach_inv (c : Circ K) (h : Reach c) : Inv c := by
  induction h with
  | new n =>
    exact ⟨C02.new_WF n, (fun c hc => by cases hc), (fun c hc => by cases hc)⟩
  | unitary u hu =>
    have hw : SpecWf u.n [Comp.prim (Prim.unitary 0 u)] := by
      intro c hc
      rw [List.mem_singleton] at hc; subst hc
      exact ⟨by omega, hu⟩
    refine ⟨⟨List.nodup_nil, List.nodup_nil, ?_, ?_, rfl, List.nodup_nil, ?_, SpecWf.modes_lt hw⟩,
      hw, ?_⟩
    · intro k hk; cases hk
    · intro k hk; cases hk
    · intro k hk; cases hk
    · intro c hc
      rw [List.mem_singleton] at hc; subst hc
      trivial
  | @bs c c' m1 m2 cs cv l _ hcs hl hok ih =>
    obtain ⟨hwf', -⟩ := (C02.prim_calls_avoid_ancillas c c' ih.wf).1 m1 m2 cs cv l hok
    obtain ⟨-, hsw⟩ := (C01.accepted_calls_wf c c' ih.spec).1 m1 m2 cs cv l hcs.1 hcs.2.1 hcs.2.2
      (fun ab e => hl ab e) hok
    exact ⟨hwf', hsw, bs_grp c c' ih.grp m1 m2 cs cv l hok⟩
  | @ps c c' m p l _ hp hl hok ih =>
    obtain ⟨hwf', -⟩ := (C02.prim_calls_avoid_ancillas c c' ih.wf).2.1 m p l hok
    obtain ⟨-, hsw⟩ := (C01.accepted_calls_wf c c' ih.spec).2.1 m p l hp (fun ab e => hl ab e) hok
    exact ⟨hwf', hsw, ps_grp c c' ih.grp m p l hok⟩
  | @loss c c' m ab _ hab hok ih =>
    obtain ⟨hwf', -⟩ := (C02.prim_calls_avoid_ancillas c c' ih.wf).2.2.1 m ab hok
    obtain ⟨-, hsw⟩ := (C01.accepted_calls_wf c c' ih.spec).2.2.1 m ab hab.1 hab.2.1 hab.2.2 hok
    exact ⟨hwf', hsw, loss_grp c c' ih.grp m ab hok⟩
  | @barrier c c' ms _ hok ih =>
    obtain ⟨hwf', -⟩ := (C02.prim_calls_avoid_ancillas c c' ih.wf).2.2.2.1 ms hok
    obtain ⟨-, hsw⟩ := (C01.accepted_calls_wf c c' ih.spec).2.2.2.1 ms hok
    exact ⟨hwf', hsw, barrier_grp c c' ih.grp ms hok⟩
  | @swaps c c' sw _ hok ih =>
    obtain ⟨hwf', -⟩ := (C02.prim_calls_avoid_ancillas c c' ih.wf).2.2.2.2 sw hok
    obtain ⟨-, hsw⟩ := (C01.accepted_calls_wf c c' ih.spec).2.2.2.2 sw hok
    exact ⟨hwf', hsw, modeSwaps_grp c c' ih.grp sw hok⟩
  | @herald c c' k i o _ hok ih =>
    obtain ⟨hwf', hn, -⟩ := C02.herald_preserves_WF c c' ih.wf k i o hok
    have hspec : c'.spec = c.spec := by
      unfold Circ.herald at hok
      cases hi : c.modeInRange (c.mapMode i) with
      | error e => simp [hi, bind, Except.bind] at hok
      | ok a =>
        cases ho : c.modeInRange (c.mapMode o) with
        | error e => simp [hi, ho, bind, Except.bind] at hok
        | ok b =>
          simp only [hi, ho, bind, Except.bind] at hok
          split at hok
          · cases hok
          · split at hok
            · cases hok
            · injection hok with hok; subst hok; rfl
    exact ⟨hwf', by rw [hn, hspec]; exact ih.spec, by rw [hspec]; exact ih.grp⟩
  | @add c s c' m g _ _ hok ihc ihs =>
    obtain ⟨hwf', -⟩ := C02.add_preserves_WF c s c' ihc.wf ihs.wf m g hok
    obtain ⟨h1, h2⟩ := add_spec_ok c s c' ihs.wf ihc.spec ihc.grp ihs.spec ihs.grp m g hok
    exact ⟨hwf', h1, h2⟩
  | @plus a b c' _ _ hok iha ihb =>
    obtain ⟨h0, h1, h2⟩ := plus_ok a b c' iha.spec iha.grp ihb.spec ihb.grp hok
    exact ⟨h0, h1, h2⟩
  | @unpack c _ ih =>
    exact ⟨unpackGroups_WF c ih.wf, SpecWf.unpack ih.spec, specGroupOk_unpack _⟩
  | @compress c _ ih =>
    obtain ⟨h1, h2⟩ := compressSwaps_ok c.n c.spec ih.spec ih.grp
    exact ⟨WF_of_spec c ih.wf _ h1, h1, h2⟩
  | @nonadj c _ ih =>
    obtain ⟨h1, h2⟩ := convertNonAdj_ok c.n c.spec ih.spec ih.grp
    exact ⟨WF_of_spec c ih.wf _ h1, h1, h2⟩

/-! ### the property theorems -/

theorem reach_WF (c : Circ K) (h : Reach c) : c.WF := (reach_inv c h).wf

theorem reach_SpecWf (c : Circ K) (h : Reach c) : SpecWf c.n c.spec := (reach_inv c h).spec

theorem reach_SpecGroupOk (c : Circ K) (h : Reach c) : SpecGroupOk c.spec := (reach_inv c h).grp

theorem reach_unitary (i : K) (hi : IsImagUnit i) (c : Circ K) (h : Reach c) :
    IsUnitary (c.Ufull i) :=
  C01.Ufull_unitary i hi c.n c.spec (reach_SpecWf c h)

theorem reach_compress (i : K) (c : Circ K) (h : Reach c) :
    c.compress.Ufull i = c.Ufull i :=
  C09.compress_compile_partial i c.n c.spec (reach_SpecWf c h) (reach_SpecGroupOk c h)

/-! ### non-vacuity: a concrete constructible circuit -/

section NonVacuity

private theorem unitPair10 : UnitPair ((1, 0) : Int × Int) := by
  refine ⟨by decide, ?_, ?_⟩ <;> simp

/-- a two-mode heralded sub-circuit: a beam splitter with mode 1 heralded -/
private def subC : Circ Int :=
  { n := 2, spec := [.prim (.bs 0 1 1 0 .rx)], inHer := [(1, 0)], outHer := [(1, 0)],
    extIn := [(1, 0)], extOut := [(1, 0)] }

private theorem subC_reach : Reach subC := by
  have h1 : Reach ({ n := 2, spec := [.prim (.bs 0 1 1 0 .rx)] } : Circ Int) :=
    Reach.bs (c := Circ.new 2) 0 1 (1, 0) .rx none (Reach.new 2) unitPair10
      (by intro ab h; cases h) rfl
  exact Reach.herald 0 1 1 h1 rfl

/-- a three-mode parent with a non-adjacent beam splitter, the sub-circuit added as a group,
then rewritten -/
private theorem ex_reach : ∃ c : Circ Int, Reach c ∧ c.n = 4 ∧ c.internal = [2] ∧
    c.spec.length = 4 := by
  have h1 : Reach ({ n := 3, spec := [.prim (.bs 0 2 1 0 .h)] } : Circ Int) :=
    Reach.bs (c := Circ.new 3) 0 2 (1, 0) .h none (Reach.new 3) unitPair10
      (by intro ab h; cases h) rfl
  have h2 := Reach.add (c' := _) 1 true h1 subC_reach rfl
  exact ⟨_, Reach.nonadj h2, by decide, by decide, by decide⟩

example : ∃ c : Circ Int, Reach c ∧ c.WF ∧ SpecWf c.n c.spec ∧ SpecGroupOk c.spec ∧ c.n = 4 := by
  obtain ⟨c, hc, hn, -, -⟩ := ex_reach
  exact ⟨c, hc, reach_WF c hc, reach_SpecWf c hc, reach_SpecGroupOk c hc, hn⟩

end NonVacuity

end LW.Proofs.Reach
