/-
  C07 limit statements, part D: the rejection loop of `sample_N_inputs` as a whole.

  One pass of the loop body is `iterOutcome`: select an output state with one variate, apply the
  detector with the following tape variates, then keep the herald-free state if the heralds, the
  post-selection and `min_detection` are met.  If the outcomes of the passes are pairwise
  independent and identically distributed (the renewal property of a loop that consumes an i.i.d.
  tape in order - ASSUMED here, see DESIGN 13.8), then almost surely
    * the accepted fraction tends to the probability that one pass is accepted, and
    * the frequency of a state `s` AMONG THE ACCEPTED passes tends to the conditional probability
      `P(pass returns s) / P(pass accepted)`.
-/
import Mathlib.Probability.StrongLaw
import LW.Model.Sampling

namespace LW.Proofs.C07

open MeasureTheory ProbabilityTheory Filter Topology

/-- one pass of the loop body of `Sampler.sample_N_inputs` -/
def iterOutcome (dist : List (FState × Rat)) (d : Det) (outHer : Dict) (rules : List Rule)
    (minDet : Nat) (u : Rat) (tape : List Rat) : Option FState × List Rat :=
  let s := (dist.getD (inverseCdf (dist.map (·.2)) u) ([], 0)).1
  let (ds, tp) := detectorSample d s tape
  (acceptState outHer rules minDet ds, tp)

/-- the loop body as a step function on `(accepted so far, remaining tape)` -/
def loopStep (dist : List (FState × Rat)) (d : Det) (outHer : Dict) (rules : List Rule)
    (minDet : Nat) (acc : List FState × List Rat) (u : Rat) : List FState × List Rat :=
  (acc.1 ++ (iterOutcome dist d outHer rules minDet u acc.2).1.toList,
   (iterOutcome dist d outHer rules minDet u acc.2).2)

/-- `sample_N_inputs` is the fold of `loopStep` -/
theorem sampleNInputs_eq_fold (dist : List (FState × Rat)) (d : Det) (outHer : Dict)
    (rules : List Rule) (minDet : Nat) (us : List Rat) (tape : List Rat) :
    sampleNInputs dist d outHer rules minDet us tape
      = (us.foldl (loopStep dist d outHer rules minDet) ([], tape)).1 := by
  unfold sampleNInputs
  have hf : (fun (acc : List FState × List Rat) u =>
      match detectorSample d (dist.getD (inverseCdf (dist.map (·.2)) u) ([], 0)).1 acc.2 with
      | (ds, tp) =>
        match acceptState outHer rules minDet ds with
        | some hs => (acc.1 ++ [hs], tp)
        | none => (acc.1, tp)) = loopStep dist d outHer rules minDet := by
    funext acc u
    unfold loopStep iterOutcome
    simp only
    cases acceptState outHer rules minDet
        (detectorSample d (dist.getD (inverseCdf (dist.map (·.2)) u) ([], 0)).1 acc.2).1 <;> simp
  rw [← hf]
  rfl

theorem fold_loopStep_acc (dist : List (FState × Rat)) (d : Det) (outHer : Dict)
    (rules : List Rule) (minDet : Nat) (us : List Rat) (acc : List FState) (tape : List Rat) :
    (us.foldl (loopStep dist d outHer rules minDet) (acc, tape)).1
      = acc ++ (us.foldl (loopStep dist d outHer rules minDet) ([], tape)).1 := by
  induction us generalizing acc tape with
  | nil => simp
  | cons u us ih =>
    simp only [List.foldl_cons]
    rw [show loopStep dist d outHer rules minDet (acc, tape) u
        = (acc ++ (iterOutcome dist d outHer rules minDet u tape).1.toList,
           (iterOutcome dist d outHer rules minDet u tape).2) from rfl,
      show loopStep dist d outHer rules minDet ([], tape) u
        = ([] ++ (iterOutcome dist d outHer rules minDet u tape).1.toList,
           (iterOutcome dist d outHer rules minDet u tape).2) from rfl,
      ih (acc ++ _), ih ([] ++ _)]
    simp

/-- **renewal decomposition**: `sample_N_inputs` on variates `u :: us` is the outcome of one pass
followed by `sample_N_inputs` on `us` with the tape the pass left -/
theorem sampleNInputs_cons (dist : List (FState × Rat)) (d : Det) (outHer : Dict)
    (rules : List Rule) (minDet : Nat) (u : Rat) (us : List Rat) (tape : List Rat) :
    sampleNInputs dist d outHer rules minDet (u :: us) tape
      = (iterOutcome dist d outHer rules minDet u tape).1.toList
        ++ sampleNInputs dist d outHer rules minDet us
            (iterOutcome dist d outHer rules minDet u tape).2 := by
  rw [sampleNInputs_eq_fold, sampleNInputs_eq_fold, List.foldl_cons,
    show loopStep dist d outHer rules minDet ([], tape) u
        = ([] ++ (iterOutcome dist d outHer rules minDet u tape).1.toList,
           (iterOutcome dist d outHer rules minDet u tape).2) from rfl,
    fold_loopStep_acc]
  simp

/-! ### strong law for the passes -/

variable {Ω : Type*} [MeasurableSpace Ω] {μ : Measure Ω} [IsProbabilityMeasure μ]
variable {α : Type*} [MeasurableSpace α]

/-- frequencies of an event of i.i.d. outcomes converge to its probability -/
theorem event_frequency_converges (Y : ℕ → Ω → α) (hmeas : ∀ i, Measurable (Y i))
    (hindep : Pairwise fun i j => IndepFun (Y i) (Y j) μ)
    (hident : ∀ i, IdentDistrib (Y i) (Y 0) μ μ) (A : Set α) (hA : MeasurableSet A)
    [DecidablePred (· ∈ A)] :
    ∀ᵐ ω ∂μ, Tendsto
      (fun n : ℕ => (((Finset.range n).filter fun i => Y i ω ∈ A).card : ℝ) / n)
      atTop (𝓝 (μ.real (Y 0 ⁻¹' A))) := by
  set g : α → ℝ := Set.indicator A 1 with hg
  have hgm : Measurable g := measurable_one.indicator hA
  have hint : Integrable (g ∘ Y 0) μ := by
    have : g ∘ Y 0 = Set.indicator (Y 0 ⁻¹' A) 1 := by
      ext ω
      by_cases h : Y 0 ω ∈ A <;> simp [hg, h]
    rw [this]
    exact (integrable_const (1 : ℝ)).indicator (hmeas 0 hA)
  have hind : Pairwise fun i j => IndepFun (g ∘ Y i) (g ∘ Y j) μ :=
    fun i j hij => (hindep hij).comp hgm hgm
  have hid : ∀ i, IdentDistrib (g ∘ Y i) (g ∘ Y 0) μ μ := fun i => (hident i).comp hgm
  have hmean : μ[g ∘ Y 0] = μ.real (Y 0 ⁻¹' A) := by
    have : g ∘ Y 0 = Set.indicator (Y 0 ⁻¹' A) 1 := by
      ext ω
      by_cases h : Y 0 ω ∈ A <;> simp [hg, h]
    rw [this, integral_indicator_one (hmeas 0 hA)]
  have hslln := strong_law_ae (fun i => g ∘ Y i) hint hind hid
  rw [hmean] at hslln
  filter_upwards [hslln] with ω hω
  refine hω.congr fun n => ?_
  simp only [Function.comp_apply, hg, Set.indicator_apply, Pi.one_apply, Finset.sum_boole,
    smul_eq_mul]
  rw [div_eq_inv_mul]

/-- **accepted fraction and conditional frequencies of the rejection loop**: for pairwise
independent, identically distributed pass outcomes `Y i : Option β` (`none` = rejected), almost
surely the accepted fraction tends to `P(accepted)` and, when that is positive, the share of `s`
among the accepted passes tends to `P(Y = some s) / P(accepted)` -/
theorem rejection_loop_frequencies {β : Type*} [MeasurableSpace (Option β)]
    [MeasurableSingletonClass (Option β)] [DecidableEq β]
    (Y : ℕ → Ω → Option β) (hmeas : ∀ i, Measurable (Y i))
    (hindep : Pairwise fun i j => IndepFun (Y i) (Y j) μ)
    (hident : ∀ i, IdentDistrib (Y i) (Y 0) μ μ) (s : β)
    (hpos : 0 < μ.real (Y 0 ⁻¹' {o | o.isSome})) :
    ∀ᵐ ω ∂μ,
      Tendsto (fun n : ℕ => (((Finset.range n).filter fun i => (Y i ω).isSome).card : ℝ) / n)
        atTop (𝓝 (μ.real (Y 0 ⁻¹' {o | o.isSome}))) ∧
      Tendsto (fun n : ℕ =>
          (((Finset.range n).filter fun i => Y i ω = some s).card : ℝ)
            / ((Finset.range n).filter fun i => (Y i ω).isSome).card)
        atTop (𝓝 (μ.real (Y 0 ⁻¹' {some s}) / μ.real (Y 0 ⁻¹' {o | o.isSome}))) := by
  have hA : MeasurableSet {o : Option β | o.isSome} := by
    have : {o : Option β | o.isSome} = {none}ᶜ := by
      ext o; cases o <;> simp
    rw [this]
    exact (measurableSet_singleton _).compl
  have h1 := event_frequency_converges Y hmeas hindep hident {o | o.isSome} hA
  have h2 := event_frequency_converges Y hmeas hindep hident {some s} (measurableSet_singleton _)
  filter_upwards [h1, h2] with ω hω1 hω2
  refine ⟨hω1, ?_⟩
  have hdiv := hω2.div hω1 hpos.ne'
  refine hdiv.congr' ?_
  filter_upwards [eventually_gt_atTop 0] with n hn
  have hn' : (n : ℝ) ≠ 0 := by positivity
  simp only [Set.mem_singleton_iff, Set.mem_setOf_eq, Pi.div_apply]
  rw [div_div_div_cancel_right₀ hn']

end LW.Proofs.C07
