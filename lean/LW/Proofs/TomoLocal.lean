/-
  LW.Proofs.TomoLocal — the single-qubit identities behind state tomography and their lift to
  n qubits:
    * `loc_pauli`      Σ_y (±1)_y U_P[y,x] conj U_P[y,x'] = P[x',x]     (U_P† Z U_P = P for X, Y, Z)
    * `loc_unitary`    Σ_y U_s[y,x] conj U_s[y,x'] = δ                  (basis changes are unitary)
    * `pauli_complete1` Σ_P P[x',x] P[c,d] = 2 δ_{x'd} δ_{xc}           (Paulis are a basis)
    * `sum_factor`     the n-qubit sum over outcomes factorises over the qubits
    * `pauli_complete` the n-qubit completeness relation (Kronecker induction)
-/
import LW.Proofs.TomoKron

open scoped BigOperators

namespace LW.Tomo

variable {K : Type} [Field K] [StarRing K]

set_option linter.unusedSectionVars false

/-- algebraic constraints on the two float constants of the code: `i = 1j`, `h = 1/2**0.5` -/
structure Consts (i h : K) : Prop where
  i_sq : i * i = -1
  i_star : star i = -i
  h_star : star h = h
  h_sq : h * h + h * h = 1

/-! ### entries of the concrete matrices -/

theorem get_mul2 (A B : M K) (hA : A.n = 2) {r c : Nat} (hr : r < 2) (hc : c < 2) :
    (A.mul B).get r c = A.get r 0 * B.get 0 c + A.get r 1 * B.get 1 c := by
  rw [M.get_mul A B (by omega) (by omega), hA, sum_range_two]

theorem measU_n (i h : K) (s : Pauli) : (measU i h s).n = 2 := by
  cases s <;> rfl

theorem pauliM_n (i : K) (s : Pauli) : (pauliM i s).n = 2 := by
  cases s <;> rfl

theorem one2_get {r c : Nat} (hr : r < 2) (hc : c < 2) :
    (M.one 2 : M K).get r c = if r = c then 1 else 0 := M.get_one hr hc

/-- `H·Z·S = h·[[1, -i], [1, i]]` -/
theorem measU_Y_get (i h : K) {r c : Nat} (hr : r < 2) (hc : c < 2) :
    (measU i h .Y).get r c = (mat2 h (-(h * i)) h (h * i)).get r c := by
  unfold measU
  rw [get_mul2 _ _ (by rfl) hr hc, get_mul2 _ _ (by rfl) (by omega) hc,
    get_mul2 _ _ (by rfl) (by omega) hc]
  interval_cases r <;> interval_cases c <;> simp [hM, zM, sM]

/-- eigenvalue sign of outcome digit `y` under operator `g` -/
def sgn (g : Pauli) (y : Nat) : K := if g = .I ∨ y = 0 then 1 else -1

/-- `Σ_y sgn_g(y) · U_s[y, x] · conj U_s[y, x']` -/
def loc (i h : K) (g s : Pauli) (x' x : Nat) : K :=
  ∑ y ∈ Finset.range 2, sgn g y * (measU i h s).get y x * star ((measU i h s).get y x')

theorem loc_pauli {i h : K} (hc : Consts i h) (g : Pauli) {x' x : Nat} (hx' : x' < 2) (hx : x < 2) :
    loc i h g (toZ g) x' x = (pauliM i g).get x' x := by
  unfold loc
  rw [sum_range_two]
  have h2 := hc.h_sq
  cases g
  · -- X : basis change H
    simp only [toZ, measU, hM, sgn]
    interval_cases x' <;> interval_cases x <;>
      simp [pauliM, hc.h_star] <;> linear_combination h2
  · -- Y : basis change H·Z·S
    simp only [toZ, sgn]
    rw [measU_Y_get i h (by omega) hx, measU_Y_get i h (by omega) hx',
      measU_Y_get i h (by omega) hx, measU_Y_get i h (by omega) hx']
    have hi := hc.i_sq
    interval_cases x' <;> interval_cases x <;>
      simp [pauliM, hc.h_star, hc.i_star] <;>
      first
        | linear_combination (-i) * h2
        | linear_combination i * h2
        | linear_combination h2 - (h * h) * hi
  · -- Z
    simp only [toZ, measU, sgn]
    interval_cases x' <;> interval_cases x <;> simp [pauliM, M.get_one]
  · -- I (measured in the Z setting)
    simp only [toZ, measU, sgn]
    interval_cases x' <;> interval_cases x <;> simp [pauliM, M.get_one]

theorem loc_unitary {i h : K} (hc : Consts i h) (s : Pauli) {x' x : Nat} (hx' : x' < 2) (hx : x < 2) :
    loc i h .I s x' x = if x' = x then 1 else 0 := by
  unfold loc
  rw [sum_range_two]
  have h2 := hc.h_sq
  cases s
  · simp only [measU, hM, sgn]
    interval_cases x' <;> interval_cases x <;> simp [hc.h_star] <;> linear_combination h2
  · simp only [sgn]
    rw [measU_Y_get i h (by omega) hx, measU_Y_get i h (by omega) hx',
      measU_Y_get i h (by omega) hx, measU_Y_get i h (by omega) hx']
    have hi := hc.i_sq
    interval_cases x' <;> interval_cases x <;> simp [hc.h_star, hc.i_star] <;>
      first
        | linear_combination h2
        | linear_combination h2 - (h * h + h * h) * hi
        | linear_combination h2 - (h * h) * hi
        | ring
  · simp only [measU, sgn]
    interval_cases x' <;> interval_cases x <;> simp [M.get_one]
  · simp only [measU, sgn]
    interval_cases x' <;> interval_cases x <;> simp [M.get_one]

/-- single-qubit completeness of the Pauli basis -/
theorem pauli_complete1 {i : K} (hi : i * i = -1) {x' x c d : Nat} (hx' : x' < 2) (hx : x < 2)
    (hc : c < 2) (hd : d < 2) :
    ((Pauli.all.map fun p => (pauliM i p).get x' x * (pauliM i p).get c d).sum : K) =
      if x' = d ∧ x = c then 1 + 1 else 0 := by
  simp only [Pauli.all, List.map_cons, List.map_nil, List.sum_cons, List.sum_nil, pauliM]
  interval_cases x' <;> interval_cases x <;> interval_cases c <;> interval_cases d <;>
    simp <;> first | linear_combination hi | linear_combination (-1 : K) * hi

/-! ### n qubits -/

/-- product of the eigenvalue signs over the digits of `b` (list from the last qubit) -/
def sgnRev : List Pauli → Nat → K
  | [] => fun _ => 1
  | g :: r => fun b => sgnRev r (b / 2) * sgn g (b % 2)

/-- the sum over all outcomes factorises over the qubits -/
theorem sum_factor (i h : K) (gs : List (Pauli × Pauli)) (a a' : Nat) :
    ∑ b ∈ Finset.range (2 ^ gs.length),
        sgnRev (gs.map (·.1)) b
          * entryRev (gs.map fun p => (measU i h p.2).get) b a
          * star (entryRev (gs.map fun p => (measU i h p.2).get) b a')
      = entryRev (gs.map fun p => loc i h p.1 p.2) a' a := by
  induction gs generalizing a a' with
  | nil => simp [sgnRev, entryRev]
  | cons p r ih =>
    simp only [List.length_cons, pow_succ, List.map_cons, entryRev]
    rw [sum_range_mul_two, ← ih (a / 2) (a' / 2), Finset.sum_mul]
    refine Finset.sum_congr rfl fun q _ => ?_
    simp only [sgnRev, two_mul_div, two_mul_mod, two_mul_add_one_div, two_mul_add_one_mod,
      star_mul', loc, sum_range_two]
    ring

theorem sgnRev_allI (r : List Pauli) (hr : ∀ g ∈ r, g = Pauli.I) (b : Nat) :
    (sgnRev r b : K) = 1 := by
  induction r generalizing b with
  | nil => rfl
  | cons g t ih =>
    simp only [sgnRev]
    rw [ih (fun g' hg' => hr g' (List.mem_cons_of_mem _ hg')), hr g List.mem_cons_self]
    simp [sgn]

/-- Kronecker delta on indices below `2^k`, digit by digit -/
theorem entryRev_delta (l : List Pauli) {a b : Nat} (ha : a < 2 ^ l.length) (hb : b < 2 ^ l.length) :
    entryRev (l.map fun _ => fun (x' x : Nat) => if x' = x then (1 : K) else 0) a b =
      if a = b then 1 else 0 := by
  induction l generalizing a b with
  | nil =>
    simp only [List.length_nil, pow_zero, Nat.lt_one_iff] at ha hb
    subst ha; subst hb; simp [entryRev]
  | cons g t ih =>
    rw [List.length_cons, pow_succ] at ha hb
    simp only [List.map_cons, entryRev]
    rw [ih (by omega) (by omega)]
    by_cases hab : a = b
    · subst hab; simp
    · have : ¬ (a / 2 = b / 2 ∧ a % 2 = b % 2) := by omega
      by_cases h1 : a / 2 = b / 2
      · have h2 : a % 2 ≠ b % 2 := fun h2 => this ⟨h1, h2⟩
        simp [hab, h2]
      · simp [hab, h1]

/-- `2ⁿ` of the model is `2ⁿ` -/
theorem twoPow_eq (n : Nat) : (twoPow n : K) = (1 + 1) ^ n := by
  induction n with
  | zero => simp [twoPow]
  | succ n ih => simp [twoPow, ih, pow_succ]

/-- n-qubit completeness of the Pauli strings enumerated by `_combine_all` -/
theorem pauli_complete {i : K} (hi : i * i = -1) (k : Nat) {a' a c d : Nat}
    (ha' : a' < 2 ^ (k + 1)) (ha : a < 2 ^ (k + 1)) (hc : c < 2 ^ (k + 1)) (hd : d < 2 ^ (k + 1)) :
    (((combos Pauli.all k).map fun ps =>
        entryRev (ps.reverse.map fun p => (pauliM i p).get) a' a
          * entryRev (ps.reverse.map fun p => (pauliM i p).get) c d).sum : K) =
      if a' = d ∧ a = c then (1 + 1) ^ (k + 1) else 0 := by
  induction k generalizing a' a c d with
  | zero =>
    simp only [zero_add, pow_one] at ha' ha hc hd
    simp only [combos, List.map_map, Function.comp_def, List.reverse_cons, List.reverse_nil,
      List.nil_append, List.map_cons, List.map_nil, entryRev, one_mul, zero_add, pow_one]
    rw [Nat.mod_eq_of_lt ha', Nat.mod_eq_of_lt ha, Nat.mod_eq_of_lt hc, Nat.mod_eq_of_lt hd]
    exact pauli_complete1 hi ha' ha hc hd
  | succ k ih =>
    rw [pow_succ] at ha' ha hc hd
    simp only [combos]
    rw [sum_map_flatMap]
    have step : ∀ v1 : List Pauli,
        ((Pauli.all.map fun v2 => v1 ++ [v2]).map fun ps =>
          entryRev (ps.reverse.map fun p => (pauliM i p).get) a' a
            * entryRev (ps.reverse.map fun p => (pauliM i p).get) c d).sum
        = (entryRev (v1.reverse.map fun p => (pauliM i p).get) (a' / 2) (a / 2)
            * entryRev (v1.reverse.map fun p => (pauliM i p).get) (c / 2) (d / 2))
          * (if a' % 2 = d % 2 ∧ a % 2 = c % 2 then 1 + 1 else 0) := by
      intro v1
      rw [← pauli_complete1 hi (Nat.mod_lt _ (by omega)) (Nat.mod_lt _ (by omega))
        (Nat.mod_lt _ (by omega)) (Nat.mod_lt _ (by omega)), List.map_map, ← List.sum_map_mul_left]
      congr 1
      apply List.map_congr_left
      intro p _
      simp only [Function.comp_def, List.reverse_append, List.reverse_cons, List.reverse_nil,
        List.nil_append, List.singleton_append, List.map_cons, entryRev]
      ring
    rw [List.map_congr_left (fun v1 _ => step v1), List.sum_map_mul_right,
      ih (by omega) (by omega) (by omega) (by omega)]
    by_cases h1 : a' = d ∧ a = c
    · obtain ⟨rfl, rfl⟩ := h1
      simp [pow_succ]
    · have : ¬ ((a' / 2 = d / 2 ∧ a / 2 = c / 2) ∧ (a' % 2 = d % 2 ∧ a % 2 = c % 2)) := by omega
      rw [if_neg h1]
      by_cases h2 : a' / 2 = d / 2 ∧ a / 2 = c / 2
      · have h3 : ¬ (a' % 2 = d % 2 ∧ a % 2 = c % 2) := fun h3 => this ⟨h2, h3⟩
        rw [if_neg h3, mul_zero]
      · rw [if_neg h2, zero_mul]

end LW.Tomo
