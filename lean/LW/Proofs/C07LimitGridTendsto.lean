/-
  C07 limit statements, part A (topological form): the grid frequency tends to the normalised
  weight, as a limit of real numbers.
-/
import Mathlib.Analysis.SpecificLimits.Basic
import LW.Proofs.C07LimitGrid

namespace LW.Proofs.C07

open Filter Topology

/-- CONVERGENCE: `gridCount ps N k / N → p_k / Σp` as `N → ∞` (in `ℝ`) -/
theorem inverseCdf_grid_frequency_tendsto (ps : List Rat) (hnn : ∀ p ∈ ps, 0 ≤ p)
    (htot : 0 < ps.sum) (k : Nat) (hk : k < ps.length) :
    Tendsto (fun N : ℕ => (((gridCount ps N k : Rat) / N : Rat) : ℝ)) atTop
      (𝓝 ((ps.getD k 0 / ps.sum : Rat) : ℝ)) := by
  rw [tendsto_iff_dist_tendsto_zero]
  refine squeeze_zero' (Eventually.of_forall fun _ => dist_nonneg) ?_
    tendsto_one_div_atTop_nhds_zero_nat
  filter_upwards [eventually_gt_atTop 0] with N hN
  rw [Real.dist_eq]
  have h := inverseCdf_grid_frequency ps hnn htot k hk N hN
  have h' : (((|(gridCount ps N k : Rat) / N - ps.getD k 0 / ps.sum| : Rat)) : ℝ) ≤
      ((1 / N : Rat) : ℝ) := by exact_mod_cast h
  have e : (((|(gridCount ps N k : Rat) / N - ps.getD k 0 / ps.sum| : Rat)) : ℝ) =
      |(((gridCount ps N k : Rat) / N : Rat) : ℝ) - ((ps.getD k 0 / ps.sum : Rat) : ℝ)| := by
    push_cast; rfl
  rw [← e]
  refine le_trans h' ?_
  push_cast
  exact le_of_eq rfl

end LW.Proofs.C07
