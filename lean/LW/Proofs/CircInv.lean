/-
  LW.Proofs.CircInv — the bookkeeping invariant of a `Circ` (C02) and the modes a component
  touches.  Definitions only; lemmas are in LW/Proofs/C02.lean.
-/
import LW.Model.Circuit
import LW.Model.Optic

namespace LW

variable {K : Type}

/-- modes a leaf component reads or writes -/
def Prim.modes : Prim K → List Nat
  | .bs m1 m2 .. => [m1, m2]
  | .ps m _ => [m]
  | .loss m .. => [m]
  | .barrier ms => ms
  | .swaps σ => σ.keys ++ σ.vals
  | .unitary m u => (List.range u.n).map (· + m)

def Comp.modes : Comp K → List Nat
  | .prim p => p.modes
  | .group cs .. => cs.flatMap Prim.modes

/-- bookkeeping invariant of a circuit object -/
structure Circ.WF (c : Circ K) : Prop where
  inNodup : c.inHer.keys.Nodup
  outNodup : c.outHer.keys.Nodup
  inLt : ∀ k ∈ c.inHer.keys, k < c.n
  outLt : ∀ k ∈ c.outHer.keys, k < c.n
  lenEq : c.inHer.length = c.outHer.length
  intNodup : c.internal.Nodup
  /-- every ancilla is heralded with the same photon number at input and output -/
  intHer : ∀ a ∈ c.internal, (c.inHer.get? a).isSome ∧ c.inHer.get? a = c.outHer.get? a
  modesLt : ∀ comp ∈ c.spec, ∀ m ∈ comp.modes, m < c.n

/-- number of user-visible (addressable) modes -/
def Circ.ports (c : Circ K) : Nat := c.n - c.internal.length

end LW
