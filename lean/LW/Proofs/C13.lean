/-
  LW.Proofs.C13 — the amplitude-table statement `HasTable`, its executable form, and the tables of
  the fixed multi-qubit gates over the exact towers (kernel decisions in LW/Proofs/C13Tab/*).
-/
import LW.Proofs.C13Tab.CZ
import LW.Proofs.C13Tab.CNOT0
import LW.Proofs.C13Tab.CNOT1
import LW.Proofs.C13Tab.CZH
import LW.Proofs.C13Tab.CNOTH0
import LW.Proofs.C13Tab.CNOTH1
import LW.Proofs.C13Tab.CCZ
import LW.Proofs.C13Tab.CCNOT0
import LW.Proofs.C13Tab.CCNOT1
import LW.Proofs.C13Tab.CCNOT2

namespace LW.Gates

open LW.QF

variable {K : Type} [Add K] [Mul K] [Neg K] [Zero K] [One K]

/-- **The table statement.**  The constructor returns a circuit `c` with `2·nq` user modes such
that, with the heralds of `c` on input and output, from every dual-rail basis input `ib`
  * the amplitude to every dual-rail output `ob` is the common scalar `k` times the named entry
    `G ob ib`, and
  * (`leakFree`) the amplitude to every other state of the user modes with the same photon number
    — i.e. to every other output the heralds accept — is 0.
`rel` is the equality used for scalars: semantic equality `Eqv.eqv` in the exact towers (whose
base ring `ℤ[1/6]` is not stored in canonical form), `=` in a field. -/
def HasTable (rel : K → K → Prop) (i : K) (g : Except Err (Circ K)) (nq : Nat) (k : K)
    (G : List Bool → List Bool → Int) (leakFree : Bool) : Prop :=
  ∃ c, g = .ok c ∧ c.n - c.inHer.length = 2 * nq ∧
    ∀ ib ∈ bitStrings nq,
      (∀ ob ∈ bitStrings nq, rel (gateAmp i c (dualRail ib) (dualRail ob)) (scaleBy k (G ob ib))) ∧
      (leakFree = true → ∀ o ∈ fockStates (2 * nq) nq, isDualRail o = false →
        rel (gateAmp i c (dualRail ib) o) 0)

/-- semantic equality in a tower -/
def eqvRel [Eqv K] (x y : K) : Prop := Eqv.eqv x y = true

theorem hasTable_of_B [Eqv K] (i : K) (g : Except Err (Circ K)) (nq : Nat) (k : K)
    (G : List Bool → List Bool → Int) (leakFree : Bool)
    (h : hasTableB i g nq k G leakFree = true) : HasTable eqvRel i g nq k G leakFree := by
  unfold hasTableB at h
  cases g with
  | error e => simp at h
  | ok c =>
    simp only [Bool.and_eq_true, beq_iff_eq, List.all_eq_true, Bool.or_eq_true,
      Bool.not_eq_eq_eq_not, Bool.not_true] at h
    refine ⟨c, rfl, h.1, fun ib hib => ⟨fun ob hob => (h.2 ib hib).1 ob hob, ?_⟩⟩
    intro hl o ho hnd
    rcases (h.2 ib hib).2 with h1 | h1
    · simp [hl] at h1
    · rcases h1 o ho with h2 | h2
      · simp [hnd] at h2
      · exact h2

/-! ### tables of the fixed gates over the exact towers -/

theorem CZ_table_tower : HasTable eqvRel cCZ.i (CZ cCZ) 2 kCZ namedCZ false :=
  hasTable_of_B _ _ _ _ _ _ tab_CZ
theorem CNOT0_table_tower : HasTable eqvRel cCZ.i (CNOT cCZ 0) 2 kCZ (namedCNOT 0) false :=
  hasTable_of_B _ _ _ _ _ _ tab_CNOT0
theorem CNOT1_table_tower : HasTable eqvRel cCZ.i (CNOT cCZ 1) 2 kCZ (namedCNOT 1) false :=
  hasTable_of_B _ _ _ _ _ _ tab_CNOT1
theorem CZH_table_tower : HasTable eqvRel cCZH.i (CZH cCZH) 2 kCZH namedCZ true :=
  hasTable_of_B _ _ _ _ _ _ tab_CZH
theorem CNOTH0_table_tower : HasTable eqvRel cCZH.i (CNOTH cCZH 0) 2 kCZH (namedCNOT 0) true :=
  hasTable_of_B _ _ _ _ _ _ tab_CNOTH0
theorem CNOTH1_table_tower : HasTable eqvRel cCZH.i (CNOTH cCZH 1) 2 kCZH (namedCNOT 1) true :=
  hasTable_of_B _ _ _ _ _ _ tab_CNOTH1
theorem CCZ_table_tower : HasTable eqvRel cCCZ.i (CCZ cCCZ) 3 kCCZ namedCZ false :=
  hasTable_of_B _ _ _ _ _ _ tab_CCZ
theorem CCNOT0_table_tower : HasTable eqvRel cCCZ.i (CCNOT cCCZ 0) 3 kCCZ (namedCNOT 0) false :=
  hasTable_of_B _ _ _ _ _ _ tab_CCNOT0
theorem CCNOT1_table_tower : HasTable eqvRel cCCZ.i (CCNOT cCCZ 1) 3 kCCZ (namedCNOT 1) false :=
  hasTable_of_B _ _ _ _ _ _ tab_CCNOT1
theorem CCNOT2_table_tower : HasTable eqvRel cCCZ.i (CCNOT cCCZ 2) 3 kCCZ (namedCNOT 2) false :=
  hasTable_of_B _ _ _ _ _ _ tab_CCNOT2

/-- squared moduli of the scalars: `(-1/3)² = 1/9`, `(1/4)² = 1/16`, `k·conj k = 1/72` -/
theorem scalar_sq_tower :
    eqvRel (kCZ * kCZ) (TCZ.ofT2 (T2.ofS ⟨4, 2⟩)) ∧
    eqvRel (kCZH * kCZH) (TCZH.ofT2 (T2.ofS ⟨81, 4⟩)) ∧
    eqvRel (kCCZ * kCCZc) (TCCZ.ofTCZ (TCZ.ofT2 (T2.ofS ⟨3, 3⟩))) := by
  refine ⟨?_, ?_, ?_⟩ <;> (unfold eqvRel; decide +kernel)

/-! ### SWAP instances -/

/-- user state on `n` modes with one photon on each of the listed modes -/
def occ (n : Nat) (ms : List Nat) : List Nat := (List.range n).map fun m => ms.count m

/-- executable form of the SWAP statement for one pair of qubits `q1 = [a0, a1]`, `q2 = [b0, b1]`
over the exact ring `T1`: the constructor succeeds without heralds, and from each of the four
basis inputs (photon on `a_x` and on `b_y`) the amplitude to every two-photon output state is 1 on
the swapped state (photon on `b_x` and on `a_y`) and 0 elsewhere -/
def swapOK (q1 q2 : List Nat) : Bool :=
  match SWAP (K := T1) (q1.map Int.ofNat) (q2.map Int.ofNat) with
  | .error _ => false
  | .ok circ =>
    circ.inHer.isEmpty &&
    [false, true].all fun x => [false, true].all fun y =>
      (fockStates circ.n 2).all fun o =>
        decide (gateAmp c1.i circ (occ circ.n [q1.getD x.toNat 0, q2.getD y.toNat 0]) o =
          if o = occ circ.n [q2.getD x.toNat 0, q1.getD y.toNat 0] then 1 else 0)

theorem SWAP_instances :
    swapOK [0, 1] [2, 3] = true ∧ swapOK [2, 3] [0, 1] = true ∧ swapOK [4, 1] [0, 3] = true := by
  refine ⟨?_, ?_, ?_⟩ <;> decide +kernel

/-- constructors refuse a target qubit outside the gate -/
theorem target_rejected (c : GC K) (t : Int) :
    (¬ (0 ≤ t ∧ t < 2) → CNOT c t = .error .value ∧ CNOTH c t = .error .value) ∧
    (¬ (0 ≤ t ∧ t < 3) → CCNOT c t = .error .value) := by
  constructor
  · intro h
    have h' : ¬ (0 ≤ t ∧ t < ((2 : Nat) : Int)) := by simpa using h
    constructor <;> simp only [CNOT, CNOTH, conjH, h', not_false_eq_true, if_true] <;> rfl
  · intro h
    have h' : ¬ (0 ≤ t ∧ t < ((3 : Nat) : Int)) := by simpa using h
    simp only [CCNOT, conjH, h', not_false_eq_true, if_true]; rfl

end LW.Gates
