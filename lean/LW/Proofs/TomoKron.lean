/-
  LW.Proofs.TomoKron — Kronecker products of 2×2 matrices entry by entry.

  `entryRev` is the closed form of an entry of `kronList`: the product over qubits of the 2×2
  entries addressed by the binary digits of the row / column index (last factor = least
  significant digit).  All tomography proofs go through it.
-/
import Mathlib.Algebra.BigOperators.Ring.Finset
import Mathlib.Algebra.BigOperators.Intervals
import Mathlib.Algebra.Field.Basic
import Mathlib.Tactic.Ring
import Mathlib.Tactic.LinearCombination
import Mathlib.Tactic.IntervalCases
import LW.Proofs.MatAlg
import LW.Model.Tomo

open scoped BigOperators

namespace LW.Tomo

variable {K : Type}

/-! ### sums -/

theorem lsum_eq_sum [AddCommMonoid K] (l : List K) : lsum l = l.sum := by
  induction l with
  | nil => rfl
  | cons a t ih => simp only [lsum, List.foldr_cons, List.sum_cons] at *; rw [ih]

theorem sum_range_mul_two [AddCommMonoid K] (m : Nat) (f : Nat → K) :
    ∑ k ∈ Finset.range (m * 2), f k = ∑ q ∈ Finset.range m, (f (2 * q) + f (2 * q + 1)) := by
  induction m with
  | zero => simp
  | succ m ih =>
    rw [Nat.succ_mul, Finset.sum_range_succ, Finset.sum_range_succ, ih, Finset.sum_range_succ,
      Nat.mul_comm m 2, add_assoc]

theorem sum_range_two [AddCommMonoid K] (f : Nat → K) :
    ∑ y ∈ Finset.range 2, f y = f 0 + f 1 := by
  simp [Finset.sum_range_succ]

theorem sum_map_flatMap [AddCommMonoid K] {α β : Type} (l : List α) (f : α → List β) (g : β → K) :
    ((l.flatMap f).map g).sum = (l.map fun x => ((f x).map g).sum).sum := by
  induction l with
  | nil => simp
  | cons a t ih => simp [List.flatMap_cons, List.map_append, List.sum_append, ih]

theorem two_mul_div (q : Nat) : 2 * q / 2 = q := by omega
theorem two_mul_mod (q : Nat) : 2 * q % 2 = 0 := by omega
theorem two_mul_add_one_div (q : Nat) : (2 * q + 1) / 2 = q := by omega
theorem two_mul_add_one_mod (q : Nat) : (2 * q + 1) % 2 = 1 := by omega

/-! ### 2×2 matrices -/

section Mat2
variable [Zero K]

@[simp] theorem mat2_n (a b c d : K) : (mat2 a b c d).n = 2 := rfl
@[simp] theorem mat2_00 (a b c d : K) : (mat2 a b c d).get 0 0 = a := by
  unfold mat2; rw [M.get_ofFn _ (by omega) (by omega)]; simp
@[simp] theorem mat2_01 (a b c d : K) : (mat2 a b c d).get 0 1 = b := by
  unfold mat2; rw [M.get_ofFn _ (by omega) (by omega)]; simp
@[simp] theorem mat2_10 (a b c d : K) : (mat2 a b c d).get 1 0 = c := by
  unfold mat2; rw [M.get_ofFn _ (by omega) (by omega)]; simp
@[simp] theorem mat2_11 (a b c d : K) : (mat2 a b c d).get 1 1 = d := by
  unfold mat2; rw [M.get_ofFn _ (by omega) (by omega)]; simp

end Mat2

/-! ### Kronecker products -/

/-- closed form of an entry of a Kronecker product of 2×2 blocks, the list holding the blocks
from the last (least significant) to the first -/
def entryRev [Mul K] [One K] : List (Nat → Nat → K) → Nat → Nat → K
  | [] => fun _ _ => 1
  | f :: r => fun a b => entryRev r (a / 2) (b / 2) * f (a % 2) (b % 2)

theorem entryRev_congr [Mul K] [One K] {τ : Type} (F G : τ → Nat → Nat → K) (l : List τ)
    (h : ∀ t ∈ l, ∀ x y, x < 2 → y < 2 → F t x y = G t x y) (a b : Nat) :
    entryRev (l.map F) a b = entryRev (l.map G) a b := by
  induction l generalizing a b with
  | nil => rfl
  | cons t r ih =>
    simp only [List.map_cons, entryRev]
    rw [ih (fun t' ht' => h t' (List.mem_cons_of_mem _ ht')),
      h t List.mem_cons_self _ _ (Nat.mod_lt _ (by omega)) (Nat.mod_lt _ (by omega))]

section Kron
variable [CommSemiring K]

@[simp] theorem kron_n (A B : M K) : (kron A B).n = A.n * B.n := rfl

theorem get_kron (A B : M K) (hB : B.n = 2) {r k : Nat} (hr : r < A.n * 2) (hk : k < A.n * 2) :
    (kron A B).get r k = A.get (r / 2) (k / 2) * B.get (r % 2) (k % 2) := by
  unfold kron
  rw [M.get_ofFn _ (by rw [hB]; exact hr) (by rw [hB]; exact hk), hB]

theorem kronList_snoc (l : List (M K)) (hl : l ≠ []) (m : M K) :
    kronList (l ++ [m]) = kron (kronList l) m := by
  cases l with
  | nil => exact absurd rfl hl
  | cons x t => simp [kronList, List.foldl_append]

theorem kronList_rev (r : List (M K)) (hr : ∀ m ∈ r, m.n = 2) :
    (kronList r.reverse).n = 2 ^ r.length ∧
    ∀ a b, a < 2 ^ r.length → b < 2 ^ r.length →
      (kronList r.reverse).get a b = entryRev (r.map fun m => m.get) a b := by
  induction r with
  | nil =>
    refine ⟨rfl, ?_⟩
    intro a b ha hb
    simp only [List.length_nil, pow_zero, Nat.lt_one_iff] at ha hb
    subst ha; subst hb
    simp [kronList, entryRev, M.get_one]
  | cons m r ih =>
    have hm : m.n = 2 := hr m List.mem_cons_self
    obtain ⟨ihn, ihg⟩ := ih (fun m' hm' => hr m' (List.mem_cons_of_mem _ hm'))
    by_cases hnil : r = []
    · subst hnil
      refine ⟨by simp [kronList, hm], ?_⟩
      intro a b ha hb
      simp only [List.length_cons, List.length_nil, zero_add, pow_one] at ha hb
      simp only [List.reverse_cons, List.reverse_nil, List.nil_append, kronList, List.foldl_nil,
        List.map_cons, List.map_nil, entryRev, one_mul]
      rw [Nat.mod_eq_of_lt ha, Nat.mod_eq_of_lt hb]
    · have hne : r.reverse ≠ [] := by simpa using hnil
      rw [List.reverse_cons, kronList_snoc _ hne]
      refine ⟨by rw [kron_n, ihn, hm, List.length_cons, pow_succ], ?_⟩
      intro a b ha hb
      rw [List.length_cons, pow_succ] at ha hb
      rw [get_kron _ _ hm (by rw [ihn]; exact ha) (by rw [ihn]; exact hb)]
      simp only [List.map_cons, entryRev]
      rw [ihg _ _ (by omega) (by omega)]

/-- entries of a Kronecker product built by the code's left fold, for blocks given by a label
list `l` (first label = first qubit = most significant digit) -/
theorem kronList_map_get {τ : Type} (F : τ → M K) (hF : ∀ t, (F t).n = 2) (l : List τ) {a b : Nat}
    (ha : a < 2 ^ l.length) (hb : b < 2 ^ l.length) :
    (kronList (l.map F)).get a b = entryRev (l.reverse.map fun t => (F t).get) a b := by
  have h := kronList_rev ((l.map F).reverse) (by
    intro m hm
    simp only [List.mem_reverse, List.mem_map] at hm
    obtain ⟨t, _, rfl⟩ := hm
    exact hF t)
  rw [List.reverse_reverse] at h
  have hlen : ((l.map F).reverse).length = l.length := by simp
  rw [hlen] at h
  rw [h.2 a b ha hb, ← List.map_reverse, List.map_map]
  rfl

theorem kronList_map_n {τ : Type} (F : τ → M K) (hF : ∀ t, (F t).n = 2) (l : List τ) :
    (kronList (l.map F)).n = 2 ^ l.length := by
  have h := kronList_rev ((l.map F).reverse) (by
    intro m hm
    simp only [List.mem_reverse, List.mem_map] at hm
    obtain ⟨t, _, rfl⟩ := hm
    exact hF t)
  rw [List.reverse_reverse] at h
  simpa using h.1

end Kron

end LW.Tomo
