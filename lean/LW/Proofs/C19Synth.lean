/-
  LW.Proofs.C19Synth — the swap dictionary that `Circuit.add` synthesises to return every output
  herald of the added circuit to its input mode (`synthSwaps`) only mentions modes of the added
  circuit.  The non-obvious half is the packing of the remaining modes onto "the lowest free
  mode": the search `while current_mode in provisional_swaps.values()` must stop below `n`.
  Counting argument: the j-th non-herald output mode is sent to the j-th non-herald input mode,
  and there are at least as many of the latter below `n` as of the former.
-/
import LW.Proofs.C19Add
import LW.Proofs.C19Api

namespace LW.Disp

open LW

/-- number of modes below `c` that pass the test `p` -/
def cnt (p : Nat → Bool) (c : Nat) : Nat := ((List.range c).filter p).length

theorem cnt_succ (p : Nat → Bool) (c : Nat) : cnt p (c + 1) = cnt p c + (if p c then 1 else 0) := by
  unfold cnt
  rw [List.range_succ, List.filter_append, List.length_append]
  by_cases h : p c <;> simp [h]

theorem cnt_mono (p : Nat → Bool) {a b : Nat} (h : a ≤ b) : cnt p a ≤ cnt p b := by
  induction b with
  | zero => have : a = 0 := by omega
            subst this; exact Nat.le_refl _
  | succ b ih =>
    by_cases hab : a = b + 1
    · subst hab; exact Nat.le_refl _
    · have := ih (by omega)
      rw [cnt_succ]; omega

theorem cnt_le (p : Nat → Bool) (c : Nat) : cnt p c ≤ c := by
  unfold cnt
  have := List.length_filter_le p (List.range c)
  simpa using this

theorem cnt_add_cnt_not (p : Nat → Bool) (c : Nat) : cnt p c + cnt (fun x => !p x) c = c := by
  induction c with
  | zero => rfl
  | succ c ih =>
    rw [cnt_succ, cnt_succ]
    by_cases h : p c <;> simp [h] <;> omega

/-- a duplicate-free set of modes below `n` leaves at most `n - |set|` modes outside it -/
theorem cnt_not_mem_le {O : List Nat} {n : Nat} (hn : O.Nodup) (hl : ∀ k ∈ O, k < n) :
    cnt (fun j => !O.contains j) n + O.length ≤ n := by
  have := free_count (List.range n) O hn (fun a ha => List.mem_range.mpr (hl a ha))
  simpa [cnt] using this

/-- any list of modes leaves at least `n - |list|` modes below `n` outside it -/
theorem le_cnt_not_mem (V : List Nat) (n : Nat) : n ≤ cnt (fun x => !V.contains x) n + V.length := by
  -- the modes below n that are in V form a duplicate-free sublist of V
  have h1 := free_count V ((List.range n).filter fun x => V.contains x)
    (List.Nodup.filter _ (List.nodup_range))
    (fun a ha => by simpa using (List.mem_filter.mp ha).2)
  have h2 := cnt_add_cnt_not (fun x => V.contains x) n
  have h3 : ((List.range n).filter fun x => V.contains x).length = cnt (fun x => V.contains x) n := rfl
  have h4 : cnt (fun x => !(fun x => V.contains x) x) n = cnt (fun x => !V.contains x) n := rfl
  omega

variable (prov : Dict)

/-- free input modes (not the target of a herald return) below `c` -/
abbrev fV (c : Nat) : Nat := cnt (fun x => !prov.vals.contains x) c
/-- free output modes (no herald leaves through them) below `i` -/
abbrev aO (i : Nat) : Nat := cnt (fun j => !prov.contains j) i

theorem synthSkip_spec (fuel cur : Nat) (h : fV prov cur < fV prov (cur + fuel)) :
    prov.vals.contains (Circ.synthSkip prov fuel cur) = false ∧ cur ≤ Circ.synthSkip prov fuel cur ∧
      fV prov (Circ.synthSkip prov fuel cur) = fV prov cur := by
  induction fuel generalizing cur with
  | zero => simp at h
  | succ fuel ih =>
    unfold Circ.synthSkip
    by_cases hc : prov.vals.contains cur = true
    · rw [if_pos hc]
      have hm : cur ∈ prov.vals := by simpa using hc
      have e : fV prov (cur + 1) = fV prov cur := by
        unfold fV; rw [cnt_succ]; simp [hm]
      have := ih (cur + 1) (by rw [e]; rw [show cur + 1 + fuel = cur + (fuel + 1) by omega]; exact h)
      refine ⟨this.1, by omega, by rw [this.2.2, e]⟩
    · rw [if_neg hc]
      exact ⟨by simpa using hc, Nat.le_refl _, rfl⟩

theorem getD_mem_vals {d : Dict} {k : Nat} (h : d.contains k = true) : d.getD k 0 ∈ d.vals := by
  unfold Dict.getD Dict.get?
  cases hf : d.find? (·.1 == k) with
  | none =>
    exfalso
    rw [List.find?_eq_none] at hf
    obtain ⟨p, hp, hpk⟩ := List.any_eq_true.mp h
    exact hf p hp hpk
  | some p =>
    exact List.mem_map.mpr ⟨p, List.mem_of_find?_eq_some hf, rfl⟩

theorem synthGo_bound {n : Nat} (hk : prov.keys.Nodup) (hkl : ∀ k ∈ prov.keys, k < n)
    (hvl : ∀ v ∈ prov.vals, v < n) (fuel i cur : Nat) (acc : Dict) (hi : i + fuel = n)
    (hinv : fV prov cur = aO prov i)
    (hak : ∀ x ∈ acc.keys, x < n) (hav : ∀ x ∈ acc.vals, x < n) :
    (∀ x ∈ (Circ.synthGo n prov fuel i cur acc).keys, x < n) ∧
      (∀ x ∈ (Circ.synthGo n prov fuel i cur acc).vals, x < n) := by
  induction fuel generalizing i cur acc with
  | zero => exact ⟨hak, hav⟩
  | succ fuel ih =>
    unfold Circ.synthGo
    have hin : i < n := by omega
    by_cases hc : prov.contains i = true
    · rw [if_pos hc]
      refine ih (i + 1) cur _ (by omega) ?_ (keys_set_lt hak hin)
        (vals_set_inv hav (hvl _ (getD_mem_vals hc)))
      unfold aO; rw [cnt_succ]; simp [hc]; exact hinv
    · rw [if_neg hc]
      have hcf : prov.contains i = false := by simpa using hc
      -- counting: a free output mode is still to be placed, so a free input mode is left
      have ha1 : aO prov (i + 1) = aO prov i + 1 := by unfold aO; rw [cnt_succ]; simp [hcf]
      have ha2 : aO prov (i + 1) ≤ aO prov n := cnt_mono _ (by omega)
      have hO : aO prov n + prov.keys.length ≤ n := by
        have := cnt_not_mem_le hk hkl
        have e : (fun j => !prov.contains j) = fun j => !prov.keys.contains j := by
          funext j
          congr 1
          rw [Bool.eq_iff_iff, Dict.contains_iff]
          simp
        unfold aO; rw [e]; exact this
      have hV : n ≤ fV prov n + prov.vals.length := le_cnt_not_mem prov.vals n
      have hlen : prov.vals.length = prov.keys.length := by simp [Dict.vals, Dict.keys]
      have hlt : fV prov cur < fV prov n := by omega
      have hmono : fV prov n ≤ fV prov (cur + (n + 1)) := cnt_mono _ (by omega)
      obtain ⟨s1, s2, s3⟩ := synthSkip_spec prov (n + 1) cur (by omega)
      have hr : Circ.synthSkip prov (n + 1) cur < n := by
        rcases Nat.lt_or_ge (Circ.synthSkip prov (n + 1) cur) n with h | h
        · exact h
        · have := cnt_mono (fun x => !prov.vals.contains x) h
          unfold fV at s3 hlt
          omega
      dsimp only
      refine ih (i + 1) _ _ (by omega) ?_ ?_ ?_
      · have hm : Circ.synthSkip prov (n + 1) cur ∉ prov.vals := by simpa using s1
        rw [ha1, ← hinv, ← s3]
        unfold fV; rw [cnt_succ]; simp [hm]
      · split
        · exact keys_set_lt hak hin
        · exact hak
      · split
        · exact vals_set_inv hav hr
        · exact hav

/-- the synthesised swap dictionary only mentions modes of the added circuit -/
theorem synthSwaps_lt {n : Nat} (hk : prov.keys.Nodup) (hkl : ∀ k ∈ prov.keys, k < n)
    (hvl : ∀ v ∈ prov.vals, v < n) :
    ∀ x ∈ (Circ.synthSwaps n prov).keys ++ (Circ.synthSwaps n prov).vals, x < n := by
  have := synthGo_bound prov hk hkl hvl n 0 0 [] (by omega) rfl (fun _ h => nomatch h)
    (fun _ h => nomatch h)
  intro x hx
  rcases List.mem_append.mp hx with h | h
  · exact this.1 x h
  · exact this.2 x h

end LW.Disp
