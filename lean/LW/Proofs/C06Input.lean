/-
  LW.Proofs.C06Input — the input statistics returned by `_build_statistics` are normalised: full
  path (mixture theorem + label canonicalisation), brightness-only path, thresholding.
-/
import LW.Proofs.C06Full

set_option linter.unusedSectionVars false

namespace LW.Proofs.C06

open LW.Src LW.SV

section
variable {Q : Type} [Field Q] [LinearOrder Q] [IsStrictOrderedRing Q]

/-- `_remap_distribution` evaluates every observable on the canonical form of each state -/
theorem mix_remapDistribution (d : KD AState Q) (F : AState → Q) :
    mix (remapDistribution d) F = mix d (fun a => F (remapState a)) := by
  unfold remapDistribution
  rw [mix_ofPairs, mix_map_key d remapState F]

/-- INPUT STATISTICS (full path) as a mixture over per-photon emission outcomes, canonical labels -/
theorem mix_buildStatisticsFull (P : Params Q) (h : InRange P) (s : FState) (hs : s ≠ [])
    (F : AState → Q) :
    mix (buildStatisticsFull P s) F = mix (specFull P s).1 (fun a => F (remapState a)) := by
  unfold buildStatisticsFull
  rw [mix_remapDistribution, mix_fullDistribution P h s hs]

theorem total_buildStatisticsFull (P : Params Q) (h : InRange P) (s : FState) (hs : s ≠ []) :
    KD.total (buildStatisticsFull P s) = 1 := by
  rw [total_eq_mix, mix_buildStatisticsFull P h s hs, specFull_one]

/-! ### brightness-only path -/

/-- the loop body of `_build_statistics_basic` -/
def basicStep (P : Params Q) (n : Nat) (stats : List (Q × FState)) (mode : Nat) : List (Q × FState) :=
  let subS := (P.nu, unitVec n mode) :: (if P.nu < 1 then [(1 - P.nu, List.replicate n 0)] else [])
  if stats.isEmpty then subS
  else stats.flatMap fun a => subS.map fun b => (a.1 * b.1, List.zipWith (· + ·) a.2 b.2)

theorem sum_product_weights {β γ : Type} (A B : List (Q × β)) (g : β → β → γ) :
    ((A.flatMap fun a => B.map fun b => (a.1 * b.1, g a.2 b.2)).map (·.1)).sum =
      (A.map (·.1)).sum * (B.map (·.1)).sum := by
  induction A with
  | nil => simp
  | cons a A ih =>
    rw [List.flatMap_cons, List.map_append, List.sum_append, ih, List.map_cons, List.sum_cons,
      List.map_map]
    have : (List.map ((fun x : Q × γ => x.1) ∘ fun b : Q × β => (a.1 * b.1, g a.2 b.2)) B).sum =
        a.1 * (B.map (·.1)).sum := by
      rw [← List.sum_map_mul_left]
      rfl
    rw [this]
    ring

theorem basicStep_sum (P : Params Q) (h : InRange P) (n : Nat) (stats : List (Q × FState)) (mode : Nat)
    (hs : stats = [] ∨ (stats.map (·.1)).sum = 1) :
    ((basicStep P n stats mode).map (·.1)).sum = 1 := by
  have hsub : (((P.nu, unitVec n mode) ::
      (if P.nu < 1 then [(1 - P.nu, List.replicate n 0)] else [])).map (·.1)).sum = 1 := by
    by_cases hν : P.nu < 1
    · simp [hν]
    · have : P.nu = 1 := le_antisymm h.nu1 (not_lt.1 hν)
      simp [this]
  unfold basicStep
  simp only
  by_cases he : stats.isEmpty = true
  · rw [if_pos he]; exact hsub
  · rw [if_neg he]
    rcases hs with hs | hs
    · rw [hs] at he; exact absurd rfl he
    · rw [sum_product_weights stats _ (fun x y => List.zipWith (· + ·) x y), hs, hsub, mul_one]

theorem basic_fold_sum (P : Params Q) (h : InRange P) (n : Nat) (ms : List Nat)
    (stats : List (Q × FState)) (hs : (stats.map (·.1)).sum = 1) :
    ((ms.foldl (basicStep P n) stats).map (·.1)).sum = 1 := by
  induction ms generalizing stats with
  | nil => exact hs
  | cons m ms ih =>
    rw [List.foldl_cons]
    exact ih _ (basicStep_sum P h n stats m (Or.inr hs))

theorem buildStatisticsBasic_eq (P : Params Q) (s : FState) :
    buildStatisticsBasic P s =
      let d : KD FState Q := KD.ofPairs
        (((partitionIdx s).foldl (basicStep P s.length) []).map fun x => (x.2, x.1))
      if d.isEmpty then [(s, 1)] else d := rfl

theorem total_buildStatisticsBasic (P : Params Q) (h : InRange P) (s : FState) :
    KD.total (buildStatisticsBasic P s) = 1 := by
  rw [buildStatisticsBasic_eq]
  simp only
  cases hp : partitionIdx s with
  | nil =>
    simp [KD.ofPairs, KD.total]
  | cons m ms =>
    rw [List.foldl_cons]
    have h1 := basicStep_sum P h s.length [] m (Or.inl rfl)
    have h2 := basic_fold_sum P h s.length ms _ h1
    set stats := ms.foldl (basicStep P s.length) (basicStep P s.length [] m) with hst
    have ht : KD.total (KD.ofPairs (stats.map fun x => (x.2, x.1)) : KD FState Q) = 1 := by
      rw [total_eq_mix, mix_ofPairs]
      simp only [mix, List.map_map, Function.comp_def, mul_one]
      exact h2
    by_cases he : (KD.ofPairs (stats.map fun x => (x.2, x.1)) : KD FState Q).isEmpty = true
    · rw [List.isEmpty_iff.1 he] at ht
      simp [KD.total] at ht
    · rw [if_neg he]; exact ht

/-! ### thresholding -/

theorem total_applyThreshold {α : Type} (thr : Q) (d : KD α Q) (hd : KD.total d = 1)
    (hne : (applyThreshold thr d) ≠ []) : KD.total (applyThreshold thr d) = 1 := by
  unfold applyThreshold at hne ⊢
  by_cases ht : 0 < thr
  · rw [if_pos ht] at hne ⊢
    simp only at hne ⊢
    set t := d.filter (fun x => !decide (x.2 < thr)) with htdef
    have htot : t.foldl (fun acc x => acc + x.2) 0 = KD.total t := rfl
    rw [htot] at hne ⊢
    have hpos : ∀ x ∈ t, thr ≤ x.2 := by
      intro x hx
      have := (List.mem_filter.1 hx).2
      simpa using this
    have htne : t ≠ [] := by
      intro h0; rw [h0] at hne; exact hne rfl
    have hsum : 0 < KD.total t := by
      rw [total_eq_mix]
      obtain ⟨x, l, hxl⟩ := List.exists_cons_of_ne_nil htne
      rw [hxl] at hpos ⊢
      rw [mix_cons, mul_one]
      have hx : 0 < x.2 := lt_of_lt_of_le ht (hpos x (by simp))
      have hl : 0 ≤ mix l (fun _ => (1 : Q)) := by
        unfold mix
        apply List.sum_nonneg
        intro y hy
        simp only [List.mem_map] at hy
        obtain ⟨z, hz, rfl⟩ := hy
        rw [mul_one]
        exact le_trans ht.le (hpos z (by simp [hz]))
      linarith
    rw [total_eq_mix, mix_map t (fun x => (x.1, x.2 / KD.total t)) (fun _ => 1)]
    simp only [mul_one]
    rw [show (fun x : α × Q => x.2 / KD.total t) = fun x => x.2 * (KD.total t)⁻¹ from
      funext fun x => div_eq_mul_inv _ _, List.sum_map_mul_right]
    have : (t.map fun x => x.2).sum = KD.total t := by
      rw [total_eq_mix]; simp [mix]
    rw [this, mul_inv_cancel₀ hsum.ne']
  · rw [if_neg ht]; exact hd

/-- INPUT STATISTICS ARE NORMALISED: whatever `_build_statistics` returns sums to one (full and
brightness-only path, with or without probability threshold) -/
theorem input_stats_normalised (P : Params Q) (h : InRange P) (s : FState) (hs : s ≠ [])
    (st : Stats Q) (hok : buildStatistics P s = .ok st) : st.total = 1 := by
  unfold buildStatistics at hok
  by_cases hperf : P.p2 = 0 ∧ P.pi = 1
  · rw [if_pos hperf] at hok
    simp only at hok
    by_cases he : (applyThreshold P.thr (buildStatisticsBasic P s)).isEmpty = true
    · rw [if_pos he] at hok; cases hok
    · rw [if_neg he] at hok
      cases hok
      exact total_applyThreshold P.thr _ (total_buildStatisticsBasic P h s)
        (fun h0 => he (List.isEmpty_iff.2 h0))
  · rw [if_neg hperf] at hok
    simp only at hok
    by_cases he : (applyThreshold P.thr (buildStatisticsFull P s)).isEmpty = true
    · rw [if_pos he] at hok; cases hok
    · rw [if_neg he] at hok
      cases hok
      exact total_applyThreshold P.thr _ (total_buildStatisticsFull P h s hs)
        (fun h0 => he (List.isEmpty_iff.2 h0))

theorem kd_total_ne_nil {α : Type} (d : KD α Q) (h : KD.total d = 1) : d ≠ [] := by
  intro h0
  rw [h0] at h
  simp [KD.total] at h

/-- without a probability threshold every non-empty state is accepted -/
theorem buildStatistics_ok (P : Params Q) (h : InRange P) (hthr : ¬ 0 < P.thr) (s : FState)
    (hs : s ≠ []) : ∃ st, buildStatistics P s = .ok st := by
  unfold buildStatistics
  have hthr' : ∀ {α : Type} (d : KD α Q), applyThreshold P.thr d = d := by
    intro α d; unfold applyThreshold; rw [if_neg hthr]
  by_cases hperf : P.p2 = 0 ∧ P.pi = 1
  · rw [if_pos hperf]
    simp only [hthr']
    have := kd_total_ne_nil _ (total_buildStatisticsBasic P h s)
    rw [if_neg (fun he => this (List.isEmpty_iff.1 he))]
    exact ⟨_, rfl⟩
  · rw [if_neg hperf]
    simp only [hthr']
    have := kd_total_ne_nil _ (total_buildStatisticsFull P h s hs)
    rw [if_neg (fun he => this (List.isEmpty_iff.1 he))]
    exact ⟨_, rfl⟩

end

end LW.Proofs.C06
