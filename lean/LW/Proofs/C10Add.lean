/-
  LW.Proofs.C10Add — what `Circuit.add` (and the other construction calls) do to the list of leaf
  components: the result holds exactly the components of the parent and of the added circuit
  (plus, possibly, one mode swap), each with only its mode indices rewritten.  Consequences:
  `get_all_params` of the result is the union of the two lists, and unitary blocks stay literal.
-/
import LW.Proofs.C10Circ

namespace LW

variable {α K : Type}

/-! ### block entries -/

theorem M.entries_ofFn (n : Nat) (g : Nat → Nat → K) (x : K) (hx : x ∈ (M.ofFn n g).entries) :
    ∃ i j, x = g i j := by
  unfold M.entries M.ofFn at hx
  simp only [List.mem_flatMap, Array.mem_toList_iff] at hx
  obtain ⟨row, hrow, hxr⟩ := hx
  rw [Array.mem_ofFn] at hrow
  obtain ⟨i, rfl⟩ := hrow
  rw [Array.mem_ofFn] at hxr
  obtain ⟨j, rfl⟩ := hxr
  exact ⟨i, j, rfl⟩

theorem M.get_mem [Zero K] (A : M K) (i j : Nat) : A.get i j = 0 ∨ A.get i j ∈ A.entries := by
  unfold M.get M.entries
  simp only [Array.getD_eq_getD_getElem?]
  cases h : A.a[i]? with
  | none => left; simp
  | some row =>
    simp only [Option.getD_some]
    cases h2 : row[j]? with
    | none => left; simp
    | some x =>
      right
      simp only [Option.getD_some, List.mem_flatMap, Array.mem_toList_iff]
      exact ⟨row, Array.mem_of_getElem? h, Array.mem_of_getElem? h2⟩

def Prim.blockEntries : Prim K → List K
  | .unitary _ u => u.entries
  | _ => []

/-- a rewriting of mode indices: the component fields are kept, and the entries of a unitary block
are old entries or the constants 0 and 1 -/
structure ModeOnly [Zero K] [One K] (g : Prim K → Prim K) : Prop where
  syms : ∀ p, (g p).syms = p.syms
  block : ∀ p, ∀ x ∈ (g p).blockEntries, x = 0 ∨ x = 1 ∨ x ∈ p.blockEntries

section
variable [Zero K] [One K]

theorem ModeOnly.id : ModeOnly (fun p : Prim K => p) :=
  ⟨fun _ => rfl, fun _ x hx => Or.inr (Or.inr hx)⟩

theorem ModeOnly.comp {g h : Prim K → Prim K} (hg : ModeOnly g) (hh : ModeOnly h) :
    ModeOnly (fun p => g (h p)) := by
  refine ⟨fun p => by rw [hg.syms, hh.syms], fun p x hx => ?_⟩
  rcases hg.block (h p) x hx with h0 | h1 | hm
  · exact Or.inl h0
  · exact Or.inr (Or.inl h1)
  · exact hh.block p x hm

theorem ModeOnly.addEmptyMode (k : Nat) : ModeOnly (Prim.addEmptyMode k : Prim K → Prim K) := by
  refine ⟨fun p => ?_, fun p x hx => ?_⟩
  · cases p with
    | unitary m u => simp only [Prim.addEmptyMode]; split <;> rfl
    | _ => rfl
  · cases p with
    | unitary m u =>
      simp only [Prim.addEmptyMode] at hx
      split at hx
      · simp only [Prim.blockEntries, addModeToUnitary] at hx
        obtain ⟨r, c, rfl⟩ := M.entries_ofFn _ _ _ hx
        split
        · split
          · exact Or.inr (Or.inl rfl)
          · exact Or.inl rfl
        · rcases M.get_mem u (if r > k - bump k m then r - 1 else r) (if c > k - bump k m then c - 1 else c) with h | h
          · exact Or.inl h
          · exact Or.inr (Or.inr h)
      · exact Or.inr (Or.inr hx)
    | bs m1 m2 c s cv => simp [Prim.addEmptyMode, Prim.blockEntries] at hx
    | ps m q => simp [Prim.addEmptyMode, Prim.blockEntries] at hx
    | loss m a b => simp [Prim.addEmptyMode, Prim.blockEntries] at hx
    | barrier ms => simp [Prim.addEmptyMode, Prim.blockEntries] at hx
    | swaps d => simp [Prim.addEmptyMode, Prim.blockEntries] at hx

theorem ModeOnly.shift (k : Nat) : ModeOnly (Prim.shift k : Prim K → Prim K) := by
  refine ⟨fun p => by cases p <;> rfl, fun p x hx => ?_⟩
  cases p <;> first | exact Or.inr (Or.inr hx) | simp [Prim.shift, Prim.blockEntries] at hx

end

/-! ### leaf components through the spec utilities -/

theorem primsOf_append (a b : List (Comp K)) : primsOf (a ++ b) = primsOf a ++ primsOf b := by
  simp [primsOf]

theorem primsOf_addEmptyModeSpec [Zero K] [One K] (spec : List (Comp K)) (k : Nat) :
    primsOf (Circ.addEmptyModeSpec spec k) = (primsOf spec).map (Prim.addEmptyMode k) := by
  unfold primsOf Circ.addEmptyModeSpec
  induction spec with
  | nil => rfl
  | cons c cs ih =>
    simp only [List.map_cons, List.flatMap_cons, List.map_append, ih]
    congr 1
    cases c <;> rfl

theorem primsOf_shift (spec : List (Comp K)) (k : Nat) :
    primsOf (spec.map (Comp.shift k)) = (primsOf spec).map (Prim.shift k) := by
  unfold primsOf
  induction spec with
  | nil => rfl
  | cons c cs ih =>
    simp only [List.map_cons, List.flatMap_cons, List.map_append, ih]
    congr 1
    cases c <;> rfl

theorem primsOf_unpackSpec (spec : List (Comp K)) : primsOf (unpackSpec spec) = primsOf spec := by
  unfold primsOf unpackSpec
  induction spec with
  | nil => rfl
  | cons c cs ih =>
    simp only [List.flatMap_cons, List.flatMap_append, ih]
    congr 1
    cases c with
    | prim p => simp [Comp.toPrims]
    | group ps m1 m2 hin hout =>
      simp only [Comp.toPrims]
      induction ps with
      | nil => rfl
      | cons q qs ihq => simp only [List.map_cons, List.flatMap_cons, Comp.toPrims, ihq, List.singleton_append]

theorem primsOf_flatMap_toPrims (spec : List (Comp K)) : spec.flatMap Comp.toPrims = primsOf spec := rfl

theorem foldl_invariant {β γ : Type} (P : β → Prop) (g : β → γ → β) (l : List γ) (s : β) (h0 : P s)
    (hstep : ∀ s x, P s → P (g s x)) : P (l.foldl g s) := by
  induction l generalizing s with
  | nil => exact h0
  | cons x xs ih => exact ih _ (hstep s x h0)

namespace Circ

section
variable [Zero K] [One K]

theorem passStep_prims (m : Nat) (st : AddSt K) (i : Nat) :
    ∃ ψ : Prim K → Prim K, ModeOnly ψ ∧ primsOf (passStep m st i).spec = (primsOf st.spec).map ψ := by
  by_cases h : 0 ≤ (sortNat st.sub.inHer.keys).foldl
      (fun (t : Int) (k : Nat) => if t > (k : Int) then t + 1 else t) ((i : Int) - (m : Int)) ∧
    (sortNat st.sub.inHer.keys).foldl
      (fun (t : Int) (k : Nat) => if t > (k : Int) then t + 1 else t) ((i : Int) - (m : Int)) < (st.sub.n : Int)
  · have e : passStep m st i = _ := if_pos h
    rw [e]
    exact ⟨_, ModeOnly.addEmptyMode _, primsOf_addEmptyModeSpec _ _⟩
  · have e : passStep m st i = _ := if_neg h
    rw [e]
    exact ⟨fun p => p, ModeOnly.id, by simp⟩

/-- leaf components of the result of `add` -/
theorem add_prims (self circuit c' : Circ K) (mode : Int) (grouped : Bool)
    (h : self.add circuit mode grouped = .ok c') :
    ∃ φ ψ : Prim K → Prim K, ModeOnly φ ∧ ModeOnly ψ ∧ ∃ extra : List (Prim K),
      (∀ p ∈ extra, p.syms = [] ∧ p.blockEntries = []) ∧
      primsOf c'.spec = (primsOf self.spec).map φ ++ (primsOf circuit.spec ++ extra).map ψ := by
  rw [add_eq] at h
  cases hm : self.modeInRange (self.mapMode mode) with
  | error e => simp [hm] at h
  | ok m =>
    simp only [hm] at h
    generalize hg : (grouped || !circuit.unpackGroups.inHer.isEmpty) = g at h
    -- the circuit actually added has the same leaf components as the argument
    have hc : ∃ cc : Circ K, (if g = true then circuit.unpackGroups else circuit) = cc ∧
        primsOf cc.spec = primsOf circuit.spec := by
      refine ⟨_, rfl, ?_⟩
      split
      · exact primsOf_unpackSpec circuit.spec
      · rfl
    obtain ⟨cc, hcc, hprims⟩ := hc
    rw [hcc] at h
    unfold addBody at h
    split at h
    · cases h
    · unfold addTail at h
      -- pass-through loop
      have hpass : ∃ ψ : Prim K → Prim K, ModeOnly ψ ∧
          primsOf ((sortNat self.internal).foldl (passStep m) ⟨cc, withSwaps cc⟩).spec =
            (primsOf (withSwaps cc)).map ψ := by
        apply foldl_invariant
          (fun st : AddSt K => ∃ ψ : Prim K → Prim K, ModeOnly ψ ∧ primsOf st.spec = (primsOf (withSwaps cc)).map ψ)
        · exact ⟨fun p => p, ModeOnly.id, by simp⟩
        · rintro st i ⟨ψ, hψ, hst⟩
          obtain ⟨ψ', hψ', hst'⟩ := passStep_prims m st i
          refine ⟨fun p => ψ' (ψ p), ModeOnly.comp hψ' hψ, ?_⟩
          rw [hst', hst, List.map_map]
          rfl
      obtain ⟨ψ, hψ, hst⟩ := hpass
      generalize (sortNat self.internal).foldl (passStep m) ⟨cc, withSwaps cc⟩ = st at h hst
      unfold addFinish at h
      split at h
      · cases h
      · -- new ancilla modes in the parent
        have hanc : ∃ φ : Prim K → Prim K, ModeOnly φ ∧
            primsOf ((sortNat st.sub.inHer.keys).foldl (ancStep m) self).spec = (primsOf self.spec).map φ := by
          apply foldl_invariant
            (fun s : Circ K => ∃ φ : Prim K → Prim K, ModeOnly φ ∧ primsOf s.spec = (primsOf self.spec).map φ)
          · exact ⟨fun p => p, ModeOnly.id, by simp⟩
          · rintro s x ⟨φ, hφ, hs⟩
            refine ⟨fun p => Prim.addEmptyMode (m + x) (φ p), ModeOnly.comp (ModeOnly.addEmptyMode (m + x)) hφ, ?_⟩
            simp only [ancStep, Circ.addEmptyModeBook, primsOf_addEmptyModeSpec, hs, List.map_map,
              Function.comp_def]
        obtain ⟨φ, hφ, hself⟩ := hanc
        have hher : ∀ s : Circ K, (st.sub.inHer.foldl (herStep m) s).spec = s.spec := by
          intro s
          apply foldl_invariant (fun s' : Circ K => s'.spec = s.spec)
          · rfl
          · intro s' x hs'; exact hs'
        -- the swap, if any, has no fields
        have hsw : ∃ extra : List (Prim K), (∀ p ∈ extra, p.syms = [] ∧ p.blockEntries = []) ∧
            primsOf (withSwaps cc) = primsOf circuit.spec ++ extra := by
          unfold withSwaps
          split
          · refine ⟨[.swaps (synthSwaps cc.n (Dict.ofPairs (cc.outHer.keys.zip cc.inHer.keys)))], ?_, ?_⟩
            · intro p hp
              rw [List.mem_singleton] at hp
              subst hp; exact ⟨rfl, rfl⟩
            · rw [primsOf_append, hprims]; rfl
          · exact ⟨[], by simp, by simp [hprims]⟩
        obtain ⟨extra, hextra, hws⟩ := hsw
        refine ⟨φ, fun p => Prim.shift m (ψ p), hφ, ModeOnly.comp (ModeOnly.shift m) hψ, extra, hextra, ?_⟩
        split at h
        · injection h with h
          rw [← h]
          simp only [primsOf_append, hher, hself, primsOf_shift, hst, hws, List.map_map, Function.comp_def]
        · injection h with h
          rw [← h]
          simp only [primsOf_append, hher, hself]
          congr 1
          show primsOf [Comp.group _ _ _ _ _] = _
          simp only [primsOf, List.flatMap_cons, List.flatMap_nil, List.append_nil, Comp.toPrims]
          rw [primsOf_flatMap_toPrims, primsOf_shift, hst, hws, List.map_map]
          rfl

end

end Circ

/-! ### consequences for parametrised circuits -/

namespace PCirc

theorem litU_iff_block (p : Prim (Sym α K)) :
    p.LitU ↔ ∀ x ∈ p.blockEntries, ∃ k, x = Sym.lit k := by
  cases p <;> simp [Prim.LitU, Prim.blockEntries]

variable [Zero K] [One K]

theorem modeOnly_litU {g : Prim (Sym α K) → Prim (Sym α K)} (hg : ModeOnly g) (p : Prim (Sym α K))
    (hp : p.LitU) : (g p).LitU := by
  rw [litU_iff_block] at hp ⊢
  intro x hx
  rcases hg.block p x hx with h | h | h
  · exact ⟨0, h⟩
  · exact ⟨1, h⟩
  · exact hp x h

theorem flatMap_syms_map {g : Prim (Sym α K) → Prim (Sym α K)} (hg : ModeOnly g) (l : List (Prim (Sym α K))) :
    (l.map g).flatMap Prim.syms = l.flatMap Prim.syms := by
  rw [List.flatMap_map]
  congr 1
  funext p
  exact hg.syms p

/-- the component fields of `parent.add(sub)` are those of the parent followed by those of the
sub-circuit: nothing is lost or duplicated, whatever the grouping, heralds and ancilla insertions -/
theorem add_syms (self circuit c' : PCirc α K) (mode : Int) (grouped : Bool)
    (h : Circ.add self circuit mode grouped = .ok c') :
    Circ.syms c' = Circ.syms self ++ Circ.syms circuit := by
  obtain ⟨φ, ψ, hφ, hψ, extra, hextra, hp⟩ := Circ.add_prims self circuit c' mode grouped h
  unfold Circ.syms
  rw [hp, List.flatMap_append, flatMap_syms_map hφ, flatMap_syms_map hψ, List.flatMap_append]
  have : extra.flatMap Prim.syms = [] := by
    rw [List.flatMap_eq_nil_iff]
    intro p hp'
    exact (hextra p hp').1
  rw [this, List.append_nil]

/-- LISTING through added sub-circuits: the parameters of `parent.add(sub)` are exactly those of
the parent and those of the sub-circuit -/
theorem add_params (self circuit c' : PCirc α K) (mode : Int) (grouped : Bool)
    (h : Circ.add self circuit mode grouped = .ok c') (id : Nat) :
    id ∈ c'.getAllParams ↔ id ∈ self.getAllParams ∨ id ∈ circuit.getAllParams := by
  simp only [mem_getAllParams, add_syms self circuit c' mode grouped h, List.mem_append]
  constructor
  · rintro ⟨s, hs | hs, hid⟩
    · exact Or.inl ⟨s, hs, hid⟩
    · exact Or.inr ⟨s, hs, hid⟩
  · rintro (⟨s, hs, hid⟩ | ⟨s, hs, hid⟩)
    · exact ⟨s, Or.inl hs, hid⟩
    · exact ⟨s, Or.inr hs, hid⟩

theorem add_litU (self circuit c' : PCirc α K) (mode : Int) (grouped : Bool)
    (h : Circ.add self circuit mode grouped = .ok c') (h1 : self.LitU) (h2 : circuit.LitU) : c'.LitU := by
  obtain ⟨φ, ψ, hφ, hψ, extra, hextra, hp⟩ := Circ.add_prims self circuit c' mode grouped h
  intro p hpm
  rw [hp, List.mem_append] at hpm
  rcases hpm with hpm | hpm
  · obtain ⟨q, hq, rfl⟩ := List.mem_map.mp hpm
    exact modeOnly_litU hφ q (h1 q hq)
  · obtain ⟨q, hq, rfl⟩ := List.mem_map.mp hpm
    apply modeOnly_litU hψ
    rcases List.mem_append.mp hq with hq | hq
    · exact h2 q hq
    · rw [litU_iff_block, (hextra q hq).2]
      intro x hx
      cases hx

end PCirc

end LW
