/-
  C07 helper: merging equal keys of an association list with rational weights
  (the `foldl` at the end of `modeKernel` and in `outputsDist`).
-/
import Mathlib.Algebra.Order.Field.Basic
import Mathlib.Algebra.Order.Field.Rat
import Mathlib.Algebra.BigOperators.Group.List.Basic
import Mathlib.Tactic.Ring
import Mathlib.Tactic.Linarith
import LW.Model.Sampling

set_option linter.unusedSectionVars false
set_option linter.unusedSimpArgs false

namespace LW.Proofs.C07

variable {α : Type} [BEq α] [LawfulBEq α] [DecidableEq α]

/-- one step of the merge: add the weight to the entry with the same key, or append -/
def mergeStep (acc : List (α × Rat)) (kp : α × Rat) : List (α × Rat) :=
  if acc.any (·.1 == kp.1) then acc.map fun x => if x.1 == kp.1 then (kp.1, x.2 + kp.2) else x
  else acc ++ [kp]

/-- value of the first entry with key `a`, `0` if none -/
def lookup (l : List (α × Rat)) (a : α) : Rat := ((l.find? (·.1 == a)).map (·.2)).getD 0

omit [LawfulBEq α] in
@[simp] theorem lookup_nil (a : α) : lookup ([] : List (α × Rat)) a = 0 := rfl

omit [LawfulBEq α] in
theorem lookup_cons (x : α × Rat) (l : List (α × Rat)) (a : α) :
    lookup (x :: l) a = if x.1 == a then x.2 else lookup l a := by
  unfold lookup
  by_cases h : x.1 == a <;> simp [List.find?_cons, h]

theorem lookup_eq_zero_of_not_mem (l : List (α × Rat)) (a : α) (h : a ∉ l.map (·.1)) :
    lookup l a = 0 := by
  induction l with
  | nil => rfl
  | cons x l ih =>
    simp only [List.map_cons, List.mem_cons, not_or] at h
    rw [lookup_cons]
    have : (x.1 == a) = false := by
      rcases h with ⟨h1, _⟩
      simpa using fun h' => h1 h'.symm
    rw [this]; simpa using ih h.2

theorem any_key_iff (l : List (α × Rat)) (k : α) :
    l.any (·.1 == k) = true ↔ k ∈ l.map (·.1) := by
  simp only [List.any_eq_true, List.mem_map, beq_iff_eq]

/-- the map branch of `mergeStep` does not change the keys -/
theorem map_branch_keys (l : List (α × Rat)) (k : α) (p : Rat) :
    (l.map fun x => if x.1 == k then (k, x.2 + p) else x).map (·.1) = l.map (·.1) := by
  induction l with
  | nil => rfl
  | cons x l ih =>
    simp only [List.map_cons, List.cons.injEq]
    refine ⟨?_, by simpa using ih⟩
    by_cases h : x.1 == k
    · simp [h, (beq_iff_eq.mp h)]
    · simp [h]

theorem mergeStep_keys_nodup (acc : List (α × Rat)) (kp : α × Rat)
    (h : (acc.map (·.1)).Nodup) : ((mergeStep acc kp).map (·.1)).Nodup := by
  unfold mergeStep
  split
  · rw [map_branch_keys]; exact h
  · rename_i hany
    rw [any_key_iff] at hany
    rw [List.map_append, List.nodup_append]
    refine ⟨h, by simp, ?_⟩
    intro a ha b hb
    simp at hb
    subst hb
    intro hab; subst hab; exact hany ha

theorem lookup_map_branch (l : List (α × Rat)) (k : α) (p : Rat) (a : α) :
    lookup (l.map fun x => if x.1 == k then (k, x.2 + p) else x) a =
      lookup l a + if k == a ∧ a ∈ l.map (·.1) then p else 0 := by
  induction l with
  | nil => simp
  | cons x l ih =>
    rw [List.map_cons, lookup_cons, lookup_cons, ih]
    simp only [beq_iff_eq, List.map_cons, List.mem_cons]
    by_cases hxk : x.1 = k
    · subst hxk
      by_cases hka : x.1 = a
      · simp [hka]
      · have : ¬ a = x.1 := fun h => hka h.symm
        simp [hka]
    · by_cases hxa : x.1 = a
      · subst hxa
        have : ¬ k = x.1 := fun h => hxk h.symm
        simp [hxk, this]
      · have : ¬ a = x.1 := fun h => hxa h.symm
        simp only [hxk, hxa, this, if_false, false_or]

theorem lookup_append_single (l : List (α × Rat)) (kp : α × Rat) (a : α) :
    lookup (l ++ [kp]) a = if a ∈ l.map (·.1) then lookup l a else if kp.1 == a then kp.2 else 0 := by
  induction l with
  | nil => simp [lookup_cons]
  | cons x l ih =>
    rw [List.cons_append, lookup_cons, lookup_cons, ih]
    simp only [beq_iff_eq, List.map_cons, List.mem_cons]
    by_cases hxa : x.1 = a
    · simp [hxa]
    · have : ¬ (a = x.1) := fun h => hxa h.symm
      simp only [hxa, this, if_false, false_or]

/-- lookup after one merge step -/
theorem lookup_mergeStep (acc : List (α × Rat)) (kp : α × Rat) (a : α) :
    lookup (mergeStep acc kp) a = lookup acc a + if kp.1 == a then kp.2 else 0 := by
  unfold mergeStep
  split
  · rename_i hany
    rw [any_key_iff] at hany
    rw [lookup_map_branch]
    by_cases hka : kp.1 == a
    · have e := beq_iff_eq.mp hka
      rw [e] at hany
      simp [hka, hany]
    · simp [hka]
  · rename_i hany
    rw [any_key_iff] at hany
    rw [lookup_append_single]
    by_cases hka : kp.1 == a
    · have e := beq_iff_eq.mp hka
      rw [e] at hany
      simp [hka, hany, lookup_eq_zero_of_not_mem _ _ hany]
    · by_cases hmem : a ∈ acc.map (·.1)
      · simp [hka, hmem]
      · simp [hka, hmem, lookup_eq_zero_of_not_mem _ _ hmem]

/-- MERGE, lookup: the merged list gives each key the total of the weights carrying that key -/
theorem lookup_foldl_mergeStep (l acc : List (α × Rat)) (a : α) :
    lookup (l.foldl mergeStep acc) a = lookup acc a + ((l.filter (·.1 == a)).map (·.2)).sum := by
  induction l generalizing acc with
  | nil => simp
  | cons x l ih =>
    rw [List.foldl_cons, ih, lookup_mergeStep, List.filter_cons]
    by_cases h : x.1 == a <;> simp [h, add_assoc]

theorem nodup_foldl_mergeStep (l acc : List (α × Rat)) (h : (acc.map (·.1)).Nodup) :
    ((l.foldl mergeStep acc).map (·.1)).Nodup := by
  induction l generalizing acc with
  | nil => simpa using h
  | cons x l ih => exact ih _ (mergeStep_keys_nodup acc x h)

theorem sum_map_branch (l : List (α × Rat)) (k : α) (p : Rat) (h : (l.map (·.1)).Nodup) :
    ((l.map fun x => if x.1 == k then (k, x.2 + p) else x).map (·.2)).sum =
      (l.map (·.2)).sum + if k ∈ l.map (·.1) then p else 0 := by
  induction l with
  | nil => simp
  | cons x l ih =>
    simp only [List.map_cons, List.nodup_cons] at h
    have ih' := ih h.2
    rw [List.map_cons, List.map_cons, List.sum_cons, ih', List.map_cons, List.sum_cons, List.map_cons]
    by_cases hxk : x.1 = k
    · subst hxk
      have hk := h.1
      simp only [hk, beq_self_eq_true, List.mem_cons, if_false, if_true, true_or, add_zero]
      ring
    · have hne : ¬ (k = x.1) := fun h' => hxk h'.symm
      have hb : ¬ ((x.1 == k) = true) := by simpa using hxk
      simp only [hb, hne, List.mem_cons, if_false, false_or, Bool.false_eq_true]
      ring

theorem sum_mergeStep (acc : List (α × Rat)) (kp : α × Rat) (h : (acc.map (·.1)).Nodup) :
    ((mergeStep acc kp).map (·.2)).sum = (acc.map (·.2)).sum + kp.2 := by
  unfold mergeStep
  split
  · rename_i hany
    rw [any_key_iff] at hany
    rw [sum_map_branch _ _ _ h]; simp [hany]
  · simp

/-- MERGE, total: merging preserves the total weight -/
theorem sum_foldl_mergeStep (l acc : List (α × Rat)) (h : (acc.map (·.1)).Nodup) :
    ((l.foldl mergeStep acc).map (·.2)).sum = (acc.map (·.2)).sum + (l.map (·.2)).sum := by
  induction l generalizing acc with
  | nil => simp
  | cons x l ih =>
    rw [List.foldl_cons, ih _ (mergeStep_keys_nodup acc x h), sum_mergeStep _ _ h]
    simp [add_assoc]

theorem nonneg_mergeStep (acc : List (α × Rat)) (kp : α × Rat)
    (h : ∀ x ∈ acc, 0 ≤ x.2) (hp : 0 ≤ kp.2) : ∀ x ∈ mergeStep acc kp, 0 ≤ x.2 := by
  unfold mergeStep
  split
  · intro x hx
    rw [List.mem_map] at hx
    obtain ⟨y, hy, rfl⟩ := hx
    split
    · exact add_nonneg (h y hy) hp
    · exact h y hy
  · intro x hx
    rw [List.mem_append] at hx
    rcases hx with hx | hx
    · exact h x hx
    · simp at hx; subst hx; exact hp

/-- MERGE, sign: merging non-negative weights gives non-negative weights -/
theorem nonneg_foldl_mergeStep (l acc : List (α × Rat))
    (h : ∀ x ∈ acc, 0 ≤ x.2) (hl : ∀ x ∈ l, 0 ≤ x.2) : ∀ x ∈ l.foldl mergeStep acc, 0 ≤ x.2 := by
  induction l generalizing acc with
  | nil => simpa using h
  | cons x l ih =>
    rw [List.foldl_cons]
    exact ih _ (nonneg_mergeStep acc x h (hl x (by simp))) (fun y hy => hl y (by simp [hy]))

/-- keys of the merged list come from the input -/
theorem keys_foldl_mergeStep (l acc : List (α × Rat)) :
    ∀ a ∈ (l.foldl mergeStep acc).map (·.1), a ∈ acc.map (·.1) ∨ a ∈ l.map (·.1) := by
  induction l generalizing acc with
  | nil => intro a ha; exact Or.inl (by simpa using ha)
  | cons x l ih =>
    intro a ha
    rw [List.foldl_cons] at ha
    rcases ih _ a ha with h | h
    · unfold mergeStep at h
      split at h
      · rw [map_branch_keys] at h; exact Or.inl h
      · rw [List.map_append, List.mem_append] at h
        rcases h with h | h
        · exact Or.inl h
        · right; simp at h; simp [h]
    · right; simp only [List.map_cons, List.mem_cons]; exact Or.inr h

end LW.Proofs.C07
