/-
  LW.Proofs.C15Circuits — the circuits `process()` hands to the experiment callback, for base
  circuits without private ancilla modes: `_create_circuit` appends, to an unchanged copy of the
  base specification, the basis-change unitaries of the setting on the mode pairs (2k, 2k+1).
-/
import LW.Proofs.C15Pure

namespace LW.Tomo

variable {K : Type} [CommRing K]

set_option linter.unusedSectionVars false

theorem synthSkip_nil (fuel cur : Nat) : Circ.synthSkip [] fuel cur = cur := by
  cases fuel <;> simp [Circ.synthSkip, Dict.vals]

theorem synthGo_nil (n fuel i : Nat) (acc : Dict) : Circ.synthGo n [] fuel i i acc = acc := by
  induction fuel generalizing i with
  | zero => rfl
  | succ f ih => simp [Circ.synthGo, Dict.contains, synthSkip_nil, ih]

/-- `Circuit.add` of a herald-free circuit onto a circuit without ancillas, ungrouped: the
shifted components are appended, nothing else changes -/
theorem add_plain (self circuit : Circ K) (m : Nat) (hint : self.internal = [])
    (hher : circuit.inHer = []) (hlt : m < self.n) (hfit : m + circuit.n ≤ self.n) :
    self.add circuit (m : Int) false
      = .ok { self with spec := self.spec ++ circuit.spec.map (Comp.shift m) } := by
  have hmap : self.mapMode (m : Int) = (m : Int) := by simp [Circ.mapMode, hint, sortNat]
  have hrange : self.modeInRange (m : Int) = .ok m := by
    simp [Circ.modeInRange, hlt]
  unfold Circ.add
  simp only [hmap, hrange, Circ.unpackGroups, hher, List.isEmpty_nil, Bool.not_true, Bool.or_false,
    Bool.false_eq_true, if_false, List.length_nil, Nat.sub_zero, Dict.keys, List.map_nil,
    List.zip_nil_right, Dict.ofPairs, List.foldl_nil, Circ.synthSwaps, synthGo_nil, hint, sortNat,
    List.foldr_nil, bind, Except.bind, pure, Except.pure, Dict.vals, bne_self_eq_false,
    show ¬ (m + circuit.n > self.n) by omega, Bool.not_false]
  cases self
  simp_all

def basisChangeSpec (i h : K) : Nat → Meas → List (Comp K)
  | _, [] => []
  | k, g :: t => (measCirc i h g).spec.map (Comp.shift (2 * k)) ++ basisChangeSpec i h (k + 1) t

theorem measCirc_n (i h : K) (g : Pauli) : (measCirc i h g).n = 2 := by cases g <;> rfl
theorem measCirc_inHer (i h : K) (g : Pauli) : (measCirc i h g).inHer = [] := by cases g <;> rfl

theorem addAll_plain (i h : K) (c : Circ K) (k : Nat) (s : Meas) (hint : c.internal = [])
    (hfit : 2 * (k + s.length) ≤ c.n) :
    addAll c k (s.map (measCirc i h))
      = .ok { c with spec := c.spec ++ basisChangeSpec i h k s } := by
  induction s generalizing c k with
  | nil => simp [addAll, basisChangeSpec]
  | cons g t ih =>
    simp only [List.length_cons] at hfit
    simp only [List.map_cons, addAll]
    have e : (2 * (k : Int)) = ((2 * k : Nat) : Int) := by push_cast; rfl
    rw [e, add_plain c (measCirc i h g) (2 * k) hint (measCirc_inHer i h g) (by omega)
      (by rw [measCirc_n]; omega)]
    simp only [bind, Except.bind]
    rw [ih]
    · simp [basisChangeSpec, List.append_assoc]
    · exact hint
    · show 2 * (k + 1 + t.length) ≤ c.n
      omega

/-- `_create_circuit` for a base without ancilla modes (partial: bases with heralded sub-circuits
need the `Circuit.add` refinement of C02) -/
theorem createCircuit_plain (i h : K) (nQ : Nat) (base : Circ K) (hint : base.internal = [])
    (hn : base.n = 2 * nQ) (s : Meas) (hs : s.length = nQ) :
    createCircuit nQ base (s.map (measCirc i h))
      = .ok { base with spec := base.spec ++ basisChangeSpec i h 0 s } := by
  unfold createCircuit
  simp only [List.length_map, hs, ne_eq, not_true_eq_false, if_false, Circ.copy]
  exact addAll_plain i h base 0 s hint (by omega)

theorem createCircuit_wrong_length (nQ : Nat) (base : Circ K) (ops : List (Circ K))
    (h : ops.length ≠ nQ) : createCircuit nQ base ops = .error .value := by
  unfold createCircuit
  simp [h]

/-- its unitary: the base's `U_full` followed by the appended components, in order -/
theorem requested_Ufull (i h : K) (base : Circ K) (s : Meas) :
    Circ.Ufull i { base with spec := base.spec ++ basisChangeSpec i h 0 s }
      = (basisChangeSpec i h 0 s).foldl (compileComp i) (base.Ufull i) := by
  simp [Circ.Ufull, compile, List.foldl_append]

end LW.Tomo
