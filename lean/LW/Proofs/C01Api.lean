/-
  LW.Proofs.C01Api — accepted construction calls record well-formed components.
-/
import LW.Proofs.CircuitWf
import LW.Proofs.DictLemmas

namespace LW.Proofs.C01Aux

variable {K : Type} [CommRing K] [StarRing K]

set_option linter.unusedSectionVars false

theorem modeInRange_ok {c : Circ K} {x : Int} {a : Nat} (h : c.modeInRange x = .ok a) :
    a < c.n ∧ (a : Int) = x := by
  unfold Circ.modeInRange at h
  split at h
  · injection h with h
    omega
  · cases h

theorem specWf_append {n : Nat} {s l : List (Comp K)} (hs : SpecWf n s) (hl : SpecWf n l) :
    SpecWf n (s ++ l) := by
  intro c hc
  rcases List.mem_append.mp hc with h | h
  · exact hs c h
  · exact hl c h

theorem specWf_single {n : Nat} {p : Prim K} (hp : p.Wf n) : SpecWf n [Comp.prim p] := by
  intro c hc
  rw [List.mem_singleton] at hc
  subst hc; exact hp

theorem specWf_prims {n : Nat} {ps : List (Prim K)} (hp : ∀ p ∈ ps, p.Wf n) :
    SpecWf n (ps.map Comp.prim) := by
  intro c hc
  obtain ⟨p, hp', rfl⟩ := List.mem_map.mp hc
  exact hp p hp'

theorem bs_wf (c c' : Circ K) (hc : SpecWf c.n c.spec) (m1 m2 : Int) (cs : K × K) (cv : Conv)
    (l : Option (K × K)) (h1 : cs.1 * cs.1 + cs.2 * cs.2 = 1) (h2 : star cs.1 = cs.1)
    (h3 : star cs.2 = cs.2)
    (hl : ∀ ab, l = some ab → ab.1 * ab.1 + ab.2 * ab.2 = 1 ∧ star ab.1 = ab.1 ∧ star ab.2 = ab.2)
    (h : c.bs m1 m2 cs cv l = .ok c') : c'.n = c.n ∧ SpecWf c'.n c'.spec := by
  unfold Circ.bs at h
  cases ha : c.modeInRange (c.mapMode m1) with
  | error e => simp [ha, bind, Except.bind] at h
  | ok a =>
    by_cases he : (a : Int) = c.mapMode m2
    · simp [ha, he, bind, Except.bind, throw, throwThe, MonadExceptOf.throw] at h
    cases hb : c.modeInRange (c.mapMode m2) with
    | error e => simp [ha, hb, he, bind, Except.bind] at h
    | ok b =>
      obtain ⟨ha1, ha2⟩ := modeInRange_ok ha
      obtain ⟨hb1, hb2⟩ := modeInRange_ok hb
      have hab : a ≠ b := fun hab => he (by rw [hab, hb2])
      have hbs : (Prim.bs a b cs.1 cs.2 cv).Wf c.n := ⟨ha1, hb1, hab, h2, h3, h1⟩
      simp only [ha, hb, he, bind, Except.bind, if_false] at h
      cases l with
      | none =>
        simp [pure, Except.pure] at h
        subst h
        exact ⟨rfl, specWf_append hc (specWf_single hbs)⟩
      | some ab =>
        obtain ⟨la, lb⟩ := ab
        obtain ⟨l1, l2, l3⟩ := hl (la, lb) rfl
        simp [pure, Except.pure] at h
        subst h
        refine ⟨rfl, ?_⟩
        intro x hx
        simp only [List.mem_append, List.mem_cons, List.not_mem_nil, or_false] at hx
        rcases hx with hx | rfl | rfl | rfl
        · exact hc x hx
        · exact hbs
        · exact ⟨ha1, l2, l3, l1⟩
        · exact ⟨hb1, l2, l3, l1⟩

theorem ps_wf (c c' : Circ K) (hc : SpecWf c.n c.spec) (m : Int) (p : K) (l : Option (K × K))
    (hp : p * star p = 1)
    (hl : ∀ ab, l = some ab → ab.1 * ab.1 + ab.2 * ab.2 = 1 ∧ star ab.1 = ab.1 ∧ star ab.2 = ab.2)
    (h : c.ps m p l = .ok c') : c'.n = c.n ∧ SpecWf c'.n c'.spec := by
  unfold Circ.ps at h
  cases ha : c.modeInRange (c.mapMode m) with
  | error e => simp [ha, bind, Except.bind] at h
  | ok a =>
    obtain ⟨ha1, -⟩ := modeInRange_ok ha
    have hps : (Prim.ps a p).Wf c.n := ⟨ha1, hp⟩
    simp only [ha, bind, Except.bind] at h
    cases l with
    | none =>
      simp [pure, Except.pure] at h
      subst h
      exact ⟨rfl, specWf_append hc (specWf_single hps)⟩
    | some ab =>
      obtain ⟨la, lb⟩ := ab
      obtain ⟨l1, l2, l3⟩ := hl (la, lb) rfl
      simp [pure, Except.pure] at h
      subst h
      refine ⟨rfl, ?_⟩
      intro x hx
      simp only [List.mem_append, List.mem_cons, List.not_mem_nil, or_false] at hx
      rcases hx with hx | rfl | rfl
      · exact hc x hx
      · exact hps
      · exact ⟨ha1, l2, l3, l1⟩

theorem loss_wf (c c' : Circ K) (hc : SpecWf c.n c.spec) (m : Int) (ab : K × K)
    (h1 : ab.1 * ab.1 + ab.2 * ab.2 = 1) (h2 : star ab.1 = ab.1) (h3 : star ab.2 = ab.2)
    (h : c.loss m ab = .ok c') : c'.n = c.n ∧ SpecWf c'.n c'.spec := by
  unfold Circ.loss at h
  cases ha : c.modeInRange (c.mapMode m) with
  | error e => simp [ha, bind, Except.bind] at h
  | ok a =>
    obtain ⟨ha1, -⟩ := modeInRange_ok ha
    simp [ha, bind, Except.bind, pure, Except.pure] at h
    subst h
    exact ⟨rfl, specWf_append hc (specWf_single (p := Prim.loss a ab.1 ab.2) ⟨ha1, h2, h3, h1⟩)⟩

theorem barrier_aux (c c' : Circ K) (hc : SpecWf c.n c.spec) (ml : List Int)
    (h : (do
      let ms' ← ml.mapM fun m => c.modeInRange (c.mapMode m)
      (pure ({ c with spec := c.spec ++ [Comp.prim (Prim.barrier ms')] } : Circ K) :
        Except Err (Circ K))) = .ok c') :
    c'.n = c.n ∧ SpecWf c'.n c'.spec := by
  cases hm : ml.mapM (fun m => c.modeInRange (c.mapMode m)) with
  | error e => simp [hm, bind, Except.bind] at h
  | ok ms' =>
    have hlt : ∀ b ∈ ms', b < c.n :=
      mapM_ok_forall (P := fun b => b < c.n) (fun a b hab => (modeInRange_ok hab).1) ml ms' hm
    simp [hm, bind, Except.bind, pure, Except.pure] at h
    subst h
    exact ⟨rfl, specWf_append hc (specWf_single (p := Prim.barrier ms') hlt)⟩

theorem barrier_wf (c c' : Circ K) (hc : SpecWf c.n c.spec) (ms : Option (List Int))
    (h : c.barrier ms = .ok c') : c'.n = c.n ∧ SpecWf c'.n c'.spec := by
  unfold Circ.barrier at h
  cases ms with
  | none => exact barrier_aux c c' hc _ h
  | some l => exact barrier_aux c c' hc _ h

theorem modeSwaps_wf (c c' : Circ K) (hc : SpecWf c.n c.spec) (sw : List (Int × Int))
    (h : c.modeSwaps sw = .ok c') : c'.n = c.n ∧ SpecWf c'.n c'.spec := by
  unfold Circ.modeSwaps at h
  generalize sw.map (fun p => (c.mapMode p.1, c.mapMode p.2)) = rm at h
  cases hk : rm.mapM (fun p => c.modeInRange p.1) with
  | error e => simp [hk, bind, Except.bind] at h
  | ok ks =>
    cases hv : rm.mapM (fun p => c.modeInRange p.2) with
    | error e => simp [hk, hv, bind, Except.bind] at h
    | ok vs =>
      have hlt : ∀ b ∈ ks, b < c.n :=
        mapM_ok_forall (P := fun b => b < c.n) (fun a b hab => (modeInRange_ok hab).1) rm ks hk
      obtain ⟨hnd, hQ⟩ := Dict.ofPairs_inv (Q := fun k => k < c.n) (ks.zip vs)
        (fun p hp => hlt p.1 (List.of_mem_zip (a := p.1) (b := p.2) hp).1)
      by_cases hs : sortNat (Dict.ofPairs (ks.zip vs)).keys = sortNat (Dict.ofPairs (ks.zip vs)).vals
      · simp [hk, hv, hs, bind, Except.bind, pure, Except.pure] at h
        subst h
        exact ⟨rfl, specWf_append hc
          (specWf_single (p := Prim.swaps (Dict.ofPairs (ks.zip vs)))
            ⟨hnd, perm_of_sortNat_eq hs, hQ⟩)⟩
      · simp [hk, hv, hs, bind, Except.bind, throw, throwThe, MonadExceptOf.throw] at h

end LW.Proofs.C01Aux
