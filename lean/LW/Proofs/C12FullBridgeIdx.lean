/-
  LW.Proofs.C12FullBridgeIdx — bookkeeping for `LW.QF.idxs` (mode indices repeated by occupation).
-/
import LW.Proofs.FockIso
import LW.Model.QFock

open Finset

namespace LW.C12F

open LW.QF LW.Proofs.FockIso

theorem length_idxsFrom (m : ℕ) (s : List ℕ) : (idxsFrom m s).length = s.sum := by
  induction s generalizing m with
  | nil => rfl
  | cons k t ih => simp [idxsFrom, ih]

theorem length_idxs (s : List ℕ) : (idxs s).length = s.sum := length_idxsFrom 0 s

theorem mem_idxsFrom (m : ℕ) (s : List ℕ) (x : ℕ) (hx : x ∈ idxsFrom m s) :
    m ≤ x ∧ x < m + s.length := by
  induction s generalizing m with
  | nil => simp [idxsFrom] at hx
  | cons k t ih =>
    simp only [idxsFrom, List.mem_append, List.mem_replicate] at hx
    rcases hx with ⟨_, rfl⟩ | hx
    · simp
    · have := ih (m + 1) hx
      simp only [List.length_cons]
      omega

theorem mem_idxs_lt (s : List ℕ) (x : ℕ) (hx : x ∈ idxs s) : x < s.length := by
  have := mem_idxsFrom 0 s x hx
  omega

theorem count_idxsFrom (m : ℕ) (s : List ℕ) (z : ℕ) :
    (idxsFrom m s).count z = if m ≤ z then s.getD (z - m) 0 else 0 := by
  induction s generalizing m with
  | nil => simp [idxsFrom]
  | cons k t ih =>
    simp only [idxsFrom, List.count_append, List.count_replicate, ih]
    by_cases h1 : m = z
    · subst h1
      simp
    · by_cases h2 : m ≤ z
      · have h3 : m + 1 ≤ z := by omega
        have h4 : z - m = (z - (m + 1)) + 1 := by omega
        have h5 : ¬ (m == z) = true := by simpa using h1
        rw [if_pos h2, if_pos h3, h4, List.getD_cons_succ, if_neg h5, Nat.zero_add]
      · have h3 : ¬ m + 1 ≤ z := by omega
        have h5 : ¬ (m == z) = true := by simpa using h1
        rw [if_neg h2, if_neg h3, if_neg h5]

theorem count_idxs (s : List ℕ) (z : ℕ) : (idxs s).count z = s.getD z 0 := by
  unfold idxs
  rw [count_idxsFrom]
  simp

/-- the index function of a state (mode of the `k`-th photon) -/
def stF {p D : ℕ} (s : List ℕ) (hl : s.length = D) (hp : s.sum = p) : Fin p → Fin D :=
  idxFn (idxs s) ((length_idxs s).trans hp) fun m hm => hl ▸ mem_idxs_lt s m hm

theorem stF_val {p D : ℕ} (s : List ℕ) (hl : s.length = D) (hp : s.sum = p) (k : Fin p) :
    (stF s hl hp k).val = (idxs s).getD k.val 0 := by
  unfold stF idxFn
  have hk : k.val < (idxs s).length := by rw [length_idxs, hp]; exact k.2
  simp [List.getD_eq_getElem?_getD, hk]

theorem occ_stF {p D : ℕ} (s : List ℕ) (hl : s.length = D) (hp : s.sum = p) (z : Fin D) :
    occ (stF s hl hp) z = s.getD z.val 0 := by
  unfold stF
  rw [occ_idxFn, count_idxs]

end LW.C12F
