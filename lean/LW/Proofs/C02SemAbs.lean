/-
  LW.Proofs.C02SemAbs — structure of the abstraction map `Circ.toOptic`: `optMode` / `optIndex` are
  mutually inverse on a well-formed circuit, `mapMode m` is the `m`-th port mode, and
  `(c.toOptic i).W` is the pull-back of `U_full` along `optMode`.
-/
import Mathlib.Data.List.Sort
import Mathlib.Data.List.GetD
import Mathlib.Data.List.Perm.Subperm
import LW.Model.Abs
import LW.Proofs.C02SemRel
import LW.Proofs.C02

open scoped BigOperators

namespace LW.Proofs.C02Sem

open LW LW.Proofs.C01Aux LW.Proofs.C02

variable {K : Type}

/-! ### list helpers -/

theorem idxOf?_getElem_of_nodup {l : List Nat} (h : l.Nodup) {j : Nat} (hj : j < l.length) :
    l.idxOf? l[j] = some j := by
  rw [List.idxOf?_eq_some_iff]
  refine ⟨hj, rfl, ?_⟩
  intro j' hj' e
  have := (List.Nodup.getElem_inj_iff h (hi := by omega) (hj := hj)).mp e
  omega

theorem idxOf?_of_mem {l : List Nat} {x : Nat} (h : x ∈ l) :
    ∃ j, ∃ hj : j < l.length, l.idxOf? x = some j ∧ l[j] = x := by
  have : (l.idxOf? x).isSome := List.isSome_idxOf?.mpr h
  cases hj : l.idxOf? x with
  | none => rw [hj] at this; cases this
  | some j =>
    obtain ⟨h1, h2, -⟩ := List.idxOf?_eq_some_iff.mp hj
    exact ⟨j, h1, rfl, h2⟩

theorem idxOf?_of_not_mem {l : List Nat} {x : Nat} (h : x ∉ l) : l.idxOf? x = none :=
  List.idxOf?_eq_none_iff.mpr h

/-- two strictly increasing lists of the same length, one contained in the other, are equal -/
theorem eq_of_sorted_subset {l1 l2 : List Nat} (h1 : l1.Pairwise (· < ·)) (h2 : l2.Pairwise (· < ·))
    (hsub : ∀ x ∈ l1, x ∈ l2) (hlen : l2.length ≤ l1.length) : l1 = l2 := by
  have hnd1 : l1.Nodup := h1.imp (fun h => Nat.ne_of_lt h)
  have hperm : l1.Perm l2 := (List.subperm_of_subset hnd1 hsub).perm_of_length_le hlen
  exact List.Perm.eq_of_pairwise (fun a b _ _ hab hba => absurd hab (Nat.lt_asymm hba)) h1 h2 hperm

theorem length_filter_not_mem (n : Nat) (l : List Nat) (hnd : l.Nodup) (hlt : ∀ x ∈ l, x < n) :
    ((List.range n).filter fun m => !l.contains m).length + l.length = n := by
  have h1 := List.length_eq_length_filter_add (l := List.range n) (fun m => l.contains m)
  rw [List.length_range] at h1
  have h2 : ((List.range n).filter fun m => l.contains m).Perm l := by
    apply (List.perm_ext_iff_of_nodup (List.nodup_range.filter _) hnd).mpr
    intro x
    simp only [List.mem_filter, List.mem_range, List.contains_iff_mem]
    exact ⟨fun h => h.2, fun h => ⟨hlt x h, h⟩⟩
  rw [h2.length_eq] at h1
  beta_reduce at h1
  omega

/-! ### ports -/

section
variable (c : Circ K)

theorem mem_portModes {x : Nat} : x ∈ c.portModes ↔ x < c.n ∧ x ∉ c.internal := by
  unfold Circ.portModes
  simp [List.mem_filter]

theorem portModes_sorted : c.portModes.Pairwise (· < ·) :=
  List.Pairwise.filter _ List.pairwise_lt_range

theorem portModes_nodup : c.portModes.Nodup :=
  (portModes_sorted c).imp (fun h => Nat.ne_of_lt h)

theorem portModes_length (hwf : c.WF) : c.portModes.length + c.internal.length = c.n :=
  length_filter_not_mem c.n c.internal hwf.intNodup (WF.internal_lt hwf)

theorem portModes_length_eq_ports (hwf : c.WF) : c.portModes.length = c.ports := by
  have := portModes_length c hwf
  unfold Circ.ports
  omega

/-- the inverse of `optMode`, extended by the identity on loss indices -/
def optIdx (m : Nat) : Nat := if m < c.n then c.optIndex m else m

theorem optMode_port {r : Nat} (hr : r < c.portModes.length) : c.optMode r = c.portModes[r] := by
  unfold Circ.optMode
  simp only
  rw [if_pos hr, List.getD_eq_getElem _ _ hr]

theorem optMode_anc {r : Nat} (h1 : c.portModes.length ≤ r)
    (h2 : r < c.portModes.length + c.internal.length) :
    c.optMode r = c.internal[r - c.portModes.length]'(by omega) := by
  unfold Circ.optMode
  simp only
  rw [if_neg (by omega), if_pos h2, List.getD_eq_getElem _ _ (by omega)]

theorem optMode_loss (hwf : c.WF) {r : Nat} (h : c.n ≤ r) : c.optMode r = r := by
  have := portModes_length c hwf
  unfold Circ.optMode
  simp only
  rw [if_neg (by omega), if_neg (by omega)]
  omega

theorem optMode_lt (hwf : c.WF) {r : Nat} (h : r < c.n) : c.optMode r < c.n := by
  have hl := portModes_length c hwf
  by_cases h1 : r < c.portModes.length
  · rw [optMode_port c h1]
    exact ((mem_portModes c).mp (List.getElem_mem h1)).1
  · rw [optMode_anc c (by omega) (by omega)]
    exact WF.internal_lt hwf _ (List.getElem_mem _)

theorem optIdx_optMode (hwf : c.WF) (r : Nat) : optIdx c (c.optMode r) = r := by
  have hl := portModes_length c hwf
  by_cases hr : r < c.n
  · unfold optIdx
    rw [if_pos (optMode_lt c hwf hr)]
    unfold Circ.optIndex
    by_cases h1 : r < c.portModes.length
    · rw [optMode_port c h1]
      have hm := (mem_portModes c).mp (List.getElem_mem h1)
      rw [idxOf?_of_not_mem hm.2]
      simp only
      rw [idxOf?_getElem_of_nodup (portModes_nodup c) h1]
      rfl
    · rw [optMode_anc c (by omega) (by omega)]
      rw [idxOf?_getElem_of_nodup hwf.intNodup (by omega)]
      simp only
      omega
  · rw [optMode_loss c hwf (by omega)]
    unfold optIdx
    rw [if_neg hr]

theorem optIndex_internal {m j : Nat} (h : c.internal.idxOf? m = some j) :
    c.optIndex m = c.portModes.length + j := by
  unfold Circ.optIndex
  rw [h]

theorem optIndex_port {m : Nat} (h : m ∉ c.internal) :
    c.optIndex m = (c.portModes.idxOf? m).getD 0 := by
  unfold Circ.optIndex
  rw [idxOf?_of_not_mem h]

theorem optMode_optIdx (hwf : c.WF) (m : Nat) : c.optMode (optIdx c m) = m := by
  have hl := portModes_length c hwf
  unfold optIdx
  by_cases hm : m < c.n
  · rw [if_pos hm]
    by_cases hi : m ∈ c.internal
    · obtain ⟨j, hj, e1, e2⟩ := idxOf?_of_mem hi
      rw [optIndex_internal c e1, optMode_anc c (by omega) (by omega)]
      simp only [Nat.add_sub_cancel_left]
      exact e2
    · have hp : m ∈ c.portModes := (mem_portModes c).mpr ⟨hm, hi⟩
      obtain ⟨j, hj, e1, e2⟩ := idxOf?_of_mem hp
      rw [optIndex_port c hi, e1]
      simp only [Option.getD_some]
      rw [optMode_port c hj]
      exact e2
  · rw [if_neg hm, optMode_loss c hwf (by omega)]

theorem optIdx_lt (hwf : c.WF) {m N : Nat} (hN : c.n ≤ N) (h : m < N) : optIdx c m < N := by
  by_contra hc
  have h1 : c.optMode (optIdx c m) = optIdx c m := optMode_loss c hwf (by omega)
  rw [optMode_optIdx c hwf] at h1
  omega

theorem optMode_lt' (hwf : c.WF) {r N : Nat} (hN : c.n ≤ N) (h : r < N) : c.optMode r < N := by
  by_cases hr : r < c.n
  · have := optMode_lt c hwf hr; omega
  · rw [optMode_loss c hwf (by omega)]; exact h

/-- `optMode` as a (bijective) partial injection of every dimension above `n` -/
theorem pinj_optMode (hwf : c.WF) (L : Nat) :
    PInj (c.n + L) (c.n + L) (optIdx c) (fun r => some (c.optMode r)) := by
  refine ⟨fun x hx => optIdx_lt c hwf (by omega) hx, ?_, ?_⟩
  · intro x _
    show some _ = some _
    rw [optMode_optIdx c hwf]
  · intro r x hr e
    injection e with e
    subst e
    exact ⟨optMode_lt' c hwf (by omega) hr, optIdx_optMode c hwf r⟩

theorem optIdx_port_lt (hwf : c.WF) {m : Nat} (hm : m < c.n) (hi : m ∉ c.internal) :
    optIdx c m < c.portModes.length := by
  have hp : m ∈ c.portModes := (mem_portModes c).mpr ⟨hm, hi⟩
  obtain ⟨j, hj, e1, e2⟩ := idxOf?_of_mem hp
  unfold optIdx
  rw [if_pos hm, optIndex_port c hi, e1]
  exact hj

/-! ### `mapMode` enumerates the ports -/

theorem mapMode_nonneg (m : Int) (hm : 0 ≤ m) : 0 ≤ c.mapMode m :=
  Int.le_trans hm (le_skipFold _ m)

theorem mapMode_eq_port (hwf : c.WF) {r : Nat} (hr : r < c.portModes.length) :
    c.mapMode (r : Int) = (c.portModes[r] : Int) := by
  have hP := portModes_length_eq_ports c hwf
  let L1 := (List.range c.portModes.length).map fun r : Nat => (c.mapMode (r : Int)).toNat
  have hs1 : L1.Pairwise (· < ·) := by
    rw [List.pairwise_map]
    apply List.Pairwise.imp _ List.pairwise_lt_range
    intro a b hab
    have h1 := mapMode_strictMono c (a : Int) (b : Int) (by omega)
    have h2 := mapMode_nonneg c (a : Int) (by omega)
    omega
  have hsub : ∀ x ∈ L1, x ∈ c.portModes := by
    intro x hx
    simp only [L1, List.mem_map, List.mem_range] at hx
    obtain ⟨a, ha, rfl⟩ := hx
    have h0 := mapMode_nonneg c (a : Int) (by omega)
    have h1 : c.mapMode (a : Int) < (c.n : Int) :=
      (mapMode_lt_iff' c hwf (a : Int)).mpr (by rw [← hP]; omega)
    rw [mem_portModes]
    refine ⟨by omega, ?_⟩
    intro hi
    exact mapMode_not_internal c (a : Int) (by omega) _ hi (by omega)
  have heq : L1 = c.portModes :=
    eq_of_sorted_subset hs1 (portModes_sorted c) hsub (by simp [L1])
  have h0 := mapMode_nonneg c (r : Int) (by omega)
  have : L1[r]'(by simp [L1]; exact hr) = c.portModes[r] := by
    congr 1
  simp only [L1, List.getElem_map, List.getElem_range] at this
  omega

theorem mapMode_eq_optMode (hwf : c.WF) {m : Int} (h0 : 0 ≤ m) (h1 : m < (c.portModes.length : Int)) :
    c.mapMode m = (c.optMode m.toNat : Int) := by
  have hr : m.toNat < c.portModes.length := by omega
  rw [optMode_port c hr, ← mapMode_eq_port c hwf hr]
  congr 1
  omega

/-- an accepted user mode: it is a port index and maps to the corresponding port mode -/
theorem mapped_port (hwf : c.WF) {m : Int} {a : Nat} (h : c.modeInRange (c.mapMode m) = .ok a) :
    0 ≤ m ∧ m < (c.portModes.length : Int) ∧ a = c.optMode m.toNat ∧ a < c.n ∧ a ∉ c.internal := by
  obtain ⟨h0, h1, h2⟩ := modeInRange_ok h
  obtain ⟨h3, h4, -⟩ := mapped_ok h
  have hm0 : 0 ≤ m := by
    by_contra hc
    have : c.mapMode m = m := skipFold_of_lt _ m (fun a _ => by omega)
    omega
  have hP := portModes_length_eq_ports c hwf
  have hm1 : m < (c.portModes.length : Int) := by
    rw [hP]; exact (mapMode_lt_iff' c hwf m).mp h1
  refine ⟨hm0, hm1, ?_, h3, h4⟩
  have := mapMode_eq_optMode c hwf hm0 hm1
  omega

end

/-! ### the matrix of the abstraction -/

section
variable [CommRing K] [StarRing K]

set_option linter.unusedSectionVars false

theorem Ufull_n (i : K) (c : Circ K) : (c.Ufull i).n = c.n + lossCount c.spec := compile_n i c.n c.spec

theorem toOptic_p (i : K) (c : Circ K) : (c.toOptic i).p = c.portModes.length := rfl
theorem toOptic_a (i : K) (c : Circ K) : (c.toOptic i).a = c.internal.length := rfl
theorem toOptic_l (i : K) (c : Circ K) : (c.toOptic i).l = lossCount c.spec := by
  show (c.Ufull i).n - c.n = _
  rw [Ufull_n]; omega
theorem toOptic_her (i : K) (c : Circ K) :
    (c.toOptic i).her = (c.inHer.zip c.outHer).map fun (x, y) => ⟨c.optIndex x.1, c.optIndex y.1, x.2⟩ :=
  rfl

theorem toOptic_W (i : K) (c : Circ K) (hwf : c.WF) :
    (c.toOptic i).W = Optic.embedVia (c.n + lossCount c.spec) (c.Ufull i) (fun r => some (c.optMode r)) := by
  have hd : c.portModes.length + c.internal.length + ((c.Ufull i).n - c.n) = c.n + lossCount c.spec := by
    rw [Ufull_n, portModes_length c hwf]; omega
  have h0 : (c.toOptic i).W = M.ofFn (c.portModes.length + c.internal.length + ((c.Ufull i).n - c.n))
      (fun r k => (c.Ufull i).get (c.optMode r) (c.optMode k)) := rfl
  rw [h0, hd]
  rfl

theorem toOptic_W_n (i : K) (c : Circ K) (hwf : c.WF) :
    (c.toOptic i).W.n = c.n + lossCount c.spec := by
  rw [toOptic_W i c hwf]; rfl

theorem get_toOptic_W (i : K) (c : Circ K) (hwf : c.WF) {r k : Nat}
    (hr : r < c.n + lossCount c.spec) (hk : k < c.n + lossCount c.spec) :
    (c.toOptic i).W.get r k = (c.Ufull i).get (c.optMode r) (c.optMode k) := by
  rw [toOptic_W i c hwf, get_embedVia _ _ _ hr hk]

end

end LW.Proofs.C02Sem
