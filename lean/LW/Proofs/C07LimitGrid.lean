/-
  C07 limit statements, part A: deterministic equidistribution.

  On the uniform grid `{0, 1/N, …, (N-1)/N}` the number of points that select index `k` under
  inverse-CDF selection is within 1 of `N · p_k / Σp`; hence the grid frequency converges to the
  normalised weight.  Core `Rat` arithmetic only; the `Tendsto` form is in
  C07LimitGridTendsto.
-/
import Mathlib.Algebra.Order.Floor.Semiring
import Mathlib.Algebra.Order.Floor.Ring
import Mathlib.Data.Rat.Floor
import Mathlib.Data.List.GetD
import Mathlib.Algebra.Order.Archimedean.Basic
import Mathlib.Order.Interval.Finset.Nat
import Mathlib.Tactic.Positivity
import Mathlib.Tactic.FieldSimp
import LW.Proofs.C07Cdf

namespace LW.Proofs.C07

/-- number of points `j / N`, `j < N`, of the uniform grid that select index `k` -/
def gridCount (ps : List Rat) (N k : Nat) : Nat :=
  ((List.range N).filter fun (j : Nat) => inverseCdf ps ((j : Rat) / (N : Rat)) = k).length

/-- `inverseCdf_interval` without the (unused) positivity hypothesis on `p_k`: for `p_k = 0` the
interval is empty and index `k` is never selected by a variate of `[0,1)`. -/
theorem inverseCdf_interval_gen (ps : List Rat) (hnn : ∀ p ∈ ps, 0 ≤ p) (htot : 0 < ps.sum)
    (u : Rat) (hu0 : 0 ≤ u) (hu1 : u < 1) (k : Nat) (hk : k < ps.length) :
    inverseCdf ps u = k ↔ cum ps k / ps.sum ≤ u ∧ u < cum ps (k + 1) / ps.sum := by
  unfold inverseCdf
  simp only [foldl_eq_sum]
  have hlt : inverseCdf.go u ps.sum ps 0 0 < 0 + ps.length :=
    go_lt u ps.sum ps 0 0 (by simpa using hu0) (by rw [zero_add, div_self htot.ne']; exact hu1)
  have hmin : min (inverseCdf.go u ps.sum ps 0 0) (ps.length - 1) = inverseCdf.go u ps.sum ps 0 0 :=
    Nat.min_eq_left (by omega)
  rw [hmin]
  have := go_eq_iff u ps.sum htot ps hnn 0 0 k hk (by simpa using hu0)
  simpa [cum] using this

theorem cum_succ (ps : List Rat) (k : Nat) (hk : k < ps.length) :
    cum ps (k + 1) = cum ps k + ps.getD k 0 := by
  unfold cum
  rw [List.sum_take_succ ps k hk, List.getD_eq_getElem ps 0 hk]

theorem cum_nonneg (ps : List Rat) (hnn : ∀ p ∈ ps, 0 ≤ p) (k : Nat) : 0 ≤ cum ps k :=
  take_sum_nonneg ps hnn k

theorem cum_le_sum (ps : List Rat) (hnn : ∀ p ∈ ps, 0 ≤ p) (k : Nat) : cum ps k ≤ ps.sum := by
  unfold cum
  have h := List.sum_take_add_sum_drop ps k
  have h2 : 0 ≤ (ps.drop k).sum := List.sum_nonneg fun p hp => hnn p (List.mem_of_mem_drop hp)
  linarith

/-- the grid points `j / N`, `j < N`, lying in `[a, b)` (with `0 ≤ a ≤ b ≤ 1`) are exactly
`⌈a N⌉ ≤ j < ⌈b N⌉` -/
theorem grid_count_Ico (N : Nat) (hN : 0 < N) (a b : Rat) (hb : b ≤ 1) :
    ((List.range N).filter fun (j : Nat) =>
        decide (a ≤ (j : Rat) / (N : Rat) ∧ (j : Rat) / (N : Rat) < b)).length =
      ⌈b * N⌉₊ - ⌈a * N⌉₊ := by
  have hNq : (0 : Rat) < N := by exact_mod_cast hN
  have h1 : ((List.range N).filter fun (j : Nat) =>
        decide (a ≤ (j : Rat) / (N : Rat) ∧ (j : Rat) / (N : Rat) < b)).length =
      ((Finset.range N).filter fun (j : Nat) =>
        a ≤ (j : Rat) / (N : Rat) ∧ (j : Rat) / (N : Rat) < b).card := by
    simp [Finset.card, Finset.filter, Finset.range, Multiset.range]
  rw [h1, ← Nat.card_Ico]
  congr 1
  ext j
  simp only [Finset.mem_filter, Finset.mem_range, Finset.mem_Ico, Nat.ceil_le, Nat.lt_ceil,
    le_div_iff₀ hNq, div_lt_iff₀ hNq]
  constructor
  · rintro ⟨_, h2, h3⟩; exact ⟨h2, h3⟩
  · rintro ⟨h2, h3⟩
    refine ⟨?_, h2, h3⟩
    have : (j : Rat) < N := by nlinarith
    exact_mod_cast this

/-- `⌈b N⌉ - ⌈a N⌉` is within 1 of `(b - a) N` -/
theorem ceil_sub_ceil_bound (N : Nat) (hN : 0 < N) (a b : Rat) (ha : 0 ≤ a) (hab : a ≤ b) :
    |((⌈b * N⌉₊ - ⌈a * N⌉₊ : Nat) : Rat) / N - (b - a)| < 1 / N := by
  have hNq : (0 : Rat) < N := by exact_mod_cast hN
  have hx0 : 0 ≤ a * N := by positivity
  have hy0 : 0 ≤ b * N := le_trans hx0 (by nlinarith)
  have hle : ⌈a * N⌉₊ ≤ ⌈b * N⌉₊ := Nat.ceil_mono (by nlinarith)
  rw [Nat.cast_sub hle]
  have h1 := Nat.le_ceil (a * N)
  have h2 := Nat.ceil_lt_add_one hx0
  have h3 := Nat.le_ceil (b * N)
  have h4 := Nat.ceil_lt_add_one hy0
  have e : ((⌈b * N⌉₊ : Rat) - ⌈a * N⌉₊) / N - (b - a) =
      (((⌈b * N⌉₊ : Rat) - b * N) - ((⌈a * N⌉₊ : Rat) - a * N)) / N := by
    field_simp
    ring
  rw [e, abs_lt]
  constructor
  · rw [lt_div_iff₀ hNq]
    have : -(1 / (N : Rat)) * N = -1 := by field_simp
    rw [this]; linarith
  · rw [div_lt_div_iff_of_pos_right hNq]; linarith

/-- GRID FREQUENCY (strict form): the fraction of the `N` grid points selecting `k` differs from
`p_k / Σp` by less than `1 / N`; this includes `p_k = 0`, where the count is 0. -/
theorem inverseCdf_grid_frequency_lt (ps : List Rat) (hnn : ∀ p ∈ ps, 0 ≤ p) (htot : 0 < ps.sum)
    (k : Nat) (hk : k < ps.length) (N : Nat) (hN : 0 < N) :
    |(gridCount ps N k : Rat) / N - ps.getD k 0 / ps.sum| < 1 / N := by
  have hNq : (0 : Rat) < N := by exact_mod_cast hN
  have ha : 0 ≤ cum ps k / ps.sum := div_nonneg (cum_nonneg ps hnn k) htot.le
  have hpk : 0 ≤ ps.getD k 0 := by
    rw [List.getD_eq_getElem ps 0 hk]; exact hnn _ (List.getElem_mem hk)
  have hab : cum ps k / ps.sum ≤ cum ps (k + 1) / ps.sum := by
    rw [cum_succ ps k hk]
    exact div_le_div_of_nonneg_right (by linarith) htot.le
  have hb : cum ps (k + 1) / ps.sum ≤ 1 := by
    rw [div_le_one htot]; exact cum_le_sum ps hnn (k + 1)
  have hcount : gridCount ps N k =
      ⌈cum ps (k + 1) / ps.sum * N⌉₊ - ⌈cum ps k / ps.sum * N⌉₊ := by
    rw [← grid_count_Ico N hN _ _ hb]
    unfold gridCount
    congr 1
    apply List.filter_congr
    intro j hj
    have hjN : j < N := List.mem_range.mp hj
    have hu0 : (0 : Rat) ≤ (j : Rat) / N := by positivity
    have hu1 : (j : Rat) / N < 1 := by
      rw [div_lt_one hNq]; exact_mod_cast hjN
    exact decide_eq_decide.mpr (inverseCdf_interval_gen ps hnn htot _ hu0 hu1 k hk)
  have hdiff : ps.getD k 0 / ps.sum = cum ps (k + 1) / ps.sum - cum ps k / ps.sum := by
    rw [cum_succ ps k hk]; ring
  rw [hcount, hdiff]
  exact ceil_sub_ceil_bound N hN _ _ ha hab

/-- GRID FREQUENCY -/
theorem inverseCdf_grid_frequency (ps : List Rat) (hnn : ∀ p ∈ ps, 0 ≤ p) (htot : 0 < ps.sum)
    (k : Nat) (hk : k < ps.length) (N : Nat) (hN : 0 < N) :
    |(gridCount ps N k : Rat) / N - ps.getD k 0 / ps.sum| ≤ 1 / N :=
  (inverseCdf_grid_frequency_lt ps hnn htot k hk N hN).le

/-- an index of weight 0 is selected by no grid point -/
theorem gridCount_eq_zero (ps : List Rat) (hnn : ∀ p ∈ ps, 0 ≤ p) (htot : 0 < ps.sum)
    (k : Nat) (hk : k < ps.length) (hpk : ps.getD k 0 = 0) (N : Nat) : gridCount ps N k = 0 := by
  unfold gridCount
  rw [List.length_eq_zero_iff, List.filter_eq_nil_iff]
  intro j hj
  have hjN : j < N := List.mem_range.mp hj
  have hNq : (0 : Rat) < N := by exact_mod_cast (Nat.zero_lt_of_lt hjN)
  have hu0 : (0 : Rat) ≤ (j : Rat) / N := by positivity
  have hu1 : (j : Rat) / N < 1 := by
    rw [div_lt_one hNq]; exact_mod_cast hjN
  rw [decide_eq_true_eq, inverseCdf_interval_gen ps hnn htot _ hu0 hu1 k hk, cum_succ ps k hk, hpk,
    add_zero]
  intro h
  exact absurd h.2 (not_lt.mpr h.1)

/-- CONVERGENCE (ε–N₀ form over `Rat`): the grid frequency is eventually within any `ε > 0` of the
normalised weight -/
theorem inverseCdf_grid_frequency_eventually (ps : List Rat) (hnn : ∀ p ∈ ps, 0 ≤ p)
    (htot : 0 < ps.sum) (k : Nat) (hk : k < ps.length) (ε : Rat) (hε : 0 < ε) :
    ∃ N₀ : Nat, ∀ N, N₀ ≤ N → |(gridCount ps N k : Rat) / N - ps.getD k 0 / ps.sum| < ε := by
  obtain ⟨N₀, hN₀⟩ := exists_nat_gt (1 / ε)
  have hN₀pos : (0 : Rat) < N₀ := lt_trans (by positivity) hN₀
  refine ⟨N₀, fun N hN => ?_⟩
  have hNq : (N₀ : Rat) ≤ N := by exact_mod_cast hN
  have hNpos : (0 : Rat) < N := lt_of_lt_of_le hN₀pos hNq
  have hN' : 0 < N := by exact_mod_cast hNpos
  refine lt_of_le_of_lt (inverseCdf_grid_frequency ps hnn htot k hk N hN') ?_
  rw [div_lt_iff₀ hNpos]
  rw [div_lt_iff₀ hε] at hN₀
  nlinarith

/-- non-vacuity: weights 1/4, 0, 3/4 on the grid of 8 points: counts 2, 0, 6 -/
example : (∀ p ∈ ([1/4, 0, 3/4] : List Rat), 0 ≤ p) ∧ 0 < ([1/4, 0, 3/4] : List Rat).sum ∧
    gridCount [1/4, 0, 3/4] 8 0 = 2 ∧ gridCount [1/4, 0, 3/4] 8 1 = 0 ∧
    gridCount [1/4, 0, 3/4] 8 2 = 6 := by
  refine ⟨by intro p hp; simp at hp; rcases hp with h | h | h <;> rw [h] <;> norm_num,
    by norm_num, by decide +kernel, by decide +kernel, by decide +kernel⟩

/-- … and a grid on which the frequency is not exact: 7 points, index 0 gets 2/7 ≠ 1/4 but
`|2/7 - 1/4| = 1/28 < 1/7` -/
example : gridCount [1/4, 0, 3/4] 7 0 = 2 ∧
    |((2 : Nat) : Rat) / (7 : Nat) - (1/4) / (([1/4, 0, 3/4] : List Rat).sum)| < 1 / (7 : Nat) := by
  refine ⟨by decide +kernel, ?_⟩
  norm_num [abs_lt]

end LW.Proofs.C07
