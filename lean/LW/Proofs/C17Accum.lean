/-
  LW.Proofs.C17Accum — the inner loop of the mappings: images with summed weights, key order,
  conservation of the total, composition.
-/
import Mathlib.Tactic.Abel
import LW.Proofs.C17Dict

namespace LW.Res

variable {V : Type} [AddCommMonoid V]

/-- the total weight of the outputs of `row` whose image under `f` is `g` -/
def imageWeight (f : St → St) (row : PD V) (g : St) : V :=
  ((row.filter fun p => decide (f p.1 = g)).map (·.2)).sum

theorem imageWeight_nil (f : St → St) (g : St) : imageWeight f ([] : PD V) g = 0 := rfl

theorem imageWeight_cons (f : St → St) (p : St × V) (row : PD V) (g : St) :
    imageWeight f (p :: row) g = (if f p.1 = g then p.2 else 0) + imageWeight f row g := by
  unfold imageWeight
  by_cases h : f p.1 = g <;> simp [List.filter_cons, h]

theorem imageWeight_of_no_hit (f : St → St) (row : PD V) (g : St) (h : ∀ p ∈ row, f p.1 ≠ g) :
    imageWeight f row g = 0 := by
  unfold imageWeight
  rw [List.filter_eq_nil_iff.mpr]
  · rfl
  · intro p hp; simpa using h p hp

/-- the value stored by one step of the loop -/
def accVal (f : St → St) (m : PD V) (p : St × V) : V :=
  match m.get? (f p.1) with
  | some w => w + p.2
  | none => p.2

theorem accum_eq_foldl (f : St → St) (row : PD V) :
    accum f row = row.foldl (fun (m : PD V) (p : St × V) => PD.set m (f p.1) (accVal f m p)) ([] : PD V) := by
  unfold accum
  congr 1
  funext m p
  unfold accVal
  cases m.get? (f p.1) <;> rfl

theorem get?_accFold (f : St → St) (g : St) : ∀ (row : PD V) (m0 : PD V),
    PD.get? (row.foldl (fun (m : PD V) (p : St × V) => PD.set m (f p.1) (accVal f m p)) m0) g =
      if row.any (fun p => decide (f p.1 = g)) then some ((m0.get? g).getD 0 + imageWeight f row g)
      else m0.get? g
  | [], m0 => by simp
  | p :: row, m0 => by
    simp only [List.foldl_cons, List.any_cons]
    rw [get?_accFold f g row]
    by_cases hp : f p.1 = g
    · have h1 : (PD.get? (PD.set m0 (f p.1) (accVal f m0 p)) g).getD 0 = (m0.get? g).getD 0 + p.2 := by
        rw [← hp, PD.get?_set_self]
        unfold accVal
        cases m0.get? (f p.1) <;> simp
      simp only [hp, decide_true, Bool.true_or, if_true]
      rw [imageWeight_cons, if_pos hp]
      by_cases hr : row.any (fun p => decide (f p.1 = g)) = true
      · simp only [hr, if_true]
        rw [← hp] at h1 ⊢
        rw [h1, add_assoc]
      · simp only [hr, Bool.false_eq_true, if_false]
        have hz : imageWeight f row g = 0 := imageWeight_of_no_hit f row g (by
          intro q hq e
          apply hr
          simp only [List.any_eq_true, decide_eq_true_eq]
          exact ⟨q, hq, e⟩)
        rw [hz, add_zero]
        rw [← hp] at h1 ⊢
        rw [PD.get?_set_self] at h1 ⊢
        simp only [Option.getD_some] at h1
        rw [h1]
    · have h2 : PD.get? (PD.set m0 (f p.1) (accVal f m0 p)) g = m0.get? g :=
        PD.get?_set_other _ _ _ _ (fun e => hp e.symm)
      simp only [hp, decide_false, Bool.false_or]
      rw [h2, imageWeight_cons, if_neg hp, zero_add]

/-- IMAGE WITH SUMMED WEIGHTS: after the loop, an image `g` holds the sum of the weights of all
outputs mapped to it; states that are not an image are absent -/
theorem get?_accum (f : St → St) (row : PD V) (g : St) :
    (accum f row).get? g =
      if row.any (fun p => decide (f p.1 = g)) then some (imageWeight f row g) else none := by
  rw [accum_eq_foldl, get?_accFold]
  simp [PD.get?_nil]

/-- the keys of the mapped dictionary are the images, in order of first occurrence -/
theorem keys_accum (f : St → St) (row : PD V) : (accum f row).keys = dedup (row.keys.map f) := by
  rw [accum_eq_foldl]
  have := PD.keys_foldl_set (β := V) (fun p : St × V => f p.1) (accVal f) row []
  simp only [PD.keys, List.map_nil, List.nil_append, List.not_mem_nil, not_false_eq_true, decide_true,
    List.filter_true] at this
  unfold PD.keys
  rw [this]
  simp [List.map_map, Function.comp_def]

theorem nodup_keys_accum (f : St → St) (row : PD V) : (accum f row).keys.Nodup := by
  rw [keys_accum]; exact nodup_dedup _

theorem mem_keys_accum (f : St → St) (row : PD V) (g : St) :
    g ∈ (accum f row).keys ↔ ∃ o ∈ row.keys, f o = g := by
  rw [keys_accum, mem_dedup, List.mem_map]

/-- the mapped dictionary, completely: images in first-occurrence order, each with its summed weight -/
theorem accum_eq (f : St → St) (row : PD V) :
    accum f row = (dedup (row.keys.map f)).map fun g => (g, imageWeight f row g) := by
  conv_lhs => rw [PD.eq_map_keys (accum f row) (nodup_keys_accum f row)]
  rw [keys_accum]
  apply List.map_congr_left
  intro g hg
  rw [get?_accum]
  have : row.any (fun p => decide (f p.1 = g)) = true := by
    rw [mem_dedup, List.mem_map] at hg
    obtain ⟨o, ho, hog⟩ := hg
    simp only [PD.keys, List.mem_map] at ho
    obtain ⟨p, hp, rfl⟩ := ho
    simp only [List.any_eq_true, decide_eq_true_eq]
    exact ⟨p, hp, hog⟩
  simp [this]

/-! ### regrouping sums by image -/

theorem sum_map_single {gs : List St} (hn : gs.Nodup) (a : St) (ha : a ∈ gs) (c : St → V) :
    (gs.map fun g => if a = g then c g else 0).sum = c a := by
  induction gs with
  | nil => simp at ha
  | cons x xs ih =>
    simp only [List.nodup_cons] at hn
    simp only [List.map_cons, List.sum_cons]
    by_cases hx : a = x
    · subst hx
      have : (xs.map fun g => if a = g then c g else 0) = xs.map fun _ => (0 : V) := by
        apply List.map_congr_left
        intro g hg
        have : ¬ a = g := fun e => hn.1 (e ▸ hg)
        simp [this]
      rw [this]
      simp
    · have hmem : a ∈ xs := by
        rcases List.mem_cons.mp ha with h | h
        · exact absurd h hx
        · exact h
      simp [hx, ih hn.2 hmem]

theorem sum_map_add' {α : Type} (l : List α) (u v : α → V) :
    (l.map fun x => u x + v x).sum = (l.map u).sum + (l.map v).sum := by
  induction l with
  | nil => simp
  | cons x xs ih =>
    simp only [List.map_cons, List.sum_cons, ih]
    abel

/-- summing `c g · (weight of g)` over a duplicate-free list that contains every image equals
summing `c (f o) · v` over the row -/
theorem sum_regroup (f : St → St) (row : PD V) (gs : List St) (hn : gs.Nodup)
    (hall : ∀ p ∈ row, f p.1 ∈ gs) (sel : St → Bool) :
    (gs.map fun g => if sel g then imageWeight f row g else 0).sum
      = ((row.filter fun p => sel (f p.1)).map (·.2)).sum := by
  induction row with
  | nil => simp [imageWeight_nil]
  | cons p row ih =>
    have ih' := ih (fun q hq => hall q (by simp [hq]))
    have hp := hall p (by simp)
    have e : (gs.map fun g => if sel g then imageWeight f (p :: row) g else 0)
        = gs.map fun g => (if f p.1 = g then (if sel g then p.2 else 0) else 0)
            + (if sel g then imageWeight f row g else 0) := by
      apply List.map_congr_left
      intro g _
      rw [imageWeight_cons]
      by_cases h1 : sel g = true <;> by_cases h2 : f p.1 = g <;> simp [h1, h2]
    rw [e, sum_map_add', ih', sum_map_single hn (f p.1) hp (fun g => if sel g then p.2 else 0)]
    by_cases hs : sel (f p.1) = true
    · simp [List.filter_cons, hs]
    · simp [List.filter_cons, hs]

/-- CONSERVATION: a mapping keeps the total of the row -/
theorem sum_vals_accum (f : St → St) (row : PD V) : (accum f row).vals.sum = row.vals.sum := by
  rw [accum_eq]
  simp only [PD.vals, List.map_map, Function.comp_def]
  have := sum_regroup f row (dedup (row.keys.map f)) (nodup_dedup _) (fun p hp => by
    rw [mem_dedup]
    exact List.mem_map_of_mem (List.mem_map_of_mem hp)) (fun _ => true)
  simpa using this

theorem sum_filter_map_pairs (gs : List St) (w : St → V) (sel : St → Bool) :
    (((gs.map fun g => (g, w g)).filter fun p => sel p.1).map (·.2)).sum
      = (gs.map fun g => if sel g then w g else 0).sum := by
  induction gs with
  | nil => simp
  | cons x xs ih =>
    by_cases hx : sel x = true
    · simp [List.filter_cons, hx, ih]
    · simp [List.filter_cons, hx, ih]

/-- the weight of `g'` after `f` then `f'` is the weight of `g'` under the composite map -/
theorem imageWeight_accum (f f' : St → St) (row : PD V) (g' : St) :
    imageWeight f' (accum f row) g' = imageWeight (f' ∘ f) row g' := by
  rw [accum_eq]
  have := sum_regroup f row (dedup (row.keys.map f)) (nodup_dedup _) (fun p hp => by
    rw [mem_dedup]
    exact List.mem_map_of_mem (List.mem_map_of_mem hp)) (fun g => decide (f' g = g'))
  have e := sum_filter_map_pairs (dedup (row.keys.map f)) (fun g => imageWeight f row g) (fun g => decide (f' g = g'))
  show (((List.map (fun g => (g, imageWeight f row g)) (dedup (row.keys.map f))).filter
    fun p => decide (f' p.1 = g')).map (·.2)).sum = _
  rw [e, this]
  rfl

theorem dedup_map_dedup (f : St → St) : ∀ (l : List St), dedup ((dedup l).map f) = dedup (l.map f) := by
  intro l
  -- both sides are duplicate-free with the same first-occurrence order: prove via keys of a fold
  induction l with
  | nil => rfl
  | cons x xs ih =>
    simp only [dedup, List.map_cons, List.cons.injEq, true_and]
    rw [← ih]
    -- dedup (map f (filter (≠ x) (dedup xs))) filtered by ≠ f x  =  dedup (map f (dedup xs)) filtered by ≠ f x
    have key : ∀ (ys : List St), (dedup ((ys.filter fun a => decide (a ≠ x)).map f)).filter (fun a => decide (a ≠ f x))
        = (dedup (ys.map f)).filter (fun a => decide (a ≠ f x)) := by
      intro ys
      induction ys with
      | nil => rfl
      | cons y ys ihy =>
        by_cases hy : y = x
        · subst hy
          simp only [ne_eq, not_true_eq_false, decide_false, Bool.false_eq_true, not_false_eq_true,
            List.filter_cons_of_neg, List.map_cons, dedup, List.filter_filter]
          rw [ihy]
          apply List.filter_congr
          intro a _
          by_cases ha : a = f y <;> simp [ha]
        · simp only [ne_eq, hy, not_false_eq_true, decide_true, List.filter_cons_of_pos, List.map_cons, dedup,
            List.filter_cons, List.filter_filter]
          by_cases hfy : f y = f x
          · simp only [hfy, not_true_eq_false, decide_false, Bool.false_eq_true, if_false]
            have h1 := congrArg (List.filter fun a => decide (a ≠ f x)) ihy
            simp only [List.filter_filter] at h1
            have e1 : ∀ (l : List St), l.filter (fun a => decide (a ≠ f x) && decide (a ≠ f x))
                = l.filter (fun a => decide (a ≠ f x)) := by
              intro l; apply List.filter_congr; intro a _; simp
            simpa [e1] using h1
          · simp only [hfy, not_false_eq_true, decide_true, if_true, List.cons.injEq, true_and]
            have h1 := congrArg (List.filter fun a => decide (a ≠ f y)) ihy
            simp only [List.filter_filter] at h1
            have e1 : ∀ (l : List St), l.filter (fun a => decide (a ≠ f x) && decide (a ≠ f y))
                = l.filter (fun a => decide (a ≠ f y) && decide (a ≠ f x)) := by
              intro l; apply List.filter_congr; intro a _; rw [Bool.and_comm]
            rw [e1, e1]
            exact h1
    exact key (dedup xs)

/-- COMPOSITION (exact, order included): mapping by `f` and then by `f'` is mapping by `f' ∘ f` -/
theorem accum_accum (f f' : St → St) (row : PD V) : accum f' (accum f row) = accum (f' ∘ f) row := by
  rw [accum_eq f' (accum f row), accum_eq (f' ∘ f) row, keys_accum]
  have : dedup ((dedup (row.keys.map f)).map f') = dedup (row.keys.map (f' ∘ f)) := by
    rw [dedup_map_dedup, List.map_map]
  rw [this]
  apply List.map_congr_left
  intro g _
  rw [imageWeight_accum]

end LW.Res
