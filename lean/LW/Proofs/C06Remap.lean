/-
  LW.Proofs.C06Remap — label canonicalisation does not change the grouped distribution: the photon
  groups of the canonical state are a permutation of the groups of the original state, and the
  distribution of the merged output of independent groups does not depend on their order.
-/
import LW.Proofs.C06Norm
import Mathlib.Data.List.Perm.Basic
import Mathlib.Data.List.GetD

set_option linter.unusedSectionVars false

namespace LW.Proofs.C06

open LW.Src LW.SV

/-! ### merging outputs is commutative and associative -/

theorem mergeF_comm (a b : FState) : mergeF a b = mergeF b a :=
  List.zipWith_comm_of_comm (fun x y => Nat.add_comm x y)

theorem mergeF_assoc (a b c : FState) : mergeF (mergeF a b) c = mergeF a (mergeF b c) := by
  induction a generalizing b c with
  | nil => simp [mergeF]
  | cons x a ih =>
    cases b with
    | nil => simp [mergeF]
    | cons y b =>
      cases c with
      | nil => simp [mergeF]
      | cons z c =>
        have := ih b c
        simp only [mergeF, List.zipWith_cons_cons, List.cons.injEq] at this ⊢
        exact ⟨Nat.add_assoc x y z, this⟩

theorem mergeF_right_comm (a b c : FState) : mergeF (mergeF a b) c = mergeF (mergeF a c) b := by
  rw [mergeF_assoc, mergeF_comm b c, ← mergeF_assoc]

section
variable {Q : Type} [Field Q] [LinearOrder Q] [IsStrictOrderedRing Q]

theorem mix_comm {α β : Type} (d : List (α × Q)) (e : List (β × Q)) (H : α → β → Q) :
    mix d (fun a => mix e (fun b => H a b)) = mix e (fun b => mix d (fun a => H a b)) := by
  induction d with
  | nil =>
    simp only [mix_nil]
    induction e with
    | nil => rfl
    | cons y e ih => rw [mix_cons, ← ih]; simp
  | cons x d ih =>
    rw [mix_cons, ih]
    have : (fun b => mix (x :: d) fun a => H a b) = fun b => x.2 * H x.1 b + mix d (fun a => H a b) := by
      funext b; rw [mix_cons]
    rw [this, mix_add]
    congr 1
    unfold mix
    rw [← List.sum_map_mul_left]
    congr 1
    apply List.map_congr_left
    intro y _
    ring

/-- accumulator that may still be absent -/
def mergeO : Option FState → FState → FState
  | none, b => b
  | some a, b => mergeF a b

/-- merged outputs of independent groups, symmetric form -/
def specConvO (ds : List (PDist Q)) (o : Option FState) (F : FState → Q) : Q :=
  match ds with
  | [] => match o with
    | none => 0
    | some a => F a
  | d :: ds => mix d (fun b => specConvO ds (some (mergeO o b)) F)

theorem specConv_eq (ds : List (PDist Q)) (a : FState) (F : FState → Q) :
    specConv ds a F = specConvO ds (some a) F := by
  induction ds generalizing a with
  | nil => rfl
  | cons d ds ih =>
    unfold specConv specConvO
    apply mix_congr
    intro x _
    exact ih _

theorem mixGroups_eq (ds : List (PDist Q)) (F : FState → Q) :
    mixGroups ds F = specConvO ds none F := by
  cases ds with
  | nil => rfl
  | cons d ds =>
    unfold mixGroups specConvO
    apply mix_congr
    intro x _
    exact specConv_eq ds _ F

theorem mergeO_right_comm (o : Option FState) (b c : FState) :
    mergeO (some (mergeO o b)) c = mergeO (some (mergeO o c)) b := by
  cases o with
  | none => exact mergeF_comm b c
  | some a => exact mergeF_right_comm a b c

/-- the order of the independent groups is irrelevant -/
theorem specConvO_perm {ds ds' : List (PDist Q)} (hp : ds.Perm ds') (o : Option FState)
    (F : FState → Q) : specConvO ds o F = specConvO ds' o F := by
  induction hp generalizing o with
  | nil => rfl
  | cons d _ ih =>
    unfold specConvO
    apply mix_congr
    intro x _
    exact ih _
  | swap d e l =>
    show mix e (fun b => mix d (fun c => specConvO l (some (mergeO (some (mergeO o b)) c)) F)) =
      mix d (fun c => mix e (fun b => specConvO l (some (mergeO (some (mergeO o c)) b)) F))
    rw [mix_comm]
    apply mix_congr
    intro x _
    apply mix_congr
    intro y _
    rw [mergeO_right_comm]
  | trans _ _ ih1 ih2 => rw [ih1, ih2]

theorem mixGroups_perm {ds ds' : List (PDist Q)} (hp : ds.Perm ds') (F : FState → Q) :
    mixGroups ds F = mixGroups ds' F := by
  rw [mixGroups_eq, mixGroups_eq, specConvO_perm hp]

end

/-! ### the groups of the canonical state -/

theorem labelsOf_nodup (a : AState) : (labelsOf a).Nodup := dedup_nodup _

theorem mem_labelsOf (a : AState) (l : Int) : l ∈ labelsOf a ↔ ∃ row ∈ a.s, l ∈ row := by
  unfold labelsOf
  rw [mem_dedup, List.mem_flatten]

/-- the renaming of `_remap_distribution`: rank of first appearance -/
def rank (a : AState) (m : Int) : Int := ((labelsOf a).idxOf m : Int)

theorem rank_inj (a : AState) {x y : Int} (hx : x ∈ labelsOf a) (h : rank a x = rank a y) : x = y := by
  unfold rank at h
  exact (List.idxOf_inj hx).1 (by exact_mod_cast h)

theorem remapState_s (a : AState) : (remapState a).s = a.s.map fun row => sortInt (row.map (rank a)) := by
  simp only [remapState, AState.new, List.map_map, Function.comp_def]
  rfl

theorem mem_labelsOf_remap (a : AState) (x : Int) :
    x ∈ labelsOf (remapState a) ↔ x ∈ (labelsOf a).map (rank a) := by
  rw [mem_labelsOf, remapState_s]
  simp only [List.mem_map]
  constructor
  · rintro ⟨row', ⟨row, hrow, rfl⟩, hx⟩
    have hx' : x ∈ row.map (rank a) := (sortInt_perm _).mem_iff.1 hx
    obtain ⟨m, hm, rfl⟩ := List.mem_map.1 hx'
    exact ⟨m, (mem_labelsOf a m).2 ⟨row, hrow, hm⟩, rfl⟩
  · rintro ⟨m, hm, rfl⟩
    obtain ⟨row, hrow, hmr⟩ := (mem_labelsOf a m).1 hm
    exact ⟨_, ⟨row, hrow, rfl⟩, (sortInt_perm _).mem_iff.2 (List.mem_map.2 ⟨m, hmr, rfl⟩)⟩

theorem labelsOf_remap_perm (a : AState) :
    (labelsOf (remapState a)).Perm ((labelsOf a).map (rank a)) := by
  rw [List.perm_ext_iff_of_nodup (labelsOf_nodup _)]
  · exact mem_labelsOf_remap a
  · exact (List.nodup_map_iff_inj_on (labelsOf_nodup a)).2 (fun x hx y _ h => rank_inj a hx h)

theorem groupState_remap (n : Nat) (a : AState) (l : Int) (_hl : l ∈ labelsOf a) :
    groupState n (remapState a) (rank a l) = groupState n a l := by
  unfold groupState
  apply List.map_congr_left
  intro i _
  rw [remapState_s]
  have h1 : (List.map (fun row => sortInt (List.map (rank a) row)) a.s).getD i [] =
      sortInt ((a.s.getD i []).map (rank a)) := by
    have := List.getD_map (l := a.s) (d := ([] : List Int)) (n := i)
      (fun row => sortInt (List.map (rank a) row))
    simpa [sortInt] using this
  rw [h1, (sortInt_perm _).count_eq, List.count_eq_countP, List.countP_map, List.count_eq_countP]
  apply List.countP_congr
  intro m hm
  simp only [Function.comp, beq_iff_eq]
  have hmem : m ∈ labelsOf a := by
    rw [mem_labelsOf]
    by_cases hi : i < a.s.length
    · refine ⟨a.s[i], List.getElem_mem hi, ?_⟩
      simpa [List.getD_eq_getElem?_getD, hi] using hm
    · simp [List.getD_eq_getElem?_getD, hi] at hm
  constructor
  · intro h; exact rank_inj a hmem h
  · intro h; rw [h]

/-- the photon groups of the canonical state are a permutation of the original groups -/
theorem groupsOf_remap_perm (n : Nat) (a : AState) :
    (groupsOf n (remapState a)).Perm (groupsOf n a) := by
  have hp := labelsOf_remap_perm a
  unfold groupsOf
  simp only
  by_cases he : (labelsOf a).isEmpty = true
  · have h0 : labelsOf a = [] := List.isEmpty_iff.1 he
    have h1 : labelsOf (remapState a) = [] := by
      rw [h0] at hp
      exact List.Perm.eq_nil (by simpa using hp)
    rw [h0, h1]
    exact List.Perm.refl _
  · have h0 : labelsOf a ≠ [] := fun h => he (List.isEmpty_iff.2 h)
    have h1 : ¬ (labelsOf (remapState a)).isEmpty = true := by
      intro h
      rw [List.isEmpty_iff.1 h] at hp
      have := hp.symm.eq_nil
      exact h0 (List.map_eq_nil_iff.1 this)
    rw [if_neg he, if_neg h1]
    refine (hp.map _).trans ?_
    rw [List.map_map]
    apply List.Perm.of_eq
    apply List.map_congr_left
    intro l hl
    exact groupState_remap n a l hl

section
variable {Q : Type} [Field Q] [LinearOrder Q] [IsStrictOrderedRing Q]

/-- REMAP PRESERVES THE GROUPED DISTRIBUTION (one state): for any per-group distribution `fd` and
any observable `F`, the canonical state yields the same merged-output mixture -/
theorem mixGroups_remap (n : Nat) (fd : FState → PDist Q) (a : AState) (F : FState → Q) :
    mixGroups ((groupsOf n (remapState a)).map fd) F = mixGroups ((groupsOf n a).map fd) F :=
  mixGroups_perm ((groupsOf_remap_perm n a).map fd) F

end

section Main
variable {K Q : Type} [CommRing K] [Field Q] [LinearOrder Q] [IsStrictOrderedRing Q]

theorem mem_remapDistribution (d : KD AState Q) (x : AState × Q) (hx : x ∈ remapDistribution d) :
    ∃ y ∈ d, x.1 = remapState y.1 := by
  have : x.1 ∈ (remapDistribution d).map (·.1) := List.mem_map.2 ⟨x, hx, rfl⟩
  unfold remapDistribution at this
  rw [mem_ofPairs_keys] at this
  simp only [List.map_map, List.mem_map, Function.comp] at this
  obtain ⟨y, hy, hyx⟩ := this
  exact ⟨y, hy, hyx.symm⟩

/-- REMAP PRESERVES THE MIXTURE: `annotated_state_pdist_calc` gives the same output distribution
on the canonicalised (relabelled, merged) statistics as on the raw ones -/
theorem remap_preserves_mixture (b : BackendKind) (nsq : K → Q) (eps : Q) (U : M K) (nReal : Nat)
    (d : KD AState Q) (hne : ∀ g : FState, g.length = nReal → fullDist b nsq eps U nReal g ≠ [])
    (F : FState → Q) :
    mix (annotatedPdist b nsq eps U nReal (remapDistribution d)) F =
      mix (annotatedPdist b nsq eps U nReal d) F := by
  rw [mix_annotatedPdist b nsq eps U nReal _ (fun x _ g hg => hne g (groupsOf_len nReal x.1 g hg)),
    mix_annotatedPdist b nsq eps U nReal _ (fun x _ g hg => hne g (groupsOf_len nReal x.1 g hg)),
    mix_remapDistribution]
  apply mix_congr
  intro x _
  exact mixGroups_remap nReal _ x.1 F

end Main

end LW.Proofs.C06
