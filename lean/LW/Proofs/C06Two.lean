/-
  LW.Proofs.C06Two — two photons on two modes from a pure source, in closed form; the
  zero-indistinguishability (classical particles) and the purity = indistinguishability = 1
  (brightness-only path) clauses for that input, with the general statements kept as `Prop`s.
-/
import LW.Proofs.C06Hom
import LW.Proofs.C06Perfect

set_option linter.unusedSectionVars false

namespace LW.Proofs.C06

open LW.Src LW.SV

section Lin
variable {α Q : Type} [Field Q] [LinearOrder Q] [IsStrictOrderedRing Q]

theorem mix_mul_left (d : List (α × Q)) (F : α → Q) (c : Q) :
    mix d (fun a => c * F a) = c * mix d F := by
  have : (fun a => c * F a) = fun a => F a * c := by funext a; ring
  rw [this, mix_mul_right]; ring

end Lin

section Two
variable {K Q : Type} [CommRing K] [Field Q] [LinearOrder Q] [IsStrictOrderedRing Q]

theorem c0_of_pure (P : Params Q) (hx : P.p2 = 0) : c0 P = 1 - P.nu := by simp [c0, p1, hx]

/-- TWO PHOTONS FROM A PURE SOURCE, closed form: with `V g = ⟨F⟩` on the output of the single group
`g`, `T_dis = ⟨F⟩` on the merged outputs of two distinguishable single photons,
`⟨F⟩ = (1-ν)² V00 + (1-ν)ν (V10 + V01) + ν² (q² V11 + (1-q²) T_dis)` -/
theorem two_photon_pure (b : BackendKind) (nsq : K → Q) (eps : Q) (U : M K) (P : Params Q)
    (h : InRange P) (hx : P.p2 = 0)
    (hne : ∀ g : FState, g.length = 2 → fullDist b nsq eps U 2 g ≠ []) (F : FState → Q) :
    mix (annotatedPdist b nsq eps U 2 (buildStatisticsFull P [1, 1])) F =
      (1 - P.nu) * (1 - P.nu) * mix (fullDist b nsq eps U 2 [0, 0]) F +
      (1 - P.nu) * P.nu * (mix (fullDist b nsq eps U 2 [1, 0]) F + mix (fullDist b nsq eps U 2 [0, 1]) F) +
      P.nu * P.nu * (P.pi * P.pi * mix (fullDist b nsq eps U 2 [1, 1]) F +
        (1 - P.pi * P.pi) *
          mixGroups [fullDist b nsq eps U 2 [1, 0], fullDist b nsq eps U 2 [0, 1]] F) := by
  rw [output_mixture b nsq eps U 2 P h [1, 1] (by simp) hne F, mix_specFull_11]
  have hone : ∀ g : FState, mixGroups [fullDist b nsq eps U 2 g] F = mix (fullDist b nsq eps U 2 g) F :=
    fun g => rfl
  simp only [outcomeTable, mix_cons, mix_nil, add_zero, c1dp_of_pure P hx, c12d_of_pure P hx,
    c1d2d_of_pure P hx, zero_mul, c1_of_pure P hx, c1d_of_pure P hx, c0_of_pure P hx]
  norm_num only [groups_00, groups_i0, groups_d0, groups_0i, groups_0d, groups_ii, groups_id,
    groups_di, groups_dd, List.map_cons, List.map_nil, hone]
  ring

/-! ### zero indistinguishability: classical particles -/

/-- independent classical particles: each photon of `ms` (given by its mode) is emitted with
probability `nu` and then moves by its own single-photon distribution; the outputs are merged -/
def classicalMix (fd : FState → PDist Q) (n : Nat) (nu : Q) :
    List Nat → Option FState → (FState → Q) → Q
  | [], none, F => mix (fd (List.replicate n 0)) F
  | [], some a, F => F a
  | m :: ms, o, F =>
    (1 - nu) * classicalMix fd n nu ms o F +
      nu * mix (fd (unitVec n m)) (fun b => classicalMix fd n nu ms (some (mergeO o b)) F)

/-- ZERO INDISTINGUISHABILITY GIVES CLASSICAL PARTICLES (full statement, any input) -/
def zero_indist_classical_statement : Prop :=
  ∀ (K Q : Type) [CommRing K] [Field Q] [LinearOrder Q] [IsStrictOrderedRing Q]
    (b : BackendKind) (nsq : K → Q) (eps : Q) (U : M K) (nReal : Nat) (P : Params Q),
    InRange P → P.p2 = 0 → P.pi = 0 → ∀ (s : FState), s.length = nReal → s ≠ [] →
    (∀ g : FState, g.length = nReal → fullDist b nsq eps U nReal g ≠ []) → ∀ (F : FState → Q),
    mix (annotatedPdist b nsq eps U nReal (buildStatisticsFull P s)) F =
      classicalMix (fullDist b nsq eps U nReal) nReal P.nu (partitionIdx s) none F

/-- … proved for one photon in each of two modes -/
theorem zero_indist_classical_partial (b : BackendKind) (nsq : K → Q) (eps : Q) (U : M K)
    (P : Params Q) (h : InRange P) (hx : P.p2 = 0) (hq : P.pi = 0)
    (hne : ∀ g : FState, g.length = 2 → fullDist b nsq eps U 2 g ≠ []) (F : FState → Q) :
    mix (annotatedPdist b nsq eps U 2 (buildStatisticsFull P [1, 1])) F =
      classicalMix (fullDist b nsq eps U 2) 2 P.nu (partitionIdx [1, 1]) none F := by
  rw [two_photon_pure b nsq eps U P h hx hne F, hq]
  have hp : partitionIdx [1, 1] = [0, 1] := by decide
  have hu0 : unitVec 2 0 = [1, 0] := by decide
  have hu1 : unitVec 2 1 = [0, 1] := by decide
  have hr : List.replicate 2 0 = [0, 0] := rfl
  rw [hp]
  simp only [classicalMix, hu0, hu1, hr, mergeO]
  have hd : mixGroups [fullDist b nsq eps U 2 [1, 0], fullDist b nsq eps U 2 [0, 1]] F =
      mix (fullDist b nsq eps U 2 [1, 0])
        (fun a => mix (fullDist b nsq eps U 2 [0, 1]) (fun c => F (mergeF a c))) := rfl
  rw [hd, mix_add, mix_mul_left, mix_mul_left]
  ring

/-! ### purity = indistinguishability = 1: the brightness-only path -/

/-- `pdist_calc` before the vacuum bookkeeping, as a mixture -/
theorem mix_calcPd (b : BackendKind) (nsq : K → Q) (eps : Q) (U : M K) (nReal : Nat)
    (inputs : List (FState × Q)) (F : FState → Q) :
    mix (C04a.calcPd b nsq eps U nReal inputs) F =
      mix inputs (fun s => mix (fullDist b nsq eps U nReal s) F) := by
  unfold C04a.calcPd
  have key : ∀ (cs : List (FState × Q)) (stats : PDist Q), (stats.map (·.1)).Nodup →
      ((cs.foldl (fun (pd : PDist Q) (sw : FState × Q) =>
          (fullDist b nsq eps U nReal sw.1).foldl (fun (pd : PDist Q) (tp : FState × Q) =>
            pd.addTo tp.1 (tp.2 * sw.2)) pd) stats).map (·.1)).Nodup ∧
      mix (cs.foldl (fun (pd : PDist Q) (sw : FState × Q) =>
          (fullDist b nsq eps U nReal sw.1).foldl (fun (pd : PDist Q) (tp : FState × Q) =>
            pd.addTo tp.1 (tp.2 * sw.2)) pd) stats) F =
        mix stats F + mix cs (fun s => mix (fullDist b nsq eps U nReal s) F) := by
    intro cs
    induction cs with
    | nil => intro stats h; exact ⟨h, by simp⟩
    | cons c cs ih =>
      intro stats h
      rw [List.foldl_cons]
      have hinner : (fullDist b nsq eps U nReal c.1).foldl (fun (pd : PDist Q) (tp : FState × Q) =>
            pd.addTo tp.1 (tp.2 * c.2)) stats =
          ((fullDist b nsq eps U nReal c.1).map fun o => (o.1, c.2 * o.2)).foldl
            (fun d x => KD.addTo d x.1 x.2) stats := by
        rw [List.foldl_map]
        congr 1
        funext pd tp
        rw [mul_comm]
        rfl
      rw [hinner]
      obtain ⟨h1, h2⟩ := ih _ (foldl_addTo_keys_nodup _ stats h)
      refine ⟨h1, ?_⟩
      rw [h2, mix_foldl_addTo _ stats F h, mix_scale, mix_cons, add_assoc]
  have := (key inputs [] (by simp)).2
  rw [this, mix_nil, zero_add]

/-- BRIGHTNESS-ONLY PATH = ANNOTATED PATH AT PURITY = INDISTINGUISHABILITY = 1 (full statement) -/
def basic_path_eq_full_path_statement : Prop :=
  ∀ (K Q : Type) [CommRing K] [Field Q] [LinearOrder Q] [IsStrictOrderedRing Q]
    (b : BackendKind) (nsq : K → Q) (eps : Q) (U : M K) (nReal : Nat) (P : Params Q),
    InRange P → P.p2 = 0 → P.pi = 1 → ∀ (s : FState), s.length = nReal → s ≠ [] →
    (∀ g : FState, g.length = nReal → fullDist b nsq eps U nReal g ≠ []) → ∀ (F : FState → Q),
    mix (annotatedPdist b nsq eps U nReal (buildStatisticsFull P s)) F =
      mix (C04a.calcPd b nsq eps U nReal (buildStatisticsBasic P s)) F

theorem mix_buildStatisticsBasic_11 (P : Params Q) (h : InRange P) (H : FState → Q) :
    mix (buildStatisticsBasic P [1, 1]) H =
      P.nu * P.nu * H [1, 1] + (1 - P.nu) * P.nu * (H [1, 0] + H [0, 1]) +
        (1 - P.nu) * (1 - P.nu) * H [0, 0] := by
  have htot := total_buildStatisticsBasic P h [1, 1]
  rw [buildStatisticsBasic_eq] at htot ⊢
  simp only at htot ⊢
  have hp : partitionIdx [1, 1] = [0, 1] := by decide
  rw [hp] at htot ⊢
  set d : KD FState Q := KD.ofPairs
    (([0, 1].foldl (basicStep P [1, 1].length) []).map fun x => (x.2, x.1)) with hd
  have hne : ¬ d.isEmpty = true := by
    intro he
    rw [if_pos he] at htot
    -- `[(s,1)]` has total 1, so this branch is not excluded by `htot`; use the keys instead
    have : (([0, 1].foldl (basicStep P [1, 1].length) []).map fun x => (x.2, x.1)) ≠ [] := by
      by_cases hν : P.nu < 1 <;> simp [basicStep, hν]
    obtain ⟨y, l, hyl⟩ := List.exists_cons_of_ne_nil this
    have hm : y.1 ∈ d.map (·.1) := by
      rw [hd, mem_ofPairs_keys, hyl]; simp
    rw [List.isEmpty_iff.1 he] at hm
    cases hm
  rw [if_neg hne, hd, mix_ofPairs]
  by_cases hν : P.nu < 1
  · simp [basicStep, hν, unitVec, mix, List.range_succ]
    ring
  · have h1 : P.nu = 1 := le_antisymm h.nu1 (not_lt.1 hν)
    simp [basicStep, hν, unitVec, mix, List.range_succ, h1]

/-- … proved for one photon in each of two modes -/
theorem basic_path_eq_full_path_partial (b : BackendKind) (nsq : K → Q) (eps : Q) (U : M K)
    (P : Params Q) (h : InRange P) (hx : P.p2 = 0) (hq : P.pi = 1)
    (hne : ∀ g : FState, g.length = 2 → fullDist b nsq eps U 2 g ≠ []) (F : FState → Q) :
    mix (annotatedPdist b nsq eps U 2 (buildStatisticsFull P [1, 1])) F =
      mix (C04a.calcPd b nsq eps U 2 (buildStatisticsBasic P [1, 1])) F := by
  rw [two_photon_pure b nsq eps U P h hx hne F, hq, mix_calcPd, mix_buildStatisticsBasic_11 P h]
  ring

end Two

end LW.Proofs.C06
