/-
  LW.Proofs.C15Full4 — matrix form of the circuits clause (each basis change is the 2×2 unitary on
  the two physical rails of its qubit), and the original form under the hypothesis that no ancilla
  lies between the rails of a qubit.
-/
import LW.Proofs.C15Full3

namespace LW.Tomo

open LW.Proofs.C02

variable {K : Type} [CommRing K]

set_option linter.unusedSectionVars false

/-- one 2×2 unitary `u` applied on the rails `a`, `b` of the compile state `U` -/
def railStep (a b : Nat) (U u : M K) : M K :=
  (embed2 U.n a b (u.get 0 0) (u.get 0 1) (u.get 1 0) (u.get 1 1)).mul U

theorem stretched_fold (i : K) (us : List (M K)) (hus : ∀ u ∈ us, u.n = 2) (t a : Nat) (U : M K) :
    ((stretchSpec t (us.map fun u => Comp.prim (.unitary 0 u))).map (Comp.shift a)).foldl
        (compileComp i) U
      = us.foldl (railStep a (a + t + 1)) U := by
  rw [stretchSpec_unitaries us hus t, List.map_map]
  have hmap : (Comp.shift a ∘ fun u : M K => Comp.prim (.unitary 0 (stretchU t u)))
      = fun u => Comp.prim (.unitary a (stretchU t u)) := by
    funext u
    simp [Comp.shift, Prim.shift]
  rw [hmap]
  induction us generalizing U with
  | nil => rfl
  | cons u r ih =>
    simp only [List.map_cons, List.foldl_cons]
    have e : compileComp i U (.prim (.unitary a (stretchU t u))) = railStep a (a + t + 1) U u := by
      rw [compileComp_unitary, embedBlock_stretchU _ _ _ _ (hus u List.mem_cons_self)]
      rfl
    rw [e]
    exact ih (fun v hv => hus v (List.mem_cons_of_mem _ hv)) _

/-- the images of the two rails of a qubit are `railGap + 1` apart -/
theorem railGap_spec (c : Circ K) (x : Nat) :
    (c.mapMode (x : Int)).toNat + railGap c x + 1 = (c.mapMode ((x : Int) + 1)).toNat := by
  have h0 : 0 ≤ c.mapMode (x : Int) := skipFold_nonneg _ _ (by omega)
  have h1 : c.mapMode (x : Int) < c.mapMode ((x : Int) + 1) :=
    skipFold_strictMono _ (by omega)
  unfold railGap
  omega

/-- the circuits clause, matrix form: `U_full` of the requested circuit is the base's followed,
for each qubit `k`, by the unitaries of its basis change on the physical rails
`_map_mode(2k)`, `_map_mode(2k+1)` -/
theorem requested_circuits_matrix (i h : K) (nQ : Nat) (base : Circ K) (s : Meas) (hwf : base.WF)
    (hin : base.inputModes = 2 * nQ) (hs : s.length = nQ) :
    ∃ c, createCircuit nQ base (s.map (measCirc i h)) = .ok c ∧ c.n = base.n ∧
      c.inHer = base.inHer ∧ c.outHer = base.outHer ∧ c.internal = base.internal ∧
      Circ.Ufull i c = ((List.range nQ).zip s).foldl
        (fun U ks => (measUs i h ks.2).foldl
          (railStep (base.mapMode (2 * (ks.1 : Int))).toNat
            (base.mapMode (2 * (ks.1 : Int) + 1)).toNat) U)
        (base.Ufull i) := by
  obtain ⟨c, h1, h2, h3, h4, h5, h6⟩ := requested_circuits_wf i h nQ base s hwf hin hs
  refine ⟨c, h1, h2, h3, h4, h5, ?_⟩
  rw [h6]
  congr 1
  funext U ks
  rw [measCirc_spec, stretched_fold i _ (measUs_n i h ks.2)]
  have := railGap_spec base (2 * ks.1)
  push_cast at this
  rw [this]

theorem foldl_congr_mem {α β : Type} (l : List α) (f g : β → α → β)
    (h : ∀ U, ∀ x ∈ l, f U x = g U x) (init : β) : l.foldl f init = l.foldl g init := by
  induction l generalizing init with
  | nil => rfl
  | cons a t ih =>
    simp only [List.foldl_cons]
    rw [h init a List.mem_cons_self]
    exact ih (fun U x hx => h U x (List.mem_cons_of_mem _ hx)) _

/-- the original form of the circuits clause holds when no ancilla lies between the two rails of
any qubit -/
theorem requested_circuits_adjacent (i h : K) (nQ : Nat) (base : Circ K) (s : Meas) (hwf : base.WF)
    (hin : base.inputModes = 2 * nQ) (hs : s.length = nQ)
    (hadj : ∀ k : Nat, k < nQ →
      base.mapMode (2 * (k : Int) + 1) = base.mapMode (2 * (k : Int)) + 1) :
    ∃ c, createCircuit nQ base (s.map (measCirc i h)) = .ok c ∧ c.n = base.n ∧
      c.inHer = base.inHer ∧ c.outHer = base.outHer ∧
      Circ.Ufull i c = ((List.range nQ).zip s).foldl
        (fun U ks => ((measCirc i h ks.2).spec.map
            (Comp.shift (base.mapMode (2 * (ks.1 : Int))).toNat)).foldl (compileComp i) U)
        (base.Ufull i) := by
  obtain ⟨c, h1, h2, h3, h4, _, h6⟩ := requested_circuits_wf i h nQ base s hwf hin hs
  refine ⟨c, h1, h2, h3, h4, ?_⟩
  rw [h6]
  apply foldl_congr_mem
  intro U ks hks
  have hk : ks.1 < nQ := by
    have := (List.of_mem_zip (show (ks.1, ks.2) ∈ (List.range nQ).zip s from hks)).1
    exact List.mem_range.mp this
  have hg : railGap base (2 * ks.1) = 0 := by
    have h0 := railGap_spec base (2 * ks.1)
    have h1 := hadj ks.1 hk
    have h2 : 0 ≤ base.mapMode (2 * (ks.1 : Int)) := skipFold_nonneg _ _ (by omega)
    push_cast at h0
    rw [h1] at h0
    omega
  rw [hg]
  rfl

end LW.Tomo
